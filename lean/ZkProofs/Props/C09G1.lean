/-
C09, concrete G1 codec: the EXECUTABLE zcash compressed codec of BLS12-381 G1
(`ZkModel/L0/G1.lean`: `G1.toCompressed`, `G1.fromCompressed`, the functions the correspondence
check runs against `bls12_381_plus`) is CANONICAL. These are the concrete counterparts of the
abstract `Codec` laws of `ZkProofs/Lawful.lean`:

* `enc_len`  — `g1_enc_len`: every encoding has 48 bytes;
* `strict`   — `g1_strict`: an accepted byte string IS the encoding of the point returned
  (so two different strings never decode to the same point: `g1_decode_unique`);
* `dec_enc`  — `g1_dec_enc`: every point of the curve in the order-`R` subgroup (the identity
  included) decodes from its encoding (so the encoder is injective there:
  `g1_enc_injective_on_curve`).

All statements are for ALL inputs. The one arithmetic fact about the curve that is needed is
`no_two_torsion`: `x³ + 4 ≠ 0` in `Fp` (E1 has no point with `y = 0`), without which the sort flag
of an encoding would not be determined by the point.
-/
import ZkProofs.Lemmas.G1Codec
import ZkProofs.Props.C09Concrete
namespace Zk.C09G1
open Zk Zk.G1Codec Zk.Codecs.ScalarCodec

/-- **`enc_len`**: `G1Affine::to_compressed` always produces 48 bytes (for every triple
`(x, y, inf)`, in normal form or not). -/
theorem g1_enc_len (p : G1Pt) : (G1.toCompressed p).length = 48 := by
  unfold G1.toCompressed
  have hlen : (i2osp 48 (if p.inf then 0 else p.x)).length = 48 := i2ospAux_length 48 _
  cases hi : i2osp 48 (if p.inf = true then 0 else p.x) with
  | nil => rw [hi] at hlen; simp at hlen
  | cons b0 rest =>
    rw [hi] at hlen
    simpa using hlen

/-- **E1 has no point of order 2**: `x³ + 4 ≢ 0 (mod P)` for every `x` (`−4` is not a cube in
`Fp`: `(−4)^((P−1)/3) ≠ 1`, checked by kernel evaluation). So no point of the curve has `y = 0`,
and `y ≠ −y` for every affine point. -/
theorem no_two_torsion : ∀ x, x < P → G1.rhs x ≠ 0 := fun x _ => rhs_ne_zero x

/-- The same for unreduced `x`. -/
theorem no_two_torsion' (x : Nat) : G1.rhs x ≠ 0 := rhs_ne_zero x

/-- No point accepted by `onCurve` has `y = 0`. -/
theorem onCurve_y_ne_zero {p : G1Pt} (hc : G1.onCurve p = true) (hi : p.inf = false) :
    p.y ≠ 0 := by
  intro hy
  unfold G1.onCurve at hc
  rw [hi] at hc
  simp only [Bool.false_eq_true, if_false, Bool.and_eq_true, decide_eq_true_eq, beq_iff_eq] at hc
  have : Fp.sq p.y = 0 := by rw [hy]; decide
  exact rhs_ne_zero p.x (by rw [← hc.2, this])

/-! ### `strict` -/

/-- Strictness of the unchecked decoder (`from_compressed_unchecked`, 48 bytes): it accepts only
the canonical encoding of the point it returns. -/
theorem g1_unchecked_strict {b0 : UInt8} {rest : Bytes} {p : G1Pt} (hl : rest.length = 47)
    (h : G1.fromCompressedUnchecked b0 rest = some p) : G1.toCompressed p = b0 :: rest := by
  have hio := i2osp48_os2ip (b0 &&& 0x1f) rest hl
  unfold G1.fromCompressedUnchecked at h
  simp only [] at h
  split at h
  · exact absurd h (by simp)
  · split at h
    · -- identity branch
      rename_i hc
      cases h
      simp only [Bool.and_eq_true, Bool.not_eq_true', beq_iff_eq] at hc
      obtain ⟨⟨⟨hinf, hcomp⟩, hsort⟩, hx0⟩ := hc
      rw [hx0, i2osp48_zero] at hio
      injection hio with h0 hr
      rw [G1Pt.zero, toCompressed_inf, hr, byte_identity b0 hcomp hinf hsort h0.symm]
    · -- point branch
      split at h
      · exact absurd h (by simp)
      · rename_i r hs
        split at h
        · rename_i hc
          cases h
          simp only [Bool.and_eq_true, Bool.not_eq_true'] at hc
          obtain ⟨hinf, hcomp⟩ := hc
          rw [toCompressed_point hio]
          -- the sort flag of the returned ordinate is the sort flag of the input
          have hrlt := sqrt_some_lt hs
          have hr0 : r ≠ 0 := by
            intro h0
            have h2 := (sqrt_some hs).2
            rw [h0, Nat.mod_eq_of_lt (rhs_lt _)] at h2
            exact rhs_ne_zero _ h2.symm
          have hflag : Fp.lexLargest (if (Fp.lexLargest r != (b0 &&& 0x20 != 0)) = true
              then Fp.neg r else r) = (b0 &&& 0x20 != 0) := by
            cases hsort : (b0 &&& 0x20 != 0) <;> cases hlr : Fp.lexLargest r <;>
              simp [hlr, lexLargest_neg hr0 hrlt]
          rw [hflag, byte_point b0 _ hcomp hinf rfl]
        · exact absurd h (by simp)

/-- **`strict`**: `G1Affine::from_compressed` accepts only the canonical encoding of the point it
returns: `from_compressed b = Some p → to_compressed p = b`, for every byte string `b`. -/
theorem g1_strict {b : Bytes} {p : G1Pt} (h : G1.fromCompressed b = some p) :
    G1.toCompressed p = b := by
  have hlen := C09Concrete.g1_decode_length h
  cases b with
  | nil => simp at hlen
  | cons b0 rest =>
    exact g1_unchecked_strict (by simpa using hlen) (C09Concrete.g1_decode_unchecked h)

/-- Two byte strings that decode to the same point are equal (no malleability of encodings). -/
theorem g1_decode_unique {b b' : Bytes} {p : G1Pt} (h : G1.fromCompressed b = some p)
    (h' : G1.fromCompressed b' = some p) : b = b' := by
  rw [← g1_strict h, ← g1_strict h']

/-! ### `dec_enc` -/

/-- Round trip through the unchecked decoder for every point of the curve (subgroup or not). -/
theorem g1_unchecked_dec_enc {p : G1Pt} (hc : G1.onCurve p = true) :
    ∃ b0 rest, G1.toCompressed p = b0 :: rest ∧ rest.length = 47 ∧
      G1.fromCompressedUnchecked b0 rest = some p := by
  obtain ⟨x, y, inf⟩ := p
  cases inf with
  | true =>
    unfold G1.onCurve at hc
    simp only [if_true, Bool.and_eq_true, beq_iff_eq] at hc
    obtain ⟨hx, hy⟩ := hc
    subst hx; subst hy
    exact ⟨0xc0, List.replicate 47 0, toCompressed_inf 0 0, by simp, by decide⟩
  | false =>
    have hy0 : y ≠ 0 := onCurve_y_ne_zero (p := ⟨x, y, false⟩) hc rfl
    unfold G1.onCurve at hc
    simp only [Bool.false_eq_true, if_false, Bool.and_eq_true, decide_eq_true_eq, beq_iff_eq] at hc
    obtain ⟨⟨hx, hy⟩, heq⟩ := hc
    obtain ⟨b0, rest, hi, hl, hb, hv⟩ := i2osp48_canonical hx
    obtain ⟨hm, hcomp, hinf, hsort⟩ := byte_flags b0 (Fp.lexLargest y) hb
    obtain ⟨r, hs, hrlt, hr⟩ := sqrt_sq hy
    refine ⟨_, rest, toCompressed_point hi, hl, ?_⟩
    unfold G1.fromCompressedUnchecked
    simp only []
    rw [hm, hcomp, hinf, hsort, hv, if_neg (by omega)]
    simp only [Bool.false_and, Bool.false_eq_true, if_false, ← heq, hs, Bool.not_false,
      Bool.and_self, if_true]
    have hsel : (if (Fp.lexLargest r != Fp.lexLargest y) = true then Fp.neg r else r) = y := by
      rcases hr with hr | hr
      · subst hr; simp
      · subst hr
        rw [lexLargest_neg hy0 hy, neg_neg hy]
        cases Fp.lexLargest y <;> simp
    rw [hsel]

/-- **`dec_enc`**: every point of E1 in the order-`R` subgroup, in normal form (`onCurve`: reduced
coordinates, `y² = x³ + 4`, or the identity `(0, 0, inf)`), decodes from its encoding. -/
theorem g1_dec_enc {p : G1Pt} (hc : G1.onCurve p = true) (hs : G1.inSubgroup p = true) :
    G1.fromCompressed (G1.toCompressed p) = some p := by
  obtain ⟨b0, rest, he, hl, hd⟩ := g1_unchecked_dec_enc hc
  rw [he]
  unfold G1.fromCompressed
  rw [if_neg (by simp [hl])]
  simp only [hd, hs, if_true]

/-- The hypotheses of `g1_dec_enc` are satisfiable: the identity and the standard generator. -/
example : G1.fromCompressed (G1.toCompressed G1Pt.zero) = some G1Pt.zero :=
  g1_dec_enc onCurve_zero inSubgroup_zero
example : G1.fromCompressed (G1.toCompressed G1.gen) = some G1.gen :=
  g1_dec_enc onCurve_gen inSubgroup_gen

/-- The encoder is injective on the points of the curve in the subgroup. -/
theorem g1_enc_injective_on_curve {p q : G1Pt} (hp : G1.onCurve p = true)
    (hps : G1.inSubgroup p = true) (hq : G1.onCurve q = true) (hqs : G1.inSubgroup q = true)
    (h : G1.toCompressed p = G1.toCompressed q) : p = q := by
  have h1 := g1_dec_enc hp hps
  rw [h, g1_dec_enc hq hqs] at h1
  exact (Option.some.inj h1).symm

/-- Everything the decoder returns is a point of the curve in normal form (so the two laws
compose: decoded points satisfy the hypotheses of `g1_dec_enc`). -/
theorem g1_decode_onCurve {b : Bytes} {p : G1Pt} (h : G1.fromCompressed b = some p) :
    G1.onCurve p = true := by
  have hlen := C09Concrete.g1_decode_length h
  cases b with
  | nil => simp at hlen
  | cons b0 rest =>
    have hu := C09Concrete.g1_decode_unchecked h
    unfold G1.fromCompressedUnchecked at hu
    simp only [] at hu
    split at hu
    · exact absurd hu (by simp)
    · rename_i hx
      split at hu
      · cases hu; decide
      · split at hu
        · exact absurd hu (by simp)
        · rename_i r hs
          split at hu
          · cases hu
            have hrlt := sqrt_some_lt hs
            have h2 := (sqrt_some hs).2
            rw [Nat.mod_eq_of_lt (rhs_lt _)] at h2
            unfold G1.onCurve
            simp only [Bool.false_eq_true, if_false, Bool.and_eq_true, decide_eq_true_eq,
              beq_iff_eq]
            refine ⟨⟨by omega, ?_⟩, ?_⟩
            · split
              · exact neg_lt _
              · exact hrlt
            · split
              · apply cast_inj (sq_lt _) (rhs_lt _)
                rw [sq_cast, neg_cast, neg_sq, ← sq_cast]
                exact congrArg _ h2
              · exact h2
          · exact absurd hu (by simp)

/-- Decoding then encoding then decoding is decoding: the codec is a bijection between accepted
strings and the points of the subgroup in normal form. -/
theorem g1_decode_roundtrip {b : Bytes} {p : G1Pt} (h : G1.fromCompressed b = some p) :
    G1.fromCompressed (G1.toCompressed p) = some p :=
  g1_dec_enc (g1_decode_onCurve h) (C09Concrete.g1_decode_inSubgroup h)

/-! ### the abstract `Codec` laws, literally -/

/-- The points the codec is about: E1 in normal form, order-`R` subgroup. -/
abbrev G1Sub := { p : G1Pt // G1.onCurve p = true ∧ G1.inSubgroup p = true }

/-- `G1.fromCompressed` with the two facts about its result attached. -/
def decSub (b : Bytes) : Option G1Sub :=
  match h : G1.fromCompressed b with
  | none => none
  | some p => some ⟨p, g1_decode_onCurve h, C09Concrete.g1_decode_inSubgroup h⟩

theorem decSub_val (b : Bytes) : (decSub b).map Subtype.val = G1.fromCompressed b := by
  unfold decSub
  split <;> simp_all

/-- **The executable G1 codec satisfies the `Codec` laws assumed of `env.g1Enc` / `env.g1Dec` in
`Lawful`** (`dec_enc`, `enc_len`, `strict`), on the subgroup points in normal form. -/
theorem g1Codec : Codec (fun p : G1Sub => G1.toCompressed p.1) decSub 48 where
  dec_enc := fun p => by
    have h := g1_dec_enc p.2.1 p.2.2
    have hv := decSub_val (G1.toCompressed p.1)
    rw [h] at hv
    cases hd : decSub (G1.toCompressed p.1) with
    | none => rw [hd] at hv; exact absurd hv (by simp)
    | some t =>
      rw [hd, Option.map_some] at hv
      exact congrArg some (Subtype.ext (Option.some.inj hv))
  enc_len := fun p => g1_enc_len p.1
  strict := fun b p h => by
    have hv := decSub_val b
    rw [h] at hv
    exact g1_strict hv.symm

end Zk.C09G1
