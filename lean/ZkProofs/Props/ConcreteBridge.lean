/-
Property theorems for the CONCRETE, executable BLS12-381 instance `Zk.Concrete.env` of the model
(the one that is run against the Rust by the differential tests).

Each theorem is an abstract property theorem (`ZkProofs/Props/C01 … C12`, proved for an arbitrary
`Lawful` instance) instantiated at `Bridge.subEnv` (the concrete environment on reduced scalars and
subgroup points, `Bridge.lawful`) and moved to `Concrete.env` along `Bridge.hom`
(`ZkProofs/Props/Transfer.lean`).  The ONLY hypotheses besides those of the abstract theorem are

* `hH : HashInSub` — `hash_to_curve` lands in the order-`R` subgroup (cofactor clearing);
* `hP : PairingHyp` — `pairingProductIsOne` decides a bilinear pairing, non-degenerate at `G2.gen`;

the group / module laws of G1, G2, the field laws of the scalars, the scalar inverse and the four
codecs are PROVED for the executable functions (`Bridge.lawful`), and `HashTotal` is discharged from
the definitions of `expand_message_xmd/xof`.

Shape of the statements: all runs are runs of `Concrete.env` on raw records.
* suites: any `cs' : Suite G1Pt` with `SuiteOK cs'` (`P1` a subgroup point); both generated suites
  qualify (`shaSuite_ok`, `shakeSuite_ok`, `shaSuite_consts`, `shakeSuite_consts`);
* scalars / points / signatures given as INPUTS are images `s.1`, `p.1`, `σ.map vS v1` of elements of
  `FrR`, `G1Sub`, `G2Sub`; every value the executable key generation, decoders and `sign` return is
  one (`concrete_keyGen_image`, `concrete_skFromBytes_image`, `concrete_pkFromBytes_image`,
  `concrete_sig_decode_image`, `concrete_proof_decode_image`, `concrete_sign_image`);
* OUTPUTS (`σ'`, `π'`, …) are arbitrary raw records returned by the executable functions.

Theorems: `concrete_sign_verify` (C01); `concrete_verify_iff`, `concrete_sig_component_tamper`,
`concrete_sig_bitflip`, `concrete_signed_bitflip_rejected`, `concrete_other_pk`,
`concrete_stmt_edit_collision`,
`hashCollision_transfer` (C02); `concrete_proof_complete`,
`concrete_sign_proof_complete` (C03); `concrete_proof_rejects_identity`,
`concrete_blind_proof_rejects_identity` (C04, no hypothesis at all, arbitrary raw records),
`concrete_proofVerify_stmt_binding` (C04);
`concrete_blind_sign_verify`, `concrete_blind_sign_verify_no_commitment`,
`concrete_blind_proof_complete` (C05); `concrete_update_step`, `concrete_update_bad_index`,
`concrete_update_history`, `concrete_update_history_eq_sign` (C12); `transfer_outcome`,
`transfer_outcome₂`, `outcome_class` (generic).
-/
import ZkProofs.Lemmas.Bridge
import ZkProofs.Props.C01
import ZkProofs.Props.C02
import ZkProofs.Props.C03
import ZkProofs.Props.C04
import ZkProofs.Props.C05
import ZkProofs.Props.C12
set_option linter.unusedSectionVars false
set_option linter.unusedVariables false

namespace Zk.Bridge
open Zk Zk.ConcreteScalar Zk.Codecs.ScalarCodec Zk.Transfer
open Zk.ConcreteG1 (G1Sub)
open Zk.ConcreteG2 (G2Sub)
open scoped Zk.ConcreteG1

/-- The coercions (named, to keep statements readable). -/
abbrev vS : FrR → Fr := Subtype.val
abbrev v1 : G1Sub → G1Pt := Subtype.val
abbrev v2 : G2Sub → G2Pt := Subtype.val

/-! ### suites -/

/-- A concrete suite whose base point `P1` is a subgroup point (in normal form). -/
def SuiteOK (cs' : Suite G1Pt) : Prop := G1.onCurve cs'.p1 = true ∧ G1.inSubgroup cs'.p1 = true

/-- Such a suite is the image of a suite over `G1Sub`. -/
theorem suite_of_ok {cs' : Suite G1Pt} (h : SuiteOK cs') : ∃ cs : Suite G1Sub, cs.map v1 = cs' :=
  ⟨cs'.map r1, Suite.map_map_retract v1 r1 cs' (r1_of h)⟩

/-- The generated SHA-256 suite is of that form. -/
theorem shaSuite_ok (cs' : Suite G1Pt) (h : Concrete.shaSuite? = some cs') : SuiteOK cs' := by
  unfold Concrete.shaSuite? at h
  cases hp : G1.fromCompressed Generated.Sha.p1 with
  | none => rw [hp] at h; cases h
  | some p1 => rw [hp] at h; cases h; exact ConcreteG1.fromCompressed_mem hp

/-- The generated SHAKE-256 suite is of that form. -/
theorem shakeSuite_ok (cs' : Suite G1Pt) (h : Concrete.shakeSuite? = some cs') : SuiteOK cs' := by
  unfold Concrete.shakeSuite? at h
  cases hp : G1.fromCompressed Generated.Shake.p1 with
  | none => rw [hp] at h; cases h
  | some p1 => rw [hp] at h; cases h; exact ConcreteG1.fromCompressed_mem hp

/-- Both generated suites exist and are of that form. -/
theorem concrete_suites_ok :
    (∃ cs', Concrete.shaSuite? = some cs' ∧ SuiteOK cs') ∧
    (∃ cs', Concrete.shakeSuite? = some cs' ∧ SuiteOK cs') := by
  obtain ⟨⟨c1, h1, _⟩, ⟨c2, h2, _⟩⟩ := ConcreteFacts.concrete_suites
  exact ⟨⟨c1, h1, shaSuite_ok c1 h1⟩, ⟨c2, h2, shakeSuite_ok c2 h2⟩⟩

/-! ### small facts about the coercions -/

theorem v1_eq_zero_iff (p : G1Sub) : p.1 = 0 ↔ p = 0 :=
  ⟨fun h => Subtype.ext (h.trans algHom.G1_zero.symm), fun h => h ▸ algHom.G1_zero⟩

theorem vS_eq_zero_iff (s : FrR) : s.1 = 0 ↔ s = 0 :=
  ⟨fun h => Subtype.ext (h.trans coe_zero.symm), fun h => h ▸ coe_zero⟩

theorem vS_add_ne_zero {s t : FrR} (h : s.1 + t.1 ≠ 0) : s + t ≠ 0 := fun h0 =>
  h (by rw [← coe_add, h0, coe_zero])

theorem tape_ne_zero {tape : List FrR} {i : Nat} (h : (tape.map vS)[i]? ≠ some 0) :
    tape[i]? ≠ some 0 := fun h0 => h (by
    rw [List.getElem?_map, h0, Option.map_some]; exact congrArg some coe_zero)

/-- `HashTotal` on the two sides is the same statement. -/
theorem hashTotal_iff (hH : HashInSub) (cs : Suite G1Sub) (dst : Bytes) :
    HashTotal subEnv cs dst ↔ HashTotal Concrete.env (cs.map v1) dst := by
  unfold HashTotal
  constructor
  · intro h msg
    obtain ⟨s, hs⟩ := h msg
    exact ⟨s.1, ok_of_map (hashToScalar_transfer (hom hH) cs msg dst) hs⟩
  · intro h msg
    obtain ⟨s', hs'⟩ := h msg
    obtain ⟨s, hs, _⟩ := exists_of_map_ok (hashToScalar_transfer (hom hH) cs msg dst) hs'
    exact ⟨s, hs⟩

/-- `hash_to_scalar` is total for every tag of at most 255 octets (proved for the real
`expand_message`, `ConcreteFacts.hashTotal_concrete`). -/
theorem hashTotal_sub (hH : HashInSub) (cs : Suite G1Sub) (dst : Bytes) (hdst : dst.length ≤ 255)
    (hlen : cs.expandLen = 48) : HashTotal subEnv cs dst :=
  (hashTotal_iff hH cs dst).mpr (ConcreteFacts.hashTotal_concrete (cs.map v1) dst hdst hlen)

/-- The generated suites satisfy the side conditions on the constants used below. -/
theorem shaSuite_consts (cs' : Suite G1Pt) (h : Concrete.shaSuite? = some cs') :
    SuiteOK cs' ∧ cs'.expandLen = 48 ∧ (cs'.apiId ++ cs'.h2s).length ≤ 255 ∧
      (cs'.apiIdBlind ++ cs'.h2s).length ≤ 255 := by
  have hs := ConcreteFacts.isSha_of_shaSuite cs' h
  refine ⟨shaSuite_ok cs' h, by rw [hs.expandLen]; rfl, ?_, ?_⟩
  · rw [hs.apiId, hs.h2s]; decide
  · rw [hs.apiIdBlind, hs.h2s]; decide

theorem shakeSuite_consts (cs' : Suite G1Pt) (h : Concrete.shakeSuite? = some cs') :
    SuiteOK cs' ∧ cs'.expandLen = 48 ∧ (cs'.apiId ++ cs'.h2s).length ≤ 255 ∧
      (cs'.apiIdBlind ++ cs'.h2s).length ≤ 255 := by
  have hs := ConcreteFacts.isShake_of_shakeSuite cs' h
  refine ⟨shakeSuite_ok cs' h, by rw [hs.expandLen]; rfl, ?_, ?_⟩
  · rw [hs.apiId, hs.h2s]; decide
  · rw [hs.apiIdBlind, hs.h2s]; decide

/-! ### every value the executable API produces is an image

The theorems below are stated for scalars `s.1` (`s : FrR`), points `p.1` (`p : G1Sub`, `G2Sub`) and
signatures `σ.map vS v1`. Every key, public key and signature that the executable key generation and
decoders return is of that form (so are the outputs of `sign`, `proofGen`, …: `concrete_sign_image`,
`concrete_proof_decode_image`). -/

theorem concrete_keyGen_image (hH : HashInSub) (cs' : Suite G1Pt) (hcs : SuiteOK cs')
    (km : Bytes) (ki kd : Option Bytes) (sk' : Fr) (h : keyGen Concrete.env cs' km ki kd = .ok sk') :
    ∃ sk : FrR, sk' = sk.1 := by
  obtain ⟨cs, rfl⟩ := suite_of_ok hcs
  obtain ⟨sk, _, rfl⟩ := exists_of_map_ok (keyGen_transfer (hom hH) cs km ki kd) h
  exact ⟨sk, rfl⟩

theorem concrete_skFromBytes_image (hH : HashInSub) (b : Bytes) (sk' : Fr)
    (h : skFromBytes Concrete.env b = .ok sk') : ∃ sk : FrR, sk' = sk.1 := by
  obtain ⟨sk, _, rfl⟩ := exists_of_map_ok (skFromBytes_transfer (hom hH) b) h
  exact ⟨sk, rfl⟩

theorem concrete_pkFromBytes_image (hH : HashInSub) (b : Bytes) (pk' : G2Pt)
    (h : pkFromBytes Concrete.env b = .ok pk') : ∃ pk : G2Sub, pk' = pk.1 := by
  obtain ⟨pk, _, rfl⟩ := exists_of_map_ok (pkFromBytes_transfer (hom hH) b) h
  exact ⟨pk, rfl⟩

/-- The public key of a reduced secret key is a subgroup point. -/
theorem concrete_skToPk_image (hH : HashInSub) (sk : FrR) :
    ∃ pk : G2Sub, skToPk Concrete.env sk.1 = pk.1 :=
  ⟨skToPk subEnv sk, skToPk_transfer (hom hH) sk⟩

/-- A decoded signature has its components in the subtypes, `A ≠ O`, `e ≠ 0`. -/
theorem concrete_sig_decode_image (hH : HashInSub) (b : Bytes) (σ' : Signature Fr G1Pt)
    (h : Signature.fromBytes Concrete.env b = .ok σ') :
    ∃ σ : Signature FrR G1Sub, σ' = σ.map vS v1 ∧ σ.A.1 ≠ 0 ∧ σ.e.1 ≠ 0 := by
  obtain ⟨σ, hσ, rfl⟩ := exists_of_map_ok (Signature.fromBytes_transfer (hom hH) b) h
  obtain ⟨h1, h2⟩ := C09.sig_accepts_only_nonzero (env := subEnv) b σ hσ
  exact ⟨σ, rfl, fun h0 => h1 ((v1_eq_zero_iff _).mp h0), fun h0 => h2 ((vS_eq_zero_iff _).mp h0)⟩

/-! ### C01: completeness of signatures -/

/-- **Concrete completeness.** Whatever the executable `sign` returns under the key pair
`(sk, sk • G2.gen)` is accepted by the executable `verify`. -/
theorem concrete_sign_verify (hH : HashInSub) (hP : PairingHyp) (cs' : Suite G1Pt)
    (hcs : SuiteOK cs') (sk : FrR) (messages : Option (List Bytes)) (header : Option Bytes)
    (σ' : Signature Fr G1Pt)
    (h : sign Concrete.env cs' messages sk.1 (skToPk Concrete.env sk.1) header = .ok σ') :
    verify Concrete.env cs' σ' (skToPk Concrete.env sk.1) messages header = .ok () := by
  obtain ⟨cs, rfl⟩ := suite_of_ok hcs
  exact sign_verify_target (lawful hP) (hom hH) cs sk messages header σ' h

/-- Every signature the executable `sign` returns (for a reduced key and a subgroup public key) has
its components in the subtypes, `A ≠ O`, and was computed with an invertible `sk + e`: the
hypotheses of the theorems below are those of real executions. -/
theorem concrete_sign_image (hH : HashInSub) (hP : PairingHyp) (cs' : Suite G1Pt)
    (hcs : SuiteOK cs') (sk : FrR) (pk : G2Sub) (messages : Option (List Bytes))
    (header : Option Bytes) (σ' : Signature Fr G1Pt)
    (h : sign Concrete.env cs' messages sk.1 pk.1 header = .ok σ') :
    ∃ σ : Signature FrR G1Sub, σ' = σ.map vS v1 ∧ σ.A.1 ≠ 0 ∧ sk.1 + σ.e.1 ≠ 0 := by
  obtain ⟨cs, rfl⟩ := suite_of_ok hcs
  obtain ⟨σ, hσ, rfl⟩ := sign_ok_exists (hom hH) cs messages sk pk header σ' h
  obtain ⟨hA, hz⟩ := C01.sign_A_ne_zero (lawful hP) cs sk pk messages header σ hσ
  refine ⟨σ, rfl, fun h0 => hA ((v1_eq_zero_iff _).mp h0), fun h0 => hz ?_⟩
  exact (vS_eq_zero_iff _).mp (by rw [coe_add]; exact h0)

/-! ### C02: what `verify` decides; tampering with a signature -/

/-- **What the executable `verify` decides** for the public key `sk • G2.gen`: the hash-derived
scalars, generators and domain exist and `(sk + e) • A = B`, all in the executable arithmetic. -/
theorem concrete_verify_iff (hH : HashInSub) (hP : PairingHyp) (cs' : Suite G1Pt)
    (hcs : SuiteOK cs') (sk : FrR) (σ : Signature FrR G1Sub) (msgs : Option (List Bytes))
    (header : Option Bytes) :
    verify Concrete.env cs' (σ.map vS v1) (skToPk Concrete.env sk.1) msgs header = .ok () ↔
      ∃ (ms : List Fr) (Q1 : G1Pt) (Hs : List G1Pt) (d : Fr),
        messagesToScalar Concrete.env cs' (msgs.getD []) cs'.apiId = .ok ms ∧
        createGenerators Concrete.env cs' ((msgs.getD []).length + 1) (some cs'.apiId)
          = .ok (Q1 :: Hs) ∧
        calculateDomain Concrete.env cs' (skToPk Concrete.env sk.1) Q1 Hs header (some cs'.apiId)
          = .ok d ∧
        (sk.1 + σ.e.1) • σ.A.1 = calcB cs'.p1 Q1 d Hs ms := by
  obtain ⟨cs, rfl⟩ := suite_of_ok hcs
  have H := hom hH
  rw [skToPk_transfer H, verify_transfer H]
  refine (C02.verify_iff' (lawful hP) cs sk σ msgs header).trans ?_
  constructor
  · rintro ⟨ms, Q1, Hs, d, hm, hc, hd, he⟩
    refine ⟨ms.map vS, Q1.1, Hs.map v1, d.1,
      ok_of_map (messagesToScalar_transfer H cs _ _) hm,
      ok_of_map (createGenerators_transfer H cs _ _) hc,
      ok_of_map (calculateDomain_nat H cs _ Q1 Hs header _) hd, ?_⟩
    have := calcB_nat H cs.p1 Q1 d Hs ms
    rw [Suite.map_p1, this, ← he, H.G1_smul, H.S_add]
  · rintro ⟨ms', Q1', Hs', d', hm', hc', hd', he'⟩
    obtain ⟨ms, hm, rfl⟩ := exists_of_map_ok (messagesToScalar_transfer H cs _ _) hm'
    obtain ⟨gs, hc, hgs⟩ := exists_of_map_ok (createGenerators_transfer H cs _ _) hc'
    obtain ⟨Q1, Hs, rfl, rfl, rfl⟩ := List.map_eq_cons_iff.mp hgs
    obtain ⟨d, hd, rfl⟩ := exists_of_map_ok (calculateDomain_nat H cs _ Q1 Hs header _) hd'
    refine ⟨ms, Q1, Hs, d, hm, hc, hd, H.f1_inj ?_⟩
    have := calcB_nat H cs.p1 Q1 d Hs ms
    rw [Suite.map_p1, this] at he'
    rw [H.G1_smul, H.S_add]
    exact he'

/-- **One altered component of an accepted signature is always rejected** by the executable
`verify` (no event, no probability). -/
theorem concrete_sig_component_tamper (hH : HashInSub) (hP : PairingHyp) (cs' : Suite G1Pt)
    (hcs : SuiteOK cs') (sk : FrR) (σ σ' : Signature FrR G1Sub) (msgs : Option (List Bytes))
    (header : Option Bytes)
    (hv : verify Concrete.env cs' (σ.map vS v1) (skToPk Concrete.env sk.1) msgs header = .ok ())
    (hA : σ.A.1 ≠ 0) (hz : sk.1 + σ.e.1 ≠ 0)
    (hdiff : (σ'.A.1 ≠ σ.A.1 ∧ σ'.e.1 = σ.e.1) ∨ (σ'.A.1 = σ.A.1 ∧ σ'.e.1 ≠ σ.e.1)) :
    verify Concrete.env cs' (σ'.map vS v1) (skToPk Concrete.env sk.1) msgs header ≠ .ok () := by
  obtain ⟨cs, rfl⟩ := suite_of_ok hcs
  have H := hom hH
  rw [skToPk_transfer H, verify_transfer H] at hv ⊢
  refine C02.sig_component_tamper (lawful hP) cs sk σ σ' msgs header hv
    (fun h0 => hA ((v1_eq_zero_iff _).mpr h0)) (vS_add_ne_zero hz) ?_
  rcases hdiff with ⟨h1, h2⟩ | ⟨h1, h2⟩
  · exact Or.inl ⟨fun h => h1 (congrArg Subtype.val h), Subtype.ext h2⟩
  · exact Or.inr ⟨Subtype.ext h1, fun h => h2 (congrArg Subtype.val h)⟩

/-- **Single-bit flip.** Flipping any one of the 640 bits of the 80-byte encoding of an accepted
signature yields octets that the executable decoder refuses or that decode to a signature the
executable `verify` rejects. -/
theorem concrete_sig_bitflip (hH : HashInSub) (hP : PairingHyp) (cs' : Suite G1Pt)
    (hcs : SuiteOK cs') (sk : FrR) (σ : Signature FrR G1Sub) (msgs : Option (List Bytes))
    (header : Option Bytes)
    (hv : verify Concrete.env cs' (σ.map vS v1) (skToPk Concrete.env sk.1) msgs header = .ok ())
    (hA : σ.A.1 ≠ 0) (hz : sk.1 + σ.e.1 ≠ 0) (i : Nat) (hi : i < 80) (k : Nat) (hk : k < 8)
    (y : UInt8) (hy : ((σ.map vS v1).toBytes Concrete.env)[i]? = some y) :
    let b' := ((σ.map vS v1).toBytes Concrete.env).set i (y ^^^ ((1 : UInt8) <<< k.toUInt8))
    Signature.fromBytes Concrete.env b' = .err ∨
    ∃ σ', Signature.fromBytes Concrete.env b' = .ok σ' ∧
      verify Concrete.env cs' σ' (skToPk Concrete.env sk.1) msgs header ≠ .ok () := by
  obtain ⟨cs, rfl⟩ := suite_of_ok hcs
  have H := hom hH
  intro b'
  have hb : b' = (σ.toBytes subEnv).set i (y ^^^ ((1 : UInt8) <<< k.toUInt8)) := by
    simp only [b', Signature.toBytes_transfer H]
  rw [skToPk_transfer H, verify_transfer H] at hv
  rw [Signature.toBytes_transfer H] at hy
  have h := C02.sig_bitflip (lawful hP) cs sk σ msgs header hv
    (fun h0 => hA ((v1_eq_zero_iff _).mpr h0)) (vS_add_ne_zero hz) i hi k hk y hy
  dsimp only at h
  rw [← hb] at h
  rcases h with h | ⟨σ', h1, h2⟩
  · exact Or.inl ((err_iff_of_map (Signature.fromBytes_transfer H b')).mpr h)
  · refine Or.inr ⟨σ'.map vS v1, ok_of_map (Signature.fromBytes_transfer H b') h1, ?_⟩
    rw [skToPk_transfer H, verify_transfer H]
    exact h2

/-- The same for every freshly made signature: no hypothesis on the signature is left. -/
theorem concrete_signed_bitflip_rejected (hH : HashInSub) (hP : PairingHyp) (cs' : Suite G1Pt)
    (hcs : SuiteOK cs') (sk : FrR) (msgs : Option (List Bytes)) (header : Option Bytes)
    (σ' : Signature Fr G1Pt)
    (hs : sign Concrete.env cs' msgs sk.1 (skToPk Concrete.env sk.1) header = .ok σ')
    (i : Nat) (hi : i < 80) (k : Nat) (hk : k < 8) (y : UInt8)
    (hy : (σ'.toBytes Concrete.env)[i]? = some y) :
    let b' := (σ'.toBytes Concrete.env).set i (y ^^^ ((1 : UInt8) <<< k.toUInt8))
    Signature.fromBytes Concrete.env b' = .err ∨
    ∃ σ'', Signature.fromBytes Concrete.env b' = .ok σ'' ∧
      verify Concrete.env cs' σ'' (skToPk Concrete.env sk.1) msgs header ≠ .ok () := by
  have hv := concrete_sign_verify hH hP cs' hcs sk msgs header σ' hs
  have hs' := hs
  rw [skToPk_transfer (hom hH)] at hs'
  obtain ⟨σ, rfl, hA, hz⟩ := concrete_sign_image hH hP cs' hcs sk _ msgs header σ' hs'
  exact concrete_sig_bitflip hH hP cs' hcs sk σ msgs header hv hA hz i hi k hk y hy

/-- A hash collision of the restricted environment IS a hash collision of the executable
`hash_to_scalar` (same octet strings, same tag). -/
theorem hashCollision_transfer (hH : HashInSub) (cs : Suite G1Sub) (h : HashCollision subEnv cs) :
    HashCollision Concrete.env (cs.map v1) := by
  obtain ⟨x, y, dst, s, hne, hx, hy⟩ := h
  exact ⟨x, y, dst, s.1, hne, ok_of_map (hashToScalar_transfer (hom hH) cs x dst) hx,
    ok_of_map (hashToScalar_transfer (hom hH) cs y dst) hy⟩

/-- **Another public key.** If the executable `verify` accepts one signature for the same statement
under two different keys `sk • G2.gen`, `sk' • G2.gen`, then two different domain inputs collide under
the executable `hash_to_scalar`, or the domains `d ≠ d'` satisfy `(sk' − sk) • A = (d' − d) • Q1` in the
executable arithmetic. -/
theorem concrete_other_pk (hH : HashInSub) (hP : PairingHyp) (cs' : Suite G1Pt)
    (hcs : SuiteOK cs') (sk sk' : FrR) (σ : Signature FrR G1Sub) (msgs : Option (List Bytes))
    (header : Option Bytes) (hne : sk.1 ≠ sk'.1) (hA : σ.A.1 ≠ 0)
    (hL : (msgs.getD []).length < 2 ^ 64)
    (hv : verify Concrete.env cs' (σ.map vS v1) (skToPk Concrete.env sk.1) msgs header = .ok ())
    (hv' : verify Concrete.env cs' (σ.map vS v1) (skToPk Concrete.env sk'.1) msgs header = .ok ()) :
    HashCollision Concrete.env cs' ∨
    ∃ (Q1 : G1Pt) (Hs : List G1Pt) (d d' : Fr),
      createGenerators Concrete.env cs' ((msgs.getD []).length + 1) (some cs'.apiId)
        = .ok (Q1 :: Hs) ∧
      calculateDomain Concrete.env cs' (skToPk Concrete.env sk.1) Q1 Hs header (some cs'.apiId)
        = .ok d ∧
      calculateDomain Concrete.env cs' (skToPk Concrete.env sk'.1) Q1 Hs header (some cs'.apiId)
        = .ok d' ∧
      d ≠ d' ∧ (sk'.1 - sk.1) • σ.A.1 = (d' - d) • Q1 := by
  obtain ⟨cs, rfl⟩ := suite_of_ok hcs
  have H := hom hH
  rw [skToPk_transfer H, verify_transfer H] at hv hv'
  rcases C02.other_pk (lawful hP) cs sk sk' σ msgs header (fun h => hne (congrArg Subtype.val h))
    (fun h0 => hA ((v1_eq_zero_iff _).mpr h0)) hL hv hv' with hc | ⟨Q1, Hs, d, d', h1, h2, h3, h4, h5⟩
  · exact Or.inl (hashCollision_transfer hH cs hc)
  · refine Or.inr ⟨Q1.1, Hs.map v1, d.1, d'.1, ok_of_map (createGenerators_transfer H cs _ _) h1,
      ?_, ?_, fun h => h4 (Subtype.ext h), ?_⟩
    · rw [skToPk_transfer H]; exact ok_of_map (calculateDomain_nat H cs _ Q1 Hs header _) h2
    · rw [skToPk_transfer H]; exact ok_of_map (calculateDomain_nat H cs _ Q1 Hs header _) h3
    · rw [← H.S_sub, ← H.S_sub, ← H.G1_smul, ← H.G1_smul, h5]

/-- **Altered, removed, added or moved messages; altered header.** If the executable `verify`
accepts one signature for two statements under the same key whose octet-level contents differ, then
a collision of the executable `hash_to_scalar` has been found, or two DIFFERENT pairs (domain, message
vector) of full length `n = max L L'` with the same `B` over the executable generators — a
non-trivial discrete-log relation among `P1, Q1, H_1, …, H_n` (`C02.generator_relation_linear`). -/
theorem concrete_stmt_edit_collision (hH : HashInSub) (hP : PairingHyp) (cs' : Suite G1Pt)
    (hcs : SuiteOK cs') (sk : FrR) (σ : Signature FrR G1Sub) (msgs msgs' : Option (List Bytes))
    (header header' : Option Bytes)
    (hL : (msgs.getD []).length < 2 ^ 64) (hL' : (msgs'.getD []).length < 2 ^ 64)
    (hv : verify Concrete.env cs' (σ.map vS v1) (skToPk Concrete.env sk.1) msgs header = .ok ())
    (hv' : verify Concrete.env cs' (σ.map vS v1) (skToPk Concrete.env sk.1) msgs' header' = .ok ())
    (hdiff : msgs.getD [] ≠ msgs'.getD [] ∨ header.getD [] ≠ header'.getD []) :
    HashCollision Concrete.env cs' ∨
      ∃ (Q1 : G1Pt) (Hs : List G1Pt) (d d' : Fr) (ms ms' : List Fr),
        createGenerators Concrete.env cs'
          (max (msgs.getD []).length (msgs'.getD []).length + 1) (some cs'.apiId) = .ok (Q1 :: Hs) ∧
        ms.length = max (msgs.getD []).length (msgs'.getD []).length ∧
        ms'.length = max (msgs.getD []).length (msgs'.getD []).length ∧
        (d, ms) ≠ (d', ms') ∧ calcB cs'.p1 Q1 d Hs ms = calcB cs'.p1 Q1 d' Hs ms' := by
  obtain ⟨cs, rfl⟩ := suite_of_ok hcs
  have H := hom hH
  rw [skToPk_transfer H, verify_transfer H] at hv hv'
  rcases C02.stmt_edit_collision (lawful hP) cs sk σ msgs msgs' header header' hL hL' hv hv' hdiff
    with hc | ⟨Q1, Hs, d, d', ms, ms', hc, l1, l2, hne, hB⟩
  · exact Or.inl (hashCollision_transfer hH cs hc)
  · refine Or.inr ⟨Q1.1, Hs.map v1, d.1, d'.1, ms.map vS, ms'.map vS,
      ok_of_map (createGenerators_transfer H cs _ _) hc, by rw [List.length_map, l1],
      by rw [List.length_map, l2], fun h => hne ?_, ?_⟩
    · obtain ⟨h1, h2⟩ := Prod.mk.inj h
      rw [Subtype.ext h1, (List.map_injective_iff.mpr Subtype.val_injective) h2]
    · have e1 := calcB_nat H cs.p1 Q1 d Hs ms
      have e2 := calcB_nat H cs.p1 Q1 d' Hs ms'
      rw [Suite.map_p1, e1, e2, hB]

/-! ### C03: proof completeness for every disclosure choice -/

/-- **Completeness of the executable `proof_gen` / `proof_verify`**, for every disclosure choice:
if `verify` accepts `σ` for `msgs`, then for every `D ⊆ [0, L)` (unsorted, repetitions allowed) and
every tape of `5 + U` reduced scalars with non-zero `r1`, `r2`, `proofGen` on the 80-byte encoding
of `σ` returns a proof that `proofVerify` accepts (indexes sorted or as given), that survives its
encoding and is `272 + 32 U` octets long. `HashTotal` is discharged: only the length of the tag
`api_id ‖ "H2S_"` and `expand_len = 48` are needed. -/
theorem concrete_proof_complete (hH : HashInSub) (hP : PairingHyp) (cs' : Suite G1Pt)
    (hcs : SuiteOK cs') (sk : FrR) (σ : Signature FrR G1Sub) (msgs : List Bytes) (D : List Nat)
    (header ph : Option Bytes) (tape : List FrR)
    (hver : verify Concrete.env cs' (σ.map vS v1) (skToPk Concrete.env sk.1) (some msgs) header
      = .ok ())
    (hD : ∀ i ∈ D, i < msgs.length)
    (hsk : sk.1 ≠ 0) (hA : σ.A.1 ≠ 0) (he : σ.e.1 ≠ 0) (hske : sk.1 + σ.e.1 ≠ 0)
    (htape : 5 + (msgs.length - (sortDedup D).length) ≤ tape.length)
    (hr1 : (tape.map vS)[0]? ≠ some 0) (hr2 : (tape.map vS)[1]? ≠ some 0)
    (hlen : cs'.expandLen = 48) (hdst : (cs'.apiId ++ cs'.h2s).length ≤ 255) :
    ∃ π' : PoKSignature Fr G1Pt,
      proofGen Concrete.env cs' (skToPk Concrete.env sk.1) ((σ.map vS v1).toBytes Concrete.env)
          header ph (some msgs) (some D) (tape.map vS) = .ok π' ∧
      proofVerify Concrete.env cs' π' (skToPk Concrete.env sk.1)
          (some ((sortDedup D).map fun i => msgs.getD i [])) (some (sortDedup D)) header ph
          = .ok () ∧
      proofVerify Concrete.env cs' π' (skToPk Concrete.env sk.1)
          (some ((sortDedup D).map fun i => msgs.getD i [])) (some D) header ph = .ok () ∧
      PoKSignature.fromBytes Concrete.env (π'.toBytes Concrete.env) = .ok π' ∧
      (π'.toBytes Concrete.env).length = 272 + 32 * (msgs.length - (sortDedup D).length) := by
  obtain ⟨cs, rfl⟩ := suite_of_ok hcs
  have H := hom hH
  rw [skToPk_transfer H, verify_transfer H] at hver
  obtain ⟨π, hgen, hv1, hv2, hrt, hl⟩ := C03.proof_complete (lawful hP) cs sk σ msgs D header ph
    tape hver hD (fun h0 => hsk ((vS_eq_zero_iff _).mpr h0))
    (fun h0 => hA ((v1_eq_zero_iff _).mpr h0)) (fun h0 => he ((vS_eq_zero_iff _).mpr h0))
    (vS_add_ne_zero hske) htape (tape_ne_zero hr1) (tape_ne_zero hr2)
    (hashTotal_sub hH cs _ hdst hlen)
  refine ⟨π.map vS v1, ?_, ?_, ?_, ?_, ?_⟩
  · rw [skToPk_transfer H, Signature.toBytes_transfer H]
    exact ok_of_map (proofGen_transfer H cs _ _ _ _ _ _ _) hgen
  · rw [skToPk_transfer H, proofVerify_transfer H]; exact hv1
  · rw [skToPk_transfer H, proofVerify_transfer H]; exact hv2
  · rw [PoKSignature.toBytes_transfer H]
    exact ok_of_map (PoKSignature.fromBytes_transfer H _) hrt
  · rw [PoKSignature.toBytes_transfer H]; exact hl


/-- **End to end: sign, derive a proof for any disclosure choice, verify** — all executable. No
hypothesis on the signature is left except `e ≠ 0` (the 80-byte decoder refuses `e = 0`; `e` is a
hash output). -/
theorem concrete_sign_proof_complete (hH : HashInSub) (hP : PairingHyp) (cs' : Suite G1Pt)
    (hcs : SuiteOK cs') (sk : FrR) (msgs : List Bytes) (D : List Nat) (header ph : Option Bytes)
    (tape : List FrR) (σ' : Signature Fr G1Pt)
    (hs : sign Concrete.env cs' (some msgs) sk.1 (skToPk Concrete.env sk.1) header = .ok σ')
    (hD : ∀ i ∈ D, i < msgs.length) (hsk : sk.1 ≠ 0) (he : σ'.e ≠ 0)
    (htape : 5 + (msgs.length - (sortDedup D).length) ≤ tape.length)
    (hr1 : (tape.map vS)[0]? ≠ some 0) (hr2 : (tape.map vS)[1]? ≠ some 0)
    (hlen : cs'.expandLen = 48) (hdst : (cs'.apiId ++ cs'.h2s).length ≤ 255) :
    ∃ π' : PoKSignature Fr G1Pt,
      proofGen Concrete.env cs' (skToPk Concrete.env sk.1) (σ'.toBytes Concrete.env)
          header ph (some msgs) (some D) (tape.map vS) = .ok π' ∧
      proofVerify Concrete.env cs' π' (skToPk Concrete.env sk.1)
          (some ((sortDedup D).map fun i => msgs.getD i [])) (some (sortDedup D)) header ph
          = .ok () ∧
      proofVerify Concrete.env cs' π' (skToPk Concrete.env sk.1)
          (some ((sortDedup D).map fun i => msgs.getD i [])) (some D) header ph = .ok () ∧
      PoKSignature.fromBytes Concrete.env (π'.toBytes Concrete.env) = .ok π' ∧
      (π'.toBytes Concrete.env).length = 272 + 32 * (msgs.length - (sortDedup D).length) := by
  have hv := concrete_sign_verify hH hP cs' hcs sk (some msgs) header σ' hs
  have hs' := hs
  rw [skToPk_transfer (hom hH)] at hs'
  obtain ⟨σ, rfl, hA, hz⟩ := concrete_sign_image hH hP cs' hcs sk _ (some msgs) header σ' hs'
  exact concrete_proof_complete hH hP cs' hcs sk σ msgs D header ph tape hv hD hsk hA he hz htape
    hr1 hr2 hlen hdst

/-- The hypotheses on the suite hold for both generated suites. -/
example (hH : HashInSub) (hP : PairingHyp) (cs' : Suite G1Pt) (h : Concrete.shaSuite? = some cs')
    (sk : FrR) (msgs : List Bytes) (header : Option Bytes) (σ' : Signature Fr G1Pt)
    (hs : sign Concrete.env cs' (some msgs) sk.1 (skToPk Concrete.env sk.1) header = .ok σ') :
    verify Concrete.env cs' σ' (skToPk Concrete.env sk.1) (some msgs) header = .ok () :=
  concrete_sign_verify hH hP cs' (shaSuite_consts cs' h).1 sk (some msgs) header σ' hs

/-! ### C04: identity points are refused (no hypothesis at all)

These hold for EVERY instance of the model's signature (only the core classes, no laws), hence for
`Concrete.env` and ARBITRARY raw records `π : PoKSignature Fr G1Pt` — also for points off the curve
or outside the subgroup. (Same proofs as `C04.proof_rejects_identity` …, which are stated in the
`Lawful` setting.) -/

section raw
variable {S G1 G2 : Type}
variable [Zero S] [One S] [Add S] [Sub S] [Neg S] [Mul S] [DecidableEq S]
variable [Zero G1] [Add G1] [Sub G1] [Neg G1] [SMul S G1] [DecidableEq G1]
variable [Zero G2] [Add G2] [Neg G2] [SMul S G2] [DecidableEq G2]
variable (env : Env S G1 G2)

theorem raw_coreProofVerify_rejects_identity (cs : Suite G1) (pk : G2) (π : PoKSignature S G1)
    (gens : Generators G1) (header ph : Option Bytes) (dm : List S) (di : List Nat)
    (apiId : Option Bytes) (h : π.Abar = 0 ∨ π.Bbar = 0 ∨ π.D = 0) :
    coreProofVerify env cs pk π gens header ph dm di apiId = .err := by
  unfold coreProofVerify proofVerifyInit
  simp only [if_pos h]

theorem raw_proofVerify_rejects_identity (cs : Suite G1) (π : PoKSignature S G1) (pk : G2)
    (dmsgs : Option (List Bytes)) (di : Option (List Nat)) (header ph : Option Bytes)
    (h : π.Abar = 0 ∨ π.Bbar = 0 ∨ π.D = 0) :
    proofVerify env cs π pk dmsgs di header ph ≠ .ok () := by
  unfold proofVerify
  dsimp only
  cases messagesToScalar env cs (dmsgs.getD []) cs.apiId with
  | err => simp
  | panic => simp
  | ok dm =>
    simp only
    cases Generators.create env cs
        (π.mCap.length + (sortDedup (di.getD [])).length + 1) (some cs.apiId) with
    | err => simp
    | panic => simp
    | ok gens =>
      simp only
      rw [raw_coreProofVerify_rejects_identity env cs pk π gens header ph dm _ _ h]
      simp

theorem raw_blindProofVerify_rejects_identity (cs : Suite G1) (π : PoKSignature S G1) (pk : G2)
    (header ph : Option Bytes) (L : Option Nat) (dmsgs dcmsgs : Option (List Bytes))
    (di dci : Option (List Nat)) (h : π.Abar = 0 ∨ π.Bbar = 0 ∨ π.D = 0) :
    blindProofVerify env cs π pk header ph L dmsgs dcmsgs di dci ≠ .ok () := by
  unfold blindProofVerify
  dsimp only
  cases uAdd? (L.getD 0) 1 with
  | none => simp
  | some L1 =>
    simp only
    cases uSub? ((sortDedup (di.getD [])).length + (sortDedup (dci.getD [])).length
        + π.mCap.length) L1 with
    | none => simp
    | some M =>
      simp only
      split
      · simp
      · cases prepareParameters env cs (some (dmsgs.getD [])) (some (dcmsgs.getD []))
            (L.getD 0 + 1) (M + 1) none (some cs.apiIdBlind) with
        | err => simp
        | panic => simp
        | ok r =>
          obtain ⟨ms, gens⟩ := r
          simp only
          rw [raw_coreProofVerify_rejects_identity env cs pk π gens header ph ms _ _ h]
          simp

end raw

/-- **The executable `proof_verify` never accepts a proof containing an identity point** — for
every suite, every public key (any record), every raw proof record, every statement (finding F1:
the forgery `Abar = Bbar = O`). No hypothesis. -/
theorem concrete_proof_rejects_identity (cs' : Suite G1Pt) (π' : PoKSignature Fr G1Pt) (pk' : G2Pt)
    (dmsgs : Option (List Bytes)) (di : Option (List Nat)) (header ph : Option Bytes)
    (h : π'.Abar = 0 ∨ π'.Bbar = 0 ∨ π'.D = 0) :
    proofVerify Concrete.env cs' π' pk' dmsgs di header ph ≠ .ok () :=
  raw_proofVerify_rejects_identity Concrete.env cs' π' pk' dmsgs di header ph h

/-- The same for the executable `blind_proof_verify`. -/
theorem concrete_blind_proof_rejects_identity (cs' : Suite G1Pt) (π' : PoKSignature Fr G1Pt)
    (pk' : G2Pt) (header ph : Option Bytes) (L : Option Nat) (dmsgs dcmsgs : Option (List Bytes))
    (di dci : Option (List Nat)) (h : π'.Abar = 0 ∨ π'.Bbar = 0 ∨ π'.D = 0) :
    blindProofVerify Concrete.env cs' π' pk' header ph L dmsgs dcmsgs di dci ≠ .ok () :=
  raw_blindProofVerify_rejects_identity Concrete.env cs' π' pk' header ph L dmsgs dcmsgs di dci h

/-- The executable proof decoder returns only proofs whose components lie in the subtypes and whose
three points are not the identity (`C04.fromBytes_no_identity` at `subEnv`, moved along `hom`). -/
theorem concrete_proof_decode_image (hH : HashInSub) (b : Bytes) (π' : PoKSignature Fr G1Pt)
    (h : PoKSignature.fromBytes Concrete.env b = .ok π') :
    ∃ π : PoKSignature FrR G1Sub, π' = π.map vS v1 ∧ π'.Abar ≠ 0 ∧ π'.Bbar ≠ 0 ∧ π'.D ≠ 0 := by
  obtain ⟨π, hπ, rfl⟩ := exists_of_map_ok (PoKSignature.fromBytes_transfer (hom hH) b) h
  obtain ⟨h1, h2, h3⟩ := C04.fromBytes_no_identity (env := subEnv) b π hπ
  exact ⟨π, rfl, fun h0 => h1 ((v1_eq_zero_iff _).mp h0), fun h0 => h2 ((v1_eq_zero_iff _).mp h0),
    fun h0 => h3 ((v1_eq_zero_iff _).mp h0)⟩

/-- **Statement binding (executable `proof_verify`).** The same proof accepted for two statements:
public key, disclosed messages, disclosed index set, header and presentation header coincide, or a
collision of the executable `hash_to_scalar` is exhibited. (Every decoded proof is of the form
`π.map vS v1`: `concrete_proof_decode_image`; every decoded public key is `pk.1`.) -/
theorem concrete_proofVerify_stmt_binding (hH : HashInSub) (hP : PairingHyp) (cs' : Suite G1Pt)
    (hcs : SuiteOK cs') (π : PoKSignature FrR G1Sub) (pk pk' : G2Sub)
    (dmsgs dmsgs' : Option (List Bytes)) (di di' : Option (List Nat))
    (header header' ph ph' : Option Bytes)
    (hsz : π.mCap.length + (sortDedup (di.getD [])).length + 1 ≤ 2 ^ 64)
    (hsz' : π.mCap.length + (sortDedup (di'.getD [])).length + 1 ≤ 2 ^ 64)
    (h : proofVerify Concrete.env cs' (π.map vS v1) pk.1 dmsgs di header ph = .ok ())
    (h' : proofVerify Concrete.env cs' (π.map vS v1) pk'.1 dmsgs' di' header' ph' = .ok ()) :
    HashCollision Concrete.env cs' ∨
      (pk'.1 = pk.1 ∧ dmsgs'.getD [] = dmsgs.getD [] ∧
        sortDedup (di'.getD []) = sortDedup (di.getD []) ∧
        header'.getD [] = header.getD [] ∧ ph'.getD [] = ph.getD []) := by
  obtain ⟨cs, rfl⟩ := suite_of_ok hcs
  have H := hom hH
  rw [proofVerify_transfer H] at h h'
  rcases C04.proofVerify_stmt_binding (lawful hP) cs π pk pk' dmsgs dmsgs' di di' header header'
    ph ph' hsz hsz' h h' with hc | ⟨h1, h2⟩
  · exact Or.inl (hashCollision_transfer hH cs hc)
  · exact Or.inr ⟨congrArg Subtype.val h1, h2⟩

/-! ### C05: blind issuance and presentation -/

/-- **Blind signing is complete.** If the executable `commit` returns `(c, blind)` and the
executable `blind_sign`, run on the serialized commitment under `(sk, sk • G2.gen)`, returns a
signature, then the executable `verify_blind_sign` accepts it with the committed messages and the
returned blinding factor. -/
theorem concrete_blind_sign_verify (hH : HashInSub) (hP : PairingHyp) (cs' : Suite G1Pt)
    (hcs : SuiteOK cs') (sk : FrR) (msgs cmsgs : Option (List Bytes)) (header : Option Bytes)
    (tape : List FrR) (c' : Commitment Fr G1Pt) (blind' : Fr) (σ' : Signature Fr G1Pt)
    (hc : commit Concrete.env cs' cmsgs (tape.map vS) = .ok (c', blind'))
    (hs : blindSign Concrete.env cs' sk.1 (skToPk Concrete.env sk.1)
      (some (c'.toBytes Concrete.env)) header msgs = .ok σ') :
    verifyBlindSign Concrete.env cs' σ' (skToPk Concrete.env sk.1) header msgs cmsgs (some blind')
      = .ok () := by
  obtain ⟨cs, rfl⟩ := suite_of_ok hcs
  have H := hom hH
  obtain ⟨⟨c, blind⟩, hc0, hcb⟩ := exists_of_map_ok (commit_transfer H cs cmsgs tape) hc
  obtain ⟨rfl, rfl⟩ := Prod.mk.inj hcb
  rw [skToPk_transfer H, Commitment.toBytes_transfer H] at hs
  obtain ⟨σ, hσ, rfl⟩ := blindSign_ok_exists H cs _ _ _ _ _ _ hs
  rw [skToPk_transfer H]
  exact (verifyBlindSign_ok_iff H cs σ _ header msgs cmsgs (some blind)).mpr
    (C05.blind_sign_verify (lawful hP) cs sk msgs cmsgs header tape c blind σ hc0 hσ)

/-- A blind signature issued without any commitment verifies. -/
theorem concrete_blind_sign_verify_no_commitment (hH : HashInSub) (hP : PairingHyp)
    (cs' : Suite G1Pt) (hcs : SuiteOK cs') (sk : FrR) (msgs : Option (List Bytes))
    (header : Option Bytes) (σ' : Signature Fr G1Pt)
    (hs : blindSign Concrete.env cs' sk.1 (skToPk Concrete.env sk.1) none header msgs = .ok σ') :
    verifyBlindSign Concrete.env cs' σ' (skToPk Concrete.env sk.1) header msgs none none
      = .ok () := by
  obtain ⟨cs, rfl⟩ := suite_of_ok hcs
  have H := hom hH
  rw [skToPk_transfer H] at hs
  obtain ⟨σ, hσ, rfl⟩ := blindSign_ok_exists H cs _ _ _ _ _ _ hs
  rw [skToPk_transfer H]
  exact (verifyBlindSign_ok_iff H cs σ _ header msgs none none).mpr
    (C05.blind_sign_verify_no_commitment (lawful hP) cs sk msgs header σ hσ)

/-- **Blind proof completeness** for the executable `blind_proof_gen` / `blind_proof_verify`, for
every pair of disclosure choices (hypotheses as in `C05.blind_proof_complete`; `HashTotal` is
discharged). -/
theorem concrete_blind_proof_complete (hH : HashInSub) (hP : PairingHyp) (cs' : Suite G1Pt)
    (hcs : SuiteOK cs') (sk : FrR) (σ : Signature FrR G1Sub) (msgs cmsgs : List Bytes)
    (blind : Option FrR) (di dci : List Nat) (header ph : Option Bytes) (tape : List FrR)
    (hver : verifyBlindSign Concrete.env cs' (σ.map vS v1) (skToPk Concrete.env sk.1) header
      (some msgs) (some cmsgs) (blind.map vS) = .ok ())
    (hdi : ∀ i ∈ di, i < msgs.length) (hdci : ∀ j ∈ dci, j < cmsgs.length)
    (hdiL : di.length ≤ msgs.length) (hdciL : dci.length ≤ cmsgs.length)
    (h64 : msgs.length + 1 + cmsgs.length < 2 ^ 64)
    (hsk : sk.1 ≠ 0) (hA : σ.A.1 ≠ 0) (he : σ.e.1 ≠ 0) (hske : sk.1 + σ.e.1 ≠ 0)
    (htape : 5 + (msgs.length + 1 + cmsgs.length
      - ((sortDedup di).length + (sortDedup dci).length)) ≤ tape.length)
    (hr1 : (tape.map vS)[0]? ≠ some 0) (hr2 : (tape.map vS)[1]? ≠ some 0)
    (hlen : cs'.expandLen = 48) (hdst : (cs'.apiIdBlind ++ cs'.h2s).length ≤ 255) :
    ∃ π' : PoKSignature Fr G1Pt,
      blindProofGen Concrete.env cs' (skToPk Concrete.env sk.1)
          ((σ.map vS v1).toBytes Concrete.env) header ph (some msgs) (some cmsgs)
          (some di) (some dci) (blind.map vS) (tape.map vS) = .ok π' ∧
      blindProofVerify Concrete.env cs' π' (skToPk Concrete.env sk.1) header ph (some msgs.length)
          (some ((sortDedup di).map fun i => msgs.getD i []))
          (some ((sortDedup dci).map fun j => cmsgs.getD j []))
          (some (sortDedup di)) (some (sortDedup dci)) = .ok () ∧
      blindProofVerify Concrete.env cs' π' (skToPk Concrete.env sk.1) header ph (some msgs.length)
          (some ((sortDedup di).map fun i => msgs.getD i []))
          (some ((sortDedup dci).map fun j => cmsgs.getD j []))
          (some di) (some dci) = .ok () ∧
      π'.mCap.length
        = msgs.length + 1 + cmsgs.length - ((sortDedup di).length + (sortDedup dci).length) ∧
      PoKSignature.fromBytes Concrete.env (π'.toBytes Concrete.env) = .ok π' ∧
      (π'.toBytes Concrete.env).length = 272 + 32 * (msgs.length + 1 + cmsgs.length
        - ((sortDedup di).length + (sortDedup dci).length)) := by
  obtain ⟨cs, rfl⟩ := suite_of_ok hcs
  have H := hom hH
  rw [skToPk_transfer H, verifyBlindSign_transfer H] at hver
  obtain ⟨π, hgen, hv1, hv2, hU, hrt, hl⟩ := C05.blind_proof_complete (lawful hP) cs sk σ msgs
    cmsgs blind di dci header ph tape hver hdi hdci hdiL hdciL h64
    (fun h0 => hsk ((vS_eq_zero_iff _).mpr h0))
    (fun h0 => hA ((v1_eq_zero_iff _).mpr h0)) (fun h0 => he ((vS_eq_zero_iff _).mpr h0))
    (vS_add_ne_zero hske) htape (tape_ne_zero hr1) (tape_ne_zero hr2)
    (hashTotal_sub hH cs _ hdst hlen)
  refine ⟨π.map vS v1, ?_, ?_, ?_, ?_, ?_, ?_⟩
  · rw [skToPk_transfer H, Signature.toBytes_transfer H]
    exact ok_of_map (blindProofGen_transfer H cs _ _ _ _ _ _ _ _ _ _) hgen
  · rw [skToPk_transfer H, blindProofVerify_transfer H]; exact hv1
  · rw [skToPk_transfer H, blindProofVerify_transfer H]; exact hv2
  · rw [PoKSignature.map_mCap, List.length_map]; exact hU
  · rw [PoKSignature.toBytes_transfer H]
    exact ok_of_map (PoKSignature.fromBytes_transfer H _) hrt
  · rw [PoKSignature.toBytes_transfer H]; exact hl

/-! ### C12: signature update -/

/-- **One honest update preserves validity** (executable `update_signature`): if `σ` verifies for
`msgs` and the update of position `i` (stated old value = the current `msgs[i]`) returns `σ''`, then
`σ''` has the same `e`, `A'' ≠ O`, and verifies for `msgs[i := new]` under the same header. -/
theorem concrete_update_step (hH : HashInSub) (hP : PairingHyp) (cs' : Suite G1Pt)
    (hcs : SuiteOK cs') (sk : FrR) (σ : Signature FrR G1Sub) (σ'' : Signature Fr G1Pt)
    (msgs : List Bytes) (header : Option Bytes) (i : Nat) (new : Bytes)
    (hv : verify Concrete.env cs' (σ.map vS v1) (skToPk Concrete.env sk.1) (some msgs) header
      = .ok ())
    (hu : updateSignature Concrete.env cs' (σ.map vS v1) sk.1 (msgs.getD i []) new i msgs.length
      = .ok σ'') :
    σ''.e = σ.e.1 ∧ sk.1 + σ.e.1 ≠ 0 ∧ σ''.A ≠ 0 ∧
      verify Concrete.env cs' σ'' (skToPk Concrete.env sk.1) (some (msgs.set i new)) header
        = .ok () := by
  obtain ⟨cs, rfl⟩ := suite_of_ok hcs
  have H := hom hH
  obtain ⟨σ', hu', rfl⟩ := exists_of_map_ok (updateSignature_transfer H cs σ sk _ new i _) hu
  rw [skToPk_transfer H, verify_transfer H] at hv
  obtain ⟨h1, h2, h3, h4⟩ :=
    C12.update_preserves_verify (lawful hP) cs sk σ σ' msgs header i new hv hu'
  refine ⟨congrArg Subtype.val h1, fun h0 => h2 ?_, fun h0 => h3 ((v1_eq_zero_iff _).mp h0), ?_⟩
  · exact (vS_eq_zero_iff _).mp (by rw [coe_add]; exact h0)
  · rw [skToPk_transfer H, verify_transfer H]; exact h4

/-- An out-of-range position (or `n = usize::MAX`) is refused by the executable `update_signature`,
for arbitrary raw inputs (no hypothesis). -/
theorem concrete_update_bad_index (cs' : Suite G1Pt) (σ' : Signature Fr G1Pt) (sk' : Fr)
    (old new : Bytes) (i n : Nat) (h : n = 2 ^ 64 - 1 ∨ i ≥ n) :
    updateSignature Concrete.env cs' σ' sk' old new i n = .err :=
  Upd.updateSignature_bad_index Concrete.env cs' σ' sk' old new i n h

section rawUpd
variable {S G1 G2 : Type}
variable [Zero S] [One S] [Add S] [Sub S] [Neg S] [Mul S] [DecidableEq S]
variable [Zero G1] [Add G1] [Sub G1] [Neg G1] [SMul S G1] [DecidableEq G1]
variable [Zero G2] [Add G2] [Neg G2] [SMul S G2] [DecidableEq G2]

/-- `C12.applyUpdates` (a history of honest single-message updates, each stating the CURRENT value as
the old message) for an arbitrary instance of the model's signature (no laws needed to run it). -/
def applyUpdatesRaw (env : Env S G1 G2) (cs : Suite G1) (sk : S) :
    Signature S G1 → List Bytes → List (Nat × Bytes) → Res (Signature S G1 × List Bytes)
  | σ, msgs, [] => .ok (σ, msgs)
  | σ, msgs, (i, new) :: us =>
    match updateSignature env cs σ sk (msgs.getD i []) new i msgs.length with
    | .ok σ' => applyUpdatesRaw env cs sk σ' (msgs.set i new) us
    | .err => .err
    | .panic => .panic

end rawUpd

theorem applyUpdates_transfer (hH : HashInSub) (cs : Suite G1Sub) (sk : FrR) :
    ∀ (us : List (Nat × Bytes)) (σ : Signature FrR G1Sub) (msgs : List Bytes),
      applyUpdatesRaw Concrete.env (cs.map v1) sk.1 (σ.map vS v1) msgs us
        = (C12.applyUpdates subEnv cs sk σ msgs us).map (Prod.map (Signature.map vS v1) id) := by
  intro us
  induction us with
  | nil => intro σ msgs; rfl
  | cons u us ih =>
    intro σ msgs
    obtain ⟨i, new⟩ := u
    simp only [applyUpdatesRaw, C12.applyUpdates]
    rw [updateSignature_transfer (hom hH)]
    cases updateSignature subEnv cs σ sk (msgs.getD i []) new i msgs.length with
    | ok σ' => simp only [Res.map_ok]; exact ih σ' _
    | err => rfl
    | panic => rfl

/-- **Any history of honest updates** (executable `update_signature`): starting from a signature
that verifies for `msgs₀`, after any sequence of updates at any positions with any new values, the
message vector is `vecAfter msgs₀ us`, `e` is unchanged, and the current signature verifies for the
current vector under the same header. -/
theorem concrete_update_history (hH : HashInSub) (hP : PairingHyp) (cs' : Suite G1Pt)
    (hcs : SuiteOK cs') (sk : FrR) (header : Option Bytes) (us : List (Nat × Bytes))
    (σ₀ : Signature FrR G1Sub) (msgs₀ : List Bytes) (σ'' : Signature Fr G1Pt) (msgs : List Bytes)
    (hv : verify Concrete.env cs' (σ₀.map vS v1) (skToPk Concrete.env sk.1) (some msgs₀) header
      = .ok ())
    (h : applyUpdatesRaw Concrete.env cs' sk.1 (σ₀.map vS v1) msgs₀ us = .ok (σ'', msgs)) :
    msgs = C12.vecAfter msgs₀ us ∧ msgs.length = msgs₀.length ∧ σ''.e = σ₀.e.1 ∧
      verify Concrete.env cs' σ'' (skToPk Concrete.env sk.1) (some msgs) header = .ok () := by
  obtain ⟨cs, rfl⟩ := suite_of_ok hcs
  have H := hom hH
  obtain ⟨⟨σ, m⟩, h', hm⟩ := exists_of_map_ok (applyUpdates_transfer hH cs sk us σ₀ msgs₀) h
  obtain ⟨rfl, rfl⟩ := Prod.mk.inj hm
  rw [skToPk_transfer H, verify_transfer H] at hv
  obtain ⟨h1, h2, h3, h4⟩ := C12.update_history (lawful hP) cs sk header us σ₀ msgs₀ σ m hv h'
  refine ⟨h1, h2, congrArg Subtype.val h3, ?_⟩
  rw [skToPk_transfer H, verify_transfer H]; exact h4

/-- … and equals the signature the key holder would obtain by the executable `sign` for the current
vector, if that one has the same `e`. -/
theorem concrete_update_history_eq_sign (hH : HashInSub) (hP : PairingHyp) (cs' : Suite G1Pt)
    (hcs : SuiteOK cs') (sk : FrR) (header : Option Bytes) (us : List (Nat × Bytes))
    (σ₀ : Signature FrR G1Sub) (msgs₀ : List Bytes) (σ'' σs' : Signature Fr G1Pt)
    (msgs : List Bytes)
    (hv : verify Concrete.env cs' (σ₀.map vS v1) (skToPk Concrete.env sk.1) (some msgs₀) header
      = .ok ())
    (h : applyUpdatesRaw Concrete.env cs' sk.1 (σ₀.map vS v1) msgs₀ us = .ok (σ'', msgs))
    (hs : sign Concrete.env cs' (some msgs) sk.1 (skToPk Concrete.env sk.1) header = .ok σs')
    (he : σs'.e = σ''.e) : σs' = σ'' := by
  obtain ⟨cs, rfl⟩ := suite_of_ok hcs
  have H := hom hH
  obtain ⟨⟨σ, m⟩, h', hm⟩ := exists_of_map_ok (applyUpdates_transfer hH cs sk us σ₀ msgs₀) h
  obtain ⟨rfl, rfl⟩ := Prod.mk.inj hm
  rw [skToPk_transfer H] at hs
  obtain ⟨σs, hs0, rfl⟩ := sign_ok_exists H cs _ sk _ header σs' hs
  rw [skToPk_transfer H, verify_transfer H] at hv
  have := C12.update_history_eq_sign (lawful hP) cs sk header us σ₀ σ σs msgs₀ m hv h' hs0
    (Subtype.ext he)
  rw [this]

/-! ### a generic formulation

Every `_transfer` theorem of `ZkProofs/Props/Transfer.lean`, instantiated with `hom hH`, is an equation
`f Concrete.env (mapped inputs) = (f subEnv inputs).map φ`. The lemmas below say what such an equation
carries over; the concrete theorems above are instances. -/

/-- **Any property of outcomes that is invariant under `Res.map` moves from `subEnv` to
`Concrete.env`.** If a predicate `Q` on outcomes over the subtypes and `Q'` on concrete outcomes correspond along
`φ` (`Q' (x.map φ) ↔ Q x`), then `Q` of the restricted run gives `Q'` of the executable run, for any
pair of runs related by a transfer equation. -/
theorem transfer_outcome {α α' : Type} {φ : α → α'} {x : Res α} {x' : Res α'}
    (heq : x' = x.map φ) {Q : Res α → Prop} {Q' : Res α' → Prop}
    (hQ : ∀ y : Res α, Q' (y.map φ) ↔ Q y) : Q' x' ↔ Q x := by rw [heq]; exact hQ x

/-- Instance: relations between the outcomes of two runs (e.g. "`f` returns `ok a` ⇒ `g` on a
function of `a` returns `ok`") move along two transfer equations. -/
theorem transfer_outcome₂ {α α' β β' : Type} {φ : α → α'} {ψ : β → β'} {x : Res α} {x' : Res α'}
    {y : Res β} {y' : Res β'} (hx : x' = x.map φ) (hy : y' = y.map ψ)
    {Q : Res α → Res β → Prop} {Q' : Res α' → Res β' → Prop}
    (hQ : ∀ (a : Res α) (b : Res β), Q' (a.map φ) (b.map ψ) ↔ Q a b) : Q' x' y' ↔ Q x y := by
  rw [hx, hy]; exact hQ x y

/-- Outcome CLASSES (`ok` / `err` / `panic`) are the same on both sides of any transfer equation. -/
theorem outcome_class {α α' : Type} {φ : α → α'} {x : Res α} {x' : Res α'} (heq : x' = x.map φ) :
    ((∃ a', x' = .ok a') ↔ ∃ a, x = .ok a) ∧ (x' = .err ↔ x = .err) ∧ (x' = .panic ↔ x = .panic) := by
  subst heq
  refine ⟨?_, Res.map_eq_err_iff φ x, Res.map_eq_panic_iff φ x⟩
  constructor
  · rintro ⟨a', h⟩
    obtain ⟨a, ha, _⟩ := (Res.map_eq_ok_iff φ x a').mp h
    exact ⟨a, ha⟩
  · rintro ⟨a, rfl⟩; exact ⟨φ a, rfl⟩

end Zk.Bridge
