/-
Property theorems for the CONCRETE, executable BLS12-381 instance `Zk.Concrete.env`, part 2
(part 1: `ZkProofs/Props/ConcreteBridge.lean`; read its header for the conventions).

All runs are runs of `Concrete.env` on raw records; the ONLY hypotheses besides those of the abstract
theorem are `hH : HashInSub` and `hP : PairingHyp`; suites are any `cs'` with `SuiteOK cs'`. Inputs are
images `s.1`, `p.1`, `π.map vS v1`, `gens.map v1`, `dm.map vS` of elements of the subtypes (everything
the executable decoders / generator creation / message hashing return is one:
`concrete_proof_decode_image`, `concrete_commitment_decode_image`, `concrete_generators_image`,
`concrete_messagesToScalar_image`, …). Algebraic CONCLUSIONS are stated in the executable arithmetic
through the raw predicates of `ZkProofs/Lemmas/Bridge2.lean` (`linRaw`, `initOfRaw`,
`ResponseRelationRaw`, `CbarRaw`, `CommitRelationRaw`, `GeneratorCoincidenceRaw`); events are the
executable ones (`HashCollision Concrete.env cs'`, `FixedPoint Concrete.env cs' …`). Extractors and tape
transformations (`Sound.extract`, `Sound.extractOpening`, `C07WI.retape`, `C07.reblind`) are computed in
the field `FrR` of reduced scalars, whose operations ARE the executable ones (`ConcreteScalar.coe_add` …).
Theorems that need no law at all are stated for ARBITRARY raw records and have no hypothesis.

* C04: `concrete_special_soundness`, `concrete_coreProofVerify_ok_iff`, `concrete_tamper_points`,
  `_eCap`, `_r1Cap`, `_r3Cap`, `_mCap`, `_hidden_count`, `concrete_tamper_challenge` (raw),
  `concrete_any_change`, `concrete_stmt_binding`;
  C04Bytes: `concrete_proofVerify_bytes_tamper`, `_bitflip`, `_resize`, `_delete_blocks`,
  `_insert_blocks`, `concrete_proof_bytes_tamper`, `concrete_proof_resize`, `concrete_proofVerify_inv`.
* C06: `concrete_blind_sign_requires_valid_commit`, `concrete_blind_sign_refuses`,
  `concrete_blind_sign_two_commitments`, `concrete_deserializeAndValidateCommit_ok` (all raw),
  `concrete_coreCommitVerify_ok_iff`, `concrete_commit_special_soundness`, `concrete_commit_binding`,
  `concrete_commit_tamper_C`, `_sCap`, `_mCap`, `_count`, `concrete_commit_tamper_challenge` (raw),
  `concrete_commit_any_change`, `concrete_verifyBlindSign_iff`;
  C06Bytes: `concrete_commit_bytes_tamper`, `_bitflip`, `_resize`, `_delete_blocks`, `_insert_blocks`,
  `concrete_blind_sign_bytes_tamper`, `_bitflip`, `_resize`, `concrete_blind_proof_stmt_binding`,
  `concrete_blind_proof_L_binding_explicit`, `concrete_blind_proof_L_binding`,
  `concrete_blind_proof_L_unique`.
* C08 (raw, no hypothesis): `concrete_coreProofVerify_total`, `concrete_coreCommitVerify_total`,
  `concrete_deserializeAndValidateCommit_total`, `concrete_pkFromCoordinates_total`,
  `concrete_blindProofVerify_work_bound`, `concrete_sign_panic`, `concrete_no_panic_generated`.
* C07: `concrete_blindings_recoverable`, `concrete_blindings_recoverable_commit`,
  `concrete_proof_injective_in_tape`, `concrete_commit_injective_in_tape`,
  `concrete_proof_witness_indistinguishable`, `concrete_proof_wi_bijection`, `concrete_commit_hiding`,
  `concrete_commit_witness_indistinguishable`.
* C10 / C11: `concrete_generators_length`, `_prefix`, `_prefix_indep`, `_getElem_indep`, `_extend`,
  `concrete_create_length`, `concrete_create_prefix`, `concrete_create_prefix_Q1_Hs`,
  `concrete_create_ok_generated`, `concrete_keygen_guards`, `concrete_keygen_generated`,
  `concrete_domainInput_prefixes`, `concrete_challengeInput_prefixes`,
  `concrete_blindChallengeInput_prefixes`, `concrete_foreign_api_id_domain`,
  `concrete_generated_apiIds_distinct`, `concrete_foreign_artefact_dsts`, `concrete_dsts`.
* C12: `concrete_update_wrong_old`, `concrete_update_old_vector`.
* C09 (object codecs, arbitrary octets): `concrete_decode_strict`, `concrete_pk_coords_strict`,
  `concrete_decode_injective`, `concrete_roundtrips`, `concrete_trailing`.
-/
import ZkProofs.Lemmas.Bridge2
import ZkProofs.Props.C07WI
import ZkProofs.Props.C09
import ZkProofs.Props.C10
import ZkProofs.Props.C11
set_option linter.unusedSectionVars false
set_option linter.unusedVariables false

namespace Zk.Bridge2
open Zk Zk.ConcreteScalar Zk.Codecs.ScalarCodec Zk.Transfer Zk.Bridge
open Zk.ConcreteG1 (G1Sub)
open Zk.ConcreteG2 (G2Sub)
open scoped Zk.ConcreteG1

/-! ### images -/

/-- Every generator list the executable `create_generators` returns consists of subgroup points. -/
theorem concrete_generators_image (hH : HashInSub) (cs' : Suite G1Pt) (hcs : SuiteOK cs')
    (n : Nat) (apiId : Option Bytes) (g' : Generators G1Pt)
    (h : Generators.create Concrete.env cs' n apiId = .ok g') :
    ∃ g : Generators G1Sub, g' = g.map v1 := by
  obtain ⟨cs, rfl⟩ := suite_of_ok hcs
  obtain ⟨g, _, rfl⟩ := exists_of_map_ok (Generators.create_transfer (hom hH) cs n apiId) h
  exact ⟨g, rfl⟩

/-- Every scalar list the executable `messages_to_scalars` returns consists of reduced scalars. -/
theorem concrete_messagesToScalar_image (hH : HashInSub) (cs' : Suite G1Pt) (hcs : SuiteOK cs')
    (msgs : List Bytes) (apiId : Bytes) (ms' : List Fr)
    (h : messagesToScalar Concrete.env cs' msgs apiId = .ok ms') :
    ∃ ms : List FrR, ms' = ms.map vS := by
  obtain ⟨cs, rfl⟩ := suite_of_ok hcs
  obtain ⟨ms, _, rfl⟩ := exists_of_map_ok (messagesToScalar_transfer (hom hH) cs msgs apiId) h
  exact ⟨ms, rfl⟩

/-- `core_proof_verify` on images is the run of the restricted environment. -/
theorem coreProofVerify_concrete (hH : HashInSub) (cs : Suite G1Sub) (pk : G2Sub)
    (π : PoKSignature FrR G1Sub) (gens : Generators G1Sub) (header ph : Option Bytes)
    (dm : List FrR) (di : List Nat) (apiId : Option Bytes) :
    coreProofVerify Concrete.env (cs.map v1) pk.1 (π.map vS v1) (gens.map v1) header ph (dm.map vS)
        di apiId
      = coreProofVerify subEnv cs pk π gens header ph dm di apiId :=
  coreProofVerify_nat (hom hH) cs pk π gens header ph dm di apiId

/-! ### C04: special soundness -/

/-- **Special soundness of the executable `core_proof_verify`, explicit extractor**
(`C04.special_soundness`). `π` accepted by the executable verifier under `pk = sk • G2.gen`; `π'` a second
transcript for which `proof_verify_init`, run with ANY re-programmed `expand` (the random oracle
behind `hash_to_scalar`), recomputes the same `(Abar, Bbar, D, T1, T2, domain)`, with another
challenge. Then the extractor `x = Sound.extract π π'` (computed in the field `FrR`, whose operations
are the executable ones) yields: if `r1* ≠ 0` a signature `(A*, e*)` that the executable
`core_verify` ACCEPTS for the completed message vector; if `r1* = 0` the secret key `sk = −e*`. -/
theorem concrete_special_soundness (hH : HashInSub) (hP : PairingHyp) (cs' : Suite G1Pt)
    (hcs : SuiteOK cs') (csX : Suite G1Sub) (ex : Bool → Bytes → Bytes → Nat → Option Bytes)
    (sk : FrR) (π π' : PoKSignature FrR G1Sub) (gens : Generators G1Sub)
    (header header' ph : Option Bytes) (dm : List FrR) (di : List Nat) (apiId apiId' : Option Bytes)
    (h : coreProofVerify Concrete.env cs' (skToPk Concrete.env sk.1) (π.map vS v1) (gens.map v1)
      header ph (dm.map vS) di apiId = .ok ())
    (hsame : proofVerifyInit { Concrete.env with expand := ex } (csX.map v1)
        (skToPk Concrete.env sk.1) (π'.map vS v1) (gens.map v1) header' (dm.map vS) di apiId'
      = proofVerifyInit Concrete.env cs' (skToPk Concrete.env sk.1) (π.map vS v1) (gens.map v1)
          header (dm.map vS) di apiId)
    (hc : π.challenge.1 ≠ π'.challenge.1) :
    ∃ Q1 Hs, gens.values = Q1 :: Hs ∧ Hs.length = π.mCap.length + di.length ∧
      π'.mCap.length = π.mCap.length ∧
      let x := Sound.extract π π'
      let ud := getRemainingIndexes Hs.length di
      let msgs := Sound.fullMsgs Hs.length di dm ud x.ms
      (x.r1 ≠ 0 →
        coreVerify Concrete.env cs' (skToPk Concrete.env sk.1) ⟨x.A.1, x.e.1⟩ (msgs.map vS)
          (gens.map v1) header apiId = .ok ()) ∧
      (x.r1 = 0 → sk.1 = -x.e.1) ∧
      (di.Nodup → ∀ j (h1 : j < di.length) (h2 : j < dm.length),
        msgs[di[j]]? = some dm[j]) ∧
      (∀ j (h1 : j < x.ms.length), ∃ h2 : j < ud.length, msgs[ud[j]]? = some x.ms[j]) := by
  obtain ⟨cs, rfl⟩ := suite_of_ok hcs
  have H := hom hH
  have HX := Zk.Bridge2.Hom.reprogram H ex
  rw [skToPk_transfer H] at h hsame
  rw [coreProofVerify_concrete hH] at h
  rw [proofVerifyInit_nat H, proofVerifyInit_nat HX] at hsame
  have hsame' := Res.map_injective (ProofInitResult.map_injective H) hsame
  obtain ⟨Q1, Hs, h1, h2, h3, hx⟩ := C04.special_soundness (env' := { subEnv with expand := ex })
    (lawful hP) cs csX sk π π' gens header header' ph dm di apiId apiId' h hsame'
    (fun h0 => hc (congrArg Subtype.val h0))
  refine ⟨Q1, Hs, h1, h2, h3, ?_⟩
  dsimp only at hx ⊢
  obtain ⟨a, b, c, d⟩ := hx
  refine ⟨fun hr => ?_, fun hr => ?_, c, d⟩
  · rw [skToPk_transfer H]
    exact (coreVerify_nat H cs _ ⟨_, _⟩ _ gens header apiId).trans (a hr)
  · rw [b hr, coe_neg]

/-! ### C04: tampering with an accepted proof (core level) -/

theorem zero_mem_map {l : List G1Sub} (h : (0 : G1Sub) ∈ l) : (0 : G1Pt) ∈ l.map v1 :=
  List.mem_map.mpr ⟨0, h, rfl⟩

/-- Changing a commitment point (`Abar`, `Bbar` or `D`) of an accepted proof, challenge unchanged:
acceptance by the executable `core_proof_verify` exhibits a collision of the executable
`hash_to_scalar` (`C04.tamper_points`). -/
theorem concrete_tamper_points (hH : HashInSub) (hP : PairingHyp) (cs' : Suite G1Pt)
    (hcs : SuiteOK cs') (pk : G2Sub) (π π' : PoKSignature FrR G1Sub) (gens : Generators G1Sub)
    (header ph : Option Bytes) (dm : List FrR) (di : List Nat) (apiId : Option Bytes)
    (hsz : gens.values.length ≤ 2 ^ 64)
    (h : coreProofVerify Concrete.env cs' pk.1 (π.map vS v1) (gens.map v1) header ph (dm.map vS) di
      apiId = .ok ())
    (h' : coreProofVerify Concrete.env cs' pk.1 (π'.map vS v1) (gens.map v1) header ph (dm.map vS)
      di apiId = .ok ())
    (hc : π'.challenge.1 = π.challenge.1)
    (hne : π'.Abar.1 ≠ π.Abar.1 ∨ π'.Bbar.1 ≠ π.Bbar.1 ∨ π'.D.1 ≠ π.D.1) :
    HashCollision Concrete.env cs' := by
  obtain ⟨cs, rfl⟩ := suite_of_ok hcs
  rw [coreProofVerify_concrete hH] at h h'
  refine hashCollision_transfer hH cs (C04.tamper_points (lawful hP) cs pk π π' gens header ph dm
    di apiId hsz h h' (Subtype.ext hc) ?_)
  rcases hne with x | x | x
  · exact Or.inl fun e => x (congrArg Subtype.val e)
  · exact Or.inr (Or.inl fun e => x (congrArg Subtype.val e))
  · exact Or.inr (Or.inr fun e => x (congrArg Subtype.val e))

/-- Changing `ê` of an accepted proof: acceptance exhibits a hash collision (`C04.tamper_eCap`). -/
theorem concrete_tamper_eCap (hH : HashInSub) (hP : PairingHyp) (cs' : Suite G1Pt)
    (hcs : SuiteOK cs') (pk : G2Sub) (π : PoKSignature FrR G1Sub) (gens : Generators G1Sub)
    (header ph : Option Bytes) (dm : List FrR) (di : List Nat) (apiId : Option Bytes) (e' : FrR)
    (hsz : gens.values.length ≤ 2 ^ 64)
    (h : coreProofVerify Concrete.env cs' pk.1 (π.map vS v1) (gens.map v1) header ph (dm.map vS) di
      apiId = .ok ())
    (h' : coreProofVerify Concrete.env cs' pk.1 { π.map vS v1 with eCap := e'.1 } (gens.map v1)
      header ph (dm.map vS) di apiId = .ok ())
    (hne : e'.1 ≠ π.eCap.1) : HashCollision Concrete.env cs' := by
  obtain ⟨cs, rfl⟩ := suite_of_ok hcs
  have e : ({ π.map vS v1 with eCap := e'.1 } : PoKSignature Fr G1Pt)
      = PoKSignature.map vS v1 { π with eCap := e' } := rfl
  rw [e] at h'
  rw [coreProofVerify_concrete hH] at h h'
  exact hashCollision_transfer hH cs (C04.tamper_eCap (lawful hP) cs pk π gens header ph dm di
    apiId e' hsz h h' (fun x => hne (congrArg Subtype.val x)))

/-- Changing `r̂1` of an accepted proof: acceptance exhibits a hash collision
(`C04.tamper_r1Cap`). -/
theorem concrete_tamper_r1Cap (hH : HashInSub) (hP : PairingHyp) (cs' : Suite G1Pt)
    (hcs : SuiteOK cs') (pk : G2Sub) (π : PoKSignature FrR G1Sub) (gens : Generators G1Sub)
    (header ph : Option Bytes) (dm : List FrR) (di : List Nat) (apiId : Option Bytes) (r' : FrR)
    (hsz : gens.values.length ≤ 2 ^ 64)
    (h : coreProofVerify Concrete.env cs' pk.1 (π.map vS v1) (gens.map v1) header ph (dm.map vS) di
      apiId = .ok ())
    (h' : coreProofVerify Concrete.env cs' pk.1 { π.map vS v1 with r1Cap := r'.1 } (gens.map v1)
      header ph (dm.map vS) di apiId = .ok ())
    (hne : r'.1 ≠ π.r1Cap.1) : HashCollision Concrete.env cs' := by
  obtain ⟨cs, rfl⟩ := suite_of_ok hcs
  have e : ({ π.map vS v1 with r1Cap := r'.1 } : PoKSignature Fr G1Pt)
      = PoKSignature.map vS v1 { π with r1Cap := r' } := rfl
  rw [e] at h'
  rw [coreProofVerify_concrete hH] at h h'
  exact hashCollision_transfer hH cs (C04.tamper_r1Cap (lawful hP) cs pk π gens header ph dm di
    apiId r' hsz h h' (fun x => hne (congrArg Subtype.val x)))

/-- Changing `r̂3` of an accepted proof: acceptance exhibits a hash collision
(`C04.tamper_r3Cap`). -/
theorem concrete_tamper_r3Cap (hH : HashInSub) (hP : PairingHyp) (cs' : Suite G1Pt)
    (hcs : SuiteOK cs') (pk : G2Sub) (π : PoKSignature FrR G1Sub) (gens : Generators G1Sub)
    (header ph : Option Bytes) (dm : List FrR) (di : List Nat) (apiId : Option Bytes) (r' : FrR)
    (hsz : gens.values.length ≤ 2 ^ 64)
    (h : coreProofVerify Concrete.env cs' pk.1 (π.map vS v1) (gens.map v1) header ph (dm.map vS) di
      apiId = .ok ())
    (h' : coreProofVerify Concrete.env cs' pk.1 { π.map vS v1 with r3Cap := r'.1 } (gens.map v1)
      header ph (dm.map vS) di apiId = .ok ())
    (hne : r'.1 ≠ π.r3Cap.1) : HashCollision Concrete.env cs' := by
  obtain ⟨cs, rfl⟩ := suite_of_ok hcs
  have e : ({ π.map vS v1 with r3Cap := r'.1 } : PoKSignature Fr G1Pt)
      = PoKSignature.map vS v1 { π with r3Cap := r' } := rfl
  rw [e] at h'
  rw [coreProofVerify_concrete hH] at h h'
  exact hashCollision_transfer hH cs (C04.tamper_r3Cap (lawful hP) cs pk π gens header ph dm di
    apiId r' hsz h h' (fun x => hne (congrArg Subtype.val x)))

/-- Changing one hidden-message response `m̂_j` of an accepted proof: acceptance exhibits a hash
collision, or one of the generators is the identity point (`C04.tamper_mCap`). -/
theorem concrete_tamper_mCap (hH : HashInSub) (hP : PairingHyp) (cs' : Suite G1Pt)
    (hcs : SuiteOK cs') (pk : G2Sub) (π : PoKSignature FrR G1Sub) (gens : Generators G1Sub)
    (header ph : Option Bytes) (dm : List FrR) (di : List Nat) (apiId : Option Bytes) (j : Nat)
    (m' : FrR) (hj : j < π.mCap.length) (hsz : gens.values.length ≤ 2 ^ 64)
    (h : coreProofVerify Concrete.env cs' pk.1 (π.map vS v1) (gens.map v1) header ph (dm.map vS) di
      apiId = .ok ())
    (h' : coreProofVerify Concrete.env cs' pk.1
      { π.map vS v1 with mCap := (π.map vS v1).mCap.set j m'.1 } (gens.map v1)
      header ph (dm.map vS) di apiId = .ok ())
    (hne : m'.1 ≠ (π.mCap[j]).1) :
    HashCollision Concrete.env cs' ∨ (0 : G1Pt) ∈ (gens.map v1).values := by
  obtain ⟨cs, rfl⟩ := suite_of_ok hcs
  have e : ({ π.map vS v1 with mCap := (π.map vS v1).mCap.set j m'.1 } : PoKSignature Fr G1Pt)
      = PoKSignature.map vS v1 { π with mCap := π.mCap.set j m' } := by
    simp only [PoKSignature.map, List.map_set]
  rw [e] at h'
  rw [coreProofVerify_concrete hH] at h h'
  rcases C04.tamper_mCap (lawful hP) cs pk π gens header ph dm di apiId j m' hj hsz h h'
    (fun x => hne (congrArg Subtype.val x)) with hcol | h0
  · exact Or.inl (hashCollision_transfer hH cs hcol)
  · exact Or.inr (zero_mem_map h0)

/-- Changing the number of hidden-message responses, challenge unchanged: acceptance — even for
another statement — exhibits a hash collision (`C04.tamper_hidden_count`). -/
theorem concrete_tamper_hidden_count (hH : HashInSub) (hP : PairingHyp) (cs' : Suite G1Pt)
    (hcs : SuiteOK cs') (pk pk' : G2Sub) (π π' : PoKSignature FrR G1Sub)
    (gens gens' : Generators G1Sub) (header header' ph ph' : Option Bytes) (dm dm' : List FrR)
    (di di' : List Nat) (apiId : Option Bytes)
    (hsz : gens.values.length ≤ 2 ^ 64) (hsz' : gens'.values.length ≤ 2 ^ 64)
    (h : coreProofVerify Concrete.env cs' pk.1 (π.map vS v1) (gens.map v1) header ph (dm.map vS) di
      apiId = .ok ())
    (h' : coreProofVerify Concrete.env cs' pk'.1 (π'.map vS v1) (gens'.map v1) header' ph'
      (dm'.map vS) di' apiId = .ok ())
    (hc : π'.challenge.1 = π.challenge.1) (hne : π'.mCap.length ≠ π.mCap.length) :
    HashCollision Concrete.env cs' := by
  obtain ⟨cs, rfl⟩ := suite_of_ok hcs
  rw [coreProofVerify_concrete hH] at h h'
  exact hashCollision_transfer hH cs (C04.tamper_hidden_count (lawful hP) cs pk pk' π π' gens gens'
    header header' ph ph' dm dm' di di' apiId hsz hsz' h h' (Subtype.ext hc) hne)

/-- **Changing the challenge field** (`C04.tamper_challenge`): for ARBITRARY raw records and no
hypothesis, acceptance of the proof with the challenge replaced by `c' ≠ c` means `c'` is a fixed
point of "run the executable `proof_verify_init` with challenge `c`, rebuild the challenge input,
hash with the executable `hash_to_scalar`". -/
theorem concrete_tamper_challenge (cs' : Suite G1Pt) (pk' : G2Pt) (π' : PoKSignature Fr G1Pt)
    (gens' : Generators G1Pt) (header ph : Option Bytes) (dm' : List Fr) (di : List Nat)
    (apiId : Option Bytes) (c' : Fr)
    (h' : coreProofVerify Concrete.env cs' pk' { π' with challenge := c' } gens' header ph dm' di
      apiId = .ok ())
    (hne : c' ≠ π'.challenge) :
    FixedPoint Concrete.env cs' (challengeMap Concrete.env cs' pk' π' gens' header ph dm' di apiId)
      (apiId.getD [] ++ cs'.h2s) π'.challenge :=
  raw_tamper_challenge Concrete.env cs' pk' π' gens' header ph dm' di apiId c' h' hne

/-- **Any change whatsoever of an accepted proof, same statement** (`C04.any_change`): a collision of
the executable `hash_to_scalar`, or another challenge (then `concrete_tamper_challenge`), or an explicit
linear relation, in the executable arithmetic, among `Abar, D` and the hidden-position generators
(`ResponseRelationRaw`). -/
theorem concrete_any_change (hH : HashInSub) (hP : PairingHyp) (cs' : Suite G1Pt)
    (hcs : SuiteOK cs') (pk : G2Sub) (π π' : PoKSignature FrR G1Sub) (gens : Generators G1Sub)
    (header ph : Option Bytes) (dm : List FrR) (di : List Nat) (apiId : Option Bytes)
    (hsz : gens.values.length ≤ 2 ^ 64)
    (h : coreProofVerify Concrete.env cs' pk.1 (π.map vS v1) (gens.map v1) header ph (dm.map vS) di
      apiId = .ok ())
    (h' : coreProofVerify Concrete.env cs' pk.1 (π'.map vS v1) (gens.map v1) header ph (dm.map vS)
      di apiId = .ok ())
    (hne : π'.map vS v1 ≠ π.map vS v1) :
    HashCollision Concrete.env cs' ∨ (π'.map vS v1).challenge ≠ (π.map vS v1).challenge ∨
      ResponseRelationRaw (π.map vS v1) (π'.map vS v1) (gens.map v1) di := by
  obtain ⟨cs, rfl⟩ := suite_of_ok hcs
  have H := hom hH
  rw [coreProofVerify_concrete hH] at h h'
  rcases C04.any_change (lawful hP) cs pk π π' gens header ph dm di apiId hsz h h'
    (fun e => hne (congrArg _ e)) with x | x | x
  · exact Or.inl (hashCollision_transfer hH cs x)
  · exact Or.inr (Or.inl fun e => x (Subtype.ext e))
  · exact Or.inr (Or.inr (responseRelation_nat H π π' gens di x))

/-! ### C04Bytes: tampering with the ENCODED proof, API level (`proof_verify`) -/

/-- What acceptance of a changed proof by the executable `proof_verify` for the same statement
implies (`C04Bytes.ApiChangeVerdict`, in the executable arithmetic, over the generators the
executable verifier derives). -/
def ApiChangeVerdictC (cs' : Suite G1Pt) (π π' : PoKSignature Fr G1Pt) (di : Option (List Nat)) :
    Prop :=
  HashCollision Concrete.env cs' ∨ π'.challenge ≠ π.challenge ∨
    ∃ gens, Generators.create Concrete.env cs'
        (π.mCap.length + (sortDedup (di.getD [])).length + 1) (some cs'.apiId) = .ok gens ∧
      ResponseRelationRaw π π' gens (sortDedup (di.getD []))

theorem apiChangeVerdict_transfer (hH : HashInSub) (cs : Suite G1Sub)
    (π π' : PoKSignature FrR G1Sub) (di : Option (List Nat))
    (h : C04Bytes.ApiChangeVerdict subEnv cs π π' di) :
    ApiChangeVerdictC (cs.map v1) (π.map vS v1) (π'.map vS v1) di := by
  have H := hom hH
  rcases h with x | x | ⟨gens, hg, x⟩
  · exact Or.inl (hashCollision_transfer hH cs x)
  · exact Or.inr (Or.inl fun e => x (Subtype.ext e))
  · refine Or.inr (Or.inr ⟨gens.map v1, ?_, responseRelation_nat H π π' gens _ x⟩)
    rw [PoKSignature.map_mCap, List.length_map]
    exact ok_of_map (Generators.create_transfer H cs _ _) hg

/-- **Any change of the encoded proof, API level** (`C04Bytes.proofVerify_bytes_tamper`). `π` accepted
by the executable `proof_verify`, `b'` ANY other octet string: the executable decoder refuses it, or
returns `π'' ≠ π`, and acceptance of `π''` for the same statement implies `ApiChangeVerdictC`. -/
theorem concrete_proofVerify_bytes_tamper (hH : HashInSub) (hP : PairingHyp) (cs' : Suite G1Pt)
    (hcs : SuiteOK cs') (π : PoKSignature FrR G1Sub) (pk : G2Sub) (dmsgs : Option (List Bytes))
    (di : Option (List Nat)) (header ph : Option Bytes)
    (hsz : π.mCap.length + (sortDedup (di.getD [])).length + 1 ≤ 2 ^ 64)
    (h : proofVerify Concrete.env cs' (π.map vS v1) pk.1 dmsgs di header ph = .ok ())
    (b' : Bytes) (hne : b' ≠ (π.map vS v1).toBytes Concrete.env)
    (hsz' : (b'.length - 240) / 32 + (sortDedup (di.getD [])).length ≤ 2 ^ 64) :
    PoKSignature.fromBytes Concrete.env b' = .err ∨
      ∃ π'', PoKSignature.fromBytes Concrete.env b' = .ok π'' ∧ π'' ≠ π.map vS v1 ∧
        (proofVerify Concrete.env cs' π'' pk.1 dmsgs di header ph = .ok () →
          ApiChangeVerdictC cs' (π.map vS v1) π'' di) := by
  obtain ⟨cs, rfl⟩ := suite_of_ok hcs
  have H := hom hH
  rw [proofVerify_transfer H] at h
  rw [PoKSignature.toBytes_transfer H] at hne
  rcases C04Bytes.proofVerify_bytes_tamper (lawful hP) cs π pk dmsgs di header ph hsz h b' hne hsz'
    with he | ⟨π', hd, hπ, himp⟩
  · exact Or.inl ((err_iff_of_map (PoKSignature.fromBytes_transfer H b')).mpr he)
  · refine Or.inr ⟨π'.map vS v1, ok_of_map (PoKSignature.fromBytes_transfer H b') hd,
      fun e => hπ (PoKSignature.map_injective vS v1 H.fS_inj H.f1_inj e), fun hv => ?_⟩
    rw [proofVerify_transfer H] at hv
    exact apiChangeVerdict_transfer hH cs π π' di (himp hv)

/-- **Any single-bit flip of the encoded proof, API level** (`C04Bytes.proofVerify_bitflip`), all
`8·(272 + 32·U)` positions. -/
theorem concrete_proofVerify_bitflip (hH : HashInSub) (hP : PairingHyp) (cs' : Suite G1Pt)
    (hcs : SuiteOK cs') (π : PoKSignature FrR G1Sub) (pk : G2Sub) (dmsgs : Option (List Bytes))
    (di : Option (List Nat)) (header ph : Option Bytes)
    (hsz : π.mCap.length + (sortDedup (di.getD [])).length + 1 ≤ 2 ^ 64)
    (h : proofVerify Concrete.env cs' (π.map vS v1) pk.1 dmsgs di header ph = .ok ())
    (i : Nat) (hi : i < 8 * (272 + 32 * π.mCap.length)) :
    let b' := C04Bytes.flipBit i ((π.map vS v1).toBytes Concrete.env)
    PoKSignature.fromBytes Concrete.env b' = .err ∨
      ∃ π'', PoKSignature.fromBytes Concrete.env b' = .ok π'' ∧ π'' ≠ π.map vS v1 ∧
        (proofVerify Concrete.env cs' π'' pk.1 dmsgs di header ph = .ok () →
          ApiChangeVerdictC cs' (π.map vS v1) π'' di) := by
  intro b'
  have H := hom hH
  have hN : ((π.map vS v1).toBytes Concrete.env).length = 272 + 32 * π.mCap.length := by
    rw [PoKSignature.toBytes_transfer H]
    exact Zk.Codecs.PoKSignature.toBytes_length (lawful hP) π
  exact concrete_proofVerify_bytes_tamper hH hP cs' hcs π pk dmsgs di header ph hsz h b'
    (C04Bytes.flipBit_ne i _ (by rw [hN]; exact hi))
    (by simp only [b']; rw [C04Bytes.flipBit_length, hN]; omega)

/-- **Another length, same challenge block, API level** (`C04Bytes.proofVerify_resize`): if it decodes
at all, acceptance by the executable `proof_verify` — for ANY statement — exhibits a hash
collision. -/
theorem concrete_proofVerify_resize (hH : HashInSub) (hP : PairingHyp) (cs' : Suite G1Pt)
    (hcs : SuiteOK cs') (π : PoKSignature FrR G1Sub) (pk : G2Sub) (dmsgs : Option (List Bytes))
    (di : Option (List Nat)) (header ph : Option Bytes)
    (hsz : π.mCap.length + (sortDedup (di.getD [])).length + 1 ≤ 2 ^ 64)
    (h : proofVerify Concrete.env cs' (π.map vS v1) pk.1 dmsgs di header ph = .ok ())
    (b' : Bytes) (hlen : b'.length ≠ ((π.map vS v1).toBytes Concrete.env).length)
    (hlast : b'.drop (b'.length - 32) = ((π.map vS v1).toBytes Concrete.env).drop
      (((π.map vS v1).toBytes Concrete.env).length - 32)) :
    PoKSignature.fromBytes Concrete.env b' = .err ∨
      ∃ π'', PoKSignature.fromBytes Concrete.env b' = .ok π'' ∧
        π''.challenge = π.challenge.1 ∧ π''.mCap.length ≠ π.mCap.length ∧
        ∀ (pk' : G2Sub) (dmsgs' : Option (List Bytes)) (di' : Option (List Nat))
          (header' ph' : Option Bytes),
          π''.mCap.length + (sortDedup (di'.getD [])).length + 1 ≤ 2 ^ 64 →
          proofVerify Concrete.env cs' π'' pk'.1 dmsgs' di' header' ph' = .ok () →
          HashCollision Concrete.env cs' := by
  obtain ⟨cs, rfl⟩ := suite_of_ok hcs
  have H := hom hH
  rw [proofVerify_transfer H] at h
  rw [PoKSignature.toBytes_transfer H] at hlen hlast
  rcases C04Bytes.proofVerify_resize (lawful hP) cs π pk dmsgs di header ph hsz h b' hlen hlast
    with he | ⟨π', hd, hc, hU, hall⟩
  · exact Or.inl ((err_iff_of_map (PoKSignature.fromBytes_transfer H b')).mpr he)
  · refine Or.inr ⟨π'.map vS v1, ok_of_map (PoKSignature.fromBytes_transfer H b') hd,
      congrArg Subtype.val hc, by rw [PoKSignature.map_mCap, List.length_map]; exact hU,
      fun pk' dmsgs' di' header' ph' hsz' hv => ?_⟩
    rw [proofVerify_transfer H] at hv
    rw [PoKSignature.map_mCap, List.length_map] at hsz'
    exact hashCollision_transfer hH cs (hall pk' dmsgs' di' header' ph' hsz' hv)

/-- Truncation by whole scalars, API level (`C04Bytes.proofVerify_delete_blocks`). -/
theorem concrete_proofVerify_delete_blocks (hH : HashInSub) (hP : PairingHyp) (cs' : Suite G1Pt)
    (hcs : SuiteOK cs') (π : PoKSignature FrR G1Sub) (pk : G2Sub) (dmsgs : Option (List Bytes))
    (di : Option (List Nat)) (header ph : Option Bytes)
    (hsz : π.mCap.length + (sortDedup (di.getD [])).length + 1 ≤ 2 ^ 64)
    (h : proofVerify Concrete.env cs' (π.map vS v1) pk.1 dmsgs di header ph = .ok ())
    (j n : Nat) (hn : 0 < n) (hjn : j + n ≤ π.mCap.length) :
    let b' := C04Bytes.deleteBlocks j n ((π.map vS v1).toBytes Concrete.env)
    PoKSignature.fromBytes Concrete.env b' = .err ∨
      ∃ π'', PoKSignature.fromBytes Concrete.env b' = .ok π'' ∧
        π''.challenge = π.challenge.1 ∧ π''.mCap.length ≠ π.mCap.length ∧
        ∀ (pk' : G2Sub) (dmsgs' : Option (List Bytes)) (di' : Option (List Nat))
          (header' ph' : Option Bytes),
          π''.mCap.length + (sortDedup (di'.getD [])).length + 1 ≤ 2 ^ 64 →
          proofVerify Concrete.env cs' π'' pk'.1 dmsgs' di' header' ph' = .ok () →
          HashCollision Concrete.env cs' := by
  intro b'
  have H := hom hH
  have hN : ((π.map vS v1).toBytes Concrete.env).length = 272 + 32 * π.mCap.length := by
    rw [PoKSignature.toBytes_transfer H]
    exact Zk.Codecs.PoKSignature.toBytes_length (lawful hP) π
  obtain ⟨h1, h2⟩ := C04Bytes.deleteBlocks_props _ π.mCap.length j n hN hn hjn
  exact concrete_proofVerify_resize hH hP cs' hcs π pk dmsgs di header ph hsz h b' h1 h2

/-- Extension by any non-empty octet string before the challenge block, API level
(`C04Bytes.proofVerify_insert_blocks`). -/
theorem concrete_proofVerify_insert_blocks (hH : HashInSub) (hP : PairingHyp) (cs' : Suite G1Pt)
    (hcs : SuiteOK cs') (π : PoKSignature FrR G1Sub) (pk : G2Sub) (dmsgs : Option (List Bytes))
    (di : Option (List Nat)) (header ph : Option Bytes)
    (hsz : π.mCap.length + (sortDedup (di.getD [])).length + 1 ≤ 2 ^ 64)
    (h : proofVerify Concrete.env cs' (π.map vS v1) pk.1 dmsgs di header ph = .ok ())
    (j : Nat) (blk : Bytes) (hblk : blk ≠ []) (hj : j ≤ π.mCap.length) :
    let b' := C04Bytes.insertBlocks j blk ((π.map vS v1).toBytes Concrete.env)
    PoKSignature.fromBytes Concrete.env b' = .err ∨
      ∃ π'', PoKSignature.fromBytes Concrete.env b' = .ok π'' ∧
        π''.challenge = π.challenge.1 ∧ π''.mCap.length ≠ π.mCap.length ∧
        ∀ (pk' : G2Sub) (dmsgs' : Option (List Bytes)) (di' : Option (List Nat))
          (header' ph' : Option Bytes),
          π''.mCap.length + (sortDedup (di'.getD [])).length + 1 ≤ 2 ^ 64 →
          proofVerify Concrete.env cs' π'' pk'.1 dmsgs' di' header' ph' = .ok () →
          HashCollision Concrete.env cs' := by
  intro b'
  have H := hom hH
  have hN : ((π.map vS v1).toBytes Concrete.env).length = 272 + 32 * π.mCap.length := by
    rw [PoKSignature.toBytes_transfer H]
    exact Zk.Codecs.PoKSignature.toBytes_length (lawful hP) π
  obtain ⟨h1, h2⟩ := C04Bytes.insertBlocks_props _ blk π.mCap.length j hN hblk hj
  exact concrete_proofVerify_resize hH hP cs' hcs π pk dmsgs di header ph hsz h b' h1 h2

/-! ### C06: the signer only signs verified commitments (no hypothesis, arbitrary raw records) -/

/-- **The executable signer never signs an unverified commitment**
(`C06.blind_sign_requires_valid_commit`): for ARBITRARY raw inputs, if the executable `blind_sign`
returns a signature, the commitment-with-proof is absent/empty, or it decodes to `(C, proof)` and the
executable `core_commit_verify` accepts the proof over the signer's own blind generators; and the
signature is computed from exactly that `C`. -/
theorem concrete_blind_sign_requires_valid_commit (cs' : Suite G1Pt) (sk' : Fr) (pk' : G2Pt)
    (cwp header : Option Bytes) (messages : Option (List Bytes)) (σ' : Signature Fr G1Pt)
    (h : blindSign Concrete.env cs' sk' pk' cwp header messages = .ok σ') :
    ∃ M gens bgens ms C B,
      blindSignM (cwp.getD []).length = some M ∧
      Generators.create Concrete.env cs' ((messages.getD []).length + 1) (some cs'.apiIdBlind)
        = .ok gens ∧
      Generators.create Concrete.env cs' (M + 1) (some (Bytes.ofAscii "BLIND_" ++ cs'.apiIdBlind))
        = .ok bgens ∧
      messagesToScalar Concrete.env cs' (messages.getD []) cs'.apiIdBlind = .ok ms ∧
      calculateB gens (some C) ms = .ok B ∧
      finalizeBlindSign Concrete.env cs' sk' pk' B gens bgens header (some cs'.apiIdBlind)
        = .ok σ' ∧
      ((cwp.getD [] = [] ∧ C = 0) ∨
        ∃ c, Commitment.fromBytes Concrete.env (cwp.getD []) = .ok c ∧ C = c.commitment ∧
          coreCommitVerify Concrete.env cs' c.commitment c.proof bgens.values
            (some cs'.apiIdBlind) = .ok ()) :=
  raw_blind_sign_requires_valid_commit Concrete.env cs' sk' pk' cwp header messages σ' h

/-- Refusal form (`C06.blind_sign_refuses`), arbitrary raw records: a non-empty commitment-with-proof
that does not decode, or whose proof the executable `core_commit_verify` does not accept over the
signer's generators, never yields a signature. -/
theorem concrete_blind_sign_refuses (cs' : Suite G1Pt) (sk' : Fr) (pk' : G2Pt)
    (cwp header : Option Bytes) (messages : Option (List Bytes)) (hne : cwp.getD [] ≠ [])
    (hbad : ∀ c M bgens, Commitment.fromBytes Concrete.env (cwp.getD []) = .ok c →
      blindSignM (cwp.getD []).length = some M →
      Generators.create Concrete.env cs' (M + 1)
        (some (Bytes.ofAscii "BLIND_" ++ cs'.apiIdBlind)) = .ok bgens →
      coreCommitVerify Concrete.env cs' c.commitment c.proof bgens.values (some cs'.apiIdBlind)
        ≠ .ok ())
    (σ' : Signature Fr G1Pt) : blindSign Concrete.env cs' sk' pk' cwp header messages ≠ .ok σ' :=
  raw_blind_sign_refuses Concrete.env cs' sk' pk' cwp header messages hne hbad σ'

/-- The executable commitment decoder returns only images. -/
theorem concrete_commitment_decode_image (hH : HashInSub) (b : Bytes) (c' : Commitment Fr G1Pt)
    (h : Commitment.fromBytes Concrete.env b = .ok c') :
    ∃ c : Commitment FrR G1Sub, c' = c.map vS v1 := by
  obtain ⟨c, _, rfl⟩ := exists_of_map_ok (Commitment.fromBytes_transfer (hom hH) b) h
  exact ⟨c, rfl⟩

/-! ### C06: the commitment proof (core level) -/

theorem coreCommitVerify_concrete (hH : HashInSub) (cs : Suite G1Sub) (C : G1Sub) (z : ZKPoK FrR)
    (bg : List G1Sub) (apiId : Option Bytes) :
    coreCommitVerify Concrete.env (cs.map v1) C.1 (z.map vS) (bg.map v1) apiId
      = coreCommitVerify subEnv cs C z bg apiId :=
  coreCommitVerify_nat (hom hH) cs C z bg apiId

/-- **Special soundness of the executable `core_commit_verify`, explicit extractor**
(`C06.commit_special_soundness`): two transcripts with as many scalars, the same recomputed `Cbar` (in
the executable arithmetic) and different challenges; the extracted `s*, m*` (computed in the field
`FrR`) open the commitment in the executable arithmetic: `C = s*•Q2 + Σ m*_i•J_i`. -/
theorem concrete_commit_special_soundness (hH : HashInSub) (cs' : Suite G1Pt) (hcs : SuiteOK cs')
    (C : G1Sub) (z z' : ZKPoK FrR) (bg : List G1Sub) (apiId : Option Bytes)
    (h : coreCommitVerify Concrete.env cs' C.1 (z.map vS) (bg.map v1) apiId = .ok ())
    (hlen : z'.mCap.length = z.mCap.length)
    (hCbar : ∀ Q2 Js, (bg.map v1).take (z.mCap.length + 1) = Q2 :: Js →
      CbarRaw C.1 (z'.map vS) Q2 Js = CbarRaw C.1 (z.map vS) Q2 Js)
    (hc : z.challenge.1 ≠ z'.challenge.1) :
    ∃ Q2 Js, (bg.map v1).take (z.mCap.length + 1) = Q2 :: Js ∧ Js.length = z.mCap.length ∧
      (Sound.extractOpening z z').2.length = z.mCap.length ∧
      C.1 = (Sound.extractOpening z z').1.1 • Q2
        + linZRaw Js ((Sound.extractOpening z z').2.map vS) := by
  obtain ⟨cs, rfl⟩ := suite_of_ok hcs
  have H := hom hH
  rw [coreCommitVerify_concrete hH] at h
  obtain ⟨Q2, Js, ht, hl, hl2, hC⟩ := C06.commit_special_soundness (env := subEnv) cs C z z' bg
    apiId h hlen (fun Q2 Js ht => by
      have := hCbar Q2.1 (Js.map v1) (by rw [← List.map_take, ht, List.map_cons])
      rw [Cbar_nat H, Cbar_nat H] at this
      exact H.f1_inj this) (fun e => hc (congrArg Subtype.val e))
  refine ⟨Q2.1, Js.map v1, by rw [← List.map_take, ht, List.map_cons],
    by rw [List.length_map, hl], hl2, ?_⟩
  rw [linZ_nat H, ← H.G1_smul, ← H.G1_add]
  exact congrArg Subtype.val hC

/-- A proof made for another commitment point: acceptance with the same proof exhibits a hash
collision (`C06.commit_tamper_C`). -/
theorem concrete_commit_tamper_C (hH : HashInSub) (hP : PairingHyp) (cs' : Suite G1Pt)
    (hcs : SuiteOK cs') (C C' : G1Sub) (z : ZKPoK FrR) (bg : List G1Sub) (apiId : Option Bytes)
    (h : coreCommitVerify Concrete.env cs' C.1 (z.map vS) (bg.map v1) apiId = .ok ())
    (h' : coreCommitVerify Concrete.env cs' C'.1 (z.map vS) (bg.map v1) apiId = .ok ())
    (hne : C'.1 ≠ C.1) : HashCollision Concrete.env cs' := by
  obtain ⟨cs, rfl⟩ := suite_of_ok hcs
  rw [coreCommitVerify_concrete hH] at h h'
  exact hashCollision_transfer hH cs (C06.commit_tamper_C (lawful hP) cs C C' z bg apiId h h'
    (fun e => hne (congrArg Subtype.val e)))

/-- Changing `ŝ`: a hash collision, or a blind generator is the identity point
(`C06.commit_tamper_sCap`). -/
theorem concrete_commit_tamper_sCap (hH : HashInSub) (hP : PairingHyp) (cs' : Suite G1Pt)
    (hcs : SuiteOK cs') (C : G1Sub) (z : ZKPoK FrR) (bg : List G1Sub) (apiId : Option Bytes)
    (s' : FrR)
    (h : coreCommitVerify Concrete.env cs' C.1 (z.map vS) (bg.map v1) apiId = .ok ())
    (h' : coreCommitVerify Concrete.env cs' C.1 { z.map vS with sCap := s'.1 } (bg.map v1) apiId
      = .ok ())
    (hne : s'.1 ≠ z.sCap.1) : HashCollision Concrete.env cs' ∨ (0 : G1Pt) ∈ bg.map v1 := by
  obtain ⟨cs, rfl⟩ := suite_of_ok hcs
  have e : ({ z.map vS with sCap := s'.1 } : ZKPoK Fr) = ZKPoK.map vS { z with sCap := s' } := rfl
  rw [e] at h'
  rw [coreCommitVerify_concrete hH] at h h'
  rcases C06.commit_tamper_sCap (lawful hP) cs C z bg apiId s' h h'
    (fun x => hne (congrArg Subtype.val x)) with hcol | h0
  · exact Or.inl (hashCollision_transfer hH cs hcol)
  · exact Or.inr (zero_mem_map h0)

/-- Changing one `m̂_i`: a hash collision, or a blind generator is the identity point
(`C06.commit_tamper_mCap`). -/
theorem concrete_commit_tamper_mCap (hH : HashInSub) (hP : PairingHyp) (cs' : Suite G1Pt)
    (hcs : SuiteOK cs') (C : G1Sub) (z : ZKPoK FrR) (bg : List G1Sub) (apiId : Option Bytes)
    (j : Nat) (m' : FrR) (hj : j < z.mCap.length)
    (h : coreCommitVerify Concrete.env cs' C.1 (z.map vS) (bg.map v1) apiId = .ok ())
    (h' : coreCommitVerify Concrete.env cs' C.1
      { z.map vS with mCap := (z.map vS).mCap.set j m'.1 } (bg.map v1) apiId = .ok ())
    (hne : m'.1 ≠ (z.mCap[j]).1) : HashCollision Concrete.env cs' ∨ (0 : G1Pt) ∈ bg.map v1 := by
  obtain ⟨cs, rfl⟩ := suite_of_ok hcs
  have e : ({ z.map vS with mCap := (z.map vS).mCap.set j m'.1 } : ZKPoK Fr)
      = ZKPoK.map vS { z with mCap := z.mCap.set j m' } := by
    simp only [ZKPoK.map, List.map_set]
  rw [e] at h'
  rw [coreCommitVerify_concrete hH] at h h'
  rcases C06.commit_tamper_mCap (lawful hP) cs C z bg apiId j m' hj h h'
    (fun x => hne (congrArg Subtype.val x)) with hcol | h0
  · exact Or.inl (hashCollision_transfer hH cs hcol)
  · exact Or.inr (zero_mem_map h0)

/-- Another number of scalars, same challenge value: acceptance — for any commitment, over any
generators — exhibits a hash collision (`C06.commit_tamper_count`). -/
theorem concrete_commit_tamper_count (hH : HashInSub) (hP : PairingHyp) (cs' : Suite G1Pt)
    (hcs : SuiteOK cs') (C C' : G1Sub) (z z' : ZKPoK FrR) (bg bg' : List G1Sub)
    (apiId : Option Bytes)
    (h : coreCommitVerify Concrete.env cs' C.1 (z.map vS) (bg.map v1) apiId = .ok ())
    (h' : coreCommitVerify Concrete.env cs' C'.1 (z'.map vS) (bg'.map v1) apiId = .ok ())
    (hc : z'.challenge.1 = z.challenge.1) (hne : z'.mCap.length ≠ z.mCap.length) :
    HashCollision Concrete.env cs' := by
  obtain ⟨cs, rfl⟩ := suite_of_ok hcs
  rw [coreCommitVerify_concrete hH] at h h'
  exact hashCollision_transfer hH cs (C06.commit_tamper_count (lawful hP) cs C C' z z' bg bg' apiId
    h h' (Subtype.ext hc) hne)

/-- **Changing the challenge field of a commitment proof** (`C06.commit_tamper_challenge`), ARBITRARY
raw records, no hypothesis: the new challenge is a fixed point of "rebuild `Cbar` from `c` as the code
does, hash with the executable `hash_to_scalar`". -/
theorem concrete_commit_tamper_challenge (cs' : Suite G1Pt) (C' : G1Pt) (z' : ZKPoK Fr)
    (bg' : List G1Pt) (apiId : Option Bytes) (c' : Fr)
    (h' : coreCommitVerify Concrete.env cs' C' { z' with challenge := c' } bg' apiId = .ok ())
    (hne : c' ≠ z'.challenge) :
    ∃ Q2 Js, bg'.take (z'.mCap.length + 1) = Q2 :: Js ∧
      FixedPoint Concrete.env cs'
        (fun c => blindChallengeInput Concrete.env C'
          (sumZip (z'.sCap • Q2) Js z'.mCap + (-c) • C') (Q2 :: Js))
        (apiId.getD [] ++ cs'.h2s) z'.challenge :=
  raw_commit_tamper_challenge Concrete.env cs' C' z' bg' apiId c' h' hne

/-- What acceptance of a changed commitment-with-proof over the same generators implies
(`C06Bytes.CommitVerdict` in the executable arithmetic). -/
def CommitVerdictC (cs' : Suite G1Pt) (c c' : Commitment Fr G1Pt) (bg : List G1Pt) : Prop :=
  HashCollision Concrete.env cs' ∨ c'.proof.challenge ≠ c.proof.challenge ∨
    CommitRelationRaw c c' bg

theorem commitVerdict_transfer (hH : HashInSub) (cs : Suite G1Sub) (c c' : Commitment FrR G1Sub)
    (bg : List G1Sub) (h : C06Bytes.CommitVerdict subEnv cs c c' bg) :
    CommitVerdictC (cs.map v1) (c.map vS v1) (c'.map vS v1) (bg.map v1) := by
  rcases h with x | x | x
  · exact Or.inl (hashCollision_transfer hH cs x)
  · exact Or.inr (Or.inl fun e => x (Subtype.ext e))
  · exact Or.inr (Or.inr (commitRelation_nat (hom hH) c c' bg x))

/-- **Any change whatsoever of an accepted commitment-with-proof, same generators**
(`C06.commit_any_change` / `C06Bytes.commit_obj_any_change`). -/
theorem concrete_commit_any_change (hH : HashInSub) (hP : PairingHyp) (cs' : Suite G1Pt)
    (hcs : SuiteOK cs') (c c' : Commitment FrR G1Sub) (bg : List G1Sub) (apiId : Option Bytes)
    (h : coreCommitVerify Concrete.env cs' (c.map vS v1).commitment (c.map vS v1).proof (bg.map v1)
      apiId = .ok ())
    (h' : coreCommitVerify Concrete.env cs' (c'.map vS v1).commitment (c'.map vS v1).proof
      (bg.map v1) apiId = .ok ())
    (hne : c'.map vS v1 ≠ c.map vS v1) :
    CommitVerdictC cs' (c.map vS v1) (c'.map vS v1) (bg.map v1) := by
  obtain ⟨cs, rfl⟩ := suite_of_ok hcs
  rw [Commitment.map_commitment, Commitment.map_proof, coreCommitVerify_concrete hH] at h h'
  exact commitVerdict_transfer hH cs c c' bg
    (C06Bytes.commit_obj_any_change (lawful hP) cs c c' bg apiId h h' (fun e => hne (congrArg _ e)))

/-! ### C06Bytes: the serialized commitment-with-proof -/

/-- **Any change of the serialized commitment-with-proof** (`C06Bytes.commit_bytes_tamper`). -/
theorem concrete_commit_bytes_tamper (hH : HashInSub) (hP : PairingHyp) (cs' : Suite G1Pt)
    (hcs : SuiteOK cs') (c : Commitment FrR G1Sub) (bg : List G1Sub) (apiId : Option Bytes)
    (h : coreCommitVerify Concrete.env cs' (c.map vS v1).commitment (c.map vS v1).proof (bg.map v1)
      apiId = .ok ())
    (b' : Bytes) (hne : b' ≠ (c.map vS v1).toBytes Concrete.env) :
    Commitment.fromBytes Concrete.env b' = .err ∨
      ∃ c'', Commitment.fromBytes Concrete.env b' = .ok c'' ∧ c'' ≠ c.map vS v1 ∧
        (coreCommitVerify Concrete.env cs' c''.commitment c''.proof (bg.map v1) apiId = .ok () →
          CommitVerdictC cs' (c.map vS v1) c'' (bg.map v1)) := by
  obtain ⟨cs, rfl⟩ := suite_of_ok hcs
  have H := hom hH
  rw [Commitment.map_commitment, Commitment.map_proof, coreCommitVerify_concrete hH] at h
  rw [Commitment.toBytes_transfer H] at hne
  rcases C06Bytes.commit_bytes_tamper (lawful hP) cs c bg apiId h b' hne with
    he | ⟨c', hd, hcc, himp⟩
  · exact Or.inl ((err_iff_of_map (Commitment.fromBytes_transfer H b')).mpr he)
  · refine Or.inr ⟨c'.map vS v1, ok_of_map (Commitment.fromBytes_transfer H b') hd,
      fun e => hcc (Commitment.map_injective vS v1 H.fS_inj H.f1_inj e), fun hv => ?_⟩
    rw [Commitment.map_commitment, Commitment.map_proof, coreCommitVerify_concrete hH] at hv
    exact commitVerdict_transfer hH cs c c' bg (himp hv)

/-- **Any single-bit flip** of the serialized commitment-with-proof, all `8·(112 + 32·M)` positions
(`C06Bytes.commit_bitflip`). -/
theorem concrete_commit_bitflip (hH : HashInSub) (hP : PairingHyp) (cs' : Suite G1Pt)
    (hcs : SuiteOK cs') (c : Commitment FrR G1Sub) (bg : List G1Sub) (apiId : Option Bytes)
    (h : coreCommitVerify Concrete.env cs' (c.map vS v1).commitment (c.map vS v1).proof (bg.map v1)
      apiId = .ok ())
    (i : Nat) (hi : i < 8 * (112 + 32 * c.proof.mCap.length)) :
    let b' := C04Bytes.flipBit i ((c.map vS v1).toBytes Concrete.env)
    Commitment.fromBytes Concrete.env b' = .err ∨
      ∃ c'', Commitment.fromBytes Concrete.env b' = .ok c'' ∧ c'' ≠ c.map vS v1 ∧
        (coreCommitVerify Concrete.env cs' c''.commitment c''.proof (bg.map v1) apiId = .ok () →
          CommitVerdictC cs' (c.map vS v1) c'' (bg.map v1)) := by
  intro b'
  have hN : ((c.map vS v1).toBytes Concrete.env).length = 112 + 32 * c.proof.mCap.length := by
    rw [Commitment.toBytes_transfer (hom hH)]
    exact Zk.Codecs.Commitment.toBytes_length (lawful hP) c
  exact concrete_commit_bytes_tamper hH hP cs' hcs c bg apiId h b'
    (C04Bytes.flipBit_ne i _ (by rw [hN]; exact hi))

/-- **Another length, same challenge block** (`C06Bytes.commit_resize`): acceptance — for any
commitment point, over ANY generators — exhibits a hash collision. -/
theorem concrete_commit_resize (hH : HashInSub) (hP : PairingHyp) (cs' : Suite G1Pt)
    (hcs : SuiteOK cs') (c : Commitment FrR G1Sub) (bg : List G1Sub) (apiId : Option Bytes)
    (h : coreCommitVerify Concrete.env cs' (c.map vS v1).commitment (c.map vS v1).proof (bg.map v1)
      apiId = .ok ())
    (b' : Bytes) (hlen : b'.length ≠ ((c.map vS v1).toBytes Concrete.env).length)
    (hlast : b'.drop (b'.length - 32) = ((c.map vS v1).toBytes Concrete.env).drop
      (((c.map vS v1).toBytes Concrete.env).length - 32)) :
    Commitment.fromBytes Concrete.env b' = .err ∨
      ∃ c'', Commitment.fromBytes Concrete.env b' = .ok c'' ∧
        c''.proof.challenge = c.proof.challenge.1 ∧
        c''.proof.mCap.length ≠ c.proof.mCap.length ∧
        ∀ bg' : List G1Sub,
          coreCommitVerify Concrete.env cs' c''.commitment c''.proof (bg'.map v1) apiId = .ok () →
          HashCollision Concrete.env cs' := by
  obtain ⟨cs, rfl⟩ := suite_of_ok hcs
  have H := hom hH
  rw [Commitment.map_commitment, Commitment.map_proof, coreCommitVerify_concrete hH] at h
  rw [Commitment.toBytes_transfer H] at hlen hlast
  rcases C06Bytes.commit_resize (lawful hP) cs c bg apiId h b' hlen hlast with
    he | ⟨c', hd, hc, hM, hall⟩
  · exact Or.inl ((err_iff_of_map (Commitment.fromBytes_transfer H b')).mpr he)
  · refine Or.inr ⟨c'.map vS v1, ok_of_map (Commitment.fromBytes_transfer H b') hd,
      congrArg Subtype.val hc, by
        rw [Commitment.map_proof, ZKPoK.map_mCap, List.length_map]; exact hM, fun bg' hv => ?_⟩
    rw [Commitment.map_commitment, Commitment.map_proof, coreCommitVerify_concrete hH] at hv
    exact hashCollision_transfer hH cs (hall bg' hv)

/-- Truncation by whole scalars (`C06Bytes.commit_delete_blocks`). -/
theorem concrete_commit_delete_blocks (hH : HashInSub) (hP : PairingHyp) (cs' : Suite G1Pt)
    (hcs : SuiteOK cs') (c : Commitment FrR G1Sub) (bg : List G1Sub) (apiId : Option Bytes)
    (h : coreCommitVerify Concrete.env cs' (c.map vS v1).commitment (c.map vS v1).proof (bg.map v1)
      apiId = .ok ())
    (j n : Nat) (hn : 0 < n) (hjn : j + n ≤ c.proof.mCap.length) :
    let b' := C06Bytes.deleteBlocks j n ((c.map vS v1).toBytes Concrete.env)
    Commitment.fromBytes Concrete.env b' = .err ∨
      ∃ c'', Commitment.fromBytes Concrete.env b' = .ok c'' ∧
        c''.proof.challenge = c.proof.challenge.1 ∧
        c''.proof.mCap.length ≠ c.proof.mCap.length ∧
        ∀ bg' : List G1Sub,
          coreCommitVerify Concrete.env cs' c''.commitment c''.proof (bg'.map v1) apiId = .ok () →
          HashCollision Concrete.env cs' := by
  intro b'
  have hN : ((c.map vS v1).toBytes Concrete.env).length = 112 + 32 * c.proof.mCap.length := by
    rw [Commitment.toBytes_transfer (hom hH)]
    exact Zk.Codecs.Commitment.toBytes_length (lawful hP) c
  obtain ⟨_, h1, h2⟩ := C06Bytes.deleteBlocks_props _ c.proof.mCap.length j n hN hn hjn
  exact concrete_commit_resize hH hP cs' hcs c bg apiId h b' h1 h2

/-- Extension by any non-empty octet string before the `j`-th response
(`C06Bytes.commit_insert_blocks`). -/
theorem concrete_commit_insert_blocks (hH : HashInSub) (hP : PairingHyp) (cs' : Suite G1Pt)
    (hcs : SuiteOK cs') (c : Commitment FrR G1Sub) (bg : List G1Sub) (apiId : Option Bytes)
    (h : coreCommitVerify Concrete.env cs' (c.map vS v1).commitment (c.map vS v1).proof (bg.map v1)
      apiId = .ok ())
    (j : Nat) (blk : Bytes) (hblk : blk ≠ []) (hj : j ≤ c.proof.mCap.length) :
    let b' := C06Bytes.insertBlocks j blk ((c.map vS v1).toBytes Concrete.env)
    Commitment.fromBytes Concrete.env b' = .err ∨
      ∃ c'', Commitment.fromBytes Concrete.env b' = .ok c'' ∧
        c''.proof.challenge = c.proof.challenge.1 ∧
        c''.proof.mCap.length ≠ c.proof.mCap.length ∧
        ∀ bg' : List G1Sub,
          coreCommitVerify Concrete.env cs' c''.commitment c''.proof (bg'.map v1) apiId = .ok () →
          HashCollision Concrete.env cs' := by
  intro b'
  have hN : ((c.map vS v1).toBytes Concrete.env).length = 112 + 32 * c.proof.mCap.length := by
    rw [Commitment.toBytes_transfer (hom hH)]
    exact Zk.Codecs.Commitment.toBytes_length (lawful hP) c
  obtain ⟨_, h1, h2⟩ := C06Bytes.insertBlocks_props _ blk c.proof.mCap.length j hN hblk hj
  exact concrete_commit_resize hH hP cs' hcs c bg apiId h b' h1 h2

/-! ### C06Bytes: at the executable signer -/

/-- **Two different commitment octet strings of the same length, both signed by the executable
`blind_sign`** (`C06Bytes.blind_sign_bytes_tamper`): both decode, to different objects, both proofs are
accepted by the executable `core_commit_verify` over the same blind generators, and `CommitVerdictC`
holds. -/
theorem concrete_blind_sign_bytes_tamper (hH : HashInSub) (hP : PairingHyp) (cs' : Suite G1Pt)
    (hcs : SuiteOK cs') (sk : FrR) (pk : G2Sub) (b b' : Bytes) (header header' : Option Bytes)
    (messages messages' : Option (List Bytes)) (σ' σ'' : Signature Fr G1Pt)
    (hlen : b'.length = b.length) (hb : b ≠ []) (hne : b' ≠ b)
    (h : blindSign Concrete.env cs' sk.1 pk.1 (some b) header messages = .ok σ')
    (h' : blindSign Concrete.env cs' sk.1 pk.1 (some b') header' messages' = .ok σ'') :
    ∃ c c' bg, Commitment.fromBytes Concrete.env b = .ok c ∧
      Commitment.fromBytes Concrete.env b' = .ok c' ∧ c' ≠ c ∧
      coreCommitVerify Concrete.env cs' c.commitment c.proof bg (some cs'.apiIdBlind) = .ok () ∧
      coreCommitVerify Concrete.env cs' c'.commitment c'.proof bg (some cs'.apiIdBlind) = .ok () ∧
      CommitVerdictC cs' c c' bg := by
  obtain ⟨cs, rfl⟩ := suite_of_ok hcs
  have H := hom hH
  obtain ⟨σ, hσ, _⟩ := blindSign_ok_exists H cs _ _ _ _ _ _ h
  obtain ⟨τ, hτ, _⟩ := blindSign_ok_exists H cs _ _ _ _ _ _ h'
  obtain ⟨c, c', bg, hc, hc', hcc, hv, hv', hV⟩ := C06Bytes.blind_sign_bytes_tamper (lawful hP) cs
    sk pk b b' header header' messages messages' σ τ hlen hb hne hσ hτ
  refine ⟨c.map vS v1, c'.map vS v1, bg.map v1,
    ok_of_map (Commitment.fromBytes_transfer H b) hc,
    ok_of_map (Commitment.fromBytes_transfer H b') hc',
    fun e => hcc (Commitment.map_injective vS v1 H.fS_inj H.f1_inj e), ?_, ?_,
    commitVerdict_transfer hH cs c c' bg hV⟩
  · rw [Commitment.map_commitment, Commitment.map_proof, Suite.map_apiIdBlind,
      coreCommitVerify_concrete hH]; exact hv
  · rw [Commitment.map_commitment, Commitment.map_proof, Suite.map_apiIdBlind,
      coreCommitVerify_concrete hH]; exact hv'

/-- Every single-bit flip of a signed commitment-with-proof that is signed as well
(`C06Bytes.blind_sign_bitflip`). -/
theorem concrete_blind_sign_bitflip (hH : HashInSub) (hP : PairingHyp) (cs' : Suite G1Pt)
    (hcs : SuiteOK cs') (sk : FrR) (pk : G2Sub) (b : Bytes) (header header' : Option Bytes)
    (messages messages' : Option (List Bytes)) (σ' σ'' : Signature Fr G1Pt) (i : Nat)
    (hi : i < 8 * b.length)
    (h : blindSign Concrete.env cs' sk.1 pk.1 (some b) header messages = .ok σ')
    (h' : blindSign Concrete.env cs' sk.1 pk.1 (some (C04Bytes.flipBit i b)) header' messages'
      = .ok σ'') :
    ∃ c c' bg, Commitment.fromBytes Concrete.env b = .ok c ∧
      Commitment.fromBytes Concrete.env (C04Bytes.flipBit i b) = .ok c' ∧ c' ≠ c ∧
      coreCommitVerify Concrete.env cs' c.commitment c.proof bg (some cs'.apiIdBlind) = .ok () ∧
      coreCommitVerify Concrete.env cs' c'.commitment c'.proof bg (some cs'.apiIdBlind) = .ok () ∧
      CommitVerdictC cs' c c' bg :=
  concrete_blind_sign_bytes_tamper hH hP cs' hcs sk pk b (C04Bytes.flipBit i b) header header'
    messages messages' σ' σ'' (C04Bytes.flipBit_length i b) (by rintro rfl; simp at hi)
    (C04Bytes.flipBit_ne i b hi) h h'

/-- **Two commitment octet strings of different lengths with the same final challenge block, both
signed by the executable `blind_sign`**: a collision of the executable `hash_to_scalar`
(`C06Bytes.blind_sign_resize`). -/
theorem concrete_blind_sign_resize (hH : HashInSub) (hP : PairingHyp) (cs' : Suite G1Pt)
    (hcs : SuiteOK cs') (sk : FrR) (pk : G2Sub) (b b' : Bytes) (header header' : Option Bytes)
    (messages messages' : Option (List Bytes)) (σ' σ'' : Signature Fr G1Pt)
    (hb : b ≠ []) (hb' : b' ≠ []) (hlen : b'.length ≠ b.length)
    (hlast : b'.drop (b'.length - 32) = b.drop (b.length - 32))
    (h : blindSign Concrete.env cs' sk.1 pk.1 (some b) header messages = .ok σ')
    (h' : blindSign Concrete.env cs' sk.1 pk.1 (some b') header' messages' = .ok σ'') :
    HashCollision Concrete.env cs' := by
  obtain ⟨cs, rfl⟩ := suite_of_ok hcs
  have H := hom hH
  obtain ⟨σ, hσ, _⟩ := blindSign_ok_exists H cs _ _ _ _ _ _ h
  obtain ⟨τ, hτ, _⟩ := blindSign_ok_exists H cs _ _ _ _ _ _ h'
  exact hashCollision_transfer hH cs (C06Bytes.blind_sign_resize (lawful hP) cs sk pk b b' header
    header' messages messages' σ τ hb hb' hlen hlast hσ hτ)

/-! ### C06: what the executable `verify_blind_sign` decides; blind proof binding -/

theorem getD_map_vS (blind : Option FrR) : (blind.map vS).getD 0 = (blind.getD 0).1 := by
  cases blind with
  | none => exact coe_zero.symm
  | some b => rfl

/-- **What the executable `verify_blind_sign` decides** for `pk = sk • G2.gen`
(`C06.verifyBlindSign_iff`): the hash-derived scalars, both generator families and the domain exist
and `(sk + e) • A = B(ms ‖ blind ‖ cms)` in the executable arithmetic (`blind = 0` when absent). -/
theorem concrete_verifyBlindSign_iff (hH : HashInSub) (hP : PairingHyp) (cs' : Suite G1Pt)
    (hcs : SuiteOK cs') (sk : FrR) (σ : Signature FrR G1Sub) (header : Option Bytes)
    (messages committed : Option (List Bytes)) (blind : Option FrR) :
    verifyBlindSign Concrete.env cs' (σ.map vS v1) (skToPk Concrete.env sk.1) header messages
        committed (blind.map vS) = .ok () ↔
      ∃ (ms cms : List Fr) (gens bgens : Generators G1Pt) (Q1 : G1Pt) (Hs : List G1Pt) (Q2 : G1Pt)
        (Js : List G1Pt) (domain : Fr),
        messagesToScalar Concrete.env cs' (messages.getD []) cs'.apiIdBlind = .ok ms ∧
        messagesToScalar Concrete.env cs' (committed.getD []) cs'.apiIdBlind = .ok cms ∧
        Generators.create Concrete.env cs' ((messages.getD []).length + 1) (some cs'.apiIdBlind)
          = .ok gens ∧
        gens.values = Q1 :: Hs ∧
        Generators.create Concrete.env cs' ((committed.getD []).length + 1)
          (some (Bytes.ofAscii "BLIND_" ++ cs'.apiIdBlind)) = .ok bgens ∧
        bgens.values = Q2 :: Js ∧
        calculateDomain Concrete.env cs' (skToPk Concrete.env sk.1) Q1 (Hs ++ Q2 :: Js) header
          (some cs'.apiIdBlind) = .ok domain ∧
        (sk.1 + σ.e.1) • σ.A.1
          = calcB cs'.p1 Q1 domain (Hs ++ Q2 :: Js) (ms ++ (blind.map vS).getD 0 :: cms) := by
  obtain ⟨cs, rfl⟩ := suite_of_ok hcs
  have H := hom hH
  rw [skToPk_transfer H, verifyBlindSign_transfer H,
    show skToPk subEnv sk = sk • subEnv.bp2 from rfl]
  refine (C06.verifyBlindSign_iff (lawful hP) cs sk σ header messages committed blind).trans ?_
  constructor
  · rintro ⟨ms, cms, gens, bgens, Q1, Hs, Q2, Js, d, h1, h2, h3, h4, h5, h6, h7, h8⟩
    refine ⟨ms.map vS, cms.map vS, gens.map v1, bgens.map v1, Q1.1, Hs.map v1, Q2.1, Js.map v1, d.1,
      ok_of_map (messagesToScalar_transfer H cs _ _) h1,
      ok_of_map (messagesToScalar_transfer H cs _ _) h2,
      ok_of_map (Generators.create_transfer H cs _ _) h3, by rw [Generators.map_values, h4]; rfl,
      ok_of_map (Generators.create_transfer H cs _ _) h5, by rw [Generators.map_values, h6]; rfl,
      ?_, ?_⟩
    · have := ok_of_map (calculateDomain_nat H cs (sk • subEnv.bp2) Q1 (Hs ++ Q2 :: Js) header
        (some cs.apiIdBlind)) h7
      have e : Hs.map v1 ++ Q2.1 :: Js.map v1 = (Hs ++ Q2 :: Js).map v1 := by simp
      rw [Suite.map_apiIdBlind, e]
      exact this
    · have := calcB_nat H cs.p1 Q1 d (Hs ++ Q2 :: Js) (ms ++ blind.getD 0 :: cms)
      have e : Hs.map v1 ++ Q2.1 :: Js.map v1 = (Hs ++ Q2 :: Js).map v1 := by simp
      have e' : ms.map vS ++ (blind.getD 0).1 :: cms.map vS = (ms ++ blind.getD 0 :: cms).map vS := by
        simp
      rw [Suite.map_p1, getD_map_vS, e, e', this, ← h8, H.G1_smul, H.S_add]
  · rintro ⟨ms', cms', gens', bgens', Q1', Hs', Q2', Js', d', h1, h2, h3, h4, h5, h6, h7, h8⟩
    obtain ⟨ms, k1, rfl⟩ := exists_of_map_ok (messagesToScalar_transfer H cs _ _) h1
    obtain ⟨cms, k2, rfl⟩ := exists_of_map_ok (messagesToScalar_transfer H cs _ _) h2
    obtain ⟨gens, k3, rfl⟩ := exists_of_map_ok (Generators.create_transfer H cs _ _) h3
    obtain ⟨bgens, k5, rfl⟩ := exists_of_map_ok (Generators.create_transfer H cs _ _) h5
    have h4' : gens.values.map v1 = Q1' :: Hs' := h4
    have h6' : bgens.values.map v1 = Q2' :: Js' := h6
    obtain ⟨Q1, Hs, e4, rfl, rfl⟩ := List.map_eq_cons_iff.mp h4'
    obtain ⟨Q2, Js, e6, rfl, rfl⟩ := List.map_eq_cons_iff.mp h6'
    have h7' : calculateDomain Concrete.env (cs.map v1) (v2 (sk • subEnv.bp2)) (v1 Q1)
        ((Hs ++ Q2 :: Js).map v1) header (some cs.apiIdBlind) = .ok d' := by
      have e : Hs.map v1 ++ Q2.1 :: Js.map v1 = (Hs ++ Q2 :: Js).map v1 := by simp
      rw [Suite.map_apiIdBlind, e] at h7
      exact h7
    obtain ⟨d, k7, rfl⟩ := exists_of_map_ok (calculateDomain_nat H cs _ Q1 _ header _) h7'
    refine ⟨ms, cms, gens, bgens, Q1, Hs, Q2, Js, d, k1, k2, k3, e4, k5, e6, k7, H.f1_inj ?_⟩
    have := calcB_nat H cs.p1 Q1 d (Hs ++ Q2 :: Js) (ms ++ blind.getD 0 :: cms)
    have e : Hs.map v1 ++ Q2.1 :: Js.map v1 = (Hs ++ Q2 :: Js).map v1 := by simp
    have e' : ms.map vS ++ (blind.getD 0).1 :: cms.map vS = (ms ++ blind.getD 0 :: cms).map vS := by
      simp
    rw [Suite.map_p1, getD_map_vS, e, e', this] at h8
    rw [H.G1_smul, H.S_add]
    exact h8

/-- **Binding of the signer-message count `L`, explicit form**
(`C06Bytes.blind_proof_L_binding_explicit`): one proof accepted by the executable `blind_proof_verify`
with counts `L < L'`: a collision of the executable `hash_to_scalar`, or the FIRST BLIND GENERATOR of
the run with `L` equals the PLAIN GENERATOR number `L + 1` of the run with `L'` (both created by the
executable `create_generators`). -/
theorem concrete_blind_proof_L_binding_explicit (hH : HashInSub) (hP : PairingHyp)
    (cs' : Suite G1Pt) (hcs : SuiteOK cs') (π : PoKSignature FrR G1Sub) (pk pk' : G2Sub)
    (header header' ph ph' : Option Bytes) (L L' : Option Nat)
    (dmsgs dmsgs' dcmsgs dcmsgs' : Option (List Bytes)) (di di' dci dci' : Option (List Nat))
    (hsz : (sortDedup (di.getD [])).length + (sortDedup (dci.getD [])).length + π.mCap.length + 1
      ≤ 2 ^ 64)
    (hsz' : (sortDedup (di'.getD [])).length + (sortDedup (dci'.getD [])).length + π.mCap.length
      + 1 ≤ 2 ^ 64)
    (h : blindProofVerify Concrete.env cs' (π.map vS v1) pk.1 header ph L dmsgs dcmsgs di dci
      = .ok ())
    (h' : blindProofVerify Concrete.env cs' (π.map vS v1) pk'.1 header' ph' L' dmsgs' dcmsgs' di'
      dci' = .ok ())
    (hL : L.getD 0 < L'.getD 0) :
    HashCollision Concrete.env cs' ∨
      ∃ M g' bg x,
        (sortDedup (di.getD [])).length + (sortDedup (dci.getD [])).length + π.mCap.length
          = L.getD 0 + 1 + M ∧
        Generators.create Concrete.env cs' (L'.getD 0 + 1) (some cs'.apiIdBlind) = .ok g' ∧
        Generators.create Concrete.env cs' (M + 1)
          (some (Bytes.ofAscii "BLIND_" ++ cs'.apiIdBlind)) = .ok bg ∧
        g'.values[L.getD 0 + 1]? = some x ∧ bg.values[0]? = some x := by
  obtain ⟨cs, rfl⟩ := suite_of_ok hcs
  have H := hom hH
  rw [blindProofVerify_transfer H] at h h'
  rcases C06Bytes.blind_proof_L_binding_explicit (lawful hP) cs π pk pk' header header' ph ph' L L'
    dmsgs dmsgs' dcmsgs dcmsgs' di di' dci dci' hsz hsz' h h' hL with
    hcol | ⟨M, g', bg, x, hM, e1, e2, a, b⟩
  · exact Or.inl (hashCollision_transfer hH cs hcol)
  · refine Or.inr ⟨M, g'.map v1, bg.map v1, x.1, hM,
      ok_of_map (Generators.create_transfer H cs _ _) e1,
      ok_of_map (Generators.create_transfer H cs _ _) e2, ?_, ?_⟩
    · rw [Generators.map_values, List.getElem?_map, a]; rfl
    · rw [Generators.map_values, List.getElem?_map, b]; rfl

/-- **Binding of the signer-message count `L`** (`C06Bytes.blind_proof_L_binding`): one proof
accepted by the executable `blind_proof_verify` for two different counts: a hash collision, or the
plain and the `"BLIND_"` generator families of the executable `create_generators` share a point. -/
theorem concrete_blind_proof_L_binding (hH : HashInSub) (hP : PairingHyp)
    (cs' : Suite G1Pt) (hcs : SuiteOK cs') (π : PoKSignature FrR G1Sub) (pk pk' : G2Sub)
    (header header' ph ph' : Option Bytes) (L L' : Option Nat)
    (dmsgs dmsgs' dcmsgs dcmsgs' : Option (List Bytes)) (di di' dci dci' : Option (List Nat))
    (hsz : (sortDedup (di.getD [])).length + (sortDedup (dci.getD [])).length + π.mCap.length + 1
      ≤ 2 ^ 64)
    (hsz' : (sortDedup (di'.getD [])).length + (sortDedup (dci'.getD [])).length + π.mCap.length
      + 1 ≤ 2 ^ 64)
    (h : blindProofVerify Concrete.env cs' (π.map vS v1) pk.1 header ph L dmsgs dcmsgs di dci
      = .ok ())
    (h' : blindProofVerify Concrete.env cs' (π.map vS v1) pk'.1 header' ph' L' dmsgs' dcmsgs' di'
      dci' = .ok ())
    (hL : L.getD 0 ≠ L'.getD 0) :
    HashCollision Concrete.env cs' ∨ GeneratorCoincidenceRaw Concrete.env cs' := by
  obtain ⟨cs, rfl⟩ := suite_of_ok hcs
  have H := hom hH
  rw [blindProofVerify_transfer H] at h h'
  rcases C06Bytes.blind_proof_L_binding (lawful hP) cs π pk pk' header header' ph ph' L L'
    dmsgs dmsgs' dcmsgs dcmsgs' di di' dci dci' hsz hsz' h h' hL with hcol | hg
  · exact Or.inl (hashCollision_transfer hH cs hcol)
  · exact Or.inr (generatorCoincidence_nat H cs hg)

/-- **Statement binding for blind proofs** (`C06Bytes.blind_proof_stmt_binding`, the parts that are
statements about octet strings and indexes): one proof accepted by the executable
`blind_proof_verify` for two statements: a hash collision, or the public keys, headers, presentation
headers and combined disclosed index lists coincide, and so do the combined generator lists and the
combined disclosed scalars the executable verifier derives. -/
theorem concrete_blind_proof_stmt_binding (hH : HashInSub) (hP : PairingHyp)
    (cs' : Suite G1Pt) (hcs : SuiteOK cs') (π : PoKSignature FrR G1Sub) (pk pk' : G2Sub)
    (header header' ph ph' : Option Bytes) (L L' : Option Nat)
    (dmsgs dmsgs' dcmsgs dcmsgs' : Option (List Bytes)) (di di' dci dci' : Option (List Nat))
    (hsz : (sortDedup (di.getD [])).length + (sortDedup (dci.getD [])).length + π.mCap.length + 1
      ≤ 2 ^ 64)
    (hsz' : (sortDedup (di'.getD [])).length + (sortDedup (dci'.getD [])).length + π.mCap.length
      + 1 ≤ 2 ^ 64)
    (h : blindProofVerify Concrete.env cs' (π.map vS v1) pk.1 header ph L dmsgs dcmsgs di dci
      = .ok ())
    (h' : blindProofVerify Concrete.env cs' (π.map vS v1) pk'.1 header' ph' L' dmsgs' dcmsgs' di'
      dci' = .ok ()) :
    HashCollision Concrete.env cs' ∨
      ∃ M M' ms cms ms' cms' g bg g' bg',
        (sortDedup (di.getD [])).length + (sortDedup (dci.getD [])).length + π.mCap.length
          = L.getD 0 + 1 + M ∧
        (sortDedup (di'.getD [])).length + (sortDedup (dci'.getD [])).length + π.mCap.length
          = L'.getD 0 + 1 + M' ∧
        messagesToScalar Concrete.env cs' (dmsgs.getD []) cs'.apiIdBlind = .ok ms ∧
        messagesToScalar Concrete.env cs' (dcmsgs.getD []) cs'.apiIdBlind = .ok cms ∧
        messagesToScalar Concrete.env cs' (dmsgs'.getD []) cs'.apiIdBlind = .ok ms' ∧
        messagesToScalar Concrete.env cs' (dcmsgs'.getD []) cs'.apiIdBlind = .ok cms' ∧
        Generators.create Concrete.env cs' (L.getD 0 + 1) (some cs'.apiIdBlind) = .ok g ∧
        Generators.create Concrete.env cs' (M + 1)
          (some (Bytes.ofAscii "BLIND_" ++ cs'.apiIdBlind)) = .ok bg ∧
        Generators.create Concrete.env cs' (L'.getD 0 + 1) (some cs'.apiIdBlind) = .ok g' ∧
        Generators.create Concrete.env cs' (M' + 1)
          (some (Bytes.ofAscii "BLIND_" ++ cs'.apiIdBlind)) = .ok bg' ∧
        pk'.1 = pk.1 ∧ header'.getD [] = header.getD [] ∧ ph'.getD [] = ph.getD [] ∧
        g'.values ++ bg'.values = g.values ++ bg.values ∧
        ms' ++ cms' = ms ++ cms ∧
        sortDedup (di'.getD []) ++ (sortDedup (dci'.getD [])).map (fun j => j + L'.getD 0 + 1)
          = sortDedup (di.getD []) ++ (sortDedup (dci.getD [])).map (fun j => j + L.getD 0 + 1) := by
  obtain ⟨cs, rfl⟩ := suite_of_ok hcs
  have H := hom hH
  rw [blindProofVerify_transfer H] at h h'
  rcases C06Bytes.blind_proof_stmt_binding (lawful hP) cs π pk pk' header header' ph ph' L L'
    dmsgs dmsgs' dcmsgs dcmsgs' di di' dci dci' hsz hsz' h h' with hcol |
    ⟨M, M', ms, cms, ms', cms', g, bg, g', bg', hM, hM', e1, e2, e1', e2', e3, e4, e3', e4', hpk,
      hh, hph, hg, hdm, hdi⟩
  · exact Or.inl (hashCollision_transfer hH cs hcol)
  · refine Or.inr ⟨M, M', ms.map vS, cms.map vS, ms'.map vS, cms'.map vS, g.map v1, bg.map v1,
      g'.map v1, bg'.map v1, hM, hM',
      ok_of_map (messagesToScalar_transfer H cs _ _) e1,
      ok_of_map (messagesToScalar_transfer H cs _ _) e2,
      ok_of_map (messagesToScalar_transfer H cs _ _) e1',
      ok_of_map (messagesToScalar_transfer H cs _ _) e2',
      ok_of_map (Generators.create_transfer H cs _ _) e3,
      ok_of_map (Generators.create_transfer H cs _ _) e4,
      ok_of_map (Generators.create_transfer H cs _ _) e3',
      ok_of_map (Generators.create_transfer H cs _ _) e4',
      congrArg Subtype.val hpk, hh, hph, ?_, ?_, hdi⟩
    · simp only [Generators.map_values, ← List.map_append, hg]
    · simp only [← List.map_append, hdm]

/-! ### C08: no panic on ARBITRARY inputs, executable instance

The C08 theorems are stated for every instance of the core classes (no law), so they apply to
`Concrete.env` and arbitrary raw records directly; `NoHashPanic` is PROVED for `Concrete.env`
(`ConcreteFacts.noHashPanic_concrete`: the expander answers every 48-octet request). The public entry
points are already in `ZkProofs/Props/Concrete.lean` (`ConcreteFacts.verify_total_concrete`,
`proofVerify_total_concrete`, `blindProofVerify_total_concrete`, `verifyBlindSign_total_concrete`,
`blindSign_total_concrete`, `updateSignature_total_concrete`, `proofGen_total_concrete`,
`blindProofGen_total_concrete`, `commit_total_concrete`, `decode_total_concrete`,
`keyGen_total_concrete`, `sign_panic_concrete`). Below: the remaining ones, and one summary for the
two generated suites with NO hypothesis left. -/

/-- `core_proof_verify` never panics: arbitrary raw proof, generators (any number), scalars,
indexes (`C08.coreProofVerify_total`). -/
theorem concrete_coreProofVerify_total (cs' : Suite G1Pt) (pk' : G2Pt) (π' : PoKSignature Fr G1Pt)
    (gens' : Generators G1Pt) (header ph : Option Bytes) (dm' : List Fr) (di : List Nat)
    (apiId : Option Bytes) :
    coreProofVerify Concrete.env cs' pk' π' gens' header ph dm' di apiId ≠ .panic :=
  C08.coreProofVerify_total Concrete.env cs' pk' π' gens' header ph dm' di apiId

/-- `core_commit_verify` never panics (`C08.coreCommitVerify_total`). -/
theorem concrete_coreCommitVerify_total (cs' : Suite G1Pt) (C' : G1Pt) (z' : ZKPoK Fr)
    (bg' : List G1Pt) (apiId : Option Bytes) :
    coreCommitVerify Concrete.env cs' C' z' bg' apiId ≠ .panic :=
  C08.coreCommitVerify_total Concrete.env cs' C' z' bg' apiId

/-- `deserialize_and_validate_commit` never panics: arbitrary octets, arbitrary generators
(`C08.deserializeAndValidateCommit_total`). -/
theorem concrete_deserializeAndValidateCommit_total (cs' : Suite G1Pt) (cwp : Option Bytes)
    (bg' : Generators G1Pt) (apiId : Option Bytes) :
    deserializeAndValidateCommit Concrete.env cs' cwp bg' apiId ≠ .panic :=
  C08.deserializeAndValidateCommit_total Concrete.env cs' cwp bg' apiId

/-- `BBSplusPublicKey::from_coordinates` never panics (`C08.pkFromCoordinates_total`). -/
theorem concrete_pkFromCoordinates_total (x y : Bytes) :
    pkFromCoordinates Concrete.env x y ≠ .panic := C08.pkFromCoordinates_total Concrete.env x y

/-- **Work bound for the executable `blind_proof_verify`** (`C08.blindProofVerify_work_bound`): the
caller-supplied `L` cannot make the verifier create more generators than the size of the proof and
index lists it was handed. Arbitrary raw records. -/
theorem concrete_blindProofVerify_work_bound (cs' : Suite G1Pt) (π' : PoKSignature Fr G1Pt)
    (pk' : G2Pt) (header ph : Option Bytes) (L : Option Nat)
    (dmsgs dcmsgs : Option (List Bytes)) (di dci : Option (List Nat)) :
    blindProofVerify Concrete.env cs' π' pk' header ph L dmsgs dcmsgs di dci = .err ∨
    ∃ M, L.getD 0 + 1 + M = (sortDedup (di.getD [])).length
          + (sortDedup (dci.getD [])).length + π'.mCap.length ∧
      L.getD 0 + 1 + M ≤ (di.getD []).length + (dci.getD []).length + π'.mCap.length ∧
      blindProofVerify Concrete.env cs' π' pk' header ph L dmsgs dcmsgs di dci =
      match prepareParameters Concrete.env cs' (some (dmsgs.getD [])) (some (dcmsgs.getD []))
          (L.getD 0 + 1) (M + 1) none (some cs'.apiIdBlind) with
      | .err => .err
      | .panic => .panic
      | .ok (ms, gens) =>
        coreProofVerify Concrete.env cs' pk' π' gens header ph ms
          (sortDedup (di.getD []) ++ (sortDedup (dci.getD [])).map (fun j => j + L.getD 0 + 1))
          (some cs'.apiIdBlind) := by
  rcases C08.blindProofVerify_work_bound (env := Concrete.env) (cs := cs') π' pk' header ph L dmsgs
    dcmsgs di dci with h | ⟨M, h1, h2, h3⟩
  · exact Or.inl h
  · refine Or.inr ⟨M, h1, h2, ?_⟩
    rw [h3]
    cases prepareParameters Concrete.env cs' (some (dmsgs.getD [])) (some (dcmsgs.getD []))
        (L.getD 0 + 1) (M + 1) none (some cs'.apiIdBlind) with
    | err => rfl
    | panic => rfl
    | ok r => obtain ⟨ms, gens⟩ := r; rfl

/-- **The executable `sign` panics only when `sk + e = 0`** in the executable arithmetic
(`C08.sign_panic_lawful`), for an ARBITRARY raw secret key. -/
theorem concrete_sign_panic (cs' : Suite G1Pt) (hlen : cs'.expandLen = 48)
    (messages : Option (List Bytes)) (sk' : Fr) (pk' : G2Pt) (header : Option Bytes)
    (h : sign Concrete.env cs' messages sk' pk' header = .panic) :
    ∃ ms Q1 Hs domain e,
      messagesToScalar Concrete.env cs' (messages.getD []) cs'.apiId = .ok ms ∧
      Generators.create Concrete.env cs' ((messages.getD []).length + 1) (some cs'.apiId)
        = .ok ⟨cs'.p1, Q1 :: Hs⟩ ∧
      calculateDomain Concrete.env cs' pk' Q1 Hs header (some cs'.apiId) = .ok domain ∧
      hashToScalar Concrete.env cs' (serializeScalars Concrete.env (sk' :: ms ++ [domain]))
        (cs'.apiId ++ cs'.h2s) = .ok e ∧
      sk' + e = 0 := by
  obtain ⟨ms, Q1, Hs, d, e, h1, h2, h3, h4, h5⟩ :=
    ConcreteFacts.sign_panic_concrete cs' hlen messages sk' pk' header h
  refine ⟨ms, Q1, Hs, d, e, h1, h2, h3, h4, ?_⟩
  cases hs : sk' + e with
  | mk v =>
    rw [hs] at h5
    simp only at h5
    subst h5
    rfl

/-- `expand_len = 48` for both generated suites. -/
theorem generated_expandLen (cs' : Suite G1Pt)
    (h : Concrete.shaSuite? = some cs' ∨ Concrete.shakeSuite? = some cs') :
    cs'.expandLen = 48 := by
  rcases h with h | h
  · exact (shaSuite_consts cs' h).2.1
  · exact (shakeSuite_consts cs' h).2.1

/-- **No verifier, signer or holder entry point of the executable model panics, for the two
generated suites and EVERY input** — raw octets for every encoded object (`decoder ∘ operation`), any
index lists, any counts, any tape. No hypothesis. (`sign` is excluded: `concrete_sign_panic`.) -/
theorem concrete_no_panic_generated (cs' : Suite G1Pt)
    (hs : Concrete.shaSuite? = some cs' ∨ Concrete.shakeSuite? = some cs')
    (pkb sigb prfb : Bytes) (cwp header ph : Option Bytes) (msgs cmsgs : Option (List Bytes))
    (di dci : Option (List Nat)) (L : Option Nat) (sk' blind' : Fr) (tape : List Fr)
    (old new : Bytes) (i n : Nat) :
    pkFromBytes Concrete.env pkb ≠ .panic ∧ Signature.fromBytes Concrete.env sigb ≠ .panic ∧
    PoKSignature.fromBytes Concrete.env prfb ≠ .panic ∧
    (∀ pk', pkFromBytes Concrete.env pkb = .ok pk' →
      (∀ σ', Signature.fromBytes Concrete.env sigb = .ok σ' →
        verify Concrete.env cs' σ' pk' msgs header ≠ .panic ∧
        verifyBlindSign Concrete.env cs' σ' pk' header msgs cmsgs (some blind') ≠ .panic ∧
        verifyBlindSign Concrete.env cs' σ' pk' header msgs cmsgs none ≠ .panic ∧
        updateSignature Concrete.env cs' σ' sk' old new i n ≠ .panic) ∧
      (∀ π', PoKSignature.fromBytes Concrete.env prfb = .ok π' →
        proofVerify Concrete.env cs' π' pk' msgs di header ph ≠ .panic ∧
        blindProofVerify Concrete.env cs' π' pk' header ph L msgs cmsgs di dci ≠ .panic) ∧
      proofGen Concrete.env cs' pk' sigb header ph msgs di tape ≠ .panic ∧
      blindProofGen Concrete.env cs' pk' sigb header ph msgs cmsgs di dci (some blind') tape
        ≠ .panic ∧
      blindSign Concrete.env cs' sk' pk' cwp header msgs ≠ .panic) := by
  have hlen := generated_expandLen cs' hs
  refine ⟨(ConcreteFacts.decode_total_concrete pkb).1, (ConcreteFacts.decode_total_concrete sigb).2.2.1,
    (ConcreteFacts.decode_total_concrete prfb).2.2.2.1, fun pk' _ => ⟨fun σ' _ => ⟨?_, ?_, ?_, ?_⟩,
      fun π' _ => ⟨?_, ?_⟩, ?_, ?_, ?_⟩⟩
  · exact ConcreteFacts.verify_total_concrete cs' hlen σ' pk' msgs header
  · exact ConcreteFacts.verifyBlindSign_total_concrete cs' hlen σ' pk' header msgs cmsgs _
  · exact ConcreteFacts.verifyBlindSign_total_concrete cs' hlen σ' pk' header msgs cmsgs _
  · exact ConcreteFacts.updateSignature_total_concrete cs' hlen σ' sk' old new i n
  · exact ConcreteFacts.proofVerify_total_concrete cs' hlen π' pk' msgs di header ph
  · exact ConcreteFacts.blindProofVerify_total_concrete cs' hlen π' pk' header ph L msgs cmsgs di dci
  · exact ConcreteFacts.proofGen_total_concrete cs' hlen pk' sigb header ph msgs di tape
  · exact ConcreteFacts.blindProofGen_total_concrete cs' hlen pk' sigb header ph msgs cmsgs di dci _
      tape
  · exact ConcreteFacts.blindSign_total_concrete cs' hlen sk' pk' cwp header msgs

/-! ### C07: fresh blinding — transcripts, tapes, witness indistinguishability

The prover's tape entries are reduced scalars `List FrR` (what `calculate_random_scalars` returns);
the executable functions run on `tape.map vS`. Tape transformations (`C07WI.retape`, `C07.reblind`) are
computed in the field `FrR`, whose operations are the executable ones. -/

/-- **Proof transcript ⇒ blindings** (`C07.blindings_recoverable`) for the executable
`proof_finalize`: with the witness, every blinding is recomputed from the responses and the
challenge, in the executable arithmetic. -/
theorem concrete_blindings_recoverable (hH : HashInSub) (hP : PairingHyp)
    (init : ProofInitResult FrR G1Sub) (c e r1 r2 eT r1T r3T : FrR) (mT ums : List FrR)
    (π' : PoKSignature Fr G1Pt)
    (h : proofFinalize Concrete.env (init.map vS v1) c.1 e.1
      ((r1 :: r2 :: eT :: r1T :: r3T :: mT).map vS) (ums.map vS) = .ok π') :
    π'.challenge = c.1 ∧ r2.1 ≠ 0 ∧
    eT.1 = π'.eCap - e.1 * c.1 ∧ r1T.1 = π'.r1Cap + r1.1 * c.1 ∧
    (∃ r2i, Concrete.env.sInv r2.1 = some r2i ∧ r3T.1 = π'.r3Cap + r2i * c.1) ∧
    π'.mCap.length = ums.length ∧
    ∀ j (h1 : j < mT.length) (h2 : j < ums.length) (h3 : j < π'.mCap.length),
      (mT[j]).1 = π'.mCap[j] - (ums[j]).1 * c.1 := by
  have H := hom hH
  obtain ⟨π, hπ, e0⟩ := exists_of_map_ok (proofFinalize_nat H init c e _ ums) h
  have e1 : π.map vS v1 = π' := e0
  subst e1
  obtain ⟨a1, a2, a3, a4, a5, a6, a7⟩ :=
    C07.blindings_recoverable (lawful hP) init c e r1 r2 eT r1T r3T mT ums π hπ
  refine ⟨congrArg Subtype.val a1, fun h0 => a2 ((vS_eq_zero_iff _).mp h0), ?_, ?_, ?_, ?_, ?_⟩
  · rw [a3, coe_sub, coe_mul]; rfl
  · rw [a4, coe_add, coe_mul]; rfl
  · refine ⟨(r2⁻¹).1, ?_, ?_⟩
    · rw [← subEnv_sInv, Bridge.sInv_ne r2 a2]; rfl
    · rw [a5, coe_add, coe_mul]; rfl
  · rw [PoKSignature.map_mCap, List.length_map]; exact a6
  · intro j h1 h2 h3
    have h3' : j < π.mCap.length := by
      rw [PoKSignature.map_mCap, List.length_map] at h3; exact h3
    rw [a7 j h1 h2 h3', coe_sub, coe_mul]
    simp only [PoKSignature.map_mCap, List.getElem_map]

/-- **Commitment transcript ⇒ blindings** (`C07.blindings_recoverable_commit`) for the executable
`core_commit`. -/
theorem concrete_blindings_recoverable_commit (hH : HashInSub) (cs' : Suite G1Pt)
    (hcs : SuiteOK cs') (bg : List G1Sub) (cms : List FrR) (apiId : Option Bytes)
    (tape : List FrR) (com' : Commitment Fr G1Pt) (blind' : Fr)
    (h : coreCommit Concrete.env cs' (bg.map v1) (some (cms.map vS)) apiId (tape.map vS)
      = .ok (com', blind')) :
    ∃ (blind sT : FrR) (mT : List FrR), blind' = blind.1 ∧
      tape.take (cms.length + 2) = blind :: sT :: mT ∧ mT.length = cms.length ∧
      sT.1 = com'.proof.sCap - blind.1 * com'.proof.challenge ∧
      com'.proof.mCap.length = cms.length ∧
      ∀ i (h1 : i < mT.length) (h2 : i < cms.length) (h3 : i < com'.proof.mCap.length),
        (mT[i]).1 = com'.proof.mCap[i] - (cms[i]).1 * com'.proof.challenge := by
  obtain ⟨cs, rfl⟩ := suite_of_ok hcs
  have H := hom hH
  obtain ⟨⟨com, blind⟩, hc, hcb⟩ :=
    exists_of_map_ok (coreCommit_nat H cs bg (some cms) apiId tape) h
  obtain ⟨e1, e2⟩ := Prod.mk.inj hcb
  have e1' : com.map vS v1 = com' := e1
  have e2' : blind.1 = blind' := e2
  subst e1' e2'
  obtain ⟨sT, mT, ht, hm, a3, a4, a5⟩ :=
    C07.blindings_recoverable_commit (env := subEnv) cs bg cms apiId tape com blind hc
  refine ⟨blind, sT, mT, rfl, ht, hm, ?_, ?_, ?_⟩
  · rw [a3, coe_sub, coe_mul]; rfl
  · simp only [Commitment.map_proof, ZKPoK.map_mCap, List.length_map]; exact a4
  · intro i h1 h2 h3
    have h3' : i < com.proof.mCap.length := by
      simp only [Commitment.map_proof, ZKPoK.map_mCap, List.length_map] at h3; exact h3
    rw [a5 i h1 h2 h3', coe_sub, coe_mul]
    simp only [Commitment.map_proof, ZKPoK.map_mCap, ZKPoK.map_challenge, List.getElem_map]

/-- **Equal proofs ⇒ equal tapes** (`C07.proof_injective_in_tape`) for the executable
`proof_init` / `proof_finalize`: a repeated proof means repeated randomness. -/
theorem concrete_proof_injective_in_tape (hH : HashInSub) (hP : PairingHyp) (cs' : Suite G1Pt)
    (hcs : SuiteOK cs') (pk : G2Sub) (σ : Signature FrR G1Sub) (gens : Generators G1Sub)
    (header : Option Bytes) (msgs : List FrR) (und : List Nat) (apiId : Option Bytes)
    (ums rs rs' : List FrR) (init' init'' : ProofInitResult Fr G1Pt) (c c' : FrR)
    (π' : PoKSignature Fr G1Pt) (hA : σ.A.1 ≠ 0)
    (hB : ∀ Q1 Hs d, (gens.map v1).values = Q1 :: Hs →
      calculateDomain Concrete.env cs' pk.1 Q1 Hs header apiId = .ok d →
      calcB (gens.map v1).base Q1 d Hs (msgs.map vS) ≠ 0)
    (hums : ums.length = und.length)
    (hi : proofInit Concrete.env cs' pk.1 (σ.map vS v1) (gens.map v1) (rs.map vS) header
      (msgs.map vS) und apiId = .ok init')
    (hi' : proofInit Concrete.env cs' pk.1 (σ.map vS v1) (gens.map v1) (rs'.map vS) header
      (msgs.map vS) und apiId = .ok init'')
    (hf : proofFinalize Concrete.env init' c.1 σ.e.1 (rs.map vS) (ums.map vS) = .ok π')
    (hf' : proofFinalize Concrete.env init'' c'.1 σ.e.1 (rs'.map vS) (ums.map vS) = .ok π') :
    rs = rs' := by
  obtain ⟨cs, rfl⟩ := suite_of_ok hcs
  have H := hom hH
  obtain ⟨init, k1, rfl⟩ := exists_of_map_ok (proofInit_nat H cs pk σ gens rs header msgs und apiId) hi
  obtain ⟨init2, k2, rfl⟩ :=
    exists_of_map_ok (proofInit_nat H cs pk σ gens rs' header msgs und apiId) hi'
  obtain ⟨π, k3, e3⟩ := exists_of_map_ok (proofFinalize_nat H init c σ.e rs ums) hf
  obtain ⟨π2, k4, e4⟩ := exists_of_map_ok (proofFinalize_nat H init2 c' σ.e rs' ums) hf'
  have : π2 = π := PoKSignature.map_injective vS v1 H.fS_inj H.f1_inj (e4.trans e3.symm)
  subst this
  refine C07.proof_injective_in_tape (lawful hP) cs pk σ gens header msgs und apiId ums rs rs' init
    init2 c c' π2 (fun h0 => hA ((v1_eq_zero_iff _).mpr h0)) ?_ hums k1 k2 k3 k4
  intro Q1 Hs d hv hd h0
  refine hB Q1.1 (Hs.map v1) d.1 (by rw [Generators.map_values, hv]; rfl)
    (ok_of_map (calculateDomain_nat H cs pk Q1 Hs header apiId) hd) ?_
  rw [Generators.map_base, calcB_nat H, h0]
  exact H.G1_zero

/-- **Equal commitments ⇒ equal tapes** on the `M + 2` entries read
(`C07.commit_injective_in_tape`), executable `core_commit`. -/
theorem concrete_commit_injective_in_tape (hH : HashInSub) (cs' : Suite G1Pt) (hcs : SuiteOK cs')
    (bg : List G1Sub) (cms : List FrR) (apiId : Option Bytes) (tape tape' : List FrR)
    (com' : Commitment Fr G1Pt) (blind' blind'' : Fr)
    (hQ : ∀ Q2 Js, bg.map v1 = Q2 :: Js → Q2 ≠ 0)
    (h : coreCommit Concrete.env cs' (bg.map v1) (some (cms.map vS)) apiId (tape.map vS)
      = .ok (com', blind'))
    (h' : coreCommit Concrete.env cs' (bg.map v1) (some (cms.map vS)) apiId (tape'.map vS)
      = .ok (com', blind'')) :
    tape.take (cms.length + 2) = tape'.take (cms.length + 2) := by
  obtain ⟨cs, rfl⟩ := suite_of_ok hcs
  have H := hom hH
  obtain ⟨⟨com, blind⟩, hc, hcb⟩ :=
    exists_of_map_ok (coreCommit_nat H cs bg (some cms) apiId tape) h
  obtain ⟨⟨com2, blind2⟩, hc2, hcb2⟩ :=
    exists_of_map_ok (coreCommit_nat H cs bg (some cms) apiId tape') h'
  obtain ⟨e1, rfl⟩ := Prod.mk.inj hcb
  obtain ⟨e2, rfl⟩ := Prod.mk.inj hcb2
  have : com2 = com := Commitment.map_injective vS v1 H.fS_inj H.f1_inj (e2.trans e1.symm)
  subst this
  refine C07.commit_injective_in_tape (env := subEnv) cs bg cms apiId tape tape' com2 blind blind2
    ?_ hc hc2
  intro Q2 Js hb h0
  exact hQ Q2.1 (Js.map v1) (by rw [hb]; rfl) (by rw [h0]; exact H.G1_zero)

/-- **Witness indistinguishability of the executable `core_proof_gen`**
(`C07WI.proof_witness_indistinguishable_of_verify`). Two witnesses `(σ, msgs)`, `(σ', msgs')` that the
executable `core_verify` accepts under `pk = sk • G2.gen`, agreeing on the disclosed positions, with
`A' = u • A`, `u ≠ 0`. If the first witness on `tape` yields the proof `π'`, then the second witness on
the transformed tape yields THE SAME proof. -/
theorem concrete_proof_witness_indistinguishable (hH : HashInSub) (hP : PairingHyp)
    (cs' : Suite G1Pt) (hcs : SuiteOK cs') (sk u : FrR) (σ σ' : Signature FrR G1Sub)
    (gens : Generators G1Sub) (msgs msgs' : List FrR) (D : List Nat)
    (header ph apiId : Option Bytes)
    (hver : coreVerify Concrete.env cs' (skToPk Concrete.env sk.1) (σ.map vS v1) (msgs.map vS)
      (gens.map v1) header apiId = .ok ())
    (hver' : coreVerify Concrete.env cs' (skToPk Concrete.env sk.1) (σ'.map vS v1) (msgs'.map vS)
      (gens.map v1) header apiId = .ok ())
    (hD : ∀ i ∈ D, i < msgs.length)
    (hagree : ∀ i ∈ D, msgs'.getD i 0 = msgs.getD i 0)
    (hu : σ'.A.1 = u.1 • σ.A.1) (hu0 : u.1 ≠ 0) (hske : sk.1 + σ.e.1 ≠ 0)
    (hske' : sk.1 + σ'.e.1 ≠ 0) (tape : List FrR) (π' : PoKSignature Fr G1Pt)
    (h : coreProofGen Concrete.env cs' (skToPk Concrete.env sk.1) (σ.map vS v1) (gens.map v1)
      (msgs.map vS) D header ph apiId (tape.map vS) = .ok π') :
    ∃ π : PoKSignature FrR G1Sub, π.map vS v1 = π' ∧ msgs'.length = msgs.length ∧
      coreProofGen Concrete.env cs' (skToPk Concrete.env sk.1) (σ'.map vS v1) (gens.map v1)
        (msgs'.map vS) D header ph apiId
        ((C07WI.retape (C07WI.tOf sk σ.e σ'.e u) u σ.e σ'.e π.challenge
          (getRemainingIndexes msgs.length (sortDedup D)) msgs msgs'
          (tape.take (5 + (msgs.length - (sortDedup D).length)))).map vS) = .ok π' := by
  obtain ⟨cs, rfl⟩ := suite_of_ok hcs
  have H := hom hH
  rw [skToPk_transfer H, show skToPk subEnv sk = sk • subEnv.bp2 from rfl] at hver hver' h ⊢
  rw [coreVerify_nat H] at hver hver'
  obtain ⟨π, hπ, rfl⟩ := exists_of_map_ok (coreProofGen_nat H cs _ σ gens msgs D header ph apiId tape) h
  obtain ⟨hl', hg⟩ := C07WI.proof_witness_indistinguishable_of_verify (lawful hP) cs sk u σ σ' gens
    msgs msgs' D header ph apiId hver hver' hD hagree
    (Subtype.ext (by rw [hu, ← H.G1_smul])) (fun h0 => hu0 ((vS_eq_zero_iff _).mpr h0))
    (vS_add_ne_zero hske) (vS_add_ne_zero hske') tape π hπ
  exact ⟨π, rfl, hl', ok_of_map (coreProofGen_nat H cs _ σ' gens msgs' D header ph apiId _) hg⟩

/-- **Perfect witness indistinguishability, bijection form**
(`C07WI.proof_witness_indistinguishable_bijection`): for every proof `π`, `F = retape …` maps the tapes
(of `5 + U` reduced scalars) on which the executable `core_proof_gen` yields `π` from witness 1 into
those on which it yields `π` from witness 2, `G` maps back, `G ∘ F = id`, `F ∘ G = id`. -/
theorem concrete_proof_wi_bijection (hH : HashInSub) (hP : PairingHyp)
    (cs' : Suite G1Pt) (hcs : SuiteOK cs') (sk u : FrR) (σ σ' : Signature FrR G1Sub)
    (gens : Generators G1Sub) (msgs msgs' : List FrR) (D : List Nat)
    (header ph apiId : Option Bytes)
    (hver : coreVerify Concrete.env cs' (skToPk Concrete.env sk.1) (σ.map vS v1) (msgs.map vS)
      (gens.map v1) header apiId = .ok ())
    (hver' : coreVerify Concrete.env cs' (skToPk Concrete.env sk.1) (σ'.map vS v1) (msgs'.map vS)
      (gens.map v1) header apiId = .ok ())
    (hD : ∀ i ∈ D, i < msgs.length)
    (hagree : ∀ i ∈ D, msgs'.getD i 0 = msgs.getD i 0)
    (hu : σ'.A.1 = u.1 • σ.A.1) (hu0 : u.1 ≠ 0) (hske : sk.1 + σ.e.1 ≠ 0)
    (hske' : sk.1 + σ'.e.1 ≠ 0) (π : PoKSignature FrR G1Sub) :
    let pk' := skToPk Concrete.env sk.1
    let U := msgs.length - (sortDedup D).length
    let und := getRemainingIndexes msgs.length (sortDedup D)
    let F := C07WI.retape (C07WI.tOf sk σ.e σ'.e u) u σ.e σ'.e π.challenge und msgs msgs'
    let G := C07WI.retape (C07WI.tOf sk σ'.e σ.e u⁻¹) u⁻¹ σ'.e σ.e π.challenge und msgs' msgs
    (∀ tape : List FrR, tape.length = 5 + U →
        coreProofGen Concrete.env cs' pk' (σ.map vS v1) (gens.map v1) (msgs.map vS) D header ph
          apiId (tape.map vS) = .ok (π.map vS v1) →
        (F tape).length = 5 + U ∧
        coreProofGen Concrete.env cs' pk' (σ'.map vS v1) (gens.map v1) (msgs'.map vS) D header ph
          apiId ((F tape).map vS) = .ok (π.map vS v1) ∧
        G (F tape) = tape) ∧
    (∀ tape' : List FrR, tape'.length = 5 + U →
        coreProofGen Concrete.env cs' pk' (σ'.map vS v1) (gens.map v1) (msgs'.map vS) D header ph
          apiId (tape'.map vS) = .ok (π.map vS v1) →
        (G tape').length = 5 + U ∧
        coreProofGen Concrete.env cs' pk' (σ.map vS v1) (gens.map v1) (msgs.map vS) D header ph
          apiId ((G tape').map vS) = .ok (π.map vS v1) ∧
        F (G tape') = tape') := by
  obtain ⟨cs, rfl⟩ := suite_of_ok hcs
  have H := hom hH
  intro pk' U und F G
  have hpk : pk' = v2 (sk • subEnv.bp2) := skToPk_transfer H sk
  rw [skToPk_transfer H, show skToPk subEnv sk = sk • subEnv.bp2 from rfl, coreVerify_nat H]
    at hver hver'
  obtain ⟨Q1, Hs, d, hv, hlen, hd, hsig⟩ :=
    (coreVerify_ok_iff (lawful hP) cs sk σ msgs gens header apiId).mp hver
  obtain ⟨Q1', Hs', d', hv', hlen2, hd', hsig'⟩ :=
    (coreVerify_ok_iff (lawful hP) cs sk σ' msgs' gens header apiId).mp hver'
  rw [hv] at hv'
  obtain ⟨rfl, rfl⟩ := List.cons.inj hv'
  rw [hd] at hd'; cases hd'
  have hlen' : msgs'.length = msgs.length := by omega
  have key := C07WI.proof_witness_indistinguishable_bijection (lawful hP) cs (sk • subEnv.bp2) sk u
    σ σ' gens Q1 Hs d msgs msgs' D header ph apiId hv hlen hlen' hD hd hagree hsig hsig'
    (Subtype.ext (by rw [hu, ← H.G1_smul])) (fun h0 => hu0 ((vS_eq_zero_iff _).mpr h0))
    (vS_add_ne_zero hske) (vS_add_ne_zero hske') π
  dsimp only at key
  have inj := PoKSignature.map_injective vS v1 H.fS_inj H.f1_inj
  constructor
  · intro tape htl hg
    rw [hpk] at hg ⊢
    have hg' := (ok_iff_of_map inj (coreProofGen_nat H cs _ σ gens msgs D header ph apiId tape)
      π).mp hg
    obtain ⟨a, b, c⟩ := key.1 tape htl hg'
    exact ⟨a, ok_of_map (coreProofGen_nat H cs _ σ' gens msgs' D header ph apiId _) b, c⟩
  · intro tape' htl hg
    rw [hpk] at hg ⊢
    have hg' := (ok_iff_of_map inj (coreProofGen_nat H cs _ σ' gens msgs' D header ph apiId tape')
      π).mp hg
    obtain ⟨a, b, c⟩ := key.2 tape' htl hg'
    exact ⟨a, ok_of_map (coreProofGen_nat H cs _ σ gens msgs D header ph apiId _) b, c⟩

/-- **Perfect hiding of the commitment point** (`C07.commit_hiding`) in the executable arithmetic:
with `J_i = a_i • Q2`, the commitment to `ms` with blind `b` equals the commitment to `ms'` with blind
`f b`, `f` a bijection of the reduced scalars. -/
theorem concrete_commit_hiding (hH : HashInSub) (Q2 : G1Sub) (as ms ms' : List FrR) :
    ∃ f : FrR → FrR, Function.Bijective f ∧ (∀ b, f b = b + (C07.dot as ms - C07.dot as ms')) ∧
      ∀ b : FrR, sumZip (b.1 • Q2.1) ((as.map (· • Q2)).map v1) (ms.map vS)
        = sumZip ((f b).1 • Q2.1) ((as.map (· • Q2)).map v1) (ms'.map vS) := by
  have H := hom hH
  obtain ⟨f, hf, hfb, hall⟩ := C07.commit_hiding Q2 as ms ms'
  refine ⟨f, hf, hfb, fun b => ?_⟩
  rw [← H.G1_smul, ← H.G1_smul, sumZip_nat H, sumZip_nat H, hall b]

/-- **Perfect hiding of the whole commitment-with-proof** (`C07.commit_witness_indistinguishable`),
executable `core_commit`: over generators `Q2, a_1•Q2, …`, if the commitment to `cms` on `tape` is
`com'`, the commitment to ANY other vector `cms'` of the same length on the tape `reblind …` is the
SAME `com'`, with secret blind `blind + δ`. -/
theorem concrete_commit_witness_indistinguishable (hH : HashInSub) (cs' : Suite G1Pt)
    (hcs : SuiteOK cs') (Q2 : G1Sub) (as cms cms' : List FrR) (apiId : Option Bytes)
    (tape : List FrR) (com' : Commitment Fr G1Pt) (blind' : Fr)
    (hlen : cms.length = cms'.length)
    (h : coreCommit Concrete.env cs' ((Q2 :: as.map (· • Q2)).map v1) (some (cms.map vS)) apiId
      (tape.map vS) = .ok (com', blind')) :
    ∃ (com : Commitment FrR G1Sub) (blind : FrR), com.map vS v1 = com' ∧ blind.1 = blind' ∧
      coreCommit Concrete.env cs' ((Q2 :: as.map (· • Q2)).map v1) (some (cms'.map vS)) apiId
        ((C07.reblind as cms cms' com.proof.challenge (tape.take (cms.length + 2))).map vS)
        = .ok (com', (blind + (C07.dot as cms - C07.dot as cms')).1) := by
  obtain ⟨cs, rfl⟩ := suite_of_ok hcs
  have H := hom hH
  obtain ⟨⟨com, blind⟩, hc, hcb⟩ :=
    exists_of_map_ok (coreCommit_nat H cs _ (some cms) apiId tape) h
  obtain ⟨rfl, rfl⟩ := Prod.mk.inj hcb
  have := C07.commit_witness_indistinguishable (env := subEnv) cs Q2 as cms cms' apiId tape com
    blind hlen hc
  exact ⟨com, blind, rfl, rfl, ok_of_map (coreCommit_nat H cs _ (some cms') apiId _) this⟩

/-! ### C10 / C11: generators, key generation, length prefixes, domain separation — executable instance

`C10`, `C11` are stated for every instance of the core classes, so they hold for `Concrete.env` and
ARBITRARY suites / raw records directly; below they are instantiated, and restated with the constants
of the two generated suites (`Concrete.shaSuite?`, `Concrete.shakeSuite?`). -/

/-- `create_generators(n, api_id)` returns exactly `n` points (`C11.generators_length`). -/
theorem concrete_generators_length (cs' : Suite G1Pt) (n : Nat) (apiId : Option Bytes)
    (gs : List G1Pt) (h : createGenerators Concrete.env cs' n apiId = .ok gs) : gs.length = n :=
  C11.generators_length Concrete.env cs' n apiId gs h

/-- **Generator prefix** (`C10.generators_prefix` / `C11.generators_prefix`): for `k ≤ n` the first `k`
of the `n` executable generators are exactly the `k` generators. -/
theorem concrete_generators_prefix (cs' : Suite G1Pt) (n k : Nat) (hk : k ≤ n)
    (apiId : Option Bytes) (gs : List G1Pt)
    (h : createGenerators Concrete.env cs' n apiId = .ok gs) :
    createGenerators Concrete.env cs' k apiId = .ok (gs.take k) :=
  C11.generators_prefix Concrete.env cs' n k hk apiId gs h

/-- The first `k` generators do not depend on the requested count
(`C11.generators_prefix_indep`). -/
theorem concrete_generators_prefix_indep (cs' : Suite G1Pt) (n n' k : Nat) (hk : k ≤ n)
    (hk' : k ≤ n') (apiId : Option Bytes) (gs gs' : List G1Pt)
    (h : createGenerators Concrete.env cs' n apiId = .ok gs)
    (h' : createGenerators Concrete.env cs' n' apiId = .ok gs') : gs.take k = gs'.take k :=
  C11.generators_prefix_indep Concrete.env cs' n n' k hk hk' apiId gs gs' h h'

/-- Generator number `j` is the same in every run that produces it
(`C11.generators_getElem_indep`). -/
theorem concrete_generators_getElem_indep (cs' : Suite G1Pt) (n n' j : Nat) (hj : j < n)
    (hj' : j < n') (apiId : Option Bytes) (gs gs' : List G1Pt)
    (h : createGenerators Concrete.env cs' n apiId = .ok gs)
    (h' : createGenerators Concrete.env cs' n' apiId = .ok gs') : gs[j]? = gs'[j]? :=
  C11.generators_getElem_indep Concrete.env cs' n n' j hj hj' apiId gs gs' h h'

/-- The `n` generators extend the `k` generators (`C11.generators_extend`). -/
theorem concrete_generators_extend (cs' : Suite G1Pt) (n k : Nat) (hk : k ≤ n)
    (apiId : Option Bytes) (gs gk : List G1Pt)
    (h : createGenerators Concrete.env cs' n apiId = .ok gs)
    (hk' : createGenerators Concrete.env cs' k apiId = .ok gk) :
    gk = gs.take k ∧ ∃ rest, gs = gk ++ rest ∧ rest.length = n - k :=
  C11.generators_extend Concrete.env cs' n k hk apiId gs gk h hk'

/-- `Generators::create`: `n` points and the base point `P1` of the suite (`C11.create_length`). -/
theorem concrete_create_length (cs' : Suite G1Pt) (n : Nat) (apiId : Option Bytes)
    (g : Generators G1Pt) (h : Generators.create Concrete.env cs' n apiId = .ok g) :
    g.values.length = n ∧ g.base = cs'.p1 := C11.create_length Concrete.env cs' n apiId g h

/-- **`createGenerators_prefix` for `Generators::create`** (`C11.create_prefix`,
`C05.generators_prefix`). -/
theorem concrete_create_prefix (cs' : Suite G1Pt) (n k : Nat) (hk : k ≤ n) (apiId : Option Bytes)
    (g : Generators G1Pt) (h : Generators.create Concrete.env cs' n apiId = .ok g) :
    Generators.create Concrete.env cs' k apiId = .ok ⟨g.base, g.values.take k⟩ :=
  C11.create_prefix Concrete.env cs' n k hk apiId g h

/-- Signatures over `k` and over `n ≥ k` messages share `Q_1` and their first `k` message
generators (`C11.create_prefix_Q1_Hs`). -/
theorem concrete_create_prefix_Q1_Hs (cs' : Suite G1Pt) (n k : Nat) (hk : k ≤ n)
    (apiId : Option Bytes) (base Q1 : G1Pt) (Hs : List G1Pt)
    (h : Generators.create Concrete.env cs' (n + 1) apiId = .ok ⟨base, Q1 :: Hs⟩) :
    Generators.create Concrete.env cs' (k + 1) apiId = .ok ⟨base, Q1 :: Hs.take k⟩ :=
  C11.create_prefix_Q1_Hs Concrete.env cs' n k hk apiId base Q1 Hs h

/-- **For the generated suites generator creation always SUCCEEDS** (it never returns `Err`,
`C11.generators_never_err`, and never panics, `ConcreteFacts.noHashPanic_concrete`), for every count
and every api id; all returned points are subgroup points (under `HashInSub`). -/
theorem concrete_create_ok_generated (hH : HashInSub) (cs' : Suite G1Pt)
    (hs : Concrete.shaSuite? = some cs' ∨ Concrete.shakeSuite? = some cs') (n : Nat)
    (apiId : Option Bytes) :
    ∃ g : Generators G1Sub, Generators.create Concrete.env cs' n apiId = .ok (g.map v1) ∧
      g.values.length = n ∧ g.base.1 = cs'.p1 := by
  have hcs : SuiteOK cs' := by
    rcases hs with h | h
    · exact (shaSuite_consts cs' h).1
    · exact (shakeSuite_consts cs' h).1
  cases hg : Generators.create Concrete.env cs' n apiId with
  | panic => exact absurd hg (ConcreteFacts.noHashPanic_concrete cs' (generated_expandLen cs' hs) n apiId)
  | err =>
    exfalso
    unfold Generators.create at hg
    cases hc : createGenerators Concrete.env cs' n apiId with
    | err => exact C11.generators_never_err Concrete.env cs' n apiId hc
    | panic => rw [hc] at hg; cases hg
    | ok gs => rw [hc] at hg; cases hg
  | ok g' =>
    obtain ⟨g, rfl⟩ := concrete_generators_image hH cs' hcs n apiId g' hg
    obtain ⟨h1, h2⟩ := C11.create_length Concrete.env cs' n apiId _ hg
    exact ⟨g, rfl, by rw [Generators.map_values, List.length_map] at h1; exact h1, h2⟩

/-- **Key-generation guards** (`C10.keygen_guards`), executable `key_gen`, arbitrary suite. -/
theorem concrete_keygen_guards (cs' : Suite G1Pt) (ikm : Bytes) (info dst : Option Bytes) :
    (ikm.length < cs'.ikmLen ∨ (info.getD []).length > 65535 ∨
        (dst.getD (cs'.apiId ++ cs'.keygenDst)).length > 255 →
      keyGen Concrete.env cs' ikm info dst = .err) ∧
    (¬(ikm.length < cs'.ikmLen ∨ (info.getD []).length > 65535 ∨
        (dst.getD (cs'.apiId ++ cs'.keygenDst)).length > 255) →
      keyGen Concrete.env cs' ikm info dst =
        hashToScalar Concrete.env cs' (ikm ++ i2osp 2 (info.getD []).length ++ info.getD [])
          (dst.getD (cs'.apiId ++ cs'.keygenDst))) :=
  C10.keygen_guards Concrete.env cs' ikm info dst

theorem generated_keygen_consts (cs' : Suite G1Pt)
    (hs : Concrete.shaSuite? = some cs' ∨ Concrete.shakeSuite? = some cs') :
    cs'.ikmLen = 32 ∧ (cs'.apiId ++ cs'.keygenDst).length ≤ 255 := by
  rcases hs with h | h
  · have hs := ConcreteFacts.isSha_of_shaSuite cs' h
    refine ⟨by rw [hs.ikmLen]; rfl, ?_⟩
    rw [hs.apiId, hs.keygenDst]; decide
  · have hs := ConcreteFacts.isShake_of_shakeSuite cs' h
    refine ⟨by rw [hs.ikmLen]; rfl, ?_⟩
    rw [hs.apiId, hs.keygenDst]; decide

/-- **The executable `key_gen` for the generated suites, decided completely**: it returns `Err` iff
the key material is shorter than 32 octets, the key info longer than 65535 octets or the DST longer
than 255 octets (default DST `api_id ‖ "KEYGEN_DST_"`, which is short enough); otherwise it returns a
REDUCED secret key, the `hash_to_scalar` of `key_material ‖ I2OSP(|key_info|, 2) ‖ key_info`. -/
theorem concrete_keygen_generated (hH : HashInSub) (cs' : Suite G1Pt)
    (hs : Concrete.shaSuite? = some cs' ∨ Concrete.shakeSuite? = some cs') (ikm : Bytes)
    (info dst : Option Bytes) :
    (ikm.length < 32 ∨ (info.getD []).length > 65535 ∨
        (dst.getD (cs'.apiId ++ cs'.keygenDst)).length > 255 →
      keyGen Concrete.env cs' ikm info dst = .err) ∧
    (¬(ikm.length < 32 ∨ (info.getD []).length > 65535 ∨
        (dst.getD (cs'.apiId ++ cs'.keygenDst)).length > 255) →
      ∃ sk : FrR, keyGen Concrete.env cs' ikm info dst = .ok sk.1 ∧
        hashToScalar Concrete.env cs' (ikm ++ i2osp 2 (info.getD []).length ++ info.getD [])
          (dst.getD (cs'.apiId ++ cs'.keygenDst)) = .ok sk.1) ∧
    (dst = none → (dst.getD (cs'.apiId ++ cs'.keygenDst)).length ≤ 255) := by
  obtain ⟨hikm, hd⟩ := generated_keygen_consts cs' hs
  have hcs : SuiteOK cs' := by
    rcases hs with h | h
    · exact (shaSuite_consts cs' h).1
    · exact (shakeSuite_consts cs' h).1
  obtain ⟨g1, g2⟩ := C10.keygen_guards Concrete.env cs' ikm info dst
  rw [hikm] at g1 g2
  refine ⟨g1, fun hn => ?_, fun h0 => by rw [h0]; exact hd⟩
  have hlen : (dst.getD (cs'.apiId ++ cs'.keygenDst)).length ≤ 255 := by
    by_contra hc; exact hn (Or.inr (Or.inr (by omega)))
  obtain ⟨s, hsx⟩ := ConcreteFacts.hashTotal_concrete cs' _ hlen (generated_expandLen cs' hs)
    (ikm ++ i2osp 2 (info.getD []).length ++ info.getD [])
  have hk := (g2 hn).trans hsx
  obtain ⟨sk, rfl⟩ := concrete_keyGen_image hH cs' hcs ikm info dst s hk
  exact ⟨sk, hk, hsx⟩

/-- Layout facts of the domain input for the executable encoders (`C10.domainInput_prefixes`): the
generator count sits in octets 96..104, the header length in the 8 octets before the header. -/
theorem concrete_domainInput_prefixes (hH : HashInSub) (pk : G2Sub) (Q1 : G1Sub) (Hs : List G1Sub)
    (header apiId : Bytes) :
    let x := domainInput Concrete.env pk.1 Q1.1 (Hs.map v1) header apiId
    (x.drop 96).take 8 = i2osp 8 Hs.length ∧
    (x.drop (96 + 8 + 48 + 48 * Hs.length + apiId.length)).take 8 = i2osp 8 header.length ∧
    x.drop (96 + 8 + 48 + 48 * Hs.length + apiId.length + 8) = header ∧
    x.length = 96 + 8 + 48 + 48 * Hs.length + apiId.length + 8 + header.length := by
  intro x
  have e : x = domainInput subEnv pk Q1 Hs header apiId := domainInput_nat (hom hH) pk Q1 Hs header apiId
  rw [e]
  exact C10.domainInput_prefixes subEnv Bridge.g1Codec Bridge.g2Codec pk Q1 Hs header apiId

/-- The challenge input starts with the 8-octet count of disclosed indexes; its length
(`C10.challengeInput_prefixes`). -/
theorem concrete_challengeInput_prefixes (hH : HashInSub) (init : ProofInitResult FrR G1Sub)
    (di : List Nat) (dm : List FrR) (ph : Bytes) :
    let x := challengeInput Concrete.env (init.map vS v1) di (dm.map vS) ph
    x.take 8 = i2osp 8 di.length ∧
    x.length = 8 + 40 * min di.length dm.length + 5 * 48 + 32 + 8 + ph.length := by
  intro x
  have e : x = challengeInput subEnv init di dm ph := challengeInput_nat (hom hH) init di dm ph
  rw [e]
  exact C10.challengeInput_prefixes subEnv Bridge.g1Codec Bridge.sCodec init di dm ph

/-- The blind challenge input starts with the 8-octet value `M = |generators| − 1`
(`C10.blindChallengeInput_prefixes`). -/
theorem concrete_blindChallengeInput_prefixes (hH : HashInSub) (C Cbar : G1Sub)
    (gens : List G1Sub) :
    let x := blindChallengeInput Concrete.env C.1 Cbar.1 (gens.map v1)
    x.take 8 = i2osp 8 (gens.length - 1) ∧ x.length = 8 + 48 * gens.length + 48 + 48 := by
  intro x
  have e : x = blindChallengeInput subEnv C Cbar gens := blindChallengeInput_nat (hom hH) C Cbar gens
  rw [e]
  exact C10.blindChallengeInput_prefixes subEnv Bridge.g1Codec C Cbar gens

/-! #### domain separation -/

/-- **Foreign api id, domain** (`C11.foreign_api_id_domain`): two executable domain computations
under different api ids hash under different DSTs. -/
theorem concrete_foreign_api_id_domain (cs' : Suite G1Pt) (pk pk' : G2Pt) (Q1 Q1' : G1Pt)
    (Hs Hs' : List G1Pt) (header header' : Option Bytes) (a a' : Bytes) (h : a ≠ a') :
    ∃ x x' dst dst', dst ≠ dst' ∧
      calculateDomain Concrete.env cs' pk Q1 Hs header (some a)
        = hashToScalar Concrete.env cs' x dst ∧
      calculateDomain Concrete.env cs' pk' Q1' Hs' header' (some a')
        = hashToScalar Concrete.env cs' x' dst' :=
  C11.foreign_api_id_domain Concrete.env cs' pk pk' Q1 Q1' Hs Hs' header header' a a' h

/-- **The api ids of the two generated suites and of their blind interfaces are four different
octet strings** (so are all DSTs derived from them with a common suffix:
`C11.dst_ne_of_apiId_ne`). -/
theorem concrete_generated_apiIds_distinct (c1 c2 : Suite G1Pt) (h1 : Concrete.shaSuite? = some c1)
    (h2 : Concrete.shakeSuite? = some c2) :
    [c1.apiId, c1.apiIdBlind, c2.apiId, c2.apiIdBlind].Nodup := by
  have a := ConcreteFacts.isSha_of_shaSuite c1 h1
  have b := ConcreteFacts.isShake_of_shakeSuite c2 h2
  rw [a.apiId, a.apiIdBlind, b.apiId, b.apiIdBlind]
  decide

/-- **Foreign artefact: a domain computed for one generated suite / interface is a hash under a DST
that no other generated suite / interface uses for its domain** (`api_id ‖ "H2S_"` with four
different api ids). -/
theorem concrete_foreign_artefact_dsts (c1 c2 : Suite G1Pt) (h1 : Concrete.shaSuite? = some c1)
    (h2 : Concrete.shakeSuite? = some c2) :
    [c1.apiId ++ c1.h2s, c1.apiIdBlind ++ c1.h2s, c2.apiId ++ c2.h2s, c2.apiIdBlind ++ c2.h2s].Nodup ∧
    [c1.apiId ++ c1.mapMsgScalar, c1.apiIdBlind ++ c1.mapMsgScalar, c2.apiId ++ c2.mapMsgScalar,
      c2.apiIdBlind ++ c2.mapMsgScalar].Nodup ∧
    [c1.apiId ++ c1.generatorDst, c1.apiIdBlind ++ c1.generatorDst,
      Bytes.ofAscii "BLIND_" ++ c1.apiIdBlind ++ c1.generatorDst,
      c2.apiId ++ c2.generatorDst, c2.apiIdBlind ++ c2.generatorDst,
      Bytes.ofAscii "BLIND_" ++ c2.apiIdBlind ++ c2.generatorDst].Nodup := by
  have a := ConcreteFacts.isSha_of_shaSuite c1 h1
  have b := ConcreteFacts.isShake_of_shakeSuite c2 h2
  rw [a.apiId, a.apiIdBlind, b.apiId, b.apiIdBlind, a.h2s, b.h2s, a.mapMsgScalar, b.mapMsgScalar,
    a.generatorDst, b.generatorDst]
  refine ⟨by decide, by decide, by decide⟩

/-- Every hash the executable API computes is `hash_to_scalar` under `api_id ‖ suffix`
(`C11.calculateDomain_dst`, `mapMessage_dst`, `proofChallenge_dst`, `blindChallenge_dst`),
arbitrary raw inputs. -/
theorem concrete_dsts (cs' : Suite G1Pt) (pk : G2Pt) (Q1 : G1Pt) (Hs : List G1Pt)
    (header apiId ph : Option Bytes) (m a : Bytes) (init : ProofInitResult Fr G1Pt) (di : List Nat)
    (dm : List Fr) (hdm : dm.length = di.length) (C Cbar : G1Pt) (gens : List G1Pt)
    (hg : gens.length ≠ 0) :
    calculateDomain Concrete.env cs' pk Q1 Hs header apiId
      = hashToScalar Concrete.env cs'
          (domainInput Concrete.env pk Q1 Hs (header.getD []) (apiId.getD []))
          (apiId.getD [] ++ cs'.h2s) ∧
    mapMessageToScalarAsHash Concrete.env cs' m a
      = hashToScalar Concrete.env cs' m (a ++ cs'.mapMsgScalar) ∧
    proofChallengeCalculate Concrete.env cs' init di dm ph apiId
      = hashToScalar Concrete.env cs' (challengeInput Concrete.env init di dm (ph.getD []))
          (apiId.getD [] ++ cs'.h2s) ∧
    calculateBlindChallenge Concrete.env cs' C Cbar gens apiId
      = hashToScalar Concrete.env cs' (blindChallengeInput Concrete.env C Cbar gens)
          (apiId.getD [] ++ cs'.h2s) :=
  ⟨C11.calculateDomain_dst Concrete.env cs' pk Q1 Hs header apiId,
    C11.mapMessage_dst Concrete.env cs' m a,
    C11.proofChallenge_dst Concrete.env cs' init di dm ph apiId hdm,
    C11.blindChallenge_dst Concrete.env cs' C Cbar gens apiId hg⟩

/-! ### C12: wrong old value, earlier vectors -/

/-- **Wrong old value** (`C12.update_wrong_old`), executable `update_signature`: `σ` verifies for
`msgs`; the caller states an old message whose scalar differs from the scalar of the true `msgs[i]`,
and `H_i` is not the identity. Then whatever the executable `update_signature` returns does NOT verify
for the intended vector `msgs[i := new]`. Unconditional (no hash or discrete-log assumption). -/
theorem concrete_update_wrong_old (hH : HashInSub) (hP : PairingHyp) (cs' : Suite G1Pt)
    (hcs : SuiteOK cs') (sk : FrR) (σ : Signature FrR G1Sub) (σ'' : Signature Fr G1Pt)
    (msgs : List Bytes) (header : Option Bytes) (i : Nat) (old' new : Bytes) (oldS' s : Fr)
    (hi : i < msgs.length)
    (hv : verify Concrete.env cs' (σ.map vS v1) (skToPk Concrete.env sk.1) (some msgs) header
      = .ok ())
    (ho' : mapMessageToScalarAsHash Concrete.env cs' old' cs'.apiId = .ok oldS')
    (hs : mapMessageToScalarAsHash Concrete.env cs' msgs[i] cs'.apiId = .ok s)
    (hne : oldS' ≠ s)
    (hHi : ∀ gens Hi, Generators.create Concrete.env cs' (msgs.length + 1) (some cs'.apiId)
        = .ok gens → gens.values.tail[i]? = some Hi → Hi ≠ 0)
    (hu : updateSignature Concrete.env cs' (σ.map vS v1) sk.1 old' new i msgs.length = .ok σ'') :
    verify Concrete.env cs' σ'' (skToPk Concrete.env sk.1) (some (msgs.set i new)) header
      ≠ .ok () := by
  obtain ⟨cs, rfl⟩ := suite_of_ok hcs
  have H := hom hH
  obtain ⟨σ', hu', e0⟩ := exists_of_map_ok (updateSignature_transfer H cs σ sk old' new i _) hu
  have e1 : σ'.map vS v1 = σ'' := e0
  subst e1
  obtain ⟨o, ho, e2⟩ := exists_of_map_ok (mapMessageToScalarAsHash_transfer H cs old' _) ho'
  obtain ⟨t, ht, e3⟩ := exists_of_map_ok (mapMessageToScalarAsHash_transfer H cs msgs[i] _) hs
  rw [skToPk_transfer H, verify_transfer H] at hv ⊢
  refine C12.update_wrong_old (lawful hP) cs sk σ σ' msgs header i old' new o t hi hv ho ht
    (fun h0 => hne (by rw [← e2, ← e3, h0])) ?_ hu'
  intro gens Hi hg hget h0
  refine hHi (gens.map v1) Hi.1 (ok_of_map (Generators.create_transfer H cs _ _) hg) ?_
    (by rw [h0]; exact H.G1_zero)
  rw [Generators.map_values, ← List.map_tail, List.getElem?_map, hget]
  rfl

/-- **No earlier, different vector** (`C12.update_old_vector`): if one signature verifies under the
executable `verify` (same key) for two different message vectors of the same length, then two
different octet strings collide under the executable `hash_to_scalar`, or two different scalar
vectors (with their domains) have the same `B` over the executable generators. -/
theorem concrete_update_old_vector (hH : HashInSub) (hP : PairingHyp) (cs' : Suite G1Pt)
    (hcs : SuiteOK cs') (sk : FrR) (σ : Signature FrR G1Sub) (msgs msgs' : List Bytes)
    (header header' : Option Bytes) (hlen : msgs.length = msgs'.length) (hne : msgs ≠ msgs')
    (hv : verify Concrete.env cs' (σ.map vS v1) (skToPk Concrete.env sk.1) (some msgs) header
      = .ok ())
    (hv' : verify Concrete.env cs' (σ.map vS v1) (skToPk Concrete.env sk.1) (some msgs') header'
      = .ok ()) :
    HashCollision Concrete.env cs' ∨
    ∃ (Q1 : G1Pt) (Hs : List G1Pt) (d d' : Fr) (ms ms' : List Fr),
      Generators.create Concrete.env cs' (msgs.length + 1) (some cs'.apiId)
        = .ok ⟨cs'.p1, Q1 :: Hs⟩ ∧
      messagesToScalar Concrete.env cs' msgs cs'.apiId = .ok ms ∧
      messagesToScalar Concrete.env cs' msgs' cs'.apiId = .ok ms' ∧
      calculateDomain Concrete.env cs' (skToPk Concrete.env sk.1) Q1 Hs header (some cs'.apiId)
        = .ok d ∧
      calculateDomain Concrete.env cs' (skToPk Concrete.env sk.1) Q1 Hs header' (some cs'.apiId)
        = .ok d' ∧
      ms ≠ ms' ∧ (d, ms) ≠ (d', ms') ∧
      calcB cs'.p1 Q1 d Hs ms = calcB cs'.p1 Q1 d' Hs ms' := by
  obtain ⟨cs, rfl⟩ := suite_of_ok hcs
  have H := hom hH
  rw [skToPk_transfer H, verify_transfer H] at hv hv'
  rcases C12.update_old_vector (lawful hP) cs sk σ msgs msgs' header header' hlen hne hv hv' with
    hc | ⟨Q1, Hs, d, d', ms, ms', hg, hm, hm', hd, hd', hmm, hne2, hB⟩
  · exact Or.inl (hashCollision_transfer hH cs hc)
  · have inj : Function.Injective (List.map vS) := List.map_injective_iff.mpr Subtype.val_injective
    refine Or.inr ⟨Q1.1, Hs.map v1, d.1, d'.1, ms.map vS, ms'.map vS,
      ok_of_map (Generators.create_transfer H cs _ _) hg,
      ok_of_map (messagesToScalar_transfer H cs _ _) hm,
      ok_of_map (messagesToScalar_transfer H cs _ _) hm', ?_, ?_, fun h => hmm (inj h),
      fun h => hne2 ?_, ?_⟩
    · rw [skToPk_transfer H]; exact ok_of_map (calculateDomain_nat H cs _ Q1 Hs header _) hd
    · rw [skToPk_transfer H]; exact ok_of_map (calculateDomain_nat H cs _ Q1 Hs header' _) hd'
    · obtain ⟨h1, h2⟩ := Prod.mk.inj h
      rw [Subtype.ext h1, inj h2]
    · have e1 := calcB_nat H cs.p1 Q1 d Hs ms
      have e2 := calcB_nat H cs.p1 Q1 d' Hs ms'
      rw [Suite.map_p1, e1, e2, hB]

/-! ### C09: the object codecs of the executable API are canonical and strict

(`C09Concrete`, `C09G1`, `C09G2` are about the point / scalar codecs; here: the six octet codecs of
the API — public key, secret key / blind factor, signature, proof, commitment proof,
commitment-with-proof — and the public-key coordinates, run on ARBITRARY octets.) -/

theorem v2_eq_zero_iff (hH : HashInSub) (p : G2Sub) : p.1 = 0 ↔ p = 0 :=
  (hom hH).f2_eq_zero_iff p

/-- **Strictness for arbitrary octets** (`C09.pk_strict`, `sk_strict`, `sig_strict`, `proof_strict`,
`zkpok_strict`, `commitment_strict`): whatever an executable decoder accepts re-encodes to exactly the
octets it was given, which have the canonical length. -/
theorem concrete_decode_strict (hH : HashInSub) (hP : PairingHyp) (b : Bytes) :
    (∀ g, pkFromBytes Concrete.env b = .ok g →
      pkToBytes Concrete.env g = b ∧ b.length = 96 ∧ g ≠ 0) ∧
    (∀ s, skFromBytes Concrete.env b = .ok s → Concrete.env.sEnc s = b ∧ b.length = 32) ∧
    (∀ σ, Signature.fromBytes Concrete.env b = .ok σ →
      σ.toBytes Concrete.env = b ∧ b.length = 80) ∧
    (∀ π, PoKSignature.fromBytes Concrete.env b = .ok π →
      π.toBytes Concrete.env = b ∧ b.length = 272 + 32 * π.mCap.length) ∧
    (∀ z, ZKPoK.fromBytes Concrete.env b = .ok z →
      z.toBytes Concrete.env = b ∧ b.length = 64 + 32 * z.mCap.length) ∧
    (∀ c, Commitment.fromBytes Concrete.env b = .ok c →
      c.toBytes Concrete.env = b ∧ b.length = 112 + 32 * c.proof.mCap.length) := by
  have H := hom hH
  have hl := lawful hP
  refine ⟨fun g h => ?_, fun s h => ?_, fun σ h => ?_, fun π h => ?_, fun z h => ?_, fun c h => ?_⟩
  · obtain ⟨x, hx, e⟩ := exists_of_map_ok (pkFromBytes_transfer H b) h
    have e' : v2 x = g := e
    subst e'
    obtain ⟨h1, h2, h3⟩ := C09.pk_strict hl b x hx
    exact ⟨by rw [pkToBytes_transfer H]; exact h1, h2, fun h0 => h3 ((v2_eq_zero_iff hH x).mp h0)⟩
  · obtain ⟨x, hx, e⟩ := exists_of_map_ok (skFromBytes_transfer H b) h
    have e' : vS x = s := e
    subst e'
    obtain ⟨h1, h2⟩ := C09.sk_strict hl b x hx
    exact ⟨by rw [H.sEnc]; exact h1, h2⟩
  · obtain ⟨x, hx, e⟩ := exists_of_map_ok (Signature.fromBytes_transfer H b) h
    have e' : x.map vS v1 = σ := e
    subst e'
    obtain ⟨h1, h2⟩ := C09.sig_strict hl b x hx
    exact ⟨by rw [Signature.toBytes_transfer H]; exact h1, h2⟩
  · obtain ⟨x, hx, e⟩ := exists_of_map_ok (PoKSignature.fromBytes_transfer H b) h
    have e' : x.map vS v1 = π := e
    subst e'
    obtain ⟨h1, h2⟩ := C09.proof_strict hl b x hx
    exact ⟨by rw [PoKSignature.toBytes_transfer H]; exact h1,
      by rw [PoKSignature.map_mCap, List.length_map]; exact h2⟩
  · obtain ⟨x, hx, e⟩ := exists_of_map_ok (ZKPoK.fromBytes_transfer H b) h
    have e' : x.map vS = z := e
    subst e'
    obtain ⟨h1, h2⟩ := C09.zkpok_strict hl b x hx
    exact ⟨by rw [ZKPoK.toBytes_transfer H]; exact h1,
      by rw [ZKPoK.map_mCap, List.length_map]; exact h2⟩
  · obtain ⟨x, hx, e⟩ := exists_of_map_ok (Commitment.fromBytes_transfer H b) h
    have e' : x.map vS v1 = c := e
    subst e'
    obtain ⟨h1, h2⟩ := C09.commitment_strict hl b x hx
    exact ⟨by rw [Commitment.toBytes_transfer H]; exact h1,
      by rw [Commitment.map_proof, ZKPoK.map_mCap, List.length_map]; exact h2⟩

/-- Public-key coordinates (`C09.pk_coords_strict`), arbitrary octets. -/
theorem concrete_pk_coords_strict (hH : HashInSub) (hP : PairingHyp) (x y : Bytes) (g : G2Pt)
    (h : pkFromCoordinates Concrete.env x y = .ok g) :
    pkToCoordinates Concrete.env g = (x, y) ∧ x.length = 96 ∧ y.length = 96 ∧ g ≠ 0 := by
  have H := hom hH
  obtain ⟨p, hp, e⟩ := exists_of_map_ok (pkFromCoordinates_transfer H x y) h
  have e' : v2 p = g := e
  subst e'
  obtain ⟨h1, h2, h3, h4⟩ := C09.pk_coords_strict (lawful hP) x y p hp
  exact ⟨by rw [pkToCoordinates_transfer H]; exact h1, h2, h3,
    fun h0 => h4 ((v2_eq_zero_iff hH p).mp h0)⟩

/-- **No two distinct octet strings decode to the same object**, all six executable codecs
(`C09.decode_injective`). -/
theorem concrete_decode_injective (hH : HashInSub) (hP : PairingHyp) (b b' : Bytes) :
    (∀ g, pkFromBytes Concrete.env b = .ok g → pkFromBytes Concrete.env b' = .ok g → b = b') ∧
    (∀ s, skFromBytes Concrete.env b = .ok s → skFromBytes Concrete.env b' = .ok s → b = b') ∧
    (∀ σ, Signature.fromBytes Concrete.env b = .ok σ →
      Signature.fromBytes Concrete.env b' = .ok σ → b = b') ∧
    (∀ π, PoKSignature.fromBytes Concrete.env b = .ok π →
      PoKSignature.fromBytes Concrete.env b' = .ok π → b = b') ∧
    (∀ z, ZKPoK.fromBytes Concrete.env b = .ok z → ZKPoK.fromBytes Concrete.env b' = .ok z →
      b = b') ∧
    (∀ c, Commitment.fromBytes Concrete.env b = .ok c →
      Commitment.fromBytes Concrete.env b' = .ok c → b = b') := by
  obtain ⟨a1, a2, a3, a4, a5, a6⟩ := concrete_decode_strict hH hP b
  obtain ⟨b1, b2, b3, b4, b5, b6⟩ := concrete_decode_strict hH hP b'
  exact ⟨fun g h h' => (a1 g h).1.symm.trans (b1 g h').1,
    fun s h h' => (a2 s h).1.symm.trans (b2 s h').1,
    fun σ h h' => (a3 σ h).1.symm.trans (b3 σ h').1,
    fun π h h' => (a4 π h).1.symm.trans (b4 π h').1,
    fun z h h' => (a5 z h).1.symm.trans (b5 z h').1,
    fun c h h' => (a6 c h).1.symm.trans (b6 c h').1⟩

/-- **Round trips** (`C09.pk_roundtrip`, `sk_roundtrip`, `sig_roundtrip`, `proof_roundtrip`,
`zkpok_roundtrip`, `commitment_roundtrip`): every object with components in the subtypes (and the
non-identity / non-zero components the decoders insist on) survives its executable encoding. -/
theorem concrete_roundtrips (hH : HashInSub) (hP : PairingHyp) :
    (∀ g : G2Sub, g.1 ≠ 0 → (pkToBytes Concrete.env g.1).length = 96 ∧
      pkFromBytes Concrete.env (pkToBytes Concrete.env g.1) = .ok g.1) ∧
    (∀ g : G2Sub, g.1 ≠ 0 →
      pkFromCoordinates Concrete.env (pkToCoordinates Concrete.env g.1).1
        (pkToCoordinates Concrete.env g.1).2 = .ok g.1) ∧
    (∀ s : FrR, (Concrete.env.sEnc s.1).length = 32 ∧
      skFromBytes Concrete.env (Concrete.env.sEnc s.1) = .ok s.1) ∧
    (∀ σ : Signature FrR G1Sub, σ.A.1 ≠ 0 → σ.e.1 ≠ 0 →
      ((σ.map vS v1).toBytes Concrete.env).length = 80 ∧
      Signature.fromBytes Concrete.env ((σ.map vS v1).toBytes Concrete.env) = .ok (σ.map vS v1)) ∧
    (∀ π : PoKSignature FrR G1Sub, π.Abar.1 ≠ 0 → π.Bbar.1 ≠ 0 → π.D.1 ≠ 0 →
      ((π.map vS v1).toBytes Concrete.env).length = 272 + 32 * π.mCap.length ∧
      PoKSignature.fromBytes Concrete.env ((π.map vS v1).toBytes Concrete.env)
        = .ok (π.map vS v1)) ∧
    (∀ z : ZKPoK FrR, ((z.map vS).toBytes Concrete.env).length = 64 + 32 * z.mCap.length ∧
      ZKPoK.fromBytes Concrete.env ((z.map vS).toBytes Concrete.env) = .ok (z.map vS)) ∧
    (∀ c : Commitment FrR G1Sub,
      ((c.map vS v1).toBytes Concrete.env).length = 112 + 32 * c.proof.mCap.length ∧
      Commitment.fromBytes Concrete.env ((c.map vS v1).toBytes Concrete.env)
        = .ok (c.map vS v1)) := by
  have H := hom hH
  have hl := lawful hP
  refine ⟨fun g hg => ?_, fun g hg => ?_, fun s => ?_, fun σ hA he => ?_, fun π hA hB hD => ?_,
    fun z => ?_, fun c => ?_⟩
  · obtain ⟨h1, h2⟩ := C09.pk_roundtrip hl g (fun h0 => hg ((v2_eq_zero_iff hH g).mpr h0))
    rw [pkToBytes_transfer H]
    exact ⟨h1, ok_of_map (pkFromBytes_transfer H _) h2⟩
  · obtain ⟨_, _, h3⟩ := C09.pk_coords_roundtrip hl g (fun h0 => hg ((v2_eq_zero_iff hH g).mpr h0))
    rw [pkToCoordinates_transfer H]
    exact ok_of_map (pkFromCoordinates_transfer H _ _) h3
  · obtain ⟨h1, h2⟩ := C09.sk_roundtrip hl s
    rw [H.sEnc]
    exact ⟨h1, ok_of_map (skFromBytes_transfer H _) h2⟩
  · obtain ⟨h1, h2⟩ := C09.sig_roundtrip hl σ (fun h0 => hA ((v1_eq_zero_iff _).mpr h0))
      (fun h0 => he ((vS_eq_zero_iff _).mpr h0))
    rw [Signature.toBytes_transfer H]
    exact ⟨h1, ok_of_map (Signature.fromBytes_transfer H _) h2⟩
  · obtain ⟨h1, h2⟩ := C09.proof_roundtrip hl π (fun h0 => hA ((v1_eq_zero_iff _).mpr h0))
      (fun h0 => hB ((v1_eq_zero_iff _).mpr h0)) (fun h0 => hD ((v1_eq_zero_iff _).mpr h0))
    rw [PoKSignature.toBytes_transfer H]
    exact ⟨h1, ok_of_map (PoKSignature.fromBytes_transfer H _) h2⟩
  · obtain ⟨h1, h2⟩ := C09.zkpok_roundtrip hl z
    rw [ZKPoK.toBytes_transfer H]
    exact ⟨h1, ok_of_map (ZKPoK.fromBytes_transfer H _) h2⟩
  · obtain ⟨h1, h2⟩ := C09.commitment_roundtrip hl c
    rw [Commitment.toBytes_transfer H]
    exact ⟨h1, ok_of_map (Commitment.fromBytes_transfer H _) h2⟩

/-- **Trailing octets** (`C09.rejects_trailing_*`, `trailing_changes_*`): a non-empty suffix after an
accepted fixed-size encoding is refused; after an accepted variable-size encoding it is refused
unless it is a whole number of 32-octet blocks, and then it never decodes to the same object. -/
theorem concrete_trailing (hH : HashInSub) (hP : PairingHyp) (b t : Bytes) (ht : t ≠ []) :
    (∀ g, pkFromBytes Concrete.env b = .ok g → pkFromBytes Concrete.env (b ++ t) = .err) ∧
    (∀ s, skFromBytes Concrete.env b = .ok s → skFromBytes Concrete.env (b ++ t) = .err) ∧
    (∀ σ, Signature.fromBytes Concrete.env b = .ok σ →
      Signature.fromBytes Concrete.env (b ++ t) = .err) ∧
    (∀ π, PoKSignature.fromBytes Concrete.env b = .ok π →
      (t.length % 32 ≠ 0 → PoKSignature.fromBytes Concrete.env (b ++ t) = .err) ∧
      PoKSignature.fromBytes Concrete.env (b ++ t) ≠ .ok π) ∧
    (∀ c, Commitment.fromBytes Concrete.env b = .ok c →
      (t.length % 32 ≠ 0 → Commitment.fromBytes Concrete.env (b ++ t) = .err) ∧
      Commitment.fromBytes Concrete.env (b ++ t) ≠ .ok c) := by
  have H := hom hH
  have hl := lawful hP
  obtain ⟨_, _, _, i4, _, i6⟩ := concrete_decode_injective hH hP (b ++ t) b
  refine ⟨fun g h => ?_, fun s h => ?_, fun σ h => ?_, fun π h => ⟨fun hm => ?_, fun h' => ?_⟩,
    fun c h => ⟨fun hm => ?_, fun h' => ?_⟩⟩
  · obtain ⟨x, hx, _⟩ := exists_of_map_ok (pkFromBytes_transfer H b) h
    exact (err_iff_of_map (pkFromBytes_transfer H _)).mpr (C09.rejects_trailing_pk hl b t x hx ht)
  · obtain ⟨x, hx, _⟩ := exists_of_map_ok (skFromBytes_transfer H b) h
    exact (err_iff_of_map (skFromBytes_transfer H _)).mpr (C09.rejects_trailing_sk hl b t x hx ht)
  · obtain ⟨x, hx, _⟩ := exists_of_map_ok (Signature.fromBytes_transfer H b) h
    exact (err_iff_of_map (Signature.fromBytes_transfer H _)).mpr
      (C09.rejects_trailing_sig hl b t x hx ht)
  · obtain ⟨x, hx, _⟩ := exists_of_map_ok (PoKSignature.fromBytes_transfer H b) h
    exact (err_iff_of_map (PoKSignature.fromBytes_transfer H _)).mpr
      (C09.rejects_trailing_proof hl b t x hx hm)
  · exact ht (List.append_right_eq_self.mp (i4 π h' h))
  · obtain ⟨x, hx, _⟩ := exists_of_map_ok (Commitment.fromBytes_transfer H b) h
    exact (err_iff_of_map (Commitment.fromBytes_transfer H _)).mpr
      (C09.rejects_trailing_commitment hl b t x hx hm)
  · exact ht (List.append_right_eq_self.mp (i6 c h' h))

/-! ### C04 / C06: what the executable verifiers decide; bindings (core level) -/

/-- **What the executable `core_proof_verify` decides** for `pk = sk • G2.gen`
(`C04.coreProofVerify_ok_iff`), in the executable arithmetic: the structural checks, `U + R + 1`
generators, the domain, the Fiat–Shamir equation over `T1 = c•Bbar + ê•Abar + r̂1•D`,
`T2 = c•(P1 + domain•Q1 + Σ dm_k•H_{di_k}) + r̂3•D + Σ m̂_j•H_{u_j}` (`initOfRaw`), and
`sk • Abar = Bbar`. -/
theorem concrete_coreProofVerify_ok_iff (hH : HashInSub) (hP : PairingHyp) (cs' : Suite G1Pt)
    (hcs : SuiteOK cs') (sk : FrR) (π : PoKSignature FrR G1Sub) (gens : Generators G1Sub)
    (header ph : Option Bytes) (dm : List FrR) (di : List Nat) (apiId : Option Bytes) :
    coreProofVerify Concrete.env cs' (skToPk Concrete.env sk.1) (π.map vS v1) (gens.map v1) header
        ph (dm.map vS) di apiId = .ok () ↔
      (π.Abar.1 ≠ 0 ∧ π.Bbar.1 ≠ 0 ∧ π.D.1 ≠ 0 ∧
        (∀ i ∈ di, i ≤ π.mCap.length + di.length - 1) ∧ dm.length = di.length) ∧
      ∃ (Q1 : G1Pt) (Hs : List G1Pt) (domain : Fr), (gens.map v1).values = Q1 :: Hs ∧
        Hs.length = π.mCap.length + di.length ∧
        calculateDomain Concrete.env cs' (skToPk Concrete.env sk.1) Q1 Hs header apiId
          = .ok domain ∧
        hashToScalar Concrete.env cs'
          (challengeInput Concrete.env
            (initOfRaw (π.map vS v1) (gens.map v1).base Q1 Hs domain (dm.map vS) di) di (dm.map vS)
            (ph.getD []))
          (apiId.getD [] ++ cs'.h2s) = .ok π.challenge.1 ∧
        sk.1 • π.Abar.1 = π.Bbar.1 := by
  obtain ⟨cs, rfl⟩ := suite_of_ok hcs
  have H := hom hH
  rw [skToPk_transfer H, show skToPk subEnv sk = sk • subEnv.bp2 from rfl,
    coreProofVerify_concrete hH]
  refine (Sound.coreProofVerify_ok_iff (lawful hP) cs sk π gens header ph dm di apiId).trans ?_
  unfold Sound.Structural Sound.ChallengeOk
  constructor
  · rintro ⟨⟨a, b, c, d, e⟩, Q1, Hs, dom, hv, hlen, hd, hch, hsk⟩
    refine ⟨⟨fun h0 => a ((v1_eq_zero_iff _).mp h0), fun h0 => b ((v1_eq_zero_iff _).mp h0),
      fun h0 => c ((v1_eq_zero_iff _).mp h0), d, e⟩, Q1.1, Hs.map v1, dom.1,
      by rw [Generators.map_values, hv]; rfl, by rw [List.length_map]; exact hlen,
      ok_of_map (calculateDomain_nat H cs _ Q1 Hs header apiId) hd, ?_, ?_⟩
    · rw [Generators.map_base, initOf_nat H, challengeInput_nat H, Suite.map_h2s]
      exact ok_of_map (hashToScalar_transfer H cs _ _) hch
    · rw [← H.G1_smul, hsk]
  · rintro ⟨⟨a, b, c, d, e⟩, Q1', Hs', dom', hv, hlen, hd, hch, hsk⟩
    have hv' : gens.values.map v1 = Q1' :: Hs' := hv
    obtain ⟨Q1, Hs, hv0, rfl, rfl⟩ := List.map_eq_cons_iff.mp hv'
    obtain ⟨dom, hd0, rfl⟩ := exists_of_map_ok (calculateDomain_nat H cs _ Q1 Hs header apiId) hd
    rw [Generators.map_base, initOf_nat H, challengeInput_nat H, Suite.map_h2s] at hch
    refine ⟨⟨fun h0 => a ((v1_eq_zero_iff _).mpr h0), fun h0 => b ((v1_eq_zero_iff _).mpr h0),
      fun h0 => c ((v1_eq_zero_iff _).mpr h0), d, e⟩, Q1, Hs, dom, hv0,
      by rw [List.length_map] at hlen; exact hlen, hd0, ?_, ?_⟩
    · exact (ok_iff_of_map H.fS_inj (hashToScalar_transfer H cs _ _) π.challenge).mp hch
    · rw [← H.G1_smul] at hsk
      exact Subtype.ext hsk

/-- **Statement binding (core)** (`C04.stmt_binding`): the same proof accepted by the executable
`core_proof_verify` for two statements: the statements coincide or a hash collision is exhibited. -/
theorem concrete_stmt_binding (hH : HashInSub) (hP : PairingHyp) (cs' : Suite G1Pt)
    (hcs : SuiteOK cs') (pk pk' : G2Sub) (π : PoKSignature FrR G1Sub)
    (gens gens' : Generators G1Sub) (header header' ph ph' : Option Bytes) (dm dm' : List FrR)
    (di di' : List Nat) (apiId : Option Bytes)
    (hsz : gens.values.length ≤ 2 ^ 64) (hsz' : gens'.values.length ≤ 2 ^ 64)
    (h : coreProofVerify Concrete.env cs' pk.1 (π.map vS v1) (gens.map v1) header ph (dm.map vS) di
      apiId = .ok ())
    (h' : coreProofVerify Concrete.env cs' pk'.1 (π.map vS v1) (gens'.map v1) header' ph'
      (dm'.map vS) di' apiId = .ok ()) :
    HashCollision Concrete.env cs' ∨
      (pk'.1 = pk.1 ∧ (gens'.map v1).values = (gens.map v1).values ∧
        header'.getD [] = header.getD [] ∧ ph'.getD [] = ph.getD [] ∧ dm'.map vS = dm.map vS ∧
        di' = di) := by
  obtain ⟨cs, rfl⟩ := suite_of_ok hcs
  rw [coreProofVerify_concrete hH] at h h'
  rcases C04.stmt_binding (lawful hP) cs pk pk' π gens gens' header header' ph ph' dm dm' di di'
    apiId hsz hsz' h h' with hcol | ⟨h1, h2, h3, h4, h5, h6⟩
  · exact Or.inl (hashCollision_transfer hH cs hcol)
  · exact Or.inr ⟨congrArg Subtype.val h1, by rw [Generators.map_values, Generators.map_values, h2],
      h3, h4, by rw [h5], h6⟩

/-- **Any change of the encoded proof, core level** (`C04Bytes.proof_bytes_tamper`). -/
theorem concrete_proof_bytes_tamper (hH : HashInSub) (hP : PairingHyp) (cs' : Suite G1Pt)
    (hcs : SuiteOK cs') (pk : G2Sub) (π : PoKSignature FrR G1Sub) (gens : Generators G1Sub)
    (header ph : Option Bytes) (dm : List FrR) (di : List Nat) (apiId : Option Bytes)
    (hsz : gens.values.length ≤ 2 ^ 64)
    (h : coreProofVerify Concrete.env cs' pk.1 (π.map vS v1) (gens.map v1) header ph (dm.map vS) di
      apiId = .ok ())
    (b' : Bytes) (hne : b' ≠ (π.map vS v1).toBytes Concrete.env) :
    PoKSignature.fromBytes Concrete.env b' = .err ∨
      ∃ π'', PoKSignature.fromBytes Concrete.env b' = .ok π'' ∧ π'' ≠ π.map vS v1 ∧
        (coreProofVerify Concrete.env cs' pk.1 π'' (gens.map v1) header ph (dm.map vS) di apiId
            = .ok () →
          HashCollision Concrete.env cs' ∨ π''.challenge ≠ (π.map vS v1).challenge ∨
            ResponseRelationRaw (π.map vS v1) π'' (gens.map v1) di) := by
  obtain ⟨cs, rfl⟩ := suite_of_ok hcs
  have H := hom hH
  rw [coreProofVerify_concrete hH] at h
  rw [PoKSignature.toBytes_transfer H] at hne
  rcases C04Bytes.proof_bytes_tamper (lawful hP) cs pk π gens header ph dm di apiId hsz h b' hne
    with he | ⟨π', hd, hπ, himp⟩
  · exact Or.inl ((err_iff_of_map (PoKSignature.fromBytes_transfer H b')).mpr he)
  · refine Or.inr ⟨π'.map vS v1, ok_of_map (PoKSignature.fromBytes_transfer H b') hd,
      fun e => hπ (PoKSignature.map_injective vS v1 H.fS_inj H.f1_inj e), fun hv => ?_⟩
    rw [coreProofVerify_concrete hH] at hv
    rcases himp hv with x | x | x
    · exact Or.inl (hashCollision_transfer hH cs x)
    · exact Or.inr (Or.inl fun e => x (Subtype.ext e))
    · exact Or.inr (Or.inr (responseRelation_nat H π π' gens di x))

/-- **Another length, same challenge block, core level** (`C04Bytes.proof_resize`): acceptance — for
ANY statement under the same api id — exhibits a hash collision. -/
theorem concrete_proof_resize (hH : HashInSub) (hP : PairingHyp) (cs' : Suite G1Pt)
    (hcs : SuiteOK cs') (pk : G2Sub) (π : PoKSignature FrR G1Sub) (gens : Generators G1Sub)
    (header ph : Option Bytes) (dm : List FrR) (di : List Nat) (apiId : Option Bytes)
    (hsz : gens.values.length ≤ 2 ^ 64)
    (h : coreProofVerify Concrete.env cs' pk.1 (π.map vS v1) (gens.map v1) header ph (dm.map vS) di
      apiId = .ok ())
    (b' : Bytes) (hlen : b'.length ≠ ((π.map vS v1).toBytes Concrete.env).length)
    (hlast : b'.drop (b'.length - 32) = ((π.map vS v1).toBytes Concrete.env).drop
      (((π.map vS v1).toBytes Concrete.env).length - 32)) :
    PoKSignature.fromBytes Concrete.env b' = .err ∨
      ∃ π'', PoKSignature.fromBytes Concrete.env b' = .ok π'' ∧
        π''.challenge = π.challenge.1 ∧ π''.mCap.length ≠ π.mCap.length ∧
        ∀ (pk' : G2Sub) (gens' : Generators G1Sub) (header' ph' : Option Bytes) (dm' : List FrR)
          (di' : List Nat), gens'.values.length ≤ 2 ^ 64 →
          coreProofVerify Concrete.env cs' pk'.1 π'' (gens'.map v1) header' ph' (dm'.map vS) di'
            apiId = .ok () →
          HashCollision Concrete.env cs' := by
  obtain ⟨cs, rfl⟩ := suite_of_ok hcs
  have H := hom hH
  rw [coreProofVerify_concrete hH] at h
  rw [PoKSignature.toBytes_transfer H] at hlen hlast
  rcases C04Bytes.proof_resize (lawful hP) cs pk π gens header ph dm di apiId hsz h b' hlen hlast
    with he | ⟨π', hd, hc, hU, hall⟩
  · exact Or.inl ((err_iff_of_map (PoKSignature.fromBytes_transfer H b')).mpr he)
  · refine Or.inr ⟨π'.map vS v1, ok_of_map (PoKSignature.fromBytes_transfer H b') hd,
      congrArg Subtype.val hc, by rw [PoKSignature.map_mCap, List.length_map]; exact hU,
      fun pk' gens' header' ph' dm' di' hsz' hv => ?_⟩
    rw [coreProofVerify_concrete hH] at hv
    exact hashCollision_transfer hH cs (hall pk' gens' header' ph' dm' di' hsz' hv)

/-- A successful executable `proof_verify`, unfolded (`C04Bytes.proofVerify_inv`); arbitrary raw
records, no hypothesis. -/
theorem concrete_proofVerify_inv (cs' : Suite G1Pt) (π' : PoKSignature Fr G1Pt) (pk' : G2Pt)
    (dmsgs : Option (List Bytes)) (di : Option (List Nat)) (header ph : Option Bytes)
    (h : proofVerify Concrete.env cs' π' pk' dmsgs di header ph = .ok ()) :
    ∃ dm gens, messagesToScalar Concrete.env cs' (dmsgs.getD []) cs'.apiId = .ok dm ∧
      Generators.create Concrete.env cs' (π'.mCap.length + (sortDedup (di.getD [])).length + 1)
        (some cs'.apiId) = .ok gens ∧
      coreProofVerify Concrete.env cs' pk' π' gens header ph dm (sortDedup (di.getD []))
        (some cs'.apiId) = .ok () := by
  unfold proofVerify at h
  dsimp only at h
  cases hm : messagesToScalar Concrete.env cs' (dmsgs.getD []) cs'.apiId with
  | err => rw [hm] at h; cases h
  | panic => rw [hm] at h; cases h
  | ok dm =>
    rw [hm] at h; simp only at h
    cases hg : Generators.create Concrete.env cs'
        (π'.mCap.length + (sortDedup (di.getD [])).length + 1) (some cs'.apiId) with
    | err => rw [hg] at h; cases h
    | panic => rw [hg] at h; cases h
    | ok gens =>
      rw [hg] at h; simp only at h
      exact ⟨dm, gens, rfl, rfl, h⟩

/-- **What the executable `core_commit_verify` decides** (`C06.coreCommitVerify_ok_iff`), in the
executable arithmetic (`CbarRaw = ŝ•Q2 + Σ m̂_i•J_i − c•C`). -/
theorem concrete_coreCommitVerify_ok_iff (hH : HashInSub) (cs' : Suite G1Pt) (hcs : SuiteOK cs')
    (C : G1Sub) (z : ZKPoK FrR) (bg : List G1Sub) (apiId : Option Bytes) :
    coreCommitVerify Concrete.env cs' C.1 (z.map vS) (bg.map v1) apiId = .ok () ↔
      ∃ (Q2 : G1Pt) (Js : List G1Pt), (bg.map v1).take (z.mCap.length + 1) = Q2 :: Js ∧
        Js.length = z.mCap.length ∧
        hashToScalar Concrete.env cs'
          (blindChallengeInput Concrete.env C.1 (CbarRaw C.1 (z.map vS) Q2 Js) (Q2 :: Js))
          (apiId.getD [] ++ cs'.h2s) = .ok z.challenge.1 := by
  obtain ⟨cs, rfl⟩ := suite_of_ok hcs
  have H := hom hH
  rw [coreCommitVerify_concrete hH]
  refine (C06.coreCommitVerify_ok_iff (env := subEnv) cs C z bg apiId).trans ?_
  constructor
  · rintro ⟨Q2, Js, ht, hl, hh⟩
    refine ⟨Q2.1, Js.map v1, by rw [← List.map_take, ht, List.map_cons],
      by rw [List.length_map, hl], ?_⟩
    have e : (Q2.1 :: Js.map v1) = (Q2 :: Js).map v1 := rfl
    rw [Cbar_nat H, e, blindChallengeInput_nat H, Suite.map_h2s]
    exact ok_of_map (hashToScalar_transfer H cs _ _) hh
  · rintro ⟨Q2', Js', ht, hl, hh⟩
    rw [← List.map_take] at ht
    obtain ⟨Q2, Js, ht0, rfl, rfl⟩ := List.map_eq_cons_iff.mp ht
    have e : (Q2.1 :: Js.map v1) = (Q2 :: Js).map v1 := rfl
    rw [Cbar_nat H, e, blindChallengeInput_nat H, Suite.map_h2s] at hh
    refine ⟨Q2, Js, ht0, by rw [List.length_map] at hl; exact hl, ?_⟩
    exact (ok_iff_of_map H.fS_inj (hashToScalar_transfer H cs _ _) z.challenge).mp hh

/-- **Binding of commitment proofs** (`C06.commit_binding`): two accepted commitment proofs with the
same challenge value: a hash collision, or the same number of scalars, the same commitment, the same
generators and the same recomputed `Cbar` (executable arithmetic). -/
theorem concrete_commit_binding (hH : HashInSub) (hP : PairingHyp) (cs' : Suite G1Pt)
    (hcs : SuiteOK cs') (C C' : G1Sub) (z z' : ZKPoK FrR) (bg bg' : List G1Sub)
    (apiId : Option Bytes)
    (h : coreCommitVerify Concrete.env cs' C.1 (z.map vS) (bg.map v1) apiId = .ok ())
    (h' : coreCommitVerify Concrete.env cs' C'.1 (z'.map vS) (bg'.map v1) apiId = .ok ())
    (hc : z.challenge.1 = z'.challenge.1) :
    HashCollision Concrete.env cs' ∨
      (z'.mCap.length = z.mCap.length ∧ C'.1 = C.1 ∧
        ∃ (Q2 : G1Pt) (Js : List G1Pt), (bg.map v1).take (z.mCap.length + 1) = Q2 :: Js ∧
          (bg'.map v1).take (z.mCap.length + 1) = Q2 :: Js ∧ Js.length = z.mCap.length ∧
          CbarRaw C.1 (z'.map vS) Q2 Js = CbarRaw C.1 (z.map vS) Q2 Js) := by
  obtain ⟨cs, rfl⟩ := suite_of_ok hcs
  have H := hom hH
  rw [coreCommitVerify_concrete hH] at h h'
  rcases C06.commit_binding (lawful hP) cs C C' z z' bg bg' apiId h h' (Subtype.ext hc) with
    hcol | ⟨hM, hC, Q2, Js, ht, ht', hl, hCb⟩
  · exact Or.inl (hashCollision_transfer hH cs hcol)
  · refine Or.inr ⟨hM, congrArg Subtype.val hC, Q2.1, Js.map v1,
      by rw [← List.map_take, ht, List.map_cons], by rw [← List.map_take, ht', List.map_cons],
      by rw [List.length_map, hl], ?_⟩
    rw [Cbar_nat H, Cbar_nat H, hCb]

/-- `deserialize_and_validate_commit` returns a commitment only if the input is empty or it decodes
and its proof passes the executable `core_commit_verify` (`C06.deserializeAndValidateCommit_ok`);
arbitrary raw records. -/
theorem concrete_deserializeAndValidateCommit_ok (cs' : Suite G1Pt) (cwp : Option Bytes)
    (bgens : Generators G1Pt) (apiId : Option Bytes) (C : G1Pt)
    (h : deserializeAndValidateCommit Concrete.env cs' cwp bgens apiId = .ok C) :
    (cwp.getD [] = [] ∧ C = 0) ∨
      ∃ c, Commitment.fromBytes Concrete.env (cwp.getD []) = .ok c ∧ C = c.commitment ∧
        c.proof.mCap.length + 1 ≤ bgens.values.length ∧
        coreCommitVerify Concrete.env cs' c.commitment c.proof bgens.values
          (some (apiId.getD [])) = .ok () :=
  raw_deserializeAndValidateCommit_ok Concrete.env cs' cwp bgens apiId C h

/-- Two commitments-with-proof of the same non-zero length both signed by the executable
`blind_sign` (`C06.blind_sign_two_commitments`): both decode, both proofs are accepted over the same
blind generators. Arbitrary raw records. -/
theorem concrete_blind_sign_two_commitments (cs' : Suite G1Pt) (sk' : Fr) (pk' : G2Pt)
    (cwp cwp' header header' : Option Bytes) (messages messages' : Option (List Bytes))
    (σ σ' : Signature Fr G1Pt) (hlen : (cwp'.getD []).length = (cwp.getD []).length)
    (hne : cwp.getD [] ≠ [])
    (h : blindSign Concrete.env cs' sk' pk' cwp header messages = .ok σ)
    (h' : blindSign Concrete.env cs' sk' pk' cwp' header' messages' = .ok σ') :
    ∃ c c' bgens, Commitment.fromBytes Concrete.env (cwp.getD []) = .ok c ∧
      Commitment.fromBytes Concrete.env (cwp'.getD []) = .ok c' ∧
      coreCommitVerify Concrete.env cs' c.commitment c.proof bgens (some cs'.apiIdBlind) = .ok () ∧
      coreCommitVerify Concrete.env cs' c'.commitment c'.proof bgens (some cs'.apiIdBlind)
        = .ok () := by
  obtain ⟨M, _, bgens, _, _, _, hM, _, hbg, _, _, _, hor⟩ :=
    concrete_blind_sign_requires_valid_commit cs' sk' pk' cwp header messages σ h
  obtain ⟨M', _, bgens', _, _, _, hM', _, hbg', _, _, _, hor'⟩ :=
    concrete_blind_sign_requires_valid_commit cs' sk' pk' cwp' header' messages' σ' h'
  rw [hlen, hM] at hM'
  cases hM'
  rw [hbg] at hbg'
  cases hbg'
  have hne' : cwp'.getD [] ≠ [] := by
    intro h0
    rw [h0] at hlen
    exact hne (List.length_eq_zero_iff.mp hlen.symm)
  rcases hor with ⟨h0, _⟩ | ⟨c, hc, _, hv⟩
  · exact absurd h0 hne
  rcases hor' with ⟨h0, _⟩ | ⟨c', hc', _, hv'⟩
  · exact absurd h0 hne'
  exact ⟨c, c', bgens.values, hc, hc', hv, hv'⟩

/-- In the absence of hash collisions and of a coincidence between the two executable generator
families, a blind proof verifies for at most one signer-message count
(`C06Bytes.blind_proof_L_unique`). -/
theorem concrete_blind_proof_L_unique (hH : HashInSub) (hP : PairingHyp)
    (cs' : Suite G1Pt) (hcs : SuiteOK cs') (π : PoKSignature FrR G1Sub) (pk pk' : G2Sub)
    (header header' ph ph' : Option Bytes) (L L' : Option Nat)
    (dmsgs dmsgs' dcmsgs dcmsgs' : Option (List Bytes)) (di di' dci dci' : Option (List Nat))
    (hsz : (sortDedup (di.getD [])).length + (sortDedup (dci.getD [])).length + π.mCap.length + 1
      ≤ 2 ^ 64)
    (hsz' : (sortDedup (di'.getD [])).length + (sortDedup (dci'.getD [])).length + π.mCap.length
      + 1 ≤ 2 ^ 64)
    (hnc : ¬ HashCollision Concrete.env cs') (hng : ¬ GeneratorCoincidenceRaw Concrete.env cs')
    (h : blindProofVerify Concrete.env cs' (π.map vS v1) pk.1 header ph L dmsgs dcmsgs di dci
      = .ok ())
    (h' : blindProofVerify Concrete.env cs' (π.map vS v1) pk'.1 header' ph' L' dmsgs' dcmsgs' di'
      dci' = .ok ()) :
    L.getD 0 = L'.getD 0 := by
  by_contra hL
  rcases concrete_blind_proof_L_binding hH hP cs' hcs π pk pk' header header' ph ph' L L' dmsgs
    dmsgs' dcmsgs dcmsgs' di di' dci dci' hsz hsz' h h' hL with x | x
  · exact hnc x
  · exact hng x

/-- The hypotheses on the suite hold for both generated suites (here: every single-bit flip of an
encoded proof accepted by the executable `proof_verify` of the SHA-256 suite). -/
example (hH : HashInSub) (hP : PairingHyp) (cs' : Suite G1Pt) (h : Concrete.shaSuite? = some cs')
    (π : PoKSignature FrR G1Sub) (pk : G2Sub) (dmsgs : Option (List Bytes))
    (di : Option (List Nat)) (header ph : Option Bytes)
    (hsz : π.mCap.length + (sortDedup (di.getD [])).length + 1 ≤ 2 ^ 64)
    (hv : proofVerify Concrete.env cs' (π.map vS v1) pk.1 dmsgs di header ph = .ok ())
    (i : Nat) (hi : i < 8 * (272 + 32 * π.mCap.length)) :
    PoKSignature.fromBytes Concrete.env
        (C04Bytes.flipBit i ((π.map vS v1).toBytes Concrete.env)) = .err ∨
      ∃ π'', PoKSignature.fromBytes Concrete.env
          (C04Bytes.flipBit i ((π.map vS v1).toBytes Concrete.env)) = .ok π'' ∧
        π'' ≠ π.map vS v1 ∧
        (proofVerify Concrete.env cs' π'' pk.1 dmsgs di header ph = .ok () →
          ApiChangeVerdictC cs' (π.map vS v1) π'' di) :=
  concrete_proofVerify_bitflip hH hP cs' (shaSuite_consts cs' h).1 π pk dmsgs di header ph hsz hv i hi

end Zk.Bridge2
