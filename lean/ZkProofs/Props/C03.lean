/-
C03  BBS proof completeness for every disclosure choice.

"For every valid signature and every choice of which message positions to disclose (none, any
subset, all), with any header and presentation header, proof generation succeeds and the proof,
also after an encode/decode round trip, verifies when the verifier is given exactly the disclosed
messages with their original positions, the header and the presentation header. The proof length
is 272 + 32 * (number of undisclosed messages) octets and reveals nothing else about message
count or sizes."

All theorems are about the L1 model (`ZkModel/L1/Bbs.lean`) instantiated with an arbitrary
field `S`, arbitrary `S`-modules and an arbitrary lawful environment. They hold for every key,
header, presentation header, message list (any length `L ≥ 0`, any message sizes), every list of
disclosed indexes (unsorted, with repetitions) and both ciphersuites (`cs` is arbitrary).

Hypotheses that are not part of the informal statement, and why they are there:
* `HashTotal env cs dst`: `hash_to_scalar` with the tag `dst = api_id ‖ "H2S_"` does not fail.
  The model's `env.expand` is an arbitrary partial function, so "proof generation succeeds"
  needs the challenge hash to succeed. For the real `expand_message` failure depends only on
  `dst` and the output length, and the same `dst` was already used successfully for `domain`.
* `r1 ≠ 0`, `r2 ≠ 0` (first two random scalars): `r2 = 0` makes generation fail
  (`coreProofGen_err_of_r2_zero`), `r1 = 0` yields `Abar = 0`, which every verifier rejects
  (`r1_zero_rejected`). Each happens with probability `1/r` for honest randomness.
* `sk ≠ 0`: with the degenerate key `sk = 0` one gets `Bbar = 0`, rejected by the verifier.
* `sk + e ≠ 0`, `A ≠ 0`: hold for every signature returned by `sign` (`C01.sign_A_ne_zero`).
-/
import ZkProofs.Lemmas.ProofCore
import ZkProofs.Props.C01
set_option linter.unusedSectionVars false
set_option linter.unusedVariables false
namespace Zk.C03
open Zk Res

variable {S G1 G2 GT : Type} [Field S] [DecidableEq S]
variable [AddCommGroup G1] [Module S G1] [DecidableEq G1]
variable [AddCommGroup G2] [Module S G2] [DecidableEq G2]
variable [AddCommGroup GT] [Module S GT]
variable {env : Env S G1 G2} {pair : G1 →ₗ[S] G2 →ₗ[S] GT}

/-! ### index bookkeeping (restated from `Lemmas/Index.lean`) -/

/-- The normal form of a disclosed-index list: strictly ascending, same members; and the
undisclosed positions are exactly the positions `< L` not disclosed, `L - R` many. -/
theorem disclosed_indexes_normal_form (L : Nat) (D : List Nat) (hD : ∀ i ∈ D, i < L) :
    (sortDedup D).Pairwise (· < ·) ∧ (∀ i, i ∈ sortDedup D ↔ i ∈ D) ∧
    (getRemainingIndexes L (sortDedup D)).Pairwise (· < ·) ∧
    (∀ i, i ∈ getRemainingIndexes L (sortDedup D) ↔ i < L ∧ i ∉ D) ∧
    (getRemainingIndexes L (sortDedup D)).length = L - (sortDedup D).length ∧
    (sortDedup D).length ≤ L :=
  ⟨sortDedup_sorted D, fun _ => mem_sortDedup, getRemainingIndexes_sorted _ _,
    fun i => by rw [mem_getRemainingIndexes, mem_sortDedup],
    length_getRemainingIndexes (sortDedup_nodup D) (fun i hi => hD i (mem_sortDedup.mp hi)),
    sortDedup_length_le hD⟩

/-- A tape of at least `5 + n` scalars, split as the code reads it. -/
theorem tape_shape (tape : List S) (n : Nat) (h : 5 + n ≤ tape.length) :
    ∃ r1 r2 eT r1T r3T mT, tape = r1 :: r2 :: eT :: r1T :: r3T :: mT ∧ n ≤ mT.length := by
  rcases tape with _ | ⟨r1, _ | ⟨r2, _ | ⟨eT, _ | ⟨r1T, _ | ⟨r3T, mT⟩⟩⟩⟩⟩ <;>
    simp only [List.length_cons, List.length_nil] at h <;> try omega
  exact ⟨r1, r2, eT, r1T, r3T, mT, rfl, by omega⟩

/-! ### core completeness -/

/-- **Core completeness.** Let `σ` be a signature that `coreVerify` accepts for `msgs` under the
key pair `(sk, sk • BP2)`. For every index list `D` (unsorted, duplicates allowed) with members
`< L`, and every tape of at least `5 + U` scalars whose first two entries are non-zero,
`coreProofGen` returns a proof `π`; `coreProofVerify` accepts `π` when given the messages at the
positions `D' = sortDedup D` (in ascending order) together with `D'`, the header and the
presentation header; `π` carries `U = L - |D'|` responses; its three points are not the identity
(so it survives the codec, see `proof_roundtrip`). -/
theorem core_proof_complete (hl : Lawful env pair) (cs : Suite G1) (sk : S) (σ : Signature S G1)
    (gens : Generators G1) (msgs : List S) (D : List Nat) (header ph apiId : Option Bytes)
    (tape : List S)
    (hver : coreVerify env cs (sk • env.bp2) σ msgs gens header apiId = .ok ())
    (hD : ∀ i ∈ D, i < msgs.length)
    (hsk : sk ≠ 0) (hA : σ.A ≠ 0) (hske : sk + σ.e ≠ 0)
    (htape : 5 + (msgs.length - (sortDedup D).length) ≤ tape.length)
    (hr1 : tape[0]? ≠ some 0) (hr2 : tape[1]? ≠ some 0)
    (hH : HashTotal env cs (apiId.getD [] ++ cs.h2s)) :
    ∃ π, coreProofGen env cs (sk • env.bp2) σ gens msgs D header ph apiId tape = .ok π ∧
      coreProofVerify env cs (sk • env.bp2) π gens header ph
          ((sortDedup D).map fun i => msgs.getD i 0) (sortDedup D) apiId = .ok () ∧
      π.mCap.length = msgs.length - (sortDedup D).length ∧
      π.Abar ≠ 0 ∧ π.Bbar ≠ 0 ∧ π.D ≠ 0 := by
  obtain ⟨Q1, Hs, domain, hv, hlen, hd, hsig⟩ :=
    (coreVerify_ok_iff hl cs sk σ msgs gens header apiId).mp hver
  obtain ⟨r1, r2, eT, r1T, r3T, mT, rfl, hmT⟩ := tape_shape tape _ htape
  exact coreProof_complete_explicit hl cs sk σ gens Q1 Hs msgs D header ph apiId r1 r2 eT r1T r3T mT
    domain hv hlen hd hsig hD hsk hA hske (by simpa using hr1) (by simpa using hr2) hmT hH

/-- The same with the algebraic hypothesis `(sk + e) • A = B` in place of `coreVerify`. -/
theorem core_proof_complete' (hl : Lawful env pair) (cs : Suite G1) (sk : S) (σ : Signature S G1)
    (gens : Generators G1) (Q1 : G1) (Hs : List G1) (msgs : List S) (D : List Nat)
    (header ph apiId : Option Bytes) (tape : List S) (domain : S)
    (hv : gens.values = Q1 :: Hs) (hlen : gens.values.length = msgs.length + 1)
    (hd : calculateDomain env cs (sk • env.bp2) Q1 Hs header apiId = .ok domain)
    (hsig : (sk + σ.e) • σ.A = calcB gens.base Q1 domain Hs msgs)
    (hD : ∀ i ∈ D, i < msgs.length)
    (hsk : sk ≠ 0) (hA : σ.A ≠ 0) (hske : sk + σ.e ≠ 0)
    (htape : 5 + (msgs.length - (sortDedup D).length) ≤ tape.length)
    (hr1 : tape[0]? ≠ some 0) (hr2 : tape[1]? ≠ some 0)
    (hH : HashTotal env cs (apiId.getD [] ++ cs.h2s)) :
    ∃ π, coreProofGen env cs (sk • env.bp2) σ gens msgs D header ph apiId tape = .ok π ∧
      coreProofVerify env cs (sk • env.bp2) π gens header ph
          ((sortDedup D).map fun i => msgs.getD i 0) (sortDedup D) apiId = .ok () ∧
      π.mCap.length = msgs.length - (sortDedup D).length ∧
      π.Abar ≠ 0 ∧ π.Bbar ≠ 0 ∧ π.D ≠ 0 :=
  core_proof_complete hl cs sk σ gens msgs D header ph apiId tape
    ((coreVerify_ok_iff hl cs sk σ msgs gens header apiId).mpr
      ⟨Q1, Hs, domain, hv, by rw [hv] at hlen; simpa using hlen, hd, hsig⟩)
    hD hsk hA hske htape hr1 hr2 hH

/-- The hypotheses of `core_proof_complete` are satisfiable whenever a verifying signature
exists: e.g. disclose nothing with a constant non-zero tape. -/
example (hl : Lawful env pair) (cs : Suite G1) (sk : S) (σ : Signature S G1)
    (gens : Generators G1) (msgs : List S) (header ph apiId : Option Bytes)
    (hver : coreVerify env cs (sk • env.bp2) σ msgs gens header apiId = .ok ())
    (hsk : sk ≠ 0) (hA : σ.A ≠ 0) (hske : sk + σ.e ≠ 0)
    (hH : HashTotal env cs (apiId.getD [] ++ cs.h2s)) :
    ∃ π, coreProofGen env cs (sk • env.bp2) σ gens msgs [] header ph apiId
        (List.replicate (5 + msgs.length) 1) = .ok π :=
  (core_proof_complete hl cs sk σ gens msgs [] header ph apiId _ hver (by simp) hsk hA hske
    (by simp) (by rw [List.getElem?_replicate]; split <;> simp)
    (by rw [List.getElem?_replicate]; split <;> simp) hH).imp fun _ h => h.1

/-- `r1 = 0` is the one tape defect that generation does not catch: the proof is returned but
has `Abar = 0`, and `coreProofVerify` rejects every such proof whatever else it is given. -/
theorem r1_zero_rejected (hl : Lawful env pair) (cs : Suite G1) (pk : G2) (σ : Signature S G1)
    (gens : Generators G1) (Q1 : G1) (Hs : List G1) (msgs : List S) (D : List Nat)
    (header ph apiId : Option Bytes) (r2 eT r1T r3T : S) (mT : List S) (domain : S)
    (hv : gens.values = Q1 :: Hs) (hlen : Hs.length = msgs.length)
    (hd : calculateDomain env cs pk Q1 Hs header apiId = .ok domain)
    (hD : ∀ i ∈ D, i < msgs.length) (hr2 : r2 ≠ 0)
    (hmT : msgs.length - (sortDedup D).length ≤ mT.length)
    (hH : HashTotal env cs (apiId.getD [] ++ cs.h2s)) :
    ∃ π, coreProofGen env cs pk σ gens msgs D header ph apiId (0 :: r2 :: eT :: r1T :: r3T :: mT)
        = .ok π ∧ π.Abar = 0 ∧
      ∀ pk' gens' header' ph' dm di apiId',
        coreProofVerify env cs pk' π gens' header' ph' dm di apiId' = .err := by
  obtain ⟨c, _, hgen⟩ := coreProofGen_ok hl cs pk σ gens Q1 Hs msgs D header ph apiId
    0 r2 eT r1T r3T mT domain hv hlen hd hD hr2 hmT hH
  refine ⟨_, hgen, by simp, ?_⟩
  intro pk' gens' header' ph' dm di apiId'
  unfold coreProofVerify proofVerifyInit
  simp

/-! ### failure characterisation -/

/-- A disclosed index `≥ L` makes `coreProofGen` return `Err` — never a panic. -/
theorem coreProofGen_err_of_bad_index (cs : Suite G1) (pk : G2) (σ : Signature S G1)
    (gens : Generators G1) (msgs : List S) (D : List Nat) (header ph apiId : Option Bytes)
    (tape : List S) (hg : gens.values.length = msgs.length + 1)
    (hbad : ∃ i ∈ D, msgs.length ≤ i) :
    coreProofGen env cs pk σ gens msgs D header ph apiId tape = .err :=
  Zk.coreProofGen_err_of_bad_index cs pk σ gens msgs D header ph apiId tape hg hbad

/-- `r2 = 0` makes `coreProofGen` return `Err` (for any index list, in range or not). -/
theorem coreProofGen_err_of_r2_zero (hl : Lawful env pair) (cs : Suite G1) (pk : G2)
    (σ : Signature S G1) (gens : Generators G1) (msgs : List S) (D : List Nat)
    (header ph apiId : Option Bytes) (tape : List S)
    (hg : gens.values.length = msgs.length + 1)
    (htape : 5 + (msgs.length - (sortDedup D).length) ≤ tape.length)
    (hr2 : tape[1]? = some 0) :
    coreProofGen env cs pk σ gens msgs D header ph apiId tape = .err := by
  obtain ⟨r1, r2, eT, r1T, r3T, mT, rfl, hmT⟩ := tape_shape tape _ htape
  obtain rfl : r2 = 0 := by simpa using hr2
  exact Zk.coreProofGen_err_of_r2_zero hl cs pk σ gens msgs D header ph apiId r1 eT r1T r3T mT hg hmT

/-- `Signature.fromBytes` and `messagesToScalar` never panic. -/
theorem Signature.fromBytes_ne_panic (b : Bytes) :
    Signature.fromBytes (S := S) (G1 := G1) env b ≠ .panic := by
  intro hσ
  unfold Signature.fromBytes at hσ
  split at hσ
  · cases hσ
  · split at hσ
    · cases hσ
    · split at hσ
      · cases hσ
      · split at hσ <;> cases hσ

theorem messagesToScalar_ne_panic (cs : Suite G1) (msgs : List Bytes) (apiId : Bytes) :
    messagesToScalar env cs msgs apiId ≠ .panic := by
  intro hm
  unfold messagesToScalar at hm
  induction msgs with
  | nil => cases hm
  | cons a l ih =>
    simp only [mapRes] at hm
    split at hm
    · split at hm
      · cases hm
      · cases hm
      · rename_i h; exact ih h
    · cases hm
    · rename_i h; exact hashToScalar_ne_panic cs _ _ h

/-- What `proofGen` does before calling `coreProofGen`: it fails with `Err` (bad signature
octets, a failing message hash), or generator creation panics, or it hands over to
`coreProofGen` with `L` scalars and `L + 1` generators. -/
theorem proofGen_cases (cs : Suite G1) (pk : G2) (signature : Bytes)
    (header ph : Option Bytes) (msgs : List Bytes) (D : List Nat) (tape : List S) :
    proofGen env cs pk signature header ph (some msgs) (some D) tape = .err ∨
      (Generators.create env cs (msgs.length + 1) (some cs.apiId) = .panic ∧
        proofGen env cs pk signature header ph (some msgs) (some D) tape = .panic) ∨
      ∃ σ ms gens, Signature.fromBytes env signature = .ok σ ∧
        messagesToScalar env cs msgs cs.apiId = .ok ms ∧
        Generators.create env cs (msgs.length + 1) (some cs.apiId) = .ok gens ∧
        ms.length = msgs.length ∧ gens.values.length = ms.length + 1 ∧
        proofGen env cs pk signature header ph (some msgs) (some D) tape
          = coreProofGen env cs pk σ gens ms D header ph (some cs.apiId) tape := by
  unfold proofGen
  cases hσ : Signature.fromBytes env signature with
  | err => exact Or.inl rfl
  | panic => exact absurd hσ (Signature.fromBytes_ne_panic _)
  | ok σ =>
    simp only [Option.getD_some]
    cases hm : messagesToScalar env cs msgs cs.apiId with
    | err => exact Or.inl rfl
    | panic => exact absurd hm (messagesToScalar_ne_panic cs _ _)
    | ok ms =>
      simp only []
      have hlen := (mapRes_ok_getD _ [] (0 : S) _ _ hm).1
      cases hg : Generators.create env cs (msgs.length + 1) (some cs.apiId) with
      | err => exact Or.inl rfl
      | panic => exact Or.inr (Or.inl ⟨rfl, rfl⟩)
      | ok gens =>
        exact Or.inr (Or.inr ⟨σ, ms, gens, rfl, rfl, rfl, hlen,
          by rw [(Generators.create_ok cs _ _ gens hg).1, hlen], rfl⟩)

/-- API level: `proofGen` with a disclosed index `≥ L` never returns a proof; it returns `Err`
unless generator creation panics (which does not depend on the indexes). -/
theorem proofGen_err_of_bad_index (cs : Suite G1) (pk : G2) (signature : Bytes)
    (header ph : Option Bytes) (msgs : List Bytes) (D : List Nat) (tape : List S)
    (hbad : ∃ i ∈ D, msgs.length ≤ i) :
    proofGen env cs pk signature header ph (some msgs) (some D) tape = .err ∨
      (Generators.create env cs (msgs.length + 1) (some cs.apiId) = .panic ∧
        proofGen env cs pk signature header ph (some msgs) (some D) tape = .panic) := by
  rcases proofGen_cases cs pk signature header ph msgs D tape with h | h | h
  · exact Or.inl h
  · exact Or.inr h
  · obtain ⟨σ, ms, gens, _, _, _, hlen, hg, heq⟩ := h
    left
    rw [heq]
    exact Zk.coreProofGen_err_of_bad_index cs pk σ gens ms D header ph _ tape hg
      (by rw [hlen]; exact hbad)

/-- API level: a tape with `r2 = 0` never yields a proof (same shape as above). -/
theorem proofGen_err_of_r2_zero (hl : Lawful env pair) (cs : Suite G1) (pk : G2)
    (signature : Bytes) (header ph : Option Bytes) (msgs : List Bytes) (D : List Nat)
    (tape : List S)
    (htape : 5 + (msgs.length - (sortDedup D).length) ≤ tape.length)
    (hr2 : tape[1]? = some 0) :
    proofGen env cs pk signature header ph (some msgs) (some D) tape = .err ∨
      (Generators.create env cs (msgs.length + 1) (some cs.apiId) = .panic ∧
        proofGen env cs pk signature header ph (some msgs) (some D) tape = .panic) := by
  rcases proofGen_cases cs pk signature header ph msgs D tape with h | h | h
  · exact Or.inl h
  · exact Or.inr h
  · obtain ⟨σ, ms, gens, _, _, _, hlen, hg, heq⟩ := h
    left
    rw [heq]
    exact coreProofGen_err_of_r2_zero hl cs pk σ gens ms D header ph _ tape hg
      (by rw [hlen]; exact htape) hr2

/-! ### API-level completeness -/

/-- **Completeness of `proof_gen` / `proof_verify`.** If `verify` accepts `σ` for `msgs` and
`header`, then for every disclosure choice `D ⊆ [0, L)` and every good tape `proofGen` (fed the
80-byte encoding of `σ`) returns a proof `π` that `proofVerify` accepts when given the messages
at the positions `D' = sortDedup D`, the indexes (as `D'`, or as the original unsorted `D`), the
same header and presentation header; the same holds for the proof decoded from `π`'s encoding,
which is `272 + 32 * (L - |D'|)` octets long. -/
theorem proof_complete (hl : Lawful env pair) (cs : Suite G1) (sk : S) (σ : Signature S G1)
    (msgs : List Bytes) (D : List Nat) (header ph : Option Bytes) (tape : List S)
    (hver : verify env cs σ (sk • env.bp2) (some msgs) header = .ok ())
    (hD : ∀ i ∈ D, i < msgs.length)
    (hsk : sk ≠ 0) (hA : σ.A ≠ 0) (he : σ.e ≠ 0) (hske : sk + σ.e ≠ 0)
    (htape : 5 + (msgs.length - (sortDedup D).length) ≤ tape.length)
    (hr1 : tape[0]? ≠ some 0) (hr2 : tape[1]? ≠ some 0)
    (hH : HashTotal env cs (cs.apiId ++ cs.h2s)) :
    ∃ π, proofGen env cs (sk • env.bp2) (σ.toBytes env) header ph (some msgs) (some D) tape
          = .ok π ∧
      proofVerify env cs π (sk • env.bp2) (some ((sortDedup D).map fun i => msgs.getD i []))
          (some (sortDedup D)) header ph = .ok () ∧
      proofVerify env cs π (sk • env.bp2) (some ((sortDedup D).map fun i => msgs.getD i []))
          (some D) header ph = .ok () ∧
      PoKSignature.fromBytes env (π.toBytes env) = .ok π ∧
      (π.toBytes env).length = 272 + 32 * (msgs.length - (sortDedup D).length) := by
  unfold verify at hver
  simp only [Option.getD_some] at hver
  cases hm : messagesToScalar env cs msgs cs.apiId with
  | err => rw [hm] at hver; cases hver
  | panic => rw [hm] at hver; cases hver
  | ok ms =>
    rw [hm] at hver; simp only [] at hver
    cases hg : Generators.create env cs (msgs.length + 1) (some cs.apiId) with
    | err => rw [hg] at hver; cases hver
    | panic => rw [hg] at hver; cases hver
    | ok gens =>
      rw [hg] at hver; simp only [] at hver
      have hlen : ms.length = msgs.length := (mapRes_ok_getD _ [] (0 : S) _ _ hm).1
      obtain ⟨π, hgen, hvfy, hU, hAbar, hBbar, hDp⟩ :=
        core_proof_complete hl cs sk σ gens ms D header ph (some cs.apiId) tape hver
          (by rw [hlen]; exact hD) hsk hA hske (by rw [hlen]; exact htape) hr1 hr2
          (by simpa using hH)
      have hR : (sortDedup D).length ≤ msgs.length := sortDedup_length_le hD
      have hdm : messagesToScalar env cs ((sortDedup D).map fun i => msgs.getD i []) cs.apiId
          = .ok ((sortDedup D).map fun i => ms.getD i 0) :=
        mapRes_map_getD _ [] (0 : S) msgs ms hm _ (fun i hi => hD i (mem_sortDedup.mp hi))
      have hcount : π.mCap.length + (sortDedup D).length + 1 = msgs.length + 1 := by
        rw [hU, hlen]; omega
      have hpv : proofVerify env cs π (sk • env.bp2)
          (some ((sortDedup D).map fun i => msgs.getD i [])) (some (sortDedup D)) header ph
          = .ok () := by
        unfold proofVerify
        simp only [Option.getD_some, sortDedup_idem, hdm, hcount, hg]
        exact hvfy
      refine ⟨π, ?_, hpv, ?_, PoKSignature.fromBytes_toBytes hl π hAbar hBbar hDp, ?_⟩
      · unfold proofGen
        rw [(C01.sig_roundtrip hl σ hA he).2]
        simp only [Option.getD_some, hm, hg]
        exact hgen
      · unfold proofVerify at hpv ⊢
        simp only [Option.getD_some, sortDedup_idem] at hpv ⊢
        exact hpv
      · rw [PoKSignature.toBytes_length hl π, hU, hlen]

/-! ### proof length and codec -/

/-- **Proof length.** The encoding of any proof is `272 + 32 * U` octets, `U` the number of
responses; nothing else about the messages (their number, their sizes) influences it. -/
theorem proof_len (hl : Lawful env pair) (π : PoKSignature S G1) :
    (π.toBytes env).length = 272 + 32 * π.mCap.length :=
  PoKSignature.toBytes_length hl π

/-- Every proof returned by `coreProofGen` has `U = L - |sortDedup D|` responses, i.e. is
`272 + 32 * (L - R)` octets long (no hypotheses on keys, signature or tape contents). -/
theorem proof_gen_len (hl : Lawful env pair) (cs : Suite G1) (pk : G2) (σ : Signature S G1)
    (gens : Generators G1) (msgs : List S) (D : List Nat) (header ph apiId : Option Bytes)
    (tape : List S) (π : PoKSignature S G1)
    (h : coreProofGen env cs pk σ gens msgs D header ph apiId tape = .ok π) :
    π.mCap.length = msgs.length - (sortDedup D).length ∧
      (π.toBytes env).length = 272 + 32 * (msgs.length - (sortDedup D).length) := by
  suffices hU : π.mCap.length = msgs.length - (sortDedup D).length from
    ⟨hU, by rw [PoKSignature.toBytes_length hl π, hU]⟩
  unfold coreProofGen at h
  simp only [] at h
  split at h
  · cases h
  split at h
  · cases h
  split at h
  · cases h
  rename_i hR
  split at h
  · cases h
  rename_i hany
  have hdi : ∀ i ∈ sortDedup D, i < msgs.length := by
    intro i hi
    simp only [List.any_eq_true, decide_eq_true_eq, not_exists, not_and] at hany
    have := hany i hi
    have := List.length_pos_of_mem hi
    omega
  have hUlen := length_getRemainingIndexes (sortDedup_nodup D) hdi
  cases hdm : getMessages msgs (sortDedup D) with
  | err => rw [hdm] at h; cases h
  | panic => rw [hdm] at h; cases h
  | ok dms =>
    rw [hdm] at h; simp only [] at h
    cases hum : getMessages msgs (getRemainingIndexes msgs.length (sortDedup D)) with
    | err => rw [hum] at h; cases h
    | panic => rw [hum] at h; cases h
    | ok ums =>
      rw [hum] at h; simp only [] at h
      have humlen := getMessages_length _ _ _ hum
      cases hi : proofInit env cs pk σ gens
          (List.take (5 + (msgs.length - (sortDedup D).length)) tape) header msgs
          (getRemainingIndexes msgs.length (sortDedup D)) apiId with
      | err => rw [hi] at h; cases h
      | panic => rw [hi] at h; cases h
      | ok init =>
        rw [hi] at h; simp only [] at h
        have hrs : (List.take (5 + (msgs.length - (sortDedup D).length)) tape).length
            = 5 + (msgs.length - (sortDedup D).length) := by
          unfold proofInit at hi
          simp only [] at hi
          split at hi
          · cases hi
          · rename_i hne; rw [hUlen] at hne; exact not_not.mp hne
        cases hc : proofChallengeCalculate env cs init (sortDedup D) dms ph apiId with
        | err => rw [hc] at h; cases h
        | panic => rw [hc] at h; cases h
        | ok c =>
          rw [hc] at h; simp only [] at h
          obtain ⟨r1, r2, eT, r1T, r3T, mT, hshape, _⟩ := tape_shape _ _ (Nat.le_of_eq hrs.symm)
          rw [hshape] at h hrs
          unfold proofFinalize at h
          simp only [] at h
          split at h
          · cases h
          · split at h
            · cases h
            · cases h
              simp only [List.length_map, List.length_zip, humlen, hUlen]
              simp only [List.length_cons] at hrs
              omega

/-- **Codec round trip.** A proof whose three points are not the identity (true of every proof
produced under the hypotheses of `core_proof_complete`, and required by every verifier) decodes
from its encoding. -/
theorem proof_roundtrip (hl : Lawful env pair) (π : PoKSignature S G1)
    (hA : π.Abar ≠ 0) (hB : π.Bbar ≠ 0) (hD : π.D ≠ 0) :
    PoKSignature.fromBytes env (π.toBytes env) = .ok π :=
  PoKSignature.fromBytes_toBytes hl π hA hB hD

/-! ### absent = empty -/

/-- **Absent = empty** for messages and disclosed indexes of `proofGen` / `proofVerify`. -/
theorem proof_absent_eq_empty (cs : Suite G1) (pk : G2) (signature : Bytes)
    (header ph : Option Bytes) (messages : Option (List Bytes)) (di : Option (List Nat))
    (tape : List S) (π : PoKSignature S G1) :
    proofGen env cs pk signature header ph none di tape
        = proofGen env cs pk signature header ph (some []) di tape ∧
    proofGen env cs pk signature header ph messages none tape
        = proofGen env cs pk signature header ph messages (some []) tape ∧
    proofVerify env cs π pk none di header ph = proofVerify env cs π pk (some []) di header ph ∧
    proofVerify env cs π pk messages none header ph
        = proofVerify env cs π pk messages (some []) header ph :=
  ⟨rfl, rfl, rfl, rfl⟩

theorem proofChallengeCalculate_ph_none (cs : Suite G1) (init : ProofInitResult S G1)
    (di : List Nat) (dm : List S) (apiId : Option Bytes) :
    proofChallengeCalculate env cs init di dm none apiId
      = proofChallengeCalculate env cs init di dm (some []) apiId := rfl

/-- **Absent = empty** for the header and the presentation header. -/
theorem proof_header_ph_absent_eq_empty (cs : Suite G1) (pk : G2) (signature : Bytes)
    (header ph : Option Bytes) (messages : Option (List Bytes)) (di : Option (List Nat))
    (tape : List S) (π : PoKSignature S G1) :
    proofGen env cs pk signature none ph messages di tape
        = proofGen env cs pk signature (some []) ph messages di tape ∧
    proofGen env cs pk signature header none messages di tape
        = proofGen env cs pk signature header (some []) messages di tape ∧
    proofVerify env cs π pk messages di none ph
        = proofVerify env cs π pk messages di (some []) ph ∧
    proofVerify env cs π pk messages di header none
        = proofVerify env cs π pk messages di header (some []) := by
  refine ⟨?_, ?_, ?_, ?_⟩
  · unfold proofGen coreProofGen proofInit
    simp only [C01.calculateDomain_header_none]
  · unfold proofGen coreProofGen
    simp only [proofChallengeCalculate_ph_none]
  · unfold proofVerify coreProofVerify proofVerifyInit
    simp only [C01.calculateDomain_header_none]
  · unfold proofVerify coreProofVerify
    simp only [proofChallengeCalculate_ph_none]

end Zk.C03
