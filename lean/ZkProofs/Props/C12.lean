/-
C12  Signature update over any history.

"Starting from any valid signature, after any sequence of single-message updates at any
positions with any new values, the current signature verifies for the current message vector
and header and equals the signature the key holder would obtain for that vector with the same
exponent; it does not verify for any earlier, different vector. An update with an out-of-range
position is refused with an error, and an update that states a wrong old value never yields a
signature that verifies for the intended new vector."

All theorems are about the L1 model (`updateSignature`, `verify`, `sign` of
`ZkModel/L1/Bbs.lean`) for an arbitrary field of scalars, arbitrary modules, an arbitrary lawful
environment, arbitrary hash functions, any number of messages `n`, any position, any octet
strings, both ciphersuites (`cs` arbitrary).

The code refuses (returns `Err`) in three situations that the prose does not mention, and the
theorems say so explicitly:
* `n = usize::MAX` (guard, so that `n + 1` cannot overflow);
* `sk + e = 0` (no inverse) — impossible for a signature produced by `sign`;
* the updated point `A' = (sk+e)⁻¹ • B(new vector)` is the identity, i.e. `B(new vector) = 0`
  (a discrete-log relation among the generators); see `update_step_B_zero`.
-/
import ZkProofs.Lemmas.Update
import ZkProofs.Props.C01
set_option linter.unusedSectionVars false
set_option linter.unusedVariables false
namespace Zk.C12
open Zk Res Zk.Upd

variable {S G1 G2 GT : Type} [Field S] [DecidableEq S]
variable [AddCommGroup G1] [Module S G1] [DecidableEq G1]
variable [AddCommGroup G2] [Module S G2] [DecidableEq G2]
variable [AddCommGroup GT] [Module S GT]
variable {env : Env S G1 G2} {pair : G1 →ₗ[S] G2 →ₗ[S] GT}

/-! ### the list lemma and one step -/

/-- `B(ms[i := x]) = B(ms) + (x − msᵢ) • Hᵢ`, for every domain scalar. -/
theorem calcB_set (base Q1 : G1) (d : S) (Hs : List G1) (ms : List S) (i : Nat) (x : S)
    (h1 : i < Hs.length) (h2 : i < ms.length) :
    calcB base Q1 d Hs (ms.set i x) = calcB base Q1 d Hs ms + (x - ms[i]) • Hs[i] :=
  Upd.calcB_set base Q1 d Hs ms i x h1 h2

/-- **One update.** Let the generators for `n` messages be `⟨base, Q1 :: Hs⟩`, let `σ` satisfy
the verification equation `(sk+e) • A = B(ms)` for a scalar vector `ms` of length `n` and ANY
domain scalar `d` (the domain does not change under an update: generators, header, public key
and api id are the same), let `i < n`, let the stated old message map to `msᵢ` and the new one to
`newS`. If `sk + e ≠ 0` and `B(ms[i := newS]) ≠ 0`, then `updateSignature` returns
`⟨(sk+e)⁻¹ • B(ms[i := newS]), e⟩` — exactly `coreSign`'s `A` for the new vector with the
same `e` — and this satisfies the verification equation for the new vector. -/
theorem update_step (hl : Lawful env pair) (cs : Suite G1) (sk : S) (σ : Signature S G1)
    (old new : Bytes) (i n : Nat) (base Q1 : G1) (Hs : List G1) (ms : List S) (oldS newS d : S)
    (hn : n ≠ 2 ^ 64 - 1) (hi : i < n)
    (hg : Generators.create env cs (n + 1) (some cs.apiId) = .ok ⟨base, Q1 :: Hs⟩)
    (hms : ms.length = n)
    (ho : mapMessageToScalarAsHash env cs old cs.apiId = .ok oldS)
    (hnw : mapMessageToScalarAsHash env cs new cs.apiId = .ok newS)
    (hold : ms[i]? = some oldS)
    (hz : sk + σ.e ≠ 0)
    (hA : (sk + σ.e) • σ.A = calcB base Q1 d Hs ms)
    (hB' : calcB base Q1 d Hs (ms.set i newS) ≠ 0) :
    Hs.length = n ∧
    updateSignature env cs σ sk old new i n
      = .ok ⟨(sk + σ.e)⁻¹ • calcB base Q1 d Hs (ms.set i newS), σ.e⟩ ∧
    (sk + σ.e) • ((sk + σ.e)⁻¹ • calcB base Q1 d Hs (ms.set i newS))
      = calcB base Q1 d Hs (ms.set i newS) := by
  have hlen : Hs.length = n := by
    have := Generators.create_length env cs _ _ _ hg
    simpa using this
  have h1 : i < Hs.length := by omega
  have h2 : i < ms.length := by omega
  have hmi : ms[i] = oldS := by
    rw [List.getElem?_eq_getElem h2] at hold; exact Option.some.inj hold
  have hB : (sk + σ.e) • σ.A + oldS • (-Hs[i]) + newS • Hs[i]
      = calcB base Q1 d Hs (ms.set i newS) := by
    rw [hA, Upd.calcB_set base Q1 d Hs ms i newS h1 h2, hmi]; module
  refine ⟨hlen, ?_, by rw [smul_smul, mul_inv_cancel₀ hz, one_smul]⟩
  refine (updateSignature_ok_iff env cs σ _ sk old new i n).mpr
    ⟨hn, hi, ⟨base, Q1 :: Hs⟩, oldS, newS, Hs[i], (sk + σ.e)⁻¹, hg, ho, hnw, ?_,
      hl.sInv_ne _ hz, ?_, ?_⟩
  · simp [List.getElem?_eq_getElem h1]
  · rw [hB]
    intro h0
    rcases smul_eq_zero_field h0 with h | h
    · exact hz (inv_eq_zero.mp h)
    · exact hB' h
  · rw [hB]

/-- The refusal the prose does not mention: when `B` of the new vector is the identity the
code returns `Err` ("A == IDENTITY G1"). -/
theorem update_step_B_zero (hl : Lawful env pair) (cs : Suite G1) (sk : S) (σ : Signature S G1)
    (old new : Bytes) (i n : Nat) (base Q1 : G1) (Hs : List G1) (ms : List S) (oldS newS d : S)
    (hi : i < n)
    (hg : Generators.create env cs (n + 1) (some cs.apiId) = .ok ⟨base, Q1 :: Hs⟩)
    (hms : ms.length = n)
    (ho : mapMessageToScalarAsHash env cs old cs.apiId = .ok oldS)
    (hnw : mapMessageToScalarAsHash env cs new cs.apiId = .ok newS)
    (hold : ms[i]? = some oldS)
    (hA : (sk + σ.e) • σ.A = calcB base Q1 d Hs ms)
    (hB' : calcB base Q1 d Hs (ms.set i newS) = 0) :
    updateSignature env cs σ sk old new i n = .err := by
  have hlen : Hs.length = n := by
    have := Generators.create_length env cs _ _ _ hg
    simpa using this
  have h1 : i < Hs.length := by omega
  have h2 : i < ms.length := by omega
  have hmi : ms[i] = oldS := by
    rw [List.getElem?_eq_getElem h2] at hold; exact Option.some.inj hold
  have hB : (sk + σ.e) • σ.A + oldS • (-Hs[i]) + newS • Hs[i] = 0 := by
    rw [hA, ← hB', Upd.calcB_set base Q1 d Hs ms i newS h1 h2, hmi]; module
  cases hr : updateSignature env cs σ sk old new i n with
  | err => rfl
  | panic =>
    obtain ⟨_, _, hp⟩ := (updateSignature_panic_iff env cs σ sk old new i n).mp hr
    rw [hg] at hp; cases hp
  | ok σ' =>
    obtain ⟨_, _, gens, oS, nS, Hi, inv, hg', ho', hn', hH, _, hne, _⟩ :=
      (updateSignature_ok_iff env cs σ σ' sk old new i n).mp hr
    rw [hg] at hg'; cases hg'
    rw [ho] at ho'; cases ho'
    rw [hnw] at hn'; cases hn'
    have : Hi = Hs[i] := by
      simp [List.getElem?_eq_getElem h1] at hH; exact hH.symm
    subst this
    rw [hB, smul_zero] at hne
    exact absurd rfl hne

/-! ### histories -/

/-- A history of updates run on the model: each entry `(i, new)` replaces message `i` by `new`,
calling `updateSignature` with the CURRENT value at position `i` as the old message and the
current length as `n`. Threads the signature and the octet-string vector. -/
def applyUpdates (env : Env S G1 G2) (cs : Suite G1) (sk : S) :
    Signature S G1 → List Bytes → List (Nat × Bytes) → Res (Signature S G1 × List Bytes)
  | σ, msgs, [] => .ok (σ, msgs)
  | σ, msgs, (i, new) :: us =>
    match updateSignature env cs σ sk (msgs.getD i []) new i msgs.length with
    | .ok σ' => applyUpdates env cs sk σ' (msgs.set i new) us
    | .err => .err
    | .panic => .panic

/-- The message vector after a history. -/
def vecAfter : List Bytes → List (Nat × Bytes) → List Bytes
  | msgs, [] => msgs
  | msgs, (i, new) :: us => vecAfter (msgs.set i new) us

theorem vecAfter_length : ∀ (us : List (Nat × Bytes)) (msgs : List Bytes),
    (vecAfter msgs us).length = msgs.length := by
  intro us
  induction us with
  | nil => intro msgs; rfl
  | cons u us ih => intro msgs; obtain ⟨i, new⟩ := u; simp [vecAfter, ih]

/-- One honest update preserves validity: if `σ` verifies for `msgs` and header, and the update
of position `i` (old value = the current `msgs[i]`) returns `σ'`, then `σ'` has the same `e`
and verifies for `msgs[i := new]` under the same header. -/
theorem update_preserves_verify (hl : Lawful env pair) (cs : Suite G1) (sk : S)
    (σ σ' : Signature S G1) (msgs : List Bytes) (header : Option Bytes) (i : Nat) (new : Bytes)
    (hv : verify env cs σ (skToPk env sk) (some msgs) header = .ok ())
    (hu : updateSignature env cs σ sk (msgs.getD i []) new i msgs.length = .ok σ') :
    σ'.e = σ.e ∧ sk + σ.e ≠ 0 ∧ σ'.A ≠ 0 ∧
      verify env cs σ' (skToPk env sk) (some (msgs.set i new)) header = .ok () := by
  simp only [skToPk] at *
  obtain ⟨ms, Q1, Hs, d, hm, hg, hlen, hml, hd, heq⟩ :=
    (verify_ok_iff hl cs sk σ msgs header).mp hv
  obtain ⟨hn, hi, gens, oldS, newS, Hi, inv, hg', ho, hnw, hH, hinv, hne, rfl⟩ :=
    (updateSignature_ok_iff env cs σ σ' sk _ new i msgs.length).mp hu
  rw [hg] at hg'; cases hg'
  have h1 : i < Hs.length := by omega
  have h2 : i < ms.length := by omega
  have hHi : Hi = Hs[i] := by
    simp [List.getElem?_eq_getElem h1] at hH; exact hH.symm
  subst hHi
  have hz : sk + σ.e ≠ 0 := by
    intro h0; rw [h0, hl.sInv_zero] at hinv; cases hinv
  rw [hl.sInv_ne _ hz] at hinv; cases hinv
  have hold : oldS = ms[i] := by
    have := messagesToScalar_getElem env cs msgs cs.apiId ms hm i hi h2
    have hgd : msgs.getD i [] = msgs[i] := by simp [List.getD, List.getElem?_eq_getElem hi]
    rw [hgd, this] at ho; cases ho; rfl
  subst hold
  refine ⟨rfl, hz, hne, ?_⟩
  refine (verify_ok_iff hl cs sk _ (msgs.set i new) header).mpr
    ⟨ms.set i newS, Q1, Hs, d, messagesToScalar_set env cs msgs cs.apiId ms hm i new newS hnw,
      by simpa using hg, by simpa using hlen, by simpa using hml, hd, ?_⟩
  exact update_algebra cs.p1 Q1 d Hs ms i newS (sk + σ.e) σ.A h1 h2 hz heq

/-- **Any history.** Starting from a signature that verifies for `msgs₀` and `header`, if the
whole history runs through (`applyUpdates … = ok (σ, msgs)`; the only possible refusals are
listed in `update_history_ok`), then `msgs` is the updated vector, the exponent is unchanged and
the current signature verifies for the current vector and the same header. -/
theorem update_history (hl : Lawful env pair) (cs : Suite G1) (sk : S) (header : Option Bytes) :
    ∀ (us : List (Nat × Bytes)) (σ₀ : Signature S G1) (msgs₀ : List Bytes) (σ : Signature S G1)
      (msgs : List Bytes),
      verify env cs σ₀ (skToPk env sk) (some msgs₀) header = .ok () →
      applyUpdates env cs sk σ₀ msgs₀ us = .ok (σ, msgs) →
      msgs = vecAfter msgs₀ us ∧ msgs.length = msgs₀.length ∧ σ.e = σ₀.e ∧
        verify env cs σ (skToPk env sk) (some msgs) header = .ok () := by
  intro us
  induction us with
  | nil =>
    intro σ₀ msgs₀ σ msgs hv h
    simp only [applyUpdates] at h
    cases h
    exact ⟨rfl, rfl, rfl, hv⟩
  | cons u us ih =>
    intro σ₀ msgs₀ σ msgs hv h
    obtain ⟨i, new⟩ := u
    simp only [applyUpdates] at h
    cases hu : updateSignature env cs σ₀ sk (msgs₀.getD i []) new i msgs₀.length with
    | err => rw [hu] at h; cases h
    | panic => rw [hu] at h; cases h
    | ok σ₁ =>
      rw [hu] at h; simp only at h
      obtain ⟨he, _, _, hv₁⟩ := update_preserves_verify hl cs sk σ₀ σ₁ msgs₀ header i new hv hu
      obtain ⟨r1, r2, r3, r4⟩ := ih σ₁ (msgs₀.set i new) σ msgs hv₁ h
      exact ⟨by simpa [vecAfter] using r1, by simpa using r2, by rw [r3, he], r4⟩

/-- Two signatures with the same exponent that verify for the same vector, header and key
(`sk + e ≠ 0`) are equal: the verification equation determines `A = (sk+e)⁻¹ • B`. -/
theorem verify_unique (hl : Lawful env pair) (cs : Suite G1) (sk : S) (σ σ' : Signature S G1)
    (msgs : List Bytes) (header : Option Bytes) (he : σ'.e = σ.e) (hz : sk + σ.e ≠ 0)
    (hv : verify env cs σ (skToPk env sk) (some msgs) header = .ok ())
    (hv' : verify env cs σ' (skToPk env sk) (some msgs) header = .ok ()) : σ' = σ := by
  simp only [skToPk] at *
  obtain ⟨ms, Q1, Hs, d, hm, hg, _, _, hd, heq⟩ := (verify_ok_iff hl cs sk σ msgs header).mp hv
  obtain ⟨ms', Q1', Hs', d', hm', hg', _, _, hd', heq'⟩ :=
    (verify_ok_iff hl cs sk σ' msgs header).mp hv'
  rw [hm] at hm'; cases hm'
  rw [hg] at hg'; cases hg'
  rw [hd] at hd'; cases hd'
  rw [he, ← heq] at heq'
  have hA : σ'.A = σ.A := by
    have := congrArg (fun P => (sk + σ.e)⁻¹ • P) heq'
    simpa [smul_smul, inv_mul_cancel₀ hz] using this
  cases σ; cases σ'; simp_all

/-- **The updated signature is the key holder's signature.** After any history, the current
signature equals whatever `sign` returns for the current vector and header, provided `sign`'s
hash produced the same exponent `e`; and in closed form `A = (sk+e)⁻¹ • B(current vector)`. -/
theorem update_history_eq_sign (hl : Lawful env pair) (cs : Suite G1) (sk : S)
    (header : Option Bytes) (us : List (Nat × Bytes)) (σ₀ σ σs : Signature S G1)
    (msgs₀ msgs : List Bytes)
    (hv : verify env cs σ₀ (skToPk env sk) (some msgs₀) header = .ok ())
    (h : applyUpdates env cs sk σ₀ msgs₀ us = .ok (σ, msgs))
    (hs : sign env cs (some msgs) sk (skToPk env sk) header = .ok σs) (he : σs.e = σ.e) :
    σs = σ := by
  obtain ⟨_, _, _, hvσ⟩ := update_history hl cs sk header us σ₀ msgs₀ σ msgs hv h
  have hvs := C01.sign_verify hl cs sk (some msgs) header σs hs
  have hz := (C01.sign_A_ne_zero hl cs sk _ (some msgs) header σs hs).2
  rw [he] at hz
  exact verify_unique hl cs sk σ σs msgs header he hz hvσ hvs

theorem update_history_closed_form (hl : Lawful env pair) (cs : Suite G1) (sk : S)
    (header : Option Bytes) (us : List (Nat × Bytes)) (σ₀ σ : Signature S G1)
    (msgs₀ msgs : List Bytes) (hz : sk + σ₀.e ≠ 0)
    (hv : verify env cs σ₀ (skToPk env sk) (some msgs₀) header = .ok ())
    (h : applyUpdates env cs sk σ₀ msgs₀ us = .ok (σ, msgs)) :
    ∃ ms Q1 Hs d, messagesToScalar env cs msgs cs.apiId = .ok ms ∧
      Generators.create env cs (msgs.length + 1) (some cs.apiId) = .ok ⟨cs.p1, Q1 :: Hs⟩ ∧
      calculateDomain env cs (skToPk env sk) Q1 Hs header (some cs.apiId) = .ok d ∧
      σ = ⟨(sk + σ₀.e)⁻¹ • calcB cs.p1 Q1 d Hs ms, σ₀.e⟩ := by
  obtain ⟨_, _, he, hvσ⟩ := update_history hl cs sk header us σ₀ msgs₀ σ msgs hv h
  simp only [skToPk] at *
  obtain ⟨ms, Q1, Hs, d, hm, hg, _, _, hd, heq⟩ := (verify_ok_iff hl cs sk σ msgs header).mp hvσ
  refine ⟨ms, Q1, Hs, d, hm, hg, hd, ?_⟩
  rw [he] at heq
  have hA : σ.A = (sk + σ₀.e)⁻¹ • calcB cs.p1 Q1 d Hs ms := by
    rw [← heq, smul_smul, inv_mul_cancel₀ hz, one_smul]
  cases σ; simp_all

/-- **When does a history run through?** From a signature valid for `msgs₀` with `sk + e ≠ 0`
and `n = |msgs₀| ≠ usize::MAX`, a history whose positions are all `< n` and whose new messages
all hash (the expander accepts them) runs through, PROVIDED that `B` of every intermediate
vector is non-zero — the code returns `Err` otherwise (`update_step_B_zero`). -/
theorem update_history_ok (hl : Lawful env pair) (cs : Suite G1) (sk : S) (header : Option Bytes) :
    ∀ (us : List (Nat × Bytes)) (σ₀ : Signature S G1) (msgs₀ : List Bytes),
      verify env cs σ₀ (skToPk env sk) (some msgs₀) header = .ok () →
      sk + σ₀.e ≠ 0 → msgs₀.length ≠ 2 ^ 64 - 1 →
      (∀ u ∈ us, u.1 < msgs₀.length ∧ ∃ s, mapMessageToScalarAsHash env cs u.2 cs.apiId = .ok s) →
      (∀ k, 0 < k → k ≤ us.length → ∀ ms Q1 Hs d,
        messagesToScalar env cs (vecAfter msgs₀ (us.take k)) cs.apiId = .ok ms →
        Generators.create env cs (msgs₀.length + 1) (some cs.apiId) = .ok ⟨cs.p1, Q1 :: Hs⟩ →
        calculateDomain env cs (skToPk env sk) Q1 Hs header (some cs.apiId) = .ok d →
        calcB cs.p1 Q1 d Hs ms ≠ 0) →
      ∃ σ, applyUpdates env cs sk σ₀ msgs₀ us = .ok (σ, vecAfter msgs₀ us) := by
  intro us
  induction us with
  | nil => intro σ₀ msgs₀ _ _ _ _ _; exact ⟨σ₀, rfl⟩
  | cons u us ih =>
    intro σ₀ msgs₀ hv hz hn hus hB
    obtain ⟨i, new⟩ := u
    obtain ⟨hi, newS, hnw⟩ := hus (i, new) (by simp)
    simp only at hi hnw
    simp only [skToPk] at hv hB
    obtain ⟨ms, Q1, Hs, d, hm, hg, hlen, hml, hd, heq⟩ :=
      (verify_ok_iff hl cs sk σ₀ msgs₀ header).mp hv
    have h2 : i < ms.length := by omega
    have hold := messagesToScalar_getElem env cs msgs₀ cs.apiId ms hm i hi h2
    have hgd : msgs₀.getD i [] = msgs₀[i] := by simp [List.getD, List.getElem?_eq_getElem hi]
    have hms' := messagesToScalar_set env cs msgs₀ cs.apiId ms hm i new newS hnw
    have hB1 := hB 1 (by omega) (by simp) (ms.set i newS) Q1 Hs d
      (by simpa [vecAfter] using hms') hg hd
    obtain ⟨_, hstep, _⟩ := update_step hl cs sk σ₀ msgs₀[i] new i msgs₀.length cs.p1 Q1 Hs ms
      ms[i] newS d hn hi hg hml hold hnw (by simp [List.getElem?_eq_getElem h2]) hz heq hB1
    simp only [applyUpdates, vecAfter]
    rw [hgd, hstep]
    simp only
    have hv₁ := (update_preserves_verify hl cs sk σ₀ _ msgs₀ header i new hv
      (by rw [hgd]; exact hstep)).2.2.2
    refine ih _ (msgs₀.set i new) hv₁ (by simpa using hz) (by simpa using hn) ?_ ?_
    · intro u hu
      have := hus u (by simp [hu])
      simpa using this
    · intro k hk0 hk ms' Q1' Hs' d' hm' hg' hd'
      refine hB (k + 1) (by omega) (by simp; omega) ms' Q1' Hs' d' ?_ (by simpa using hg')
        (by simpa [skToPk] using hd')
      simpa [vecAfter] using hm'

/-! ### earlier vectors -/

/-- **No earlier, different vector.** If one signature verifies (same key) for two different
message vectors of the same length — under the same or different headers — then either two
different octet strings hash to the same scalar, or two different scalar vectors (with their
domains) have the same `B` over the same generators. -/
theorem update_old_vector (hl : Lawful env pair) (cs : Suite G1) (sk : S) (σ : Signature S G1)
    (msgs msgs' : List Bytes) (header header' : Option Bytes)
    (hlen : msgs.length = msgs'.length) (hne : msgs ≠ msgs')
    (hv : verify env cs σ (skToPk env sk) (some msgs) header = .ok ())
    (hv' : verify env cs σ (skToPk env sk) (some msgs') header' = .ok ()) :
    HashCollision env cs ∨
    ∃ Q1 Hs d d' ms ms',
      Generators.create env cs (msgs.length + 1) (some cs.apiId) = .ok ⟨cs.p1, Q1 :: Hs⟩ ∧
      messagesToScalar env cs msgs cs.apiId = .ok ms ∧
      messagesToScalar env cs msgs' cs.apiId = .ok ms' ∧
      calculateDomain env cs (skToPk env sk) Q1 Hs header (some cs.apiId) = .ok d ∧
      calculateDomain env cs (skToPk env sk) Q1 Hs header' (some cs.apiId) = .ok d' ∧
      ms ≠ ms' ∧ BCollision cs.p1 Q1 Hs d d' ms ms' := by
  simp only [skToPk] at *
  obtain ⟨ms, Q1, Hs, d, hm, hg, _, _, hd, heq⟩ := (verify_ok_iff hl cs sk σ msgs header).mp hv
  obtain ⟨ms', Q1', Hs', d', hm', hg', _, _, hd', heq'⟩ :=
    (verify_ok_iff hl cs sk σ msgs' header').mp hv'
  rw [← hlen, hg] at hg'; cases hg'
  by_cases hmm : ms = ms'
  · subst hmm
    exact Or.inl (messagesToScalar_collision env cs msgs msgs' cs.apiId ms hlen hne hm hm')
  · refine Or.inr ⟨Q1, Hs, d, d', ms, ms', hg, hm, hm', hd, hd', hmm, ?_, ?_⟩
    · intro h; exact hmm (Prod.mk.inj h).2
    · rw [← heq, ← heq']

/-- Instance for histories: the current signature verifying for the vector of an earlier
point `j` of the history that differs from the current one yields a collision. -/
theorem update_history_old_vector (hl : Lawful env pair) (cs : Suite G1) (sk : S)
    (header : Option Bytes) (us : List (Nat × Bytes)) (σ₀ σ : Signature S G1)
    (msgs₀ msgs : List Bytes) (j : Nat)
    (hv : verify env cs σ₀ (skToPk env sk) (some msgs₀) header = .ok ())
    (h : applyUpdates env cs sk σ₀ msgs₀ us = .ok (σ, msgs))
    (hne : vecAfter msgs₀ (us.take j) ≠ msgs)
    (hold : verify env cs σ (skToPk env sk) (some (vecAfter msgs₀ (us.take j))) header = .ok ()) :
    HashCollision env cs ∨
    ∃ Q1 Hs d ms ms',
      Generators.create env cs (msgs.length + 1) (some cs.apiId) = .ok ⟨cs.p1, Q1 :: Hs⟩ ∧
      messagesToScalar env cs msgs cs.apiId = .ok ms ∧
      messagesToScalar env cs (vecAfter msgs₀ (us.take j)) cs.apiId = .ok ms' ∧
      ms ≠ ms' ∧ BCollision cs.p1 Q1 Hs d d ms ms' := by
  obtain ⟨_, hl', _, hvσ⟩ := update_history hl cs sk header us σ₀ msgs₀ σ msgs hv h
  have hlen : msgs.length = (vecAfter msgs₀ (us.take j)).length := by
    rw [vecAfter_length, hl']
  rcases update_old_vector hl cs sk σ msgs _ header header hlen (Ne.symm hne) hvσ hold with
    hc | ⟨Q1, Hs, d, d', ms, ms', hg, hm, hm', hd, hd', hmm, hb⟩
  · exact Or.inl hc
  · rw [hd] at hd'; cases hd'
    exact Or.inr ⟨Q1, Hs, d, ms, ms', hg, hm, hm', hmm, hb⟩

/-! ### refusals -/

/-- **Out-of-range position.** `update_index ≥ n` (any value, including `usize::MAX`, whose
`+ 1` would overflow) or `n = usize::MAX` gives `Err`; and `updateSignature` never panics
except when the guard passes and `Generators::create(n + 1)` itself panics (the expander
refusing the generator seed — which the fixed suite constants exclude). Holds for the bare
model, hence for every environment. -/
theorem update_bad_index (cs : Suite G1) (σ : Signature S G1) (sk : S) (old new : Bytes)
    (i n : Nat) :
    (n = 2 ^ 64 - 1 ∨ i ≥ n → updateSignature env cs σ sk old new i n = .err) ∧
    (updateSignature env cs σ sk old new i n = .panic ↔
      n ≠ 2 ^ 64 - 1 ∧ i < n ∧ Generators.create env cs (n + 1) (some cs.apiId) = .panic) :=
  ⟨updateSignature_bad_index env cs σ sk old new i n,
    updateSignature_panic_iff env cs σ sk old new i n⟩

/-- **Wrong old value.** `σ` verifies for `msgs`; the caller states an old message whose scalar
`oldS'` differs from the scalar of the true `msgs[i]`, and `H_i ≠ 0`. Then whatever
`updateSignature` returns does NOT verify for the intended vector `msgs[i := new]` (same
header): its `(sk+e) • A'` misses `B(intended)` by `(msᵢ − oldS') • Hᵢ ≠ 0`. Unconditional — no
hash or discrete-log assumption. -/
theorem update_wrong_old (hl : Lawful env pair) (cs : Suite G1) (sk : S) (σ σ' : Signature S G1)
    (msgs : List Bytes) (header : Option Bytes) (i : Nat) (old' new : Bytes) (oldS' s : S)
    (hi : i < msgs.length)
    (hv : verify env cs σ (skToPk env sk) (some msgs) header = .ok ())
    (ho' : mapMessageToScalarAsHash env cs old' cs.apiId = .ok oldS')
    (hs : mapMessageToScalarAsHash env cs msgs[i] cs.apiId = .ok s)
    (hne : oldS' ≠ s)
    (hH : ∀ gens Hi, Generators.create env cs (msgs.length + 1) (some cs.apiId) = .ok gens →
      gens.values.tail[i]? = some Hi → Hi ≠ 0)
    (hu : updateSignature env cs σ sk old' new i msgs.length = .ok σ') :
    verify env cs σ' (skToPk env sk) (some (msgs.set i new)) header ≠ .ok () := by
  intro hv'
  simp only [skToPk] at *
  obtain ⟨ms, Q1, Hs, d, hm, hg, hlen, hml, hd, heq⟩ :=
    (verify_ok_iff hl cs sk σ msgs header).mp hv
  obtain ⟨hn, _, gens, oldS, newS, Hi, inv, hg', ho, hnw, hHi, hinv, hA', rfl⟩ :=
    (updateSignature_ok_iff env cs σ σ' sk _ new i msgs.length).mp hu
  have hHne := hH gens Hi hg' hHi
  rw [hg] at hg'; cases hg'
  rw [ho'] at ho; cases ho
  have h1 : i < Hs.length := by omega
  have h2 : i < ms.length := by omega
  have hHi' : Hi = Hs[i] := by
    simp [List.getElem?_eq_getElem h1] at hHi; exact hHi.symm
  subst hHi'
  have hz : sk + σ.e ≠ 0 := by
    intro h0; rw [h0, hl.sInv_zero] at hinv; cases hinv
  rw [hl.sInv_ne _ hz] at hinv; cases hinv
  have hsi : ms[i] = s := by
    have := messagesToScalar_getElem env cs msgs cs.apiId ms hm i hi h2
    rw [this] at hs; cases hs; rfl
  obtain ⟨ms', Q1', Hs', d', hm', hg', _, _, hd', heq'⟩ :=
    (verify_ok_iff hl cs sk _ (msgs.set i new) header).mp hv'
  have hms' := messagesToScalar_set env cs msgs cs.apiId ms hm i new newS hnw
  rw [hms'] at hm'; cases hm'
  rw [List.length_set, hg] at hg'; cases hg'
  rw [hd] at hd'; cases hd'
  simp only at heq'
  rw [update_algebra_gen cs.p1 Q1 d Hs ms i oldS' newS (sk + σ.e) σ.A h1 h2 hz heq] at heq'
  have h0 : (ms[i] - oldS') • Hs[i] = 0 := by
    have := congrArg (fun P => P - calcB cs.p1 Q1 d Hs (ms.set i newS)) heq'
    simpa using this
  rcases smul_eq_zero_field h0 with h | h
  · exact hne (by rw [← hsi]; exact (sub_eq_zero.mp h).symm)
  · exact hHne h

/-- The algebraic core of `update_wrong_old`, without `verify`: the returned point misses the
verification equation of the intended vector by exactly `(msᵢ − oldS') • Hᵢ`. -/
theorem update_wrong_old_eq (base Q1 : G1) (d : S) (Hs : List G1) (ms : List S) (i : Nat)
    (oldS' newS k : S) (A : G1) (h1 : i < Hs.length) (h2 : i < ms.length) (hz : k ≠ 0)
    (hA : k • A = calcB base Q1 d Hs ms) (hne : oldS' ≠ ms[i]) (hH : Hs[i] ≠ 0) :
    k • (k⁻¹ • (k • A + oldS' • (-Hs[i]) + newS • Hs[i])) ≠ calcB base Q1 d Hs (ms.set i newS) := by
  rw [update_algebra_gen base Q1 d Hs ms i oldS' newS k A h1 h2 hz hA]
  intro h
  have h0 : (ms[i] - oldS') • Hs[i] = 0 := by
    have := congrArg (fun P => P - calcB base Q1 d Hs (ms.set i newS)) h
    simpa using this
  rcases smul_eq_zero_field h0 with h | h
  · exact hne (sub_eq_zero.mp h).symm
  · exact hH h

/-- A stated old message that differs from the true one as an octet string but maps to the
same scalar is a hash collision (and then the update is, algebraically, an honest one). -/
theorem update_wrong_old_collision (cs : Suite G1) (old old' : Bytes) (s : S) (hne : old' ≠ old)
    (h : mapMessageToScalarAsHash env cs old cs.apiId = .ok s)
    (h' : mapMessageToScalarAsHash env cs old' cs.apiId = .ok s) : HashCollision env cs :=
  ⟨old', old, cs.apiId ++ cs.mapMsgScalar, s, hne, h', h⟩

end Zk.C12
