/-
Property theorems for the CONCRETE, executable BLS12-381 instance `Zk.Concrete.env`, part 3
(parts 1, 2: `ZkProofs/Props/ConcreteBridge.lean`, `ConcreteBridge2.lean`; read their headers for the
conventions: runs of `Concrete.env` on raw records, inputs are images `s.1`, `p.1`, `π.map vS v1`, … of
elements of the subtypes, hypotheses `hH : HashInSub`, `hP : PairingHyp`, `SuiteOK cs'` only).

* C03: `concrete_proofGen_cases`, `concrete_proofGen_err_of_bad_index`, `_err_of_r2_zero`,
  `concrete_coreProofGen_err_of_bad_index`, `_err_of_r2_zero`, `concrete_decode_ne_panic`,
  `concrete_r1_zero_rejected`.
* C05: `concrete_commit_verify`, `concrete_commit_succeeds_and_verifies`, `concrete_commit_api_succeeds`,
  `concrete_commit_len`, `concrete_commit_accepted`, `concrete_blind_sign_ske_ne_zero`,
  `concrete_blind_generators_agree`, `concrete_blind_flow_complete`.
* C07: `concrete_tape_roles`, `_proof`, `_commit`, `_proofInit_length`, `concrete_proofInit_roles`,
  `concrete_coreCommit_roles`, `concrete_proofFinalize_roles`,
  `concrete_two_transcript_extraction_blind`, `_e`, `_r1`.
* C09: `concrete_rejects_wrong_length`, `concrete_rejects_identity`, `concrete_rejects_identity_pk_enc`,
  `concrete_trailing_changes`, `concrete_pk_octets_coords_agree` (arbitrary octets).
* C02: `concrete_verify_same_B`, `concrete_sig_half_tamper`, `concrete_sig_byteflip`,
  `concrete_sig_bytes_tamper`, `concrete_calcB_append_zeros`, `concrete_cross_suite`,
  `concrete_cross_interface`.
* C01 / C03 / C05 "absent = default": `raw_none_eq_default` (every instance of the core classes),
  `concrete_none_eq_default` (no hypothesis, arbitrary raw records).
* C12: `concrete_verify_unique`, `concrete_update_wrong_old_collision`.
* C08 / C10 / C11 theorems stated for the core classes only: `#concrete_instance` checks that each
  instantiates at `Fr`, `G1Pt`, `G2Pt`, `Concrete.env`.

The coverage of ALL abstract property theorems of C01–C12 by the three parts is tabulated in
`/verif/lean/bridge_coverage.tsv`.
-/
import ZkProofs.Props.ConcreteBridge2
import ZkProofs.Props.C04Bytes
import ZkProofs.Props.C06Bytes
import ZkProofs.Props.C08
set_option linter.unusedSectionVars false
set_option linter.unusedVariables false

namespace Zk.Bridge3
open Zk Zk.ConcreteScalar Zk.Codecs.ScalarCodec Zk.Transfer Zk.Bridge Zk.Bridge2
open Zk.ConcreteG1 (G1Sub)
open Zk.ConcreteG2 (G2Sub)
open scoped Zk.ConcreteG1

/-! ### C03: how the executable `proof_gen` fails -/

/-- **What the executable `proof_gen` does before `core_proof_gen`** (`C03.proofGen_cases`): `Err`
(bad signature octets, failing message hash), or generator creation panics, or it hands over to the
executable `core_proof_gen` with `L` scalars and `L + 1` generators. -/
theorem concrete_proofGen_cases (hH : HashInSub) (cs' : Suite G1Pt) (hcs : SuiteOK cs') (pk : G2Sub)
    (signature : Bytes) (header ph : Option Bytes) (msgs : List Bytes) (D : List Nat)
    (tape : List FrR) :
    proofGen Concrete.env cs' pk.1 signature header ph (some msgs) (some D) (tape.map vS) = .err ∨
      (Generators.create Concrete.env cs' (msgs.length + 1) (some cs'.apiId) = .panic ∧
        proofGen Concrete.env cs' pk.1 signature header ph (some msgs) (some D) (tape.map vS)
          = .panic) ∨
      ∃ σ' ms' gens', Signature.fromBytes Concrete.env signature = .ok σ' ∧
        messagesToScalar Concrete.env cs' msgs cs'.apiId = .ok ms' ∧
        Generators.create Concrete.env cs' (msgs.length + 1) (some cs'.apiId) = .ok gens' ∧
        ms'.length = msgs.length ∧ gens'.values.length = ms'.length + 1 ∧
        proofGen Concrete.env cs' pk.1 signature header ph (some msgs) (some D) (tape.map vS)
          = coreProofGen Concrete.env cs' pk.1 σ' gens' ms' D header ph (some cs'.apiId)
              (tape.map vS) := by
  obtain ⟨cs, rfl⟩ := suite_of_ok hcs
  have H := hom hH
  have hT := proofGen_transfer H cs pk signature header ph (some msgs) (some D) tape
  have hG := Generators.create_transfer H cs (msgs.length + 1) (some cs.apiId)
  rcases C03.proofGen_cases (env := subEnv) cs pk signature header ph msgs D tape with
    h | ⟨h1, h2⟩ | ⟨σ, ms, gens, h1, h2, h3, h4, h5, h6⟩
  · exact Or.inl ((err_iff_of_map hT).mpr h)
  · exact Or.inr (Or.inl ⟨(panic_iff_of_map hG).mpr h1, (panic_iff_of_map hT).mpr h2⟩)
  · refine Or.inr (Or.inr ⟨σ.map vS v1, ms.map vS, gens.map v1,
      ok_of_map (Signature.fromBytes_transfer H signature) h1,
      ok_of_map (messagesToScalar_transfer H cs msgs _) h2, ok_of_map hG h3,
      by rw [List.length_map, h4], by rw [Generators.map_values, List.length_map, List.length_map, h5],
      ?_⟩)
    rw [hT, h6]
    exact (coreProofGen_nat H cs pk σ gens ms D header ph (some cs.apiId) tape).symm

/-- **A disclosed index `≥ L`** never yields a proof from the executable `proof_gen`: `Err`, unless
generator creation panics (`C03.proofGen_err_of_bad_index`). -/
theorem concrete_proofGen_err_of_bad_index (hH : HashInSub) (cs' : Suite G1Pt) (hcs : SuiteOK cs')
    (pk : G2Sub) (signature : Bytes) (header ph : Option Bytes) (msgs : List Bytes) (D : List Nat)
    (tape : List FrR) (hbad : ∃ i ∈ D, msgs.length ≤ i) :
    proofGen Concrete.env cs' pk.1 signature header ph (some msgs) (some D) (tape.map vS) = .err ∨
      (Generators.create Concrete.env cs' (msgs.length + 1) (some cs'.apiId) = .panic ∧
        proofGen Concrete.env cs' pk.1 signature header ph (some msgs) (some D) (tape.map vS)
          = .panic) := by
  obtain ⟨cs, rfl⟩ := suite_of_ok hcs
  have H := hom hH
  have hT := proofGen_transfer H cs pk signature header ph (some msgs) (some D) tape
  have hG := Generators.create_transfer H cs (msgs.length + 1) (some cs.apiId)
  rcases C03.proofGen_err_of_bad_index (env := subEnv) cs pk signature header ph msgs D tape hbad
    with h | ⟨h1, h2⟩
  · exact Or.inl ((err_iff_of_map hT).mpr h)
  · exact Or.inr ⟨(panic_iff_of_map hG).mpr h1, (panic_iff_of_map hT).mpr h2⟩

/-- **A tape with `r2 = 0`** never yields a proof from the executable `proof_gen`
(`C03.proofGen_err_of_r2_zero`). -/
theorem concrete_proofGen_err_of_r2_zero (hH : HashInSub) (hP : PairingHyp) (cs' : Suite G1Pt)
    (hcs : SuiteOK cs') (pk : G2Sub) (signature : Bytes) (header ph : Option Bytes)
    (msgs : List Bytes) (D : List Nat) (tape : List FrR)
    (htape : 5 + (msgs.length - (sortDedup D).length) ≤ tape.length)
    (hr2 : (tape.map vS)[1]? = some 0) :
    proofGen Concrete.env cs' pk.1 signature header ph (some msgs) (some D) (tape.map vS) = .err ∨
      (Generators.create Concrete.env cs' (msgs.length + 1) (some cs'.apiId) = .panic ∧
        proofGen Concrete.env cs' pk.1 signature header ph (some msgs) (some D) (tape.map vS)
          = .panic) := by
  obtain ⟨cs, rfl⟩ := suite_of_ok hcs
  have H := hom hH
  have hT := proofGen_transfer H cs pk signature header ph (some msgs) (some D) tape
  have hG := Generators.create_transfer H cs (msgs.length + 1) (some cs.apiId)
  have hr2' : tape[1]? = some 0 := by
    rw [List.getElem?_map] at hr2
    cases ht : tape[1]? with
    | none => rw [ht] at hr2; cases hr2
    | some t =>
      rw [ht, Option.map_some, Option.some.injEq] at hr2
      rw [(vS_eq_zero_iff t).mp hr2]
  rcases C03.proofGen_err_of_r2_zero (lawful hP) cs pk signature header ph msgs D tape htape hr2'
    with h | ⟨h1, h2⟩
  · exact Or.inl ((err_iff_of_map hT).mpr h)
  · exact Or.inr ⟨(panic_iff_of_map hG).mpr h1, (panic_iff_of_map hT).mpr h2⟩

/-- Core level: a disclosed index `≥ L` makes the executable `core_proof_gen` return `Err`, never a
panic (`C03.coreProofGen_err_of_bad_index`). -/
theorem concrete_coreProofGen_err_of_bad_index (hH : HashInSub) (cs' : Suite G1Pt)
    (hcs : SuiteOK cs') (pk : G2Sub) (σ : Signature FrR G1Sub) (gens : Generators G1Sub)
    (msgs : List FrR) (D : List Nat) (header ph apiId : Option Bytes) (tape : List FrR)
    (hg : gens.values.length = msgs.length + 1) (hbad : ∃ i ∈ D, msgs.length ≤ i) :
    coreProofGen Concrete.env cs' pk.1 (σ.map vS v1) (gens.map v1) (msgs.map vS) D header ph apiId
      (tape.map vS) = .err := by
  obtain ⟨cs, rfl⟩ := suite_of_ok hcs
  exact (err_iff_of_map (coreProofGen_nat (hom hH) cs pk σ gens msgs D header ph apiId tape)).mpr
    (C03.coreProofGen_err_of_bad_index (env := subEnv) cs pk σ gens msgs D header ph apiId tape hg
      hbad)

/-- Core level: `r2 = 0` makes the executable `core_proof_gen` return `Err`
(`C03.coreProofGen_err_of_r2_zero`). -/
theorem concrete_coreProofGen_err_of_r2_zero (hH : HashInSub) (hP : PairingHyp) (cs' : Suite G1Pt)
    (hcs : SuiteOK cs') (pk : G2Sub) (σ : Signature FrR G1Sub) (gens : Generators G1Sub)
    (msgs : List FrR) (D : List Nat) (header ph apiId : Option Bytes) (tape : List FrR)
    (hg : gens.values.length = msgs.length + 1)
    (htape : 5 + (msgs.length - (sortDedup D).length) ≤ tape.length)
    (hr2 : tape[1]? = some 0) :
    coreProofGen Concrete.env cs' pk.1 (σ.map vS v1) (gens.map v1) (msgs.map vS) D header ph apiId
      (tape.map vS) = .err := by
  obtain ⟨cs, rfl⟩ := suite_of_ok hcs
  exact (err_iff_of_map (coreProofGen_nat (hom hH) cs pk σ gens msgs D header ph apiId tape)).mpr
    (C03.coreProofGen_err_of_r2_zero (lawful hP) cs pk σ gens msgs D header ph apiId tape hg htape
      hr2)

/-! ### C05: commitments and blind issuance -/

/-- **Commitment completeness (core)** (`C05.commit_verify`): whatever the executable `core_commit`
returns is accepted by the executable `core_commit_verify` with the same blind generators and api id. -/
theorem concrete_commit_verify (hH : HashInSub) (cs' : Suite G1Pt) (hcs : SuiteOK cs')
    (bg : List G1Sub) (cms : List FrR) (apiId : Option Bytes) (tape : List FrR)
    (c' : Commitment Fr G1Pt) (blind' : Fr)
    (h : coreCommit Concrete.env cs' (bg.map v1) (some (cms.map vS)) apiId (tape.map vS)
      = .ok (c', blind')) :
    coreCommitVerify Concrete.env cs' c'.commitment c'.proof (bg.map v1) apiId = .ok () := by
  obtain ⟨cs, rfl⟩ := suite_of_ok hcs
  have H := hom hH
  obtain ⟨⟨c, blind⟩, h0, hcb⟩ :=
    exists_of_map_ok (coreCommit_nat H cs bg (some cms) apiId tape) h
  obtain ⟨rfl, rfl⟩ := Prod.mk.inj hcb
  show coreCommitVerify Concrete.env (cs.map v1) c.commitment.1 (c.proof.map vS) (bg.map v1) apiId
    = .ok ()
  rw [coreCommitVerify_concrete hH]
  exact C05.commit_verify (env := subEnv) cs bg cms apiId tape c blind h0

/-- **The executable `core_commit` succeeds and its output verifies** on well-shaped inputs
(`C05.commit_succeeds_and_verifies`); the totality of the challenge hash is discharged from the length
of the tag. -/
theorem concrete_commit_succeeds_and_verifies (hH : HashInSub) (cs' : Suite G1Pt)
    (hcs : SuiteOK cs') (Q2 : G1Sub) (Js : List G1Sub) (cms : List FrR) (apiId : Option Bytes)
    (tape : List FrR) (hJ : Js.length = cms.length) (htape : cms.length + 2 ≤ tape.length)
    (hlen : cs'.expandLen = 48) (hdst : (apiId.getD [] ++ cs'.h2s).length ≤ 255) :
    ∃ c' blind', coreCommit Concrete.env cs' ((Q2 :: Js).map v1) (some (cms.map vS)) apiId
        (tape.map vS) = .ok (c', blind') ∧
      coreCommitVerify Concrete.env cs' c'.commitment c'.proof ((Q2 :: Js).map v1) apiId
        = .ok () := by
  obtain ⟨cs, rfl⟩ := suite_of_ok hcs
  have H := hom hH
  obtain ⟨c, blind, h1, h2⟩ := C05.commit_succeeds_and_verifies (env := subEnv) cs Q2 Js cms apiId
    tape hJ htape (hashTotal_sub hH cs _ hdst hlen)
  refine ⟨c.map vS v1, blind.1, ok_of_map (coreCommit_nat H cs (Q2 :: Js) (some cms) apiId tape) h1,
    ?_⟩
  rw [Commitment.map_commitment, Commitment.map_proof, coreCommitVerify_concrete hH]
  exact h2

/-- **The executable `commit` returns `Ok`** on a tape of at least `M + 2` reduced scalars as soon as
message hashing and generator creation do (`C05.commit_api_succeeds`; the challenge hash is total). -/
theorem concrete_commit_api_succeeds (hH : HashInSub) (cs' : Suite G1Pt) (hcs : SuiteOK cs')
    (cmsgs : Option (List Bytes)) (tape : List FrR) (cms' : List Fr) (bg' : Generators G1Pt)
    (hm : messagesToScalar Concrete.env cs' (cmsgs.getD []) cs'.apiIdBlind = .ok cms')
    (hg : Generators.create Concrete.env cs' (cms'.length + 1)
      (some (Bytes.ofAscii "BLIND_" ++ cs'.apiIdBlind)) = .ok bg')
    (htape : (cmsgs.getD []).length + 2 ≤ tape.length)
    (hlen : cs'.expandLen = 48) (hdst : (cs'.apiIdBlind ++ cs'.h2s).length ≤ 255) :
    ∃ c' blind', commit Concrete.env cs' cmsgs (tape.map vS) = .ok (c', blind') := by
  obtain ⟨cs, rfl⟩ := suite_of_ok hcs
  have H := hom hH
  obtain ⟨cms, hm0, rfl⟩ := exists_of_map_ok (messagesToScalar_transfer H cs _ _) hm
  rw [List.length_map] at hg
  obtain ⟨bg, hg0, rfl⟩ := exists_of_map_ok (Generators.create_transfer H cs _ _) hg
  obtain ⟨c, blind, h⟩ := C05.commit_api_succeeds (env := subEnv) cs cmsgs tape cms bg hm0 hg0 htape
    (hashTotal_sub hH cs _ hdst hlen)
  exact ⟨c.map vS v1, blind.1, ok_of_map (commit_transfer H cs cmsgs tape) h⟩

/-- The commitment returned by the executable `commit` for `M` committed messages is
`48 + 32 (M + 2)` octets long (`C05.commit_len`). -/
theorem concrete_commit_len (hH : HashInSub) (hP : PairingHyp) (cs' : Suite G1Pt) (hcs : SuiteOK cs')
    (cmsgs : Option (List Bytes)) (tape : List FrR) (c' : Commitment Fr G1Pt) (blind' : Fr)
    (h : commit Concrete.env cs' cmsgs (tape.map vS) = .ok (c', blind')) :
    (c'.toBytes Concrete.env).length = 48 + 32 * ((cmsgs.getD []).length + 2) := by
  obtain ⟨cs, rfl⟩ := suite_of_ok hcs
  have H := hom hH
  obtain ⟨⟨c, blind⟩, h0, hcb⟩ := exists_of_map_ok (commit_transfer H cs cmsgs tape) h
  obtain ⟨rfl, rfl⟩ := Prod.mk.inj hcb
  rw [Commitment.toBytes_transfer H]
  exact C05.commit_len (lawful hP) cs cmsgs tape c blind h0

/-- **The executable signer accepts an honest commitment** (`C05.commit_accepted`): with the blind
generators `blind_sign` creates, `deserialize_and_validate_commit` returns the commitment point. -/
theorem concrete_commit_accepted (hH : HashInSub) (hP : PairingHyp) (cs' : Suite G1Pt)
    (hcs : SuiteOK cs') (cmsgs : Option (List Bytes)) (tape : List FrR) (c' : Commitment Fr G1Pt)
    (blind' : Fr) (h : commit Concrete.env cs' cmsgs (tape.map vS) = .ok (c', blind'))
    (bgens' : Generators G1Pt)
    (hb : Generators.create Concrete.env cs' ((cmsgs.getD []).length + 2)
      (some (Bytes.ofAscii "BLIND_" ++ cs'.apiIdBlind)) = .ok bgens') :
    deserializeAndValidateCommit Concrete.env cs' (some (c'.toBytes Concrete.env)) bgens'
      (some cs'.apiIdBlind) = .ok c'.commitment := by
  obtain ⟨cs, rfl⟩ := suite_of_ok hcs
  have H := hom hH
  obtain ⟨⟨c, blind⟩, h0, hcb⟩ := exists_of_map_ok (commit_transfer H cs cmsgs tape) h
  obtain ⟨rfl, rfl⟩ := Prod.mk.inj hcb
  obtain ⟨bgens, hb0, rfl⟩ := exists_of_map_ok (Generators.create_transfer H cs _ _) hb
  rw [Commitment.toBytes_transfer H]
  exact ok_of_map (deserializeAndValidateCommit_transfer H cs _ bgens _)
    (C05.commit_accepted (lawful hP) cs cmsgs tape c blind h0 bgens hb0)

/-- A signature returned by the executable `blind_sign` (any commitment octets) was computed with an
invertible `sk + e` (`C05.blind_sign_ske_ne_zero`). -/
theorem concrete_blind_sign_ske_ne_zero (hH : HashInSub) (hP : PairingHyp) (cs' : Suite G1Pt)
    (hcs : SuiteOK cs') (sk : FrR) (pk : G2Sub) (cwp header : Option Bytes)
    (msgs : Option (List Bytes)) (σ' : Signature Fr G1Pt)
    (hs : blindSign Concrete.env cs' sk.1 pk.1 cwp header msgs = .ok σ') : sk.1 + σ'.e ≠ 0 := by
  obtain ⟨cs, rfl⟩ := suite_of_ok hcs
  obtain ⟨σ, hσ, rfl⟩ := blindSign_ok_exists (hom hH) cs _ _ _ _ _ _ hs
  intro h0
  exact C05.blind_sign_ske_ne_zero (lawful hP) cs sk pk cwp header msgs σ hσ
    ((vS_eq_zero_iff _).mp (by rw [coe_add]; exact h0))

/-- **The signer's and the verifier's blind generator lists coincide** for the executable generator
creation (`C05.blind_generators_agree`). -/
theorem concrete_blind_generators_agree (hH : HashInSub) (cs' : Suite G1Pt) (hcs : SuiteOK cs')
    (M : Nat) (apiId : Option Bytes) (bgens' bg' : Generators G1Pt)
    (hs : Generators.create Concrete.env cs' (M + 2) apiId = .ok bgens')
    (hv : Generators.create Concrete.env cs' (M + 1) apiId = .ok bg') :
    ∃ Q2 tail, bgens'.values = Q2 :: tail ∧ tail.length = M + 1 ∧
      bg'.values = Q2 :: tail.dropLast ∧ bg'.base = bgens'.base := by
  obtain ⟨cs, rfl⟩ := suite_of_ok hcs
  have H := hom hH
  obtain ⟨bgens, hs0, rfl⟩ := exists_of_map_ok (Generators.create_transfer H cs _ _) hs
  obtain ⟨bg, hv0, rfl⟩ := exists_of_map_ok (Generators.create_transfer H cs _ _) hv
  obtain ⟨Q2, tail, h1, h2, h3, h4⟩ :=
    C05.blind_generators_agree (env := subEnv) cs M apiId bgens bg hs0 hv0
  refine ⟨Q2.1, tail.map v1, ?_, by rw [List.length_map, h2], ?_, ?_⟩
  · show bgens.values.map v1 = _
    rw [h1]; rfl
  · show bg.values.map v1 = _
    rw [h3, List.map_cons, List.map_dropLast]
  · show v1 bg.base = v1 bgens.base
    rw [h4]

/-- **The whole executable blind flow** (`C05.blind_flow_complete`): commit, blind-sign the serialized
commitment, verify the blind signature, disclose any `di ⊆ [0, L)`, `dci ⊆ [0, M)`: the proof is
generated and verifies. -/
theorem concrete_blind_flow_complete (hH : HashInSub) (hP : PairingHyp) (cs' : Suite G1Pt)
    (hcs : SuiteOK cs') (sk : FrR) (msgs cmsgs : List Bytes) (header ph : Option Bytes)
    (ctape tape : List FrR) (c' : Commitment Fr G1Pt) (blind' : Fr) (σ' : Signature Fr G1Pt)
    (di dci : List Nat)
    (hc : commit Concrete.env cs' (some cmsgs) (ctape.map vS) = .ok (c', blind'))
    (hs : blindSign Concrete.env cs' sk.1 (skToPk Concrete.env sk.1)
      (some (c'.toBytes Concrete.env)) header (some msgs) = .ok σ')
    (hdi : ∀ i ∈ di, i < msgs.length) (hdci : ∀ j ∈ dci, j < cmsgs.length)
    (hdiL : di.length ≤ msgs.length) (hdciL : dci.length ≤ cmsgs.length)
    (h64 : msgs.length + 1 + cmsgs.length < 2 ^ 64)
    (hsk : sk.1 ≠ 0) (hA : σ'.A ≠ 0) (he : σ'.e ≠ 0)
    (htape : 5 + (msgs.length + 1 + cmsgs.length
      - ((sortDedup di).length + (sortDedup dci).length)) ≤ tape.length)
    (hr1 : (tape.map vS)[0]? ≠ some 0) (hr2 : (tape.map vS)[1]? ≠ some 0)
    (hlen : cs'.expandLen = 48) (hdst : (cs'.apiIdBlind ++ cs'.h2s).length ≤ 255) :
    verifyBlindSign Concrete.env cs' σ' (skToPk Concrete.env sk.1) header (some msgs) (some cmsgs)
        (some blind') = .ok () ∧
    ∃ π', blindProofGen Concrete.env cs' (skToPk Concrete.env sk.1) (σ'.toBytes Concrete.env) header
          ph (some msgs) (some cmsgs) (some di) (some dci) (some blind') (tape.map vS) = .ok π' ∧
      blindProofVerify Concrete.env cs' π' (skToPk Concrete.env sk.1) header ph (some msgs.length)
          (some ((sortDedup di).map fun i => msgs.getD i []))
          (some ((sortDedup dci).map fun j => cmsgs.getD j []))
          (some di) (some dci) = .ok () := by
  obtain ⟨cs, rfl⟩ := suite_of_ok hcs
  have H := hom hH
  obtain ⟨⟨c, blind⟩, hc0, hcb⟩ := exists_of_map_ok (commit_transfer H cs (some cmsgs) ctape) hc
  obtain ⟨rfl, rfl⟩ := Prod.mk.inj hcb
  rw [skToPk_transfer H, Commitment.toBytes_transfer H] at hs
  obtain ⟨σ, hσ, rfl⟩ := blindSign_ok_exists H cs _ _ _ _ _ _ hs
  have hpk : skToPk subEnv sk = sk • subEnv.bp2 := rfl
  rw [hpk] at hσ
  obtain ⟨hv, π, hg, hpv⟩ := C05.blind_flow_complete (lawful hP) cs sk msgs cmsgs header ph ctape
    tape c blind σ di dci hc0 hσ hdi hdci hdiL hdciL h64
    (fun h0 => hsk ((vS_eq_zero_iff _).mpr h0))
    (fun h0 => hA ((v1_eq_zero_iff _).mpr h0)) (fun h0 => he ((vS_eq_zero_iff _).mpr h0))
    htape (tape_ne_zero hr1) (tape_ne_zero hr2) (hashTotal_sub hH cs _ hdst hlen)
  rw [skToPk_transfer H, hpk]
  refine ⟨(verifyBlindSign_ok_iff H cs σ _ header (some msgs) (some cmsgs) (some blind)).mpr hv,
    π.map vS v1, ?_, ?_⟩
  · rw [Signature.toBytes_transfer H]
    exact ok_of_map (blindProofGen_transfer H cs _ _ _ _ _ _ _ _ (some blind) tape) hg
  · rw [blindProofVerify_transfer H]; exact hpv

/-! ### C07: roles of the tape; two-transcript extraction

Divisions are computed in the field `FrR` of reduced scalars, whose `+ - *` are the executable
operations (`ConcreteScalar.coe_add` …) and whose inverse is the executable `sInv` (`Bridge.sInv_ne`). -/

/-- The executable `core_proof_gen` depends only on the first `5 + U` tape entries
(`C07.tape_roles_proof`). -/
theorem concrete_tape_roles_proof (hH : HashInSub) (cs' : Suite G1Pt) (hcs : SuiteOK cs')
    (pk : G2Sub) (σ : Signature FrR G1Sub) (gens : Generators G1Sub) (msgs : List FrR)
    (di : List Nat) (header ph apiId : Option Bytes) (tape tape' : List FrR)
    (h : tape.take (5 + (msgs.length - (sortDedup di).length))
        = tape'.take (5 + (msgs.length - (sortDedup di).length))) :
    coreProofGen Concrete.env cs' pk.1 (σ.map vS v1) (gens.map v1) (msgs.map vS) di header ph apiId
        (tape.map vS)
      = coreProofGen Concrete.env cs' pk.1 (σ.map vS v1) (gens.map v1) (msgs.map vS) di header ph
          apiId (tape'.map vS) := by
  obtain ⟨cs, rfl⟩ := suite_of_ok hcs
  rw [coreProofGen_nat (hom hH), coreProofGen_nat (hom hH),
    C07.tape_roles_proof (env := subEnv) cs pk σ gens msgs di header ph apiId tape tape' h]

/-- The executable `core_commit` depends only on the first `M + 2` tape entries
(`C07.tape_roles_commit`). -/
theorem concrete_tape_roles_commit (hH : HashInSub) (cs' : Suite G1Pt) (hcs : SuiteOK cs')
    (blindGens : List G1Sub) (cms : Option (List FrR)) (apiId : Option Bytes)
    (tape tape' : List FrR)
    (h : tape.take ((cms.getD []).length + 2) = tape'.take ((cms.getD []).length + 2)) :
    coreCommit Concrete.env cs' (blindGens.map v1) (cms.map (List.map vS)) apiId (tape.map vS)
      = coreCommit Concrete.env cs' (blindGens.map v1) (cms.map (List.map vS)) apiId
          (tape'.map vS) := by
  obtain ⟨cs, rfl⟩ := suite_of_ok hcs
  rw [coreCommit_nat (hom hH), coreCommit_nat (hom hH),
    C07.tape_roles_commit (env := subEnv) cs blindGens cms apiId tape tape' h]

/-- **`tape_roles`** for the executable instance (`C07.tape_roles`): both statements above. -/
theorem concrete_tape_roles (hH : HashInSub) (cs' : Suite G1Pt) (hcs : SuiteOK cs') :
    (∀ (pk : G2Sub) (σ : Signature FrR G1Sub) (gens : Generators G1Sub) (msgs : List FrR)
      (di : List Nat) (header ph apiId : Option Bytes) (tape tape' : List FrR),
      tape.take (5 + (msgs.length - (sortDedup di).length))
        = tape'.take (5 + (msgs.length - (sortDedup di).length)) →
      coreProofGen Concrete.env cs' pk.1 (σ.map vS v1) (gens.map v1) (msgs.map vS) di header ph
          apiId (tape.map vS)
        = coreProofGen Concrete.env cs' pk.1 (σ.map vS v1) (gens.map v1) (msgs.map vS) di header ph
            apiId (tape'.map vS)) ∧
    (∀ (blindGens : List G1Sub) (cms : Option (List FrR)) (apiId : Option Bytes)
      (tape tape' : List FrR),
      tape.take ((cms.getD []).length + 2) = tape'.take ((cms.getD []).length + 2) →
      coreCommit Concrete.env cs' (blindGens.map v1) (cms.map (List.map vS)) apiId (tape.map vS)
        = coreCommit Concrete.env cs' (blindGens.map v1) (cms.map (List.map vS)) apiId
            (tape'.map vS)) :=
  ⟨fun pk σ gens msgs di header ph apiId tape tape' h =>
      concrete_tape_roles_proof hH cs' hcs pk σ gens msgs di header ph apiId tape tape' h,
    fun bg cms apiId tape tape' h => concrete_tape_roles_commit hH cs' hcs bg cms apiId tape tape' h⟩

/-- The executable `proof_init` refuses any tape whose length is not exactly `5 + U`
(`C07.tape_roles_proofInit_length`). -/
theorem concrete_tape_roles_proofInit_length (hH : HashInSub) (cs' : Suite G1Pt)
    (hcs : SuiteOK cs') (pk : G2Sub) (σ : Signature FrR G1Sub) (gens : Generators G1Sub)
    (rs : List FrR) (header : Option Bytes) (msgs : List FrR) (und : List Nat)
    (apiId : Option Bytes) (h : rs.length ≠ 5 + und.length) :
    proofInit Concrete.env cs' pk.1 (σ.map vS v1) (gens.map v1) (rs.map vS) header (msgs.map vS)
      und apiId = .err := by
  obtain ⟨cs, rfl⟩ := suite_of_ok hcs
  exact (err_iff_of_map (proofInit_nat (hom hH) cs pk σ gens rs header msgs und apiId)).mpr
    (C07.tape_roles_proofInit_length (env := subEnv) cs pk σ gens rs header msgs und apiId h)

/-- **Roles of the tape in the executable `proof_init`** (`C07.proofInit_roles`), conclusions in the
executable arithmetic. -/
theorem concrete_proofInit_roles (hH : HashInSub) (cs' : Suite G1Pt) (hcs : SuiteOK cs')
    (pk : G2Sub) (σ : Signature FrR G1Sub) (gens : Generators G1Sub) (rs : List FrR)
    (header : Option Bytes) (msgs : List FrR) (und : List Nat) (apiId : Option Bytes)
    (init' : ProofInitResult Fr G1Pt)
    (h : proofInit Concrete.env cs' pk.1 (σ.map vS v1) (gens.map v1) (rs.map vS) header
      (msgs.map vS) und apiId = .ok init') :
    ∃ (Q1 : G1Pt) (Hs : List G1Pt) (r1 r2 eT r1T r3T : Fr) (mT : List Fr) (d : Fr),
      (gens.map v1).values = Q1 :: Hs ∧ Hs.length = msgs.length ∧
      rs.map vS = r1 :: r2 :: eT :: r1T :: r3T :: mT ∧ mT.length = und.length ∧
      calculateDomain Concrete.env cs' pk.1 Q1 Hs header apiId = .ok d ∧ init'.domain = d ∧
      init'.D = r2 • calcB (gens.map v1).base Q1 d Hs (msgs.map vS) ∧
      init'.Abar = (r1 * r2) • (σ.map vS v1).A ∧
      init'.Bbar = r1 • init'.D - (σ.map vS v1).e • init'.Abar ∧
      init'.T1 = eT • init'.Abar + r1T • init'.D ∧
      sumIndexed Hs (r3T • init'.D) und mT = .ok init'.T2 := by
  obtain ⟨cs, rfl⟩ := suite_of_ok hcs
  have H := hom hH
  obtain ⟨init, h0, rfl⟩ :=
    exists_of_map_ok (proofInit_nat H cs pk σ gens rs header msgs und apiId) h
  obtain ⟨Q1, Hs, r1, r2, eT, r1T, r3T, mT, d, hg, hl, hrs, hm, hd, hdom, hD, hA, hB, hT1, hT2⟩ :=
    C07.proofInit_roles (env := subEnv) cs pk σ gens rs header msgs und apiId init h0
  refine ⟨Q1.1, Hs.map v1, r1.1, r2.1, eT.1, r1T.1, r3T.1, mT.map vS, d.1, ?_, ?_, ?_, ?_, ?_, ?_,
    ?_, ?_, ?_, ?_, ?_⟩
  · show gens.values.map v1 = _
    rw [hg]; rfl
  · rw [List.length_map, hl]
  · rw [hrs]; rfl
  · rw [List.length_map, hm]
  · exact ok_of_map (calculateDomain_nat H cs pk Q1 Hs header apiId) hd
  · show (init.domain).1 = _
    rw [hdom]
  · show (init.D).1 = _
    rw [hD, H.G1_smul]
    exact congrArg _ (calcB_nat H gens.base Q1 d Hs msgs).symm
  · show (init.Abar).1 = _
    rw [hA, H.G1_smul, H.S_mul]; rfl
  · show (init.Bbar).1 = _
    rw [hB, H.G1_sub, H.G1_smul, H.G1_smul]; rfl
  · show (init.T1).1 = _
    rw [hT1, H.G1_add, H.G1_smul, H.G1_smul]; rfl
  · have := sumIndexed_nat H Hs (r3T • init.D) und mT
    rw [H.G1_smul] at this
    exact ok_of_map this hT2

/-- Two executable commitments made with the same `s̃` and the same secret `blind` under different
challenges reveal `blind` (`C07.two_transcript_extraction_blind`). -/
theorem concrete_two_transcript_extraction_blind (hH : HashInSub) (cs' : Suite G1Pt)
    (hcs : SuiteOK cs') (bg bg' : List G1Sub) (cms cms' : List FrR) (apiId apiId' : Option Bytes)
    (tape tape' : List FrR) (com com' : Commitment FrR G1Sub) (blind : FrR)
    (h : coreCommit Concrete.env cs' (bg.map v1) (some (cms.map vS)) apiId (tape.map vS)
      = .ok (com.map vS v1, blind.1))
    (h' : coreCommit Concrete.env cs' (bg'.map v1) (some (cms'.map vS)) apiId' (tape'.map vS)
      = .ok (com'.map vS v1, blind.1))
    (hs : tape[1]? = tape'[1]?) (hc : com.proof.challenge.1 ≠ com'.proof.challenge.1) :
    blind = (com.proof.sCap - com'.proof.sCap) / (com.proof.challenge - com'.proof.challenge) := by
  obtain ⟨cs, rfl⟩ := suite_of_ok hcs
  have H := hom hH
  have inj : Function.Injective (Prod.map (Commitment.map vS v1) vS) :=
    Function.Injective.prodMap (Commitment.map_injective vS v1 H.fS_inj H.f1_inj) H.fS_inj
  have e1 := (ok_iff_of_map inj (coreCommit_nat H cs bg (some cms) apiId tape)
    (a := (com, blind))).mp h
  have e2 := (ok_iff_of_map inj (coreCommit_nat H cs bg' (some cms') apiId' tape')
    (a := (com', blind))).mp h'
  exact C07.two_transcript_extraction_blind (env := subEnv) cs bg bg' cms cms' apiId apiId' tape
    tape' com com' blind e1 e2 hs (fun h0 => hc (congrArg Subtype.val h0))

/-- Two executable proofs made with the same `ẽ` under different challenges reveal the exponent `e`
(`C07.two_transcript_extraction_e`). -/
theorem concrete_two_transcript_extraction_e (hH : HashInSub) (hP : PairingHyp)
    (init init' : ProofInitResult FrR G1Sub) (c c' e eT : FrR)
    (r1 r2 r1T r3T r1' r2' r1T' r3T' : FrR) (mT mT' ums ums' : List FrR)
    (π π' : PoKSignature FrR G1Sub) (hc : c.1 ≠ c'.1)
    (h : proofFinalize Concrete.env (init.map vS v1) c.1 e.1
      ((r1 :: r2 :: eT :: r1T :: r3T :: mT).map vS) (ums.map vS) = .ok (π.map vS v1))
    (h' : proofFinalize Concrete.env (init'.map vS v1) c'.1 e.1
      ((r1' :: r2' :: eT :: r1T' :: r3T' :: mT').map vS) (ums'.map vS) = .ok (π'.map vS v1)) :
    e = (π.eCap - π'.eCap) / (π.challenge - π'.challenge) := by
  have H := hom hH
  have inj := PoKSignature.map_injective vS v1 H.fS_inj H.f1_inj
  exact C07.two_transcript_extraction_e (lawful hP) init init' c c' e eT r1 r2 r1T r3T r1' r2' r1T'
    r3T' mT mT' ums ums' π π' (fun h0 => hc (congrArg Subtype.val h0))
    ((ok_iff_of_map inj (proofFinalize_nat H init c e _ ums) π).mp h)
    ((ok_iff_of_map inj (proofFinalize_nat H init' c' e _ ums') π').mp h')

/-- Two executable proofs made with the same `r1` and `r̃1` under different challenges reveal `r1`
(`C07.two_transcript_extraction_r1`). -/
theorem concrete_two_transcript_extraction_r1 (hH : HashInSub) (hP : PairingHyp)
    (init init' : ProofInitResult FrR G1Sub) (c c' e e' : FrR) (r1 r1T : FrR)
    (r2 eT r3T r2' eT' r3T' : FrR) (mT mT' ums ums' : List FrR)
    (π π' : PoKSignature FrR G1Sub) (hc : c.1 ≠ c'.1)
    (h : proofFinalize Concrete.env (init.map vS v1) c.1 e.1
      ((r1 :: r2 :: eT :: r1T :: r3T :: mT).map vS) (ums.map vS) = .ok (π.map vS v1))
    (h' : proofFinalize Concrete.env (init'.map vS v1) c'.1 e'.1
      ((r1 :: r2' :: eT' :: r1T :: r3T' :: mT').map vS) (ums'.map vS) = .ok (π'.map vS v1)) :
    r1 = (π'.r1Cap - π.r1Cap) / (π.challenge - π'.challenge) := by
  have H := hom hH
  have inj := PoKSignature.map_injective vS v1 H.fS_inj H.f1_inj
  exact C07.two_transcript_extraction_r1 (lawful hP) init init' c c' e e' r1 r1T r2 eT r3T r2' eT'
    r3T' mT mT' ums ums' π π' (fun h0 => hc (congrArg Subtype.val h0))
    ((ok_iff_of_map inj (proofFinalize_nat H init c e _ ums) π).mp h)
    ((ok_iff_of_map inj (proofFinalize_nat H init' c' e' _ ums') π').mp h')

/-! ### C09: what the executable decoders refuse (arbitrary octets) -/

theorem opt_zero_of_map {α β : Type} [Zero α] [Zero β] (f : α → β) (hf : ∀ a, f a = 0 ↔ a = 0)
    (x : Option α) (h : x.map f = some 0) : x = some 0 := by
  cases x with
  | none => cases h
  | some a => rw [Option.map_some, Option.some.injEq] at h; rw [(hf a).mp h]

/-- **Wrong lengths are refused by every executable decoder** (`C09.rejects_wrong_length_sk`, `_pk`,
`_pk_coords`, `_sig`, `_proof`, `_zkpok`, `_commitment`), for arbitrary octets. -/
theorem concrete_rejects_wrong_length (hH : HashInSub) (b x y : Bytes) :
    (b.length ≠ 32 → skFromBytes Concrete.env b = .err) ∧
    (b.length ≠ 96 → pkFromBytes Concrete.env b = .err) ∧
    (x.length ≠ 96 ∨ y.length ≠ 96 → pkFromCoordinates Concrete.env x y = .err) ∧
    (b.length ≠ 80 → Signature.fromBytes Concrete.env b = .err) ∧
    (b.length < 272 ∨ (b.length - 240) % 32 ≠ 0 → PoKSignature.fromBytes Concrete.env b = .err) ∧
    (b.length < 64 ∨ b.length % 32 ≠ 0 → ZKPoK.fromBytes Concrete.env b = .err) ∧
    (b.length < 112 ∨ (b.length - 48) % 32 ≠ 0 → Commitment.fromBytes Concrete.env b = .err) := by
  have H := hom hH
  exact ⟨fun h => (err_iff_of_map (skFromBytes_transfer H b)).mpr
      (C09.rejects_wrong_length_sk (env := subEnv) b h),
    fun h => (err_iff_of_map (pkFromBytes_transfer H b)).mpr
      (C09.rejects_wrong_length_pk (env := subEnv) b h),
    fun h => (err_iff_of_map (pkFromCoordinates_transfer H x y)).mpr
      (C09.rejects_wrong_length_pk_coords (env := subEnv) x y h),
    fun h => (err_iff_of_map (Signature.fromBytes_transfer H b)).mpr
      (C09.rejects_wrong_length_sig (env := subEnv) b h),
    fun h => (err_iff_of_map (PoKSignature.fromBytes_transfer H b)).mpr
      (C09.rejects_wrong_length_proof (env := subEnv) b h),
    fun h => (err_iff_of_map (ZKPoK.fromBytes_transfer H b)).mpr
      (C09.rejects_wrong_length_zkpok (env := subEnv) b h),
    fun h => (err_iff_of_map (Commitment.fromBytes_transfer H b)).mpr
      (C09.rejects_wrong_length_commitment (env := subEnv) b h)⟩

/-- **Identity points and `e = 0` are refused by the executable object decoders**
(`C09.rejects_identity_pk`, `_pk_coords`, `_sigA`, `_proof_points`, `rejects_e_zero`): whenever the
executable point / scalar decoder returns the identity (resp. `0`) on the relevant slice, the object
decoder returns `Err`. Arbitrary octets. -/
theorem concrete_rejects_identity (hH : HashInSub) (b x y : Bytes) :
    (G2.fromCompressed b = some 0 → pkFromBytes Concrete.env b = .err) ∧
    (G2.fromUncompressed (x ++ y) = some 0 → pkFromCoordinates Concrete.env x y = .err) ∧
    (G1.fromCompressed (b.take 48) = some 0 → Signature.fromBytes Concrete.env b = .err) ∧
    (Concrete.env.sDec (b.drop 48) = some 0 → Signature.fromBytes Concrete.env b = .err) ∧
    (G1.fromCompressed (b.take 48) = some 0 ∨ G1.fromCompressed ((b.drop 48).take 48) = some 0 ∨
        G1.fromCompressed ((b.drop 96).take 48) = some 0 →
      PoKSignature.fromBytes Concrete.env b = .err) := by
  have H := hom hH
  have g1 : ∀ c, G1.fromCompressed c = some 0 → subEnv.g1Dec c = some 0 := fun c h =>
    opt_zero_of_map _ H.f1_eq_zero_iff _ ((H.g1Dec c).symm.trans (by rw [env_g1Dec]; exact h))
  have g2 : ∀ c, G2.fromCompressed c = some 0 → subEnv.g2Dec c = some 0 := fun c h =>
    opt_zero_of_map _ H.f2_eq_zero_iff _ ((H.g2Dec c).symm.trans (by rw [env_g2Dec]; exact h))
  have g2u : ∀ c, G2.fromUncompressed c = some 0 → subEnv.g2DecU c = some 0 := fun c h =>
    opt_zero_of_map _ H.f2_eq_zero_iff _ ((H.g2DecU c).symm.trans (by rw [env_g2DecU]; exact h))
  have sd : ∀ c, Concrete.env.sDec c = some 0 → subEnv.sDec c = some 0 := fun c h =>
    opt_zero_of_map _ H.fS_eq_zero_iff _ ((H.sDec c).symm.trans h)
  exact ⟨fun h => (err_iff_of_map (pkFromBytes_transfer H b)).mpr
      (C09.rejects_identity_pk (env := subEnv) b (g2 _ h)),
    fun h => (err_iff_of_map (pkFromCoordinates_transfer H x y)).mpr
      (C09.rejects_identity_pk_coords (env := subEnv) x y (g2u _ h)),
    fun h => (err_iff_of_map (Signature.fromBytes_transfer H b)).mpr
      (C09.rejects_identity_sigA (env := subEnv) b (g1 _ h)),
    fun h => (err_iff_of_map (Signature.fromBytes_transfer H b)).mpr
      (C09.rejects_e_zero (env := subEnv) b (sd _ h)),
    fun h => (err_iff_of_map (PoKSignature.fromBytes_transfer H b)).mpr
      (C09.rejects_identity_proof_points (env := subEnv) b
        (h.imp (g1 _) (Or.imp (g1 _) (g1 _))))⟩

/-- The executable encoding of the identity of G2 is refused as a public key
(`C09.rejects_identity_pk_enc`). -/
theorem concrete_rejects_identity_pk_enc (hH : HashInSub) (hP : PairingHyp) :
    pkFromBytes Concrete.env (pkToBytes Concrete.env 0) = .err := by
  have H := hom hH
  rw [← H.G2_zero, pkToBytes_transfer H]
  exact (err_iff_of_map (pkFromBytes_transfer H _)).mpr (C09.rejects_identity_pk_enc (lawful hP))

/-- Trailing octets whose length is not a multiple of 32 make the executable `ZKPoK` decoder fail
(`C09.rejects_trailing_zkpok`); trailing octets never decode to the same proof / commitment / `ZKPoK`
(`C09.trailing_changes_proof`, `_commitment`, `_zkpok`). -/
theorem concrete_trailing_changes (hH : HashInSub) (hP : PairingHyp) (b t : Bytes) :
    (∀ z', ZKPoK.fromBytes Concrete.env b = .ok z' → t.length % 32 ≠ 0 →
      ZKPoK.fromBytes Concrete.env (b ++ t) = .err) ∧
    (∀ π', PoKSignature.fromBytes Concrete.env b = .ok π' → t ≠ [] →
      PoKSignature.fromBytes Concrete.env (b ++ t) ≠ .ok π') ∧
    (∀ c', Commitment.fromBytes Concrete.env b = .ok c' → t ≠ [] →
      Commitment.fromBytes Concrete.env (b ++ t) ≠ .ok c') ∧
    (∀ z', ZKPoK.fromBytes Concrete.env b = .ok z' → t ≠ [] →
      ZKPoK.fromBytes Concrete.env (b ++ t) ≠ .ok z') := by
  have H := hom hH
  refine ⟨fun z' h ht => ?_, fun π' h ht h2 => ?_, fun c' h ht h2 => ?_, fun z' h ht h2 => ?_⟩
  · obtain ⟨z, hz, rfl⟩ := exists_of_map_ok (ZKPoK.fromBytes_transfer H b) h
    exact (err_iff_of_map (ZKPoK.fromBytes_transfer H _)).mpr
      (C09.rejects_trailing_zkpok (lawful hP) b t z hz ht)
  · obtain ⟨π, hπ, rfl⟩ := exists_of_map_ok (PoKSignature.fromBytes_transfer H b) h
    exact C09.trailing_changes_proof (lawful hP) b t π hπ ht
      ((ok_iff_of_map (PoKSignature.map_injective vS v1 H.fS_inj H.f1_inj)
        (PoKSignature.fromBytes_transfer H _) π).mp h2)
  · obtain ⟨c, hc, rfl⟩ := exists_of_map_ok (Commitment.fromBytes_transfer H b) h
    exact C09.trailing_changes_commitment (lawful hP) b t c hc ht
      ((ok_iff_of_map (Commitment.map_injective vS v1 H.fS_inj H.f1_inj)
        (Commitment.fromBytes_transfer H _) c).mp h2)
  · obtain ⟨z, hz, rfl⟩ := exists_of_map_ok (ZKPoK.fromBytes_transfer H b) h
    exact C09.trailing_changes_zkpok (lawful hP) b t z hz ht
      ((ok_iff_of_map (ZKPoK.map_injective vS H.fS_inj) (ZKPoK.fromBytes_transfer H _) z).mp h2)

/-- The octet and the coordinate form of an executable public key agree
(`C09.pk_octets_coords_agree`). -/
theorem concrete_pk_octets_coords_agree (hH : HashInSub) (hP : PairingHyp) (b x y : Bytes)
    (g g' : G2Pt) (h1 : pkFromBytes Concrete.env b = .ok g)
    (h2 : pkFromCoordinates Concrete.env x y = .ok g') (hb : pkToBytes Concrete.env g' = b) :
    g = g' := by
  have H := hom hH
  obtain ⟨p, hp, rfl⟩ := exists_of_map_ok (pkFromBytes_transfer H b) h1
  obtain ⟨p', hp', rfl⟩ := exists_of_map_ok (pkFromCoordinates_transfer H x y) h2
  rw [pkToBytes_transfer H] at hb
  rw [C09.pk_octets_coords_agree (lawful hP) b x y p p' hp hp' hb]

/-! ### C02: leftovers -/

/-- Two signatures the executable `verify` accepts for the same statement and key have the same
`B = (sk + e) • A` in the executable arithmetic (`C02.verify_same_B`). -/
theorem concrete_verify_same_B (hH : HashInSub) (hP : PairingHyp) (cs' : Suite G1Pt)
    (hcs : SuiteOK cs') (sk : FrR) (σ σ' : Signature FrR G1Sub) (msgs : Option (List Bytes))
    (header : Option Bytes)
    (hv : verify Concrete.env cs' (σ.map vS v1) (skToPk Concrete.env sk.1) msgs header = .ok ())
    (hv' : verify Concrete.env cs' (σ'.map vS v1) (skToPk Concrete.env sk.1) msgs header = .ok ()) :
    (sk.1 + σ'.e.1) • σ'.A.1 = (sk.1 + σ.e.1) • σ.A.1 := by
  obtain ⟨cs, rfl⟩ := suite_of_ok hcs
  have H := hom hH
  rw [skToPk_transfer H, verify_transfer H] at hv hv'
  have := C02.verify_same_B (lawful hP) cs sk σ σ' msgs header hv hv'
  rw [← H.S_add, ← H.S_add, ← H.G1_smul, ← H.G1_smul, this]

/-- **A change confined to one half of the 80 octets is always rejected** by the executable decoder
or `verify` (`C02.sig_half_tamper`). -/
theorem concrete_sig_half_tamper (hH : HashInSub) (hP : PairingHyp) (cs' : Suite G1Pt)
    (hcs : SuiteOK cs') (sk : FrR) (σ : Signature FrR G1Sub) (msgs : Option (List Bytes))
    (header : Option Bytes)
    (hv : verify Concrete.env cs' (σ.map vS v1) (skToPk Concrete.env sk.1) msgs header = .ok ())
    (hA : σ.A.1 ≠ 0) (hz : sk.1 + σ.e.1 ≠ 0) (b' : Bytes)
    (hb : b' ≠ (σ.map vS v1).toBytes Concrete.env)
    (hhalf : b'.take 48 = ((σ.map vS v1).toBytes Concrete.env).take 48 ∨
      b'.drop 48 = ((σ.map vS v1).toBytes Concrete.env).drop 48) :
    Signature.fromBytes Concrete.env b' = .err ∨
    ∃ σ', Signature.fromBytes Concrete.env b' = .ok σ' ∧
      verify Concrete.env cs' σ' (skToPk Concrete.env sk.1) msgs header ≠ .ok () := by
  obtain ⟨cs, rfl⟩ := suite_of_ok hcs
  have H := hom hH
  rw [skToPk_transfer H, verify_transfer H] at hv
  rw [Signature.toBytes_transfer H] at hb hhalf
  rcases C02.sig_half_tamper (lawful hP) cs sk σ msgs header hv
    (fun h0 => hA ((v1_eq_zero_iff _).mpr h0)) (vS_add_ne_zero hz) b' hb hhalf with h | ⟨σ', h1, h2⟩
  · exact Or.inl ((err_iff_of_map (Signature.fromBytes_transfer H b')).mpr h)
  · refine Or.inr ⟨σ'.map vS v1, ok_of_map (Signature.fromBytes_transfer H b') h1, ?_⟩
    rw [skToPk_transfer H, verify_transfer H]
    exact h2

/-- **Single-byte change** of the 80 octets: always rejected (`C02.sig_byteflip`). -/
theorem concrete_sig_byteflip (hH : HashInSub) (hP : PairingHyp) (cs' : Suite G1Pt)
    (hcs : SuiteOK cs') (sk : FrR) (σ : Signature FrR G1Sub) (msgs : Option (List Bytes))
    (header : Option Bytes)
    (hv : verify Concrete.env cs' (σ.map vS v1) (skToPk Concrete.env sk.1) msgs header = .ok ())
    (hA : σ.A.1 ≠ 0) (hz : sk.1 + σ.e.1 ≠ 0) (i : Nat) (hi : i < 80) (x : UInt8)
    (hx : ((σ.map vS v1).toBytes Concrete.env)[i]? ≠ some x) :
    let b' := ((σ.map vS v1).toBytes Concrete.env).set i x
    Signature.fromBytes Concrete.env b' = .err ∨
    ∃ σ', Signature.fromBytes Concrete.env b' = .ok σ' ∧
      verify Concrete.env cs' σ' (skToPk Concrete.env sk.1) msgs header ≠ .ok () := by
  obtain ⟨cs, rfl⟩ := suite_of_ok hcs
  have H := hom hH
  intro b'
  have hb : b' = (σ.toBytes subEnv).set i x := by simp only [b', Signature.toBytes_transfer H]
  rw [skToPk_transfer H, verify_transfer H] at hv
  rw [Signature.toBytes_transfer H] at hx
  have h := C02.sig_byteflip (lawful hP) cs sk σ msgs header hv
    (fun h0 => hA ((v1_eq_zero_iff _).mpr h0)) (vS_add_ne_zero hz) i hi x hx
  dsimp only at h
  rw [← hb] at h
  rcases h with h | ⟨σ', h1, h2⟩
  · exact Or.inl ((err_iff_of_map (Signature.fromBytes_transfer H b')).mpr h)
  · refine Or.inr ⟨σ'.map vS v1, ok_of_map (Signature.fromBytes_transfer H b') h1, ?_⟩
    rw [skToPk_transfer H, verify_transfer H]
    exact h2

/-- **Any change of the 80 octets** (`C02.sig_bytes_tamper`): decoding fails, or the decoded signature
is rejected by the executable `verify`, or it is a second signature: both components changed and
`(sk + e') • A' = (sk + e) • A` in the executable arithmetic. -/
theorem concrete_sig_bytes_tamper (hH : HashInSub) (hP : PairingHyp) (cs' : Suite G1Pt)
    (hcs : SuiteOK cs') (sk : FrR) (σ : Signature FrR G1Sub) (msgs : Option (List Bytes))
    (header : Option Bytes)
    (hv : verify Concrete.env cs' (σ.map vS v1) (skToPk Concrete.env sk.1) msgs header = .ok ())
    (hA : σ.A.1 ≠ 0) (hz : sk.1 + σ.e.1 ≠ 0) (b' : Bytes)
    (hb : b' ≠ (σ.map vS v1).toBytes Concrete.env) :
    Signature.fromBytes Concrete.env b' = .err ∨
    ∃ σ', Signature.fromBytes Concrete.env b' = .ok σ' ∧
      (verify Concrete.env cs' σ' (skToPk Concrete.env sk.1) msgs header ≠ .ok () ∨
        (σ'.A ≠ σ.A.1 ∧ σ'.e ≠ σ.e.1 ∧ (sk.1 + σ'.e) • σ'.A = (sk.1 + σ.e.1) • σ.A.1)) := by
  obtain ⟨cs, rfl⟩ := suite_of_ok hcs
  have H := hom hH
  rw [skToPk_transfer H, verify_transfer H] at hv
  rw [Signature.toBytes_transfer H] at hb
  rcases C02.sig_bytes_tamper (lawful hP) cs sk σ msgs header hv
    (fun h0 => hA ((v1_eq_zero_iff _).mpr h0)) (vS_add_ne_zero hz) b' hb with h | ⟨σ', h1, h2⟩
  · exact Or.inl ((err_iff_of_map (Signature.fromBytes_transfer H b')).mpr h)
  · refine Or.inr ⟨σ'.map vS v1, ok_of_map (Signature.fromBytes_transfer H b') h1, ?_⟩
    rcases h2 with h2 | ⟨n1, n2, e⟩
    · left
      rw [skToPk_transfer H, verify_transfer H]
      exact h2
    · right
      refine ⟨fun h => n1 (Subtype.ext h), fun h => n2 (Subtype.ext h), ?_⟩
      show (sk.1 + σ'.e.1) • σ'.A.1 = _
      rw [← H.S_add, ← H.S_add, ← H.G1_smul, ← H.G1_smul, e]

/-- Messages beyond the generator list, and zero messages, do not contribute to `B`, in the executable
arithmetic on subgroup points (`C02.calcB_append_zeros`). -/
theorem concrete_calcB_append_zeros (hH : HashInSub) (base Q1 : G1Sub) (d : FrR)
    (H1 H2 : List G1Sub) (ms : List FrR) (k : Nat) (hlen : H1.length = ms.length) :
    calcB base.1 Q1.1 d.1 (H1.map v1 ++ H2.map v1) (ms.map vS ++ List.replicate k (0 : Fr))
      = calcB base.1 Q1.1 d.1 (H1.map v1) (ms.map vS) := by
  have H := hom hH
  have e0 : List.replicate k (0 : Fr) = (List.replicate k (0 : FrR)).map vS := by
    rw [List.map_replicate]; exact congrArg _ coe_zero.symm
  rw [e0, ← List.map_append, ← List.map_append, calcB_nat H, calcB_nat H,
    C02.calcB_append_zeros base Q1 d H1 H2 ms k hlen]

/-- **Cross-suite** (`C02.cross_suite`): one signature accepted by the executable `verify` under two
suites — the two `B` values, each computed with the hash calls of its own suite, coincide. -/
theorem concrete_cross_suite (hH : HashInSub) (hP : PairingHyp) (c1 c2 : Suite G1Pt)
    (hc1 : SuiteOK c1) (hc2 : SuiteOK c2) (sk : FrR) (σ : Signature FrR G1Sub)
    (msgs msgs' : Option (List Bytes)) (header header' : Option Bytes)
    (hv : verify Concrete.env c1 (σ.map vS v1) (skToPk Concrete.env sk.1) msgs header = .ok ())
    (hv' : verify Concrete.env c2 (σ.map vS v1) (skToPk Concrete.env sk.1) msgs' header' = .ok ()) :
    ∃ ms Q1 Hs d ms' Q1' Hs' d',
      messagesToScalar Concrete.env c1 (msgs.getD []) c1.apiId = .ok ms ∧
      createGenerators Concrete.env c1 ((msgs.getD []).length + 1) (some c1.apiId)
        = .ok (Q1 :: Hs) ∧
      calculateDomain Concrete.env c1 (skToPk Concrete.env sk.1) Q1 Hs header (some c1.apiId)
        = .ok d ∧
      messagesToScalar Concrete.env c2 (msgs'.getD []) c2.apiId = .ok ms' ∧
      createGenerators Concrete.env c2 ((msgs'.getD []).length + 1) (some c2.apiId)
        = .ok (Q1' :: Hs') ∧
      calculateDomain Concrete.env c2 (skToPk Concrete.env sk.1) Q1' Hs' header' (some c2.apiId)
        = .ok d' ∧
      calcB c1.p1 Q1 d Hs ms = calcB c2.p1 Q1' d' Hs' ms' := by
  obtain ⟨h1, h2, h3, h4, h5, h6, h7, e1⟩ :=
    (concrete_verify_iff hH hP c1 hc1 sk σ msgs header).mp hv
  obtain ⟨k1, k2, k3, k4, k5, k6, k7, e2⟩ :=
    (concrete_verify_iff hH hP c2 hc2 sk σ msgs' header').mp hv'
  exact ⟨h1, h2, h3, h4, k1, k2, k3, k4, h5, h6, h7, k5, k6, k7, e1.symm.trans e2⟩

/-- **Cross-interface** (`C02.cross_interface`): one signature accepted both by the executable
`verify` and by the executable `verify_blind_sign` (same suite or not, any statements) — the plain
`B` (hash calls with `api_id` DSTs only) equals the blind `B` (hash calls with `api_id_blind` and
`"BLIND_" ++ api_id_blind` DSTs only). -/
theorem concrete_cross_interface (hH : HashInSub) (hP : PairingHyp) (c1 c2 : Suite G1Pt)
    (hc1 : SuiteOK c1) (hc2 : SuiteOK c2) (sk : FrR) (σ : Signature FrR G1Sub)
    (msgs msgs' committed : Option (List Bytes)) (header header' : Option Bytes)
    (blind : Option FrR)
    (hv : verify Concrete.env c1 (σ.map vS v1) (skToPk Concrete.env sk.1) msgs header = .ok ())
    (hv' : verifyBlindSign Concrete.env c2 (σ.map vS v1) (skToPk Concrete.env sk.1) header' msgs'
      committed (blind.map vS) = .ok ()) :
    ∃ ms Q1 Hs d ms' cms gens bgens Q1' Hs' Q2 Js d',
      messagesToScalar Concrete.env c1 (msgs.getD []) c1.apiId = .ok ms ∧
      createGenerators Concrete.env c1 ((msgs.getD []).length + 1) (some c1.apiId)
        = .ok (Q1 :: Hs) ∧
      calculateDomain Concrete.env c1 (skToPk Concrete.env sk.1) Q1 Hs header (some c1.apiId)
        = .ok d ∧
      messagesToScalar Concrete.env c2 (msgs'.getD []) c2.apiIdBlind = .ok ms' ∧
      messagesToScalar Concrete.env c2 (committed.getD []) c2.apiIdBlind = .ok cms ∧
      Generators.create Concrete.env c2 ((msgs'.getD []).length + 1) (some c2.apiIdBlind)
        = .ok gens ∧ gens.values = Q1' :: Hs' ∧
      Generators.create Concrete.env c2 ((committed.getD []).length + 1)
        (some (Bytes.ofAscii "BLIND_" ++ c2.apiIdBlind)) = .ok bgens ∧ bgens.values = Q2 :: Js ∧
      calculateDomain Concrete.env c2 (skToPk Concrete.env sk.1) Q1' (Hs' ++ Q2 :: Js) header'
        (some c2.apiIdBlind) = .ok d' ∧
      calcB c1.p1 Q1 d Hs ms
        = calcB c2.p1 Q1' d' (Hs' ++ Q2 :: Js) (ms' ++ (blind.map vS).getD 0 :: cms) := by
  obtain ⟨ms, Q1, Hs, d, h5, h6, h7, e1⟩ :=
    (concrete_verify_iff hH hP c1 hc1 sk σ msgs header).mp hv
  obtain ⟨ms', cms, gens, bgens, Q1', Hs', Q2, Js, d', k1, k2, k3, k4, k5, k6, k7, e2⟩ :=
    (concrete_verifyBlindSign_iff hH hP c2 hc2 sk σ header' msgs' committed blind).mp hv'
  exact ⟨ms, Q1, Hs, d, ms', cms, gens, bgens, Q1', Hs', Q2, Js, d', h5, h6, h7, k1, k2, k3, k4, k5,
    k6, k7, e1.symm.trans e2⟩

/-! ### "absent = default" (C01, C03, C05): no hypothesis, arbitrary raw records -/

section raw
variable {S G1 G2 : Type}
variable [Zero S] [One S] [Add S] [Sub S] [Neg S] [Mul S] [DecidableEq S]
variable [Zero G1] [Add G1] [Sub G1] [Neg G1] [SMul S G1] [DecidableEq G1]
variable [Zero G2] [Add G2] [Neg G2] [SMul S G2] [DecidableEq G2]
variable (env : Env S G1 G2)

/-- `None` and the explicit defaults are indistinguishable to every entry point, for EVERY instance of
the model's core classes (definitional unfolding; same statements as `C01.sign_none_eq_empty`,
`sign_header_none_eq_empty`, `verify_none_eq_empty`, `verify_header_none_eq_empty`,
`calculateDomain_header_none`, `C03.proofChallengeCalculate_ph_none`,
`C05.blindProofGen_none_eq_default`, `blindProofVerify_none_eq_default`, `blindSign_none_eq_empty`,
`commit_none_eq_empty`, `verifyBlindSign_none_eq_default`). -/
theorem raw_none_eq_default (cs : Suite G1) (sk : S) (pk : G2) (σ : Signature S G1)
    (π : PoKSignature S G1) (Q1 : G1) (Hs : List G1) (signature : Bytes)
    (messages : Option (List Bytes)) (header ph apiId : Option Bytes) (tape : List S)
    (init : ProofInitResult S G1) (di : List Nat) (dm : List S) :
    calculateDomain env cs pk Q1 Hs none apiId = calculateDomain env cs pk Q1 Hs (some []) apiId ∧
    sign env cs messages sk pk none = sign env cs messages sk pk (some []) ∧
    sign env cs none sk pk header = sign env cs (some []) sk pk header ∧
    verify env cs σ pk messages none = verify env cs σ pk messages (some []) ∧
    verify env cs σ pk none header = verify env cs σ pk (some []) header ∧
    proofChallengeCalculate env cs init di dm none apiId
      = proofChallengeCalculate env cs init di dm (some []) apiId ∧
    blindProofGen env cs pk signature header ph none none none none none tape
      = blindProofGen env cs pk signature header ph (some []) (some []) (some []) (some [])
          (some 0) tape ∧
    blindProofVerify env cs π pk header ph none none none none none
      = blindProofVerify env cs π pk header ph (some 0) (some []) (some []) (some []) (some []) ∧
    blindSign env cs sk pk none header none = blindSign env cs sk pk (some []) header (some []) ∧
    commit env cs none tape = commit env cs (some []) tape ∧
    verifyBlindSign env cs σ pk header messages none none
      = verifyBlindSign env cs σ pk header messages (some []) (some 0) :=
  ⟨rfl, rfl, rfl, rfl, rfl, rfl, rfl, rfl, rfl, rfl, rfl⟩

end raw

/-- **Absent = default for the executable instance**, arbitrary raw records, no hypothesis. -/
theorem concrete_none_eq_default (cs' : Suite G1Pt) (sk' : Fr) (pk' : G2Pt) (σ' : Signature Fr G1Pt)
    (π' : PoKSignature Fr G1Pt) (Q1 : G1Pt) (Hs : List G1Pt) (signature : Bytes)
    (messages : Option (List Bytes)) (header ph apiId : Option Bytes) (tape : List Fr)
    (init : ProofInitResult Fr G1Pt) (di : List Nat) (dm : List Fr) :
    calculateDomain Concrete.env cs' pk' Q1 Hs none apiId
      = calculateDomain Concrete.env cs' pk' Q1 Hs (some []) apiId ∧
    sign Concrete.env cs' messages sk' pk' none = sign Concrete.env cs' messages sk' pk' (some []) ∧
    sign Concrete.env cs' none sk' pk' header = sign Concrete.env cs' (some []) sk' pk' header ∧
    verify Concrete.env cs' σ' pk' messages none = verify Concrete.env cs' σ' pk' messages (some []) ∧
    verify Concrete.env cs' σ' pk' none header = verify Concrete.env cs' σ' pk' (some []) header ∧
    proofChallengeCalculate Concrete.env cs' init di dm none apiId
      = proofChallengeCalculate Concrete.env cs' init di dm (some []) apiId ∧
    blindProofGen Concrete.env cs' pk' signature header ph none none none none none tape
      = blindProofGen Concrete.env cs' pk' signature header ph (some []) (some []) (some [])
          (some []) (some 0) tape ∧
    blindProofVerify Concrete.env cs' π' pk' header ph none none none none none
      = blindProofVerify Concrete.env cs' π' pk' header ph (some 0) (some []) (some []) (some [])
          (some []) ∧
    blindSign Concrete.env cs' sk' pk' none header none
      = blindSign Concrete.env cs' sk' pk' (some []) header (some []) ∧
    commit Concrete.env cs' none tape = commit Concrete.env cs' (some []) tape ∧
    verifyBlindSign Concrete.env cs' σ' pk' header messages none none
      = verifyBlindSign Concrete.env cs' σ' pk' header messages (some []) (some 0) :=
  raw_none_eq_default Concrete.env cs' sk' pk' σ' π' Q1 Hs signature messages header ph apiId tape
    init di dm

/-! ### C03: never a panic in the decoders; `r1 = 0` -/

/-- The executable `Signature.fromBytes` and `messages_to_scalars` never panic
(`C03.Signature.fromBytes_ne_panic`, `C03.messagesToScalar_ne_panic`). -/
theorem concrete_decode_ne_panic (hH : HashInSub) (cs' : Suite G1Pt) (hcs : SuiteOK cs') (b : Bytes)
    (msgs : List Bytes) (apiId : Bytes) :
    Signature.fromBytes Concrete.env b ≠ .panic ∧
      messagesToScalar Concrete.env cs' msgs apiId ≠ .panic := by
  obtain ⟨cs, rfl⟩ := suite_of_ok hcs
  have H := hom hH
  exact ⟨fun h => C03.Signature.fromBytes_ne_panic (S := FrR) (G1 := G1Sub) (env := subEnv) b
      ((panic_iff_of_map (Signature.fromBytes_transfer H b)).mp h),
    fun h => C03.messagesToScalar_ne_panic (env := subEnv) cs msgs apiId
      ((panic_iff_of_map (messagesToScalar_transfer H cs msgs apiId)).mp h)⟩

/-- **`r1 = 0`** (`C03.r1_zero_rejected`): the executable `core_proof_gen` returns a proof with
`Abar = O`, and the executable `core_proof_verify` rejects it whatever else it is given (arbitrary raw
key, generators, statement). -/
theorem concrete_r1_zero_rejected (hH : HashInSub) (hP : PairingHyp) (cs' : Suite G1Pt)
    (hcs : SuiteOK cs') (pk : G2Sub) (σ : Signature FrR G1Sub) (gens : Generators G1Sub)
    (Q1 : G1Sub) (Hs : List G1Sub) (msgs : List FrR) (D : List Nat)
    (header ph apiId : Option Bytes) (r2 eT r1T r3T : FrR) (mT : List FrR) (domain : FrR)
    (hv : gens.values = Q1 :: Hs) (hlen : Hs.length = msgs.length)
    (hd : calculateDomain Concrete.env cs' pk.1 Q1.1 (Hs.map v1) header apiId = .ok domain.1)
    (hD : ∀ i ∈ D, i < msgs.length) (hr2 : r2.1 ≠ 0)
    (hmT : msgs.length - (sortDedup D).length ≤ mT.length)
    (hl48 : cs'.expandLen = 48) (hdst : (apiId.getD [] ++ cs'.h2s).length ≤ 255) :
    ∃ π', coreProofGen Concrete.env cs' pk.1 (σ.map vS v1) (gens.map v1) (msgs.map vS) D header ph
        apiId ((0 :: r2 :: eT :: r1T :: r3T :: mT).map vS) = .ok π' ∧ π'.Abar = 0 ∧
      ∀ (pk' : G2Pt) (gens' : Generators G1Pt) (header' ph' : Option Bytes) (dm : List Fr)
        (di : List Nat) (apiId' : Option Bytes),
        coreProofVerify Concrete.env cs' pk' π' gens' header' ph' dm di apiId' = .err := by
  obtain ⟨cs, rfl⟩ := suite_of_ok hcs
  have H := hom hH
  have hd0 : calculateDomain subEnv cs pk Q1 Hs header apiId = .ok domain :=
    (ok_iff_of_map H.fS_inj (calculateDomain_nat H cs pk Q1 Hs header apiId) domain).mp hd
  obtain ⟨π, hg, hA, _⟩ := C03.r1_zero_rejected (lawful hP) cs pk σ gens Q1 Hs msgs D header ph
    apiId r2 eT r1T r3T mT domain hv hlen hd0 hD (fun h0 => hr2 ((vS_eq_zero_iff _).mpr h0)) hmT
    (hashTotal_sub hH cs _ hdst hl48)
  have hA' : (π.map vS v1).Abar = 0 := by
    show (π.Abar).1 = 0
    rw [hA]; rfl
  refine ⟨π.map vS v1, ok_of_map (coreProofGen_nat H cs pk σ gens msgs D header ph apiId _) hg, hA',
    fun pk' gens' header' ph' dm di apiId' => ?_⟩
  exact raw_coreProofVerify_rejects_identity Concrete.env _ pk' _ gens' header' ph' dm di apiId'
    (Or.inl hA')

/-! ### C12: leftovers -/

/-- Two signatures with the same exponent that the executable `verify` accepts for the same vector,
header and key (`sk + e ≠ 0`) are equal (`C12.verify_unique`). -/
theorem concrete_verify_unique (hH : HashInSub) (hP : PairingHyp) (cs' : Suite G1Pt)
    (hcs : SuiteOK cs') (sk : FrR) (σ σ' : Signature FrR G1Sub) (msgs : List Bytes)
    (header : Option Bytes) (he : σ'.e.1 = σ.e.1) (hz : sk.1 + σ.e.1 ≠ 0)
    (hv : verify Concrete.env cs' (σ.map vS v1) (skToPk Concrete.env sk.1) (some msgs) header
      = .ok ())
    (hv' : verify Concrete.env cs' (σ'.map vS v1) (skToPk Concrete.env sk.1) (some msgs) header
      = .ok ()) : σ'.map vS v1 = σ.map vS v1 := by
  obtain ⟨cs, rfl⟩ := suite_of_ok hcs
  have H := hom hH
  rw [skToPk_transfer H, verify_transfer H] at hv hv'
  rw [C12.verify_unique (lawful hP) cs sk σ σ' msgs header (Subtype.ext he) (vS_add_ne_zero hz) hv
    hv']

/-- A stated old message that differs from the true one as an octet string but maps to the same
scalar under the executable `map_message_to_scalar_as_hash` is a collision of the executable
`hash_to_scalar` (`C12.update_wrong_old_collision`). -/
theorem concrete_update_wrong_old_collision (hH : HashInSub) (cs' : Suite G1Pt) (hcs : SuiteOK cs')
    (old old' : Bytes) (s' : Fr) (hne : old' ≠ old)
    (h : mapMessageToScalarAsHash Concrete.env cs' old cs'.apiId = .ok s')
    (h' : mapMessageToScalarAsHash Concrete.env cs' old' cs'.apiId = .ok s') :
    HashCollision Concrete.env cs' := by
  obtain ⟨cs, rfl⟩ := suite_of_ok hcs
  have H := hom hH
  obtain ⟨s, hs, rfl⟩ := exists_of_map_ok (mapMessageToScalarAsHash_transfer H cs old _) h
  have hs' := (ok_iff_of_map H.fS_inj (mapMessageToScalarAsHash_transfer H cs old' cs.apiId) s).mp h'
  exact hashCollision_transfer hH cs
    (C12.update_wrong_old_collision (env := subEnv) cs old old' s hne hs hs')

/-! ### theorems that hold for EVERY instance of the core classes: instantiation at `Concrete.env`

The following property theorems (C08 totality, C10 layouts / key generation / `hash_to_scalar`
characterisations, C11 generator and DST statements) are stated for an arbitrary instance of the
model's signature (`[Zero S] … [SMul S G2]`, no law). `#concrete_instance` CHECKS that each of them
instantiates at `S := Fr`, `G1 := G1Pt`, `G2 := G2Pt` (every instance argument found by type-class
resolution) and `env := Concrete.env`: they hold for the executable instance and arbitrary raw inputs
with no hypothesis. (Several are also restated explicitly in part 2.) -/

open Lean Elab Command Meta in
/-- `#concrete_instance thm₁ thm₂ …`: checks that each theorem, stated for an arbitrary instance of the
model's core classes, instantiates at the executable carriers `Fr`, `G1Pt`, `G2Pt` (all instance
arguments are found by type-class resolution) and, when its next argument is the environment, at
`Concrete.env`; the resulting term is type-checked. Fails otherwise. -/
elab "#concrete_instance " ns:ident* : command => liftTermElabM do
  for n in ns do
    let c ← realizeGlobalConstNoOverloadWithInfo n
    let ci ← getConstInfo c
    let mut ty := ci.type
    let mut e : Expr := mkConst c (ci.levelParams.map fun _ => Level.zero)
    for a in [mkConst ``Zk.Fr, mkConst ``Zk.G1Pt, mkConst ``Zk.G2Pt] do
      match ty with
      | .forallE _ d b _ =>
        unless d.isSort do throwError "{c}: expected a type argument, got {d}"
        e := mkApp e a; ty := b.instantiate1 a
      | _ => throwError "{c}: not enough arguments"
    let mut go := true
    while go do
      match ty with
      | .forallE _ d b .instImplicit =>
        let i ← synthInstance d
        e := mkApp e i; ty := b.instantiate1 i
      | .forallE _ d b _ =>
        if d.isAppOf ``Zk.Env then
          let i := mkConst ``Zk.Concrete.env
          unless ← isDefEq (← inferType i) d do throwError "{c}: environment type mismatch"
          e := mkApp e i; ty := b.instantiate1 i
        go := false
      | _ => go := false
    check e

#concrete_instance
  Zk.C08.blindProofGen_total Zk.C08.blindProofVerify_total Zk.C08.blindProofVerify_work_bound
  Zk.C08.blindSign_total Zk.C08.commit_total Zk.C08.coreCommitVerify_total
  Zk.C08.coreProofVerify_total Zk.C08.decode_total Zk.C08.deserializeAndValidateCommit_total
  Zk.C08.keyGen_total Zk.C08.panic_imp_generator_panic Zk.C08.pkFromCoordinates_total
  Zk.C08.proofGen_total Zk.C08.proofVerify_total Zk.C08.sign_panic Zk.C08.updateSignature_total
  Zk.C08.verifyBlindSign_total Zk.C08.verify_total Zk.C10.blindChallengeInput_prefixes
  Zk.C10.challengeInput_layout Zk.C10.challengeInput_prefixes Zk.C10.domainInput_layout
  Zk.C10.domainInput_prefixes Zk.C10.generators_length Zk.C10.generators_prefix
  Zk.C10.hashToScalar_err_iff Zk.C10.hashToScalar_ok_iff Zk.C10.keygen_err_iff Zk.C10.keygen_guards
  Zk.C10.keygen_info_none_eq_empty Zk.C10.keygen_never_panics Zk.C10.keygen_ok_iff
  Zk.C11.blindChallenge_dst Zk.C11.calculateDomain_dst Zk.C11.createGenerators_dsts
  Zk.C11.create_length Zk.C11.create_prefix Zk.C11.create_prefix_Q1_Hs Zk.C11.foreign_api_id_domain
  Zk.C11.generators_extend Zk.C11.generators_getElem_indep Zk.C11.generators_length
  Zk.C11.generators_never_err Zk.C11.generators_prefix Zk.C11.generators_prefix_indep
  Zk.C11.mapMessage_dst Zk.C11.messagesToScalar_dst Zk.C11.proofChallenge_dst

/-! ### C07: roles of the tape in `core_commit` and `proof_finalize` -/

/-- **Roles of the tape in the executable `core_commit`** (`C07.coreCommit_roles`): a successful run
used exactly the first `M + 2` tape entries `blind, s̃, m̃_1 … m̃_M`, each in one role; conclusions in
the executable arithmetic. -/
theorem concrete_coreCommit_roles (hH : HashInSub) (cs' : Suite G1Pt) (hcs : SuiteOK cs')
    (blindGens : List G1Sub) (cms : List FrR) (apiId : Option Bytes) (tape : List FrR)
    (com' : Commitment Fr G1Pt) (blind' : Fr)
    (h : coreCommit Concrete.env cs' (blindGens.map v1) (some (cms.map vS)) apiId (tape.map vS)
      = .ok (com', blind')) :
    ∃ (Q2 : G1Pt) (Js : List G1Pt) (sT : Fr) (mT : List Fr) (c : Fr),
      blindGens.map v1 = Q2 :: Js ∧ Js.length = cms.length ∧
      (tape.map vS).take (cms.length + 2) = blind' :: sT :: mT ∧ mT.length = cms.length ∧
      com'.commitment = sumZip (blind' • Q2) Js (cms.map vS) ∧
      calculateBlindChallenge Concrete.env cs' com'.commitment (sumZip (sT • Q2) Js mT)
        (blindGens.map v1) (some (apiId.getD [])) = .ok c ∧
      com'.proof = ⟨sT + blind' * c, (mT.zip (cms.map vS)).map (fun tm => tm.1 + tm.2 * c), c⟩ := by
  obtain ⟨cs, rfl⟩ := suite_of_ok hcs
  have H := hom hH
  obtain ⟨⟨com, blind⟩, h0, hcb⟩ :=
    exists_of_map_ok (coreCommit_nat H cs blindGens (some cms) apiId tape) h
  obtain ⟨rfl, rfl⟩ := Prod.mk.inj hcb
  obtain ⟨Q2, Js, sT, mT, c, hg, hJ, ht, hm, hC, hch, hp⟩ :=
    C07.coreCommit_roles (env := subEnv) cs blindGens cms apiId tape com blind h0
  have e1 : sumZip (blind.1 • Q2.1) (Js.map v1) (cms.map vS) = (sumZip (blind • Q2) Js cms).1 := by
    rw [← H.G1_smul]; exact sumZip_nat H _ Js cms
  have e2 : sumZip (sT.1 • Q2.1) (Js.map v1) (mT.map vS) = (sumZip (sT • Q2) Js mT).1 := by
    rw [← H.G1_smul]; exact sumZip_nat H _ Js mT
  refine ⟨Q2.1, Js.map v1, sT.1, mT.map vS, c.1, by rw [hg]; rfl, by rw [List.length_map, hJ],
    by rw [← List.map_take, ht]; rfl, by rw [List.length_map, hm], ?_, ?_, ?_⟩
  · show (com.commitment).1 = _
    rw [hC, e1]
  · show calculateBlindChallenge Concrete.env (cs.map v1) (com.commitment).1 _ _ _ = _
    rw [e2]
    exact ok_of_map (calculateBlindChallenge_nat H cs _ _ blindGens _) hch
  · show (com.proof).map vS = _
    rw [hp, ZKPoK.map_mk]
    dsimp only [vS]
    rw [H.S_add, H.S_mul]
    congr 1
    rw [List.map_map, zip_map_nat, List.map_map]
    apply List.map_congr_left
    intro tm _
    simp only [Function.comp, Prod.map_fst, Prod.map_snd, H.S_add, H.S_mul]

/-- **A successful executable `proof_finalize`, unfolded** (`C07.proofFinalize_roles`): the tape is
`r1, r2, ẽ, r̃1, r̃3, m̃…` with `r2 ≠ 0`, and the proof is the image of the record computed in the field
`FrR` (whose `+ − *` are the executable operations and whose inverse is the executable `sInv`). -/
theorem concrete_proofFinalize_roles (hH : HashInSub) (hP : PairingHyp)
    (init : ProofInitResult FrR G1Sub) (c e : FrR) (rs ums : List FrR) (π' : PoKSignature Fr G1Pt)
    (h : proofFinalize Concrete.env (init.map vS v1) c.1 e.1 (rs.map vS) (ums.map vS) = .ok π') :
    ∃ r1 r2 eT r1T r3T mT, rs = r1 :: r2 :: eT :: r1T :: r3T :: mT ∧ ums.length ≤ mT.length ∧
      r2.1 ≠ 0 ∧
      π' = (⟨init.Abar, init.Bbar, init.D, eT + e * c, r1T - r1 * c, r3T - r2⁻¹ * c,
        (mT.zip ums).map (fun tm => tm.1 + tm.2 * c), c⟩ : PoKSignature FrR G1Sub).map vS v1 := by
  have H := hom hH
  obtain ⟨π, h0, rfl⟩ := exists_of_map_ok (proofFinalize_nat H init c e rs ums) h
  obtain ⟨r1, r2, eT, r1T, r3T, mT, hrs, hl, hr2, hπ⟩ :=
    C07.proofFinalize_roles (lawful hP) init c e rs ums π h0
  exact ⟨r1, r2, eT, r1T, r3T, mT, hrs, hl, fun h0 => hr2 ((vS_eq_zero_iff _).mp h0), by rw [hπ]⟩

end Zk.Bridge3
