/-
C09  Encodings are canonical and strict.

Setting: the L1 model with an arbitrary lawful environment (`Lawful env pair`): the four
primitive codecs (scalar 32 bytes, G1 compressed 48, G2 compressed 96, G2 uncompressed 192)
are canonical (`Codec`: `dec (enc x) = some x`, fixed length, `dec b = some x → enc x = b`).
On top of that the theorems below establish, for every composite object of the API
(public key, secret key / blind factor, signature, proof, commitment proof, commitment):

* round trip  `fromBytes (toBytes x) = ok x`            (`*_roundtrip`),
* strictness  `fromBytes b = ok x → toBytes x = b` and the exact length (`*_strict`),
  hence injectivity of decoding (`*_decode_injective`),
* rejection of wrong lengths and trailing bytes, of the identity where the drafts forbid it
  (public key, signature point, the three proof points) and of a zero signature exponent.

Scalar-level strictness is proven outright for the concrete codec (`Zk.Concrete.sDec`, plain
`Nat` arithmetic): exactly the 32-byte strings with big-endian value `< r` are accepted
(`scalar_*`).

NOT proven here: point-level strictness (off-curve `x`, points outside the prime-order
subgroup, non-canonical flag bits / `x ≥ p`).  That is exactly the `Codec` law assumed of
`g1Dec`/`g2Dec`/`g2DecU` in `Lawful` for the L0 implementation and is exercised by the
differential tests against the Rust (`bls12_381_plus::from_compressed`), not by proof.
JSON is not part of the L1 model: serde writes the same octets as hex, see `hex_roundtrip`.
-/
import ZkProofs.Lemmas.Codecs
import ZkProofs.Lemmas.Total
import ZkProofs.Props.C01
set_option linter.unusedSectionVars false
set_option linter.unusedSimpArgs false
set_option linter.unusedVariables false
namespace Zk.C09
open Zk Res Zk.Codecs

section
variable {S G1 G2 GT : Type} [Field S] [DecidableEq S]
variable [AddCommGroup G1] [Module S G1] [DecidableEq G1]
variable [AddCommGroup G2] [Module S G2] [DecidableEq G2]
variable [AddCommGroup GT] [Module S GT]
variable {env : Env S G1 G2} {pair : G1 →ₗ[S] G2 →ₗ[S] GT}

/-! ### Public key: octets -/

theorem pk_roundtrip (hl : Lawful env pair) (g : G2) (hg : g ≠ 0) :
    (pkToBytes env g).length = 96 ∧ pkFromBytes env (pkToBytes env g) = .ok g := by
  refine ⟨hl.g2Codec.enc_len g, ?_⟩
  unfold pkFromBytes pkToBytes
  simp [hl.g2Codec.enc_len, hl.g2Codec.dec_enc, hg]

theorem pk_strict (hl : Lawful env pair) (b : Bytes) (g : G2) (h : pkFromBytes env b = .ok g) :
    pkToBytes env g = b ∧ b.length = 96 ∧ g ≠ 0 := by
  unfold pkFromBytes at h
  split at h
  · cases h
  · rename_i hlen
    cases hd : env.g2Dec b with
    | none => rw [hd] at h; cases h
    | some g' =>
      rw [hd] at h; simp only at h
      split at h
      · cases h
      · rename_i hz
        cases h
        exact ⟨hl.g2Codec.strict _ _ hd, by simpa using hlen, hz⟩

theorem rejects_wrong_length_pk (b : Bytes) (h : b.length ≠ 96) : pkFromBytes env b = .err := by
  unfold pkFromBytes; rw [if_pos h]

/-- The identity is never returned as a public key; in particular its canonical encoding (and
any other string decoding to it) is rejected. -/
theorem rejects_identity_pk (b : Bytes) (h : env.g2Dec b = some 0) : pkFromBytes env b = .err := by
  unfold pkFromBytes
  split
  · rfl
  · rw [h]; simp

theorem rejects_identity_pk_enc (hl : Lawful env pair) : pkFromBytes env (pkToBytes env 0) = .err :=
  rejects_identity_pk _ (hl.g2Codec.dec_enc 0)

/-! ### Public key: affine coordinates -/

theorem pk_coords_roundtrip (hl : Lawful env pair) (g : G2) (hg : g ≠ 0) :
    (pkToCoordinates env g).1.length = 96 ∧ (pkToCoordinates env g).2.length = 96 ∧
    pkFromCoordinates env (pkToCoordinates env g).1 (pkToCoordinates env g).2 = .ok g := by
  have hlen := hl.g2UCodec.enc_len g
  unfold pkFromCoordinates pkToCoordinates
  simp only [List.take_append_drop]
  have h1 : (List.take 96 (env.g2EncU g)).length = 96 := by simp [hlen]
  have h2 : (List.drop 96 (env.g2EncU g)).length = 96 := by simp [hlen]
  refine ⟨h1, h2, ?_⟩
  simp [h1, h2, hl.g2UCodec.dec_enc, hg]

theorem pk_coords_strict (hl : Lawful env pair) (x y : Bytes) (g : G2)
    (h : pkFromCoordinates env x y = .ok g) :
    pkToCoordinates env g = (x, y) ∧ x.length = 96 ∧ y.length = 96 ∧ g ≠ 0 := by
  unfold pkFromCoordinates at h
  split at h
  · cases h
  · rename_i hlen
    have hx : x.length = 96 := by omega
    have hy : y.length = 96 := by omega
    cases hd : env.g2DecU (x ++ y) with
    | none => rw [hd] at h; cases h
    | some g' =>
      rw [hd] at h; simp only at h
      split at h
      · cases h
      · rename_i hz
        cases h
        refine ⟨?_, hx, hy, hz⟩
        unfold pkToCoordinates
        simp only
        rw [hl.g2UCodec.strict _ _ hd, List.take_left' hx, List.drop_left' hx]

theorem rejects_wrong_length_pk_coords (x y : Bytes) (h : x.length ≠ 96 ∨ y.length ≠ 96) :
    pkFromCoordinates env x y = .err := by
  unfold pkFromCoordinates; rw [if_pos h]

theorem rejects_identity_pk_coords (x y : Bytes) (h : env.g2DecU (x ++ y) = some 0) :
    pkFromCoordinates env x y = .err := by
  unfold pkFromCoordinates
  split
  · rfl
  · rw [h]; simp

/-- Both encodings of a public key denote the same key. -/
theorem pk_octets_coords_agree (hl : Lawful env pair) (b x y : Bytes) (g g' : G2)
    (h1 : pkFromBytes env b = .ok g) (h2 : pkFromCoordinates env x y = .ok g')
    (hb : pkToBytes env g' = b) : g = g' := by
  have := (pk_strict hl b g h1).1
  exact hl.g2Codec.enc_injective (by simpa [pkToBytes] using this.trans hb.symm)

/-! ### Secret key and blind factor (32-byte scalar) -/

theorem sk_roundtrip (hl : Lawful env pair) (s : S) :
    (env.sEnc s).length = 32 ∧ skFromBytes env (env.sEnc s) = .ok s := by
  refine ⟨hl.sCodec.enc_len s, ?_⟩
  unfold skFromBytes
  simp [hl.sCodec.enc_len, hl.sCodec.dec_enc, Res.ofOptErr]

theorem sk_strict (hl : Lawful env pair) (b : Bytes) (s : S) (h : skFromBytes env b = .ok s) :
    env.sEnc s = b ∧ b.length = 32 := by
  unfold skFromBytes at h
  split at h
  · cases h
  · rename_i hlen
    cases hd : env.sDec b with
    | none => rw [hd] at h; cases h
    | some s' =>
      rw [hd] at h; cases h
      exact ⟨hl.sCodec.strict _ _ hd, by simpa using hlen⟩

theorem rejects_wrong_length_sk (b : Bytes) (h : b.length ≠ 32) : skFromBytes env b = .err := by
  unfold skFromBytes; rw [if_pos h]

/-! ### Signature (80 bytes) -/

/-- Re-export of `C01.sig_roundtrip`. -/
theorem sig_roundtrip (hl : Lawful env pair) (σ : Signature S G1) (hA : σ.A ≠ 0) (he : σ.e ≠ 0) :
    (σ.toBytes env).length = 80 ∧ Signature.fromBytes env (σ.toBytes env) = .ok σ :=
  C01.sig_roundtrip hl σ hA he

/-- Re-export of `C01.sig_decode_strict`. -/
theorem sig_strict (hl : Lawful env pair) (b : Bytes) (σ : Signature S G1)
    (h : Signature.fromBytes env b = .ok σ) : σ.toBytes env = b ∧ b.length = 80 :=
  C01.sig_decode_strict hl b σ h

theorem rejects_wrong_length_sig (b : Bytes) (h : b.length ≠ 80) :
    Signature.fromBytes env b = .err := by
  unfold Signature.fromBytes; rw [if_pos h]

/-- An accepted signature has `A ≠ identity` and `e ≠ 0`. -/
theorem sig_accepts_only_nonzero (b : Bytes) (σ : Signature S G1)
    (h : Signature.fromBytes env b = .ok σ) : σ.A ≠ 0 ∧ σ.e ≠ 0 := by
  unfold Signature.fromBytes at h
  split at h
  · cases h
  · cases hA : env.g1Dec (b.take 48) with
    | none => rw [hA] at h; cases h
    | some A =>
      rw [hA] at h; simp only at h
      cases he : env.sDec (b.drop 48) with
      | none => rw [he] at h; cases h
      | some e =>
        rw [he] at h; simp only at h
        split at h
        · cases h
        · rename_i hz
          cases h
          exact ⟨fun h0 => hz (Or.inl h0), fun h0 => hz (Or.inr h0)⟩

theorem rejects_identity_sigA (b : Bytes) (h : env.g1Dec (b.take 48) = some 0) :
    Signature.fromBytes env b = .err := by
  unfold Signature.fromBytes
  split
  · rfl
  · rw [h]; simp only
    split
    · rfl
    · simp

theorem rejects_e_zero (b : Bytes) (h : env.sDec (b.drop 48) = some 0) :
    Signature.fromBytes env b = .err := by
  unfold Signature.fromBytes
  split
  · rfl
  · split
    · rfl
    · rw [h]; simp

/-! ### Proof of knowledge (`272 + 32·U` bytes) -/

/-- `take m (drop n b) ++ drop (n + m) b = drop n b`. -/
theorem take_drop_chain {α} (b : List α) (n m : Nat) :
    (b.drop n).take m ++ b.drop (n + m) = b.drop n := by
  rw [drop_add', List.take_append_drop]

/-- Inversion of a successful `PoKSignature.fromBytes` (no assumption on the environment). -/
theorem proof_fromBytes_inv (b : Bytes) (π : PoKSignature S G1)
    (h : PoKSignature.fromBytes env b = .ok π) :
    272 ≤ b.length ∧ (b.length - 240) % 32 = 0 ∧
    env.g1Dec (b.take 48) = some π.Abar ∧ env.g1Dec ((b.drop 48).take 48) = some π.Bbar ∧
    env.g1Dec ((b.drop 96).take 48) = some π.D ∧
    π.Abar ≠ 0 ∧ π.Bbar ≠ 0 ∧ π.D ≠ 0 ∧
    env.sDec ((b.drop 144).take 32) = some π.eCap ∧
    env.sDec ((b.drop 176).take 32) = some π.r1Cap ∧
    env.sDec ((b.drop 208).take 32) = some π.r3Cap ∧
    ∃ ss, decodeScalars env (chunks32 (b.drop 240).length (b.drop 240)) = .ok ss ∧
      ss.getLast? = some π.challenge ∧ π.mCap = ss.dropLast := by
  unfold PoKSignature.fromBytes at h
  split at h
  · cases h
  · rename_i hlen
    cases h1 : env.g1Dec (b.take 48) with
    | none => rw [h1] at h; cases h
    | some Abar =>
    rw [h1] at h; simp only at h
    cases h2 : env.g1Dec ((b.drop 48).take 48) with
    | none => rw [h2] at h; cases h
    | some Bbar =>
    rw [h2] at h; simp only at h
    cases h3 : env.g1Dec ((b.drop 96).take 48) with
    | none => rw [h3] at h; cases h
    | some D =>
    rw [h3] at h; simp only at h
    split at h
    · cases h
    · rename_i hz
      cases h4 : env.sDec ((b.drop 144).take 32) with
      | none => rw [h4] at h; cases h
      | some eCap =>
      rw [h4] at h; simp only at h
      cases h5 : env.sDec ((b.drop 176).take 32) with
      | none => rw [h5] at h; cases h
      | some r1Cap =>
      rw [h5] at h; simp only at h
      cases h6 : env.sDec ((b.drop 208).take 32) with
      | none => rw [h6] at h; cases h
      | some r3Cap =>
      rw [h6] at h; simp only at h
      cases h7 : decodeScalars env (chunks32 (b.drop 240).length (b.drop 240)) with
      | err => rw [h7] at h; cases h
      | panic => rw [h7] at h; cases h
      | ok ss =>
      rw [h7] at h; simp only at h
      cases h8 : ss.getLast? with
      | none => rw [h8] at h; cases h
      | some c =>
      rw [h8] at h; cases h
      refine ⟨by omega, by omega, rfl, rfl, rfl, fun h0 => hz (Or.inl h0),
        fun h0 => hz (Or.inr (Or.inl h0)), fun h0 => hz (Or.inr (Or.inr h0)), rfl, rfl, rfl,
        ss, rfl, h8, rfl⟩

/-- Assembling a successful `PoKSignature.fromBytes` from its parts. -/
theorem proof_fromBytes_of_parts (b : Bytes) (Abar Bbar D : G1) (eCap r1Cap r3Cap c : S)
    (ss : List S) (hlen : 272 ≤ b.length) (hmod : (b.length - 240) % 32 = 0)
    (h1 : env.g1Dec (b.take 48) = some Abar) (h2 : env.g1Dec ((b.drop 48).take 48) = some Bbar)
    (h3 : env.g1Dec ((b.drop 96).take 48) = some D)
    (hA : Abar ≠ 0) (hB : Bbar ≠ 0) (hD : D ≠ 0)
    (h4 : env.sDec ((b.drop 144).take 32) = some eCap)
    (h5 : env.sDec ((b.drop 176).take 32) = some r1Cap)
    (h6 : env.sDec ((b.drop 208).take 32) = some r3Cap)
    (h7 : decodeScalars env (chunks32 (b.drop 240).length (b.drop 240)) = .ok ss)
    (h8 : ss.getLast? = some c) :
    PoKSignature.fromBytes env b = .ok ⟨Abar, Bbar, D, eCap, r1Cap, r3Cap, ss.dropLast, c⟩ := by
  unfold PoKSignature.fromBytes
  rw [if_neg (by omega), h1]; simp only
  rw [h2]; simp only
  rw [h3]; simp only
  rw [if_neg (by simp [hA, hB, hD]), h4]; simp only
  rw [h5]; simp only
  rw [h6]; simp only
  rw [h7]; simp only
  rw [h8]

theorem proof_roundtrip (hl : Lawful env pair) (π : PoKSignature S G1)
    (hA : π.Abar ≠ 0) (hB : π.Bbar ≠ 0) (hD : π.D ≠ 0) :
    (π.toBytes env).length = 272 + 32 * π.mCap.length ∧
    PoKSignature.fromBytes env (π.toBytes env) = .ok π := by
  have hlen := PoKSignature.toBytes_length hl π
  refine ⟨hlen, ?_⟩
  have la := hl.g1Codec.enc_len
  have ls := hl.sCodec.enc_len
  obtain ⟨Abar, Bbar, D, eCap, r1Cap, r3Cap, mCap, c⟩ := π
  simp only at hA hB hD hlen
  generalize hb : PoKSignature.toBytes env ⟨Abar, Bbar, D, eCap, r1Cap, r3Cap, mCap, c⟩ = b at *
  obtain ⟨r6, hr6⟩ : ∃ r, r = mCap.flatMap env.sEnc ++ env.sEnc c := ⟨_, rfl⟩
  obtain ⟨r5, hr5⟩ : ∃ r, r = env.sEnc r3Cap ++ r6 := ⟨_, rfl⟩
  obtain ⟨r4, hr4⟩ : ∃ r, r = env.sEnc r1Cap ++ r5 := ⟨_, rfl⟩
  obtain ⟨r3, hr3⟩ : ∃ r, r = env.sEnc eCap ++ r4 := ⟨_, rfl⟩
  obtain ⟨r2, hr2⟩ : ∃ r, r = env.g1Enc D ++ r3 := ⟨_, rfl⟩
  obtain ⟨r1, hr1⟩ : ∃ r, r = env.g1Enc Bbar ++ r2 := ⟨_, rfl⟩
  have hb' : b = env.g1Enc Abar ++ r1 := by
    rw [← hb, hr1, hr2, hr3, hr4, hr5, hr6]; simp only [PoKSignature.toBytes, List.append_assoc]
  have d1 : b.drop 48 = r1 := by rw [hb']; exact List.drop_left' (la _)
  have d2 : b.drop 96 = r2 := by
    rw [show 96 = 48 + 48 from rfl, drop_add', d1, hr1]; exact List.drop_left' (la _)
  have d3 : b.drop 144 = r3 := by
    rw [show 144 = 96 + 48 from rfl, drop_add', d2, hr2]; exact List.drop_left' (la _)
  have d4 : b.drop 176 = r4 := by
    rw [show 176 = 144 + 32 from rfl, drop_add', d3, hr3]; exact List.drop_left' (ls _)
  have d5 : b.drop 208 = r5 := by
    rw [show 208 = 176 + 32 from rfl, drop_add', d4, hr4]; exact List.drop_left' (ls _)
  have d6 : b.drop 240 = r6 := by
    rw [show 240 = 208 + 32 from rfl, drop_add', d5, hr5]; exact List.drop_left' (ls _)
  have key := proof_fromBytes_of_parts (env := env) b Abar Bbar D eCap r1Cap r3Cap c (mCap ++ [c])
    (by omega) (by omega)
    (by rw [hb', List.take_left' (la _)]; exact hl.g1Codec.dec_enc _)
    (by rw [d1, hr1, List.take_left' (la _)]; exact hl.g1Codec.dec_enc _)
    (by rw [d2, hr2, List.take_left' (la _)]; exact hl.g1Codec.dec_enc _)
    hA hB hD
    (by rw [d3, hr3, List.take_left' (ls _)]; exact hl.sCodec.dec_enc _)
    (by rw [d4, hr4, List.take_left' (ls _)]; exact hl.sCodec.dec_enc _)
    (by rw [d5, hr5, List.take_left' (ls _)]; exact hl.sCodec.dec_enc _)
    (by rw [d6, hr6]; exact decode_tail hl mCap c)
    (by simp)
  simpa using key

theorem proof_strict (hl : Lawful env pair) (b : Bytes) (π : PoKSignature S G1)
    (h : PoKSignature.fromBytes env b = .ok π) :
    π.toBytes env = b ∧ b.length = 272 + 32 * π.mCap.length := by
  obtain ⟨hlen, hmod, h1, h2, h3, _, _, _, h4, h5, h6, ss, h7, h8, h9⟩ := proof_fromBytes_inv b π h
  have key : π.toBytes env = b := by
    have htail := tail_strict hl (b.drop 240) (by simp; omega) ss π.challenge h7 h8
    rw [← h9] at htail
    simp only [PoKSignature.toBytes, List.append_assoc]
    rw [htail, hl.g1Codec.strict _ _ h1, hl.g1Codec.strict _ _ h2, hl.g1Codec.strict _ _ h3,
      hl.sCodec.strict _ _ h4, hl.sCodec.strict _ _ h5, hl.sCodec.strict _ _ h6]
    rw [take_drop_chain b 208 32, take_drop_chain b 176 32, take_drop_chain b 144 32,
      take_drop_chain b 96 48, take_drop_chain b 48 48, List.take_append_drop]
  refine ⟨key, ?_⟩
  rw [← key]; exact PoKSignature.toBytes_length hl π

theorem rejects_wrong_length_proof (b : Bytes) (h : b.length < 272 ∨ (b.length - 240) % 32 ≠ 0) :
    PoKSignature.fromBytes env b = .err := by
  unfold PoKSignature.fromBytes; rw [if_pos h]

/-- An accepted proof has none of `Abar`, `Bbar`, `D` equal to the identity. -/
theorem proof_accepts_only_nonzero (b : Bytes) (π : PoKSignature S G1)
    (h : PoKSignature.fromBytes env b = .ok π) : π.Abar ≠ 0 ∧ π.Bbar ≠ 0 ∧ π.D ≠ 0 := by
  obtain ⟨_, _, _, _, _, hA, hB, hD, _⟩ := proof_fromBytes_inv b π h
  exact ⟨hA, hB, hD⟩

/-- If any of the three 48-byte point fields decodes to the identity, the proof is rejected. -/
theorem rejects_identity_proof_points (b : Bytes)
    (h : env.g1Dec (b.take 48) = some 0 ∨ env.g1Dec ((b.drop 48).take 48) = some 0 ∨
      env.g1Dec ((b.drop 96).take 48) = some 0) :
    PoKSignature.fromBytes env b = .err := by
  cases hd : PoKSignature.fromBytes env b with
  | err => rfl
  | panic => exact absurd hd (Zk.Total.PoKSignature.fromBytes_ne_panic env b)
  | ok π =>
    exfalso
    obtain ⟨_, _, h1, h2, h3, hA, hB, hD, _⟩ := proof_fromBytes_inv b π hd
    rcases h with h | h | h
    · rw [h] at h1; exact hA (Option.some.inj h1).symm
    · rw [h] at h2; exact hB (Option.some.inj h2).symm
    · rw [h] at h3; exact hD (Option.some.inj h3).symm

/-! ### Commitment proof `ZKPoK` (`64 + 32·M` bytes) -/

theorem zkpok_fromBytes_inv (b : Bytes) (z : ZKPoK S) (h : ZKPoK.fromBytes env b = .ok z) :
    64 ≤ b.length ∧ b.length % 32 = 0 ∧ env.sDec (b.take 32) = some z.sCap ∧
    ∃ ss, decodeScalars env (chunks32 (b.drop 32).length (b.drop 32)) = .ok ss ∧
      ss.getLast? = some z.challenge ∧ z.mCap = ss.dropLast := by
  unfold ZKPoK.fromBytes at h
  split at h
  · cases h
  · rename_i hlen
    cases h1 : env.sDec (b.take 32) with
    | none => rw [h1] at h; cases h
    | some sCap =>
    rw [h1] at h; simp only at h
    cases h7 : decodeScalars env (chunks32 (b.drop 32).length (b.drop 32)) with
    | err => rw [h7] at h; cases h
    | panic => rw [h7] at h; cases h
    | ok ss =>
    rw [h7] at h; simp only at h
    cases h8 : ss.getLast? with
    | none => rw [h8] at h; cases h
    | some c =>
    rw [h8] at h; cases h
    exact ⟨by omega, by omega, rfl, ss, rfl, h8, rfl⟩

theorem zkpok_roundtrip (hl : Lawful env pair) (z : ZKPoK S) :
    (z.toBytes env).length = 64 + 32 * z.mCap.length ∧
    ZKPoK.fromBytes env (z.toBytes env) = .ok z := by
  have hlen := ZKPoK.toBytes_length hl z
  refine ⟨hlen, ?_⟩
  have ls := hl.sCodec.enc_len
  obtain ⟨sCap, mCap, c⟩ := z
  simp only at hlen
  generalize hb : ZKPoK.toBytes env ⟨sCap, mCap, c⟩ = b at *
  have hb' : b = env.sEnc sCap ++ (mCap.flatMap env.sEnc ++ env.sEnc c) := by
    rw [← hb]; simp only [ZKPoK.toBytes, List.append_assoc]
  have d1 : b.drop 32 = mCap.flatMap env.sEnc ++ env.sEnc c := by
    rw [hb']; exact List.drop_left' (ls _)
  have t1 : env.sDec (b.take 32) = some sCap := by
    rw [hb', List.take_left' (ls _)]; exact hl.sCodec.dec_enc _
  unfold ZKPoK.fromBytes
  rw [if_neg (by omega), t1]; simp only
  rw [d1, decode_tail hl mCap c]
  simp

theorem zkpok_strict (hl : Lawful env pair) (b : Bytes) (z : ZKPoK S)
    (h : ZKPoK.fromBytes env b = .ok z) :
    z.toBytes env = b ∧ b.length = 64 + 32 * z.mCap.length := by
  obtain ⟨hlen, hmod, h1, ss, h7, h8, h9⟩ := zkpok_fromBytes_inv b z h
  have key : z.toBytes env = b := by
    have htail := tail_strict hl (b.drop 32) (by simp; omega) ss z.challenge h7 h8
    rw [← h9] at htail
    simp only [ZKPoK.toBytes, List.append_assoc]
    rw [htail, hl.sCodec.strict _ _ h1, List.take_append_drop]
  refine ⟨key, ?_⟩
  rw [← key]; exact ZKPoK.toBytes_length hl z

theorem rejects_wrong_length_zkpok (b : Bytes) (h : b.length < 64 ∨ b.length % 32 ≠ 0) :
    ZKPoK.fromBytes env b = .err := by
  unfold ZKPoK.fromBytes; rw [if_pos h]

/-! ### Commitment with proof (`112 + 32·M` bytes) -/

theorem commitment_fromBytes_inv (b : Bytes) (c : Commitment S G1)
    (h : Commitment.fromBytes env b = .ok c) :
    48 ≤ b.length ∧ env.g1Dec (b.take 48) = some c.commitment ∧
    ZKPoK.fromBytes env (b.drop 48) = .ok c.proof := by
  unfold Commitment.fromBytes at h
  split at h
  · cases h
  · rename_i hlen
    cases h1 : env.g1Dec (b.take 48) with
    | none => rw [h1] at h; cases h
    | some C =>
    rw [h1] at h; simp only at h
    cases h2 : ZKPoK.fromBytes env (b.drop 48) with
    | err => rw [h2] at h; cases h
    | panic => rw [h2] at h; cases h
    | ok z => rw [h2] at h; cases h; exact ⟨by omega, rfl, rfl⟩

theorem commitment_roundtrip (hl : Lawful env pair) (c : Commitment S G1) :
    (c.toBytes env).length = 112 + 32 * c.proof.mCap.length ∧
    Commitment.fromBytes env (c.toBytes env) = .ok c := by
  have hlen := Commitment.toBytes_length hl c
  refine ⟨hlen, ?_⟩
  have la := hl.g1Codec.enc_len c.commitment
  unfold Commitment.fromBytes
  rw [if_neg (by omega)]
  unfold Commitment.toBytes
  rw [List.take_left' la, List.drop_left' la, hl.g1Codec.dec_enc, (zkpok_roundtrip hl c.proof).2]

theorem commitment_strict (hl : Lawful env pair) (b : Bytes) (c : Commitment S G1)
    (h : Commitment.fromBytes env b = .ok c) :
    c.toBytes env = b ∧ b.length = 112 + 32 * c.proof.mCap.length := by
  obtain ⟨hlen, h1, h2⟩ := commitment_fromBytes_inv b c h
  have key : c.toBytes env = b := by
    unfold Commitment.toBytes
    rw [(zkpok_strict hl _ _ h2).1, hl.g1Codec.strict _ _ h1, List.take_append_drop]
  refine ⟨key, ?_⟩
  rw [← key]; exact Commitment.toBytes_length hl c

theorem rejects_wrong_length_commitment (b : Bytes)
    (h : b.length < 112 ∨ (b.length - 48) % 32 ≠ 0) : Commitment.fromBytes env b = .err := by
  unfold Commitment.fromBytes
  split
  · rfl
  · rename_i h48
    have : ZKPoK.fromBytes env (b.drop 48) = .err :=
      rejects_wrong_length_zkpok _ (by simp; omega)
    rw [this]
    split <;> rfl

/-! ### Decoding is injective -/

theorem pk_decode_injective (hl : Lawful env pair) (b b' : Bytes) (g : G2)
    (h : pkFromBytes env b = .ok g) (h' : pkFromBytes env b' = .ok g) : b = b' :=
  (pk_strict hl b g h).1.symm.trans (pk_strict hl b' g h').1

theorem pk_coords_decode_injective (hl : Lawful env pair) (x y x' y' : Bytes) (g : G2)
    (h : pkFromCoordinates env x y = .ok g) (h' : pkFromCoordinates env x' y' = .ok g) :
    x = x' ∧ y = y' := by
  have := (pk_coords_strict hl x y g h).1.symm.trans (pk_coords_strict hl x' y' g h').1
  exact ⟨congrArg Prod.fst this, congrArg Prod.snd this⟩

theorem sk_decode_injective (hl : Lawful env pair) (b b' : Bytes) (s : S)
    (h : skFromBytes env b = .ok s) (h' : skFromBytes env b' = .ok s) : b = b' :=
  (sk_strict hl b s h).1.symm.trans (sk_strict hl b' s h').1

theorem sig_decode_injective (hl : Lawful env pair) (b b' : Bytes) (σ : Signature S G1)
    (h : Signature.fromBytes env b = .ok σ) (h' : Signature.fromBytes env b' = .ok σ) : b = b' :=
  (sig_strict hl b σ h).1.symm.trans (sig_strict hl b' σ h').1

theorem proof_decode_injective (hl : Lawful env pair) (b b' : Bytes) (π : PoKSignature S G1)
    (h : PoKSignature.fromBytes env b = .ok π) (h' : PoKSignature.fromBytes env b' = .ok π) :
    b = b' :=
  (proof_strict hl b π h).1.symm.trans (proof_strict hl b' π h').1

theorem zkpok_decode_injective (hl : Lawful env pair) (b b' : Bytes) (z : ZKPoK S)
    (h : ZKPoK.fromBytes env b = .ok z) (h' : ZKPoK.fromBytes env b' = .ok z) : b = b' :=
  (zkpok_strict hl b z h).1.symm.trans (zkpok_strict hl b' z h').1

theorem commitment_decode_injective (hl : Lawful env pair) (b b' : Bytes) (c : Commitment S G1)
    (h : Commitment.fromBytes env b = .ok c) (h' : Commitment.fromBytes env b' = .ok c) :
    b = b' :=
  (commitment_strict hl b c h).1.symm.trans (commitment_strict hl b' c h').1

/-- **No two distinct octet strings decode to the same object**, for all six octet codecs. -/
theorem decode_injective (hl : Lawful env pair) (b b' : Bytes) :
    (∀ g, pkFromBytes env b = .ok g → pkFromBytes env b' = .ok g → b = b') ∧
    (∀ s, skFromBytes env b = .ok s → skFromBytes env b' = .ok s → b = b') ∧
    (∀ σ, Signature.fromBytes env b = .ok σ → Signature.fromBytes env b' = .ok σ → b = b') ∧
    (∀ π, PoKSignature.fromBytes env b = .ok π → PoKSignature.fromBytes env b' = .ok π →
      b = b') ∧
    (∀ z, ZKPoK.fromBytes env b = .ok z → ZKPoK.fromBytes env b' = .ok z → b = b') ∧
    (∀ c, Commitment.fromBytes env b = .ok c → Commitment.fromBytes env b' = .ok c → b = b') :=
  ⟨pk_decode_injective hl b b', sk_decode_injective hl b b', sig_decode_injective hl b b',
    proof_decode_injective hl b b', zkpok_decode_injective hl b b',
    commitment_decode_injective hl b b'⟩

/-! ### Trailing bytes -/

/-- Fixed-size codecs: any non-empty suffix makes the decoder fail. -/
theorem rejects_trailing_pk (hl : Lawful env pair) (b t : Bytes) (g : G2)
    (h : pkFromBytes env b = .ok g) (ht : t ≠ []) : pkFromBytes env (b ++ t) = .err := by
  have := (pk_strict hl b g h).2.1
  have : t.length ≠ 0 := fun h0 => ht (List.eq_nil_of_length_eq_zero h0)
  exact rejects_wrong_length_pk _ (by simp; omega)

theorem rejects_trailing_sk (hl : Lawful env pair) (b t : Bytes) (s : S)
    (h : skFromBytes env b = .ok s) (ht : t ≠ []) : skFromBytes env (b ++ t) = .err := by
  have := (sk_strict hl b s h).2
  have : t.length ≠ 0 := fun h0 => ht (List.eq_nil_of_length_eq_zero h0)
  exact rejects_wrong_length_sk _ (by simp; omega)

theorem rejects_trailing_sig (hl : Lawful env pair) (b t : Bytes) (σ : Signature S G1)
    (h : Signature.fromBytes env b = .ok σ) (ht : t ≠ []) :
    Signature.fromBytes env (b ++ t) = .err := by
  have := (sig_strict hl b σ h).2
  have : t.length ≠ 0 := fun h0 => ht (List.eq_nil_of_length_eq_zero h0)
  exact rejects_wrong_length_sig _ (by simp; omega)

/-- Variable-size codecs: a suffix that is not a whole number of 32-byte blocks makes the
decoder fail … -/
theorem rejects_trailing_proof (hl : Lawful env pair) (b t : Bytes) (π : PoKSignature S G1)
    (h : PoKSignature.fromBytes env b = .ok π) (ht : t.length % 32 ≠ 0) :
    PoKSignature.fromBytes env (b ++ t) = .err := by
  have := (proof_strict hl b π h).2
  exact rejects_wrong_length_proof _ (Or.inr (by simp; omega))

theorem rejects_trailing_zkpok (hl : Lawful env pair) (b t : Bytes) (z : ZKPoK S)
    (h : ZKPoK.fromBytes env b = .ok z) (ht : t.length % 32 ≠ 0) :
    ZKPoK.fromBytes env (b ++ t) = .err := by
  have := (zkpok_strict hl b z h).2
  exact rejects_wrong_length_zkpok _ (Or.inr (by simp; omega))

theorem rejects_trailing_commitment (hl : Lawful env pair) (b t : Bytes) (c : Commitment S G1)
    (h : Commitment.fromBytes env b = .ok c) (ht : t.length % 32 ≠ 0) :
    Commitment.fromBytes env (b ++ t) = .err := by
  have := (commitment_strict hl b c h).2
  exact rejects_wrong_length_commitment _ (Or.inr (by simp; omega))

/-- … and ANY non-empty suffix (including whole blocks, which are read as further `m^`
scalars) never decodes to the same object. -/
theorem trailing_changes_proof (hl : Lawful env pair) (b t : Bytes) (π : PoKSignature S G1)
    (h : PoKSignature.fromBytes env b = .ok π) (ht : t ≠ []) :
    PoKSignature.fromBytes env (b ++ t) ≠ .ok π := fun h' =>
  ht (List.append_right_eq_self.mp (proof_decode_injective hl _ _ π h' h))

theorem trailing_changes_zkpok (hl : Lawful env pair) (b t : Bytes) (z : ZKPoK S)
    (h : ZKPoK.fromBytes env b = .ok z) (ht : t ≠ []) :
    ZKPoK.fromBytes env (b ++ t) ≠ .ok z := fun h' =>
  ht (List.append_right_eq_self.mp (zkpok_decode_injective hl _ _ z h' h))

theorem trailing_changes_commitment (hl : Lawful env pair) (b t : Bytes) (c : Commitment S G1)
    (h : Commitment.fromBytes env b = .ok c) (ht : t ≠ []) :
    Commitment.fromBytes env (b ++ t) ≠ .ok c := fun h' =>
  ht (List.append_right_eq_self.mp (commitment_decode_injective hl _ _ c h' h))

end

/-! ### The concrete scalar codec: non-canonical scalars are rejected

`Zk.Concrete.sDec` / `Concrete.env.sEnc` are the executable model of `Scalar::from_bytes_be` /
`to_bytes_be` (plain `Nat` arithmetic, `R` = the group order). -/

open Zk.Codecs.ScalarCodec in
/-- Exactly the canonical strings are accepted: 32 bytes, big-endian value below `r`. -/
theorem scalar_accepts_iff (b : Bytes) (s : Fr) :
    Concrete.sDec b = some s ↔ b.length = 32 ∧ os2ip b < R ∧ s.v = os2ip b :=
  sDec_eq_some_iff b s

/-- Every string whose value is `≥ r` is rejected (e.g. the encodings of `r`, `r+1`,
`2^256 − 1`). -/
theorem rejects_scalar_ge_r (b : Bytes) (h : R ≤ os2ip b) : Concrete.sDec b = none :=
  Zk.Codecs.ScalarCodec.rejects_scalar_ge_r b h

theorem rejects_scalar_wrong_length (b : Bytes) (h : b.length ≠ 32) : Concrete.sDec b = none :=
  Zk.Codecs.ScalarCodec.rejects_scalar_wrong_length b h

/-- The concrete scalar codec satisfies the `Codec` law assumed in `Lawful.sCodec`, on reduced
scalars (`s.v < R`, which every value produced by the model's field operations satisfies). -/
theorem scalar_codec_canonical :
    Codec (fun s : Zk.Codecs.ScalarCodec.FrR => Concrete.env.sEnc s.1)
      Zk.Codecs.ScalarCodec.sDecR 32 :=
  Zk.Codecs.ScalarCodec.scalarCodec

/-- The environment's scalar decoder is `Concrete.sDec`. -/
theorem env_sDec_eq : Concrete.env.sDec = Concrete.sDec := rfl

theorem scalar_roundtrip (s : Fr) (hs : s.v < R) :
    (Concrete.env.sEnc s).length = 32 ∧ Concrete.env.sDec (Concrete.env.sEnc s) = some s := by
  rw [env_sDec_eq]
  exact ⟨Zk.Codecs.ScalarCodec.sEnc_length s, Zk.Codecs.ScalarCodec.sDec_sEnc s hs⟩

theorem scalar_strict (b : Bytes) (s : Fr) (h : Concrete.env.sDec b = some s) :
    Concrete.env.sEnc s = b ∧ s.v < R := by
  rw [env_sDec_eq] at h
  exact Zk.Codecs.ScalarCodec.sDec_strict b s h

/-- Consequently the concrete `BBSplusSecretKey::from_bytes` / `BlindFactor::from_bytes`
reject every out-of-range scalar. -/
theorem concrete_sk_rejects_ge_r (b : Bytes) (h : R ≤ os2ip b) :
    skFromBytes Concrete.env b = .err := by
  unfold skFromBytes
  split
  · rfl
  · rw [env_sDec_eq, rejects_scalar_ge_r b h]; rfl

/-! ### Hex transport (the string form used by the JSON fixtures and the harness) -/

theorem hexVal_hexDigit : ∀ n : Fin 16, Bytes.hexVal (Bytes.hexDigit n.val) = some n.val := by
  decide

theorem ofHexChars_toHex (b : Bytes) :
    Bytes.ofHexChars
      (b.flatMap fun x => [Bytes.hexDigit (x.toNat / 16), Bytes.hexDigit (x.toNat % 16)])
      = some b := by
  induction b with
  | nil => rfl
  | cons x b ih =>
    have hx : x.toNat < 256 := x.toNat_lt
    have h1 := hexVal_hexDigit ⟨x.toNat / 16, by omega⟩
    have h2 := hexVal_hexDigit ⟨x.toNat % 16, by omega⟩
    simp only at h1 h2
    rw [List.flatMap_cons]
    simp only [List.cons_append, List.nil_append, Bytes.ofHexChars, h1, h2, ih]
    have : 16 * (x.toNat / 16) + x.toNat % 16 = x.toNat := Nat.div_add_mod _ _
    rw [this, UInt8.ofNat_toNat]

/-- Every byte string survives lower-case hex encoding. -/
theorem hex_roundtrip (b : Bytes) : Bytes.ofHex (Bytes.toHex b) = some b := by
  unfold Bytes.ofHex Bytes.toHex
  rw [String.toList_ofList]
  exact ofHexChars_toHex b

end Zk.C09
