/-
C11  Domain separation — the reference laws.

* `generators_length`, `generators_prefix`: `create_generators(n, api_id)` returns exactly `n`
  points and, for every `k ≤ n`, its first `k` points are exactly `create_generators(k, api_id)`:
  the generator sequence of an api id is ONE infinite sequence; the first `k` do not depend on
  how many are requested.  For all `n`, `k`, every api id (present or absent), both suites.
* `foreign_api_id_*`: every hash in the protocol is made under a DST that starts with the api
  id; different api ids give different DSTs (same suffix: always; different suffixes: when the
  api ids have the same length).  Pairwise distinctness of the concrete constants is C02's
  `dst_separation`.

The generator laws are stated for the BARE model (core type classes, arbitrary `Env`, nothing
assumed about `expand` / `hashToG1`), so they also hold for the concrete BLS12-381 instance.
-/
import ZkProofs.Lemmas.Update
set_option linter.unusedSectionVars false
set_option linter.unusedVariables false
namespace Zk.C11
open Zk Res Zk.Upd

section bare
variable {S G1 G2 : Type}
variable [Zero S] [One S] [Add S] [Sub S] [Neg S] [Mul S] [DecidableEq S]
variable [Zero G1] [Add G1] [Sub G1] [Neg G1] [SMul S G1] [DecidableEq G1]
variable [Zero G2] [Add G2] [Neg G2] [SMul S G2] [DecidableEq G2]
variable (env : Env S G1 G2) (cs : Suite G1)

/-! ### generators -/

/-- `create_generators(n, api_id)` returns exactly `n` points. -/
theorem generators_length (n : Nat) (apiId : Option Bytes) (gs : List G1)
    (h : createGenerators env cs n apiId = .ok gs) : gs.length = n :=
  createGenerators_length env cs n apiId gs h

/-- **Prefix property.** For `k ≤ n`, the first `k` of the `n` generators are exactly the `k`
generators. (Proved by induction on the loop, generalised over the counter `i` and the chaining
value `v`: `genLoop_prefix`.) -/
theorem generators_prefix (n k : Nat) (hk : k ≤ n) (apiId : Option Bytes) (gs : List G1)
    (h : createGenerators env cs n apiId = .ok gs) :
    createGenerators env cs k apiId = .ok (gs.take k) :=
  createGenerators_prefix env cs n k hk apiId gs h

/-- The first `k` generators do not depend on the requested count. -/
theorem generators_prefix_indep (n n' k : Nat) (hk : k ≤ n) (hk' : k ≤ n') (apiId : Option Bytes)
    (gs gs' : List G1) (h : createGenerators env cs n apiId = .ok gs)
    (h' : createGenerators env cs n' apiId = .ok gs') : gs.take k = gs'.take k := by
  have a := generators_prefix env cs n k hk apiId gs h
  have b := generators_prefix env cs n' k hk' apiId gs' h'
  rw [a] at b; exact Res.ok.inj b

/-- Pointwise form: generator number `j` is the same in every run that produces it. -/
theorem generators_getElem_indep (n n' j : Nat) (hj : j < n) (hj' : j < n')
    (apiId : Option Bytes) (gs gs' : List G1) (h : createGenerators env cs n apiId = .ok gs)
    (h' : createGenerators env cs n' apiId = .ok gs') : gs[j]? = gs'[j]? := by
  have := generators_prefix_indep env cs n n' (j + 1) (by omega) (by omega) apiId gs gs' h h'
  have h1 : (gs.take (j + 1))[j]? = (gs'.take (j + 1))[j]? := by rw [this]
  simpa [List.getElem?_take] using h1

/-- Extension form: the `n` generators extend the `k` generators. -/
theorem generators_extend (n k : Nat) (hk : k ≤ n) (apiId : Option Bytes) (gs gk : List G1)
    (h : createGenerators env cs n apiId = .ok gs) (hk' : createGenerators env cs k apiId = .ok gk) :
    gk = gs.take k ∧ ∃ rest, gs = gk ++ rest ∧ rest.length = n - k := by
  have a := generators_prefix env cs n k hk apiId gs h
  rw [hk'] at a; cases a
  refine ⟨rfl, gs.drop k, (List.take_append_drop k gs).symm, ?_⟩
  rw [List.length_drop, generators_length env cs n apiId gs h]

/-- `create_generators` never returns `Err`: it either succeeds or panics (the `expect`s on the
expander and on hash-to-curve). -/
theorem generators_never_err (n : Nat) (apiId : Option Bytes) :
    createGenerators env cs n apiId ≠ .err :=
  createGenerators_ne_err env cs n apiId

/-- Corollaries for `Generators::create` (base point `P1` of the suite plus the list). -/
theorem create_length (n : Nat) (apiId : Option Bytes) (g : Generators G1)
    (h : Generators.create env cs n apiId = .ok g) : g.values.length = n ∧ g.base = cs.p1 :=
  ⟨Generators.create_length env cs n apiId g h,
    ((Generators.create_ok_iff env cs n apiId g).mp h).1⟩

theorem create_prefix (n k : Nat) (hk : k ≤ n) (apiId : Option Bytes) (g : Generators G1)
    (h : Generators.create env cs n apiId = .ok g) :
    Generators.create env cs k apiId = .ok ⟨g.base, g.values.take k⟩ :=
  Generators.create_prefix env cs n k hk apiId g h

/-- Message generators `H_1 … H_k` (the tail) of a `(k+1)`-run are a prefix of those of an
`(n+1)`-run, and `Q_1` is the same: signatures over `k` and over `n` messages share their first
generators. -/
theorem create_prefix_Q1_Hs (n k : Nat) (hk : k ≤ n) (apiId : Option Bytes) (base Q1 : G1)
    (Hs : List G1) (h : Generators.create env cs (n + 1) apiId = .ok ⟨base, Q1 :: Hs⟩) :
    Generators.create env cs (k + 1) apiId = .ok ⟨base, Q1 :: Hs.take k⟩ := by
  have := Generators.create_prefix env cs (n + 1) (k + 1) (by omega) apiId _ h
  simpa using this

/-! ### api id in every DST -/

/-- Same suffix: different api ids give different DSTs, whatever their lengths. -/
theorem dst_ne_of_apiId_ne (a a' sfx : Bytes) (h : a ≠ a') : a ++ sfx ≠ a' ++ sfx :=
  fun e => h (List.append_cancel_right e)

/-- Different suffixes: api ids of the same length that differ give different DSTs. -/
theorem dst_ne_of_apiId_ne_len (a a' sfx sfx' : Bytes) (hlen : a.length = a'.length)
    (h : a ≠ a') : a ++ sfx ≠ a' ++ sfx' :=
  fun e => h (List.append_inj e hlen).1

/-- `calculate_domain` hashes under the DST `api_id ‖ H2S` (definitional). -/
theorem calculateDomain_dst (pk : G2) (Q1 : G1) (Hs : List G1) (header apiId : Option Bytes) :
    calculateDomain env cs pk Q1 Hs header apiId
      = hashToScalar env cs (domainInput env pk Q1 Hs (header.getD []) (apiId.getD []))
          (apiId.getD [] ++ cs.h2s) := rfl

/-- **Foreign api id, domain.** Two domain computations under different api ids use different
DSTs (and the api id is also part of the hashed input). -/
theorem foreign_api_id_domain (pk pk' : G2) (Q1 Q1' : G1) (Hs Hs' : List G1)
    (header header' : Option Bytes) (a a' : Bytes) (h : a ≠ a') :
    ∃ x x' dst dst', dst ≠ dst' ∧
      calculateDomain env cs pk Q1 Hs header (some a) = hashToScalar env cs x dst ∧
      calculateDomain env cs pk' Q1' Hs' header' (some a') = hashToScalar env cs x' dst' :=
  ⟨_, _, a ++ cs.h2s, a' ++ cs.h2s, dst_ne_of_apiId_ne a a' cs.h2s h, rfl, rfl⟩

/-- The same for the other hashes: message-to-scalar, proof challenge, blind challenge — each is
`hashToScalar` under `api_id ‖ suffix` (definitional), so `dst_ne_of_apiId_ne` applies. -/
theorem mapMessage_dst (m a : Bytes) :
    mapMessageToScalarAsHash env cs m a = hashToScalar env cs m (a ++ cs.mapMsgScalar) := rfl

theorem messagesToScalar_dst (msgs : List Bytes) (a : Bytes) :
    messagesToScalar env cs msgs a
      = mapRes (fun m => hashToScalar env cs m (a ++ cs.mapMsgScalar)) msgs := rfl

theorem proofChallenge_dst (init : ProofInitResult S G1) (di : List Nat) (dm : List S)
    (ph apiId : Option Bytes) (h : dm.length = di.length) :
    proofChallengeCalculate env cs init di dm ph apiId
      = hashToScalar env cs (challengeInput env init di dm (ph.getD []))
          (apiId.getD [] ++ cs.h2s) := by
  unfold proofChallengeCalculate
  rw [if_neg (by simpa using h)]

theorem blindChallenge_dst (C Cbar : G1) (gens : List G1) (apiId : Option Bytes)
    (h : gens.length ≠ 0) :
    calculateBlindChallenge env cs C Cbar gens apiId
      = hashToScalar env cs (blindChallengeInput env C Cbar gens) (apiId.getD [] ++ cs.h2s) := by
  unfold calculateBlindChallenge
  rw [if_neg h]

/-- Generators: seed, seed DST and generator DST all start with the api id; two api ids that
differ give different seed DSTs and generator DSTs. -/
theorem createGenerators_dsts (n : Nat) (apiId : Option Bytes) :
    createGenerators env cs n apiId =
      match env.expand cs.xof (apiId.getD [] ++ cs.generatorSeed)
          (apiId.getD [] ++ cs.generatorSeedDst) cs.expandLen with
      | none => .panic
      | some v => genLoop env cs (apiId.getD [] ++ cs.generatorSeedDst)
          (apiId.getD [] ++ cs.generatorDst) n 1 v := rfl

end bare
end Zk.C11
