/-
C11, finite part: facts about the generator TABLE regenerated from the compiled crate on every
run (`ZkModel/Generated/GeneratorTable.lean`: the first `count` generators of the six
(suite × interface) families as `Generators::create` returns them).

Everything here is a kernel-checked computation on that table (`decide +kernel`: GMP arithmetic in
the kernel, no extra axiom) lifted by two small lemmas. No unbounded claim about hash outputs is
possible (pigeonhole); `count` is the property's own bound N. That the table equals what the MODEL's
`Generators.create` computes is checked by the correspondence run (`gens` operations).
-/
import Mathlib.Data.List.Sort
import Mathlib.Data.List.Nodup
import ZkModel.Generated.GeneratorTable

namespace Zk.C11Table
open Zk.Generated.GenTable

/-- linear check: strictly ascending -/
def isStrictSorted : List Nat → Bool
  | [] => true
  | [_] => true
  | a :: b :: rest => decide (a < b) && isStrictSorted (b :: rest)

theorem pairwise_of_isStrictSorted : ∀ l : List Nat, isStrictSorted l = true → l.Pairwise (· < ·)
  | [], _ => List.Pairwise.nil
  | [a], _ => List.pairwise_singleton _ a
  | a :: b :: rest, h => by
    simp only [isStrictSorted, Bool.and_eq_true, decide_eq_true_eq] at h
    have ih := pairwise_of_isStrictSorted (b :: rest) h.2
    refine List.Pairwise.cons ?_ ih
    intro x hx
    rcases List.mem_cons.mp hx with rfl | hx
    · exact h.1
    · exact lt_trans h.1 (List.rel_of_pairwise_cons ih hx)

/-- structural insertion sort (so that the kernel can evaluate it) -/
def insert (x : Nat) : List Nat → List Nat
  | [] => [x]
  | y :: ys => if x ≤ y then x :: y :: ys else y :: insert x ys

def isort : List Nat → List Nat
  | [] => []
  | x :: xs => insert x (isort xs)

theorem insert_perm (x : Nat) : ∀ l, (insert x l).Perm (x :: l)
  | [] => List.Perm.refl _
  | y :: ys => by
    unfold insert
    split
    · exact List.Perm.refl _
    · exact ((insert_perm x ys).cons y).trans (List.Perm.swap x y ys)

theorem isort_perm : ∀ l, (isort l).Perm l
  | [] => List.Perm.refl _
  | x :: xs => (insert_perm x (isort xs)).trans ((isort_perm xs).cons x)

/-- The table's own sorted copy really is the sorted concatenation of the six families … -/
theorem sorted_is_sort : isort families.flatten = sorted := by decide +kernel

/-- … and it is strictly ascending. -/
theorem sorted_strict : isStrictSorted sorted = true := by decide +kernel

/-- **No repeated point**, within any family or across families, among the first `count`
generators of the six (ciphersuite, interface) families. -/
theorem all_distinct : families.flatten.Nodup := by
  have h1 : sorted.Nodup := (pairwise_of_isStrictSorted _ sorted_strict).imp (fun h => Nat.ne_of_lt h)
  have h2 : sorted.Perm families.flatten := by rw [← sorted_is_sort]; exact isort_perm _
  exact h2.nodup_iff.mp h1

/-- each family is duplicate-free -/
theorem family_nodup (f : List Nat) (hf : f ∈ families) : f.Nodup :=
  (List.nodup_flatten.mp all_distinct).1 f hf

/-- different families share no element -/
theorem families_disjoint : families.Pairwise List.Disjoint :=
  (List.nodup_flatten.mp all_distinct).2

/-- the identity is not a generator -/
theorem identity_not_generator : identityEnc ∉ families.flatten := by decide +kernel

/-- the fixed base points P1 of the two suites are not generators -/
theorem p1_not_generator : p1Sha ∉ families.flatten ∧ p1Shake ∉ families.flatten := by decide +kernel

/-- every family has exactly `count` entries (the table is complete) -/
theorem family_length : ∀ f ∈ families, f.length = count := by decide +kernel

end Zk.C11Table
