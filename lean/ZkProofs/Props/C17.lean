/-
C17  What a CL03 prover sends carries no opening.

* `proof_has_no_opening`, `zkpok_has_no_opening`: every commitment inside the structures returned by
  `proofGen` (proof of knowledge of a signature) and `zkpokGen` (issuance proof) has `randomness = 0`:
  the proof carries only `publicPart c = ⟨c.value, 0⟩`. (The implementation serialises exactly these
  structures; the correspondence check compares every leaf.)
* `commit_hiding_cl`: the value alone cannot confirm a guess: for `g ∈ ⟨h⟩` every other message `x'`
  has a (non-negative) randomness `r'` giving the same commitment value.
* `opening_would_reveal_v`: had the proof carried the randomness of `C_v`, `v` is `C_v · g_0^{-w}`.
* `opening_would_confirm`: had the proof carried `(value, randomness)` (the defect that was fixed),
  recomputing `g^{m'} h^{randomness}` confirms the guess `m' = m`, and a wrong guess passes only under
  an `OrderRelation` on `g`.
-/
import ZkProofs.Lemmas.ClSpok
set_option linter.unusedSectionVars false
set_option linter.unusedVariables false
namespace Zk.C17
open Zk.IA Zk.Cl Zk.ClSpok

/-! ### 5. the proof structures carry no commitment randomness -/

theorem pokMiLoop_no_opening (cs : Suite) (cpk : CommitmentPK) (msgs : List Int) (U : List Nat)
    {ps : List ProofOfValue} {rs : List RangeProof} {t t' : List Draw}
    (h : pokMiLoop cs cpk msgs U t = .ok ((ps, rs), t')) :
    ps.length = U.length ∧ ∀ p ∈ ps, p.commitment.randomness = 0 := by
  induction U generalizing ps rs t t' with
  | nil =>
    unfold pokMiLoop at h
    obtain ⟨h, -⟩ := ok_inj h
    obtain ⟨rfl, rfl⟩ := Prod.mk.inj h
    exact ⟨rfl, fun p hp => absurd hp (by simp)⟩
  | cons i is ih =>
    unfold pokMiLoop at h
    bstep h with mi t1 h1
    bstep h with gi t2 h2
    bstep h with cmi t3 h3
    bstep h with pv t4 h4
    bstep h with rp t5 h5
    bstep h with pr t6 h6
    obtain ⟨ps', rs'⟩ := pr
    obtain ⟨h, -⟩ := ok_inj h
    obtain ⟨rfl, rfl⟩ := Prod.mk.inj h
    obtain ⟨hl, hall⟩ := ih h6
    refine ⟨by simp [hl], fun p hp => ?_⟩
    rcases List.mem_cons.mp hp with rfl | hp
    · rfl
    · exact hall p hp

theorem zkMiLoop_no_opening (cs : Suite) (pk : PublicKey) (bases msgs : List Int) (U : List Nat)
    {ps : List ProofOfValue} {rs : List RangeProof} {t t' : List Draw}
    (h : zkMiLoop cs pk bases msgs U t = .ok ((ps, rs), t')) :
    ps.length = U.length ∧ ∀ p ∈ ps, p.commitment.randomness = 0 := by
  induction U generalizing ps rs t t' with
  | nil =>
    unfold zkMiLoop at h
    obtain ⟨h, -⟩ := ok_inj h
    obtain ⟨rfl, rfl⟩ := Prod.mk.inj h
    exact ⟨rfl, fun p hp => absurd hp (by simp)⟩
  | cons i is ih =>
    unfold zkMiLoop at h
    bstep h with mi t1 h1
    bstep h with ai t2 h2
    bstep h with cmi t3 h3
    bstep h with pv t4 h4
    bstep h with rp t5 h5
    bstep h with pr t6 h6
    obtain ⟨ps', rs'⟩ := pr
    obtain ⟨h, -⟩ := ok_inj h
    obtain ⟨rfl, rfl⟩ := Prod.mk.inj h
    obtain ⟨hl, hall⟩ := ih h6
    refine ⟨by simp [hl], fun p hp => ?_⟩
    rcases List.mem_cons.mp hp with rfl | hp
    · rfl
    · exact hall p hp

/-- **No opening in a signature proof.** Whatever `proof_gen` returns — for every signature, key,
message list, hidden set and tape — the four commitments `C_x, C_v, C_w, C_e` and every per-attribute
commitment are stripped of their randomness (one per hidden attribute, in the order of `U`). -/
theorem proof_has_no_opening (cs : Suite) (σ : Signature) (cpk : CommitmentPK) (pk : PublicKey)
    (bases msgs : List Int) (U : List Nat) (π : PoKSignature) (t t' : List Draw)
    (h : proofGen cs σ cpk pk bases msgs U t = .ok (π, t')) :
    π.spok.Cx.randomness = 0 ∧ π.spok.Cv.randomness = 0 ∧ π.spok.Cw.randomness = 0 ∧
      π.spok.Ce.randomness = 0 ∧ π.proofsMi.length = U.length ∧
      ∀ p ∈ π.proofsMi, p.commitment.randomness = 0 := by
  unfold proofGen at h
  bstep h with spok t1 h1
  bstep h with g0 t2 h2
  bstep h with rpe t3 h3
  bstep h with pr t4 h4
  obtain ⟨ps, rs⟩ := pr
  obtain ⟨rfl, -⟩ := ok_inj h
  obtain ⟨hl, hall⟩ := pokMiLoop_no_opening cs cpk msgs U h4
  exact ⟨rfl, rfl, rfl, rfl, hl, hall⟩

/-- More precisely, the commitments in the proof are the `publicPart`s of the prover's commitments:
the signature proof of knowledge is the `nisp5` proof with its four commitments stripped. -/
theorem proof_spok_publicPart (cs : Suite) (σ : Signature) (cpk : CommitmentPK) (pk : PublicKey)
    (bases msgs : List Int) (U : List Nat) (π : PoKSignature) (t t' : List Draw)
    (h : proofGen cs σ cpk pk bases msgs U t = .ok (π, t')) :
    ∃ spok t1, nisp5Gen cs σ cpk pk bases msgs U t = .ok (spok, t1) ∧
      π.spok = { spok with Cx := publicPart spok.Cx, Cv := publicPart spok.Cv,
                           Cw := publicPart spok.Cw, Ce := publicPart spok.Ce } := by
  unfold proofGen at h
  bstep h with spok t1 h1
  bstep h with g0 t2 h2
  bstep h with rpe t3 h3
  bstep h with pr t4 h4
  obtain ⟨ps, rs⟩ := pr
  obtain ⟨rfl, -⟩ := ok_inj h
  exact ⟨spok, t1, h1, rfl⟩

/-- **No opening in an issuance proof.** Every per-attribute commitment and the commitment to the
commitment randomness `r` in the `ZKPoK` returned by `generate_proof` are stripped. -/
theorem zkpok_has_no_opening (cs : Suite) (msgs : List Int) (C : Commitment) (Ct : Option Commitment)
    (pk : PublicKey) (bases : List Int) (cpk : Option CommitmentPK) (U : List Nat) (z : ZKPoK)
    (t t' : List Draw) (h : zkpokGen cs msgs C Ct pk bases cpk U t = .ok (z, t')) :
    z.proofR.commitment.randomness = 0 ∧ z.proofsMi.length = U.length ∧
      ∀ p ∈ z.proofsMi, p.commitment.randomness = 0 := by
  unfold zkpokGen at h
  bstep h with p2 t1 h1
  bstep h with pm t2 h2
  bstep h with pr t3 h3
  obtain ⟨ps, rs⟩ := pr
  bstep h with cr t4 h4
  bstep h with a0 t5 h5
  bstep h with prr t6 h6
  bstep h with rpr t7 h7
  obtain ⟨rfl, -⟩ := ok_inj h
  obtain ⟨hl, hall⟩ := zkMiLoop_no_opening cs pk bases msgs U h3
  exact ⟨rfl, hl, hall⟩

/-! ### 6. the value alone does not confirm a guess -/

/-- the commitment value `g^x · h^r mod N` as the code computes it (`commit_with_commitment_pk` on one
attribute; `none` = a `pow_mod` on a non-invertible base with a negative exponent, a Rust panic). -/
def recommit (N g h x r : Int) : Option Int :=
  match powMod g x N, powMod h r N with
  | some a, some b => some (tmod (a * b) N)
  | _, _ => none

theorem recommit_unit (hA : ArithOK) {N g h : Int} (hN : 1 < N) (hg : IsU N g) (hh : IsU N h) (x r : Int) :
    recommit N g h x r = some (can N (x • rp N g + r • rp N h)) := by
  unfold recommit
  rw [powMod_unit hA hN hg, powMod_unit hA hN hh]
  simp only [Option.some.injEq]
  rw [tmod_good hN (good_mul (good_can hN _) (good_can hN _)),
    rp_mul_good (good_can hN _) (good_can hN _), rp_can hN, rp_can hN]

/-- `commit_with_commitment_pk(messages, cpk, Some([i]))` computes `recommit N g_i h m_i r`. -/
theorem commitWithCpk_single (cs : Suite) (msgs : List Int) (cpk : CommitmentPK) (i : Nat)
    (C : Commitment) (t t' : List Draw) (h : commitWithCpk cs msgs cpk (some [i]) t = .ok (C, t')) :
    ∃ g m, cpk.gBases[i]? = some g ∧ msgs[i]? = some m ∧
      recommit cpk.N g cpk.h m C.randomness = some C.value := by
  unfold commitWithCpk at h
  bstep h with r t1 h1
  bstep h with cx t2 h2
  bstep h with hr t3 h3
  obtain ⟨rfl, -⟩ := ok_inj h
  simp only [Option.getD_some] at h2
  unfold prodPowIdx at h2
  bstep h2 with a t4 h4
  bstep h2 with m t5 h5
  bstep h2 with x t6 h6
  unfold prodPowIdx at h2
  obtain ⟨rfl, -⟩ := ok_inj h2
  obtain ⟨h4, -⟩ := idx_ok_iff.mp h4
  obtain ⟨h5, -⟩ := idx_ok_iff.mp h5
  obtain ⟨h6, -⟩ := pw_ok_iff.mp h6
  obtain ⟨h3, -⟩ := pw_ok_iff.mp h3
  refine ⟨a, m, h4, h5, ?_⟩
  unfold recommit
  simp only [h6, h3, one_mul]

/-- **Hiding.** For invertible `h` and `g = h^f mod N` (how `CL03CommitmentPublicKey::generate` makes
every `g_i`), any commitment value `g^x h^r` is also `g^{x'} h^{r'}` for every other message `x'`,
with a non-negative `r' ≡ r + f·(x − x')` modulo `φ(N)`: the value is consistent with every guess,
so a dictionary attack on the value alone fails. (Hiding is perfect up to the range of `r`: the
`r'` exhibited here is not bounded by `2^ln`.) -/
theorem commit_hiding_cl (hA : ArithOK) (N g h f : Int) (hN : 1 < N) (hh : Int.gcd h N = 1)
    (hgf : powMod h f N = some g) (x r x' : Int) :
    ∃ r' : Int, 0 ≤ r' ∧ (∃ k : Int, r' = r + f * (x - x') + k * (Nat.totient N.toNat)) ∧
      ∃ v, recommit N g h x r = some v ∧ recommit N g h x' r' = some v := by
  have hhU : IsU N h := isU_of_gcd (by omega) hh
  rw [powMod_unit hA hN hhU] at hgf
  obtain rfl := Option.some.inj hgf
  have hgU : IsU N (can N (f • rp N h)) := isU_can hN _
  have hφ : 0 < Nat.totient N.toNat := Nat.totient_pos.mpr (by omega)
  set r0 := r + f * (x - x') with hr0
  have hle : (r0.natAbs : Int) ≤ r0.natAbs * (Nat.totient N.toNat : Int) :=
    le_mul_of_one_le_right (by omega) (by omega)
  refine ⟨r0 + r0.natAbs * (Nat.totient N.toNat : Int), by omega, ⟨r0.natAbs, rfl⟩,
    can N (x • rp N (can N (f • rp N h)) + r • rp N h), recommit_unit hA hN hgU hhU x r, ?_⟩
  rw [recommit_unit hA hN hgU hhU, rp_can hN]
  congr 2
  have hz : ((Nat.totient N.toNat : Nat) : Int) • rp N h = 0 := by
    rw [natCast_zsmul]; exact totient_nsmul _
  have : (r0 + (r0.natAbs : Int) * (Nat.totient N.toNat : Int)) • rp N h =
      r0 • rp N h + (r0.natAbs : Int) • (((Nat.totient N.toNat : Nat) : Int) • rp N h) := by module
  rw [this, hz, hr0]
  module

/-! ### 7. an opening would confirm a guess -/

/-- **The defect that was fixed.** If the proof carried `(value, randomness)` with
`value = g^m h^randomness`, anyone can test a guess `m'` by recomputing `g^{m'} h^{randomness}`:
the test passes for `m' = m`, and for `m' ≠ m` it passes only if `g^{|m − m'|} ≡ 1 (mod N)`
(`OrderRelation` on `g`). So comparing the recomputed value is a sound and complete test of a guess;
it is the check the harness runs against the serialised proofs. -/
theorem opening_would_confirm (hA : ArithOK) (N g h : Int) (hN : 1 < N) (hg : Int.gcd g N = 1)
    (hh : Int.gcd h N = 1) (m r value : Int) (hv : recommit N g h m r = some value) :
    recommit N g h m r = some value ∧
      ∀ m', recommit N g h m' r = some value → m' = m ∨ OrderRelation N g := by
  refine ⟨hv, fun m' h' => ?_⟩
  by_cases hm : m' = m
  · exact Or.inl hm
  right
  have hgU : IsU N g := isU_of_gcd (by omega) hg
  have hhU : IsU N h := isU_of_gcd (by omega) hh
  rw [recommit_unit hA hN hgU hhU] at hv h'
  have := can_inj hN (Option.some.inj (hv.trans h'.symm))
  refine orderRelation_of_zsmul hN hgU (k := m - m') (by omega) ?_
  have h2 : m • rp N g = m' • rp N g := add_right_cancel this
  rw [sub_smul, h2, sub_self]

/-- **The same defect for `v`.** Had the proof carried the randomness `w` of `C_v = v · g_0^w`, the
signature component `v` is recovered (modulo `N`) as `C_v · g_0^{-w}`. With `C_v` stripped
(`proof_has_no_opening`) this recomputation has no input `w`. -/
theorem opening_would_reveal_v (hA : ArithOK) (N g0 v w gw Cv : Int) (hN : 1 < N)
    (hg0 : Int.gcd g0 N = 1) (hv : Int.gcd v N = 1) (hgw : powMod g0 w N = some gw)
    (hCv : Cv = tmod (v * gw) N) :
    ∃ x, powMod g0 (-w) N = some x ∧ (Cv * x) % N = v % N := by
  have hgU := isU_of_gcd (by omega) hg0
  have hvU := isU_of_gcd (by omega) hv
  rw [powMod_unit hA hN hgU] at hgw
  obtain rfl := Option.some.inj hgw
  refine ⟨_, powMod_unit hA hN hgU (-w), ?_⟩
  have hCvU : IsU N Cv := by rw [hCv, isU_tmod (by omega)]; exact isU_mul hvU (isU_can hN _)
  rw [emod_eq_can_rp hN (isU_mul hCvU (isU_can hN _)), emod_eq_can_rp hN hvU,
    rp_mul hCvU (isU_can hN _), rp_can hN, hCv, rp_tmod (by omega), rp_mul hvU (isU_can hN _),
    rp_can hN]
  congr 1
  module

end Zk.C17
