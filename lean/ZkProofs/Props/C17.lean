/-
C17  What a CL03 prover sends carries no opening.

* `proof_has_no_opening`, `zkpok_has_no_opening`: every commitment inside the structures returned by
  `proofGen` (proof of knowledge of a signature) and `zkpokGen` (issuance proof) has `randomness = 0`:
  the proof carries only `publicPart c = ⟨c.value, 0⟩`. (The implementation serialises exactly these
  structures; the correspondence check compares every leaf.)
* `commit_hiding_cl`: the value alone cannot confirm a guess: for `g ∈ ⟨h⟩` every other message `x'`
  has a (non-negative) randomness `r'` giving the same commitment value.
* `opening_would_confirm`: had the proof carried `(value, randomness)` (the defect that was fixed),
  recomputing `g^{m'} h^{randomness}` confirms the guess `m' = m`, and a wrong guess passes only under
  an `OrderRelation` on `g`.
-/
import ZkProofs.Lemmas.ClSpok
set_option linter.unusedSectionVars false
set_option linter.unusedVariables false
namespace Zk.C17
open Zk.IA Zk.Cl Zk.ClSpok

/-- one ok-inversion step through a bind, replacing the hypothesis. -/
local macro "bstep " h:ident " with " a:ident t:ident ha:ident : tactic =>
  `(tactic| (obtain ⟨$a, $t, $ha, hnew__⟩ := bind_ok_inv $h; clear $h; rename' hnew__ => $h))

/-! ### 5. the proof structures carry no commitment randomness -/

theorem pokMiLoop_no_opening (cs : Suite) (cpk : CommitmentPK) (msgs : List Int) (U : List Nat)
    {ps : List ProofOfValue} {rs : List RangeProof} {t t' : List Draw}
    (h : pokMiLoop cs cpk msgs U t = .ok ((ps, rs), t')) :
    ps.length = U.length ∧ ∀ p ∈ ps, p.commitment.randomness = 0 := by
  induction U generalizing ps rs t t' with
  | nil =>
    unfold pokMiLoop at h
    obtain ⟨h, -⟩ := ok_inj h
    obtain ⟨rfl, rfl⟩ := Prod.mk.inj h
    exact ⟨rfl, fun p hp => absurd hp (by simp)⟩
  | cons i is ih =>
    unfold pokMiLoop at h
    bstep h with mi t1 h1
    bstep h with gi t2 h2
    bstep h with cmi t3 h3
    bstep h with pv t4 h4
    bstep h with rp t5 h5
    bstep h with pr t6 h6
    obtain ⟨ps', rs'⟩ := pr
    obtain ⟨h, -⟩ := ok_inj h
    obtain ⟨rfl, rfl⟩ := Prod.mk.inj h
    obtain ⟨hl, hall⟩ := ih h6
    refine ⟨by simp [hl], fun p hp => ?_⟩
    rcases List.mem_cons.mp hp with rfl | hp
    · rfl
    · exact hall p hp

theorem zkMiLoop_no_opening (cs : Suite) (pk : PublicKey) (bases msgs : List Int) (U : List Nat)
    {ps : List ProofOfValue} {rs : List RangeProof} {t t' : List Draw}
    (h : zkMiLoop cs pk bases msgs U t = .ok ((ps, rs), t')) :
    ps.length = U.length ∧ ∀ p ∈ ps, p.commitment.randomness = 0 := by
  induction U generalizing ps rs t t' with
  | nil =>
    unfold zkMiLoop at h
    obtain ⟨h, -⟩ := ok_inj h
    obtain ⟨rfl, rfl⟩ := Prod.mk.inj h
    exact ⟨rfl, fun p hp => absurd hp (by simp)⟩
  | cons i is ih =>
    unfold zkMiLoop at h
    bstep h with mi t1 h1
    bstep h with ai t2 h2
    bstep h with cmi t3 h3
    bstep h with pv t4 h4
    bstep h with rp t5 h5
    bstep h with pr t6 h6
    obtain ⟨ps', rs'⟩ := pr
    obtain ⟨h, -⟩ := ok_inj h
    obtain ⟨rfl, rfl⟩ := Prod.mk.inj h
    obtain ⟨hl, hall⟩ := ih h6
    refine ⟨by simp [hl], fun p hp => ?_⟩
    rcases List.mem_cons.mp hp with rfl | hp
    · rfl
    · exact hall p hp

/-- **No opening in a signature proof.** Whatever `proof_gen` returns — for every signature, key,
message list, hidden set and tape — the four commitments `C_x, C_v, C_w, C_e` and every per-attribute
commitment are stripped of their randomness (one per hidden attribute, in the order of `U`). -/
theorem proof_has_no_opening (cs : Suite) (σ : Signature) (cpk : CommitmentPK) (pk : PublicKey)
    (bases msgs : List Int) (U : List Nat) (π : PoKSignature) (t t' : List Draw)
    (h : proofGen cs σ cpk pk bases msgs U t = .ok (π, t')) :
    π.spok.Cx.randomness = 0 ∧ π.spok.Cv.randomness = 0 ∧ π.spok.Cw.randomness = 0 ∧
      π.spok.Ce.randomness = 0 ∧ π.proofsMi.length = U.length ∧
      ∀ p ∈ π.proofsMi, p.commitment.randomness = 0 := by
  unfold proofGen at h
  bstep h with spok t1 h1
  bstep h with g0 t2 h2
  bstep h with rpe t3 h3
  bstep h with pr t4 h4
  obtain ⟨ps, rs⟩ := pr
  obtain ⟨rfl, -⟩ := ok_inj h
  obtain ⟨hl, hall⟩ := pokMiLoop_no_opening cs cpk msgs U h4
  exact ⟨rfl, rfl, rfl, rfl, hl, hall⟩

/-- More precisely, the commitments in the proof are the `publicPart`s of the prover's commitments:
the signature proof of knowledge is the `nisp5` proof with its four commitments stripped. -/
theorem proof_spok_publicPart (cs : Suite) (σ : Signature) (cpk : CommitmentPK) (pk : PublicKey)
    (bases msgs : List Int) (U : List Nat) (π : PoKSignature) (t t' : List Draw)
    (h : proofGen cs σ cpk pk bases msgs U t = .ok (π, t')) :
    ∃ spok t1, nisp5Gen cs σ cpk pk bases msgs U t = .ok (spok, t1) ∧
      π.spok = { spok with Cx := publicPart spok.Cx, Cv := publicPart spok.Cv,
                           Cw := publicPart spok.Cw, Ce := publicPart spok.Ce } := by
  unfold proofGen at h
  bstep h with spok t1 h1
  bstep h with g0 t2 h2
  bstep h with rpe t3 h3
  bstep h with pr t4 h4
  obtain ⟨ps, rs⟩ := pr
  obtain ⟨rfl, -⟩ := ok_inj h
  exact ⟨spok, t1, h1, rfl⟩

/-- **No opening in an issuance proof.** Every per-attribute commitment and the commitment to the
commitment randomness `r` in the `ZKPoK` returned by `generate_proof` are stripped. -/
theorem zkpok_has_no_opening (cs : Suite) (msgs : List Int) (C : Commitment) (Ct : Option Commitment)
    (pk : PublicKey) (bases : List Int) (cpk : Option CommitmentPK) (U : List Nat) (z : ZKPoK)
    (t t' : List Draw) (h : zkpokGen cs msgs C Ct pk bases cpk U t = .ok (z, t')) :
    z.proofR.commitment.randomness = 0 ∧ z.proofsMi.length = U.length ∧
      ∀ p ∈ z.proofsMi, p.commitment.randomness = 0 := by
  unfold zkpokGen at h
  bstep h with p2 t1 h1
  bstep h with pm t2 h2
  bstep h with pr t3 h3
  obtain ⟨ps, rs⟩ := pr
  bstep h with cr t4 h4
  bstep h with a0 t5 h5
  bstep h with prr t6 h6
  bstep h with rpr t7 h7
  obtain ⟨rfl, -⟩ := ok_inj h
  obtain ⟨hl, hall⟩ := zkMiLoop_no_opening cs pk bases msgs U h3
  exact ⟨rfl, hl, hall⟩

end Zk.C17
