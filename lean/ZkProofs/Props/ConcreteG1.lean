/-
The executable G1 arithmetic of the model IS the elliptic-curve group.

Every theorem of `ZkProofs/Props/C*.lean` is stated for arbitrary `[Field S] [AddCommGroup G1]
[Module S G1]` (`ZkProofs/Lawful.lean`). This file PROVES that setting for the concrete G1 of
`ZkModel/L0/G1.lean` (BLS12-381, `E1 : y² = x³ + 4` over `Fp`), by relating the L0 functions
`G1.neg`, `G1.add`, `G1.double`, `G1.Jac.*`, `G1.mul`, `G1.msm`, `G1.inSubgroup` to Mathlib's proven
group law on `WeierstrassCurve.Affine.Point` (lemmas in `ZkProofs/Lemmas/G1Group.lean`).

1. `toPoint` — the points accepted by `G1.onCurve` (normal form, reduced coordinates, curve
   equation) correspond BIJECTIVELY to Mathlib's points of `E1` (`toPoint_bijective`).
2. Closure and homomorphism: `onCurve_neg/add/double/mul/msm`, `toPt_zero/neg/add/double/mul/msm`.
3. The Jacobian functions compute the affine ones: `jac_dbl`, `jac_add`, `jac_addAffine`
   (for ALL reduced triples — they are rational-function identities), hence `toPt_mul`.
4. `inSubgroup_iff`: the subgroup test is `R • P = 0`.
5. Explicit group / module equations for the executable functions on all on-curve points
   (`add_assoc`, `add_comm`, `add_neg`, `mul_add`, `mul_mul`, …), closure of the subgroup, `mul_mod`
   and `mul_eq_zero_iff` on subgroup points; `G1Sub` (on the curve and in the subgroup) with the L0
   operations is an `AddCommGroup` and a `Module (ZMod R)` without zero divisors
   (`smul_eq_zero_iff`); the model's scalar action `SMul Fr G1Pt` is that module action
   (`smul_toZ`, `fr_add_smul`, …, `fr_smul_eq_zero`, and `moduleFrR : Module FrR G1Sub`);
   `G1.gen` and every output of `G1.fromCompressed` lie in `G1Sub`.

All statements are for ALL inputs satisfying the stated `G1.onCurve` / `G1.inSubgroup` hypotheses;
these hold of every point the model ever produces by decoding (`fromCompressed_mem`), of the
generator (`gen_mem`) and are preserved by all operations (`onCurve_*`, `inSubgroup_*`).
-/
import ZkProofs.Lemmas.G1Group
import ZkProofs.Props.C09G1
import ZkModel.Concrete
import Mathlib.GroupTheory.OrderOfElement
import Mathlib.Algebra.Module.ZMod
namespace Zk.ConcreteG1
open Zk Zk.G1Codec Zk.ConcreteScalar WeierstrassCurve

/-! ### 1. the bijection with Mathlib's points -/

/-- The Mathlib point denoted by an on-curve triple: `O ↦ 0`, `(x, y) ↦ .some x y _`
(`toPoint_inf`, `toPoint_some`). -/
noncomputable def toPoint (p : {p : G1Pt // G1.onCurve p = true}) : E1.toAffine.Point := toPt p.1

theorem toPoint_inf (p : {p : G1Pt // G1.onCurve p = true}) (h : p.1.inf = true) :
    toPoint p = 0 := toPt_inf h

theorem toPoint_some (p : {p : G1Pt // G1.onCurve p = true}) (h : p.1.inf = false) :
    toPoint p = .some (p.1.x : ZMod P) (p.1.y : ZMod P) (nonsingular_of_onCurve p.2 h) :=
  toPt_some p.2 h

/-- **On-curve triples are exactly the points of the elliptic curve** (injective: normal form and
reduced coordinates; surjective: every point has reduced representatives). -/
theorem toPoint_bijective : Function.Bijective toPoint :=
  ⟨fun p q h => Subtype.ext (toPt_injOn p.2 q.2 h), fun Q => by
    obtain ⟨p, hp, h⟩ := toPt_surj Q
    exact ⟨⟨p, hp⟩, h⟩⟩

/-! ### 3. Jacobian arithmetic is affine arithmetic -/

/-- `dbl-2009-l` computes `G1.double`, for every triple with reduced `Z`. -/
theorem jac_dbl {j : G1.Jac} (hZ : j.Z < P) : (G1.Jac.dbl j).toAffine = G1.double j.toAffine :=
  dbl_toAffine hZ

/-- Complete Jacobian addition computes `G1.add`, for all triples with reduced `Z`. -/
theorem jac_add {a b : G1.Jac} (ha : a.Z < P) (hb : b.Z < P) :
    (G1.Jac.add a b).toAffine = G1.add a.toAffine b.toAffine := add_toAffine ha hb

/-- Mixed addition computes `G1.add`, for every reduced triple and on-curve affine point. -/
theorem jac_addAffine {a : G1.Jac} {q : G1Pt} (ha : Red a) (hq : G1.onCurve q = true) :
    (G1.Jac.addAffine a q).toAffine = G1.add a.toAffine q := addAffine_toAffine ha hq

/-- Reducedness is preserved (so the three statements above apply along any computation). -/
theorem jac_red {a b : G1.Jac} {q : G1Pt} (ha : Red a) (hb : Red b) (hq : G1.onCurve q = true) :
    Red (G1.Jac.dbl a) ∧ Red (G1.Jac.add a b) ∧ Red (G1.Jac.addAffine a q) ∧ Red G1.Jac.zero :=
  ⟨dbl_red a, add_red ha hb, addAffine_red ha hq, red_zero⟩

/-! ### 5a. the group and module equations, for the executable functions -/

section Equations
variable {p q r : G1Pt}

theorem add_assoc (hp : G1.onCurve p = true) (hq : G1.onCurve q = true) (hr : G1.onCurve r = true) :
    G1.add (G1.add p q) r = G1.add p (G1.add q r) :=
  toPt_injOn (onCurve_add (onCurve_add hp hq) hr) (onCurve_add hp (onCurve_add hq hr)) (by
    rw [toPt_add (onCurve_add hp hq) hr, toPt_add hp hq, toPt_add hp (onCurve_add hq hr),
      toPt_add hq hr, _root_.add_assoc])

theorem add_comm (hp : G1.onCurve p = true) (hq : G1.onCurve q = true) :
    G1.add p q = G1.add q p :=
  toPt_injOn (onCurve_add hp hq) (onCurve_add hq hp) (by
    rw [toPt_add hp hq, toPt_add hq hp, _root_.add_comm])

/-- `O` is a left identity (for every triple). -/
theorem zero_add (p : G1Pt) : G1.add G1Pt.zero p = p := rfl

theorem add_zero (hp : G1.onCurve p = true) : G1.add p G1Pt.zero = p := by
  rw [add_comm hp onCurve_zero]; rfl

theorem add_neg (hp : G1.onCurve p = true) : G1.add p (G1.neg p) = G1Pt.zero :=
  toPt_injOn (onCurve_add hp (onCurve_neg hp)) onCurve_zero (by
    rw [toPt_add hp (onCurve_neg hp), toPt_neg hp, toPt_zero, add_neg_cancel])

theorem neg_add (hp : G1.onCurve p = true) : G1.add (G1.neg p) p = G1Pt.zero := by
  rw [add_comm (onCurve_neg hp) hp, add_neg hp]

theorem neg_neg (hp : G1.onCurve p = true) : G1.neg (G1.neg p) = p :=
  toPt_injOn (onCurve_neg (onCurve_neg hp)) hp (by
    rw [toPt_neg (onCurve_neg hp), toPt_neg hp, _root_.neg_neg])

/-- `G1.sub` is addition of the negative (by definition). -/
theorem sub_eq (p q : G1Pt) : G1.sub p q = G1.add p (G1.neg q) := rfl

theorem onCurve_sub (hp : G1.onCurve p = true) (hq : G1.onCurve q = true) :
    G1.onCurve (G1.sub p q) = true := onCurve_add hp (onCurve_neg hq)

theorem toPt_sub (hp : G1.onCurve p = true) (hq : G1.onCurve q = true) :
    toPt (G1.sub p q) = toPt p - toPt q := by
  rw [sub_eq, toPt_add hp (onCurve_neg hq), toPt_neg hq, sub_eq_add_neg]

/-- The tangent rule is the chord rule on equal arguments. -/
theorem double_eq_add (hp : G1.onCurve p = true) : G1.double p = G1.add p p := (add_self hp).symm

theorem mul_zero (hp : G1.onCurve p = true) : G1.mul 0 p = G1Pt.zero :=
  toPt_injOn (onCurve_mul hp 0) onCurve_zero (by rw [toPt_mul hp, toPt_zero, zero_nsmul])

theorem mul_one (hp : G1.onCurve p = true) : G1.mul 1 p = p :=
  toPt_injOn (onCurve_mul hp 1) hp (by rw [toPt_mul hp, one_nsmul])

theorem mul_succ (hp : G1.onCurve p = true) (n : Nat) :
    G1.mul (n + 1) p = G1.add (G1.mul n p) p :=
  toPt_injOn (onCurve_mul hp _) (onCurve_add (onCurve_mul hp n) hp) (by
    rw [toPt_add (onCurve_mul hp n) hp, toPt_mul hp, toPt_mul hp, succ_nsmul])

theorem mul_add (hp : G1.onCurve p = true) (m n : Nat) :
    G1.mul (m + n) p = G1.add (G1.mul m p) (G1.mul n p) :=
  toPt_injOn (onCurve_mul hp _) (onCurve_add (onCurve_mul hp m) (onCurve_mul hp n)) (by
    rw [toPt_add (onCurve_mul hp m) (onCurve_mul hp n), toPt_mul hp, toPt_mul hp, toPt_mul hp,
      add_nsmul])

theorem mul_mul (hp : G1.onCurve p = true) (m n : Nat) :
    G1.mul (m * n) p = G1.mul m (G1.mul n p) :=
  toPt_injOn (onCurve_mul hp _) (onCurve_mul (onCurve_mul hp n) m) (by
    rw [toPt_mul hp, toPt_mul (onCurve_mul hp n), toPt_mul hp, mul_nsmul'])

theorem mul_add_distrib (hp : G1.onCurve p = true) (hq : G1.onCurve q = true) (n : Nat) :
    G1.mul n (G1.add p q) = G1.add (G1.mul n p) (G1.mul n q) :=
  toPt_injOn (onCurve_mul (onCurve_add hp hq) n) (onCurve_add (onCurve_mul hp n) (onCurve_mul hq n))
    (by rw [toPt_mul (onCurve_add hp hq), toPt_add hp hq,
      toPt_add (onCurve_mul hp n) (onCurve_mul hq n), toPt_mul hp, toPt_mul hq, nsmul_add])

theorem mul_neg (hp : G1.onCurve p = true) (n : Nat) :
    G1.mul n (G1.neg p) = G1.neg (G1.mul n p) :=
  toPt_injOn (onCurve_mul (onCurve_neg hp) n) (onCurve_neg (onCurve_mul hp n)) (by
    rw [toPt_mul (onCurve_neg hp), toPt_neg hp, toPt_neg (onCurve_mul hp n), toPt_mul hp,
      neg_nsmul])

theorem mul_O (n : Nat) : G1.mul n G1Pt.zero = G1Pt.zero :=
  toPt_injOn (onCurve_mul onCurve_zero n) onCurve_zero (by
    rw [toPt_mul onCurve_zero, toPt_zero, nsmul_zero])

/-- `G1.msm` is the iterated `G1.add` of the `G1.mul`s. -/
theorem msm_eq {l : List (Nat × G1Pt)} (hl : ∀ sp ∈ l, G1.onCurve sp.2 = true) :
    G1.msm l = (l.map fun sp => G1.mul sp.1 sp.2).foldr G1.add G1Pt.zero := by
  have key : ∀ l : List (Nat × G1Pt), (∀ sp ∈ l, G1.onCurve sp.2 = true) →
      G1.onCurve ((l.map fun sp => G1.mul sp.1 sp.2).foldr G1.add G1Pt.zero) = true ∧
      toPt ((l.map fun sp => G1.mul sp.1 sp.2).foldr G1.add G1Pt.zero) =
        (l.map fun sp => sp.1 • toPt sp.2).sum := by
    intro l
    induction l with
    | nil => intro _; exact ⟨onCurve_zero, toPt_zero⟩
    | cons sp l ih =>
      intro hl
      have hsp := hl sp (List.mem_cons_self ..)
      obtain ⟨h1, h2⟩ := ih fun x hx => hl x (List.mem_cons_of_mem _ hx)
      simp only [List.map_cons, List.foldr_cons, List.sum_cons]
      exact ⟨onCurve_add (onCurve_mul hsp _) h1,
        by rw [toPt_add (onCurve_mul hsp _) h1, toPt_mul hsp, h2]⟩
  exact toPt_injOn (onCurve_msm hl) (key l hl).1 (by rw [toPt_msm hl, (key l hl).2])

end Equations

/-! ### 5b. the prime-order subgroup -/

section Subgroup
variable {p q : G1Pt}

theorem inSubgroup_add (hp : G1.onCurve p = true) (hq : G1.onCurve q = true)
    (hps : G1.inSubgroup p = true) (hqs : G1.inSubgroup q = true) :
    G1.inSubgroup (G1.add p q) = true := by
  rw [inSubgroup_iff (onCurve_add hp hq), toPt_add hp hq, nsmul_add,
    (inSubgroup_iff hp).mp hps, (inSubgroup_iff hq).mp hqs, _root_.add_zero]

theorem inSubgroup_neg (hp : G1.onCurve p = true) (hps : G1.inSubgroup p = true) :
    G1.inSubgroup (G1.neg p) = true := by
  rw [inSubgroup_iff (onCurve_neg hp), toPt_neg hp, neg_nsmul, (inSubgroup_iff hp).mp hps,
    _root_.neg_zero]

theorem inSubgroup_sub (hp : G1.onCurve p = true) (hq : G1.onCurve q = true)
    (hps : G1.inSubgroup p = true) (hqs : G1.inSubgroup q = true) :
    G1.inSubgroup (G1.sub p q) = true :=
  inSubgroup_add hp (onCurve_neg hq) hps (inSubgroup_neg hq hqs)

theorem inSubgroup_mul (hp : G1.onCurve p = true) (hps : G1.inSubgroup p = true) (n : Nat) :
    G1.inSubgroup (G1.mul n p) = true := by
  rw [inSubgroup_iff (onCurve_mul hp n), toPt_mul hp, ← mul_nsmul, mul_nsmul',
    (inSubgroup_iff hp).mp hps, nsmul_zero]

theorem inSubgroup_msm {l : List (Nat × G1Pt)}
    (hl : ∀ sp ∈ l, G1.onCurve sp.2 = true ∧ G1.inSubgroup sp.2 = true) :
    G1.inSubgroup (G1.msm l) = true := by
  have hc : ∀ sp ∈ l, G1.onCurve sp.2 = true := fun sp h => (hl sp h).1
  rw [inSubgroup_iff (onCurve_msm hc), toPt_msm hc]
  clear hc
  induction l with
  | nil => simp
  | cons sp l ih =>
    rw [List.map_cons, List.sum_cons, nsmul_add, ih fun x hx => hl x (List.mem_cons_of_mem _ hx),
      _root_.add_zero, ← mul_nsmul, mul_nsmul',
      (inSubgroup_iff (hl sp (List.mem_cons_self ..)).1).mp (hl sp (List.mem_cons_self ..)).2,
      nsmul_zero]

/-- `[R]P = O` for subgroup points, as an equation of the executable functions. -/
theorem mul_R (hp : G1.onCurve p = true) (hps : G1.inSubgroup p = true) :
    G1.mul R p = G1Pt.zero :=
  toPt_injOn (onCurve_mul hp R) onCurve_zero (by
    rw [toPt_mul hp, (inSubgroup_iff hp).mp hps, toPt_zero])

theorem nsmul_mod {Q : E1.toAffine.Point} (h : R • Q = 0) (n : Nat) : (n % R) • Q = n • Q := by
  conv_rhs => rw [← Nat.mod_add_div n R, add_nsmul, mul_nsmul, h, nsmul_zero, _root_.add_zero]

/-- Scalars act modulo `R` on the subgroup: the scalar action of `ZMod R` is well defined. -/
theorem mul_mod (hp : G1.onCurve p = true) (hps : G1.inSubgroup p = true) (n : Nat) :
    G1.mul (n % R) p = G1.mul n p :=
  toPt_injOn (onCurve_mul hp _) (onCurve_mul hp n) (by
    rw [toPt_mul hp, toPt_mul hp, nsmul_mod ((inSubgroup_iff hp).mp hps)])

/-- **Prime order**: a subgroup point other than `O` has exact order `R`. -/
theorem mul_eq_zero_iff (hp : G1.onCurve p = true) (hps : G1.inSubgroup p = true) (n : Nat) :
    G1.mul n p = G1Pt.zero ↔ R ∣ n ∨ p = G1Pt.zero := by
  have hR := (inSubgroup_iff hp).mp hps
  have h1 : G1.mul n p = G1Pt.zero ↔ n • toPt p = 0 := by
    rw [← toPt_mul hp, ← toPt_zero]
    exact ⟨fun h => by rw [h], fun h => toPt_injOn (onCurve_mul hp n) onCurve_zero h⟩
  have h2 : p = G1Pt.zero ↔ toPt p = 0 := by
    rw [← toPt_zero]
    exact ⟨fun h => by rw [h], fun h => toPt_injOn hp onCurve_zero h⟩
  rw [h1, h2, ← addOrderOf_dvd_iff_nsmul_eq_zero]
  have hd : addOrderOf (toPt p) ∣ R := addOrderOf_dvd_iff_nsmul_eq_zero.mpr hR
  rcases (Nat.dvd_prime R_prime).mp hd with h | h
  · rw [h]
    exact ⟨fun _ => Or.inr (AddMonoid.addOrderOf_eq_one_iff.mp h), fun _ => one_dvd _⟩
  · rw [h]
    refine ⟨Or.inl, fun h' => h'.elim id fun h0 => ?_⟩
    rw [h0, addOrderOf_zero] at h
    exact absurd h.symm R_prime.one_lt.ne'

end Subgroup

/-! ### 5c. `G1Sub` with the L0 operations is an abelian group and a `ZMod R`-module -/

/-- The points the protocol computes with: on the curve (normal form, reduced coordinates) and in
the order-`R` subgroup. Definitionally `Zk.C09G1.G1Sub`, the domain of the proven codec laws
(`g1Codec` below); a `def` here so that the instances stay attached to this name. -/
def G1Sub : Type := {p : G1Pt // G1.onCurve p = true ∧ G1.inSubgroup p = true}

namespace G1Sub

theorem ext {p q : G1Sub} (h : p.1 = q.1) : p = q := Subtype.ext h

/-- `n ↦ [n]P`, the executable `G1.mul`, on the subgroup. -/
def nmul (n : Nat) (p : G1Sub) : G1Sub :=
  ⟨G1.mul n p.1, onCurve_mul p.2.1 n, inSubgroup_mul p.2.1 p.2.2 n⟩

instance : Zero G1Sub := ⟨⟨G1Pt.zero, onCurve_zero, inSubgroup_zero⟩⟩
instance : Add G1Sub :=
  ⟨fun p q => ⟨G1.add p.1 q.1, onCurve_add p.2.1 q.2.1, inSubgroup_add p.2.1 q.2.1 p.2.2 q.2.2⟩⟩
instance : Neg G1Sub := ⟨fun p => ⟨G1.neg p.1, onCurve_neg p.2.1, inSubgroup_neg p.2.1 p.2.2⟩⟩
instance : Sub G1Sub :=
  ⟨fun p q => ⟨G1.sub p.1 q.1, onCurve_sub p.2.1 q.2.1, inSubgroup_sub p.2.1 q.2.1 p.2.2 q.2.2⟩⟩
instance : SMul ℕ G1Sub := ⟨nmul⟩
instance : SMul ℤ G1Sub := ⟨fun z p => if 0 ≤ z then nmul z.toNat p else -nmul (-z).toNat p⟩
/-- The scalar action of `ZMod R`: `s • P = [s.val]P` with the executable `G1.mul`. -/
instance : SMul (ZMod R) G1Sub := ⟨fun s p => nmul s.val p⟩

/-! The operations ARE the L0 functions (all by `rfl`). -/
theorem val_zero : (0 : G1Sub).1 = G1Pt.zero := rfl
theorem val_add (p q : G1Sub) : (p + q).1 = G1.add p.1 q.1 := rfl
theorem val_neg (p : G1Sub) : (-p).1 = G1.neg p.1 := rfl
theorem val_sub (p q : G1Sub) : (p - q).1 = G1.sub p.1 q.1 := rfl
theorem val_nsmul (n : ℕ) (p : G1Sub) : (n • p).1 = G1.mul n p.1 := rfl
theorem val_smul (s : ZMod R) (p : G1Sub) : (s • p).1 = G1.mul s.val p.1 := rfl

/-- The same with the instances `Zero/Add/Neg/Sub G1Pt` installed by `ZkModel/Concrete.lean`
(the ones the L1 model is run with). -/
theorem val_ops (p q : G1Sub) : (0 : G1Sub).1 = (0 : G1Pt) ∧ (p + q).1 = p.1 + q.1 ∧
    (-p).1 = -p.1 ∧ (p - q).1 = p.1 - q.1 := ⟨rfl, rfl, rfl, rfl⟩

/-- The elliptic-curve point denoted by a subgroup point. -/
noncomputable def toPoint (p : G1Sub) : E1.toAffine.Point := toPt p.1

theorem toPoint_injective : Function.Injective toPoint :=
  fun p q h => ext (toPt_injOn p.2.1 q.2.1 h)

theorem toPoint_torsion (p : G1Sub) : R • toPoint p = 0 := (inSubgroup_iff p.2.1).mp p.2.2

/-- Every `R`-torsion point of `E1(Fp)` is denoted by an element of `G1Sub`. -/
theorem toPoint_surj {Q : E1.toAffine.Point} (h : R • Q = 0) : ∃ p : G1Sub, toPoint p = Q := by
  obtain ⟨p, hp, rfl⟩ := toPt_surj Q
  exact ⟨⟨p, hp, (inSubgroup_iff hp).mpr h⟩, rfl⟩

theorem toPoint_zero : toPoint 0 = 0 := toPt_zero
theorem toPoint_add (p q : G1Sub) : toPoint (p + q) = toPoint p + toPoint q :=
  toPt_add p.2.1 q.2.1
theorem toPoint_neg (p : G1Sub) : toPoint (-p) = -toPoint p := toPt_neg p.2.1
theorem toPoint_sub (p q : G1Sub) : toPoint (p - q) = toPoint p - toPoint q :=
  toPt_sub p.2.1 q.2.1
theorem toPoint_nsmul (p : G1Sub) (n : ℕ) : toPoint (n • p) = n • toPoint p := toPt_mul p.2.1 n

theorem toPoint_zsmul (p : G1Sub) (z : ℤ) : toPoint (z • p) = z • toPoint p := by
  show toPoint (if 0 ≤ z then nmul z.toNat p else -nmul (-z).toNat p) = _
  by_cases hz : 0 ≤ z
  · rw [if_pos hz]
    show toPoint (z.toNat • p) = _
    rw [toPoint_nsmul, ← natCast_zsmul, Int.toNat_of_nonneg hz]
  · rw [if_neg hz, toPoint_neg]
    show -toPoint ((-z).toNat • p) = _
    rw [toPoint_nsmul, ← natCast_zsmul, Int.toNat_of_nonneg (by omega), neg_zsmul, _root_.neg_neg]

/-- **`G1Sub` with `G1.add`, `G1.neg`, `G1.sub`, `G1Pt.zero`, `G1.mul` is an abelian group**: all
axioms hold for the executable functions (pulled back along the injective homomorphism `toPoint`
into Mathlib's group of points of `E1`). -/
noncomputable instance : AddCommGroup G1Sub :=
  toPoint_injective.addCommGroup toPoint toPoint_zero toPoint_add toPoint_neg toPoint_sub
    toPoint_nsmul toPoint_zsmul

theorem val_one_R : (1 : ZMod R).val = 1 := by
  rw [ZMod.val_one_eq_one_mod, Nat.mod_eq_of_lt R_prime.one_lt]

/-- **`G1Sub` is a module over the scalar field `ZMod R`** with `s • P = G1.mul s.val P`: every
module axiom, checked directly on the executable functions. -/
noncomputable instance : Module (ZMod R) G1Sub where
  one_smul p := ext (by
    show G1.mul (1 : ZMod R).val p.1 = p.1
    rw [val_one_R, mul_one p.2.1])
  mul_smul s t p := ext (by
    show G1.mul (s * t).val p.1 = G1.mul s.val (G1.mul t.val p.1)
    rw [ZMod.val_mul, mul_mod p.2.1 p.2.2, mul_mul p.2.1])
  smul_zero s := ext (mul_O _)
  smul_add s p q := ext (mul_add_distrib p.2.1 q.2.1 _)
  add_smul s t p := ext (by
    have : NeZero R := ⟨R_pos.ne'⟩
    show G1.mul (s + t).val p.1 = G1.add (G1.mul s.val p.1) (G1.mul t.val p.1)
    rw [ZMod.val_add, mul_mod p.2.1 p.2.2, mul_add p.2.1])
  zero_smul p := ext (by
    show G1.mul (0 : ZMod R).val p.1 = G1Pt.zero
    rw [ZMod.val_zero, mul_zero p.2.1])

/-- **No zero divisors** (`R` is prime, `ZMod R` is a field): the hypothesis `smul_eq_zero_field`
of the abstract setting holds. -/
theorem smul_eq_zero_iff (s : ZMod R) (p : G1Sub) : s • p = 0 ↔ s = 0 ∨ p = 0 := smul_eq_zero

/-- The same as an equation of the executable functions. -/
theorem mul_val_eq_zero (s : ZMod R) (p : G1Sub) (h : G1.mul s.val p.1 = G1Pt.zero) :
    s = 0 ∨ p.1 = G1Pt.zero := by
  have h' : s • p = 0 := ext h
  rcases (smul_eq_zero_iff s p).mp h' with h | h
  · exact Or.inl h
  · exact Or.inr (congrArg Subtype.val h)

/-- The model's scalar action (`instance : SMul Fr G1Pt := ⟨fun s p => G1.mul s.v p⟩` in
`ZkModel/Concrete.lean`) is this module action, through `toZ : Fr → ZMod R`; for EVERY `s : Fr`,
reduced or not. -/
theorem smul_toZ (s : Fr) (p : G1Sub) : (s • p.1 : G1Pt) = (toZ s • p).1 := by
  show G1.mul s.v p.1 = G1.mul ((s.v : ZMod R)).val p.1
  rw [ZMod.val_natCast, mul_mod p.2.1 p.2.2]

/-- The standard generator, as an element of `G1Sub` (kernel evaluation of `[R]G = O`). -/
def gen : G1Sub := ⟨G1.gen, onCurve_gen, inSubgroup_gen⟩

theorem gen_ne_zero : gen ≠ 0 := fun h => absurd (congrArg (fun p => p.1.inf) h) (by decide)

/-- The generator has exact order `R`. -/
theorem mul_gen_eq_zero_iff (n : Nat) : G1.mul n G1.gen = G1Pt.zero ↔ R ∣ n := by
  rw [mul_eq_zero_iff onCurve_gen inSubgroup_gen]
  exact ⟨fun h => h.elim id fun h0 => absurd (congrArg G1Pt.inf h0) (by decide), Or.inl⟩

end G1Sub

/-! ### 5d. where subgroup points come from -/

theorem gen_mem : G1.onCurve G1.gen = true ∧ G1.inSubgroup G1.gen = true :=
  ⟨onCurve_gen, inSubgroup_gen⟩

/-- Every point `G1.fromCompressed` returns is in `G1Sub`. -/
theorem fromCompressed_mem {b : Bytes} {p : G1Pt} (h : G1.fromCompressed b = some p) :
    G1.onCurve p = true ∧ G1.inSubgroup p = true :=
  ⟨C09G1.g1_decode_onCurve h, C09Concrete.g1_decode_inSubgroup h⟩

/-- The proven codec laws are about the same type. -/
theorem g1Codec : Codec (fun p : G1Sub => G1.toCompressed p.1) C09G1.decSub 48 := C09G1.g1Codec

/-! ### 5e. the laws for the instances the L1 model is run with

`ZkModel/Concrete.lean` installs `Zero/Add/Sub/Neg G1Pt` (the L0 functions) and
`SMul Fr G1Pt := ⟨fun s p => G1.mul s.v p⟩`, with `Fr` the naturals with arithmetic modulo `R`.
On `G1Sub` these satisfy the module laws, for ALL scalars `s t : Fr` (reduced or not). -/

section Installed
open Zk.Codecs.ScalarCodec
variable (s t : Fr) (p q : G1Sub)

/-- The installed operations stay in `G1Sub`. -/
theorem installed_closed :
    (G1.onCurve (p.1 + q.1) = true ∧ G1.inSubgroup (p.1 + q.1) = true) ∧
    (G1.onCurve (p.1 - q.1) = true ∧ G1.inSubgroup (p.1 - q.1) = true) ∧
    (G1.onCurve (-p.1) = true ∧ G1.inSubgroup (-p.1) = true) ∧
    (G1.onCurve (s • p.1) = true ∧ G1.inSubgroup (s • p.1) = true) :=
  ⟨(p + q).2, (p - q).2, (-p).2, (G1Sub.nmul s.v p).2⟩

theorem fr_add_smul : (s + t) • p.1 = s • p.1 + t • p.1 := by
  rw [G1Sub.smul_toZ, toZ_add, add_smul, G1Sub.smul_toZ, G1Sub.smul_toZ]; rfl

theorem fr_mul_smul : (s * t) • p.1 = s • (t • p.1) := by
  rw [G1Sub.smul_toZ, toZ_mul, mul_smul, G1Sub.smul_toZ t p, G1Sub.smul_toZ s (toZ t • p)]

theorem fr_sub_smul : (s - t) • p.1 = s • p.1 - t • p.1 := by
  rw [G1Sub.smul_toZ, toZ_sub, sub_smul, G1Sub.smul_toZ, G1Sub.smul_toZ]; rfl

theorem fr_neg_smul : (-s) • p.1 = -(s • p.1) := by
  rw [G1Sub.smul_toZ, toZ_neg, neg_smul, G1Sub.smul_toZ]; rfl

theorem fr_smul_add : s • (p.1 + q.1) = s • p.1 + s • q.1 := by
  rw [← (G1Sub.val_ops p q).2.1, G1Sub.smul_toZ, smul_add, G1Sub.smul_toZ, G1Sub.smul_toZ]; rfl

theorem fr_one_smul : (1 : Fr) • p.1 = p.1 := by
  rw [G1Sub.smul_toZ, toZ_one, one_smul]

theorem fr_zero_smul : (0 : Fr) • p.1 = 0 := by
  rw [G1Sub.smul_toZ, toZ_zero, zero_smul]; rfl

/-- No zero divisors, for the installed action: `s • P = O` only if `R ∣ s` (i.e. `s = 0` for a
reduced scalar) or `P = O`. -/
theorem fr_smul_eq_zero (h : s • p.1 = 0) : R ∣ s.v ∨ p.1 = 0 := by
  have h' : toZ s • p = 0 := G1Sub.ext (by rw [← G1Sub.smul_toZ]; exact h)
  rcases (G1Sub.smul_eq_zero_iff _ _).mp h' with h0 | h0
  · exact Or.inl ((toZ_eq_zero_iff_dvd s).mp h0)
  · exact Or.inr (congrArg Subtype.val h0)

end Installed

/-- `equivZ : FrR ≃ ZMod R` as a ring homomorphism. -/
noncomputable def frRHom : Zk.Codecs.ScalarCodec.FrR →+* ZMod R where
  toFun := equivZ
  map_one' := equivZ_one
  map_mul' := equivZ_mul
  map_zero' := equivZ_zero
  map_add' := equivZ_add

/-- The reduced scalars `FrR` (a field with the model's operations, `ConcreteScalar.fieldFrR`) act
on `G1Sub` by the model's `s • P = G1.mul s.v P`: literally the setting
`[Field S] [AddCommGroup G1] [Module S G1]` of `ZkProofs/Lawful.lean`, for `S = FrR`, `G1 = G1Sub`. -/
noncomputable scoped instance moduleFrR : Module Zk.Codecs.ScalarCodec.FrR G1Sub :=
  Module.compHom G1Sub frRHom

theorem smul_FrR (s : Zk.Codecs.ScalarCodec.FrR) (p : G1Sub) : (s • p).1 = s.1 • p.1 :=
  (G1Sub.smul_toZ s.1 p).symm

end Zk.ConcreteG1
