/-
C07 (witness indistinguishability of the proof of knowledge)

"Every proof … is produced with fresh independent randomness …": what fresh randomness buys.
`Zk.C07.commit_witness_indistinguishable` shows it for commitments; this file shows it for
`core_proof_gen`.

Fix a statement: key, generators `Q1 :: Hs`, header (hence `domain`), presentation header,
disclosed index set `D`. Let `(σ, msgs)` and `(σ', msgs')` be two WITNESSES:
`(sk + e)•A = B(msgs)`, `(sk + e')•A' = B(msgs')`, `msgs`, `msgs'` of the same length and equal
on `D`, `A ≠ 0`, `sk + e ≠ 0 ≠ sk + e'`.

Cyclicity. In BLS12-381 `G1` is cyclic of prime order, so `A' = u•A` for some scalar `u ≠ 0`
(both are non-zero). In the abstract module setting of this development (an arbitrary
`S`-module `G1`) that is NOT automatic, so it is the explicit hypothesis `hu : σ'.A = u • σ.A`
(`u ≠ 0` follows). `B(msgs') = t•B(msgs)` with `t = (sk+e')·u/(sk+e)` is then derived.

`retape` is the explicit tape transformation (`c` = the challenge of the run):

    r1' = r1·t/u            r2' = r2/t
    ẽ'  = ẽ + (e − e')·c    r̃1' = r̃1 + (r1' − r1)·c    r̃3' = r̃3 + (1/r2' − 1/r2)·c
    m̃'_j = m̃_j + (m_{u_j} − m'_{u_j})·c

* `proof_witness_indistinguishable` — if `core_proof_gen` with witness `(σ, msgs)` on `tape`
  returns `π`, then with witness `(σ', msgs')` on `retape … π.challenge tape` it returns THE SAME
  `π` (all of `Abar, Bbar, D, ê, r̂1, r̂3, m̂_j, c`): `Abar, Bbar, D, T1, T2` coincide, hence the
  hash input and the challenge, hence the responses. Nothing is assumed about the hash.
* `retape_inverse` — the transformation for the swapped pair of witnesses (`t⁻¹`, `u⁻¹`) undoes
  it; `retape_r1_ne_zero`, `retape_r2_ne_zero` — it preserves `r1 ≠ 0`, `r2 ≠ 0`.
* `proof_witness_indistinguishable_bijection` — for every proof `π`, `retape … π.challenge` is a
  bijection (explicit two-sided inverse) between the tapes of length `5 + U` on which witness 1
  yields `π` and those on which witness 2 yields `π`. So under a uniform tape the distribution
  of the returned proof is the same for both witnesses (perfect witness indistinguishability;
  with the simulator of the sigma protocol: honest-verifier zero knowledge).
* `proof_witness_indistinguishable_of_verify` — the same with the two witnesses given as
  signatures accepted by `core_verify` under `pk = sk • BP2`.
-/
import ZkProofs.Props.C07
import ZkProofs.Lemmas.ProofCore
set_option linter.unusedSectionVars false
set_option linter.unusedVariables false
set_option linter.unusedSimpArgs false
namespace Zk.C07WI
open Zk Res

variable {S G1 G2 GT : Type} [Field S] [DecidableEq S]
variable [AddCommGroup G1] [Module S G1] [DecidableEq G1]
variable [AddCommGroup G2] [Module S G2] [DecidableEq G2]
variable [AddCommGroup GT] [Module S GT]
variable {env : Env S G1 G2} {pair : G1 →ₗ[S] G2 →ₗ[S] GT}

/-! ### The tape transformation -/

/-- The factor with `B(msgs') = t • B(msgs)` when `A' = u • A`. -/
def tOf (sk e e' u : S) : S := (sk + e') * u / (sk + e)

/-- The tape transformation: `t`, `u` the scale factors (`B' = t•B`, `A' = u•A`), `e`, `e'` the
two signature exponents, `c` the challenge, `und` the undisclosed positions, `msgs`, `msgs'`
the two message vectors (read with default `0`). Tapes with fewer than 5 entries are left
alone. -/
def retape (t u e e' c : S) (und : List Nat) (msgs msgs' : List S) : List S → List S
  | r1 :: r2 :: eT :: r1T :: r3T :: mT =>
    (r1 * t / u) :: (r2 / t) :: (eT + (e - e') * c) :: (r1T + (r1 * t / u - r1) * c) ::
      (r3T + (t / r2 - 1 / r2) * c) ::
      List.zipWith (fun m d => m + d * c) mT (und.map fun i => msgs.getD i 0 - msgs'.getD i 0)
  | tape => tape

theorem tOf_ne_zero (sk e e' u : S) (hu : u ≠ 0) (he : sk + e ≠ 0) (he' : sk + e' ≠ 0) :
    tOf sk e e' u ≠ 0 := by
  unfold tOf
  exact div_ne_zero (mul_ne_zero he' hu) he

/-- The factor of the swapped pair of witnesses is the inverse factor. -/
theorem tOf_swap (sk e e' u : S) : tOf sk e' e u⁻¹ = (tOf sk e e' u)⁻¹ := by
  unfold tOf
  rw [inv_div, div_eq_mul_inv, div_eq_mul_inv, mul_inv]
  ring

theorem retape_length (t u e e' c : S) (und : List Nat) (msgs msgs' : List S) (tape : List S)
    (h : tape.length = 5 + und.length) :
    (retape t u e e' c und msgs msgs' tape).length = 5 + und.length := by
  rcases tape with _ | ⟨r1, _ | ⟨r2, _ | ⟨eT, _ | ⟨r1T, _ | ⟨r3T, mT⟩⟩⟩⟩⟩ <;>
    simp only [List.length_cons, List.length_nil] at h <;> try omega
  simp only [retape, List.length_cons, List.length_zipWith, List.length_map]
  omega

/-- `retape` keeps `r1 ≠ 0` … -/
theorem retape_r1_ne_zero (t u e e' c : S) (und : List Nat) (msgs msgs' : List S)
    (r1 r2 eT r1T r3T : S) (mT : List S) (ht : t ≠ 0) (hu : u ≠ 0) :
    ∃ r1' r2' rest, retape t u e e' c und msgs msgs' (r1 :: r2 :: eT :: r1T :: r3T :: mT)
        = r1' :: r2' :: rest ∧ (r1' ≠ 0 ↔ r1 ≠ 0) ∧ (r2' ≠ 0 ↔ r2 ≠ 0) := by
  refine ⟨_, _, _, rfl, ?_, ?_⟩
  · simp [ht, hu]
  · simp [ht]

/-- **`retape` is invertible**: the transformation for the swapped witnesses (factors `t⁻¹`,
`u⁻¹`, exponents and message vectors exchanged, same challenge) undoes it, on every tape
`r1 :: r2 :: ẽ :: r̃1 :: r̃3 :: m̃` with at most `U` entries `m̃`. -/
theorem retape_inverse (t u e e' c : S) (und : List Nat) (msgs msgs' : List S)
    (r1 r2 eT r1T r3T : S) (mT : List S) (ht : t ≠ 0) (hu : u ≠ 0)
    (hlen : mT.length ≤ und.length) :
    retape t⁻¹ u⁻¹ e' e c und msgs' msgs
        (retape t u e e' c und msgs msgs' (r1 :: r2 :: eT :: r1T :: r3T :: mT))
      = r1 :: r2 :: eT :: r1T :: r3T :: mT := by
  simp only [retape, List.cons.injEq]
  refine ⟨by field_simp, by field_simp, by ring, ?_, ?_, ?_⟩
  · have : r1 * t / u * t⁻¹ / u⁻¹ = r1 := by field_simp
    rw [this]; ring
  · have : t⁻¹ / (r2 / t) = 1 / r2 := by
      rw [div_div_eq_mul_div, inv_mul_cancel₀ ht]
    have h2 : (1 : S) / (r2 / t) = t / r2 := by rw [one_div_div]
    rw [this, h2]; ring
  · clear r1 r2 eT r1T r3T
    induction und generalizing mT with
    | nil =>
      have : mT = [] := List.length_eq_zero_iff.mp (by simpa using hlen)
      subst this; rfl
    | cons i und ih =>
      cases mT with
      | nil => rfl
      | cons m mT =>
        simp only [List.map_cons, List.zipWith_cons_cons, List.cons.injEq]
        exact ⟨by ring, ih mT (by simpa using hlen)⟩

/-! ### `core_proof_gen` unfolded, for a well-formed statement -/

/-- For a generator list `Q1 :: Hs` with one `H` per message and in-range disclosed indexes,
`core_proof_gen` is `proof_init`, then the challenge, then `proof_finalize`, on the first
`5 + U` tape entries. -/
theorem coreProofGen_unfold (cs : Suite G1) (pk : G2) (σ : Signature S G1) (gens : Generators G1)
    (Q1 : G1) (Hs : List G1) (msgs : List S) (D : List Nat) (header ph apiId : Option Bytes)
    (tape : List S)
    (hv : gens.values = Q1 :: Hs) (hlen : Hs.length = msgs.length)
    (hD : ∀ i ∈ D, i < msgs.length) :
    coreProofGen env cs pk σ gens msgs D header ph apiId tape =
      match proofInit env cs pk σ gens (tape.take (5 + (msgs.length - (sortDedup D).length)))
          header msgs (getRemainingIndexes msgs.length (sortDedup D)) apiId with
      | .err => .err
      | .panic => .panic
      | .ok init =>
        match proofChallengeCalculate env cs init (sortDedup D)
            ((sortDedup D).map fun i => msgs.getD i 0) ph apiId with
        | .err => .err
        | .panic => .panic
        | .ok c => proofFinalize env init c σ.e
            (tape.take (5 + (msgs.length - (sortDedup D).length)))
            ((getRemainingIndexes msgs.length (sortDedup D)).map fun i => msgs.getD i 0) := by
  have hdi : ∀ i ∈ sortDedup D, i < msgs.length := fun i hi => hD i (mem_sortDedup.mp hi)
  have hR : (sortDedup D).length ≤ msgs.length := sortDedup_length_le hD
  have hUlt : ∀ i ∈ getRemainingIndexes msgs.length (sortDedup D), i < msgs.length :=
    fun i hi => (mem_getRemainingIndexes.mp hi).1
  unfold coreProofGen
  simp only []
  rw [if_neg (by simp [hv]), if_neg (by simp [hv, hlen]), if_neg (by omega)]
  rw [if_neg (by
    simp only [List.any_eq_true, decide_eq_true_eq, not_exists, not_and]
    intro i hi; have := hdi i hi; omega)]
  rw [getMessages_ok msgs 0 _ hdi, getMessages_ok msgs 0 _ hUlt]
  rfl

/-! ### List algebra -/

/-- Shifting the blindings `m̃_j` by `δ_j·c` shifts `Σ m̃_j•H_{u_j}` by `c•Σ δ_j•H_{u_j}`. -/
theorem sum_zip_shift (f : Nat → G1) (c : S) : ∀ (und : List Nat) (mT δ : List S),
    mT.length = und.length → δ.length = und.length →
    ((und.zip (List.zipWith (fun m d => m + d * c) mT δ)).map fun p => p.2 • f p.1).sum
      = ((und.zip mT).map fun p => p.2 • f p.1).sum
        + c • ((und.zip δ).map fun p => p.2 • f p.1).sum
  | [], _, _, _, _ => by simp
  | i :: und, [], _, h, _ => by simp at h
  | i :: und, _ :: _, [], _, h => by simp at h
  | i :: und, m :: mT, d :: δ, h, h' => by
    have ih := sum_zip_shift f c und mT δ (by simpa using h) (by simpa using h')
    simp only [List.zipWith_cons_cons, List.zip_cons_cons, List.map_cons, List.sum_cons, ih]
    module

/-- The responses `m̂_j` do not change: `(m̃_j + (m_j − m'_j)c) + m'_j c = m̃_j + m_j c`. -/
theorem resp_retape (c : S) (m m' : Nat → S) : ∀ (und : List Nat) (mT : List S),
    ((List.zipWith (fun t d => t + d * c) mT (und.map fun i => m i - m' i)).zip
        (und.map m')).map (fun tm => tm.1 + tm.2 * c)
      = (mT.zip (und.map m)).map (fun tm => tm.1 + tm.2 * c)
  | [], _ => by simp
  | i :: und, [] => by simp
  | i :: und, t :: mT => by
    simp only [List.map_cons, List.zipWith_cons_cons, List.zip_cons_cons, List.cons.injEq]
    exact ⟨by ring, resp_retape c m m' und mT⟩

theorem sum_map_sub_smul (f : Nat → G1) (m m' : Nat → S) (l : List Nat) :
    (l.map fun i => m i • f i).sum - (l.map fun i => m' i • f i).sum
      = (l.map fun i => (m i - m' i) • f i).sum := by
  induction l with
  | nil => simp
  | cons i l ih => simp only [List.map_cons, List.sum_cons, ← ih]; module

/-- **Two message vectors that agree on the disclosed positions**: `B(msgs) − B(msgs')` is the
combination of the hidden-position generators with the message differences. -/
theorem calcB_sub (base Q1 : G1) (d : S) (Hs : List G1) (msgs msgs' : List S) (di : List Nat)
    (hlen : Hs.length = msgs.length) (hlen' : msgs'.length = msgs.length) (hn : di.Nodup)
    (hdi : ∀ i ∈ di, i < msgs.length)
    (hagree : ∀ i ∈ di, msgs'.getD i 0 = msgs.getD i 0) :
    calcB base Q1 d Hs msgs - calcB base Q1 d Hs msgs'
      = (((getRemainingIndexes msgs.length di).zip
          ((getRemainingIndexes msgs.length di).map fun i => msgs.getD i 0 - msgs'.getD i 0)).map
          fun p => p.2 • Hs.getD p.1 0).sum := by
  rw [calcB_split base Q1 d Hs msgs di hlen hn hdi,
    calcB_split base Q1 d Hs msgs' di (by omega) hn (by rw [hlen']; exact hdi), hlen',
    sum_zip_map_self (fun i => Hs.getD i 0) (fun i => msgs.getD i 0 - msgs'.getD i 0),
    ← sum_map_sub_smul]
  have : (di.map fun i => msgs'.getD i 0 • Hs.getD i 0)
      = di.map fun i => msgs.getD i 0 • Hs.getD i 0 :=
    List.map_congr_left fun i hi => by rw [hagree i hi]
  rw [this]
  abel

/-! ### The commitments of the sigma protocol coincide -/

/-- **`proof_init` on the transformed tape with the second witness returns the same
`(Abar, Bbar, D, T1, T2, domain)`.** Pure algebra; `Δ` is the hidden-position combination of
`calcB_sub`. -/
theorem initOf_retape (σ σ' : Signature S G1) (B B' : G1) (Hs : List G1) (und : List Nat)
    (sk u c : S) (r1 r2 eT r1T r3T : S) (mT δ : List S) (d : S)
    (hsig : (sk + σ.e) • σ.A = B) (hsig' : (sk + σ'.e) • σ'.A = B') (hu : σ'.A = u • σ.A)
    (hu0 : u ≠ 0) (hske : sk + σ.e ≠ 0) (hske' : sk + σ'.e ≠ 0) (hr2 : r2 ≠ 0)
    (hδ : B - B' = ((und.zip δ).map fun p => p.2 • Hs.getD p.1 0).sum)
    (hmT : mT.length = und.length) (hδl : δ.length = und.length) :
    initOf σ' B' Hs und (r1 * tOf sk σ.e σ'.e u / u) (r2 / tOf sk σ.e σ'.e u)
        (eT + (σ.e - σ'.e) * c) (r1T + (r1 * tOf sk σ.e σ'.e u / u - r1) * c)
        (r3T + (tOf sk σ.e σ'.e u / r2 - 1 / r2) * c)
        (List.zipWith (fun m d => m + d * c) mT δ) d
      = initOf σ B Hs und r1 r2 eT r1T r3T mT d := by
  have ht0 := tOf_ne_zero sk σ.e σ'.e u hu0 hske hske'
  have htdef : tOf sk σ.e σ'.e u * (sk + σ.e) = (sk + σ'.e) * u := by
    unfold tOf; field_simp
  generalize tOf sk σ.e σ'.e u = t at *
  have hB' : B' = (t * (sk + σ.e)) • σ.A := by
    rw [← hsig', hu, smul_smul, htdef]
  have hB : B = (sk + σ.e) • σ.A := hsig.symm
  have hΔ : ((und.zip δ).map fun p => p.2 • Hs.getD p.1 0).sum
      = ((1 - t) * (sk + σ.e)) • σ.A := by
    rw [← hδ, hB, hB']; module
  unfold initOf
  rw [sum_zip_shift (fun i => Hs.getD i 0) c und mT δ hmT hδl, hΔ, hB', hB, hu]
  generalize ((und.zip mT).map fun p => p.2 • Hs.getD p.1 0).sum = Sg
  generalize σ.A = A
  generalize σ.e = e at *
  generalize σ'.e = e' at *
  have e1 : r1 * t / u * (r2 / t) * u = r1 * r2 := by field_simp
  have e2 : r2 / t * (t * (sk + e)) = r2 * (sk + e) := by field_simp
  have e4 : (t / r2 - 1 / r2) * r2 = t - 1 := by field_simp
  have e5 : t / u * (sk + e) = sk + e' := by field_simp; linear_combination htdef
  have eB : r1 * t / u * (r2 / t) * (t * (sk + e)) - e' * (r1 * t / u * (r2 / t) * u)
      = r1 * r2 * (sk + e) - e * (r1 * r2) := by
    linear_combination (r1 * t / u * (r2 / t)) * htdef + sk * e1
  have eT1 : (eT + (e - e') * c) * (r1 * t / u * (r2 / t) * u)
      + (r1T + (r1 * t / u - r1) * c) * (r2 / t * (t * (sk + e)))
      = eT * (r1 * r2) + r1T * (r2 * (sk + e)) := by
    rw [e1, e2]; linear_combination c * r2 * r1 * e5
  have eT2 : (r3T + (t / r2 - 1 / r2) * c) * (r2 / t * (t * (sk + e))) + c * ((1 - t) * (sk + e))
      = r3T * (r2 * (sk + e)) := by
    rw [e2]; linear_combination c * (sk + e) * e4
  congr 1
  · linear_combination (norm := module) e1 • A
  · linear_combination (norm := module) eB • A
  · linear_combination (norm := module) e2 • A
  · linear_combination (norm := module) eT1 • A
  · linear_combination (norm := module) eT2 • A

/-! ### The theorem -/

/-- **Witness indistinguishability of `core_proof_gen`.** Fixed statement: key `pk`, generators
`Q1 :: Hs` (one `H` per message), header with `domain = d`, presentation header, disclosed index
list `D` (in range). Two witnesses `(σ, msgs)`, `(σ', msgs')` with `(sk+e)•A = B(msgs)`,
`(sk+e')•A' = B(msgs')`, the same number of messages, equal messages on `D`, `sk+e, sk+e' ≠ 0`,
and `A' = u•A`, `u ≠ 0` (cyclicity of `G1`, see the header). If the first witness on `tape` yields
the proof `π`, then the second witness on `retape … π.challenge (tape.take (5+U))` yields THE
SAME proof `π`. -/
theorem proof_witness_indistinguishable (hl : Lawful env pair) (cs : Suite G1) (pk : G2)
    (sk u : S) (σ σ' : Signature S G1) (gens : Generators G1) (Q1 : G1) (Hs : List G1) (d : S)
    (msgs msgs' : List S) (D : List Nat) (header ph apiId : Option Bytes)
    (hv : gens.values = Q1 :: Hs) (hlen : Hs.length = msgs.length)
    (hlen' : msgs'.length = msgs.length) (hD : ∀ i ∈ D, i < msgs.length)
    (hd : calculateDomain env cs pk Q1 Hs header apiId = .ok d)
    (hagree : ∀ i ∈ D, msgs'.getD i 0 = msgs.getD i 0)
    (hsig : (sk + σ.e) • σ.A = calcB gens.base Q1 d Hs msgs)
    (hsig' : (sk + σ'.e) • σ'.A = calcB gens.base Q1 d Hs msgs')
    (hu : σ'.A = u • σ.A) (hu0 : u ≠ 0) (hske : sk + σ.e ≠ 0) (hske' : sk + σ'.e ≠ 0)
    (tape : List S) (π : PoKSignature S G1)
    (h : coreProofGen env cs pk σ gens msgs D header ph apiId tape = .ok π) :
    coreProofGen env cs pk σ' gens msgs' D header ph apiId
      (retape (tOf sk σ.e σ'.e u) u σ.e σ'.e π.challenge
        (getRemainingIndexes msgs.length (sortDedup D)) msgs msgs'
        (tape.take (5 + (msgs.length - (sortDedup D).length)))) = .ok π := by
  have hdi : ∀ i ∈ sortDedup D, i < msgs.length := fun i hi => hD i (mem_sortDedup.mp hi)
  have hn := sortDedup_nodup D
  have hR : (sortDedup D).length ≤ msgs.length := sortDedup_length_le hD
  have hUlen : (getRemainingIndexes msgs.length (sortDedup D)).length
      = msgs.length - (sortDedup D).length := length_getRemainingIndexes hn hdi
  have hUlt : ∀ i ∈ getRemainingIndexes msgs.length (sortDedup D), i < Hs.length :=
    fun i hi => by rw [hlen]; exact (mem_getRemainingIndexes.mp hi).1
  have ht0 := tOf_ne_zero sk σ.e σ'.e u hu0 hske hske'
  rw [coreProofGen_unfold cs pk σ gens Q1 Hs msgs D header ph apiId tape hv hlen hD] at h
  cases hi : proofInit env cs pk σ gens (tape.take (5 + (msgs.length - (sortDedup D).length)))
      header msgs (getRemainingIndexes msgs.length (sortDedup D)) apiId with
  | err => rw [hi] at h; cases h
  | panic => rw [hi] at h; cases h
  | ok init =>
    rw [hi] at h; simp only at h
    obtain ⟨_, _, r1, r2, eT, r1T, r3T, mT, _, _, _, hrs, hmT, _⟩ :=
      C07.proofInit_roles cs pk σ gens _ header msgs _ apiId init hi
    rw [hrs] at hi h ⊢
    rw [proofInit_ok cs pk σ gens Q1 Hs header apiId msgs _ r1 r2 eT r1T r3T mT d hv hlen hd hmT
      hUlt] at hi
    cases hi
    cases hc : proofChallengeCalculate env cs
        (initOf σ (calcB gens.base Q1 d Hs msgs) Hs
          (getRemainingIndexes msgs.length (sortDedup D)) r1 r2 eT r1T r3T mT d)
        (sortDedup D) ((sortDedup D).map fun i => msgs.getD i 0) ph apiId with
    | err => rw [hc] at h; cases h
    | panic => rw [hc] at h; cases h
    | ok c =>
      rw [hc] at h; simp only at h
      obtain ⟨_, _, _, _, _, _, hrs', _, hr2, hπ⟩ := C07.proofFinalize_roles hl _ c σ.e _ _ π h
      simp only [List.cons.injEq] at hrs'
      obtain ⟨rfl, rfl, rfl, rfl, rfl, rfl⟩ := hrs'
      subst hπ
      simp only [retape]
      rw [coreProofGen_unfold cs pk σ' gens Q1 Hs msgs' D header ph apiId _ hv (by omega)
        (by rw [hlen']; exact hD), hlen']
      rw [List.take_of_length_le (by
        simp only [List.length_cons, List.length_zipWith, List.length_map]; omega)]
      rw [proofInit_ok cs pk σ' gens Q1 Hs header apiId msgs' _ _ _ _ _ _ _ d hv (by omega) hd
        (by simp only [List.length_zipWith, List.length_map]; omega) hUlt]
      simp only []
      rw [initOf_retape σ σ' _ _ Hs _ sk u c r1 r2 eT r1T r3T mT _ d hsig hsig' hu hu0 hske hske'
        hr2 (calcB_sub gens.base Q1 d Hs msgs msgs' _ hlen hlen' hn hdi
          (fun i hi => hagree i (mem_sortDedup.mp hi))) hmT (by simp)]
      have hdm : ((sortDedup D).map fun i => msgs'.getD i 0)
          = (sortDedup D).map fun i => msgs.getD i 0 :=
        List.map_congr_left (fun i hi => hagree i (mem_sortDedup.mp hi))
      rw [hdm, hc]
      simp only []
      rw [proofFinalize_ok hl _ c σ'.e _ _ _ _ _ _ _ (div_ne_zero hr2 ht0)
        (by simp only [List.length_zipWith, List.length_map]; omega)]
      rw [resp_retape c (fun i => msgs.getD i 0) (fun i => msgs'.getD i 0)]
      have e1 : eT + (σ.e - σ'.e) * c + σ'.e * c = eT + σ.e * c := by ring
      have e2 : r1T + (r1 * tOf sk σ.e σ'.e u / u - r1) * c - r1 * tOf sk σ.e σ'.e u / u * c
          = r1T - r1 * c := by ring
      have e3 : r3T + (tOf sk σ.e σ'.e u / r2 - 1 / r2) * c - (r2 / tOf sk σ.e σ'.e u)⁻¹ * c
          = r3T - r2⁻¹ * c := by
        rw [inv_div]; ring
      rw [e1, e2, e3]

/-! ### `retape` as a bijection between the tapes that yield a given proof -/

theorem tape_shape (tape : List S) (n : Nat) (h : tape.length = 5 + n) :
    ∃ r1 r2 eT r1T r3T mT, tape = r1 :: r2 :: eT :: r1T :: r3T :: mT ∧ mT.length = n := by
  rcases tape with _ | ⟨r1, _ | ⟨r2, _ | ⟨eT, _ | ⟨r1T, _ | ⟨r3T, mT⟩⟩⟩⟩⟩ <;>
    simp only [List.length_cons, List.length_nil] at h <;> try omega
  exact ⟨r1, r2, eT, r1T, r3T, mT, rfl, by omega⟩

/-- One direction: on the tapes of length `5 + U` on which witness 1 yields `π`, `retape` lands
in the tapes of length `5 + U` on which witness 2 yields `π`, and the `retape` of the swapped
problem brings the tape back. -/
theorem wi_half (hl : Lawful env pair) (cs : Suite G1) (pk : G2)
    (sk u : S) (σ σ' : Signature S G1) (gens : Generators G1) (Q1 : G1) (Hs : List G1) (d : S)
    (msgs msgs' : List S) (D : List Nat) (header ph apiId : Option Bytes)
    (hv : gens.values = Q1 :: Hs) (hlen : Hs.length = msgs.length)
    (hlen' : msgs'.length = msgs.length) (hD : ∀ i ∈ D, i < msgs.length)
    (hd : calculateDomain env cs pk Q1 Hs header apiId = .ok d)
    (hagree : ∀ i ∈ D, msgs'.getD i 0 = msgs.getD i 0)
    (hsig : (sk + σ.e) • σ.A = calcB gens.base Q1 d Hs msgs)
    (hsig' : (sk + σ'.e) • σ'.A = calcB gens.base Q1 d Hs msgs')
    (hu : σ'.A = u • σ.A) (hu0 : u ≠ 0) (hske : sk + σ.e ≠ 0) (hske' : sk + σ'.e ≠ 0)
    (tape : List S) (π : PoKSignature S G1)
    (htl : tape.length = 5 + (msgs.length - (sortDedup D).length))
    (h : coreProofGen env cs pk σ gens msgs D header ph apiId tape = .ok π) :
    (retape (tOf sk σ.e σ'.e u) u σ.e σ'.e π.challenge
        (getRemainingIndexes msgs.length (sortDedup D)) msgs msgs' tape).length
      = 5 + (msgs.length - (sortDedup D).length) ∧
    coreProofGen env cs pk σ' gens msgs' D header ph apiId
      (retape (tOf sk σ.e σ'.e u) u σ.e σ'.e π.challenge
        (getRemainingIndexes msgs.length (sortDedup D)) msgs msgs' tape) = .ok π ∧
    retape (tOf sk σ'.e σ.e u⁻¹) u⁻¹ σ'.e σ.e π.challenge
        (getRemainingIndexes msgs.length (sortDedup D)) msgs' msgs
      (retape (tOf sk σ.e σ'.e u) u σ.e σ'.e π.challenge
        (getRemainingIndexes msgs.length (sortDedup D)) msgs msgs' tape) = tape := by
  have hdi : ∀ i ∈ sortDedup D, i < msgs.length := fun i hi => hD i (mem_sortDedup.mp hi)
  have hUlen : (getRemainingIndexes msgs.length (sortDedup D)).length
      = msgs.length - (sortDedup D).length :=
    length_getRemainingIndexes (sortDedup_nodup D) hdi
  have ht0 := tOf_ne_zero sk σ.e σ'.e u hu0 hske hske'
  have hmain := proof_witness_indistinguishable hl cs pk sk u σ σ' gens Q1 Hs d msgs msgs' D
    header ph apiId hv hlen hlen' hD hd hagree hsig hsig' hu hu0 hske hske' tape π h
  rw [List.take_of_length_le (by omega)] at hmain
  refine ⟨?_, hmain, ?_⟩
  · rw [retape_length _ _ _ _ _ _ _ _ tape (by rw [hUlen]; exact htl), hUlen]
  · obtain ⟨r1, r2, eT, r1T, r3T, mT, rfl, hmT⟩ := tape_shape tape _ htl
    rw [tOf_swap]
    exact retape_inverse _ _ _ _ _ _ _ _ r1 r2 eT r1T r3T mT ht0 hu0 (by omega)

/-- **Perfect witness indistinguishability of `core_proof_gen`.** Same setting as
`proof_witness_indistinguishable`. For EVERY proof object `π`, with
`F = retape t u e e' π.c` and `G = retape t⁻¹ u⁻¹ e' e π.c` (the `retape` of the swapped pair of
witnesses): `F` maps the tapes of length `5 + U` on which `(σ, msgs)` yields `π` into the tapes of
length `5 + U` on which `(σ', msgs')` yields `π`, `G` maps back, and `G ∘ F = id`, `F ∘ G = id`
there. So the two sets of tapes are in bijection: over a finite scalar field and a uniformly
random tape, every proof `π` is output with the same probability under both witnesses. -/
theorem proof_witness_indistinguishable_bijection (hl : Lawful env pair) (cs : Suite G1) (pk : G2)
    (sk u : S) (σ σ' : Signature S G1) (gens : Generators G1) (Q1 : G1) (Hs : List G1) (d : S)
    (msgs msgs' : List S) (D : List Nat) (header ph apiId : Option Bytes)
    (hv : gens.values = Q1 :: Hs) (hlen : Hs.length = msgs.length)
    (hlen' : msgs'.length = msgs.length) (hD : ∀ i ∈ D, i < msgs.length)
    (hd : calculateDomain env cs pk Q1 Hs header apiId = .ok d)
    (hagree : ∀ i ∈ D, msgs'.getD i 0 = msgs.getD i 0)
    (hsig : (sk + σ.e) • σ.A = calcB gens.base Q1 d Hs msgs)
    (hsig' : (sk + σ'.e) • σ'.A = calcB gens.base Q1 d Hs msgs')
    (hu : σ'.A = u • σ.A) (hu0 : u ≠ 0) (hske : sk + σ.e ≠ 0) (hske' : sk + σ'.e ≠ 0)
    (π : PoKSignature S G1) :
    let U := msgs.length - (sortDedup D).length
    let und := getRemainingIndexes msgs.length (sortDedup D)
    let F := retape (tOf sk σ.e σ'.e u) u σ.e σ'.e π.challenge und msgs msgs'
    let G := retape (tOf sk σ'.e σ.e u⁻¹) u⁻¹ σ'.e σ.e π.challenge und msgs' msgs
    (∀ tape, tape.length = 5 + U →
        coreProofGen env cs pk σ gens msgs D header ph apiId tape = .ok π →
        (F tape).length = 5 + U ∧
        coreProofGen env cs pk σ' gens msgs' D header ph apiId (F tape) = .ok π ∧
        G (F tape) = tape) ∧
    (∀ tape', tape'.length = 5 + U →
        coreProofGen env cs pk σ' gens msgs' D header ph apiId tape' = .ok π →
        (G tape').length = 5 + U ∧
        coreProofGen env cs pk σ gens msgs D header ph apiId (G tape') = .ok π ∧
        F (G tape') = tape') := by
  intro U und F G
  refine ⟨fun tape htl h => wi_half hl cs pk sk u σ σ' gens Q1 Hs d msgs msgs' D header ph apiId
    hv hlen hlen' hD hd hagree hsig hsig' hu hu0 hske hske' tape π htl h, ?_⟩
  intro tape' htl h
  have hu' : σ.A = u⁻¹ • σ'.A := by rw [hu, smul_smul, inv_mul_cancel₀ hu0, one_smul]
  have := wi_half hl cs pk sk u⁻¹ σ' σ gens Q1 Hs d msgs' msgs D header ph apiId
    hv (by omega) hlen'.symm (by rw [hlen']; exact hD) hd (fun i hi => (hagree i hi).symm)
    hsig' hsig hu' (inv_ne_zero hu0) hske' hske tape' π (by rw [hlen']; exact htl) h
  rw [hlen', inv_inv] at this
  exact this

/-! ### With the witnesses given as verifying signatures -/

/-- The same with the two witnesses given as signatures accepted by `core_verify` under
`pk = sk • BP2` for message vectors of the same length that agree on the disclosed positions
(`sk + e ≠ 0` is automatic for an accepted signature with `B ≠ 0`; kept as a hypothesis). -/
theorem proof_witness_indistinguishable_of_verify (hl : Lawful env pair) (cs : Suite G1)
    (sk u : S) (σ σ' : Signature S G1) (gens : Generators G1)
    (msgs msgs' : List S) (D : List Nat) (header ph apiId : Option Bytes)
    (hver : coreVerify env cs (sk • env.bp2) σ msgs gens header apiId = .ok ())
    (hver' : coreVerify env cs (sk • env.bp2) σ' msgs' gens header apiId = .ok ())
    (hD : ∀ i ∈ D, i < msgs.length)
    (hagree : ∀ i ∈ D, msgs'.getD i 0 = msgs.getD i 0)
    (hu : σ'.A = u • σ.A) (hu0 : u ≠ 0) (hske : sk + σ.e ≠ 0) (hske' : sk + σ'.e ≠ 0)
    (tape : List S) (π : PoKSignature S G1)
    (h : coreProofGen env cs (sk • env.bp2) σ gens msgs D header ph apiId tape = .ok π) :
    msgs'.length = msgs.length ∧
    coreProofGen env cs (sk • env.bp2) σ' gens msgs' D header ph apiId
      (retape (tOf sk σ.e σ'.e u) u σ.e σ'.e π.challenge
        (getRemainingIndexes msgs.length (sortDedup D)) msgs msgs'
        (tape.take (5 + (msgs.length - (sortDedup D).length)))) = .ok π := by
  obtain ⟨Q1, Hs, d, hv, hlen, hd, hsig⟩ := (coreVerify_ok_iff hl cs sk σ msgs gens header apiId).mp hver
  obtain ⟨Q1', Hs', d', hv', hlen2, hd', hsig'⟩ :=
    (coreVerify_ok_iff hl cs sk σ' msgs' gens header apiId).mp hver'
  rw [hv] at hv'
  obtain ⟨rfl, rfl⟩ := List.cons.inj hv'
  rw [hd] at hd'; cases hd'
  have hlen' : msgs'.length = msgs.length := by omega
  exact ⟨hlen', proof_witness_indistinguishable hl cs _ sk u σ σ' gens Q1 Hs d msgs msgs' D
    header ph apiId hv hlen hlen' hD hd hagree hsig hsig' hu hu0 hske hske' tape π h⟩

/-! ### The cyclicity hypothesis is automatic in a one-dimensional module -/

/-- In a one-dimensional module (here `G1 = S`; BLS12-381 `G1` is one-dimensional over its
scalar field) any two non-zero elements are multiples of each other by a non-zero scalar: the
hypotheses `hu`, `hu0` of the theorems above are satisfiable for every pair of signatures. -/
example (A A' : S) (hA : A ≠ 0) (hA' : A' ≠ 0) : ∃ u : S, u ≠ 0 ∧ A' = u • A :=
  ⟨A' / A, div_ne_zero hA' hA, by rw [smul_eq_mul]; field_simp⟩

end Zk.C07WI
