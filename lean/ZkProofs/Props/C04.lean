/-
C04  BBS proof soundness.

"A proof verifies only for the statement it was generated for: verification fails if any
disclosed message or its position, the header, the presentation header, the public key, the
number of hidden messages, or any single bit of the encoded proof differs. No proof that can be
assembled from public information alone is accepted, in particular proofs whose group elements
are the identity or whose responses are chosen to cancel the verifier's recomputation."

No deterministic theorem can say "a forger fails" (the hash functions are arbitrary). What is
proved, for every lawful environment, both suites, all lengths and index sets:

* `*_rejects_identity`, `fromBytes_no_identity` — identity points are refused everywhere;
* `coreProofVerify_ok_iff` — exactly what the verifier decides (explicit `T1`, `T2`);
* `special_soundness` — an explicit extractor: two transcripts with the same commitment and
  different challenges yield a signature accepted by `coreVerify` on the disclosed messages
  completed with extracted hidden messages, or the secret key; `Abar ≠ 0` is essential
  (`special_soundness_needs_Abar_ne_zero`);
* `proof_binding` and the `tamper_*` theorems — any change of one response, of a commitment
  point or of the number of hidden messages that is still accepted exhibits a `HashCollision`
  (a zero generator for a hidden-message response); a changed challenge a `FixedPoint`;
* `stmt_binding`, `proofVerify_stmt_binding` — one proof accepted for two statements: the
  statements coincide or a `HashCollision` is exhibited.
-/
import ZkProofs.Lemmas.Sound
import Mathlib.Tactic.NormNum
import Mathlib.Data.Rat.Init
import Mathlib.Algebra.Order.Field.Rat
set_option linter.unusedSectionVars false
set_option linter.unusedVariables false
set_option linter.unusedSimpArgs false
namespace Zk.C04
open Zk Res Zk.Sound

variable {S G1 G2 GT : Type} [Field S] [DecidableEq S]
variable [AddCommGroup G1] [Module S G1] [DecidableEq G1]
variable [AddCommGroup G2] [Module S G2] [DecidableEq G2]
variable [AddCommGroup GT] [Module S GT]
variable {env env' : Env S G1 G2} {pair : G1 →ₗ[S] G2 →ₗ[S] GT}

/-! ### 1. Identity points are refused -/

/-- `core_proof_verify` returns `Err` for a proof containing an identity point — in every
environment, for every statement (this is the check whose absence allowed the forgery
`Abar = Bbar = 0`). -/
theorem proof_rejects_identity (cs : Suite G1) (pk : G2) (π : PoKSignature S G1)
    (gens : Generators G1) (header ph : Option Bytes) (dm : List S) (di : List Nat)
    (apiId : Option Bytes) (h : π.Abar = 0 ∨ π.Bbar = 0 ∨ π.D = 0) :
    coreProofVerify env cs pk π gens header ph dm di apiId = .err := by
  unfold coreProofVerify proofVerifyInit
  simp only [if_pos h]

/-- `proof_verify` never accepts a proof containing an identity point (it returns `Err`, or
propagates a failure of message mapping / generator creation). -/
theorem proofVerify_rejects_identity (cs : Suite G1) (π : PoKSignature S G1) (pk : G2)
    (dmsgs : Option (List Bytes)) (di : Option (List Nat)) (header ph : Option Bytes)
    (h : π.Abar = 0 ∨ π.Bbar = 0 ∨ π.D = 0) :
    proofVerify env cs π pk dmsgs di header ph ≠ .ok () := by
  unfold proofVerify
  dsimp only
  cases messagesToScalar env cs (dmsgs.getD []) cs.apiId with
  | err => simp
  | panic => simp
  | ok dm =>
    simp only
    cases Generators.create env cs
        (π.mCap.length + (sortDedup (di.getD [])).length + 1) (some cs.apiId) with
    | err => simp
    | panic => simp
    | ok gens =>
      simp only
      rw [proof_rejects_identity cs pk π gens header ph dm _ _ h]
      simp

/-- `blind_proof_verify` never accepts a proof containing an identity point. -/
theorem blindProofVerify_rejects_identity (cs : Suite G1) (π : PoKSignature S G1) (pk : G2)
    (header ph : Option Bytes) (L : Option Nat) (dmsgs dcmsgs : Option (List Bytes))
    (di dci : Option (List Nat)) (h : π.Abar = 0 ∨ π.Bbar = 0 ∨ π.D = 0) :
    blindProofVerify env cs π pk header ph L dmsgs dcmsgs di dci ≠ .ok () := by
  unfold blindProofVerify
  dsimp only
  cases uAdd? (L.getD 0) 1 with
  | none => simp
  | some L1 =>
    simp only
    cases uSub? ((sortDedup (di.getD [])).length + (sortDedup (dci.getD [])).length
        + π.mCap.length) L1 with
    | none => simp
    | some M =>
      simp only
      split
      · simp
      · cases prepareParameters env cs (some (dmsgs.getD [])) (some (dcmsgs.getD []))
            (L.getD 0 + 1) (M + 1) none (some cs.apiIdBlind) with
        | err => simp
        | panic => simp
        | ok r =>
          obtain ⟨ms, gens⟩ := r
          simp only
          rw [proof_rejects_identity cs pk π gens header ph ms _ _ h]
          simp

/-- The decoder never returns a proof containing an identity point. -/
theorem fromBytes_no_identity (b : Bytes) (π : PoKSignature S G1)
    (h : PoKSignature.fromBytes env b = .ok π) : π.Abar ≠ 0 ∧ π.Bbar ≠ 0 ∧ π.D ≠ 0 := by
  unfold PoKSignature.fromBytes at h
  split at h
  · cases h
  cases hA : env.g1Dec (b.take 48) with
  | none => rw [hA] at h; cases h
  | some Abar =>
    rw [hA] at h; simp only at h
    cases hB : env.g1Dec ((b.drop 48).take 48) with
    | none => rw [hB] at h; cases h
    | some Bbar =>
      rw [hB] at h; simp only at h
      cases hD : env.g1Dec ((b.drop 96).take 48) with
      | none => rw [hD] at h; cases h
      | some D =>
        rw [hD] at h; simp only at h
        split at h
        · cases h
        rename_i hne
        cases he : env.sDec ((b.drop 144).take 32) with
        | none => rw [he] at h; cases h
        | some e =>
          rw [he] at h; simp only at h
          cases hr1 : env.sDec ((b.drop 176).take 32) with
          | none => rw [hr1] at h; cases h
          | some r1 =>
            rw [hr1] at h; simp only at h
            cases hr3 : env.sDec ((b.drop 208).take 32) with
            | none => rw [hr3] at h; cases h
            | some r3 =>
              rw [hr3] at h; simp only at h
              cases hs : decodeScalars env (chunks32 (b.drop 240).length (b.drop 240)) with
              | err => rw [hs] at h; cases h
              | panic => rw [hs] at h; cases h
              | ok ss =>
                rw [hs] at h; simp only at h
                cases hl : ss.getLast? with
                | none => rw [hl] at h; cases h
                | some c =>
                  rw [hl] at h; simp only [Res.ok.injEq] at h
                  subst h
                  simp only
                  exact ⟨fun x => hne (Or.inl x), fun x => hne (Or.inr (Or.inl x)),
                    fun x => hne (Or.inr (Or.inr x))⟩

/-! ### 2. What the verifier decides -/

/-- **Characterisation of `core_proof_verify`** for `pk = sk • BP2` in a lawful environment.
With `U = |m̂|`, `R = |di|`, `c, ê, r̂1, r̂3, m̂` the scalars of the proof and
`u = get_remaining_indexes(U + R, di)`, the proof is accepted iff

* no point of the proof is the identity, every disclosed index is `≤ U + R − 1`, and there are as
  many disclosed messages as disclosed indexes;
* there are exactly `U + R + 1` generators `Q1, H_0, …` and the domain can be computed;
* `hash_to_scalar` of the challenge input rebuilt from
  `T1 = c•Bbar + ê•Abar + r̂1•D` and
  `T2 = c•(P1 + domain•Q1 + Σ_k dm_k•H_{di_k}) + r̂3•D + Σ_j m̂_j•H_{u_j}` is `c`;
* `sk • Abar = Bbar`.

(`Sound.lin Hs is ss = Σ_j ss_j • Hs[is_j]`.) -/
theorem coreProofVerify_ok_iff (hl : Lawful env pair) (cs : Suite G1) (sk : S)
    (π : PoKSignature S G1) (gens : Generators G1) (header ph : Option Bytes) (dm : List S)
    (di : List Nat) (apiId : Option Bytes) :
    coreProofVerify env cs (sk • env.bp2) π gens header ph dm di apiId = .ok () ↔
      (π.Abar ≠ 0 ∧ π.Bbar ≠ 0 ∧ π.D ≠ 0 ∧ (∀ i ∈ di, i ≤ π.mCap.length + di.length - 1) ∧
        dm.length = di.length) ∧
      ∃ Q1 Hs domain, gens.values = Q1 :: Hs ∧ Hs.length = π.mCap.length + di.length ∧
        calculateDomain env cs (sk • env.bp2) Q1 Hs header apiId = .ok domain ∧
        hashToScalar env cs
          (challengeInput env
            ⟨π.Abar, π.Bbar, π.D,
              π.challenge • π.Bbar + π.eCap • π.Abar + π.r1Cap • π.D,
              π.challenge • (gens.base + domain • Q1 + lin Hs di dm) + π.r3Cap • π.D
                + lin Hs (getRemainingIndexes (π.mCap.length + di.length) di) π.mCap,
              domain⟩ di dm (ph.getD []))
          (apiId.getD [] ++ cs.h2s) = .ok π.challenge ∧
        sk • π.Abar = π.Bbar :=
  Sound.coreProofVerify_ok_iff hl cs sk π gens header ph dm di apiId

/-- The same for an arbitrary public key and an arbitrary environment, with the pairing check
left as it is. -/
theorem coreProofVerify_ok_iff_pairing (cs : Suite G1) (pk : G2) (π : PoKSignature S G1)
    (gens : Generators G1) (header ph : Option Bytes) (dm : List S) (di : List Nat)
    (apiId : Option Bytes) :
    coreProofVerify env cs pk π gens header ph dm di apiId = .ok () ↔
      Structural π dm di ∧ ∃ Q1 Hs domain, gens.values = Q1 :: Hs ∧
        Hs.length = π.mCap.length + di.length ∧
        calculateDomain env cs pk Q1 Hs header apiId = .ok domain ∧
        ChallengeOk env cs π gens.base Q1 Hs domain ph dm di apiId ∧
        env.pairingCheck [(π.Abar, pk), (π.Bbar, -env.bp2)] = true :=
  Sound.coreProofVerify_ok_iff_pairing cs pk π gens header ph dm di apiId

/-! ### 3. Special soundness -/

/-- Under one environment the challenge is a function of the hashed data, so two accepted
proofs for one statement with the same recomputed commitment have the same challenge. Special
soundness therefore speaks about a second transcript verified under a possibly different
environment `env'` (the re-programmed random oracle of the forking argument). -/
theorem same_commitment_same_challenge (cs : Suite G1) (pk : G2) (π π' : PoKSignature S G1)
    (gens : Generators G1) (header ph : Option Bytes) (dm : List S) (di : List Nat)
    (apiId : Option Bytes)
    (h : coreProofVerify env cs pk π gens header ph dm di apiId = .ok ())
    (h' : coreProofVerify env cs pk π' gens header ph dm di apiId = .ok ())
    (hsame : proofVerifyInit env cs pk π' gens header dm di apiId
      = proofVerifyInit env cs pk π gens header dm di apiId) :
    π'.challenge = π.challenge := by
  obtain ⟨hs, Q1, Hs, d, hv, hlen, hd, hch, _⟩ :=
    (Sound.coreProofVerify_ok_iff_pairing cs pk π gens header ph dm di apiId).mp h
  obtain ⟨hs', Q1', Hs', d', hv', hlen', hd', hch', _⟩ :=
    (Sound.coreProofVerify_ok_iff_pairing cs pk π' gens header ph dm di apiId).mp h'
  rw [hv] at hv'
  obtain ⟨rfl, rfl⟩ := List.cons.inj hv'
  rw [hd] at hd'; cases hd'
  have e1 := (proofVerifyInit_ok_iff (env := env) cs pk π gens header dm di apiId _).mpr
    ⟨hs, Q1, Hs, d, hv, hlen, hd, rfl⟩
  have e2 := (proofVerifyInit_ok_iff (env := env) cs pk π' gens header dm di apiId _).mpr
    ⟨hs', Q1, Hs, d, hv, hlen', hd, rfl⟩
  rw [hsame, e1] at e2
  have e3 := Res.ok.inj e2
  unfold ChallengeOk at hch hch'
  rw [← e3, hch] at hch'
  exact (Res.ok.inj hch').symm

/-- **Special soundness, explicit extractor.** Let `π` be accepted for a statement under
`pk = sk • BP2`, and let `π'` be a second transcript for the same generators, disclosed messages
and indexes for which `proof_verify_init` (run in any environment `env'`, i.e. with any hash
functions) recomputes the same `(Abar, Bbar, D, T1, T2, domain)`, with a different challenge.
Then the publicly computable values `x = Sound.extract π π'`,

  `Δ = (c − c')⁻¹`, `e* = Δ(ê − ê')`, `r1* = −Δ(r̂1 − r̂1')`, `r3* = −Δ(r̂3 − r̂3')`,
  `m*_j = Δ(m̂_j − m̂'_j)`, `A* = (r3*/r1*) • Abar`,

satisfy: if `r1* ≠ 0`, the signature `(A*, e*)` is ACCEPTED BY `core_verify` for the message
vector `msgs` that carries the disclosed messages at the disclosed positions and the extracted
`m*_j` at the hidden positions, i.e. `(sk + e*) • A* = B(msgs)`; if `r1* = 0`, the secret key is
`−e*`. The second alternative rests on `Abar ≠ 0`, which the verifier checks. -/
theorem special_soundness (hl : Lawful env pair) (cs cs' : Suite G1) (sk : S)
    (π π' : PoKSignature S G1) (gens : Generators G1) (header header' ph : Option Bytes)
    (dm : List S) (di : List Nat) (apiId apiId' : Option Bytes)
    (h : coreProofVerify env cs (sk • env.bp2) π gens header ph dm di apiId = .ok ())
    (hsame : proofVerifyInit env' cs' (sk • env.bp2) π' gens header' dm di apiId'
      = proofVerifyInit env cs (sk • env.bp2) π gens header dm di apiId)
    (hc : π.challenge ≠ π'.challenge) :
    ∃ Q1 Hs, gens.values = Q1 :: Hs ∧ Hs.length = π.mCap.length + di.length ∧
      π'.mCap.length = π.mCap.length ∧
      let x := extract π π'
      let ud := getRemainingIndexes Hs.length di
      let msgs := fullMsgs Hs.length di dm ud x.ms
      (x.r1 ≠ 0 →
        coreVerify env cs (sk • env.bp2) ⟨x.A, x.e⟩ msgs gens header apiId = .ok ()) ∧
      (x.r1 = 0 → sk = -x.e) ∧
      (di.Nodup → ∀ j (h1 : j < di.length) (h2 : j < dm.length),
        msgs[di[j]]? = some dm[j]) ∧
      (∀ j (h1 : j < x.ms.length), ∃ h2 : j < ud.length, msgs[ud[j]]? = some x.ms[j]) := by
  obtain ⟨hs, Q1, Hs, d, hv, hlen, hd, hch, hsk⟩ :=
    (Sound.coreProofVerify_ok_iff hl cs sk π gens header ph dm di apiId).mp h
  have e1 := (proofVerifyInit_ok_iff (env := env) cs (sk • env.bp2) π gens header dm di apiId
    _).mpr ⟨hs, Q1, Hs, d, hv, hlen, hd, rfl⟩
  rw [e1] at hsame
  obtain ⟨hs', Q1', Hs', d', hv', hlen', hd', hinit⟩ :=
    (proofVerifyInit_ok_iff (env := env') cs' (sk • env.bp2) π' gens header' dm di apiId' _).mp
      hsame
  rw [hv] at hv'
  obtain ⟨rfl, rfl⟩ := List.cons.inj hv'
  have hU : π'.mCap.length = π.mCap.length := by omega
  simp only [initOf, ProofInitResult.mk.injEq] at hinit
  obtain ⟨hA, hB, hD, hT1, hT2, hdd⟩ := hinit
  subst hdd
  rw [hU, ← hlen] at hT2
  obtain ⟨hA0, hB0, hD0, hr, hdl⟩ := hs
  refine ⟨Q1, Hs, hv, hlen, hU, ?_⟩
  have hex := extract_sig sk π π' (Bv gens.base Q1 d Hs di dm) Hs
    (getRemainingIndexes Hs.length di) hA.symm hB.symm hD.symm hU.symm hc hT1 hT2 hsk
  have hxlen : (extract π π').ms.length = π.mCap.length := by
    simp [extract, hU]
  have hudlen : π.mCap.length ≤ (getRemainingIndexes Hs.length di).length := by
    have := getRemainingIndexes_length Hs.length di
    omega
  have hdi : ∀ i ∈ di.take dm.length, i < Hs.length := by
    intro i hi
    have hi' := List.mem_of_mem_take hi
    have := hr i hi'
    have : di.length ≠ 0 := by
      intro h0; rw [List.length_eq_zero_iff.mp h0] at hi'; simp at hi'
    omega
  have hud : ∀ i ∈ (getRemainingIndexes Hs.length di).take (extract π π').ms.length,
      i < Hs.length := by
    intro i hi
    exact (mem_getRemainingIndexes.mp (List.mem_of_mem_take hi)).1
  have hBeq := Bv_add_lin_eq_calcB gens.base Q1 d Hs di dm
    (getRemainingIndexes Hs.length di) (extract π π').ms hdi hud
  dsimp only
  refine ⟨?_, fun h0 => hex.2 h0 hA0, ?_, ?_⟩
  · intro hr1
    rw [coreVerify_ok_iff hl]
    refine ⟨Q1, Hs, d, hv, by simp, hd, ?_⟩
    rw [← hBeq]
    exact hex.1 hr1
  · intro hn j h1 h2
    have hL : di[j] < Hs.length := by
      have := hr _ (List.getElem_mem h1); omega
    rw [List.getElem?_eq_getElem (by simpa using hL)]
    congr 1
    exact fullMsgs_getElem_di _ di dm _ _ hn
      (fun i hi hu => (mem_getRemainingIndexes.mp hu).2 hi) j h1 h2 hL
  · intro j h1
    have h2 : j < (getRemainingIndexes Hs.length di).length := by omega
    refine ⟨h2, ?_⟩
    have hL : (getRemainingIndexes Hs.length di)[j] < Hs.length :=
      (mem_getRemainingIndexes.mp (List.getElem_mem h2)).1
    rw [List.getElem?_eq_getElem (by simpa using hL)]
    congr 1
    exact fullMsgs_getElem_ud _ di dm _ _ (getRemainingIndexes_nodup _ _)
      (fun i hi => (mem_getRemainingIndexes.mp hi).2) j h2 h1 hL

/-- Existential form of `special_soundness`: a signature accepted by `core_verify` on a message
vector that carries the disclosed messages at the disclosed positions, or the secret key. (The
witnesses are the explicit, publicly computable ones of `special_soundness`; stated with bare
existentials this would be trivial for the first alternative taken alone.) -/
theorem special_soundness_exists (hl : Lawful env pair) (cs cs' : Suite G1) (sk : S)
    (π π' : PoKSignature S G1) (gens : Generators G1) (header header' ph : Option Bytes)
    (dm : List S) (di : List Nat) (apiId apiId' : Option Bytes)
    (h : coreProofVerify env cs (sk • env.bp2) π gens header ph dm di apiId = .ok ())
    (hsame : proofVerifyInit env' cs' (sk • env.bp2) π' gens header' dm di apiId'
      = proofVerifyInit env cs (sk • env.bp2) π gens header dm di apiId)
    (hc : π.challenge ≠ π'.challenge) :
    (∃ (A : G1) (e : S) (msgs : List S),
        coreVerify env cs (sk • env.bp2) ⟨A, e⟩ msgs gens header apiId = .ok () ∧
        (di.Nodup → ∀ j (h1 : j < di.length) (h2 : j < dm.length), msgs[di[j]]? = some dm[j])) ∨
      sk = -(extract π π').e := by
  obtain ⟨Q1, Hs, _, _, _, hx⟩ :=
    special_soundness hl cs cs' sk π π' gens header header' ph dm di apiId apiId' h hsame hc
  dsimp only at hx
  obtain ⟨h1, h2, h3, _⟩ := hx
  by_cases hr : (extract π π').r1 = 0
  · exact Or.inr (h2 hr)
  · exact Or.inl ⟨_, _, _, h1 hr, h3⟩

/-- **`Abar ≠ 0` is essential.** Over the toy instance `S = G1 = ℚ`: two transcripts with
`Abar = Bbar = 0` (the forgery the unfixed code accepted) satisfy every algebraic premise of the
extractor (`Sound.extract_sig`) — same commitment points, same `T1`, same `T2`, different
challenges, `sk • Abar = Bbar` — for ANY `Bv`, yet `r1* = 0` and `sk ≠ −e*`, and no signature is
produced. -/
theorem special_soundness_needs_Abar_ne_zero :
    ∃ (sk : ℚ) (π π' : PoKSignature ℚ ℚ) (bv : ℚ) (Hs : List ℚ) (ud : List Nat),
      π'.Abar = π.Abar ∧ π'.Bbar = π.Bbar ∧ π'.D = π.D ∧ π.mCap.length = π'.mCap.length ∧
      π.challenge ≠ π'.challenge ∧ T1 π = T1 π' ∧ T2 π bv Hs ud = T2 π' bv Hs ud ∧
      sk • π.Abar = π.Bbar ∧ π.D ≠ 0 ∧
      (extract π π').r1 = 0 ∧ sk ≠ -(extract π π').e := by
  refine ⟨7, ⟨0, 0, 1, 0, 0, 0, [], 1⟩, ⟨0, 0, 1, 0, 0, 5, [], 0⟩, 5, [], [], ?_⟩
  simp only [T1, T2, extract, lin]
  norm_num

/-! ### 4. Tampering with an accepted proof -/

/-- **Binding.** Two accepted proofs carrying the same challenge value (possibly different
statements; same `api_id`; generator lists of at most `2^64` elements, which `usize`
guarantees): unless a hash collision is exhibited, everything that enters the two hashes
coincides — `Abar, Bbar, D`, the recomputed `T1, T2`, disclosed indexes and messages,
presentation header, public key, generators, header, and the number of hidden messages. -/
theorem proof_binding (hl : Lawful env pair) (cs : Suite G1) (pk pk' : G2)
    (π π' : PoKSignature S G1) (gens gens' : Generators G1) (header header' ph ph' : Option Bytes)
    (dm dm' : List S) (di di' : List Nat) (apiId : Option Bytes)
    (hsz : gens.values.length ≤ 2 ^ 64) (hsz' : gens'.values.length ≤ 2 ^ 64)
    (h : coreProofVerify env cs pk π gens header ph dm di apiId = .ok ())
    (h' : coreProofVerify env cs pk' π' gens' header' ph' dm' di' apiId = .ok ())
    (hc : π.challenge = π'.challenge) :
    HashCollision env cs ∨
      (π'.Abar = π.Abar ∧ π'.Bbar = π.Bbar ∧ π'.D = π.D ∧ di' = di ∧ dm' = dm ∧
        ph'.getD [] = ph.getD [] ∧ pk' = pk ∧ gens'.values = gens.values ∧
        header'.getD [] = header.getD [] ∧ π'.mCap.length = π.mCap.length ∧
        ∃ Q1 Hs domain, gens.values = Q1 :: Hs ∧
          Hs.length = π.mCap.length + di.length ∧
          calculateDomain env cs pk Q1 Hs header apiId = .ok domain ∧
          T1 π' = T1 π ∧
          T2 π' (Bv gens'.base Q1 domain Hs di dm) Hs
              (getRemainingIndexes (π.mCap.length + di.length) di)
            = T2 π (Bv gens.base Q1 domain Hs di dm) Hs
              (getRemainingIndexes (π.mCap.length + di.length) di)) :=
  Sound.proof_binding hl cs pk pk' π π' gens gens' header header' ph ph' dm dm' di di' apiId
    hsz hsz' h h' hc

/-- Changing a commitment point (`Abar`, `Bbar` or `D`) of an accepted proof, challenge
unchanged: acceptance exhibits a hash collision. -/
theorem tamper_points (hl : Lawful env pair) (cs : Suite G1) (pk : G2)
    (π π' : PoKSignature S G1) (gens : Generators G1) (header ph : Option Bytes)
    (dm : List S) (di : List Nat) (apiId : Option Bytes) (hsz : gens.values.length ≤ 2 ^ 64)
    (h : coreProofVerify env cs pk π gens header ph dm di apiId = .ok ())
    (h' : coreProofVerify env cs pk π' gens header ph dm di apiId = .ok ())
    (hc : π'.challenge = π.challenge)
    (hne : π'.Abar ≠ π.Abar ∨ π'.Bbar ≠ π.Bbar ∨ π'.D ≠ π.D) : HashCollision env cs := by
  rcases Sound.proof_binding hl cs pk pk π π' gens gens header header ph ph dm dm di di apiId
    hsz hsz h h' hc.symm with hcol | ⟨a, b, c, _⟩
  · exact hcol
  · rcases hne with x | x | x <;> contradiction

/-- Changing `ê` of an accepted proof: acceptance exhibits a hash collision. -/
theorem tamper_eCap (hl : Lawful env pair) (cs : Suite G1) (pk : G2) (π : PoKSignature S G1)
    (gens : Generators G1) (header ph : Option Bytes) (dm : List S) (di : List Nat)
    (apiId : Option Bytes) (e' : S) (hsz : gens.values.length ≤ 2 ^ 64)
    (h : coreProofVerify env cs pk π gens header ph dm di apiId = .ok ())
    (h' : coreProofVerify env cs pk { π with eCap := e' } gens header ph dm di apiId = .ok ())
    (hne : e' ≠ π.eCap) : HashCollision env cs := by
  rcases Sound.proof_binding hl cs pk pk π _ gens gens header header ph ph dm dm di di apiId
    hsz hsz h h' rfl with hcol | ⟨_, _, _, _, _, _, _, _, _, _, Q1, Hs, d, _, _, _, hT1, _⟩
  · exact hcol
  · exfalso
    obtain ⟨⟨hA, _⟩, _⟩ := (Sound.coreProofVerify_ok_iff_pairing cs pk π gens header ph dm di
      apiId).mp h
    simp only [T1] at hT1
    have : (e' - π.eCap) • π.Abar = 0 := by linear_combination (norm := module) hT1
    rcases smul_eq_zero_field this with x | x
    · exact hne (sub_eq_zero.mp x)
    · exact hA x

/-- Changing `r̂1` of an accepted proof: acceptance exhibits a hash collision. -/
theorem tamper_r1Cap (hl : Lawful env pair) (cs : Suite G1) (pk : G2) (π : PoKSignature S G1)
    (gens : Generators G1) (header ph : Option Bytes) (dm : List S) (di : List Nat)
    (apiId : Option Bytes) (r' : S) (hsz : gens.values.length ≤ 2 ^ 64)
    (h : coreProofVerify env cs pk π gens header ph dm di apiId = .ok ())
    (h' : coreProofVerify env cs pk { π with r1Cap := r' } gens header ph dm di apiId = .ok ())
    (hne : r' ≠ π.r1Cap) : HashCollision env cs := by
  rcases Sound.proof_binding hl cs pk pk π _ gens gens header header ph ph dm dm di di apiId
    hsz hsz h h' rfl with hcol | ⟨_, _, _, _, _, _, _, _, _, _, Q1, Hs, d, _, _, _, hT1, _⟩
  · exact hcol
  · exfalso
    obtain ⟨⟨_, _, hD, _⟩, _⟩ := (Sound.coreProofVerify_ok_iff_pairing cs pk π gens header ph dm
      di apiId).mp h
    simp only [T1] at hT1
    have : (r' - π.r1Cap) • π.D = 0 := by linear_combination (norm := module) hT1
    rcases smul_eq_zero_field this with x | x
    · exact hne (sub_eq_zero.mp x)
    · exact hD x

/-- Changing `r̂3` of an accepted proof: acceptance exhibits a hash collision. -/
theorem tamper_r3Cap (hl : Lawful env pair) (cs : Suite G1) (pk : G2) (π : PoKSignature S G1)
    (gens : Generators G1) (header ph : Option Bytes) (dm : List S) (di : List Nat)
    (apiId : Option Bytes) (r' : S) (hsz : gens.values.length ≤ 2 ^ 64)
    (h : coreProofVerify env cs pk π gens header ph dm di apiId = .ok ())
    (h' : coreProofVerify env cs pk { π with r3Cap := r' } gens header ph dm di apiId = .ok ())
    (hne : r' ≠ π.r3Cap) : HashCollision env cs := by
  rcases Sound.proof_binding hl cs pk pk π _ gens gens header header ph ph dm dm di di apiId
    hsz hsz h h' rfl with hcol | ⟨_, _, _, _, _, _, _, _, _, _, Q1, Hs, d, _, _, _, _, hT2⟩
  · exact hcol
  · exfalso
    obtain ⟨⟨_, _, hD, _⟩, _⟩ := (Sound.coreProofVerify_ok_iff_pairing cs pk π gens header ph dm
      di apiId).mp h
    simp only [T2] at hT2
    have : (r' - π.r3Cap) • π.D = 0 := by linear_combination (norm := module) hT2
    rcases smul_eq_zero_field this with x | x
    · exact hne (sub_eq_zero.mp x)
    · exact hD x

/-- Changing one hidden-message response `m̂_j` of an accepted proof: acceptance exhibits a hash
collision, or one of the generators is the identity (generators are hash-to-curve outputs). -/
theorem tamper_mCap (hl : Lawful env pair) (cs : Suite G1) (pk : G2) (π : PoKSignature S G1)
    (gens : Generators G1) (header ph : Option Bytes) (dm : List S) (di : List Nat)
    (apiId : Option Bytes) (j : Nat) (m' : S) (hj : j < π.mCap.length)
    (hsz : gens.values.length ≤ 2 ^ 64)
    (h : coreProofVerify env cs pk π gens header ph dm di apiId = .ok ())
    (h' : coreProofVerify env cs pk { π with mCap := π.mCap.set j m' } gens header ph dm di apiId
      = .ok ())
    (hne : m' ≠ π.mCap[j]) : HashCollision env cs ∨ (0 : G1) ∈ gens.values := by
  rcases Sound.proof_binding hl cs pk pk π _ gens gens header header ph ph dm dm di di apiId
    hsz hsz h h' rfl with hcol | ⟨_, _, _, _, _, _, _, _, _, _, Q1, Hs, d, hv, hlen, _, _, hT2⟩
  · exact Or.inl hcol
  · right
    have hud : j < (getRemainingIndexes (π.mCap.length + di.length) di).length := by
      have := getRemainingIndexes_length (π.mCap.length + di.length) di
      omega
    simp only [T2] at hT2
    rw [lin_set _ _ _ _ _ hud hj] at hT2
    have : (m' - π.mCap[j]) • Hs.getD (getRemainingIndexes (π.mCap.length + di.length) di)[j] 0
        = 0 := by linear_combination (norm := module) hT2
    rcases smul_eq_zero_field this with x | x
    · exact absurd (sub_eq_zero.mp x) hne
    · have hlt : (getRemainingIndexes (π.mCap.length + di.length) di)[j] < Hs.length := by
        have := (mem_getRemainingIndexes.mp (List.getElem_mem hud)).1
        omega
      rw [hv]
      apply List.mem_cons_of_mem
      rw [List.getD_eq_getElem?_getD, List.getElem?_eq_getElem hlt, Option.getD_some] at x
      rw [← x]
      exact List.getElem_mem hlt

/-- Changing the number of hidden-message responses (dropping or adding scalars), challenge
unchanged: acceptance — even for another statement — exhibits a hash collision. -/
theorem tamper_hidden_count (hl : Lawful env pair) (cs : Suite G1) (pk pk' : G2)
    (π π' : PoKSignature S G1) (gens gens' : Generators G1) (header header' ph ph' : Option Bytes)
    (dm dm' : List S) (di di' : List Nat) (apiId : Option Bytes)
    (hsz : gens.values.length ≤ 2 ^ 64) (hsz' : gens'.values.length ≤ 2 ^ 64)
    (h : coreProofVerify env cs pk π gens header ph dm di apiId = .ok ())
    (h' : coreProofVerify env cs pk' π' gens' header' ph' dm' di' apiId = .ok ())
    (hc : π'.challenge = π.challenge) (hne : π'.mCap.length ≠ π.mCap.length) :
    HashCollision env cs := by
  rcases Sound.proof_binding hl cs pk pk' π π' gens gens' header header' ph ph' dm dm' di di' apiId
    hsz hsz' h h' hc.symm with hcol | ⟨_, _, _, _, _, _, _, _, _, hU, _⟩
  · exact hcol
  · exact absurd hU hne

/-- Changing the challenge field: acceptance means the new challenge is a fixed point of
"rebuild `T1, T2` from `c`, hash" — `FixedPoint`, with the map spelled out. (No assumption on
the environment, and the original proof need not be valid.) -/
theorem tamper_challenge (cs : Suite G1) (pk : G2) (π : PoKSignature S G1)
    (gens : Generators G1) (header ph : Option Bytes) (dm : List S) (di : List Nat)
    (apiId : Option Bytes) (c' : S)
    (h' : coreProofVerify env cs pk { π with challenge := c' } gens header ph dm di apiId = .ok ())
    (hne : c' ≠ π.challenge) :
    ∃ Q1 Hs domain, gens.values = Q1 :: Hs ∧
      calculateDomain env cs pk Q1 Hs header apiId = .ok domain ∧
      FixedPoint env cs
        (fun c => challengeInput env
          (initOf { π with challenge := c } gens.base Q1 Hs domain dm di) di dm (ph.getD []))
        (apiId.getD [] ++ cs.h2s) π.challenge := by
  obtain ⟨_, Q1, Hs, d, hv, _, hd, hch, _⟩ :=
    (Sound.coreProofVerify_ok_iff_pairing cs pk _ gens header ph dm di apiId).mp h'
  exact ⟨Q1, Hs, d, hv, hd, c', hne, hch⟩

/-- **Any change whatsoever** (in particular any single-bit change of the encoded proof: the
decoder is injective, see C09 `proof_strict`). If `π' ≠ π` are both accepted for the same
statement, then a hash collision is exhibited, or the challenge field differs (then
`tamper_challenge` applies), or the two proofs share `Abar, Bbar, D` and the number of hidden
messages, differ in their responses, and the differences are a linear relation among `Abar, D`
and among `D` and the generators of the hidden positions:
`(ê'−ê)•Abar + (r̂1'−r̂1)•D = 0` and `(r̂3'−r̂3)•D + Σ_j (m̂'_j−m̂_j)•H_{u_j} = 0`. -/
theorem any_change (hl : Lawful env pair) (cs : Suite G1) (pk : G2) (π π' : PoKSignature S G1)
    (gens : Generators G1) (header ph : Option Bytes) (dm : List S) (di : List Nat)
    (apiId : Option Bytes) (hsz : gens.values.length ≤ 2 ^ 64)
    (h : coreProofVerify env cs pk π gens header ph dm di apiId = .ok ())
    (h' : coreProofVerify env cs pk π' gens header ph dm di apiId = .ok ())
    (hne : π' ≠ π) :
    HashCollision env cs ∨ π'.challenge ≠ π.challenge ∨
      (π'.Abar = π.Abar ∧ π'.Bbar = π.Bbar ∧ π'.D = π.D ∧ π'.mCap.length = π.mCap.length ∧
        (π'.eCap, π'.r1Cap, π'.r3Cap, π'.mCap) ≠ (π.eCap, π.r1Cap, π.r3Cap, π.mCap) ∧
        ∃ Q1 Hs, gens.values = Q1 :: Hs ∧
          (π'.eCap - π.eCap) • π.Abar + (π'.r1Cap - π.r1Cap) • π.D = 0 ∧
          (π'.r3Cap - π.r3Cap) • π.D
            + (lin Hs (getRemainingIndexes (π.mCap.length + di.length) di) π'.mCap
              - lin Hs (getRemainingIndexes (π.mCap.length + di.length) di) π.mCap) = 0) := by
  by_cases hc : π'.challenge = π.challenge
  swap
  · exact Or.inr (Or.inl hc)
  rcases Sound.proof_binding hl cs pk pk π π' gens gens header header ph ph dm dm di di apiId
    hsz hsz h h' hc.symm with hcol | ⟨hA, hB, hD, _, _, _, _, _, _, hU, Q1, Hs, d, hv, _, _, hT1, hT2⟩
  · exact Or.inl hcol
  · right; right
    refine ⟨hA, hB, hD, hU, ?_, Q1, Hs, hv, ?_, ?_⟩
    · intro heq
      simp only [Prod.mk.injEq] at heq
      obtain ⟨h1, h2, h3, h4⟩ := heq
      apply hne
      cases π; cases π'
      simp only [PoKSignature.mk.injEq]
      simp only at hA hB hD hc h1 h2 h3 h4
      exact ⟨hA, hB, hD, h1, h2, h3, h4, hc⟩
    · simp only [T1] at hT1
      rw [hA, hB, hD, hc] at hT1
      linear_combination (norm := module) hT1
    · simp only [T2] at hT2
      rw [hD, hc] at hT2
      linear_combination (norm := module) hT2

/-! ### 5. One proof, two statements -/

/-- **Statement binding (core).** The same proof accepted for two statements (public key,
generators, header, presentation header, disclosed messages, disclosed indexes): the statements
coincide or a hash collision is exhibited. -/
theorem stmt_binding (hl : Lawful env pair) (cs : Suite G1) (pk pk' : G2)
    (π : PoKSignature S G1) (gens gens' : Generators G1) (header header' ph ph' : Option Bytes)
    (dm dm' : List S) (di di' : List Nat) (apiId : Option Bytes)
    (hsz : gens.values.length ≤ 2 ^ 64) (hsz' : gens'.values.length ≤ 2 ^ 64)
    (h : coreProofVerify env cs pk π gens header ph dm di apiId = .ok ())
    (h' : coreProofVerify env cs pk' π gens' header' ph' dm' di' apiId = .ok ()) :
    HashCollision env cs ∨
      (pk' = pk ∧ gens'.values = gens.values ∧ header'.getD [] = header.getD [] ∧
        ph'.getD [] = ph.getD [] ∧ dm' = dm ∧ di' = di) := by
  rcases Sound.proof_binding hl cs pk pk' π π gens gens' header header' ph ph' dm dm' di di' apiId
    hsz hsz' h h' rfl with hcol | ⟨_, _, _, hdi, hdm, hph, hpk, hg, hh, _⟩
  · exact Or.inl hcol
  · exact Or.inr ⟨hpk, hg, hh, hph, hdm, hdi⟩

/-- **Statement binding (API).** The same proof accepted by `proof_verify` for two statements:
public key, disclosed messages (as octet strings), disclosed index set, header and presentation
header coincide, or a hash collision is exhibited. (`None` and empty are identified, and an
index list stands for the set it denotes, exactly as the code treats them.) -/
theorem proofVerify_stmt_binding (hl : Lawful env pair) (cs : Suite G1) (π : PoKSignature S G1)
    (pk pk' : G2) (dmsgs dmsgs' : Option (List Bytes)) (di di' : Option (List Nat))
    (header header' ph ph' : Option Bytes)
    (hsz : π.mCap.length + (sortDedup (di.getD [])).length + 1 ≤ 2 ^ 64)
    (hsz' : π.mCap.length + (sortDedup (di'.getD [])).length + 1 ≤ 2 ^ 64)
    (h : proofVerify env cs π pk dmsgs di header ph = .ok ())
    (h' : proofVerify env cs π pk' dmsgs' di' header' ph' = .ok ()) :
    HashCollision env cs ∨
      (pk' = pk ∧ dmsgs'.getD [] = dmsgs.getD [] ∧
        sortDedup (di'.getD []) = sortDedup (di.getD []) ∧
        header'.getD [] = header.getD [] ∧ ph'.getD [] = ph.getD []) := by
  unfold proofVerify at h h'
  dsimp only at h h'
  cases hm : messagesToScalar env cs (dmsgs.getD []) cs.apiId with
  | err => rw [hm] at h; cases h
  | panic => rw [hm] at h; cases h
  | ok dm =>
    rw [hm] at h; simp only at h
    cases hm' : messagesToScalar env cs (dmsgs'.getD []) cs.apiId with
    | err => rw [hm'] at h'; cases h'
    | panic => rw [hm'] at h'; cases h'
    | ok dm' =>
      rw [hm'] at h'; simp only at h'
      cases hg : Generators.create env cs
          (π.mCap.length + (sortDedup (di.getD [])).length + 1) (some cs.apiId) with
      | err => rw [hg] at h; cases h
      | panic => rw [hg] at h; cases h
      | ok gens =>
        rw [hg] at h; simp only at h
        cases hg' : Generators.create env cs
            (π.mCap.length + (sortDedup (di'.getD [])).length + 1) (some cs.apiId) with
        | err => rw [hg'] at h'; cases h'
        | panic => rw [hg'] at h'; cases h'
        | ok gens' =>
          rw [hg'] at h'; simp only at h'
          have hl1 := (create_length cs _ _ _ hg).1
          have hl2 := (create_length cs _ _ _ hg').1
          rcases stmt_binding hl cs pk pk' π gens gens' header header' ph ph' dm dm' _ _ _
            (by omega) (by omega) h h' with hcol | ⟨hpk, _, hh, hph, hdm, hdi⟩
          · exact Or.inl hcol
          · subst hdm
            rcases messagesToScalar_inj_or_collision cs cs.apiId _ _ _ hm hm' with e | hcol
            · exact Or.inr ⟨hpk, e.symm, hdi, hh, hph⟩
            · exact Or.inl hcol

end Zk.C04
