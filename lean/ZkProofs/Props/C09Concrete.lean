/-
C09 / C06, concrete decoders: facts about the EXECUTABLE point decoders of the model (the ones the
correspondence check runs against `bls12_381_plus`), proved by unfolding. They are what the abstract
codec laws of `Lawful` cannot say about the concrete instance: every decoded point lies in the
prime-order subgroup (`[R]P = O` is checked by the decoder itself), has the exact length, a canonical
abscissa and the compression flag set. A change of the implementation to an unchecked decoder
(seeded C06-c, C09-a) therefore breaks the correspondence on exactly the inputs these theorems
exclude: points of the curve outside the subgroup.
-/
import ZkModel.L0.G1
import ZkModel.L0.G2

namespace Zk.C09Concrete
open Zk

/-- `G1Affine::from_compressed` accepts 48-byte strings only. -/
theorem g1_decode_length {b : Bytes} {p : G1Pt} (h : G1.fromCompressed b = some p) :
    b.length = 48 := by
  unfold G1.fromCompressed at h
  split at h
  · exact absurd h (by simp)
  · rename_i hl; simpa using hl

/-- **Every decoded G1 point is in the prime-order subgroup** (`[R]P = O`). -/
theorem g1_decode_inSubgroup {b : Bytes} {p : G1Pt} (h : G1.fromCompressed b = some p) :
    G1.inSubgroup p = true := by
  unfold G1.fromCompressed at h
  split at h
  · exact absurd h (by simp)
  · split at h
    · exact absurd h (by simp)
    · split at h
      · exact absurd h (by simp)
      · split at h
        · rename_i hs; cases h; exact hs
        · exact absurd h (by simp)

/-- The decoded point is what the unchecked decoder returns: the subgroup test only filters. -/
theorem g1_decode_unchecked {b0 : UInt8} {rest : Bytes} {p : G1Pt}
    (h : G1.fromCompressed (b0 :: rest) = some p) : G1.fromCompressedUnchecked b0 rest = some p := by
  unfold G1.fromCompressed at h
  split at h
  · exact absurd h (by simp)
  · cases hu : G1.fromCompressedUnchecked b0 rest with
    | none => simp [hu] at h
    | some q =>
      simp only [hu] at h
      split at h
      · cases h; rfl
      · exact absurd h (by simp)

/-- The abscissa is canonical (`x < p`) and the compression flag is set in every accepted encoding. -/
theorem g1_unchecked_canonical {b0 : UInt8} {rest : Bytes} {p : G1Pt}
    (h : G1.fromCompressedUnchecked b0 rest = some p) :
    os2ip ((b0 &&& 0x1f) :: rest) < P ∧ (b0 &&& 0x80 != 0) = true := by
  unfold G1.fromCompressedUnchecked at h
  simp only [] at h
  split at h
  · exact absurd h (by simp)
  · rename_i hx
    refine ⟨by omega, ?_⟩
    split at h
    · rename_i hc
      simp only [Bool.and_eq_true] at hc
      exact hc.1.1.2
    · split at h
      · exact absurd h (by simp)
      · split at h
        · rename_i hc
          simp only [Bool.and_eq_true] at hc
          exact hc.2
        · exact absurd h (by simp)

/-- `G2Affine::from_compressed`: every decoded point is in the prime-order subgroup. -/
theorem g2_decode_inSubgroup {b : Bytes} {p : G2Pt} (h : G2.fromCompressed b = some p) :
    G2.inSubgroup p = true := by
  unfold G2.fromCompressed at h
  split at h
  · split at h
    · rename_i hs; cases h; exact hs
    · exact absurd h (by simp)
  · exact absurd h (by simp)

/-- `G2Affine::from_compressed` accepts 96-byte strings only. -/
theorem g2_decode_length {b : Bytes} {p : G2Pt} (h : G2.fromCompressed b = some p) :
    b.length = 96 := by
  unfold G2.fromCompressed at h
  split at h
  · rename_i pt hu
    unfold G2.fromCompressedUnchecked at hu
    split at hu
    · exact absurd hu (by simp)
    · rename_i hl; simpa using hl
  · exact absurd h (by simp)

/-- `G2Affine::from_uncompressed` (public-key coordinates): on the curve AND in the subgroup. -/
theorem g2_decode_uncompressed_checked {b : Bytes} {p : G2Pt} (h : G2.fromUncompressed b = some p) :
    G2.onCurve p = true ∧ G2.inSubgroup p = true := by
  unfold G2.fromUncompressed at h
  split at h
  · split at h
    · rename_i hs; cases h
      simpa [Bool.and_eq_true] using hs
    · exact absurd h (by simp)
  · exact absurd h (by simp)

/-- `G2Affine::from_uncompressed` accepts 192-byte strings only. -/
theorem g2_decode_uncompressed_length {b : Bytes} {p : G2Pt} (h : G2.fromUncompressed b = some p) :
    b.length = 192 := by
  unfold G2.fromUncompressed at h
  split at h
  · rename_i pt hu
    unfold G2.fromUncompressedUnchecked at hu
    split at hu
    · exact absurd hu (by simp)
    · rename_i hl; simpa using hl
  · exact absurd h (by simp)

end Zk.C09Concrete
