/-
L2 setting for CL03: the specifications of the L0 integer primitives that the CL03 theorems
rely on, collected in one proposition `ArithOK` (proved outright in `ZkProofs/Lemmas/IntArithSpec.lean`
where possible; a theorem that takes `(h : ArithOK)` says exactly which arithmetic facts it uses),
and the named events of DESIGN.md section 2.2 for CL03.
-/
import ZkModel.L1.Cl
import Mathlib.Data.Int.GCD
import Mathlib.Data.ZMod.Basic

namespace Zk.Cl
open Zk.IA

/-- What the CL03 theorems assume of `ZkModel/L0/IntArith.lean`. -/
structure ArithOK : Prop where
  /-- `pow_mod` with a non-negative exponent is `b^e mod n`, in `[0, n)`. -/
  powMod_nonneg : ∀ b e n : Int, 0 < n → 0 ≤ e → powMod b e n = some (b ^ e.toNat % n)
  /-- with a negative exponent it is the power of the inverse (and `none` when there is none). -/
  powMod_neg : ∀ b e n : Int, 0 < n → e < 0 →
    powMod b e n = (invMod b n).map fun bi => bi ^ (-e).toNat % n
  /-- `invert` returns the inverse in `[0, n)` … -/
  invMod_some : ∀ a n x : Int, 1 < n → invMod a n = some x → 0 ≤ x ∧ x < n ∧ a * x % n = 1
  /-- … exactly when one exists. -/
  invMod_none : ∀ a n : Int, 1 < n → invMod a n = none → Int.gcd a n ≠ 1
  /-- floor square root. -/
  isqrt_spec : ∀ n : Nat, isqrt n ^ 2 ≤ n ∧ n < (isqrt n + 1) ^ 2

/-- A non-trivial multiplicative relation among public bases: `Π gᵢ^{dᵢ} ≡ 1 (mod N)` with some
`dᵢ ≠ 0` (what it takes to open a commitment / signature equation in two ways). -/
def RepCollision (N : Int) (gs : List Int) : Prop :=
  ∃ ds : List Int, ds.length = gs.length ∧ (∃ d ∈ ds, d ≠ 0) ∧
    ∃ xs : List Int, xs.length = gs.length ∧
      (∀ i (h : i < gs.length), powMod gs[i] (ds[i]?.getD 0) N = some (xs[i]?.getD 1)) ∧
      (xs.foldl (· * ·) 1) % N = 1 % N

/-- A known small multiple of the order of `x`: `x^k ≡ 1 (mod N)` with `k ≠ 0`. -/
def OrderRelation (N x : Int) : Prop := ∃ k : Nat, k ≠ 0 ∧ x ^ k % N = 1 % N

/-- Two different integer tuples with the same concatenated decimal rendering: the CL03
challenges hash `a.to_string() + &b.to_string() + …` without separators. -/
def ConcatAmbiguity : Prop :=
  ∃ l l' : List Int, l ≠ l' ∧ l.flatMap decimalBytes = l'.flatMap decimalBytes

/-- Two different challenge inputs (as byte strings) with the same SHA-256 value. -/
def ClHashCollision : Prop :=
  ∃ x y : Bytes, x ≠ y ∧ sha256 x = sha256 y

end Zk.Cl
