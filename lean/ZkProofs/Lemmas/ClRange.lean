/-
Helper lemmas for C16 (Boudot range proof) and C19 (responses mask their secrets).

* bit-length facts (`bitLen_bounds`, `lt_two_pow_bitLen`), the SHA-256 output length and the range
  of `hashInts` (`sha256_length`, `hashInts_lt`), proved from the definitions;
* floor-division facts behind C19 (`mask_floor`, `mask_margin`, `Masked`), list helpers
  (`drawBitsList_ok`, `responses_ok`, `drawR5_ok`, `s5_mapM_ok`);
* the tolerance arithmetic of Boudot's proof: the decomposition points `2^T·a`, `2^T·b` and the
  remainder bound `tolB2 T a b = 2·⌊√(2^T·(b−a))⌋` (`scaled_le_iff`, `isqrt_mono`,
  `honest_remainder_le`); `tolTheta`, `tolerance_lt`, `scaled_in_range_iff` are arithmetic facts
  about the parameters used before the F13 repair, kept as auxiliary lemmas;
* `Rep n y u`: the integer `y` represents the unit `u` of `ℤ/n`; `powMod`/`pw`/`tmod`/`divm` on
  representatives (`powMod_rep`, `pw_rep`, `pw_inv`, `tmod_rep`, `divm_rep`, `Rep.unique`);
  identities in the commutative group `(ℤ/n)ˣ` are proved by `module` in `Additive (ℤ/n)ˣ`;
* completeness of Algorithms 1–8 and of `prove`/`verify` (`same_secret_complete`, `square_complete`,
  `large_interval_complete`, `tolerance_complete`, `range_complete`), the honest prover in and out
  of range (`prover_in_range`, `honest_out_of_range_panics`, `rangeProve_ne_panic`);
* the verifier read backwards (`divm_spec`, `tolerance_accept_inv`, `range_accept_inv`), and the
  commitments of `proof_gen` / `generate_proof` as representatives (`commitWithCpk_single`, …).
-/
import ZkProofs.Lemmas.ClMonad
import ZkModel.Generated.ClConstants
import Mathlib.Tactic.Linarith
import Mathlib.Tactic.Ring
import Mathlib.Tactic.Positivity
import Mathlib.Tactic.NormNum
import Mathlib.Data.Int.ModEq
import Mathlib.Data.ZMod.Basic
import Mathlib.Algebra.Group.Units.Basic
import Mathlib.RingTheory.Coprime.Lemmas
import Mathlib.Algebra.Group.TypeTags.Basic
import Mathlib.Tactic.Module
set_option linter.unusedVariables false
namespace Zk.ClRange
open Zk.IA Zk.Cl

/-- The `Suite` of a generated constants record (as the driver builds it). -/
def suiteOfConsts (c : Zk.Generated.ClSuiteConsts) : Suite :=
  { secparam := c.secparam, ln := c.ln, lm := c.lm, lin := c.lin, le := c.le, ls := c.ls,
    t := c.t, l := c.l, s := c.s, s1 := c.s1, s2 := c.s2 }

/-! ### bit length -/

/-- A non-negative integer of exactly `n ≥ 1` bits lies in `[2^(n-1), 2^n)`. -/
theorem bitLen_bounds {v : Int} {n : Nat} (h0 : 0 ≤ v) (hb : bitLen v = n) (hn : 0 < n) :
    2 ^ (n - 1) ≤ v ∧ v < 2 ^ n := by
  unfold bitLen at hb
  split at hb
  · omega
  · next hv =>
    have hv' : v.natAbs ≠ 0 := by simpa using hv
    have h1 := Nat.log2_self_le hv'
    have h2 := Nat.lt_log2_self (n := v.natAbs)
    have hn1 : n - 1 = v.natAbs.log2 := by omega
    rw [hn1, ← hb]
    have : v = (v.natAbs : Int) := by omega
    rw [this]
    constructor
    · exact_mod_cast h1
    · exact_mod_cast h2

theorem lt_two_pow_bitLen {v : Int} (h0 : 0 ≤ v) : v < 2 ^ bitLen v := by
  by_cases hv : v = 0
  · subst hv; simp [bitLen]
  · have : 0 < bitLen v := by unfold bitLen; simp [hv]
    exact (bitLen_bounds h0 rfl this).2

/-! ### SHA-256 returns 32 bytes; the challenge is below `2^256` -/

theorem compress_size (h : Array UInt32) (blk : Array UInt8) (off : Nat) :
    (Sha256.compress h blk off).size = 8 := by
  unfold Sha256.compress
  simp only [Id.run, bind, pure]
  rfl

theorem serialize_length (h : Array UInt32) : (Sha256.serialize h).length = 4 * h.size := by
  unfold Sha256.serialize
  rw [List.length_flatMap]
  simp; omega

theorem foldl_compress_size (p : Array UInt8) (l : List Nat) (h : Array UInt32) (hs : h.size = 8) :
    (l.foldl (fun s i => Sha256.compress s p (64 * i)) h).size = 8 := by
  induction l generalizing h with
  | nil => exact hs
  | cons a l ih => exact ih _ (compress_size _ _ _)

/-- The model's SHA-256 always returns 32 bytes (from the definition). -/
theorem sha256_length (m : Bytes) : (sha256 m).length = 32 := by
  unfold sha256
  simp only [Id.run, bind, pure]
  rw [serialize_length]
  simp
  have := List.forIn_pure_yield_eq_foldl (m := Id) (l := List.range' 0 ((Sha256.pad m).size / 64))
    (fun i s => Sha256.compress s (Sha256.pad m) (64 * i)) Sha256.H0
  simp only [pure] at this
  rw [this, foldl_compress_size _ _ _ rfl]

theorem os2ip_foldl_lt (b : Bytes) (acc : Nat) :
    b.foldl (fun acc x => acc * 256 + x.toNat) acc < (acc + 1) * 256 ^ b.length := by
  induction b generalizing acc with
  | nil => simp
  | cons a l ih =>
    rw [List.foldl_cons, List.length_cons, Nat.pow_succ]
    have ha := UInt8.toNat_lt a
    refine lt_of_lt_of_le (ih _) ?_
    have : acc * 256 + a.toNat + 1 ≤ (acc + 1) * 256 := by omega
    calc (acc * 256 + a.toNat + 1) * 256 ^ l.length ≤ (acc + 1) * 256 * 256 ^ l.length :=
          Nat.mul_le_mul_right _ this
      _ = (acc + 1) * (256 ^ l.length * 256) := by ring

theorem os2ip_lt' (b : Bytes) : os2ip b < 256 ^ b.length := by
  have := os2ip_foldl_lt b 0
  simpa [os2ip] using this

/-- Every CL03 challenge is a 256-bit number. -/
theorem hashInts_nonneg (l : List Int) : 0 ≤ hashInts l := by
  unfold hashInts; exact Int.natCast_nonneg _

theorem hashInts_lt (l : List Int) : hashInts l < 2 ^ 256 := by
  unfold hashInts
  have h := os2ip_lt' (sha256 (l.flatMap decimalBytes))
  rw [sha256_length] at h
  have : (256 : Nat) ^ 32 = 2 ^ 256 := by norm_num
  rw [this] at h
  show ((os2ip (sha256 (l.flatMap decimalBytes)) : Nat) : Int) < 2 ^ 256
  exact_mod_cast h

/-! ### C19: floor division of a response -/

/-- `floor((r + c·x) / c) − x = floor(r / c)`, whatever the sign of `x`. -/
theorem mask_floor (r c x : Int) (hc : c ≠ 0) : (r + c * x) / c - x = r / c := by
  rw [Int.add_mul_ediv_left _ _ hc]; ring

/-- For `s = r + c·x` with `0 < c < 2^k` and `r ≥ 2^(n-1)`: `floor(s/c) − x = floor(r/c) ≥ 2^(n-1-k)`. -/
theorem mask_margin {s r c x : Int} {k n : Nat} (hs : s = r + c * x) (hc0 : 0 < c) (hck : c < 2 ^ k)
    (hr : 2 ^ (n - 1) ≤ r) (hkn : k ≤ n - 1) :
    s / c - x = r / c ∧ 2 ^ (n - 1 - k) ≤ r / c := by
  subst hs
  refine ⟨mask_floor r c x (ne_of_gt hc0), ?_⟩
  rw [Int.le_ediv_iff_mul_le hc0]
  have : (2 : Int) ^ (n - 1) = 2 ^ (n - 1 - k) * 2 ^ k := by
    rw [← pow_add]; congr 1; omega
  have hp : (0 : Int) < 2 ^ (n - 1 - k) := by positivity
  nlinarith

theorem mask_margin_abs {s r c x : Int} {k n : Nat} (hs : s = r + c * x) (hc0 : 0 < c)
    (hck : c < 2 ^ k) (hr : 2 ^ (n - 1) ≤ r) (hkn : k + 65 ≤ n) : 2 ^ 64 ≤ |s / c - x| := by
  obtain ⟨h1, h2⟩ := mask_margin hs hc0 hck hr (by omega)
  rw [h1]
  have : (2:Int) ^ 64 ≤ 2 ^ (n - 1 - k) := pow_le_pow_right₀ (by norm_num) (by omega)
  have := le_trans this h2
  rw [abs_of_nonneg (by linarith)]; exact this

/-- `s` is a response `r + c·x` whose blinding `r` is a non-negative integer of exactly `n` bits
(what `random_bits(n)` returns). -/
def Masked (s c x : Int) (n : Nat) : Prop := ∃ r : Int, 0 ≤ r ∧ bitLen r = n ∧ s = r + c * x

/-- What an observer who divides a response by the (public) challenge learns: `x` plus a number
`floor(r/c)` of at least `n − 257` bits that depends only on the blinding. -/
theorem Masked.margin {s c x : Int} {n : Nat} (h : Masked s c x n) (hc0 : 0 < c) (hc : c < 2 ^ 256)
    (hn : 257 ≤ n) : ∃ r : Int, 0 ≤ r ∧ bitLen r = n ∧ s / c - x = r / c ∧ 2 ^ (n - 257) ≤ r / c := by
  obtain ⟨r, h0, hb, hs⟩ := h
  obtain ⟨h1, h2⟩ := mask_margin hs hc0 hc (bitLen_bounds h0 hb (by omega)).1 (by omega)
  refine ⟨r, h0, hb, h1, ?_⟩
  have : n - 1 - 256 = n - 257 := by omega
  rwa [this] at h2

/-- The C19 quantifier: `|floor(s / c) − x| ≥ 2^64` as soon as the blinding has `≥ 321` bits. -/
theorem Masked.hidden {s c x : Int} {n : Nat} (h : Masked s c x n) (hc0 : 0 < c) (hc : c < 2 ^ 256)
    (hn : 321 ≤ n) : 2 ^ 64 ≤ |s / c - x| := by
  obtain ⟨r, h0, hb, hs⟩ := h
  exact mask_margin_abs hs hc0 hc (bitLen_bounds h0 hb (by omega)).1 (by omega)

theorem Masked.comm {s c x : Int} {n : Nat} (h : Masked s x c n) : Masked s c x n := by
  obtain ⟨r, h0, hb, hs⟩ := h
  exact ⟨r, h0, hb, by rw [hs, mul_comm]⟩

/-! ### list helpers of the sigma protocols -/

theorem drawBitsList_ok {n k : Nat} {xs : List Int} {t t' : List Draw}
    (h : drawBitsList n k t = .ok (xs, t')) : xs.length = k ∧ ∀ x ∈ xs, 0 ≤ x ∧ bitLen x = n := by
  induction k generalizing xs t t' with
  | zero =>
    obtain ⟨rfl, rfl⟩ := pure_ok_iff.mp h
    simp
  | succ k ih =>
    unfold drawBitsList at h
    obtain ⟨x, t1, hx, h⟩ := bind_ok_inv h
    obtain ⟨ys, t2, hys, h⟩ := bind_ok_inv h
    obtain ⟨rfl, rfl⟩ := pure_ok_iff.mp h
    obtain ⟨_, _, _, _, h0, hb⟩ := randomBits_ok_inv hx
    obtain ⟨hl, hall⟩ := ih hys
    refine ⟨by simp [hl], ?_⟩
    intro y hy
    rcases List.mem_cons.mp hy with rfl | hy
    · exact ⟨h0, hb⟩
    · exact hall y hy

theorem responses_ok {c : Int} {msgs : List Int} {ix : List Nat} {rs ys : List Int} {t t' : List Draw}
    (h : responses c msgs ix rs t = .ok (ys, t')) :
    ys.length = ix.length ∧ ∀ j (hj : j < ix.length), ∃ r m, rs[j]? = some r ∧
      msgs[ix[j]]? = some m ∧ ys[j]? = some (r + c * m) := by
  induction ix generalizing rs ys t t' with
  | nil =>
    obtain ⟨rfl, rfl⟩ := pure_ok_iff.mp h
    simp
  | cons i is ih =>
    unfold responses at h
    obtain ⟨r, t1, hr, h⟩ := bind_ok_inv h
    obtain ⟨m, t2, hm, h⟩ := bind_ok_inv h
    obtain ⟨rest, t3, hrest, h⟩ := bind_ok_inv h
    obtain ⟨rfl, rfl⟩ := pure_ok_iff.mp h
    obtain ⟨hr, -⟩ := idx_ok_iff.mp hr
    obtain ⟨hm, -⟩ := idx_ok_iff.mp hm
    obtain ⟨hl, hall⟩ := ih hrest
    refine ⟨by simp [hl], ?_⟩
    intro j hj
    cases j with
    | zero => exact ⟨r, m, hr, by simpa using hm, by simp⟩
    | succ j =>
      obtain ⟨r', m', h1, h2, h3⟩ := hall j (by simpa using hj)
      refine ⟨r', m', ?_, by simpa using h2, by simpa using h3⟩
      rw [← h1, List.getElem?_tail]

/-- Responses of the list-valued secrets: every entry is `Masked`. -/
theorem responses_masked {c : Int} {msgs : List Int} {ix : List Nat} {rs ys : List Int} {n : Nat}
    {t t' : List Draw} (h : responses c msgs ix rs t = .ok (ys, t'))
    (hrs : ∀ x ∈ rs, 0 ≤ x ∧ bitLen x = n) :
    ys.length = ix.length ∧ ∀ j (hj : j < ix.length), ∃ m, msgs[ix[j]]? = some m ∧
      ∃ s, ys[j]? = some s ∧ Masked s c m n := by
  obtain ⟨hl, hall⟩ := responses_ok h
  refine ⟨hl, fun j hj => ?_⟩
  obtain ⟨r, m, h1, h2, h3⟩ := hall j hj
  obtain ⟨h0, hb⟩ := hrs r (List.mem_of_getElem? h1)
  exact ⟨m, h2, _, h3, r, h0, hb, rfl⟩


theorem drawR5_ok {n : Nat} {msgs : List Int} {U : List Nat} {k i : Nat} {xs : List Int}
    {t t' : List Draw} (h : drawR5 n msgs U k i t = .ok (xs, t')) :
    xs.length = k ∧ ∀ j, j < k → U.contains (i + j) = true →
      ∃ r, xs[j]? = some r ∧ 0 ≤ r ∧ bitLen r = n := by
  induction k generalizing i xs t t' with
  | zero =>
    obtain ⟨rfl, rfl⟩ := pure_ok_iff.mp h
    simp
  | succ k ih =>
    unfold drawR5 at h
    obtain ⟨x, t1, hx, h⟩ := bind_ok_inv h
    obtain ⟨ys, t2, hys, h⟩ := bind_ok_inv h
    obtain ⟨rfl, rfl⟩ := pure_ok_iff.mp h
    obtain ⟨hl, hall⟩ := ih hys
    refine ⟨by simp [hl], ?_⟩
    intro j hj hc
    cases j with
    | zero =>
      rw [Nat.add_zero] at hc
      rw [if_pos hc] at hx
      obtain ⟨_, _, _, _, h0, hb⟩ := randomBits_ok_inv hx
      exact ⟨x, by simp, h0, hb⟩
    | succ j =>
      obtain ⟨r, h1, h2⟩ := hall j (by omega) (by rwa [show i + 1 + j = i + (j + 1) by omega])
      exact ⟨r, by simpa using h1, h2⟩

theorem s5_mapM_ok {r5 msgs : List Int} {c : Int} {U : List Nat} {ys : List Int} {t t' : List Draw}
    (h : U.mapM (fun i => (do let r ← idx r5 i; let m ← idx msgs i; pure (r + m * c) : M Int)) t
      = .ok (ys, t')) :
    ys.length = U.length ∧ ∀ j (hj : j < U.length), ∃ r m, r5[U[j]]? = some r ∧
      msgs[U[j]]? = some m ∧ ys[j]? = some (r + m * c) := by
  induction U generalizing ys t t' with
  | nil =>
    rw [mapM_nil_apply] at h
    simp only [CRes.ok.injEq, Prod.mk.injEq] at h
    obtain ⟨rfl, rfl⟩ := h
    simp
  | cons i is ih =>
    rw [mapM_cons_apply] at h
    obtain ⟨y, t1, hy, h⟩ := bind_ok_inv h
    obtain ⟨rest, t2, hrest, h⟩ := bind_ok_inv h
    obtain ⟨rfl, rfl⟩ := pure_ok_iff.mp h
    obtain ⟨r, t3, hr, hy⟩ := bind_ok_inv hy
    obtain ⟨m, t4, hm, hy⟩ := bind_ok_inv hy
    obtain ⟨rfl, rfl⟩ := pure_ok_iff.mp hy
    obtain ⟨hr, -⟩ := idx_ok_iff.mp hr
    obtain ⟨hm, -⟩ := idx_ok_iff.mp hm
    obtain ⟨hl, hall⟩ := ih hrest
    refine ⟨by simp [hl], ?_⟩
    intro j hj
    cases j with
    | zero => exact ⟨r, m, by simpa using hr, by simpa using hm, by simp⟩
    | succ j =>
      obtain ⟨r', m', h1, h2, h3⟩ := hall j (by simpa using hj)
      exact ⟨r', m', by simpa using h1, by simpa using h2, by simpa using h3⟩

/-! ### the tolerance arithmetic of Boudot's proof -/

/-- `T` of the range proof for the interval `[a, b]`. -/
def tolT (t l : Nat) (a b : Int) : Nat := 2 * (t + l + 1) + bitLen (b - a)

/-- the tolerance `θ = 2^(l+t+T/2+1)·⌊√(b−a)⌋` -/
def tolTheta (t l T : Nat) (a b : Int) : Int := 2 ^ (l + t + T / 2 + 1) * Int.ofNat (isqrt (b - a).toNat)

theorem isqrt_lt_of_lt_pow (hA : ArithOK) (d B : Nat) (hd : d < 2 ^ B) : isqrt d < 2 ^ (B - B / 2) := by
  by_contra hcon
  have h1 : 2 ^ (B - B / 2) ≤ isqrt d := Nat.le_of_not_lt hcon
  have h2 := (hA.isqrt_spec d).1
  have h3 : (2 ^ (B - B / 2)) ^ 2 ≤ isqrt d ^ 2 := Nat.pow_le_pow_left h1 2
  have h4 : 2 ^ B ≤ (2 ^ (B - B / 2)) ^ 2 := by
    rw [← pow_mul]; exact Nat.pow_le_pow_right (by norm_num) (by omega)
  omega

theorem tolerance_lt (hA : ArithOK) (a b : Int) (t l : Nat) (hab : a ≤ b) :
    tolTheta t l (tolT t l a b) a b < 2 ^ tolT t l a b := by
  unfold tolTheta tolT
  set B := bitLen (b - a) with hB
  have hd : (b - a).toNat < 2 ^ B := by
    have := lt_two_pow_bitLen (v := b - a) (by omega)
    rw [← hB] at this
    have h2 : ((b - a).toNat : Int) = b - a := Int.toNat_of_nonneg (by omega)
    rw [← h2] at this
    exact_mod_cast this
  have hs := isqrt_lt_of_lt_pow hA _ _ hd
  have hT : (2 * (t + l + 1) + B) / 2 = t + l + 1 + B / 2 := by omega
  rw [hT]
  have hsplit : 2 * (t + l + 1) + B = (l + t + (t + l + 1 + B / 2) + 1) + (B - B / 2) := by omega
  rw [hsplit, pow_add (2:Int) (l + t + (t + l + 1 + B / 2) + 1) (B - B / 2)]
  show _ * ((isqrt (b - a).toNat : Nat) : Int) < _
  have : ((isqrt (b - a).toNat : Nat) : Int) < 2 ^ (B - B / 2) := by exact_mod_cast hs
  exact mul_lt_mul_of_pos_left this (pow_pos (by norm_num : (0:Int) < 2) _)

theorem tolTheta_nonneg (t l T : Nat) (a b : Int) : 0 ≤ tolTheta t l T a b := by
  unfold tolTheta
  exact mul_nonneg (by positivity) (Int.natCast_nonneg _)

/-- With `0 ≤ θ < 2^T`, the scaled, widened interval contains `2^T·x` exactly when `x ∈ [a, b]`. -/
theorem scaled_in_range_iff {T : Nat} {θ a b x : Int} (h0 : 0 ≤ θ) (hlt : θ < 2 ^ T) :
    (2 ^ T * a - θ ≤ 2 ^ T * x ↔ a ≤ x) ∧ (2 ^ T * x ≤ 2 ^ T * b + θ ↔ x ≤ b) := by
  have hp : (0 : Int) < 2 ^ T := by positivity
  refine ⟨⟨fun h => ?_, fun h => ?_⟩, ⟨fun h => ?_, fun h => ?_⟩⟩
  · by_contra hc
    have : x + 1 ≤ a := by omega
    have := mul_le_mul_of_nonneg_left this hp.le
    nlinarith
  · have := mul_le_mul_of_nonneg_left h hp.le
    linarith
  · by_contra hc
    have : b + 1 ≤ x := by omega
    have := mul_le_mul_of_nonneg_left this hp.le
    nlinarith
  · have := mul_le_mul_of_nonneg_left h hp.le
    linarith

/-- the bound of the remainders, `b₂ = 2·⌊√(2^T·(b−a))⌋` (third component of `tolBounds`) -/
def tolB2 (T : Nat) (a b : Int) : Int := 2 * Int.ofNat (isqrt (2 ^ T * (b - a)).toNat)

theorem tolB2_nonneg (T : Nat) (a b : Int) : 0 ≤ tolB2 T a b := by
  unfold tolB2
  exact mul_nonneg (by norm_num) (Int.natCast_nonneg _)

/-- The decomposition points are `2^T·a`, `2^T·b`: `2^T·x` lies between them exactly when
`x ∈ [a, b]`. -/
theorem scaled_le_iff {T : Nat} {a x : Int} : 2 ^ T * a ≤ 2 ^ T * x ↔ a ≤ x :=
  mul_le_mul_iff_right₀ (by positivity : (0 : Int) < 2 ^ T)

theorem isqrt_mono (hA : ArithOK) {m n : Nat} (h : m ≤ n) : isqrt m ≤ isqrt n := by
  by_contra hc
  have h1 : isqrt n + 1 ≤ isqrt m := by omega
  have h2 := (hA.isqrt_spec m).1
  have h3 := (hA.isqrt_spec n).2
  have h4 : (isqrt n + 1) ^ 2 ≤ isqrt m ^ 2 := Nat.pow_le_pow_left h1 2
  omega

/-- `n − ⌊√n⌋² ≤ 2·⌊√n⌋`. -/
theorem sub_isqrt_sq_le (hA : ArithOK) (n : Nat) : n - isqrt n ^ 2 ≤ 2 * isqrt n := by
  have h3 := (hA.isqrt_spec n).2
  have : (isqrt n + 1) ^ 2 = isqrt n ^ 2 + 2 * isqrt n + 1 := by ring
  omega

/-- **Every honest remainder is within the bound `b₂`**: for `0 ≤ xa ≤ 2^T·(b−a)` (which is
`2^T·x − 2^T·a` resp. `2^T·b − 2^T·x` for `x ∈ [a, b]`), `0 ≤ xa − ⌊√xa⌋² ≤ 2·⌊√(2^T·(b−a))⌋`. -/
theorem honest_remainder_le (hA : ArithOK) {T : Nat} {a b xa : Int} (h0 : 0 ≤ xa)
    (hle : xa ≤ 2 ^ T * (b - a)) :
    0 ≤ xa - (Int.ofNat (isqrt xa.toNat)) ^ 2 ∧
      xa - (Int.ofNat (isqrt xa.toNat)) ^ 2 ≤ tolB2 T a b := by
  unfold tolB2
  have hm : xa.toNat ≤ (2 ^ T * (b - a)).toNat := Int.toNat_le_toNat hle
  have h1 := isqrt_mono hA hm
  have h2 := sub_isqrt_sq_le hA xa.toNat
  have h3 := (hA.isqrt_spec xa.toNat).1
  have hx : ((xa.toNat : Nat) : Int) = xa := Int.toNat_of_nonneg h0
  show 0 ≤ xa - ((isqrt xa.toNat : Nat) : Int) ^ 2 ∧
    xa - ((isqrt xa.toNat : Nat) : Int) ^ 2 ≤ 2 * ((isqrt (2 ^ T * (b - a)).toNat : Nat) : Int)
  have h3' : ((isqrt xa.toNat : Nat) : Int) ^ 2 ≤ ((xa.toNat : Nat) : Int) := by exact_mod_cast h3
  have h2' : ((xa.toNat : Nat) : Int)
      ≤ ((isqrt xa.toNat : Nat) : Int) ^ 2 + 2 * ((isqrt xa.toNat : Nat) : Int) := by
    have : xa.toNat ≤ isqrt xa.toNat ^ 2 + 2 * isqrt xa.toNat := by omega
    exact_mod_cast this
  have h1' : ((isqrt xa.toNat : Nat) : Int) ≤ ((isqrt (2 ^ T * (b - a)).toNat : Nat) : Int) := by
    exact_mod_cast h1
  constructor <;> linarith

/-! ### representatives of units of `ℤ/n` -/

/-- The integer `y` represents the unit `u` of `ℤ/n`. -/
def Rep (n y : Int) (u : (ZMod n.toNat)ˣ) : Prop := ((y : Int) : ZMod n.toNat) = (u : ZMod n.toNat)

theorem natCast_toNat {n : Int} (hn : 1 < n) : ((n.toNat : Nat) : Int) = n :=
  Int.toNat_of_nonneg (by omega)

theorem Rep.mul {n a b : Int} {u v} (ha : Rep n a u) (hb : Rep n b v) : Rep n (a * b) (u * v) := by
  unfold Rep at *; push_cast; rw [ha, hb]

theorem Rep.emod {n a : Int} {u} (hn : 1 < n) (ha : Rep n a u) : Rep n (a % n) u := by
  unfold Rep at *
  have : a % n = a % ((n.toNat : Nat) : Int) := by rw [natCast_toNat hn]
  rw [this, ZMod.intCast_mod, ha]

theorem Rep.pow {n a : Int} {u} (ha : Rep n a u) (k : Nat) : Rep n (a ^ k) (u ^ k) := by
  unfold Rep at *; push_cast; rw [ha]

/-- representatives in `[0, n)` are unique -/
theorem Rep.unique {n a b : Int} {u} (hn : 1 < n) (ha : Rep n a u) (hb : Rep n b u)
    (ha0 : 0 ≤ a) (han : a < n) (hb0 : 0 ≤ b) (hbn : b < n) : a = b := by
  unfold Rep at *
  have := (ZMod.intCast_eq_intCast_iff' a b n.toNat).mp (ha.trans hb.symm)
  rw [natCast_toNat hn, Int.emod_eq_of_lt ha0 han, Int.emod_eq_of_lt hb0 hbn] at this
  exact this

theorem Rep.gcd {n a : Int} {u} (hn : 1 < n) (ha : Rep n a u) : Int.gcd a n = 1 := by
  unfold Rep at ha
  obtain ⟨w, hw⟩ := ZMod.intCast_surjective ((u⁻¹ : (ZMod n.toNat)ˣ) : ZMod n.toNat)
  have h1 : ((a * w - 1 : Int) : ZMod n.toNat) = 0 := by
    push_cast; rw [ha, hw]; simp
  rw [ZMod.intCast_zmod_eq_zero_iff_dvd, natCast_toNat hn] at h1
  obtain ⟨k, hk⟩ := h1
  rw [← Int.isCoprime_iff_gcd_eq_one]
  exact ⟨w, -k, by linarith⟩

theorem rep_of_gcd {n g : Int} (hn : 1 < n) (hg : Int.gcd g n = 1) : ∃ u, Rep n g u := by
  rw [← Int.isCoprime_iff_gcd_eq_one] at hg
  obtain ⟨x, y, hxy⟩ := hg
  have h1 : ((g : Int) : ZMod n.toNat) * (x : ZMod n.toNat) = 1 := by
    have := congrArg (Int.cast (R := ZMod n.toNat)) hxy
    push_cast at this
    have hn0 : ((n : Int) : ZMod n.toNat) = 0 := by
      rw [ZMod.intCast_zmod_eq_zero_iff_dvd, natCast_toNat hn]
    rw [hn0, mul_zero, add_zero] at this
    rw [mul_comm]; exact this
  exact ⟨⟨g, x, h1, by rw [mul_comm]; exact h1⟩, rfl⟩

/-- `powMod` on a representative of a unit: any exponent, result in `[0, n)`, represents `u^e`. -/
theorem powMod_rep (hA : ArithOK) {n g : Int} {u} (hn : 1 < n) (hg : Rep n g u) (e : Int) :
    ∃ y, powMod g e n = some y ∧ Rep n y (u ^ e) ∧ 0 ≤ y ∧ y < n := by
  by_cases he : 0 ≤ e
  · refine ⟨_, hA.powMod_nonneg g e n (by omega) he, ?_, Int.emod_nonneg _ (by omega),
      Int.emod_lt_of_pos _ (by omega)⟩
    have : u ^ e = u ^ e.toNat := by
      conv_lhs => rw [← Int.toNat_of_nonneg he]
      exact zpow_natCast u _
    rw [this]
    exact (hg.pow _).emod hn
  · have he' : e < 0 := by omega
    have h1 := hA.powMod_neg g e n (by omega) he'
    cases hi : invMod g n with
    | none => exact absurd (hg.gcd hn) (hA.invMod_none g n hn hi)
    | some gi =>
      rw [hi] at h1
      obtain ⟨h0, hlt, hmul⟩ := hA.invMod_some g n gi hn hi
      have hgi : Rep n gi u⁻¹ := by
        unfold Rep at *
        have h2 : ((g * gi : Int) : ZMod n.toNat) = 1 := by
          have := (ZMod.intCast_eq_intCast_iff' (g * gi) 1 n.toNat).mpr (by
            rw [natCast_toNat hn, hmul, Int.emod_eq_of_lt (by omega) hn])
          simpa using this
        push_cast at h2
        rw [hg] at h2
        exact (Units.inv_eq_of_mul_eq_one_right h2).symm
      refine ⟨_, h1, ?_, Int.emod_nonneg _ (by omega), Int.emod_lt_of_pos _ (by omega)⟩
      have : u ^ e = u⁻¹ ^ (-e).toNat := by
        have h3 : e = -(((-e).toNat : Nat) : Int) := by
          rw [Int.toNat_of_nonneg (by omega)]; ring
        conv_lhs => rw [h3]
        rw [zpow_neg, zpow_natCast, inv_pow]
      rw [this]
      exact (hgi.pow _).emod hn

/-! ### `pw`, `tmod`, `divm` on representatives -/

theorem invMod_rep (hA : ArithOK) {n g : Int} {u} (hn : 1 < n) (hg : Rep n g u) :
    ∃ gi, invMod g n = some gi ∧ Rep n gi u⁻¹ ∧ 0 ≤ gi ∧ gi < n := by
  cases hi : invMod g n with
  | none => exact absurd (hg.gcd hn) (hA.invMod_none g n hn hi)
  | some gi =>
    obtain ⟨h0, hlt, hmul⟩ := hA.invMod_some g n gi hn hi
    refine ⟨gi, rfl, ?_, h0, hlt⟩
    unfold Rep at *
    have h2 : ((g * gi : Int) : ZMod n.toNat) = 1 := by
      have := (ZMod.intCast_eq_intCast_iff' (g * gi) 1 n.toNat).mpr (by
        rw [natCast_toNat hn, hmul, Int.emod_eq_of_lt (by omega) hn])
      simpa using this
    push_cast at h2
    rw [hg] at h2
    exact (Units.inv_eq_of_mul_eq_one_right h2).symm

theorem pw_rep (hA : ArithOK) {n g : Int} {u} (hn : 1 < n) (hg : Rep n g u) (e : Int)
    (t : List Draw) : ∃ y, pw g e n t = .ok (y, t) ∧ Rep n y (u ^ e) ∧ 0 ≤ y ∧ y < n := by
  obtain ⟨y, h1, h2⟩ := powMod_rep hA hn hg e
  exact ⟨y, pw_apply h1 t, h2⟩

theorem pw_inv (hA : ArithOK) {n g : Int} {u} (hn : 1 < n) (hg : Rep n g u) {e y : Int}
    {t t' : List Draw} (h : pw g e n t = .ok (y, t')) : t' = t ∧ Rep n y (u ^ e) ∧ 0 ≤ y ∧ y < n := by
  obtain ⟨y', h1, h2⟩ := pw_rep hA hn hg e t
  rw [h1] at h
  simp only [CRes.ok.injEq, Prod.mk.injEq] at h
  obtain ⟨rfl, rfl⟩ := h
  exact ⟨rfl, h2⟩

theorem tmod_rep {n a : Int} {u} (hn : 1 < n) (ha : Rep n a u) (h0 : 0 ≤ a) :
    Rep n (tmod a n) u ∧ 0 ≤ tmod a n ∧ tmod a n < n := by
  have : tmod a n = a % n := by
    unfold tmod; exact Int.tmod_eq_emod_of_nonneg h0
  rw [this]
  exact ⟨ha.emod hn, Int.emod_nonneg _ (by omega), Int.emod_lt_of_pos _ (by omega)⟩

theorem divm_rep (hA : ArithOK) {n a b : Int} {u v} (hn : 1 < n) (ha : Rep n a u) (hb : Rep n b v)
    (h0 : 0 ≤ a) (t : List Draw) :
    ∃ y, divm a b n t = .ok (y, t) ∧ Rep n y (u * v⁻¹) ∧ 0 ≤ y ∧ y < n := by
  obtain ⟨bi, h1, h2, h3, h4⟩ := invMod_rep hA hn hb
  have hr := tmod_rep hn (h2.mul ha) (mul_nonneg h3 h0)
  rw [mul_comm v⁻¹ u] at hr
  refine ⟨tmod (bi * a) n, ?_, hr⟩
  unfold divm; rw [h1]; rfl

/-! ### completeness of the sub-protocols (Algorithms 1–6) -/

theorem grp_ss {G} [CommGroup G] (u v : G) (ω μ c x r : ℤ) :
    u ^ (ω + c * x) * v ^ (μ + c * r) * (u ^ x * v ^ r) ^ (-c) = u ^ ω * v ^ μ := by
  have : ∀ (a b : Additive G),
      (ω + c * x) • a + (μ + c * r) • b + (-c) • (x • a + r • b) = ω • a + μ • b := by
    intro a b; module
  exact this (Additive.ofMul u) (Additive.ofMul v)

/-- **Algorithm 1/2 completeness.** -/
theorem same_secret_complete (hA : ArithOK) {n : Int} (hn : 1 < n)
    {g1 h1 g2 h2 E F x r1 r2 : Int} {u1 v1 u2 v2 : (ZMod n.toNat)ˣ}
    (hg1 : Rep n g1 u1) (hh1 : Rep n h1 v1) (hg2 : Rep n g2 u2) (hh2 : Rep n h2 v2)
    (hE : Rep n E (u1 ^ x * v1 ^ r1)) (hF : Rep n F (u2 ^ x * v2 ^ r2))
    {l t : Nat} {b : Int} {s1 s2 : Nat} {tp tp' : List Draw} {π : ProofSs}
    (h : proofSameSecret x r1 r2 g1 h1 g2 h2 l t b s1 s2 n tp = .ok (π, tp')) (tq : List Draw) :
    verifySameSecret E F g1 h1 g2 h2 n π tq = .ok (true, tq) := by
  unfold proofSameSecret at h
  obtain ⟨ω, _, -, h⟩ := bind_ok_inv h
  obtain ⟨μ1, _, -, h⟩ := bind_ok_inv h
  obtain ⟨μ2, _, -, h⟩ := bind_ok_inv h
  obtain ⟨a, _, ha, h⟩ := bind_ok_inv h
  obtain ⟨b1, _, hb1, h⟩ := bind_ok_inv h
  obtain ⟨a2, _, ha2, h⟩ := bind_ok_inv h
  obtain ⟨b2, _, hb2, h⟩ := bind_ok_inv h
  obtain ⟨rfl, -⟩ := pure_ok_iff.mp h
  obtain ⟨-, ra, a0, -⟩ := pw_inv hA hn hg1 ha
  obtain ⟨-, rb1, b10, -⟩ := pw_inv hA hn hh1 hb1
  obtain ⟨-, ra2, a20, -⟩ := pw_inv hA hn hg2 ha2
  obtain ⟨-, rb2, b20, -⟩ := pw_inv hA hn hh2 hb2
  obtain ⟨rw1, w10, w1n⟩ := tmod_rep hn (ra.mul rb1) (mul_nonneg a0 b10)
  obtain ⟨rw2, w20, w2n⟩ := tmod_rep hn (ra2.mul rb2) (mul_nonneg a20 b20)
  set c := hashInts [tmod (a * b1) n, tmod (a2 * b2) n] with hc
  unfold verifySameSecret
  dsimp only
  obtain ⟨iE, hiE, riE, iE0, -⟩ := pw_rep hA hn hE (-c) tq
  obtain ⟨iF, hiF, riF, iF0, -⟩ := pw_rep hA hn hF (-c) tq
  obtain ⟨a', ha', ra', a'0, -⟩ := pw_rep hA hn hg1 (ω + c * x) tq
  obtain ⟨b', hb', rb', b'0, -⟩ := pw_rep hA hn hh1 (μ1 + c * r1) tq
  obtain ⟨a2', ha2', ra2', a2'0, -⟩ := pw_rep hA hn hg2 (ω + c * x) tq
  obtain ⟨b2', hb2', rb2', b2'0, -⟩ := pw_rep hA hn hh2 (μ2 + c * r2) tq
  rw [bind_of_ok hiE, bind_of_ok hiF, bind_of_ok ha', bind_of_ok hb', bind_of_ok ha2',
    bind_of_ok hb2']
  obtain ⟨rl, l0, ln⟩ := tmod_rep hn ((ra'.mul rb').mul riE) (mul_nonneg (mul_nonneg a'0 b'0) iE0)
  obtain ⟨rr, r0, rn⟩ := tmod_rep hn ((ra2'.mul rb2').mul riF)
    (mul_nonneg (mul_nonneg a2'0 b2'0) iF0)
  rw [grp_ss] at rl rr
  have e1 := Rep.unique hn rl rw1 l0 ln w10 w1n
  have e2 := Rep.unique hn rr rw2 r0 rn w20 w2n
  rw [e1, e2]
  simp [← hc]

theorem grp_sq {G} [CommGroup G] (u v : G) (x r1 r2 : ℤ) :
    (u ^ x * v ^ r2) ^ x * v ^ (r1 - r2 * x) = u ^ (x ^ 2) * v ^ r1 := by
  have : ∀ (a b : Additive G), x • (x • a + r2 • b) + (r1 - r2 * x) • b = (x ^ 2) • a + r1 • b := by
    intro a b; module
  exact this (Additive.ofMul u) (Additive.ofMul v)

/-- **Algorithm 3/4 completeness**: `E` commits to `x²` with randomness `r1`. -/
theorem square_complete (hA : ArithOK) {n : Int} (hn : 1 < n) {g h E x r1 : Int}
    {u v : (ZMod n.toNat)ˣ} (hg : Rep n g u) (hh : Rep n h v) (hE : Rep n E (u ^ (x ^ 2) * v ^ r1))
    {l t : Nat} {b : Int} {s s1 s2 : Nat} {tp tp' : List Draw} {π : ProofOfS}
    (hp : proofOfSquare x r1 g h E l t b s s1 s2 n tp = .ok (π, tp')) (tq : List Draw) :
    verifyOfSquare π g h n tq = .ok (true, tq) ∧ π.E = E := by
  unfold proofOfSquare at hp
  rename' hp => h
  obtain ⟨r2, _, -, h⟩ := bind_ok_inv h
  obtain ⟨a, _, ha, h⟩ := bind_ok_inv h
  obtain ⟨b', _, hb', h⟩ := bind_ok_inv h
  dsimp only at h
  obtain ⟨pss, _, hpss, h⟩ := bind_ok_inv h
  obtain ⟨rfl, -⟩ := pure_ok_iff.mp h
  obtain ⟨-, ra, a0, -⟩ := pw_inv hA hn hg ha
  obtain ⟨-, rb, b0, -⟩ := pw_inv hA hn hh hb'
  obtain ⟨rF, F0, Fn⟩ := tmod_rep hn (ra.mul rb) (mul_nonneg a0 b0)
  refine ⟨?_, rfl⟩
  unfold verifyOfSquare
  dsimp only
  rw [if_neg (by omega)]
  refine same_secret_complete hA hn hg hh rF hh rF ?_ hpss tq
  rw [grp_sq]; exact hE

theorem grp_li {G} [CommGroup G] (u v : G) (w ν c x r : ℤ) :
    u ^ (w + x * c) * v ^ (ν + r * c) * (u ^ x * v ^ r) ^ (-c) = u ^ w * v ^ ν := by
  have : ∀ (a b : Additive G),
      (w + x * c) • a + (ν + r * c) • b + (-c) • (x • a + r • b) = w • a + ν • b := by
    intro a b; module
  exact this (Additive.ofMul u) (Additive.ofMul v)

theorem large_loop_complete (hA : ArithOK) {n : Int} (hn : 1 < n) {g h E x r : Int}
    {u v : (ZMod n.toNat)ˣ} (hg : Rep n g u) (hh : Rep n h v) (hE : Rep n E (u ^ x * v ^ r))
    {t l : Nat} {b : Int} {s T : Nat} (fuel : Nat) {tp tp' : List Draw} {π : ProofLi}
    (hp : proofLargeLoop x r g h t l b s n T fuel tp = .ok (π, tp')) (tq : List Draw) :
    verifyLargeIntervalSpecific π E g h n t l b tq = .ok (true, tq) := by
  induction fuel generalizing tp with
  | zero => cases hp
  | succ fuel ih =>
    unfold proofLargeLoop at hp
    rename' hp => h
    obtain ⟨w, _, -, h⟩ := bind_ok_inv h
    obtain ⟨ν, _, -, h⟩ := bind_ok_inv h
    obtain ⟨a, _, ha, h⟩ := bind_ok_inv h
    obtain ⟨b', _, hb', h⟩ := bind_ok_inv h
    dsimp only at h
    split at h
    · next hbd =>
      obtain ⟨rfl, -⟩ := pure_ok_iff.mp h
      obtain ⟨-, ra, a0, -⟩ := pw_inv hA hn hg ha
      obtain ⟨-, rb, b0, -⟩ := pw_inv hA hn hh hb'
      obtain ⟨rw, w0, wn⟩ := tmod_rep hn (ra.mul rb) (mul_nonneg a0 b0)
      unfold verifyLargeIntervalSpecific
      dsimp only
      set C := hashInts [tmod (a * b') n] with hC
      set c := tmod C (2 ^ t) with hc
      obtain ⟨iE, hiE, riE, iE0, -⟩ := pw_rep hA hn hE (-c) tq
      obtain ⟨a', ha', ra', a'0, -⟩ := pw_rep hA hn hg (w + x * c) tq
      obtain ⟨b2, hb2, rb2, b20, -⟩ := pw_rep hA hn hh (ν + r * c) tq
      rw [bind_of_ok hiE, bind_of_ok ha', bind_of_ok hb2]
      obtain ⟨rl, l0, ln⟩ := tmod_rep hn ((ra'.mul rb2).mul riE)
        (mul_nonneg (mul_nonneg a'0 b20) iE0)
      rw [grp_li] at rl
      have e1 := Rep.unique hn rl rw l0 ln w0 wn
      rw [e1]
      simp [← hC, hbd.1, hbd.2]
    · exact ih h

/-- **Algorithm 5/6 completeness** (the prover's exit condition is the verifier's bound: F11 fixed). -/
theorem large_interval_complete (hA : ArithOK) {n : Int} (hn : 1 < n) {g h E x r : Int}
    {u v : (ZMod n.toNat)ˣ} (hg : Rep n g u) (hh : Rep n h v) (hE : Rep n E (u ^ x * v ^ r))
    {t l : Nat} {b : Int} {s T : Nat} {tp tp' : List Draw} {π : ProofLi}
    (hp : proofLargeIntervalSpecific x r g h t l b s n T tp = .ok (π, tp')) (tq : List Draw) :
    verifyLargeIntervalSpecific π E g h n t l b tq = .ok (true, tq) := by
  unfold proofLargeIntervalSpecific at hp
  rename' hp => h
  obtain ⟨k, _, -, h⟩ := bind_ok_inv h
  exact large_loop_complete hA hn hg hh hE _ h tq

/-! ### Algorithms 7/8 and the whole proof -/

theorem sqrtM_ok_iff {x y : Int} {t t' : List Draw} :
    sqrtM x t = .ok (y, t') ↔ 0 ≤ x ∧ y = Int.ofNat (isqrt x.toNat) ∧ t' = t := by
  unfold sqrtM
  split
  · next hx => simp only [panic_apply]; constructor
               · intro h; cases h
               · rintro ⟨h, -⟩; omega
  · next hx => rw [pure_ok_iff]; constructor
               · rintro ⟨rfl, rfl⟩; exact ⟨by omega, rfl, rfl⟩
               · rintro ⟨-, rfl, rfl⟩; exact ⟨rfl, rfl⟩

theorem sqrtM_neg {x : Int} (hx : x < 0) (t : List Draw) : sqrtM x t = .panic := by
  unfold sqrtM; rw [if_pos hx]; rfl

theorem tolBounds_ok_iff {a b : Int} {T : Nat} {p : Int × Int × Int} {tp tp' : List Draw} :
    tolBounds a b T tp = .ok (p, tp') ↔
      a ≤ b ∧ p = (2 ^ T * a, 2 ^ T * b, tolB2 T a b) ∧ tp' = tp := by
  have hp : (0 : Int) < 2 ^ T := by positivity
  unfold tolBounds
  rw [bind_ok_iff]
  constructor
  · rintro ⟨sq, t1, h1, h2⟩
    obtain ⟨h0, rfl, rfl⟩ := sqrtM_ok_iff.mp h1
    obtain ⟨rfl, rfl⟩ := pure_ok_iff.mp h2
    refine ⟨?_, rfl, rfl⟩
    by_contra hc
    have : 2 ^ T * (b - a) < 0 := mul_neg_of_pos_of_neg hp (by omega)
    omega
  · rintro ⟨hab, rfl, rfl⟩
    exact ⟨_, _, sqrtM_ok_iff.mpr ⟨mul_nonneg hp.le (by omega), rfl, rfl⟩, rfl⟩

theorem splitLoop_ok {target lo hi : Int} (fuel : Nat) {r1 r2 : Int} {t t' : List Draw}
    (h : splitLoop target lo hi fuel t = .ok ((r1, r2), t')) : r2 = target - r1 := by
  induction fuel generalizing t with
  | zero => cases h
  | succ fuel ih =>
    unfold splitLoop at h
    obtain ⟨x, _, -, h⟩ := bind_ok_inv h
    dsimp only at h
    split at h
    · obtain ⟨h, -⟩ := pure_ok_iff.mp h
      simp only [Prod.mk.injEq] at h
      obtain ⟨rfl, rfl⟩ := h; rfl
    · exact ih h

theorem grp_divA {G} [CommGroup G] (u v : G) (x r aa y ra1 : ℤ) :
    (u ^ x * v ^ r * (u ^ aa)⁻¹) * (u ^ (y ^ 2) * v ^ ra1)⁻¹
      = u ^ (x - aa - y ^ 2) * v ^ (r - ra1) := by
  have : ∀ (a b : Additive G), (x • a + r • b + -(aa • a)) + -((y ^ 2) • a + ra1 • b)
      = (x - aa - y ^ 2) • a + (r - ra1) • b := by
    intro a b; module
  exact this (Additive.ofMul u) (Additive.ofMul v)

theorem grp_divB {G} [CommGroup G] (u v : G) (x r bb y rb1 : ℤ) :
    (u ^ bb * (u ^ x * v ^ r)⁻¹) * (u ^ (y ^ 2) * v ^ rb1)⁻¹
      = u ^ (bb - x - y ^ 2) * v ^ (-r - rb1) := by
  have : ∀ (a b : Additive G), (bb • a + -(x • a + r • b)) + -((y ^ 2) • a + rb1 • b)
      = (bb - x - y ^ 2) • a + (-r - rb1) • b := by
    intro a b; module
  exact this (Additive.ofMul u) (Additive.ofMul v)

/-- **Algorithm 7/8 completeness.** -/
theorem tolerance_complete (hA : ArithOK) {n : Int} (hn : 1 < n) {g h E x r a b : Int}
    {u v : (ZMod n.toNat)ˣ} (hg : Rep n g u) (hh : Rep n h v) (hE : Rep n E (u ^ x * v ^ r))
    (hE0 : 0 ≤ E) {t l s s1 s2 T : Nat} {tp tp' : List Draw} {π : ProofWt}
    (hp : proofOfToleranceSpecific x r g h n a b t l s s1 s2 T tp = .ok (π, tp')) (tq : List Draw) :
    verifyOfToleranceSpecific π g h E n a b t l T tq = .ok (true, tq) := by
  unfold proofOfToleranceSpecific at hp
  obtain ⟨p, _, htb, H⟩ := bind_ok_inv hp
  clear hp
  obtain ⟨aa, bb, b2⟩ := p
  simp only [] at H
  obtain ⟨hab, hp, rfl⟩ := tolBounds_ok_iff.mp htb
  simp only [Prod.mk.injEq] at hp
  obtain ⟨haa, hbb, hb2⟩ := hp
  obtain ⟨xa1, _, -, H⟩ := bind_ok_inv H
  obtain ⟨xb1, _, -, H⟩ := bind_ok_inv H
  obtain ⟨k, _, -, H⟩ := bind_ok_inv H
  obtain ⟨pa, _, hsa, H⟩ := bind_ok_inv H
  obtain ⟨ra1, ra2⟩ := pa
  obtain ⟨pb, _, hsb, H⟩ := bind_ok_inv H
  obtain ⟨rb1, rb2⟩ := pb
  simp only [] at H
  have hra := splitLoop_ok _ hsa
  have hrb := splitLoop_ok _ hsb
  obtain ⟨e1, _, he1, H⟩ := bind_ok_inv H
  obtain ⟨e2, _, he2, H⟩ := bind_ok_inv H
  obtain ⟨e3, _, he3, H⟩ := bind_ok_inv H
  obtain ⟨e4, _, he4, H⟩ := bind_ok_inv H
  obtain ⟨e5, _, he5, H⟩ := bind_ok_inv H
  obtain ⟨e6, _, he6, H⟩ := bind_ok_inv H
  obtain ⟨e7, _, he7, H⟩ := bind_ok_inv H
  obtain ⟨e8, _, he8, H⟩ := bind_ok_inv H
  obtain ⟨sq1, _, -, H⟩ := bind_ok_inv H
  obtain ⟨sqA, _, hsqA, H⟩ := bind_ok_inv H
  obtain ⟨sqB, _, hsqB, H⟩ := bind_ok_inv H
  obtain ⟨liA, _, hliA, H⟩ := bind_ok_inv H
  obtain ⟨liB, _, hliB, H⟩ := bind_ok_inv H
  obtain ⟨rfl, -⟩ := pure_ok_iff.mp H
  obtain ⟨-, r1, p1, -⟩ := pw_inv hA hn hg he1
  obtain ⟨-, r2, p2, -⟩ := pw_inv hA hn hh he2
  obtain ⟨-, r3, p3, -⟩ := pw_inv hA hn hg he3
  obtain ⟨-, r4, p4, -⟩ := pw_inv hA hn hh he4
  obtain ⟨-, r5, p5, -⟩ := pw_inv hA hn hg he5
  obtain ⟨-, r6, p6, -⟩ := pw_inv hA hn hh he6
  obtain ⟨-, r7, p7, -⟩ := pw_inv hA hn hg he7
  obtain ⟨-, r8, p8, -⟩ := pw_inv hA hn hh he8
  obtain ⟨rEa1, Ea10, Ea1n⟩ := tmod_rep hn (r1.mul r2) (mul_nonneg p1 p2)
  obtain ⟨rEa2, Ea20, Ea2n⟩ := tmod_rep hn (r3.mul r4) (mul_nonneg p3 p4)
  obtain ⟨rEb1, Eb10, Eb1n⟩ := tmod_rep hn (r5.mul r6) (mul_nonneg p5 p6)
  obtain ⟨rEb2, Eb20, Eb2n⟩ := tmod_rep hn (r7.mul r8) (mul_nonneg p7 p8)
  clear he1 he2 he3 he4 he5 he6 he7 he8
  obtain ⟨vA, hA1⟩ := square_complete hA hn hg hh rEa1 hsqA tq
  obtain ⟨vB, hB1⟩ := square_complete hA hn hg hh rEb1 hsqB tq
  have vLA := large_interval_complete hA hn hg hh rEa2 hliA tq
  have vLB := large_interval_complete hA hn hg hh rEb2 hliB tq
  unfold verifyOfToleranceSpecific
  rw [bind_of_ok (tolBounds_ok_iff.mpr ⟨hab, rfl, rfl⟩)]
  dsimp only
  rw [← haa, ← hbb, ← hb2]
  obtain ⟨gaa, hgaa, rgaa, gaa0, -⟩ := pw_rep hA hn hg aa tq
  obtain ⟨Ea, hEa, rEa, Ea0, -⟩ := divm_rep hA hn hE rgaa hE0 tq
  obtain ⟨gbb, hgbb, rgbb, gbb0, -⟩ := pw_rep hA hn hg bb tq
  obtain ⟨Eb, hEb, rEb, Eb0, -⟩ := divm_rep hA hn rgbb hE gbb0 tq
  obtain ⟨dA, hdA, rdA, dA0, dAn⟩ := divm_rep hA hn rEa rEa1 Ea0 tq
  obtain ⟨dB, hdB, rdB, dB0, dBn⟩ := divm_rep hA hn rEb rEb1 Eb0 tq
  rw [bind_of_ok hgaa, bind_of_ok hEa, bind_of_ok hgbb, bind_of_ok hEb, bind_of_ok hdA,
    bind_of_ok hdB]
  rw [grp_divA] at rdA
  rw [grp_divB] at rdB
  rw [hra] at rEa2
  rw [hrb] at rEb2
  have eA := Rep.unique hn rEa2 rdA Ea20 Ea2n dA0 dAn
  have eB := Rep.unique hn rEb2 rdB Eb20 Eb2n dB0 dBn
  rw [← eA, ← eB, hA1, hB1]
  simp only [beq_self_eq_true, and_self, if_true]
  rw [bind_of_ok vA]
  simp only [if_true]
  rw [bind_of_ok vB, bind_of_ok vLA]
  simp only [if_true]
  rw [bind_of_ok vLB]
  rfl

theorem grp_scale {G} [CommGroup G] (u v : G) (k x r : ℤ) :
    (u ^ x * v ^ r) ^ k = u ^ (k * x) * v ^ (k * r) := by
  have : ∀ (a b : Additive G), k • (x • a + r • b) = (k * x) • a + (k * r) • b := by
    intro a b; module
  exact this (Additive.ofMul u) (Additive.ofMul v)

theorem rangeT_eq (cs : Suite) (a b : Int) : rangeT cs a b = tolT cs.t cs.l a b := rfl

/-- **C16 completeness**, whole protocol. -/
theorem range_complete (hA : ArithOK) (cs : Suite) {n : Int} (hn : 1 < n) {g h x a b : Int}
    {c : Commitment} {u v : (ZMod n.toNat)ˣ} (hg : Rep n g u) (hh : Rep n h v)
    (hc : Rep n c.value (u ^ x * v ^ c.randomness)) (hcr : 0 ≤ c.value ∧ c.value < n)
    {tp tp' : List Draw} {π : RangeProof}
    (hp : rangeProve cs x c g h n a b tp = .ok (π, tp')) (tq : List Draw) :
    rangeVerify cs π g h n a b tq = .ok (true, tq) ∧ π.E = c.value := by
  unfold rangeProve at hp
  split at hp
  · cases hp
  next hab =>
  dsimp only at hp
  obtain ⟨E', _, hE', H⟩ := bind_ok_inv hp
  obtain ⟨tol, _, htol, H⟩ := bind_ok_inv H
  obtain ⟨rfl, -⟩ := pure_ok_iff.mp H
  refine ⟨?_, rfl⟩
  obtain ⟨-, rE', E'0, -⟩ := pw_inv hA hn hc hE'
  rw [grp_scale] at rE'
  unfold rangeVerify
  rw [if_neg hab]
  dsimp only
  rw [if_neg (by omega)]
  obtain ⟨hpm, -⟩ := pw_ok_iff.mp hE'
  rw [bind_of_ok (pw_apply hpm tq)]
  simp only [beq_self_eq_true, if_true]
  exact tolerance_complete hA hn hg hh rE' E'0 htol tq

/-! ### the honest prover outside `[a, b]` -/

/-- If the honest prover returns a proof, the value was in `[a, b]` (the square roots of
`2^T·x − 2^T·a` and `2^T·b − 2^T·x` are taken of non-negative numbers only). -/
theorem prover_in_range (hA : ArithOK) (cs : Suite) {n g h x a b : Int} {c : Commitment}
    {tp tp' : List Draw} {π : RangeProof}
    (hp : rangeProve cs x c g h n a b tp = .ok (π, tp')) : a < b ∧ a ≤ x ∧ x ≤ b := by
  unfold rangeProve at hp
  split at hp
  · cases hp
  next hab =>
  dsimp only at hp
  obtain ⟨E', _, hE', H1⟩ := bind_ok_inv hp
  obtain ⟨tol, _, htol, H2⟩ := bind_ok_inv H1
  clear hp H1 H2
  unfold proofOfToleranceSpecific at htol
  obtain ⟨p, _, htb, H⟩ := bind_ok_inv htol
  clear htol
  obtain ⟨aa, bb, b2⟩ := p
  simp only [] at H
  obtain ⟨hab', hp, rfl⟩ := tolBounds_ok_iff.mp htb
  simp only [Prod.mk.injEq] at hp
  obtain ⟨haa, hbb, -⟩ := hp
  obtain ⟨xa1, _, h1, H⟩ := bind_ok_inv H
  obtain ⟨xb1, _, h2, H⟩ := bind_ok_inv H
  obtain ⟨ha, -, -⟩ := sqrtM_ok_iff.mp h1
  obtain ⟨hb, -, -⟩ := sqrtM_ok_iff.mp h2
  rw [haa] at ha
  rw [hbb] at hb
  exact ⟨by omega, scaled_le_iff.mp (by linarith), scaled_le_iff.mp (by linarith)⟩

/-- For ANY integer outside `[a, b]` the honest prover does not produce a proof … -/
theorem honest_out_of_range (hA : ArithOK) (cs : Suite) {n g h x a b : Int} {c : Commitment}
    (hx : x < a ∨ b < x) (tp : List Draw) (r : RangeProof × List Draw) :
    rangeProve cs x c g h n a b tp ≠ .ok r := by
  intro hp
  obtain ⟨π, tp'⟩ := r
  obtain ⟨-, h1, h2⟩ := prover_in_range hA cs hp
  omega

/-- … precisely, it PANICS (`Integer::sqrt` of a negative number) before reading the tape. -/
theorem honest_out_of_range_panics (hA : ArithOK) (cs : Suite) {n g h x a b : Int} {c : Commitment}
    (hn : 0 < n) (hab : a < b) (hx : x < a ∨ b < x) (tp : List Draw) :
    rangeProve cs x c g h n a b tp = .panic := by
  unfold rangeProve
  rw [if_neg (by omega)]
  rw [bind_of_ok (pw_apply (hA.powMod_nonneg c.value _ n hn (by positivity)) tp)]
  unfold proofOfToleranceSpecific
  apply bind_of_panic
  rw [bind_of_ok (tolBounds_ok_iff.mpr ⟨by omega, rfl, rfl⟩)]
  dsimp only
  rw [rangeT_eq]
  have i1 := scaled_le_iff (T := tolT cs.t cs.l a b) (a := a) (x := x)
  have i2 := scaled_le_iff (T := tolT cs.t cs.l a b) (a := x) (x := b)
  by_cases hxa : x < a
  · apply bind_of_panic
    apply sqrtM_neg
    have : ¬ (2 ^ tolT cs.t cs.l a b * a ≤ 2 ^ tolT cs.t cs.l a b * x) :=
      fun hc => by have := i1.mp hc; omega
    linarith
  · have hxb : b < x := by omega
    have h1 : 0 ≤ 2 ^ tolT cs.t cs.l a b * x - 2 ^ tolT cs.t cs.l a b * a := by
      have := i1.mpr (by omega); linarith
    rw [bind_of_ok (sqrtM_ok_iff.mpr ⟨h1, rfl, rfl⟩)]
    apply bind_of_panic
    apply sqrtM_neg
    have : ¬ (2 ^ tolT cs.t cs.l a b * x ≤ 2 ^ tolT cs.t cs.l a b * b) :=
      fun hc => by have := i2.mp hc; omega
    linarith

/-! ### reading the verifier backwards -/

theorem tmod_modEq (a m : Int) : tmod a m ≡ a [ZMOD m] := by
  unfold tmod
  rw [Int.modEq_iff_dvd]
  exact ⟨a.tdiv m, by have := Int.tmod_add_mul_tdiv a m; linarith⟩

/-- What a successful `divm(a, b, m)` returns: a solution of `b·y ≡ a (mod m)` (both branches). -/
theorem divm_spec (hA : ArithOK) {a b m y : Int} (hm : 1 < m) {t t' : List Draw}
    (h : divm a b m t = .ok (y, t')) : b * y ≡ a [ZMOD m] := by
  unfold divm at h
  cases hi : invMod b m with
  | some r =>
    rw [hi] at h
    obtain ⟨rfl, -⟩ := pure_ok_iff.mp h
    obtain ⟨-, -, hmul⟩ := hA.invMod_some b m r hm hi
    have h1 : b * r ≡ 1 [ZMOD m] := by
      unfold Int.ModEq; rw [hmul, Int.emod_eq_of_lt (by omega) hm]
    calc b * tmod (r * a) m ≡ b * (r * a) [ZMOD m] := (tmod_modEq _ _).mul_left _
      _ = (b * r) * a := by ring
      _ ≡ 1 * a [ZMOD m] := h1.mul_right _
      _ = a := one_mul _
  | none =>
    rw [hi] at h
    simp only [] at h
    split at h
    · cases h
    next hg0 =>
    generalize hg : Zk.IA.gcd (Zk.IA.gcd a b) m = g at h hg0
    have hga : g ∣ a := by
      rw [← hg]; unfold Zk.IA.gcd
      exact (Int.gcd_dvd_left _ _).trans (Int.gcd_dvd_left _ _)
    have hgb : g ∣ b := by
      rw [← hg]; unfold Zk.IA.gcd
      exact (Int.gcd_dvd_left _ _).trans (Int.gcd_dvd_right _ _)
    have hgm : g ∣ m := by
      rw [← hg]; unfold Zk.IA.gcd
      exact Int.gcd_dvd_right _ _
    have hgpos : 0 < g := by
      have h0 : 0 ≤ g := by rw [← hg]; unfold Zk.IA.gcd; exact Int.natCast_nonneg _
      have : g ≠ 0 := by simpa using hg0
      omega
    obtain ⟨a', rfl⟩ := hga
    obtain ⟨b', rfl⟩ := hgb
    obtain ⟨m', rfl⟩ := hgm
    rw [Int.mul_ediv_cancel_left _ hgpos.ne', Int.mul_ediv_cancel_left _ hgpos.ne',
      Int.mul_ediv_cancel_left _ hgpos.ne'] at h
    cases hj : invMod b' m' with
    | none => rw [hj] at h; cases h
    | some r =>
      rw [hj] at h
      obtain ⟨rfl, -⟩ := pure_ok_iff.mp h
      have hm'pos : 0 < m' := by
        by_contra hc
        have : m' ≤ 0 := by omega
        have := mul_nonpos_of_nonneg_of_nonpos hgpos.le this
        omega
      have key : b' * tmod (r * a') m' ≡ a' [ZMOD m'] := by
        by_cases hm1 : m' = 1
        · subst hm1; exact Int.modEq_one
        · have hm' : 1 < m' := by omega
          obtain ⟨-, -, hmul⟩ := hA.invMod_some b' m' r hm' hj
          have h1 : b' * r ≡ 1 [ZMOD m'] := by
            unfold Int.ModEq; rw [hmul, Int.emod_eq_of_lt (by omega) hm']
          calc b' * tmod (r * a') m' ≡ b' * (r * a') [ZMOD m'] := (tmod_modEq _ _).mul_left _
            _ = (b' * r) * a' := by ring
            _ ≡ 1 * a' [ZMOD m'] := h1.mul_right _
            _ = a' := one_mul _
      have := key.mul_left' (c := g)
      rw [show g * b' * tmod (r * a') m' = g * (b' * tmod (r * a') m') by ring]
      exact this

theorem sqrtM_tapeFree (x : Int) : TapeFree (sqrtM x) := by
  unfold sqrtM; exact .ite .panic (.pure _)

theorem tolBounds_tapeFree (a b : Int) (T : Nat) : TapeFree (tolBounds a b T) := by
  unfold tolBounds; exact .bind (sqrtM_tapeFree _) fun _ => .pure _

theorem verifySameSecret_tapeFree (E F g1 h1 g2 h2 n : Int) (π : ProofSs) :
    TapeFree (verifySameSecret E F g1 h1 g2 h2 n π) := by
  unfold verifySameSecret
  exact .bind (.pw _ _ _) fun _ => .bind (.pw _ _ _) fun _ => .bind (.pw _ _ _) fun _ =>
    .bind (.pw _ _ _) fun _ => .bind (.pw _ _ _) fun _ => .bind (.pw _ _ _) fun _ => .pure _

theorem verifyOfSquare_tapeFree (π : ProofOfS) (g h n : Int) : TapeFree (verifyOfSquare π g h n) := by
  unfold verifyOfSquare
  exact .ite (.pure _) (verifySameSecret_tapeFree _ _ _ _ _ _ _ _)

/-- What an accepted proof of square was checked against (Algorithm 4 read backwards): `F` is the reduced
representative of its residue, and the same-secret proof for `(F, E)` is accepted. -/
theorem verifyOfSquare_accept_inv {π : ProofOfS} {g h n : Int} {tq tq' : List Draw}
    (hv : verifyOfSquare π g h n tq = .ok (true, tq')) :
    (0 ≤ π.F ∧ π.F < n) ∧ verifySameSecret π.F π.E g h π.F h n π.proofSs tq = .ok (true, tq') := by
  unfold verifyOfSquare at hv
  split at hv
  · cases (pure_ok_iff.mp hv).1
  next hF => exact ⟨by omega, hv⟩

theorem verifyLarge_tapeFree (π : ProofLi) (E g h n : Int) (t l : Nat) (b : Int) :
    TapeFree (verifyLargeIntervalSpecific π E g h n t l b) := by
  unfold verifyLargeIntervalSpecific
  exact .bind (.pw _ _ _) fun _ => .bind (.pw _ _ _) fun _ => .bind (.pw _ _ _) fun _ => .pure _

/-- Everything an accepted tolerance proof was checked against (Algorithm 8 read backwards). -/
theorem tolerance_accept_inv {π : ProofWt} {g h E n a b : Int} {t l T : Nat} {tq tq' : List Draw}
    (hv : verifyOfToleranceSpecific π g h E n a b t l T tq = .ok (true, tq')) :
    a ≤ b ∧ tq' = tq ∧ ∃ gaa Ea gbb Eb : Int,
      pw g (2 ^ T * a) n tq = .ok (gaa, tq) ∧
      divm E gaa n tq = .ok (Ea, tq) ∧
      pw g (2 ^ T * b) n tq = .ok (gbb, tq) ∧
      divm gbb E n tq = .ok (Eb, tq) ∧
      divm Ea π.Ea1 n tq = .ok (π.Ea2, tq) ∧ divm Eb π.Eb1 n tq = .ok (π.Eb2, tq) ∧
      π.squareA.E = π.Ea1 ∧ π.squareB.E = π.Eb1 ∧
      verifyOfSquare π.squareA g h n tq = .ok (true, tq) ∧
      verifyOfSquare π.squareB g h n tq = .ok (true, tq) ∧
      verifyLargeIntervalSpecific π.largeA π.Ea2 g h n t l (tolB2 T a b) tq = .ok (true, tq) ∧
      verifyLargeIntervalSpecific π.largeB π.Eb2 g h n t l (tolB2 T a b) tq = .ok (true, tq) := by
  unfold verifyOfToleranceSpecific at hv
  obtain ⟨p, t0, htb, H0⟩ := bind_ok_inv hv
  clear hv
  obtain ⟨aa, bb, b2⟩ := p
  simp only [] at H0
  obtain ⟨hab, hp, rfl⟩ := tolBounds_ok_iff.mp htb
  simp only [Prod.mk.injEq] at hp
  obtain ⟨rfl, rfl, rfl⟩ := hp
  obtain ⟨gaa, t1, h1, H1⟩ := bind_ok_inv H0
  obtain rfl := (TapeFree.pw _ _ _).tape_eq h1
  obtain ⟨Ea, t2, h2, H2⟩ := bind_ok_inv H1
  obtain rfl := (divm_tapeFree _ _ _).tape_eq h2
  obtain ⟨gbb, t3, h3, H3⟩ := bind_ok_inv H2
  obtain rfl := (TapeFree.pw _ _ _).tape_eq h3
  obtain ⟨Eb, t4, h4, H4⟩ := bind_ok_inv H3
  obtain rfl := (divm_tapeFree _ _ _).tape_eq h4
  obtain ⟨dA, t5, h5, H5⟩ := bind_ok_inv H4
  obtain rfl := (divm_tapeFree _ _ _).tape_eq h5
  obtain ⟨dB, t6, h6, H6⟩ := bind_ok_inv H5
  obtain rfl := (divm_tapeFree _ _ _).tape_eq h6
  clear H0 H1 H2 H3 H4 H5 htb
  split at H6
  · next hc =>
    obtain ⟨c1, c2, c3, c4⟩ := hc
    simp only [beq_iff_eq] at c1 c2 c3 c4
    obtain ⟨s1, t7, h7, H7⟩ := bind_ok_inv H6
    obtain rfl := (verifyOfSquare_tapeFree _ _ _ _).tape_eq h7
    obtain ⟨bs, t8, h8, H8⟩ := bind_ok_inv H7
    obtain ⟨l1, t9, h9, H9⟩ := bind_ok_inv H8
    obtain ⟨bl, t10, h10, H10⟩ := bind_ok_inv H9
    obtain ⟨hand, rfl⟩ := pure_ok_iff.mp H10
    clear H6 H7 H8 H9 H10
    rw [Bool.and_eq_true] at hand
    obtain ⟨rfl, rfl⟩ := hand
    cases s1 with
    | false => simp only [Bool.false_eq_true, if_false] at h8; cases (pure_ok_iff.mp h8).1
    | true =>
      simp only [if_true] at h8
      obtain rfl := (verifyOfSquare_tapeFree _ _ _ _).tape_eq h8
      obtain rfl := (verifyLarge_tapeFree _ _ _ _ _ _ _ _).tape_eq h9
      cases l1 with
      | false => simp only [Bool.false_eq_true, if_false] at h10; cases (pure_ok_iff.mp h10).1
      | true =>
        simp only [if_true] at h10
        obtain rfl := (verifyLarge_tapeFree _ _ _ _ _ _ _ _).tape_eq h10
        subst c1 c2
        exact ⟨hab, rfl, gaa, Ea, gbb, Eb, h1, h2, h3, h4, h5, h6, c3, c4, h7, h8, h9, h10⟩
  · cases (pure_ok_iff.mp H6).1

theorem two_pow_toNat (T : Nat) : ((2 : Int) ^ T).toNat = 2 ^ T := by
  have : ((2 : Int) ^ T) = ((2 ^ T : Nat) : Int) := by push_cast; rfl
  rw [this, Int.toNat_natCast]

theorem verifyOfTolerance_tapeFree (π : ProofWt) (g h E n a b : Int) (t l T : Nat) :
    TapeFree (verifyOfToleranceSpecific π g h E n a b t l T) := by
  unfold verifyOfToleranceSpecific
  refine .bind (tolBounds_tapeFree _ _ _) fun p => ?_
  obtain ⟨aa, bb, b2⟩ := p
  exact .bind (.pw _ _ _) fun _ => .bind (divm_tapeFree _ _ _) fun _ => .bind (.pw _ _ _) fun _ =>
    .bind (divm_tapeFree _ _ _) fun _ => .bind (divm_tapeFree _ _ _) fun _ =>
    .bind (divm_tapeFree _ _ _) fun _ => .ite
      (.bind (verifyOfSquare_tapeFree _ _ _ _) fun _ =>
        .bind (.ite (verifyOfSquare_tapeFree _ _ _ _) (.pure _)) fun _ =>
        .bind (verifyLarge_tapeFree _ _ _ _ _ _ _ _) fun _ =>
        .bind (.ite (verifyLarge_tapeFree _ _ _ _ _ _ _ _) (.pure _)) fun _ => .pure _)
      (.pure _)

theorem rangeVerify_tapeFree (cs : Suite) (π : RangeProof) (g h n a b : Int) :
    TapeFree (rangeVerify cs π g h n a b) := by
  unfold rangeVerify
  exact .ite .panic (.ite (.pure _) (.bind (.pw _ _ _) fun _ =>
    .ite (verifyOfTolerance_tapeFree _ _ _ _ _ _ _ _ _ _) (.pure _)))

/-- What an accepted range proof was checked against (`verify` read backwards). -/
theorem range_accept_inv (hA : ArithOK) {cs : Suite} {π : RangeProof} {g h n a b : Int} (hn : 0 < n)
    {tq tq' : List Draw} (hv : rangeVerify cs π g h n a b tq = .ok (true, tq')) :
    a < b ∧ tq' = tq ∧ (0 ≤ π.E ∧ π.E < n) ∧ π.Eprime = π.E ^ (2 ^ rangeT cs a b) % n ∧
      verifyOfToleranceSpecific π.tol g h π.Eprime n a b cs.t cs.l (rangeT cs a b) tq
        = .ok (true, tq) := by
  have htq := (rangeVerify_tapeFree cs π g h n a b).tape_eq hv
  subst htq
  unfold rangeVerify at hv
  split at hv
  · cases hv
  next hab =>
  split at hv
  · cases (pure_ok_iff.mp hv).1
  next hEr =>
  dsimp only at hv
  have hpw := hA.powMod_nonneg π.E (2 ^ rangeT cs a b) n hn (by positivity)
  rw [two_pow_toNat] at hpw
  rw [bind_of_ok (pw_apply hpw _)] at hv
  split at hv
  · next he =>
    have he' : π.Eprime = π.E ^ 2 ^ rangeT cs a b % n := by simpa using he
    exact ⟨by omega, rfl, by omega, he', hv⟩
  · cases (pure_ok_iff.mp hv).1

/-- a congruence transports `Rep` -/
theorem Rep.of_emod_eq {n a b : Int} {u} (hn : 1 < n) (hb : Rep n b u) (h : a % n = b % n) :
    Rep n a u := by
  unfold Rep at *
  rw [← hb]
  exact (ZMod.intCast_eq_intCast_iff' a b n.toNat).mpr (by rw [natCast_toNat hn]; exact h)

theorem zpow_toNat {G} [Group G] (u : G) {x : Int} (hx : 0 ≤ x) : u ^ x = u ^ x.toNat := by
  conv_lhs => rw [← Int.toNat_of_nonneg hx]
  exact zpow_natCast u _

/-! ### the commitments the library range-proves -/

/-- A single-attribute commitment made by `commit_with_commitment_pk` (the way `proof_gen` makes the
commitments it range-proves) represents `g_i^m · h^r` and is the reduced representative (`0 ≤ value < N`). -/
theorem commitWithCpk_single (hA : ArithOK) {cs : Suite} {cpk : CommitmentPK} (hn : 1 < cpk.N)
    {msgs : List Int} {unrevealed : Option (List Nat)} {i : Nat} {m gi : Int}
    {u v : (ZMod cpk.N.toNat)ˣ} (hix : unrevealed.getD (List.range msgs.length) = [i])
    (hgi : cpk.gBases[i]? = some gi) (hm : msgs[i]? = some m)
    (hg : Rep cpk.N gi u) (hh : Rep cpk.N cpk.h v) {c : Commitment} {tp tp' : List Draw}
    (h : commitWithCpk cs msgs cpk unrevealed tp = .ok (c, tp')) :
    Rep cpk.N c.value (u ^ m * v ^ c.randomness) ∧ 0 ≤ c.randomness ∧
      bitLen c.randomness = cs.ln ∧ 0 ≤ c.value ∧ c.value < cpk.N := by
  unfold commitWithCpk at h
  rw [hix] at h
  obtain ⟨r, t1, hr, H1⟩ := bind_ok_inv h
  obtain ⟨cx, t2, hcx, H2⟩ := bind_ok_inv H1
  obtain ⟨hr', t3, hhr, H3⟩ := bind_ok_inv H2
  obtain ⟨rfl, -⟩ := pure_ok_iff.mp H3
  obtain ⟨_, _, _, _, r0, rb⟩ := randomBits_ok_inv hr
  unfold prodPowIdx at hcx
  obtain ⟨a, t4, ha, K1⟩ := bind_ok_inv hcx
  obtain ⟨m', t5, hm', K2⟩ := bind_ok_inv K1
  obtain ⟨x, t6, hx, K3⟩ := bind_ok_inv K2
  unfold prodPowIdx at K3
  obtain ⟨rfl, -⟩ := pure_ok_iff.mp K3
  obtain ⟨ha, -⟩ := idx_ok_iff.mp ha
  obtain ⟨hm', -⟩ := idx_ok_iff.mp hm'
  rw [hgi] at ha; rw [hm] at hm'
  obtain rfl := Option.some.inj ha
  obtain rfl := Option.some.inj hm'
  obtain ⟨-, rx, x0, -⟩ := pw_inv hA hn hg hx
  obtain ⟨-, rh, h0, -⟩ := pw_inv hA hn hh hhr
  rw [one_mul]
  obtain ⟨rc, c0, cn⟩ := tmod_rep hn (rx.mul rh) (mul_nonneg x0 h0)
  exact ⟨rc, r0, rb, c0, cn⟩

/-- The same for `commit_with_pk` (issuance side: bases `a_i`, `b`). -/
theorem commitWithPk_single (hA : ArithOK) {cs : Suite} {pk : PublicKey} (hn : 1 < pk.N)
    {msgs bases : List Int} {unrevealed : Option (List Nat)} {i : Nat} {m ai : Int}
    {u v : (ZMod pk.N.toNat)ˣ} (hix : unrevealed.getD (List.range msgs.length) = [i])
    (hai : bases[i]? = some ai) (hm : msgs[i]? = some m)
    (hg : Rep pk.N ai u) (hh : Rep pk.N pk.b v) {c : Commitment} {tp tp' : List Draw}
    (h : commitWithPk cs msgs pk bases unrevealed tp = .ok (c, tp')) :
    Rep pk.N c.value (u ^ m * v ^ c.randomness) ∧ 0 ≤ c.randomness ∧
      bitLen c.randomness = cs.ln ∧ 0 ≤ c.value ∧ c.value < pk.N := by
  unfold commitWithPk at h
  rw [hix] at h
  obtain ⟨r, t1, hr, H1⟩ := bind_ok_inv h
  obtain ⟨cx, t2, hcx, H2⟩ := bind_ok_inv H1
  obtain ⟨hr', t3, hhr, H3⟩ := bind_ok_inv H2
  obtain ⟨rfl, -⟩ := pure_ok_iff.mp H3
  obtain ⟨_, _, _, _, r0, rb⟩ := randomBits_ok_inv hr
  unfold prodPowIdx at hcx
  obtain ⟨a, t4, ha, K1⟩ := bind_ok_inv hcx
  obtain ⟨m', t5, hm', K2⟩ := bind_ok_inv K1
  obtain ⟨x, t6, hx, K3⟩ := bind_ok_inv K2
  unfold prodPowIdx at K3
  obtain ⟨rfl, -⟩ := pure_ok_iff.mp K3
  obtain ⟨ha, -⟩ := idx_ok_iff.mp ha
  obtain ⟨hm', -⟩ := idx_ok_iff.mp hm'
  rw [hai] at ha; rw [hm] at hm'
  obtain rfl := Option.some.inj ha
  obtain rfl := Option.some.inj hm'
  obtain ⟨-, rx, x0, -⟩ := pw_inv hA hn hg hx
  obtain ⟨-, rh, h0, -⟩ := pw_inv hA hn hh hhr
  rw [one_mul]
  obtain ⟨rc, c0, cn⟩ := tmod_rep hn (rx.mul rh) (mul_nonneg x0 h0)
  exact ⟨rc, r0, rb, c0, cn⟩

/-! ### the honest prover inside `[a, b]` never panics -/

theorem bind_ne_panic {α β} {x : M α} {f : α → M β} {t : List Draw} (hx : x t ≠ .panic)
    (hf : ∀ a t', x t = .ok (a, t') → f a t' ≠ .panic) : (x >>= f) t ≠ .panic := by
  rw [bind_apply]
  cases h : x t with
  | ok p => obtain ⟨a, t'⟩ := p; exact hf a t' h
  | panic => exact absurd h hx
  | tape m => simp

theorem randInt_ne_panic (a b : Int) (t : List Draw) : randInt a b t ≠ .panic := by
  unfold randInt
  cases t with
  | nil => simp
  | cons d rest => dsimp only; split <;> [simp; (split <;> simp)]

theorem pw_ne_panic (hA : ArithOK) {n g : Int} {u} (hn : 1 < n) (hg : Rep n g u) (e : Int)
    (t : List Draw) : pw g e n t ≠ .panic := by
  obtain ⟨y, h, -⟩ := pw_rep hA hn hg e t
  rw [h]; simp

theorem ite_ne_panic {α} {c : Prop} [Decidable c] {x y : M α} {t : List Draw} (hx : x t ≠ .panic)
    (hy : y t ≠ .panic) : (if c then x else y) t ≠ .panic := by
  by_cases h : c
  · rw [if_pos h]; exact hx
  · rw [if_neg h]; exact hy

theorem pure_ne_panic {α} (a : α) (t : List Draw) : (pure a : M α) t ≠ .panic := by simp

theorem proofSameSecret_ne_panic (hA : ArithOK) {n : Int} (hn : 1 < n) {g1 h1 g2 h2 : Int}
    {u1 v1 u2 v2 : (ZMod n.toNat)ˣ} (hg1 : Rep n g1 u1) (hh1 : Rep n h1 v1) (hg2 : Rep n g2 u2)
    (hh2 : Rep n h2 v2) (x r1 r2 : Int) (l t : Nat) (b : Int) (s1 s2 : Nat) (tp : List Draw) :
    proofSameSecret x r1 r2 g1 h1 g2 h2 l t b s1 s2 n tp ≠ .panic := by
  unfold proofSameSecret
  refine bind_ne_panic (randInt_ne_panic _ _ _) fun ω _ _ => ?_
  refine bind_ne_panic (randInt_ne_panic _ _ _) fun μ1 _ _ => ?_
  refine bind_ne_panic (randInt_ne_panic _ _ _) fun μ2 _ _ => ?_
  refine bind_ne_panic (pw_ne_panic hA hn hg1 _ _) fun _ _ _ => ?_
  refine bind_ne_panic (pw_ne_panic hA hn hh1 _ _) fun _ _ _ => ?_
  refine bind_ne_panic (pw_ne_panic hA hn hg2 _ _) fun _ _ _ => ?_
  refine bind_ne_panic (pw_ne_panic hA hn hh2 _ _) fun _ _ _ => ?_
  exact pure_ne_panic _ _

theorem proofOfSquare_ne_panic (hA : ArithOK) {n : Int} (hn : 1 < n) {g h : Int}
    {u v : (ZMod n.toNat)ˣ} (hg : Rep n g u) (hh : Rep n h v) (x r1 E : Int) (l t : Nat) (b : Int)
    (s s1 s2 : Nat) (tp : List Draw) : proofOfSquare x r1 g h E l t b s s1 s2 n tp ≠ .panic := by
  unfold proofOfSquare
  refine bind_ne_panic (randInt_ne_panic _ _ _) fun r2 _ _ => ?_
  refine bind_ne_panic (pw_ne_panic hA hn hg _ _) fun a t1 ha => ?_
  refine bind_ne_panic (pw_ne_panic hA hn hh _ _) fun b' t2 hb => ?_
  obtain ⟨-, ra, a0, -⟩ := pw_inv hA hn hg ha
  obtain ⟨-, rb, b0, -⟩ := pw_inv hA hn hh hb
  obtain ⟨rF, -⟩ := tmod_rep hn (ra.mul rb) (mul_nonneg a0 b0)
  refine bind_ne_panic (proofSameSecret_ne_panic hA hn hg hh rF hh _ _ _ _ _ _ _ _ _) fun _ _ _ => ?_
  exact pure_ne_panic _ _

theorem proofLargeLoop_ne_panic (hA : ArithOK) {n : Int} (hn : 1 < n) {g h : Int}
    {u v : (ZMod n.toNat)ˣ} (hg : Rep n g u) (hh : Rep n h v) (x r : Int) (t l : Nat) (b : Int)
    (s T fuel : Nat) (tp : List Draw) : proofLargeLoop x r g h t l b s n T fuel tp ≠ .panic := by
  induction fuel generalizing tp with
  | zero => simp [proofLargeLoop]
  | succ fuel ih =>
    unfold proofLargeLoop
    refine bind_ne_panic (randInt_ne_panic _ _ _) fun w _ _ => ?_
    refine bind_ne_panic (randInt_ne_panic _ _ _) fun ν _ _ => ?_
    refine bind_ne_panic (pw_ne_panic hA hn hg _ _) fun _ _ _ => ?_
    refine bind_ne_panic (pw_ne_panic hA hn hh _ _) fun _ _ _ => ?_
    exact ite_ne_panic (pure_ne_panic _ _) (ih _)

theorem splitLoop_ne_panic (target lo hi : Int) (fuel : Nat) (tp : List Draw) :
    splitLoop target lo hi fuel tp ≠ .panic := by
  induction fuel generalizing tp with
  | zero => simp [splitLoop]
  | succ fuel ih =>
    unfold splitLoop
    refine bind_ne_panic (randInt_ne_panic _ _ _) fun r1 _ _ => ?_
    exact ite_ne_panic (pure_ne_panic _ _) (ih _)

theorem remaining_ne_panic (t : List Draw) : remaining t ≠ .panic := by simp

/-- For a value inside `[a, b]` (bases units) the honest prover never panics: on every tape it
returns a proof or reports a tape disagreement. -/
theorem rangeProve_ne_panic (hA : ArithOK) (cs : Suite) {n : Int} (hn : 1 < n) {g h x a b : Int}
    {u v : (ZMod n.toNat)ˣ} (hg : Rep n g u) (hh : Rep n h v) (c : Commitment) (hab : a < b)
    (hax : a ≤ x) (hxb : x ≤ b) (tp : List Draw) : rangeProve cs x c g h n a b tp ≠ .panic := by
  unfold rangeProve
  rw [if_neg (by omega)]
  rw [bind_of_ok (pw_apply (hA.powMod_nonneg c.value _ n (by omega) (by positivity)) tp)]
  refine bind_ne_panic ?_ fun _ _ _ => pure_ne_panic _ _
  unfold proofOfToleranceSpecific
  rw [bind_of_ok (tolBounds_ok_iff.mpr ⟨by omega, rfl, rfl⟩)]
  dsimp only
  rw [rangeT_eq]
  have h1 := (scaled_le_iff (T := tolT cs.t cs.l a b)).mpr hax
  have h2 := (scaled_le_iff (T := tolT cs.t cs.l a b)).mpr hxb
  rw [bind_of_ok (sqrtM_ok_iff.mpr ⟨by linarith, rfl, rfl⟩)]
  rw [bind_of_ok (sqrtM_ok_iff.mpr ⟨by linarith, rfl, rfl⟩)]
  refine bind_ne_panic (remaining_ne_panic _) fun k _ _ => ?_
  refine bind_ne_panic (splitLoop_ne_panic _ _ _ _ _) fun pa _ _ => ?_
  refine bind_ne_panic (splitLoop_ne_panic _ _ _ _ _) fun pb _ _ => ?_
  refine bind_ne_panic (pw_ne_panic hA hn hg _ _) fun _ _ _ => ?_
  refine bind_ne_panic (pw_ne_panic hA hn hh _ _) fun _ _ _ => ?_
  refine bind_ne_panic (pw_ne_panic hA hn hg _ _) fun _ _ _ => ?_
  refine bind_ne_panic (pw_ne_panic hA hn hh _ _) fun _ _ _ => ?_
  refine bind_ne_panic (pw_ne_panic hA hn hg _ _) fun _ _ _ => ?_
  refine bind_ne_panic (pw_ne_panic hA hn hh _ _) fun _ _ _ => ?_
  refine bind_ne_panic (pw_ne_panic hA hn hg _ _) fun _ _ _ => ?_
  refine bind_ne_panic (pw_ne_panic hA hn hh _ _) fun _ _ _ => ?_
  refine bind_ne_panic (by
    rw [sqrtM_ok_iff.mpr ⟨mul_nonneg (by positivity) (by omega), rfl, rfl⟩]; simp) fun _ _ _ => ?_
  refine bind_ne_panic (proofOfSquare_ne_panic hA hn hg hh _ _ _ _ _ _ _ _ _ _) fun _ _ _ => ?_
  refine bind_ne_panic (proofOfSquare_ne_panic hA hn hg hh _ _ _ _ _ _ _ _ _ _) fun _ _ _ => ?_
  refine bind_ne_panic ?_ fun _ _ _ => ?_
  · unfold proofLargeIntervalSpecific
    exact bind_ne_panic (remaining_ne_panic _) fun _ _ _ => proofLargeLoop_ne_panic hA hn hg hh _ _ _ _ _ _ _ _ _
  refine bind_ne_panic ?_ fun _ _ _ => pure_ne_panic _ _
  unfold proofLargeIntervalSpecific
  exact bind_ne_panic (remaining_ne_panic _) fun _ _ _ => proofLargeLoop_ne_panic hA hn hg hh _ _ _ _ _ _ _ _ _

/-! ### challenges: equal hashes, equal inputs or an event -/

theorem os2ip_foldl_inj (b b' : Bytes) (hl : b.length = b'.length) (acc acc' : Nat)
    (h : b.foldl (fun acc x => acc * 256 + x.toNat) acc
       = b'.foldl (fun acc x => acc * 256 + x.toNat) acc') : acc = acc' ∧ b = b' := by
  induction b generalizing b' acc acc' with
  | nil =>
    cases b' with
    | nil => exact ⟨by simpa using h, rfl⟩
    | cons _ _ => simp at hl
  | cons a l ih =>
    cases b' with
    | nil => simp at hl
    | cons a' l' =>
      simp only [List.foldl_cons] at h
      obtain ⟨h1, rfl⟩ := ih l' (by simpa using hl) _ _ h
      have ha := UInt8.toNat_lt a
      have ha' := UInt8.toNat_lt a'
      have e1 : acc = acc' := by omega
      have e2 : a.toNat = a'.toNat := by omega
      exact ⟨e1, by rw [UInt8.toNat_inj.mp e2]⟩

/-- Equal challenges come from equal inputs, or exhibit one of the two CL03 hash events. -/
theorem hashInts_eq_cases {l l' : List Int} (h : hashInts l = hashInts l') :
    l = l' ∨ ConcatAmbiguity ∨ ClHashCollision := by
  unfold hashInts at h
  have h1 : os2ip (sha256 (l.flatMap decimalBytes)) = os2ip (sha256 (l'.flatMap decimalBytes)) := by
    exact Int.ofNat.inj h
  have h2 := (os2ip_foldl_inj _ _ (by rw [sha256_length, sha256_length]) 0 0 h1).2
  by_cases hb : l.flatMap decimalBytes = l'.flatMap decimalBytes
  · by_cases hl : l = l'
    · exact Or.inl hl
    · exact Or.inr (Or.inl ⟨l, l', hl, hb⟩)
  · exact Or.inr (Or.inr ⟨_, _, hb, h2⟩)

theorem Rep.unit_eq {n a : Int} {u u' : (ZMod n.toNat)ˣ} (h : Rep n a u) (h' : Rep n a u') : u = u' :=
  Units.ext (h.symm.trans h')

/-- two units with a non-trivial relation `u^d·v^d' = 1` give a `RepCollision` of their
representatives -/
theorem repCollision_of_rel (hA : ArithOK) {n g h : Int} {u v : (ZMod n.toNat)ˣ} (hn : 1 < n)
    (hg : Rep n g u) (hh : Rep n h v) {d d' : Int} (hd : d ≠ 0 ∨ d' ≠ 0)
    (hrel : u ^ d * v ^ d' = 1) : RepCollision n [g, h] := by
  obtain ⟨y1, e1, r1, -⟩ := powMod_rep hA hn hg d
  obtain ⟨y2, e2, r2, -⟩ := powMod_rep hA hn hh d'
  refine ⟨[d, d'], rfl, ?_, [y1, y2], rfl, ?_, ?_⟩
  · rcases hd with hd | hd
    · exact ⟨d, by simp, hd⟩
    · exact ⟨d', by simp, hd⟩
  · intro i hi
    have : i = 0 ∨ i = 1 := by simp at hi; omega
    rcases this with rfl | rfl
    · simpa using e1
    · simpa using e2
  · have hr := r1.mul r2
    rw [hrel] at hr
    unfold Rep at hr
    have := (ZMod.intCast_eq_intCast_iff' (y1 * y2) 1 n.toNat).mp (by simpa using hr)
    rw [natCast_toNat hn] at this
    simpa using this

/-- With unit bases and unit `E`, `F`: what `verify_same_secret` accepting means. -/
theorem verifySameSecret_accept (hA : ArithOK) {n : Int} (hn : 1 < n)
    {g1 h1 g2 h2 E F : Int} {u1 v1 u2 v2 e f : (ZMod n.toNat)ˣ}
    (hg1 : Rep n g1 u1) (hh1 : Rep n h1 v1) (hg2 : Rep n g2 u2) (hh2 : Rep n h2 v2)
    (hE : Rep n E e) (hF : Rep n F f) {π : ProofSs} {tq tq' : List Draw}
    (hv : verifySameSecret E F g1 h1 g2 h2 n π tq = .ok (true, tq')) :
    ∃ lhs rhs : Int, π.challenge = hashInts [lhs, rhs] ∧
      Rep n lhs (u1 ^ π.d * v1 ^ π.d1 * e ^ (-π.challenge)) ∧
      Rep n rhs (u2 ^ π.d * v2 ^ π.d2 * f ^ (-π.challenge)) := by
  unfold verifySameSecret at hv
  obtain ⟨iE, hiE, riE, iE0, -⟩ := pw_rep hA hn hE (-π.challenge) tq
  obtain ⟨iF, hiF, riF, iF0, -⟩ := pw_rep hA hn hF (-π.challenge) tq
  obtain ⟨a, ha, ra, a0, -⟩ := pw_rep hA hn hg1 π.d tq
  obtain ⟨b, hb, rb, b0, -⟩ := pw_rep hA hn hh1 π.d1 tq
  obtain ⟨a2, ha2, ra2, a20, -⟩ := pw_rep hA hn hg2 π.d tq
  obtain ⟨b2, hb2, rb2, b20, -⟩ := pw_rep hA hn hh2 π.d2 tq
  rw [bind_of_ok hiE, bind_of_ok hiF, bind_of_ok ha, bind_of_ok hb, bind_of_ok ha2,
    bind_of_ok hb2] at hv
  obtain ⟨hc, -⟩ := pure_ok_iff.mp hv
  have hc' : π.challenge = hashInts [tmod (a * b * iE) n, tmod (a2 * b2 * iF) n] := by
    simpa using hc
  exact ⟨_, _, hc', (tmod_rep hn ((ra.mul rb).mul riE) (mul_nonneg (mul_nonneg a0 b0) iE0)).1,
    (tmod_rep hn ((ra2.mul rb2).mul riF) (mul_nonneg (mul_nonneg a20 b20) iF0)).1⟩

theorem grp_cancel {G} [CommGroup G] {u v e : G} {d d' d1 d1' c : ℤ}
    (h : u ^ d * v ^ d1 * e ^ c = u ^ d' * v ^ d1' * e ^ c) : u ^ (d - d') * v ^ (d1 - d1') = 1 := by
  have h2 : u ^ d * v ^ d1 = u ^ d' * v ^ d1' := mul_right_cancel h
  rw [zpow_sub, zpow_sub]
  calc u ^ d * (u ^ d')⁻¹ * (v ^ d1 * (v ^ d1')⁻¹)
      = (u ^ d * v ^ d1) * (u ^ d' * v ^ d1')⁻¹ := by rw [mul_inv]; ac_rfl
    _ = 1 := by rw [h2, mul_inv_cancel]

/-- **Altered responses.** Two proofs accepted by `verify_same_secret` for the same statement and
with the same challenge have the same responses, or exhibit a non-trivial relation between the
bases (`RepCollision`), or one of the two hash events. -/
theorem same_secret_binding (hA : ArithOK) {n : Int} (hn : 1 < n)
    {g1 h1 g2 h2 E F : Int} {u1 v1 u2 v2 e f : (ZMod n.toNat)ˣ}
    (hg1 : Rep n g1 u1) (hh1 : Rep n h1 v1) (hg2 : Rep n g2 u2) (hh2 : Rep n h2 v2)
    (hE : Rep n E e) (hF : Rep n F f) {π π' : ProofSs} {tq tq' tq'' : List Draw}
    (hv : verifySameSecret E F g1 h1 g2 h2 n π tq = .ok (true, tq'))
    (hv' : verifySameSecret E F g1 h1 g2 h2 n π' tq = .ok (true, tq''))
    (hc : π'.challenge = π.challenge) :
    π' = π ∨ RepCollision n [g1, h1] ∨ RepCollision n [g2, h2] ∨ ConcatAmbiguity ∨
      ClHashCollision := by
  obtain ⟨l, r, c1, rl, rr⟩ := verifySameSecret_accept hA hn hg1 hh1 hg2 hh2 hE hF hv
  obtain ⟨l', r', c2, rl', rr'⟩ := verifySameSecret_accept hA hn hg1 hh1 hg2 hh2 hE hF hv'
  rw [hc] at c2 rl' rr'
  rcases hashInts_eq_cases (c1.symm.trans c2) with heq | hev | hev
  · simp only [List.cons.injEq, and_true] at heq
    obtain ⟨rfl, rfl⟩ := heq
    have k1 := grp_cancel (rl.unit_eq rl')
    have k2 := grp_cancel (rr.unit_eq rr')
    by_cases h1 : π.d - π'.d ≠ 0 ∨ π.d1 - π'.d1 ≠ 0
    · exact Or.inr (Or.inl (repCollision_of_rel hA hn hg1 hh1 h1 k1))
    by_cases h2 : π.d - π'.d ≠ 0 ∨ π.d2 - π'.d2 ≠ 0
    · exact Or.inr (Or.inr (Or.inl (repCollision_of_rel hA hn hg2 hh2 h2 k2)))
    left
    obtain ⟨c, d, d1, d2⟩ := π
    obtain ⟨c', d', d1', d2'⟩ := π'
    simp only at h1 h2 hc
    have : d' = d := by omega
    have : d1' = d1 := by omega
    have : d2' = d2 := by omega
    subst_vars; rfl
  · exact Or.inr (Or.inr (Or.inr (Or.inl hev)))
  · exact Or.inr (Or.inr (Or.inr (Or.inr hev)))

/-- translating by a non-zero multiple of `N` leaves the interval `[0, N)`: at most one representative of a
residue class is reduced. -/
theorem shift_not_reduced {x N k : Int} (hk : k ≠ 0) (h0 : 0 ≤ x) (hx : x < N) :
    x + k * N < 0 ∨ N ≤ x + k * N := by
  have hN : 0 < N := by omega
  rcases Int.lt_or_lt_of_ne hk with hneg | hpos
  · left
    have : k * N ≤ -1 * N := Int.mul_le_mul_of_nonneg_right (by omega) (by omega)
    omega
  · right
    have : 1 * N ≤ k * N := Int.mul_le_mul_of_nonneg_right (by omega) (by omega)
    omega


/-! ### honest commitments are reduced representatives -/

theorem tmod_reduced {a n : Int} (h0 : 0 ≤ a) (hn : 0 < n) : 0 ≤ tmod a n ∧ tmod a n < n := by
  have : tmod a n = a % n := Int.tmod_eq_emod_of_nonneg h0
  rw [this]
  exact ⟨Int.emod_nonneg _ (by omega), Int.emod_lt_of_pos _ hn⟩

/-- whatever `pow_mod` returns lies in `[0, n)`. -/
theorem pw_range (hA : ArithOK) {b e n x : Int} (hn : 0 < n) {t t' : List Draw}
    (h : pw b e n t = .ok (x, t')) : 0 ≤ x ∧ x < n := by
  obtain ⟨hp, -⟩ := pw_ok_iff.mp h
  by_cases he : 0 ≤ e
  · rw [hA.powMod_nonneg b e n hn he] at hp
    obtain rfl := Option.some.inj hp
    exact ⟨Int.emod_nonneg _ (by omega), Int.emod_lt_of_pos _ hn⟩
  · rw [hA.powMod_neg b e n hn (by omega)] at hp
    cases hi : invMod b n with
    | none => rw [hi] at hp; cases hp
    | some bi =>
      rw [hi] at hp
      obtain rfl := Option.some.inj hp
      exact ⟨Int.emod_nonneg _ (by omega), Int.emod_lt_of_pos _ hn⟩

theorem prodPowIdx_nonneg (hA : ArithOK) {N : Int} (hN : 0 < N) (bases msgs : List Int) :
    ∀ (ix : List Nat) (acc x : Int) (t t' : List Draw), 0 ≤ acc →
      prodPowIdx N bases msgs ix acc t = .ok (x, t') → 0 ≤ x := by
  intro ix
  induction ix with
  | nil =>
    intro acc x t t' h0 h
    unfold prodPowIdx at h
    obtain ⟨rfl, -⟩ := pure_ok_iff.mp h
    exact h0
  | cons i is ih =>
    intro acc x t t' h0 h
    unfold prodPowIdx at h
    obtain ⟨a, t1, -, h1⟩ := bind_ok_inv h
    obtain ⟨m, t2, -, h2⟩ := bind_ok_inv h1
    obtain ⟨y, t3, hy, h3⟩ := bind_ok_inv h2
    exact ih _ _ _ _ (mul_nonneg h0 (pw_range hA hN hy).1) h3

/-- **Honest commitments are reduced** (`commit_with_commitment_pk`, any attributes, any index list): the
value is `tmod` of a product of `pow_mod` results, hence in `[0, N)`. -/
theorem commitWithCpk_reduced (hA : ArithOK) {cs : Suite} {msgs : List Int} {cpk : CommitmentPK}
    {uo : Option (List Nat)} {c : Commitment} {t t' : List Draw} (hN : 0 < cpk.N)
    (h : commitWithCpk cs msgs cpk uo t = .ok (c, t')) : 0 ≤ c.value ∧ c.value < cpk.N := by
  unfold commitWithCpk at h
  obtain ⟨r, t1, -, H1⟩ := bind_ok_inv h
  obtain ⟨cx, t2, hcx, H2⟩ := bind_ok_inv H1
  obtain ⟨hr, t3, hhr, H3⟩ := bind_ok_inv H2
  obtain ⟨rfl, -⟩ := pure_ok_iff.mp H3
  exact tmod_reduced (mul_nonneg (prodPowIdx_nonneg hA hN _ _ _ _ _ _ _ (by norm_num) hcx)
    (pw_range hA hN hhr).1) hN

/-- the same for `commit_with_pk` (bases `a_i`, `b`). -/
theorem commitWithPk_reduced (hA : ArithOK) {cs : Suite} {msgs bases : List Int} {pk : PublicKey}
    {uo : Option (List Nat)} {c : Commitment} {t t' : List Draw} (hN : 0 < pk.N)
    (h : commitWithPk cs msgs pk bases uo t = .ok (c, t')) : 0 ≤ c.value ∧ c.value < pk.N := by
  unfold commitWithPk at h
  obtain ⟨r, t1, -, H1⟩ := bind_ok_inv h
  obtain ⟨cx, t2, hcx, H2⟩ := bind_ok_inv H1
  obtain ⟨hr, t3, hhr, H3⟩ := bind_ok_inv H2
  obtain ⟨rfl, -⟩ := pure_ok_iff.mp H3
  exact tmod_reduced (mul_nonneg (prodPowIdx_nonneg hA hN _ _ _ _ _ _ _ (by norm_num) hcx)
    (pw_range hA hN hhr).1) hN

/-- the same for `commit_v` on a non-negative `v` (every accepted signature has `0 < v`). -/
theorem commitV_reduced (hA : ArithOK) {cs : Suite} {v : Int} {cpk : CommitmentPK}
    {c : Commitment} {t t' : List Draw} (hN : 0 < cpk.N) (hv : 0 ≤ v)
    (h : commitV cs v cpk t = .ok (c, t')) : 0 ≤ c.value ∧ c.value < cpk.N := by
  unfold commitV at h
  obtain ⟨w, t1, -, H1⟩ := bind_ok_inv h
  obtain ⟨g0, t2, -, H2⟩ := bind_ok_inv H1
  obtain ⟨gw, t3, hgw, H3⟩ := bind_ok_inv H2
  obtain ⟨rfl, -⟩ := pure_ok_iff.mp H3
  exact tmod_reduced (mul_nonneg hv (pw_range hA hN hgw).1) hN

end Zk.ClRange
