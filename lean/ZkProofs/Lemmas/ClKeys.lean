/-
Helpers for C18 (CL03 keys and parameters): inversion lemmas for the random-draw contracts, the
`random_qr` loop, the safe-prime loops, `keyGen`, `basesGen`, `commitmentPkGen`, and the
fixed-width digit codec of the key / signature byte encodings.
-/
import ZkProofs.Lemmas.ClMonad
import ZkProofs.Lemmas.IntArithSpec
import ZkProofs.Lemmas.Encoding
import ZkModel.ClDriver
namespace Zk.Cl.Keys
open Zk.IA Zk.Cl.ArithSpec

/-! ### small arithmetic facts -/

theorem iaGcd_eq_one_iff {a b : Int} : IA.gcd a b = 1 ↔ Int.gcd a b = 1 := by
  unfold IA.gcd
  simp only [Int.ofNat_eq_natCast]
  exact_mod_cast Iff.rfl

theorem bitLen_eq_zero_iff {v : Int} : bitLen v = 0 ↔ v = 0 := by
  unfold bitLen
  split
  · next h => simpa using h
  · next h => simpa using h

/-- a non-negative value of exactly `n ≥ 1` bits: top bit set, below `2^n`. -/
theorem bounds_of_bitLen {v : Int} {n : Nat} (hv : 0 ≤ v) (hn : 1 ≤ n) (h : bitLen v = n) :
    (2 : Int) ^ (n - 1) ≤ v ∧ v < 2 ^ n := by
  have hne : v ≠ 0 := fun h0 => by rw [bitLen_eq_zero_iff.mpr h0] at h; omega
  exact (bitLen_spec (by omega) hn).1 h

/-! ### the draw contracts -/

theorem randomBits_contract {n : Nat} {v : Int} {t rest : List Draw}
    (h : randomBits n t = .ok (v, rest)) : 0 ≤ v ∧ bitLen v = n := by
  obtain ⟨_, -, -, -, h0, hb⟩ := randomBits_ok_inv h
  exact ⟨h0, hb⟩

theorem randomNumber_contract {n v : Int} {t rest : List Draw}
    (h : randomNumber n t = .ok (v, rest)) : 0 ≤ v ∧ v < n := by
  obtain ⟨_, -, -, -, h0, hb⟩ := randomNumber_ok_inv h
  exact ⟨h0, hb⟩

theorem randInt_contract {a b v : Int} {t rest : List Draw}
    (h : randInt a b t = .ok (v, rest)) : a ≤ v ∧ v ≤ b := by
  obtain ⟨_, -, -, -, h0, hb⟩ := randInt_ok_inv h
  exact ⟨h0, hb⟩

theorem randomPrime_contract {n : Nat} {p : Int} {t rest : List Draw}
    (h : randomPrime n t = .ok (p, rest)) :
    ∃ r, 0 ≤ r ∧ bitLen r = n ∧ isNextPrime r p = true := by
  obtain ⟨r, -, h0, hb, hp⟩ := randomPrime_ok_inv h
  exact ⟨r, h0, hb, hp⟩

theorem isNextPrime_iff {r p : Int} : isNextPrime r p = true ↔
    r < p ∧ isProbablePrime p.toNat = true ∧
      ∀ k : Nat, k < (p - r - 1).toNat → isProbablePrime (r + 1 + k).toNat = false := by
  unfold isNextPrime
  simp only [Bool.and_eq_true, decide_eq_true_eq, List.all_eq_true, List.mem_range,
    Bool.not_eq_true', and_assoc]

/-! ### `random_qr` -/

/-- What `random_qr(N)` guarantees of its result: a square of some `r ∈ [0, N)` reduced modulo
`N`, greater than 1, below `N`, coprime to `N`. -/
structure GoodBase (N x : Int) : Prop where
  one_lt : 1 < x
  lt : x < N
  coprime : Int.gcd x N = 1
  sq : ∃ r, 0 ≤ r ∧ r < N ∧ x = r * r % N

theorem GoodBase.isSquareMod {N x : Int} (h : GoodBase N x) : ∃ y, y ^ 2 ≡ x [ZMOD N] := by
  obtain ⟨r, -, -, rfl⟩ := h.sq
  exact ⟨r, by rw [pow_two]; exact (Int.mod_modEq _ _).symm⟩

/-- a `GoodBase` modulo `N = p * q` is a non-zero quadratic residue modulo each factor. -/
theorem GoodBase.qr_left {N x p q : Int} (h : GoodBase N x) (hN : N = p * q) :
    (∃ y, y ^ 2 ≡ x [ZMOD p]) ∧ Int.gcd x p = 1 := by
  obtain ⟨y, hy⟩ := h.isSquareMod
  subst hN
  refine ⟨⟨y, hy.of_mul_right q⟩, ?_⟩
  have := h.coprime
  exact Nat.eq_one_of_dvd_one (this ▸ Int.gcd_dvd_gcd_mul_right_right x p q)

theorem GoodBase.qr_right {N x p q : Int} (h : GoodBase N x) (hN : N = p * q) :
    (∃ y, y ^ 2 ≡ x [ZMOD q]) ∧ Int.gcd x q = 1 :=
  h.qr_left (p := q) (q := p) (by rw [hN, mul_comm])

theorem randomQrLoop_ok {N : Int} {fuel : Nat} {t rest : List Draw} {x : Int}
    (h : randomQrLoop N fuel t = .ok (x, rest)) : GoodBase N x := by
  induction fuel generalizing t with
  | zero => simp [randomQrLoop] at h
  | succ k ih =>
    rw [randomQrLoop] at h
    obtain ⟨r, t1, hr, h⟩ := bind_ok_inv h
    obtain ⟨h0, hlt⟩ := randomNumber_contract hr
    simp only [] at h
    split at h
    · next hc =>
      obtain ⟨rfl, rfl⟩ := pure_ok_iff.mp h
      exact ⟨hc.1, Int.emod_lt_of_pos _ (by omega), iaGcd_eq_one_iff.mp hc.2, r, h0, hlt, rfl⟩
    · exact ih h

theorem randomQr_ok {N : Int} {t rest : List Draw} {x : Int}
    (h : randomQr N t = .ok (x, rest)) : GoodBase N x := by
  unfold randomQr at h
  obtain ⟨k, t1, hk, h⟩ := bind_ok_inv h
  exact randomQrLoop_ok h

/-! ### safe primes -/

/-- What one safe-prime search loop of `KeyPair::generate` guarantees of its result `p`:
`p = 2 p' + 1` where `p'` is the "next prime" after a draw `r` of exactly `n` bits, and both `p'`
and `p` pass the primality test (`isProbablePrime` is the model's stand-in for GMP's
`next_prime` / `is_probably_prime`). -/
def SafeDraw (n : Nat) (p : Int) : Prop :=
  ∃ pp r : Int, 0 ≤ r ∧ bitLen r = n ∧ isNextPrime r pp = true ∧ p = 2 * pp + 1 ∧
    isProbablePrime p.toNat = true

theorem ite_bool_ok {α} {c : Bool} {x y : M α} {t : List Draw} {r : α × List Draw}
    (h : (if c = true then x else y) t = .ok r) :
    (c = true ∧ x t = .ok r) ∨ (c = false ∧ y t = .ok r) := by
  cases c
  · exact Or.inr ⟨rfl, by simpa using h⟩
  · exact Or.inl ⟨rfl, by simpa using h⟩

theorem safePrimeLoop_ok {n : Nat} {other : Option Int} {fuel : Nat} {t rest : List Draw} {p : Int}
    (h : safePrimeLoop n other fuel t = .ok (p, rest)) :
    SafeDraw n p ∧ ∀ o, other = some o → p ≠ o := by
  induction fuel generalizing t with
  | zero => simp [safePrimeLoop] at h
  | succ k ih =>
    rw [safePrimeLoop] at h
    obtain ⟨pp, t1, hpp, h⟩ := bind_ok_inv h
    obtain ⟨r, h0, hb, hnp⟩ := randomPrime_contract hpp
    simp only [] at h
    rcases ite_bool_ok h with ⟨hc, h⟩ | ⟨hc, h⟩
    · obtain ⟨rfl, rfl⟩ := pure_ok_iff.mp h
      rw [Bool.and_eq_true] at hc
      refine ⟨⟨pp, r, h0, hb, hnp, rfl, hc.2⟩, ?_⟩
      rintro o rfl
      simpa using hc.1
    · exact ih h

/-- the two safe-prime loops of `KeyPair::generate` / `CL03CommitmentPublicKey::generate`. -/
theorem safePair_ok {n : Nat} {k1 k2 : Nat} {t t1 t2 : List Draw} {p q : Int}
    (hp : safePrimeLoop n none k1 t = .ok (p, t1))
    (hq : safePrimeLoop n (some p) k2 t1 = .ok (q, t2)) :
    SafeDraw n p ∧ SafeDraw n q ∧ p ≠ q :=
  ⟨(safePrimeLoop_ok hp).1, (safePrimeLoop_ok hq).1, fun e => (safePrimeLoop_ok hq).2 p rfl e.symm⟩

/-- size of a safe-prime draw: `p' > r ≥ 2^(n-1)`. -/
theorem SafeDraw.lower {n : Nat} {p : Int} (hn : 1 ≤ n) (h : SafeDraw n p) :
    ∃ pp : Int, p = 2 * pp + 1 ∧ (2 : Int) ^ (n - 1) < pp := by
  obtain ⟨pp, r, h0, hb, hnp, rfl, -⟩ := h
  exact ⟨pp, rfl, lt_of_le_of_lt (bounds_of_bitLen h0 hn hb).1 (isNextPrime_iff.mp hnp).1⟩

/-! ### `keyGen`, `basesGen` -/

theorem keyGen_ok {cs : Suite} {t rest : List Draw} {pk : PublicKey} {sk : SecretKey}
    (h : keyGen cs t = .ok ((pk, sk), rest)) :
    pk.N = sk.p * sk.q ∧ SafeDraw cs.secparam sk.p ∧ SafeDraw cs.secparam sk.q ∧ sk.p ≠ sk.q ∧
      GoodBase pk.N pk.b ∧ GoodBase pk.N pk.c := by
  unfold keyGen at h
  obtain ⟨k, t0, hk, h⟩ := bind_ok_inv h
  obtain ⟨p, t1, hp, h⟩ := bind_ok_inv h
  obtain ⟨q, t2, hq, h⟩ := bind_ok_inv h
  simp only [] at h
  obtain ⟨b, t3, hb, h⟩ := bind_ok_inv h
  obtain ⟨c, t4, hc, h⟩ := bind_ok_inv h
  obtain ⟨heq, -⟩ := pure_ok_iff.mp h
  simp only [Prod.mk.injEq] at heq
  obtain ⟨rfl, rfl⟩ := heq
  obtain ⟨h1, h2, h3⟩ := safePair_ok hp hq
  exact ⟨rfl, h1, h2, h3, randomQr_ok hb, randomQr_ok hc⟩

theorem basesGen_ok {pk : PublicKey} {n : Nat} {t rest : List Draw} {l : List Int}
    (h : basesGen pk n t = .ok (l, rest)) : l.length = n ∧ ∀ a ∈ l, GoodBase pk.N a := by
  induction n generalizing t l rest with
  | zero =>
    rw [basesGen] at h
    obtain ⟨rfl, -⟩ := pure_ok_iff.mp h
    simp
  | succ n ih =>
    rw [basesGen] at h
    obtain ⟨a, t1, ha, h⟩ := bind_ok_inv h
    obtain ⟨l', t2, hl, h⟩ := bind_ok_inv h
    obtain ⟨rfl, -⟩ := pure_ok_iff.mp h
    obtain ⟨h1, h2⟩ := ih hl
    refine ⟨by simp [h1], ?_⟩
    intro x hx
    rcases List.mem_cons.mp hx with rfl | hx
    · exact randomQr_ok ha
    · exact h2 x hx

/-! ### the commitment key -/

/-- What the `g_i = h^f` loop guarantees: `g` is a power of `h` modulo `N` with a drawn exponent
`f ∈ [0, N)`, greater than 1, below `N`, coprime to `N`. -/
structure InSubgroup (N h g : Int) : Prop where
  pow : ∃ f : Int, 0 ≤ f ∧ f < N ∧ g = h ^ f.toNat % N
  one_lt : 1 < g
  lt : g < N
  coprime : Int.gcd g N = 1

/-- a power of a quadratic residue is a quadratic residue. -/
theorem InSubgroup.isSquareMod {N h g : Int} (hg : InSubgroup N h g) (hh : ∃ y, y ^ 2 ≡ h [ZMOD N]) :
    ∃ y, y ^ 2 ≡ g [ZMOD N] := by
  obtain ⟨f, -, -, rfl⟩ := hg.pow
  obtain ⟨y, hy⟩ := hh
  refine ⟨y ^ f.toNat, ?_⟩
  rw [← pow_mul, mul_comm, pow_mul]
  exact (hy.pow _).trans (Int.mod_modEq _ _).symm

theorem gBaseLoop_ok {N h : Int} {fuel : Nat} {t rest : List Draw} {g : Int}
    (hr : gBaseLoop N h fuel t = .ok (g, rest)) : InSubgroup N h g := by
  induction fuel generalizing t with
  | zero => simp [gBaseLoop] at hr
  | succ k ih =>
    rw [gBaseLoop] at hr
    obtain ⟨f, t1, hf, hr⟩ := bind_ok_inv hr
    obtain ⟨x, t2, hpw, hr⟩ := bind_ok_inv hr
    obtain ⟨h0, hlt⟩ := randomNumber_contract hf
    obtain ⟨hx', -⟩ := pw_ok_iff.mp hpw
    rw [powMod_nonneg h f N (by omega) h0] at hx'
    injection hx' with hx
    split at hr
    · next hc =>
      obtain ⟨rfl, rfl⟩ := pure_ok_iff.mp hr
      exact ⟨⟨f, h0, hlt, hx.symm⟩, hc.1, hx ▸ Int.emod_lt_of_pos _ (by omega),
        iaGcd_eq_one_iff.mp hc.2⟩
    · exact ih hr

theorem gBases_ok {N h : Int} {n : Nat} {t rest : List Draw} {l : List Int}
    (hr : gBases N h n t = .ok (l, rest)) : l.length = n ∧ ∀ g ∈ l, InSubgroup N h g := by
  induction n generalizing t l rest with
  | zero =>
    rw [gBases] at hr
    obtain ⟨rfl, -⟩ := pure_ok_iff.mp hr
    simp
  | succ n ih =>
    rw [gBases] at hr
    obtain ⟨k, t0, hk, hr⟩ := bind_ok_inv hr
    obtain ⟨g, t1, hg, hr⟩ := bind_ok_inv hr
    obtain ⟨l', t2, hl, hr⟩ := bind_ok_inv hr
    obtain ⟨rfl, -⟩ := pure_ok_iff.mp hr
    obtain ⟨h1, h2⟩ := ih hl
    refine ⟨by simp [h1], ?_⟩
    intro x hx
    rcases List.mem_cons.mp hx with rfl | hx
    · exact gBaseLoop_ok hg
    · exact h2 x hx

theorem commitmentPkGen_ok {cs : Suite} {N? : Option Int} {nAttr : Option Nat} {t rest : List Draw}
    {cpk : CommitmentPK} (hr : commitmentPkGen cs N? nAttr t = .ok (cpk, rest)) :
    (match N? with
      | some N => cpk.N = N
      | none => ∃ p q, cpk.N = p * q ∧ SafeDraw cs.secparam p ∧ SafeDraw cs.secparam q ∧ p ≠ q) ∧
    GoodBase cpk.N cpk.h ∧ cpk.gBases.length = nAttr.getD 1 ∧
      ∀ g ∈ cpk.gBases, InSubgroup cpk.N cpk.h g := by
  unfold commitmentPkGen at hr
  obtain ⟨N, t1, hN, hr⟩ := bind_ok_inv hr
  obtain ⟨h, t2, hh, hr⟩ := bind_ok_inv hr
  obtain ⟨gs, t3, hgs, hr⟩ := bind_ok_inv hr
  obtain ⟨rfl, -⟩ := pure_ok_iff.mp hr
  obtain ⟨h1, h2⟩ := gBases_ok hgs
  refine ⟨?_, randomQr_ok hh, h1, h2⟩
  cases N? with
  | some N' =>
    obtain ⟨rfl, -⟩ := pure_ok_iff.mp hN
    rfl
  | none =>
    simp only [] at hN
    obtain ⟨k, t0, hk, hN⟩ := bind_ok_inv hN
    obtain ⟨p, t4, hp, hN⟩ := bind_ok_inv hN
    obtain ⟨q, t5, hq, hN⟩ := bind_ok_inv hN
    obtain ⟨rfl, -⟩ := pure_ok_iff.mp hN
    obtain ⟨g1, g2, g3⟩ := safePair_ok hp hq
    exact ⟨p, q, rfl, g1, g2, g3⟩

/-! ### signatures: sizes of `e`, `s`, `v` -/

theorem drawE_ok {cs : Suite} {phi : Int} {fuel : Nat} {t rest : List Draw} {e : Int}
    (h : drawE cs phi fuel t = .ok (e, rest)) :
    (2 : Int) ^ (cs.le - 1) < e ∧ e < 2 ^ cs.le ∧ Int.gcd e phi = 1 ∧
      ∃ r, 0 ≤ r ∧ bitLen r = cs.le ∧ isNextPrime r e = true := by
  induction fuel generalizing t with
  | zero => simp [drawE] at h
  | succ k ih =>
    rw [drawE] at h
    obtain ⟨e', t1, he, h⟩ := bind_ok_inv h
    split at h
    · next hc =>
      obtain ⟨rfl, rfl⟩ := pure_ok_iff.mp h
      exact ⟨hc.1, hc.2.1, iaGcd_eq_one_iff.mp hc.2.2, randomPrime_contract he⟩
    · exact ih h

/-- the shape of a signature: what `sign` / `sign_multiattr` guarantee of `(e, s, v)`. -/
structure SigShape (cs : Suite) (pk : PublicKey) (sk : SecretKey) (σ : Signature) : Prop where
  e_gt : (2 : Int) ^ (cs.le - 1) < σ.e
  e_lt : σ.e < 2 ^ cs.le
  e_coprime : Int.gcd σ.e ((sk.p - 1) * (sk.q - 1)) = 1
  e_prime : ∃ r, 0 ≤ r ∧ bitLen r = cs.le ∧ isNextPrime r σ.e = true
  s_nonneg : 0 ≤ σ.s
  s_bits : bitLen σ.s = cs.ls
  v_nonneg : 0 ≤ σ.v
  v_lt : σ.v < pk.N

theorem sign_shape {cs : Suite} {pk : PublicKey} {sk : SecretKey} {bases : List Int} {msg : Int}
    {t rest : List Draw} {σ : Signature} (h : sign cs pk sk bases msg t = .ok (σ, rest)) :
    SigShape cs pk sk σ := by
  unfold sign at h
  obtain ⟨k, t0, hk, h⟩ := bind_ok_inv h
  obtain ⟨e, t1, he, h⟩ := bind_ok_inv h
  obtain ⟨s, t2, hs, h⟩ := bind_ok_inv h
  obtain ⟨e2n, t3, he2, h⟩ := bind_ok_inv h
  obtain ⟨a0, t4, ha0, h⟩ := bind_ok_inv h
  obtain ⟨am, t5, ham, h⟩ := bind_ok_inv h
  obtain ⟨bs, t6, hbs, h⟩ := bind_ok_inv h
  obtain ⟨v, t7, hv, h⟩ := bind_ok_inv h
  obtain ⟨rfl, -⟩ := pure_ok_iff.mp h
  obtain ⟨e1, e2, e3, e4⟩ := drawE_ok he
  obtain ⟨s1, s2⟩ := randomBits_contract hs
  obtain ⟨v1, v2⟩ := powMod_range (pw_ok_iff.mp hv).1
  exact ⟨e1, e2, e3, e4, s1, s2, v1, v2⟩

theorem signMultiattr_shape {cs : Suite} {pk : PublicKey} {sk : SecretKey} {bases msgs : List Int}
    {t rest : List Draw} {σ : Signature} (h : signMultiattr cs pk sk bases msgs t = .ok (σ, rest)) :
    SigShape cs pk sk σ := by
  unfold signMultiattr at h
  obtain ⟨k, t0, hk, h⟩ := bind_ok_inv h
  obtain ⟨e, t1, he, h⟩ := bind_ok_inv h
  obtain ⟨s, t2, hs, h⟩ := bind_ok_inv h
  obtain ⟨e2n, t3, he2, h⟩ := bind_ok_inv h
  obtain ⟨v0, t4, hv0, h⟩ := bind_ok_inv h
  obtain ⟨bs, t6, hbs, h⟩ := bind_ok_inv h
  obtain ⟨v, t7, hv, h⟩ := bind_ok_inv h
  obtain ⟨rfl, -⟩ := pure_ok_iff.mp h
  obtain ⟨e1, e2, e3, e4⟩ := drawE_ok he
  obtain ⟨s1, s2⟩ := randomBits_contract hs
  obtain ⟨v1, v2⟩ := powMod_range (pw_ok_iff.mp hv).1
  exact ⟨e1, e2, e3, e4, s1, s2, v1, v2⟩

/-! ### the digit codec (`write_digits` / `from_digits`, `Order::MsfBe`) -/

open Zk.ClDriver in
theorem toDigits_ok_iff {len : Nat} {x : Int} {t t' : List Draw} {b : Bytes} :
    toDigits len x t = .ok (b, t') ↔
      0 ≤ x ∧ x < 256 ^ len ∧ b = i2osp len x.toNat ∧ t' = t := by
  unfold toDigits
  have hc : ∀ (hx : 0 ≤ x), (x.toNat ≥ 256 ^ len ↔ (256 : Int) ^ len ≤ x) := by
    intro hx
    rw [ge_iff_le, ← Int.ofNat_le, Int.toNat_of_nonneg hx]
    push_cast
    rfl
  split
  · next h =>
    simp only [panic_apply]
    refine ⟨fun hh => (by cases hh), ?_⟩
    rintro ⟨h0, h1, -⟩
    rcases h with h | h
    · omega
    · have := (hc h0).mp h; omega
  · next h =>
    rw [not_or] at h
    have h0 : 0 ≤ x := by omega
    have h1 : x < 256 ^ len := by
      have := mt (hc h0).mpr h.2; omega
    rw [pure_ok_iff]
    constructor
    · rintro ⟨rfl, rfl⟩; exact ⟨h0, h1, rfl, rfl⟩
    · rintro ⟨-, -, rfl, rfl⟩; exact ⟨rfl, rfl⟩

open Zk.ClDriver in
/-- **fixed-width big-endian digits round-trip.** -/
theorem digits_roundtrip {len : Nat} {x : Int} (h0 : 0 ≤ x) (h1 : x < 256 ^ len) :
    ofDigits (i2osp len x.toNat) = x ∧ (i2osp len x.toNat).length = len := by
  refine ⟨?_, i2osp_length _ _⟩
  unfold ofDigits
  have : x.toNat < 256 ^ len := by
    rw [← Int.ofNat_lt, Int.toNat_of_nonneg h0]; push_cast; exact h1
  rw [os2ip_i2osp this]
  exact Int.toNat_of_nonneg h0

open Zk.ClDriver in
/-- `to_digits` (minimal length) round-trips for non-negative values. -/
theorem minimalDigits_roundtrip {x : Int} (h0 : 0 ≤ x) : ofDigits (minimalDigits x) = x := by
  unfold minimalDigits ofDigits
  have hlt : x < 2 ^ bitLen x := lt_two_pow_of_bitLen h0 rfl
  have hle : (2 : Int) ^ bitLen x ≤ 256 ^ ((bitLen x + 7) / 8) := by
    have : (256 : Int) = 2 ^ 8 := by norm_num
    rw [this, ← pow_mul]
    exact pow_le_pow_right₀ (by norm_num) (by omega)
  have : x.natAbs < 256 ^ ((bitLen x + 7) / 8) := by
    rw [← Int.ofNat_lt, Int.natCast_natAbs, abs_of_nonneg h0]; push_cast; omega
  rw [os2ip_i2osp this]
  simp [abs_of_nonneg h0]

/-! ### the byte encodings, as `ZkModel/ClDriver.lean` runs them

The driver has these inline in `runOp` (`cl.pkbytes`, `cl.pkfrombytes`, `cl.skbytes`, …); they are
restated here verbatim as functions (a `none` is the driver's `"panic"`). -/

open Zk.ClDriver

/-- `CL03PublicKey::to_bytes`: `N ‖ b ‖ c`, each `ln` BYTES (sic) big-endian. -/
def pkToBytes (cs : Suite) (pk : PublicKey) : M Bytes := do
  let a ← toDigits cs.ln pk.N; let b ← toDigits cs.ln pk.b; let c ← toDigits cs.ln pk.c
  pure (a ++ b ++ c)

/-- `CL03PublicKey::from_bytes`. -/
def pkFromBytes (cs : Suite) (b : Bytes) : Option PublicKey :=
  let n := cs.ln
  if b.length < 3 * n ∨ (b.length - 3 * n) % n ≠ 0 then none
  else some ⟨ofDigits (b.take n), ofDigits ((b.drop n).take n), ofDigits ((b.drop (2 * n)).take n)⟩

/-- `CL03SecretKey::to_bytes`: `p ‖ q`, each `SECPARAM / 8 + 1` bytes. -/
def skToBytes (cs : Suite) (sk : SecretKey) : M Bytes := do
  let a ← toDigits (cs.secparam / 8 + 1) sk.p; let b ← toDigits (cs.secparam / 8 + 1) sk.q
  pure (a ++ b)

/-- `CL03SecretKey::from_bytes`. -/
def skFromBytes (cs : Suite) (b : Bytes) : Option SecretKey :=
  let d := cs.secparam / 8 + 1
  if b.length < 2 * d then none
  else some ⟨ofDigits (b.take d), ofDigits ((b.drop d).take d)⟩

/-- `Signature::<CL03<CS>>::to_bytes`: `e` (`le` bytes) `‖ s` (`ls` bytes) `‖ v` (minimal). -/
def sigToBytes (cs : Suite) (σ : Signature) : M Bytes := do
  let a ← toDigits cs.le σ.e; let b ← toDigits cs.ls σ.s
  pure (a ++ b ++ minimalDigits σ.v)

/-- `Signature::<CL03<CS>>::from_bytes`. -/
def sigFromBytes (cs : Suite) (b : Bytes) : Option Signature :=
  if b.length < cs.le + cs.ls then none
  else some ⟨ofDigits (b.take cs.le), ofDigits ((b.drop cs.le).take cs.ls),
    ofDigits (b.drop (cs.le + cs.ls))⟩

theorem pkToBytes_ok_iff {cs : Suite} {pk : PublicKey} {t t' : List Draw} {bs : Bytes} :
    pkToBytes cs pk t = .ok (bs, t') ↔
      (0 ≤ pk.N ∧ pk.N < 256 ^ cs.ln) ∧ (0 ≤ pk.b ∧ pk.b < 256 ^ cs.ln) ∧
      (0 ≤ pk.c ∧ pk.c < 256 ^ cs.ln) ∧
      bs = i2osp cs.ln pk.N.toNat ++ i2osp cs.ln pk.b.toNat ++ i2osp cs.ln pk.c.toNat ∧ t' = t := by
  unfold pkToBytes
  constructor
  · intro h
    obtain ⟨a, t1, ha, h1⟩ := bind_ok_inv h
    obtain ⟨b, t2, hb, h2⟩ := bind_ok_inv h1
    obtain ⟨c, t3, hc, h3⟩ := bind_ok_inv h2
    clear h h1 h2
    obtain ⟨a0, a1, rfl, rfl⟩ := toDigits_ok_iff.mp ha
    obtain ⟨b0, b1, rfl, rfl⟩ := toDigits_ok_iff.mp hb
    obtain ⟨c0, c1, rfl, rfl⟩ := toDigits_ok_iff.mp hc
    obtain ⟨rfl, rfl⟩ := pure_ok_iff.mp h3
    exact ⟨⟨a0, a1⟩, ⟨b0, b1⟩, ⟨c0, c1⟩, rfl, rfl⟩
  · rintro ⟨⟨a0, a1⟩, ⟨b0, b1⟩, ⟨c0, c1⟩, rfl, rfl⟩
    rw [bind_of_ok (toDigits_ok_iff.mpr ⟨a0, a1, rfl, rfl⟩),
      bind_of_ok (toDigits_ok_iff.mpr ⟨b0, b1, rfl, rfl⟩),
      bind_of_ok (toDigits_ok_iff.mpr ⟨c0, c1, rfl, rfl⟩)]
    rfl

theorem skToBytes_ok_iff {cs : Suite} {sk : SecretKey} {t t' : List Draw} {bs : Bytes} :
    skToBytes cs sk t = .ok (bs, t') ↔
      (0 ≤ sk.p ∧ sk.p < 256 ^ (cs.secparam / 8 + 1)) ∧
      (0 ≤ sk.q ∧ sk.q < 256 ^ (cs.secparam / 8 + 1)) ∧
      bs = i2osp (cs.secparam / 8 + 1) sk.p.toNat ++ i2osp (cs.secparam / 8 + 1) sk.q.toNat ∧
      t' = t := by
  unfold skToBytes
  constructor
  · intro h
    obtain ⟨a, t1, ha, h1⟩ := bind_ok_inv h
    obtain ⟨b, t2, hb, h2⟩ := bind_ok_inv h1
    clear h h1
    obtain ⟨a0, a1, rfl, rfl⟩ := toDigits_ok_iff.mp ha
    obtain ⟨b0, b1, rfl, rfl⟩ := toDigits_ok_iff.mp hb
    obtain ⟨rfl, rfl⟩ := pure_ok_iff.mp h2
    exact ⟨⟨a0, a1⟩, ⟨b0, b1⟩, rfl, rfl⟩
  · rintro ⟨⟨a0, a1⟩, ⟨b0, b1⟩, rfl, rfl⟩
    rw [bind_of_ok (toDigits_ok_iff.mpr ⟨a0, a1, rfl, rfl⟩),
      bind_of_ok (toDigits_ok_iff.mpr ⟨b0, b1, rfl, rfl⟩)]
    rfl

theorem sigToBytes_ok_iff {cs : Suite} {σ : Signature} {t t' : List Draw} {bs : Bytes} :
    sigToBytes cs σ t = .ok (bs, t') ↔
      (0 ≤ σ.e ∧ σ.e < 256 ^ cs.le) ∧ (0 ≤ σ.s ∧ σ.s < 256 ^ cs.ls) ∧
      bs = i2osp cs.le σ.e.toNat ++ i2osp cs.ls σ.s.toNat ++ minimalDigits σ.v ∧ t' = t := by
  unfold sigToBytes
  constructor
  · intro h
    obtain ⟨a, t1, ha, h1⟩ := bind_ok_inv h
    obtain ⟨b, t2, hb, h2⟩ := bind_ok_inv h1
    clear h h1
    obtain ⟨a0, a1, rfl, rfl⟩ := toDigits_ok_iff.mp ha
    obtain ⟨b0, b1, rfl, rfl⟩ := toDigits_ok_iff.mp hb
    obtain ⟨rfl, rfl⟩ := pure_ok_iff.mp h2
    exact ⟨⟨a0, a1⟩, ⟨b0, b1⟩, rfl, rfl⟩
  · rintro ⟨⟨a0, a1⟩, ⟨b0, b1⟩, rfl, rfl⟩
    rw [bind_of_ok (toDigits_ok_iff.mpr ⟨a0, a1, rfl, rfl⟩),
      bind_of_ok (toDigits_ok_iff.mpr ⟨b0, b1, rfl, rfl⟩)]
    rfl

/-- splitting `a ‖ b ‖ rest` with `|a| = n`, `|b| = m`. -/
theorem split3 {α} {a b c : List α} {n m : Nat} (ha : a.length = n) (hb : b.length = m) :
    (a ++ b ++ c).take n = a ∧ ((a ++ b ++ c).drop n).take m = b ∧ (a ++ b ++ c).drop (n + m) = c := by
  rw [List.append_assoc]
  refine ⟨List.take_left' ha, ?_, ?_⟩
  · rw [List.drop_left' ha, List.take_left' hb]
  · rw [← List.drop_drop, List.drop_left' ha, List.drop_left' hb]

end Zk.Cl.Keys
