/-
Index bookkeeping of the proof functions (no algebra beyond commutative sums):
`sortDedup`, `getRemainingIndexes`, `getMessages`, `sumIndexed`, and the partition of
`Σ_{i<L}` into disclosed and undisclosed positions.
-/
import Mathlib.Algebra.BigOperators.Group.List.Basic
import Mathlib.Algebra.Module.Basic
import Mathlib.Data.List.Nodup
import Mathlib.Data.List.GetD
import Mathlib.Tactic.Abel
import Mathlib.Data.List.Perm.Lattice
import Mathlib.Data.List.Range
import ZkModel.L1.Bbs
set_option linter.unusedSectionVars false
set_option linter.unusedSimpArgs false
namespace Zk
open Res

/-! ### `dedupAdj`, `sortDedup` -/

theorem mem_dedupAdj (i : Nat) : ∀ l : List Nat, i ∈ dedupAdj l ↔ i ∈ l
  | [] => by simp [dedupAdj]
  | [a] => by simp [dedupAdj]
  | a :: b :: rest => by
    have ih := mem_dedupAdj i (b :: rest)
    unfold dedupAdj
    split
    · rename_i hab; subst hab; rw [ih]; simp
    · rw [List.mem_cons, ih, List.mem_cons (a := i) (b := a)]

theorem dedupAdj_sorted : ∀ l : List Nat, l.Pairwise (· ≤ ·) → (dedupAdj l).Pairwise (· < ·)
  | [], _ => by simp [dedupAdj]
  | [a], _ => by simp [dedupAdj]
  | a :: b :: rest, h => by
    have h' := List.pairwise_cons.mp h
    have ih := dedupAdj_sorted (b :: rest) h'.2
    unfold dedupAdj
    split
    · exact ih
    · rename_i hab
      refine List.pairwise_cons.mpr ⟨?_, ih⟩
      intro x hx
      rw [mem_dedupAdj] at hx
      have hax := h'.1 x hx
      rcases List.mem_cons.mp hx with rfl | hx'
      · omega
      · have hb := (List.pairwise_cons.mp h'.2).1 x hx'
        have := h'.1 b (by simp)
        omega

theorem dedupAdj_eq_self : ∀ l : List Nat, l.Pairwise (· < ·) → dedupAdj l = l
  | [], _ => by simp [dedupAdj]
  | [a], _ => by simp [dedupAdj]
  | a :: b :: rest, h => by
    have h' := List.pairwise_cons.mp h
    have ih := dedupAdj_eq_self (b :: rest) h'.2
    have hab : a ≠ b := by have := h'.1 b (by simp); omega
    unfold dedupAdj
    rw [if_neg hab, ih]

theorem mergeSort_le_sorted (l : List Nat) : (l.mergeSort (· ≤ ·)).Pairwise (· ≤ ·) := by
  have := List.pairwise_mergeSort (le := fun a b : Nat => decide (a ≤ b))
    (by intro a b c; simp only [decide_eq_true_eq]; omega)
    (by intro a b; simp only [Bool.or_eq_true, decide_eq_true_eq]; omega) l
  exact this.imp (by intro a b h; simpa using h)

/-- `sort(); dedup()` yields a strictly ascending list. -/
theorem sortDedup_sorted (l : List Nat) : (sortDedup l).Pairwise (· < ·) :=
  dedupAdj_sorted _ (mergeSort_le_sorted l)

theorem sortDedup_nodup (l : List Nat) : (sortDedup l).Nodup :=
  (sortDedup_sorted l).imp (fun h => Nat.ne_of_lt h)

/-- … with the same members as the input. -/
@[simp] theorem mem_sortDedup {i : Nat} {l : List Nat} : i ∈ sortDedup l ↔ i ∈ l := by
  unfold sortDedup; rw [mem_dedupAdj, List.mem_mergeSort]

/-- `sort(); dedup()` is the identity on strictly ascending lists. -/
theorem sortDedup_eq_self {l : List Nat} (h : l.Pairwise (· < ·)) : sortDedup l = l := by
  unfold sortDedup
  rw [List.mergeSort_of_pairwise (h.imp (by intro a b hab; simpa using Nat.le_of_lt hab))]
  exact dedupAdj_eq_self l h

theorem sortDedup_idem (l : List Nat) : sortDedup (sortDedup l) = sortDedup l :=
  sortDedup_eq_self (sortDedup_sorted l)

@[simp] theorem sortDedup_nil : sortDedup [] = [] := by simp [sortDedup, dedupAdj]

/-- A duplicate-free list of numbers below `L` has at most `L` entries. -/
theorem length_le_of_nodup_lt {D : List Nat} {L : Nat} (hn : D.Nodup) (hlt : ∀ i ∈ D, i < L) :
    D.length ≤ L := by
  have hs : D ⊆ List.range L := fun i hi => List.mem_range.mpr (hlt i hi)
  have := (List.subperm_of_subset hn hs).length_le
  simpa using this

theorem sortDedup_length_le {D : List Nat} {L : Nat} (hlt : ∀ i ∈ D, i < L) :
    (sortDedup D).length ≤ L :=
  length_le_of_nodup_lt (sortDedup_nodup D) (fun i hi => hlt i (mem_sortDedup.mp hi))

/-! ### `getRemainingIndexes` -/

theorem mem_getRemainingIndexes {L : Nat} {D : List Nat} {i : Nat} :
    i ∈ getRemainingIndexes L D ↔ i < L ∧ i ∉ D := by
  simp [getRemainingIndexes]

theorem getRemainingIndexes_sorted (L : Nat) (D : List Nat) :
    (getRemainingIndexes L D).Pairwise (· < ·) := by
  unfold getRemainingIndexes
  exact List.Pairwise.filter _ List.pairwise_lt_range

theorem getRemainingIndexes_nodup (L : Nat) (D : List Nat) : (getRemainingIndexes L D).Nodup :=
  (getRemainingIndexes_sorted L D).imp (fun h => Nat.ne_of_lt h)

/-- The positions below `L` split into those in `D` and the remaining ones. -/
theorem range_perm_append {L : Nat} {D : List Nat} (hn : D.Nodup) (hlt : ∀ i ∈ D, i < L) :
    (List.range L).Perm (D ++ getRemainingIndexes L D) := by
  refine (List.perm_ext_iff_of_nodup List.nodup_range ?_).mpr ?_
  · refine List.nodup_append.mpr ⟨hn, getRemainingIndexes_nodup L D, ?_⟩
    intro a ha b hb hab
    subst hab
    exact (mem_getRemainingIndexes.mp hb).2 ha
  · intro i
    rw [List.mem_append, mem_getRemainingIndexes, List.mem_range]
    constructor
    · intro h; by_cases hi : i ∈ D
      · exact Or.inl hi
      · exact Or.inr ⟨h, hi⟩
    · rintro (h | h)
      · exact hlt i h
      · exact h.1

theorem length_getRemainingIndexes {L : Nat} {D : List Nat} (hn : D.Nodup)
    (hlt : ∀ i ∈ D, i < L) : (getRemainingIndexes L D).length = L - D.length := by
  have := (range_perm_append hn hlt).length_eq
  simp only [List.length_range, List.length_append] at this
  omega

/-- **Partition.** A sum over all positions `< L` is the sum over `D` plus the sum over the
remaining positions (any commutative target). -/
theorem sum_range_eq_add_remaining {M : Type} [AddCommMonoid M] (f : Nat → M) {L : Nat}
    {D : List Nat} (hn : D.Nodup) (hlt : ∀ i ∈ D, i < L) :
    ((List.range L).map f).sum = (D.map f).sum + ((getRemainingIndexes L D).map f).sum := by
  rw [((range_perm_append hn hlt).map f).sum_eq, List.map_append, List.sum_append]

/-- A sum over two zipped lists of equal length as a sum over positions. -/
theorem sum_zip_eq_sum_range {M A B : Type} [AddCommMonoid M] (g : A × B → M) (a : A) (b : B)
    (as : List A) (bs : List B) (hlen : as.length = bs.length) :
    ((as.zip bs).map g).sum = ((List.range as.length).map fun i => g (as.getD i a, bs.getD i b)).sum := by
  congr 1
  apply List.ext_getElem
  · simp [hlen]
  · intro i h1 h2
    simp only [List.length_map, List.length_zip, List.length_range] at h1 h2
    have h3 : i < as.length := by omega
    have h4 : i < bs.length := by omega
    simp [List.getD_eq_getElem, h3, h4]

/-! ### `getMessages` -/

theorem getMessages_ok {α} (msgs : List α) (d : α) :
    ∀ idxs : List Nat, (∀ i ∈ idxs, i < msgs.length) →
      getMessages msgs idxs = .ok (idxs.map fun i => msgs.getD i d)
  | [], _ => rfl
  | i :: is, h => by
    have hi : i < msgs.length := h i (by simp)
    have ih := getMessages_ok msgs d is (fun j hj => h j (by simp [hj]))
    unfold getMessages at ih ⊢
    simp only [mapRes, idx, List.getElem?_eq_getElem hi, Res.ofOptPanic, ih, List.map_cons,
      List.getD_eq_getElem _ _ hi]

theorem getMessages_panic {α} (msgs : List α) :
    ∀ idxs : List Nat, (∃ i ∈ idxs, msgs.length ≤ i) → getMessages msgs idxs = .panic
  | [], h => by simp at h
  | i :: is, h => by
    unfold getMessages
    by_cases hi : i < msgs.length
    · have h' : ∃ j ∈ is, msgs.length ≤ j := by
        obtain ⟨j, hj, hjl⟩ := h
        rcases List.mem_cons.mp hj with rfl | hj'
        · omega
        · exact ⟨j, hj', hjl⟩
      have ih := getMessages_panic msgs is h'
      unfold getMessages at ih
      simp only [mapRes, idx, List.getElem?_eq_getElem hi, Res.ofOptPanic, ih]
    · simp only [mapRes, idx, List.getElem?_eq_none (Nat.le_of_not_lt hi), Res.ofOptPanic]

/-- `getMessages` never returns `Err`, and succeeds exactly when all indexes are in range. -/
theorem getMessages_ok_iff {α} (msgs : List α) (d : α) (idxs : List Nat) (out : List α) :
    getMessages msgs idxs = .ok out ↔
      (∀ i ∈ idxs, i < msgs.length) ∧ out = idxs.map fun i => msgs.getD i d := by
  constructor
  · intro h
    by_cases hall : ∀ i ∈ idxs, i < msgs.length
    · rw [getMessages_ok msgs d idxs hall] at h
      exact ⟨hall, (Res.ok.inj h).symm⟩
    · have : ∃ i ∈ idxs, msgs.length ≤ i := by
        by_contra hc
        exact hall (fun i hi => Nat.lt_of_not_le (fun hle => hc ⟨i, hi, hle⟩))
      rw [getMessages_panic msgs idxs this] at h; cases h
  · rintro ⟨hall, rfl⟩; exact getMessages_ok msgs d idxs hall

theorem getMessages_length {α} (msgs : List α) (idxs : List Nat) (out : List α)
    (h : getMessages msgs idxs = .ok out) : out.length = idxs.length := by
  cases msgs with
  | nil =>
    cases idxs with
    | nil => cases h; rfl
    | cons i is => rw [getMessages_panic [] (i :: is) ⟨i, by simp, by simp⟩] at h; cases h
  | cons d _ =>
    rw [((getMessages_ok_iff _ d idxs out).mp h).2, List.length_map]

/-! ### `mapRes` (used by `messagesToScalar`) -/

theorem mapRes_ok_getD {α β} (f : α → Res β) (a : α) (b : β) :
    ∀ (l : List α) (out : List β), mapRes f l = .ok out →
      out.length = l.length ∧ ∀ i, i < l.length → f (l.getD i a) = .ok (out.getD i b)
  | [], out, h => by
    simp only [mapRes] at h; cases h; simp
  | x :: xs, out, h => by
    simp only [mapRes] at h
    cases hx : f x with
    | err => rw [hx] at h; cases h
    | panic => rw [hx] at h; cases h
    | ok y =>
      rw [hx] at h; simp only at h
      cases hxs : mapRes f xs with
      | err => rw [hxs] at h; cases h
      | panic => rw [hxs] at h; cases h
      | ok ys =>
        rw [hxs] at h; simp only at h; cases h
        obtain ⟨h1, h2⟩ := mapRes_ok_getD f a b xs ys hxs
        refine ⟨by simp [h1], ?_⟩
        intro i hi
        cases i with
        | zero => simpa using hx
        | succ j => simpa using h2 j (by simpa using hi)

/-- `mapRes f` of a selection of entries is the same selection of the results. -/
theorem mapRes_map_getD {α β} (f : α → Res β) (a : α) (b : β) (l : List α) (out : List β)
    (h : mapRes f l = .ok out) :
    ∀ idxs : List Nat, (∀ i ∈ idxs, i < l.length) →
      mapRes f (idxs.map fun i => l.getD i a) = .ok (idxs.map fun i => out.getD i b)
  | [], _ => rfl
  | i :: is, hr => by
    have ih := mapRes_map_getD f a b l out h is (fun j hj => hr j (by simp [hj]))
    have hi := (mapRes_ok_getD f a b l out h).2 i (hr i (by simp))
    simp only [List.map_cons, mapRes, hi, ih]

/-! ### `sumIndexed` -/

section
variable {S G1 : Type} [CommSemiring S] [AddCommMonoid G1] [Module S G1]

/-- `sumIndexed` adds `Σ_j ss[j] • Hs[idxs[j]]` to the accumulator. -/
theorem sumIndexed_ok (Hs : List G1) :
    ∀ (idxs : List Nat) (ss : List S) (acc : G1), ss.length ≤ idxs.length →
      (∀ i ∈ idxs.take ss.length, i < Hs.length) →
      sumIndexed Hs acc idxs ss
        = .ok (acc + ((idxs.zip ss).map fun p => p.2 • Hs.getD p.1 0).sum)
  | _, [], acc, _, _ => by simp [sumIndexed]
  | [], _ :: _, _, h, _ => by simp at h
  | i :: is, s :: ss, acc, hlen, hr => by
    have hi : i < Hs.length := hr i (by simp)
    have ih := sumIndexed_ok Hs is ss (acc + s • Hs[i]) (by simpa using hlen)
      (fun j hj => hr j (by simp [hj]))
    simp only [sumIndexed, List.getElem?_eq_getElem hi, ih, List.zip_cons_cons, List.map_cons,
      List.sum_cons, List.getD_eq_getElem _ _ hi, add_assoc]

/-- Too few indexes: the Rust indexes past the end of `idxs` and panics. -/
theorem sumIndexed_panic_of_short (Hs : List G1) :
    ∀ (idxs : List Nat) (ss : List S) (acc : G1), idxs.length < ss.length →
      (∀ i ∈ idxs, i < Hs.length) → sumIndexed Hs acc idxs ss = .panic
  | _, [], _, h, _ => by simp at h
  | [], _ :: _, _, _, _ => by simp [sumIndexed]
  | i :: is, s :: ss, acc, hlen, hr => by
    have hi : i < Hs.length := hr i (by simp)
    have ih := sumIndexed_panic_of_short Hs is ss (acc + s • Hs[i]) (by simpa using hlen)
      (fun j hj => hr j (by simp [hj]))
    simp only [sumIndexed, List.getElem?_eq_getElem hi, ih]

/-- Zipping indexes with the values read at these indexes. -/
theorem sum_zip_map_self (f : Nat → G1) (m : Nat → S) (D : List Nat) :
    ((D.zip (D.map m)).map fun p => p.2 • f p.1).sum = (D.map fun d => m d • f d).sum := by
  induction D with
  | nil => simp
  | cons d D ih => simp only [List.map_cons, List.zip_cons_cons, List.sum_cons, ih]

/-- The responses `m̂_j = m̃_j + m_{u_j} c` summed against the generators. -/
theorem sum_zip_mCap (f : Nat → G1) (m : Nat → S) (c : S) :
    ∀ (U : List Nat) (mT : List S), U.length ≤ mT.length →
      ((U.zip ((mT.zip (U.map m)).map fun tm => tm.1 + tm.2 * c)).map fun p => p.2 • f p.1).sum
        = ((U.zip mT).map fun p => p.2 • f p.1).sum + c • (U.map fun u => m u • f u).sum
  | [], _, _ => by simp
  | u :: U, [], h => by simp at h
  | u :: U, t :: mT, h => by
    have ih := sum_zip_mCap f m c U mT (by simpa using h)
    simp only [List.map_cons, List.zip_cons_cons, List.sum_cons, ih, smul_add, add_smul,
      smul_smul, mul_comm (m u) c]
    abel

end
end Zk
