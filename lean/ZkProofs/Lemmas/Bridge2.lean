/-
Helpers for the second part of the bridge (`ZkProofs/Props/ConcreteBridge2.lean`).

* RAW versions (core classes only, no laws: they make sense for the executable instance
  `Fr / G1Pt / G2Pt`) of the algebraic predicates that occur in the CONCLUSIONS of the abstract
  soundness theorems: `linRaw` (`Sound.lin`), `initOfRaw` (`Sound.initOf`), `ResponseRelationRaw`
  (`C04Bytes.ResponseRelation`), `linZRaw` (`Sound.linZ`), `CbarRaw` (`Sound.Cbar`), `CommitRelationRaw`
  (`C06Bytes.CommitRelation`), `GeneratorCoincidenceRaw` (`C06Bytes.GeneratorCoincidence`), and the
  lemmas that move the abstract predicates to the raw ones along a `Transfer.Hom` (`lin_nat`,
  `initOf_nat`, `responseRelation_nat`, `linZ_nat`, `Cbar_nat`, `commitRelation_nat`,
  `generatorCoincidence_nat`).
* Raw inversion of `coreProofVerify` / `coreCommitVerify` (the challenge equation), and the theorems of
  C04 / C06 that use no law, re-proved for EVERY instance of the model's signature (same proofs):
  `raw_tamper_challenge` (with the map `challengeMap`), `raw_commit_tamper_challenge`,
  `raw_deserializeAndValidateCommit_ok`, `raw_blind_sign_requires_valid_commit`,
  `raw_blind_sign_refuses`.
* `Hom.reprogram`: re-programming `expand` (the random oracle behind `hash_to_scalar`) on both sides
  of a homomorphism; `ProofInitResult.map_injective`.
-/
import ZkProofs.Props.ConcreteBridge
import ZkProofs.Props.C04Bytes
import ZkProofs.Props.C06Bytes
set_option linter.unusedSectionVars false
set_option linter.unusedVariables false

namespace Zk.Bridge2
open Zk Zk.Transfer

/-! ### raw predicates -/

section raw
variable {S G1 G2 : Type}
variable [Zero S] [One S] [Add S] [Sub S] [Neg S] [Mul S] [DecidableEq S]
variable [Zero G1] [Add G1] [Sub G1] [Neg G1] [SMul S G1] [DecidableEq G1]
variable [Zero G2] [Add G2] [Neg G2] [SMul S G2] [DecidableEq G2]

/-- `Σ_j ss[j] • Hs[is[j]]` (`Sound.lin`) for an arbitrary instance of the model's signature. -/
def linRaw (Hs : List G1) (is : List Nat) (ss : List S) : G1 :=
  ((is.zip ss).map fun p => p.2 • Hs.getD p.1 0).sum

/-- `C04Bytes.ResponseRelation` for an arbitrary instance of the model's signature (same formula,
in the instance's own arithmetic). -/
def ResponseRelationRaw (π π' : PoKSignature S G1) (gens : Generators G1) (di : List Nat) : Prop :=
  π'.Abar = π.Abar ∧ π'.Bbar = π.Bbar ∧ π'.D = π.D ∧ π'.mCap.length = π.mCap.length ∧
    (π'.eCap, π'.r1Cap, π'.r3Cap, π'.mCap) ≠ (π.eCap, π.r1Cap, π.r3Cap, π.mCap) ∧
    ∃ Q1 Hs, gens.values = Q1 :: Hs ∧
      (π'.eCap - π.eCap) • π.Abar + (π'.r1Cap - π.r1Cap) • π.D = 0 ∧
      (π'.r3Cap - π.r3Cap) • π.D
        + (linRaw Hs (getRemainingIndexes (π.mCap.length + di.length) di) π'.mCap
          - linRaw Hs (getRemainingIndexes (π.mCap.length + di.length) di) π.mCap) = 0

/-- **A successful `core_proof_verify`, unfolded (every instance, arbitrary raw records):**
`proof_verify_init` returned some `init` and the challenge of the proof is the hash of the
challenge input rebuilt from `init`. -/
theorem coreProofVerify_challenge (env : Env S G1 G2) (cs : Suite G1) (pk : G2)
    (π : PoKSignature S G1) (gens : Generators G1) (header ph : Option Bytes) (dm : List S)
    (di : List Nat) (apiId : Option Bytes)
    (h : coreProofVerify env cs pk π gens header ph dm di apiId = .ok ()) :
    ∃ init, proofVerifyInit env cs pk π gens header dm di apiId = .ok init ∧
      hashToScalar env cs (challengeInput env init di dm (ph.getD [])) (apiId.getD [] ++ cs.h2s)
        = .ok π.challenge := by
  unfold coreProofVerify at h
  cases hi : proofVerifyInit env cs pk π gens header dm di apiId with
  | err => rw [hi] at h; cases h
  | panic => rw [hi] at h; cases h
  | ok init =>
    rw [hi] at h; simp only at h
    cases hc : proofChallengeCalculate env cs init di dm ph apiId with
    | err => rw [hc] at h; cases h
    | panic => rw [hc] at h; cases h
    | ok c =>
      rw [hc] at h; simp only at h
      split at h
      · cases h
      · rename_i hne
        have hcc : π.challenge = c := not_not.mp hne
        refine ⟨init, rfl, ?_⟩
        unfold proofChallengeCalculate at hc
        split at hc
        · cases hc
        · rw [hcc]; exact hc

/-- "Run `proof_verify_init` with the challenge field set to `c`, rebuild the challenge input"
(the empty string if `proof_verify_init` fails): the map whose hash must be `c`. -/
def challengeMap (env : Env S G1 G2) (cs : Suite G1) (pk : G2) (π : PoKSignature S G1)
    (gens : Generators G1) (header ph : Option Bytes) (dm : List S) (di : List Nat)
    (apiId : Option Bytes) (c : S) : Bytes :=
  match proofVerifyInit env cs pk { π with challenge := c } gens header dm di apiId with
  | .ok init => challengeInput env init di dm (ph.getD [])
  | _ => []

/-- **Changing the challenge field (every instance, arbitrary raw records).** If the proof with the
challenge replaced by `c' ≠ c` is accepted, then `c'` is a fixed point of "run `proof_verify_init`
with challenge `c`, rebuild the challenge input, hash" — `FixedPoint`, the map being the
instance's own functions. -/
theorem raw_tamper_challenge (env : Env S G1 G2) (cs : Suite G1) (pk : G2)
    (π : PoKSignature S G1) (gens : Generators G1) (header ph : Option Bytes) (dm : List S)
    (di : List Nat) (apiId : Option Bytes) (c' : S)
    (h' : coreProofVerify env cs pk { π with challenge := c' } gens header ph dm di apiId = .ok ())
    (hne : c' ≠ π.challenge) :
    FixedPoint env cs (challengeMap env cs pk π gens header ph dm di apiId)
      (apiId.getD [] ++ cs.h2s) π.challenge := by
  obtain ⟨init, hi, hh⟩ := coreProofVerify_challenge env cs pk _ gens header ph dm di apiId h'
  refine ⟨c', hne, ?_⟩
  simp only [challengeMap, hi]
  exact hh

/-- The value `proof_verify_init` returns (`Sound.initOf`: `T1 = c•Bbar + ê•Abar + r̂1•D`,
`T2 = c•(P1 + domain•Q1 + Σ dm_k•H_{di_k}) + r̂3•D + Σ m̂_j•H_{u_j}`) for an arbitrary instance. -/
def initOfRaw (π : PoKSignature S G1) (base Q1 : G1) (Hs : List G1) (domain : S) (dm : List S)
    (di : List Nat) : ProofInitResult S G1 :=
  ⟨π.Abar, π.Bbar, π.D, π.challenge • π.Bbar + π.eCap • π.Abar + π.r1Cap • π.D,
    π.challenge • (base + domain • Q1 + linRaw Hs di dm) + π.r3Cap • π.D
      + linRaw Hs (getRemainingIndexes (π.mCap.length + di.length) di) π.mCap,
    domain⟩

/-! #### commitments -/

/-- `Σ_i ss[i] • Js[i]` (`Sound.linZ`) for an arbitrary instance. -/
def linZRaw (Js : List G1) (ss : List S) : G1 := ((Js.zip ss).map fun p => p.2 • p.1).sum

/-- `Cbar = ŝ•Q2 + Σ m̂_i•J_i − c•C` (`Sound.Cbar`) for an arbitrary instance. -/
def CbarRaw (C : G1) (z : ZKPoK S) (Q2 : G1) (Js : List G1) : G1 :=
  z.sCap • Q2 + linZRaw Js z.mCap - z.challenge • C

/-- `C06Bytes.CommitRelation` for an arbitrary instance (same formula). -/
def CommitRelationRaw (c c' : Commitment S G1) (bg : List G1) : Prop :=
  c'.commitment = c.commitment ∧ c'.proof.mCap.length = c.proof.mCap.length ∧
    (c'.proof.sCap, c'.proof.mCap) ≠ (c.proof.sCap, c.proof.mCap) ∧
    ∃ Q2 Js, bg.take (c.proof.mCap.length + 1) = Q2 :: Js ∧
      (c'.proof.sCap - c.proof.sCap) • Q2
        + (linZRaw Js c'.proof.mCap - linZRaw Js c.proof.mCap) = 0

/-- `C06Bytes.GeneratorCoincidence` for an arbitrary instance. -/
def GeneratorCoincidenceRaw (env : Env S G1 G2) (cs : Suite G1) : Prop :=
  ∃ (n m i j : Nat) (g bg : Generators G1) (x : G1),
    Generators.create env cs n (some cs.apiIdBlind) = .ok g ∧
    Generators.create env cs m (some (Bytes.ofAscii "BLIND_" ++ cs.apiIdBlind)) = .ok bg ∧
    g.values[i]? = some x ∧ bg.values[j]? = some x

/-- `C06.deserializeAndValidateCommit_ok` for every instance (same proof; no law is used). -/
theorem raw_deserializeAndValidateCommit_ok (env : Env S G1 G2) (cs : Suite G1)
    (cwp : Option Bytes) (bgens : Generators G1) (apiId : Option Bytes) (C : G1)
    (h : deserializeAndValidateCommit env cs cwp bgens apiId = .ok C) :
    (cwp.getD [] = [] ∧ C = 0) ∨
      ∃ c, Commitment.fromBytes env (cwp.getD []) = .ok c ∧ C = c.commitment ∧
        c.proof.mCap.length + 1 ≤ bgens.values.length ∧
        coreCommitVerify env cs c.commitment c.proof bgens.values (some (apiId.getD [])) = .ok () := by
  unfold deserializeAndValidateCommit at h
  dsimp only at h
  split at h
  · rename_i h0
    left
    exact ⟨List.length_eq_zero_iff.mp h0, by cases h; rfl⟩
  · right
    cases hc : Commitment.fromBytes env (cwp.getD []) with
    | err => rw [hc] at h; cases h
    | panic => rw [hc] at h; cases h
    | ok c =>
      rw [hc] at h; simp only at h
      split at h
      · cases h
      · rename_i hlen
        cases hv : coreCommitVerify env cs c.commitment c.proof bgens.values
            (some (apiId.getD [])) with
        | err => rw [hv] at h; cases h
        | panic => rw [hv] at h; cases h
        | ok u =>
          rw [hv] at h; simp only [Res.ok.injEq] at h
          exact ⟨c, rfl, h.symm, by omega, by rw [hv]⟩

/-- `C06.blind_sign_requires_valid_commit` for every instance (same proof; purely structural). -/
theorem raw_blind_sign_requires_valid_commit (env : Env S G1 G2) (cs : Suite G1) (sk : S) (pk : G2)
    (cwp header : Option Bytes) (messages : Option (List Bytes)) (σ : Signature S G1)
    (h : blindSign env cs sk pk cwp header messages = .ok σ) :
    ∃ M gens bgens ms C B,
      blindSignM (cwp.getD []).length = some M ∧
      Generators.create env cs ((messages.getD []).length + 1) (some cs.apiIdBlind) = .ok gens ∧
      Generators.create env cs (M + 1) (some (Bytes.ofAscii "BLIND_" ++ cs.apiIdBlind))
        = .ok bgens ∧
      messagesToScalar env cs (messages.getD []) cs.apiIdBlind = .ok ms ∧
      calculateB gens (some C) ms = .ok B ∧
      finalizeBlindSign env cs sk pk B gens bgens header (some cs.apiIdBlind) = .ok σ ∧
      ((cwp.getD [] = [] ∧ C = 0) ∨
        ∃ c, Commitment.fromBytes env (cwp.getD []) = .ok c ∧ C = c.commitment ∧
          coreCommitVerify env cs c.commitment c.proof bgens.values (some cs.apiIdBlind)
            = .ok ()) := by
  unfold blindSign at h
  dsimp only at h
  cases hM : blindSignM (cwp.getD []).length with
  | none => rw [hM] at h; cases h
  | some M =>
    rw [hM] at h; simp only at h
    cases hg : Generators.create env cs ((messages.getD []).length + 1) (some cs.apiIdBlind) with
    | err => rw [hg] at h; cases h
    | panic => rw [hg] at h; cases h
    | ok gens =>
      rw [hg] at h; simp only at h
      cases hbg : Generators.create env cs (M + 1)
          (some (Bytes.ofAscii "BLIND_" ++ cs.apiIdBlind)) with
      | err => rw [hbg] at h; cases h
      | panic => rw [hbg] at h; cases h
      | ok bgens =>
        rw [hbg] at h; simp only at h
        cases hd : deserializeAndValidateCommit env cs (some (cwp.getD [])) bgens
            (some cs.apiIdBlind) with
        | err => rw [hd] at h; cases h
        | panic => rw [hd] at h; cases h
        | ok C =>
          rw [hd] at h; simp only at h
          cases hm : messagesToScalar env cs (messages.getD []) cs.apiIdBlind with
          | err => rw [hm] at h; cases h
          | panic => rw [hm] at h; cases h
          | ok ms =>
            rw [hm] at h; simp only at h
            cases hB : calculateB gens (some C) ms with
            | err => rw [hB] at h; cases h
            | panic => rw [hB] at h; cases h
            | ok B =>
              rw [hB] at h; simp only at h
              refine ⟨M, gens, bgens, ms, C, B, rfl, rfl, hbg, rfl, hB, h, ?_⟩
              rcases raw_deserializeAndValidateCommit_ok env cs _ bgens _ C hd with
                h0 | ⟨c, h1, h2, _, h3⟩
              · exact Or.inl h0
              · exact Or.inr ⟨c, h1, h2, h3⟩

/-- `C06.blind_sign_refuses` for every instance. -/
theorem raw_blind_sign_refuses (env : Env S G1 G2) (cs : Suite G1) (sk : S) (pk : G2)
    (cwp header : Option Bytes) (messages : Option (List Bytes)) (hne : cwp.getD [] ≠ [])
    (hbad : ∀ c M bgens, Commitment.fromBytes env (cwp.getD []) = .ok c →
      blindSignM (cwp.getD []).length = some M →
      Generators.create env cs (M + 1) (some (Bytes.ofAscii "BLIND_" ++ cs.apiIdBlind))
        = .ok bgens →
      coreCommitVerify env cs c.commitment c.proof bgens.values (some cs.apiIdBlind) ≠ .ok ())
    (σ : Signature S G1) : blindSign env cs sk pk cwp header messages ≠ .ok σ := by
  intro h
  obtain ⟨M, gens, bgens, ms, C, B, hM, _, hbg, _, _, _, hor⟩ :=
    raw_blind_sign_requires_valid_commit env cs sk pk cwp header messages σ h
  rcases hor with ⟨h0, _⟩ | ⟨c, hc, _, hv⟩
  · exact hne h0
  · exact hbad c M bgens hc hM hbg hv

/-- A successful `core_commit_verify`, unfolded (every instance): the first `M + 1` blind generators
are `Q2 :: Js` and the challenge is the hash of the challenge input rebuilt from
`Cbar = (ŝ•Q2 + Σ m̂_i•J_i) + (−c)•C` (computed as the code does, `sumZip`). -/
theorem coreCommitVerify_challenge (env : Env S G1 G2) (cs : Suite G1) (C : G1) (z : ZKPoK S)
    (bg : List G1) (apiId : Option Bytes)
    (h : coreCommitVerify env cs C z bg apiId = .ok ()) :
    ∃ Q2 Js, bg.take (z.mCap.length + 1) = Q2 :: Js ∧
      hashToScalar env cs
        (blindChallengeInput env C (sumZip (z.sCap • Q2) Js z.mCap + (-z.challenge) • C) (Q2 :: Js))
        (apiId.getD [] ++ cs.h2s) = .ok z.challenge := by
  unfold coreCommitVerify at h
  dsimp only at h
  split at h
  · cases h
  · cases ht : bg.take (z.mCap.length + 1) with
    | nil => rw [ht] at h; cases h
    | cons Q2 Js =>
      rw [ht] at h; simp only at h
      refine ⟨Q2, Js, rfl, ?_⟩
      cases hc : calculateBlindChallenge env cs C
          (sumZip (z.sCap • Q2) Js z.mCap + (-z.challenge) • C) (Q2 :: Js) (some (apiId.getD []))
        with
      | err => rw [hc] at h; cases h
      | panic => rw [hc] at h; cases h
      | ok cv =>
        rw [hc] at h; simp only at h
        split at h
        · cases h
        · rename_i hne
          have hcv : cv = z.challenge := not_not.mp hne
          unfold calculateBlindChallenge at hc
          split at hc
          · cases hc
          · subst hcv; exact hc

/-- **Changing the challenge field of a commitment proof (every instance, raw records):**
acceptance means the new challenge is a fixed point of "rebuild `Cbar` from `c`, hash". -/
theorem raw_commit_tamper_challenge (env : Env S G1 G2) (cs : Suite G1) (C : G1) (z : ZKPoK S)
    (bg : List G1) (apiId : Option Bytes) (c' : S)
    (h' : coreCommitVerify env cs C { z with challenge := c' } bg apiId = .ok ())
    (hne : c' ≠ z.challenge) :
    ∃ Q2 Js, bg.take (z.mCap.length + 1) = Q2 :: Js ∧
      FixedPoint env cs
        (fun c => blindChallengeInput env C (sumZip (z.sCap • Q2) Js z.mCap + (-c) • C) (Q2 :: Js))
        (apiId.getD [] ++ cs.h2s) z.challenge := by
  obtain ⟨Q2, Js, ht, hh⟩ := coreCommitVerify_challenge env cs C _ bg apiId h'
  exact ⟨Q2, Js, ht, c', hne, hh⟩

end raw

/-! ### moving the abstract predicates along a homomorphism -/

section nat
variable {S G1 G2 : Type} [Field S] [DecidableEq S]
variable [AddCommGroup G1] [Module S G1] [DecidableEq G1]
variable [AddCommGroup G2] [Module S G2] [DecidableEq G2]
variable {S' G1' G2' : Type}
variable [Zero S'] [One S'] [Add S'] [Sub S'] [Neg S'] [Mul S'] [DecidableEq S']
variable [Zero G1'] [Add G1'] [Sub G1'] [Neg G1'] [SMul S' G1'] [DecidableEq G1']
variable [Zero G2'] [Add G2'] [Neg G2'] [SMul S' G2'] [DecidableEq G2']
variable {env : Env S G1 G2} {env' : Env S' G1' G2'} {fS : S → S'} {f1 : G1 → G1'} {f2 : G2 → G2'}

theorem getD_map_zero (H : Hom env env' fS f1 f2) (Hs : List G1) (i : Nat) :
    (Hs.map f1).getD i 0 = f1 (Hs.getD i 0) := by
  rw [List.getD_eq_getElem?_getD, List.getD_eq_getElem?_getD, List.getElem?_map]
  cases Hs[i]? with
  | none => exact H.G1_zero.symm
  | some g => rfl

theorem lin_nat (H : Hom env env' fS f1 f2) (Hs : List G1) (is : List Nat) (ss : List S) :
    linRaw (Hs.map f1) is (ss.map fS) = f1 (Sound.lin Hs is ss) := by
  induction is generalizing ss with
  | nil => simp only [linRaw, List.zip_nil_left, List.map_nil, List.sum_nil, Sound.lin_nil_left,
      H.G1_zero]
  | cons i is ih =>
    cases ss with
    | nil => simp only [linRaw, List.map_nil, List.zip_nil_right, List.sum_nil,
        Sound.lin_nil_right, H.G1_zero]
    | cons s ss =>
      have := ih ss
      unfold linRaw at this ⊢
      simp only [getD_map_zero H] at this
      simp only [List.map_cons, List.zip_cons_cons, List.sum_cons, Sound.lin_cons, H.G1_add,
        H.G1_smul, getD_map_zero H, this]

theorem responseRelation_nat (H : Hom env env' fS f1 f2) (π π' : PoKSignature S G1)
    (gens : Generators G1) (di : List Nat) (h : C04Bytes.ResponseRelation π π' gens di) :
    ResponseRelationRaw (π.map fS f1) (π'.map fS f1) (gens.map f1) di := by
  obtain ⟨hA, hB, hD, hU, hne, Q1, Hs, hv, e1, e2⟩ := h
  refine ⟨congrArg f1 hA, congrArg f1 hB, congrArg f1 hD, ?_, ?_, f1 Q1, Hs.map f1, ?_, ?_, ?_⟩
  · simp only [PoKSignature.map_mCap, List.length_map, hU]
  · intro heq
    apply hne
    simp only [PoKSignature.map_eCap, PoKSignature.map_r1Cap, PoKSignature.map_r3Cap,
      PoKSignature.map_mCap, Prod.mk.injEq] at heq ⊢
    exact ⟨H.fS_inj heq.1, H.fS_inj heq.2.1, H.fS_inj heq.2.2.1,
      (List.map_injective_iff.mpr H.fS_inj) heq.2.2.2⟩
  · rw [Generators.map_values, hv, List.map_cons]
  · have := congrArg f1 e1
    simpa only [PoKSignature.map_eCap, PoKSignature.map_r1Cap, PoKSignature.map_Abar,
      PoKSignature.map_D, H.G1_add, H.G1_smul, H.S_sub, H.G1_zero] using this
  · have := congrArg f1 e2
    simpa only [PoKSignature.map_r3Cap, PoKSignature.map_mCap, PoKSignature.map_D, H.G1_add,
      H.G1_sub, H.G1_smul, H.S_sub, H.G1_zero, lin_nat H, List.length_map] using this

theorem ProofInitResult.map_injective (H : Hom env env' fS f1 f2) :
    Function.Injective (ProofInitResult.map (S := S) (G1 := G1) fS f1) := by
  rintro ⟨a, b, d, t1, t2, dom⟩ ⟨a', b', d', t1', t2', dom'⟩ h
  simp only [ProofInitResult.map_mk, ProofInitResult.mk.injEq] at h
  obtain ⟨h1, h2, h3, h4, h5, h6⟩ := h
  rw [H.f1_inj h1, H.f1_inj h2, H.f1_inj h3, H.f1_inj h4, H.f1_inj h5, H.fS_inj h6]

theorem initOf_nat (H : Hom env env' fS f1 f2) (π : PoKSignature S G1) (base Q1 : G1)
    (Hs : List G1) (d : S) (dm : List S) (di : List Nat) :
    initOfRaw (π.map fS f1) (f1 base) (f1 Q1) (Hs.map f1) (fS d) (dm.map fS) di
      = (Sound.initOf π base Q1 Hs d dm di).map fS f1 := by
  simp only [initOfRaw, Sound.initOf, Sound.T1, Sound.T2, Sound.Bv, ProofInitResult.map_mk,
    PoKSignature.map_Abar, PoKSignature.map_Bbar, PoKSignature.map_D, PoKSignature.map_eCap,
    PoKSignature.map_r1Cap, PoKSignature.map_r3Cap, PoKSignature.map_mCap,
    PoKSignature.map_challenge, H.G1_add, H.G1_smul, lin_nat H, List.length_map]

theorem linZ_nat (H : Hom env env' fS f1 f2) (Js : List G1) (ss : List S) :
    linZRaw (Js.map f1) (ss.map fS) = f1 (Sound.linZ Js ss) := by
  induction Js generalizing ss with
  | nil => simp only [linZRaw, List.map_nil, List.zip_nil_left, List.sum_nil, Sound.linZ_nil_left,
      H.G1_zero]
  | cons J Js ih =>
    cases ss with
    | nil => simp only [linZRaw, List.map_nil, List.zip_nil_right, List.sum_nil,
        Sound.linZ_nil_right, H.G1_zero]
    | cons s ss =>
      have := ih ss
      unfold linZRaw at this ⊢
      simp only [List.map_cons, List.zip_cons_cons, List.sum_cons, Sound.linZ_cons, H.G1_add,
        H.G1_smul, this]

theorem Cbar_nat (H : Hom env env' fS f1 f2) (C : G1) (z : ZKPoK S) (Q2 : G1) (Js : List G1) :
    CbarRaw (f1 C) (z.map fS) (f1 Q2) (Js.map f1) = f1 (Sound.Cbar C z Q2 Js) := by
  simp only [CbarRaw, Sound.Cbar, ZKPoK.map_sCap, ZKPoK.map_mCap, ZKPoK.map_challenge, linZ_nat H,
    H.G1_sub, H.G1_add, H.G1_smul]

theorem commitRelation_nat (H : Hom env env' fS f1 f2) (c c' : Commitment S G1) (bg : List G1)
    (h : C06Bytes.CommitRelation c c' bg) :
    CommitRelationRaw (c.map fS f1) (c'.map fS f1) (bg.map f1) := by
  obtain ⟨hC, hM, hne, Q2, Js, ht, e⟩ := h
  refine ⟨congrArg f1 hC, ?_, ?_, f1 Q2, Js.map f1, ?_, ?_⟩
  · simp only [Commitment.map_proof, ZKPoK.map_mCap, List.length_map, hM]
  · intro heq
    apply hne
    simp only [Commitment.map_proof, ZKPoK.map_sCap, ZKPoK.map_mCap, Prod.mk.injEq] at heq ⊢
    exact ⟨H.fS_inj heq.1, (List.map_injective_iff.mpr H.fS_inj) heq.2⟩
  · simp only [Commitment.map_proof, ZKPoK.map_mCap, List.length_map, ← List.map_take, ht,
      List.map_cons]
  · have := congrArg f1 e
    simpa only [Commitment.map_proof, ZKPoK.map_sCap, ZKPoK.map_mCap, H.G1_add, H.G1_sub,
      H.G1_smul, H.S_sub, H.G1_zero, linZ_nat H] using this

theorem generatorCoincidence_nat (H : Hom env env' fS f1 f2) (cs : Suite G1)
    (h : C06Bytes.GeneratorCoincidence env cs) : GeneratorCoincidenceRaw env' (cs.map f1) := by
  obtain ⟨n, m, i, j, g, bg, x, h1, h2, h3, h4⟩ := h
  refine ⟨n, m, i, j, g.map f1, bg.map f1, f1 x, ok_of_map (Generators.create_transfer H cs _ _) h1,
    ok_of_map (Generators.create_transfer H cs _ _) h2, ?_, ?_⟩
  · rw [Generators.map_values, List.getElem?_map, h3]; rfl
  · rw [Generators.map_values, List.getElem?_map, h4]; rfl

/-- Re-programming `expand` (the random oracle behind `hash_to_scalar`) on both sides of a
homomorphism gives a homomorphism. -/
theorem Hom.reprogram (H : Hom env env' fS f1 f2)
    (ex : Bool → Bytes → Bytes → Nat → Option Bytes) :
    Hom { env with expand := ex } { env' with expand := ex } fS f1 f2 :=
  { fS_inj := H.fS_inj, f1_inj := H.f1_inj, f2_inj := H.f2_inj, S_zero := H.S_zero,
    S_one := H.S_one, S_add := H.S_add, S_sub := H.S_sub, S_neg := H.S_neg, S_mul := H.S_mul,
    G1_zero := H.G1_zero, G1_add := H.G1_add, G1_sub := H.G1_sub, G1_neg := H.G1_neg,
    G1_smul := H.G1_smul, G2_zero := H.G2_zero, G2_add := H.G2_add, G2_neg := H.G2_neg,
    G2_smul := H.G2_smul, sInv := H.sInv, sEnc := H.sEnc, sDec := H.sDec, okm := H.okm,
    g1Enc := H.g1Enc, g1Dec := H.g1Dec, g2Enc := H.g2Enc, g2Dec := H.g2Dec, g2EncU := H.g2EncU,
    g2DecU := H.g2DecU, bp2 := H.bp2, pairingCheck := H.pairingCheck,
    expand := fun _ _ _ _ => rfl, hashToG1 := H.hashToG1 }

end nat

end Zk.Bridge2
