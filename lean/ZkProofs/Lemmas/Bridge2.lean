/-
Helpers for the second part of the bridge (`ZkProofs/Props/ConcreteBridge2.lean`).

* RAW versions (core classes only, no laws: they make sense for the executable instance
  `Fr / G1Pt / G2Pt`) of the algebraic predicates that occur in the CONCLUSIONS of the abstract
  soundness theorems: `linRaw` (`Sound.lin`), `ResponseRelationRaw` (`C04Bytes.ResponseRelation`),
  `linZRaw` (`Sound.linZ`), `CbarRaw` (`Sound.Cbar`), and the lemmas that move the abstract predicates
  to the raw ones along a `Transfer.Hom`.
* Raw inversion of `coreProofVerify` / `coreCommitVerify` (the challenge equation), valid for every
  instance of the model's signature.
-/
import ZkProofs.Props.ConcreteBridge
import ZkProofs.Props.C04Bytes
import ZkProofs.Props.C06Bytes
set_option linter.unusedSectionVars false
set_option linter.unusedVariables false

namespace Zk.Bridge2
open Zk Zk.Transfer

/-! ### raw predicates -/

section raw
variable {S G1 G2 : Type}
variable [Zero S] [One S] [Add S] [Sub S] [Neg S] [Mul S] [DecidableEq S]
variable [Zero G1] [Add G1] [Sub G1] [Neg G1] [SMul S G1] [DecidableEq G1]
variable [Zero G2] [Add G2] [Neg G2] [SMul S G2] [DecidableEq G2]

/-- `Σ_j ss[j] • Hs[is[j]]` (`Sound.lin`) for an arbitrary instance of the model's signature. -/
def linRaw (Hs : List G1) (is : List Nat) (ss : List S) : G1 :=
  ((is.zip ss).map fun p => p.2 • Hs.getD p.1 0).sum

/-- `C04Bytes.ResponseRelation` for an arbitrary instance of the model's signature (same formula,
in the instance's own arithmetic). -/
def ResponseRelationRaw (π π' : PoKSignature S G1) (gens : Generators G1) (di : List Nat) : Prop :=
  π'.Abar = π.Abar ∧ π'.Bbar = π.Bbar ∧ π'.D = π.D ∧ π'.mCap.length = π.mCap.length ∧
    (π'.eCap, π'.r1Cap, π'.r3Cap, π'.mCap) ≠ (π.eCap, π.r1Cap, π.r3Cap, π.mCap) ∧
    ∃ Q1 Hs, gens.values = Q1 :: Hs ∧
      (π'.eCap - π.eCap) • π.Abar + (π'.r1Cap - π.r1Cap) • π.D = 0 ∧
      (π'.r3Cap - π.r3Cap) • π.D
        + (linRaw Hs (getRemainingIndexes (π.mCap.length + di.length) di) π'.mCap
          - linRaw Hs (getRemainingIndexes (π.mCap.length + di.length) di) π.mCap) = 0

/-- **A successful `core_proof_verify`, unfolded (every instance, arbitrary raw records):**
`proof_verify_init` returned some `init` and the challenge of the proof is the hash of the
challenge input rebuilt from `init`. -/
theorem coreProofVerify_challenge (env : Env S G1 G2) (cs : Suite G1) (pk : G2)
    (π : PoKSignature S G1) (gens : Generators G1) (header ph : Option Bytes) (dm : List S)
    (di : List Nat) (apiId : Option Bytes)
    (h : coreProofVerify env cs pk π gens header ph dm di apiId = .ok ()) :
    ∃ init, proofVerifyInit env cs pk π gens header dm di apiId = .ok init ∧
      hashToScalar env cs (challengeInput env init di dm (ph.getD [])) (apiId.getD [] ++ cs.h2s)
        = .ok π.challenge := by
  unfold coreProofVerify at h
  cases hi : proofVerifyInit env cs pk π gens header dm di apiId with
  | err => rw [hi] at h; cases h
  | panic => rw [hi] at h; cases h
  | ok init =>
    rw [hi] at h; simp only at h
    cases hc : proofChallengeCalculate env cs init di dm ph apiId with
    | err => rw [hc] at h; cases h
    | panic => rw [hc] at h; cases h
    | ok c =>
      rw [hc] at h; simp only at h
      split at h
      · cases h
      · rename_i hne
        have hcc : π.challenge = c := not_not.mp hne
        refine ⟨init, rfl, ?_⟩
        unfold proofChallengeCalculate at hc
        split at hc
        · cases hc
        · rw [hcc]; exact hc

end raw

/-! ### moving the abstract predicates along a homomorphism -/

section nat
variable {S G1 G2 : Type} [Field S] [DecidableEq S]
variable [AddCommGroup G1] [Module S G1] [DecidableEq G1]
variable [AddCommGroup G2] [Module S G2] [DecidableEq G2]
variable {S' G1' G2' : Type}
variable [Zero S'] [One S'] [Add S'] [Sub S'] [Neg S'] [Mul S'] [DecidableEq S']
variable [Zero G1'] [Add G1'] [Sub G1'] [Neg G1'] [SMul S' G1'] [DecidableEq G1']
variable [Zero G2'] [Add G2'] [Neg G2'] [SMul S' G2'] [DecidableEq G2']
variable {env : Env S G1 G2} {env' : Env S' G1' G2'} {fS : S → S'} {f1 : G1 → G1'} {f2 : G2 → G2'}

theorem getD_map_zero (H : Hom env env' fS f1 f2) (Hs : List G1) (i : Nat) :
    (Hs.map f1).getD i 0 = f1 (Hs.getD i 0) := by
  rw [List.getD_eq_getElem?_getD, List.getD_eq_getElem?_getD, List.getElem?_map]
  cases Hs[i]? with
  | none => exact H.G1_zero.symm
  | some g => rfl

theorem lin_nat (H : Hom env env' fS f1 f2) (Hs : List G1) (is : List Nat) (ss : List S) :
    linRaw (Hs.map f1) is (ss.map fS) = f1 (Sound.lin Hs is ss) := by
  induction is generalizing ss with
  | nil => simp only [linRaw, List.zip_nil_left, List.map_nil, List.sum_nil, Sound.lin_nil_left,
      H.G1_zero]
  | cons i is ih =>
    cases ss with
    | nil => simp only [linRaw, List.map_nil, List.zip_nil_right, List.sum_nil,
        Sound.lin_nil_right, H.G1_zero]
    | cons s ss =>
      have := ih ss
      unfold linRaw at this ⊢
      simp only [getD_map_zero H] at this
      simp only [List.map_cons, List.zip_cons_cons, List.sum_cons, Sound.lin_cons, H.G1_add,
        H.G1_smul, getD_map_zero H, this]

theorem responseRelation_nat (H : Hom env env' fS f1 f2) (π π' : PoKSignature S G1)
    (gens : Generators G1) (di : List Nat) (h : C04Bytes.ResponseRelation π π' gens di) :
    ResponseRelationRaw (π.map fS f1) (π'.map fS f1) (gens.map f1) di := by
  obtain ⟨hA, hB, hD, hU, hne, Q1, Hs, hv, e1, e2⟩ := h
  refine ⟨congrArg f1 hA, congrArg f1 hB, congrArg f1 hD, ?_, ?_, f1 Q1, Hs.map f1, ?_, ?_, ?_⟩
  · simp only [PoKSignature.map_mCap, List.length_map, hU]
  · intro heq
    apply hne
    simp only [PoKSignature.map_eCap, PoKSignature.map_r1Cap, PoKSignature.map_r3Cap,
      PoKSignature.map_mCap, Prod.mk.injEq] at heq ⊢
    exact ⟨H.fS_inj heq.1, H.fS_inj heq.2.1, H.fS_inj heq.2.2.1,
      (List.map_injective_iff.mpr H.fS_inj) heq.2.2.2⟩
  · rw [Generators.map_values, hv, List.map_cons]
  · have := congrArg f1 e1
    simpa only [PoKSignature.map_eCap, PoKSignature.map_r1Cap, PoKSignature.map_Abar,
      PoKSignature.map_D, H.G1_add, H.G1_smul, H.S_sub, H.G1_zero] using this
  · have := congrArg f1 e2
    simpa only [PoKSignature.map_r3Cap, PoKSignature.map_mCap, PoKSignature.map_D, H.G1_add,
      H.G1_sub, H.G1_smul, H.S_sub, H.G1_zero, lin_nat H, List.length_map] using this

end nat

end Zk.Bridge2
