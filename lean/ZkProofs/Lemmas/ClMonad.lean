/-
Shared lemmas for the tape monad `M` of `ZkModel/L1/Cl.lean` (CL03 model).

* evaluation lemmas (`pure_apply`, `bind_apply`, `panic_apply`, `ofOpt_*`, `remaining_apply`,
  `idx_*`, `pw_*`), ok-inversion for bind (`bind_ok_inv`);
* the draw primitives on a tape whose head satisfies / violates the contract;
* `TapeFree x`: `x` neither reads nor consumes the tape (it is `ofOpt o` for a fixed `o`), closed
  under `pure`, `panic`, `ofOpt`, bind, `if`, `match`; all verification functions are `TapeFree`;
* `LawfulMonad M`, `mapM (idx l)`.
-/
import ZkProofs.ClSetting
namespace Zk.Cl
open Zk.IA

/-! ### evaluation -/

@[simp] theorem pure_apply {α} (a : α) (t : List Draw) : (pure a : M α) t = .ok (a, t) := rfl

@[simp] theorem bind_apply {α β} (x : M α) (f : α → M β) (t : List Draw) :
    (x >>= f) t = match x t with
      | .ok (a, t') => f a t'
      | .panic => .panic
      | .tape m => .tape m := rfl

@[simp] theorem panic_apply {α} (t : List Draw) : (panic : M α) t = .panic := rfl
@[simp] theorem tapeErr_apply {α} (m : String) (t : List Draw) : (tapeErr m : M α) t = .tape m := rfl
@[simp] theorem ofOpt_some {α} (a : α) : ofOpt (some a) = (pure a : M α) := rfl
@[simp] theorem ofOpt_none {α} : ofOpt (none : Option α) = (panic : M α) := rfl
theorem ofOpt_some_apply {α} (a : α) (t : List Draw) : ofOpt (some a) t = .ok (a, t) := rfl
theorem ofOpt_none_apply {α} (t : List Draw) : ofOpt (none : Option α) t = .panic := rfl
@[simp] theorem remaining_apply (t : List Draw) : remaining t = .ok (t.length, t) := rfl

theorem bind_of_ok {α β} {x : M α} {f : α → M β} {t t' : List Draw} {a : α}
    (h : x t = .ok (a, t')) : (x >>= f) t = f a t' := by
  simp only [bind_apply, h]

theorem bind_of_panic {α β} {x : M α} {f : α → M β} {t : List Draw}
    (h : x t = .panic) : (x >>= f) t = .panic := by
  simp only [bind_apply, h]

theorem bind_of_tape {α β} {x : M α} {f : α → M β} {t : List Draw} {m : String}
    (h : x t = .tape m) : (x >>= f) t = .tape m := by
  simp only [bind_apply, h]

/-- ok-inversion for bind. -/
theorem bind_ok_inv {α β} {x : M α} {f : α → M β} {t : List Draw} {r : β × List Draw}
    (h : (x >>= f) t = .ok r) : ∃ a t', x t = .ok (a, t') ∧ f a t' = .ok r := by
  rw [bind_apply] at h
  cases hx : x t with
  | ok p => obtain ⟨a, t'⟩ := p; rw [hx] at h; exact ⟨a, t', rfl, h⟩
  | panic => rw [hx] at h; cases h
  | tape m => rw [hx] at h; cases h

theorem bind_ok_iff {α β} {x : M α} {f : α → M β} {t : List Draw} {r : β × List Draw} :
    (x >>= f) t = .ok r ↔ ∃ a t', x t = .ok (a, t') ∧ f a t' = .ok r :=
  ⟨bind_ok_inv, fun ⟨_, _, hx, hf⟩ => by rw [bind_of_ok hx]; exact hf⟩

theorem pure_ok_iff {α} {a b : α} {t t' : List Draw} :
    (pure a : M α) t = .ok (b, t') ↔ a = b ∧ t = t' := by
  simp only [pure_apply, CRes.ok.injEq, Prod.mk.injEq]

theorem ofOpt_ok_iff {α} {o : Option α} {b : α} {t t' : List Draw} :
    ofOpt o t = .ok (b, t') ↔ o = some b ∧ t' = t := by
  cases o with
  | none => simp [ofOpt_none]
  | some a => simp [ofOpt_some, eq_comm]

theorem ofOpt_panic_iff {α} {o : Option α} {t : List Draw} : ofOpt o t = .panic ↔ o = none := by
  cases o <;> simp [ofOpt_some, ofOpt_none]

theorem ofOpt_ne_tape {α} {o : Option α} {t : List Draw} {m : String} : ofOpt o t ≠ .tape m := by
  cases o <;> simp [ofOpt_some, ofOpt_none]

/-! ### `idx`, `pw` -/

theorem idx_apply {α} (l : List α) (i : Nat) (t : List Draw) :
    idx l i t = if h : i < l.length then .ok (l[i], t) else .panic := by
  unfold idx
  split
  · next h => rw [List.getElem?_eq_getElem h]; rfl
  · next h => rw [List.getElem?_eq_none (Nat.le_of_not_lt h)]; rfl

theorem idx_lt {α} {l : List α} {i : Nat} (h : i < l.length) (t : List Draw) :
    idx l i t = .ok (l[i], t) := by rw [idx_apply, dif_pos h]

theorem idx_ge {α} {l : List α} {i : Nat} (h : l.length ≤ i) (t : List Draw) :
    idx l i t = .panic := by rw [idx_apply, dif_neg (Nat.not_lt.mpr h)]

theorem idx_eq_ofOpt {α} (l : List α) (i : Nat) : idx l i = ofOpt l[i]? := rfl

theorem idx_ok_iff {α} {l : List α} {i : Nat} {a : α} {t t' : List Draw} :
    idx l i t = .ok (a, t') ↔ l[i]? = some a ∧ t' = t := ofOpt_ok_iff

theorem idx_cons_zero {α} (a : α) (l : List α) : idx (a :: l) 0 = pure a := rfl
theorem idx_cons_succ {α} (a : α) (l : List α) (i : Nat) : idx (a :: l) (i + 1) = idx l i := by
  unfold idx; rw [List.getElem?_cons_succ]

theorem pw_apply {b e n x : Int} (h : powMod b e n = some x) (t : List Draw) :
    pw b e n t = .ok (x, t) := by unfold pw; rw [h]; rfl

theorem pw_apply_none {b e n : Int} (h : powMod b e n = none) (t : List Draw) :
    pw b e n t = .panic := by unfold pw; rw [h]; rfl

theorem pw_ok_iff {b e n x : Int} {t t' : List Draw} :
    pw b e n t = .ok (x, t') ↔ powMod b e n = some x ∧ t' = t := ofOpt_ok_iff

/-! ### the draw primitives -/

@[simp] theorem randomBits_nil (n : Nat) : randomBits n [] = .tape "tape exhausted (bits)" := rfl

theorem randomBits_cons (n : Nat) (v : Int) (t : List Draw) (h0 : 0 ≤ v) (hb : bitLen v = n) :
    randomBits n (⟨"bits", v⟩ :: t) = .ok (v, t) := by
  simp only [randomBits, ne_eq, not_true_eq_false, if_false, hb, or_false,
    if_neg (Int.not_lt.mpr h0)]

/-- contract violated: the model reports a tape disagreement (never a value, never a panic). -/
theorem randomBits_cons_bad (n : Nat) (d : Draw) (t : List Draw)
    (h : d.kind ≠ "bits" ∨ d.v < 0 ∨ bitLen d.v ≠ n) : ∃ m, randomBits n (d :: t) = .tape m := by
  simp only [randomBits]
  by_cases hk : d.kind ≠ "bits"
  · exact ⟨_, if_pos hk⟩
  · rw [if_neg hk]
    have h' : d.v < 0 ∨ bitLen d.v ≠ n := h.resolve_left hk
    exact ⟨_, if_pos h'⟩

theorem randomBits_ok_inv {n : Nat} {v : Int} {t t' : List Draw} (h : randomBits n t = .ok (v, t')) :
    ∃ d, t = d :: t' ∧ d.kind = "bits" ∧ d.v = v ∧ 0 ≤ v ∧ bitLen v = n := by
  cases t with
  | nil => cases h
  | cons d rest =>
    simp only [randomBits] at h
    split at h
    · cases h
    · next hk =>
      split at h
      · cases h
      · next hc =>
        simp only [CRes.ok.injEq, Prod.mk.injEq] at h
        obtain ⟨rfl, rfl⟩ := h
        refine ⟨d, rfl, by simpa using hk, rfl, ?_, ?_⟩
        · exact Int.not_lt.mp fun hl => hc (Or.inl hl)
        · exact Classical.not_not.mp fun hl => hc (Or.inr hl)

@[simp] theorem randomNumber_nil (n : Int) : randomNumber n [] = .tape "tape exhausted (below)" := rfl

theorem randomNumber_cons (n v : Int) (t : List Draw) (h0 : 0 ≤ v) (hb : v < n) :
    randomNumber n (⟨"below", v⟩ :: t) = .ok (v, t) := by
  have : ¬ (v < 0 ∨ v ≥ n) := by omega
  simp only [randomNumber, ne_eq, not_true_eq_false, if_false, if_neg this]

theorem randomNumber_cons_bad (n : Int) (d : Draw) (t : List Draw)
    (h : d.kind ≠ "below" ∨ d.v < 0 ∨ d.v ≥ n) : ∃ m, randomNumber n (d :: t) = .tape m := by
  simp only [randomNumber]
  by_cases hk : d.kind ≠ "below"
  · exact ⟨_, if_pos hk⟩
  · rw [if_neg hk]
    exact ⟨_, if_pos (h.resolve_left hk)⟩

theorem randomNumber_ok_inv {n v : Int} {t t' : List Draw} (h : randomNumber n t = .ok (v, t')) :
    ∃ d, t = d :: t' ∧ d.kind = "below" ∧ d.v = v ∧ 0 ≤ v ∧ v < n := by
  cases t with
  | nil => cases h
  | cons d rest =>
    simp only [randomNumber] at h
    split at h
    · cases h
    · next hk =>
      split at h
      · cases h
      · next hc =>
        simp only [CRes.ok.injEq, Prod.mk.injEq] at h
        obtain ⟨rfl, rfl⟩ := h
        refine ⟨d, rfl, by simpa using hk, rfl, ?_, ?_⟩ <;> omega

@[simp] theorem randInt_nil (a b : Int) : randInt a b [] = .tape "tape exhausted (rand_int)" := rfl

theorem randInt_cons (a b v : Int) (t : List Draw) (h0 : a ≤ v) (hb : v ≤ b) :
    randInt a b (⟨"rand_int", v⟩ :: t) = .ok (v, t) := by
  have : ¬ (v < a ∨ v > b) := by omega
  simp only [randInt, ne_eq, not_true_eq_false, if_false, if_neg this]

theorem randInt_cons_bad (a b : Int) (d : Draw) (t : List Draw)
    (h : d.kind ≠ "rand_int" ∨ d.v < a ∨ d.v > b) : ∃ m, randInt a b (d :: t) = .tape m := by
  simp only [randInt]
  by_cases hk : d.kind ≠ "rand_int"
  · exact ⟨_, if_pos hk⟩
  · rw [if_neg hk]
    exact ⟨_, if_pos (h.resolve_left hk)⟩

theorem randInt_ok_inv {a b v : Int} {t t' : List Draw} (h : randInt a b t = .ok (v, t')) :
    ∃ d, t = d :: t' ∧ d.kind = "rand_int" ∧ d.v = v ∧ a ≤ v ∧ v ≤ b := by
  cases t with
  | nil => cases h
  | cons d rest =>
    simp only [randInt] at h
    split at h
    · cases h
    · next hk =>
      split at h
      · cases h
      · next hc =>
        simp only [CRes.ok.injEq, Prod.mk.injEq] at h
        obtain ⟨rfl, rfl⟩ := h
        refine ⟨d, rfl, by simpa using hk, rfl, ?_, ?_⟩ <;> omega

theorem randomPrime_cons (n : Nat) (r p : Int) (t : List Draw) (h0 : 0 ≤ r) (hb : bitLen r = n)
    (hp : isNextPrime r p = true) :
    randomPrime n (⟨"bits", r⟩ :: ⟨"prime", p⟩ :: t) = .ok (p, t) := by
  unfold randomPrime
  refine (bind_of_ok (randomBits_cons n r _ h0 hb)).trans ?_
  simp only [ne_eq, not_true_eq_false, if_false, hp, Bool.not_true, Bool.false_eq_true]

/-- what a successful `random_prime(n)` read: an `n`-bit `bits` draw `r` and its next prime. -/
theorem randomPrime_ok_inv {n : Nat} {p : Int} {t t' : List Draw} (h : randomPrime n t = .ok (p, t')) :
    ∃ r, t = ⟨"bits", r⟩ :: ⟨"prime", p⟩ :: t' ∧ 0 ≤ r ∧ bitLen r = n ∧ isNextPrime r p = true := by
  unfold randomPrime at h
  obtain ⟨r, t1, hr, h⟩ := bind_ok_inv h
  obtain ⟨d, rfl, hk, rfl, h0, hb⟩ := randomBits_ok_inv hr
  cases t1 with
  | nil => cases h
  | cons d2 rest =>
    simp only at h
    split at h
    · cases h
    · next hk2 =>
      split at h
      · cases h
      · next hc =>
        simp only [CRes.ok.injEq, Prod.mk.injEq] at h
        obtain ⟨rfl, rfl⟩ := h
        refine ⟨d.v, ?_, h0, hb, by simpa using hc⟩
        obtain ⟨k, v⟩ := d
        obtain ⟨k2, v2⟩ := d2
        simp only [ne_eq, Classical.not_not] at hk hk2
        subst hk; subst hk2; rfl

/-! ### `TapeFree`: computations that do not touch the tape -/

/-- `x` neither reads nor consumes the tape: it returns a fixed value (or panics) on every tape
and hands the tape back unchanged. -/
def TapeFree {α} (x : M α) : Prop := ∃ o : Option α, ∀ t, x t = ofOpt o t

namespace TapeFree
variable {α β : Type}

theorem pure (a : α) : TapeFree (Pure.pure a : M α) := ⟨some a, fun _ => rfl⟩
theorem panic : TapeFree (Zk.Cl.panic : M α) := ⟨none, fun _ => rfl⟩
theorem ofOpt (o : Option α) : TapeFree (Zk.Cl.ofOpt o) := ⟨o, fun _ => rfl⟩
theorem idx (l : List α) (i : Nat) : TapeFree (Zk.Cl.idx l i) := ofOpt _
theorem pw (b e n : Int) : TapeFree (Zk.Cl.pw b e n) := ofOpt _

theorem bind {x : M α} {f : α → M β} (hx : TapeFree x) (hf : ∀ a, TapeFree (f a)) :
    TapeFree (x >>= f) := by
  obtain ⟨o, ho⟩ := hx
  cases o with
  | none => exact ⟨none, fun t => by rw [bind_of_panic (ho t)]; rfl⟩
  | some a =>
    obtain ⟨o', ho'⟩ := hf a
    exact ⟨o', fun t => by rw [bind_of_ok (ho t)]; exact ho' t⟩

theorem ite {c : Prop} [Decidable c] {x y : M α} (hx : TapeFree x) (hy : TapeFree y) :
    TapeFree (if c then x else y) := by split <;> assumption

theorem dite {c : Prop} [Decidable c] {x : c → M α} {y : ¬ c → M α} (hx : ∀ h, TapeFree (x h))
    (hy : ∀ h, TapeFree (y h)) : TapeFree (if h : c then x h else y h) := by
  split
  · exact hx _
  · exact hy _

/-- the tape is handed back unchanged. -/
theorem tape_eq {x : M α} (h : TapeFree x) {t t' : List Draw} {a : α} (hx : x t = .ok (a, t')) :
    t' = t := by
  obtain ⟨o, ho⟩ := h
  rw [ho] at hx
  exact (ofOpt_ok_iff.mp hx).2

/-- the outcome does not depend on the tape. -/
theorem indep {x : M α} (h : TapeFree x) {t t' : List Draw} {a : α} (hx : x t = .ok (a, t'))
    (t2 : List Draw) : x t2 = .ok (a, t2) := by
  obtain ⟨o, ho⟩ := h
  rw [ho] at hx
  rw [ho, (ofOpt_ok_iff.mp hx).1]; rfl

theorem indep_panic {x : M α} (h : TapeFree x) {t : List Draw} (hx : x t = .panic)
    (t2 : List Draw) : x t2 = .panic := by
  obtain ⟨o, ho⟩ := h
  rw [ho] at hx
  rw [ho, ofOpt_panic_iff.mp hx]; rfl

theorem ne_tape {x : M α} (h : TapeFree x) {t : List Draw} {m : String} : x t ≠ .tape m := by
  obtain ⟨o, ho⟩ := h
  rw [ho]; exact ofOpt_ne_tape

/-- on every tape: a value with the tape unchanged, or a panic. -/
theorem cases {x : M α} (h : TapeFree x) (t : List Draw) : (∃ a, x t = .ok (a, t)) ∨ x t = .panic := by
  obtain ⟨o, ho⟩ := h
  cases o with
  | none => exact Or.inr (ho t)
  | some a => exact Or.inl ⟨a, ho t⟩

end TapeFree

/-! ### the signature functions that do not draw -/

theorem prodPow_tapeFree (N : Int) (bases : List Int) (i : Nat) (msgs : List Int) (acc : Int) :
    TapeFree (prodPow N bases i msgs acc) := by
  induction msgs generalizing i acc with
  | nil => exact .pure _
  | cons m ms ih =>
    unfold prodPow
    exact .bind (.idx _ _) fun a => .bind (.pw _ _ _) fun x => ih _ _

theorem verify_tapeFree (cs : Suite) (σ : Signature) (pk : PublicKey) (bases : List Int) (msg : Int) :
    TapeFree (verify cs σ pk bases msg) := by
  unfold verify
  exact .bind (.pw _ _ _) fun _ => .bind (.idx _ _) fun _ => .bind (.pw _ _ _) fun _ =>
    .bind (.pw _ _ _) fun _ => .ite (.pure _) (.ite (.pure _) (.ite (.pure _) (.pure _)))

theorem verifyMultiattr_tapeFree (cs : Suite) (σ : Signature) (pk : PublicKey) (bases msgs : List Int) :
    TapeFree (verifyMultiattr cs σ pk bases msgs) := by
  unfold verifyMultiattr
  exact .ite .panic (.bind (.pw _ _ _) fun _ => .bind (prodPow_tapeFree _ _ _ _ _) fun _ =>
    .bind (.pw _ _ _) fun _ => .ite (.pure _) (.ite (.pure _) (.ite (.pure _) (.pure _))))

/-- `verify_multiattr` does not touch the tape. -/
theorem verifyMultiattr_tape {cs : Suite} {σ : Signature} {pk : PublicKey} {bases msgs : List Int}
    {t t' : List Draw} {b : Bool} (h : verifyMultiattr cs σ pk bases msgs t = .ok (b, t')) : t' = t :=
  (verifyMultiattr_tapeFree cs σ pk bases msgs).tape_eq h

theorem verify_tape {cs : Suite} {σ : Signature} {pk : PublicKey} {bases : List Int} {msg : Int}
    {t t' : List Draw} {b : Bool} (h : verify cs σ pk bases msg t = .ok (b, t')) : t' = t :=
  (verify_tapeFree cs σ pk bases msg).tape_eq h

theorem discloseLoop_tapeFree (N : Int) (msgs bases : List Int) (U : List Nat) (sm sb : List Int) :
    TapeFree (discloseLoop N msgs bases U sm sb) := by
  induction U generalizing sm sb with
  | nil => exact .pure _
  | cons i is ih =>
    unfold discloseLoop
    exact .bind (.idx _ _) fun _ => .bind (.idx _ _) fun _ => .bind (.pw _ _ _) fun _ =>
      .ite .panic (ih _ _)

theorem discloseSelectively_tapeFree (msgs bases : List Int) (pk : PublicKey) (U : List Nat) :
    TapeFree (discloseSelectively msgs bases pk U) := by
  unfold discloseSelectively
  exact .ite .panic (.ite (.pure _) (discloseLoop_tapeFree _ _ _ _ _ _))

theorem divm_tapeFree (a b m : Int) : TapeFree (divm a b m) := by
  unfold divm
  split
  · exact .pure _
  · dsimp only
    split
    · exact .panic
    · split
      · exact .pure _
      · exact .panic

theorem prodPowIdx_tapeFree (N : Int) (bases msgs : List Int) (ix : List Nat) (acc : Int) :
    TapeFree (prodPowIdx N bases msgs ix acc) := by
  induction ix generalizing acc with
  | nil => exact .pure _
  | cons i is ih =>
    unfold prodPowIdx
    exact .bind (.idx _ _) fun _ => .bind (.idx _ _) fun _ => .bind (.pw _ _ _) fun _ => ih _

theorem prodPowZip_tapeFree (N : Int) (bases : List Int) (ix : List Nat) (es : List Int) (acc : Int) :
    TapeFree (prodPowZip N bases ix es acc) := by
  induction ix generalizing es acc with
  | nil => exact .pure _
  | cons i is ih =>
    unfold prodPowZip
    exact .bind (.idx _ _) fun _ => .bind (.idx _ _) fun _ => .bind (.pw _ _ _) fun _ => ih _ _

theorem prodPowFirst_tapeFree (N : Int) (bases exps : List Int) (k i : Nat) (acc : Int) :
    TapeFree (prodPowFirst N bases exps k i acc) := by
  induction k generalizing i acc with
  | zero => exact .pure _
  | succ k ih =>
    unfold prodPowFirst
    exact .bind (.idx _ _) fun _ => .bind (.idx _ _) fun _ => .bind (.pw _ _ _) fun _ => ih _ _

theorem extendLoop_tapeFree (N : Int) (bases revealed : List Int) (ix : List Nat) (k : Nat) (acc : Int) :
    TapeFree (extendLoop N bases revealed ix k acc) := by
  induction ix generalizing k acc with
  | nil => exact .pure _
  | cons i is ih =>
    unfold extendLoop
    exact .bind (.idx _ _) fun _ => .bind (.idx _ _) fun _ => .bind (.pw _ _ _) fun _ => ih _ _

theorem responses_tapeFree (c : Int) (msgs : List Int) (ix : List Nat) (rs : List Int) :
    TapeFree (responses c msgs ix rs) := by
  induction ix generalizing rs with
  | nil => exact .pure _
  | cons i is ih =>
    unfold responses
    exact .bind (.idx _ _) fun _ => .bind (.idx _ _) fun _ => .bind (ih _) fun _ => .pure _

/-! ### `M` is a lawful monad; `mapM` -/

instance : LawfulMonad M := LawfulMonad.mk'
  (id_map := fun x => by
    funext t
    show (x >>= fun a => Pure.pure (id a)) t = x t
    rw [bind_apply]
    cases x t with
    | ok p => rfl
    | panic => rfl
    | tape m => rfl)
  (pure_bind := fun _ _ => rfl)
  (bind_assoc := fun x f g => by
    funext t
    simp only [bind_apply]
    cases x t with
    | ok p => rfl
    | panic => rfl
    | tape m => rfl)

theorem mapM_nil_apply {α β} (f : α → M β) (t : List Draw) : ([] : List α).mapM f t = .ok ([], t) := by
  rw [List.mapM_nil]; rfl

theorem mapM_cons_apply {α β} (f : α → M β) (a : α) (l : List α) (t : List Draw) :
    (a :: l).mapM f t = (do let b ← f a; let bs ← l.mapM f; Pure.pure (b :: bs) : M (List β)) t := by
  rw [List.mapM_cons]

theorem mapM_tapeFree {α β} {f : α → M β} (l : List α) (hf : ∀ a, TapeFree (f a)) :
    TapeFree (l.mapM f) := by
  induction l with
  | nil => rw [List.mapM_nil]; exact .pure _
  | cons a l ih => rw [List.mapM_cons]; exact .bind (hf a) fun _ => .bind ih fun _ => .pure _

/-- `ix.mapM (idx l)` collects `l[i]` for `i ∈ ix` (panics when one is out of range). -/
theorem mapM_idx_ok_iff {α} (l : List α) (ix : List Nat) (ys : List α) (t t' : List Draw) :
    ix.mapM (idx l) t = .ok (ys, t') ↔ ix.map (fun i => l[i]?) = ys.map some ∧ t' = t := by
  induction ix generalizing ys t' with
  | nil =>
    rw [mapM_nil_apply]
    cases ys with
    | nil => simp only [CRes.ok.injEq, Prod.mk.injEq, true_and, List.map_nil, eq_comm]
    | cons y ys =>
      simp only [CRes.ok.injEq, Prod.mk.injEq, List.map_nil, List.map_cons]
      constructor
      · rintro ⟨h, -⟩; cases h
      · rintro ⟨h, -⟩; cases h
  | cons i is ih =>
    rw [mapM_cons_apply]
    constructor
    · intro h
      obtain ⟨a, t1, h1, h3⟩ := bind_ok_inv h
      obtain ⟨bs, t2, h2, h4⟩ := bind_ok_inv h3
      obtain ⟨ha, rfl⟩ := idx_ok_iff.mp h1
      obtain ⟨hbs, rfl⟩ := (ih _ _).mp h2
      obtain ⟨rfl, rfl⟩ := pure_ok_iff.mp h4
      simp only [List.map_cons, ha, hbs, and_self]
    · rintro ⟨h, rfl⟩
      cases ys with
      | nil => simp at h
      | cons y ys =>
        simp only [List.map_cons, List.cons.injEq] at h
        rw [bind_of_ok (idx_ok_iff.mpr ⟨h.1, rfl⟩), bind_of_ok ((ih ys _).mpr ⟨h.2, rfl⟩)]
        rfl

theorem mapM_idx_of_lt {α} (l : List α) (ix : List Nat) (h : ∀ i ∈ ix, i < l.length) (t : List Draw) :
    ix.mapM (idx l) t = .ok (ix.pmap (fun i hi => l[i]'hi) h, t) := by
  rw [mapM_idx_ok_iff]
  refine ⟨?_, rfl⟩
  induction ix with
  | nil => rfl
  | cons i is ih =>
    simp only [List.map_cons, List.pmap_cons, List.cons.injEq]
    exact ⟨List.getElem?_eq_getElem _, ih fun j hj => h j (List.mem_cons_of_mem _ hj)⟩

end Zk.Cl

/-! ### appended: `if` under application, `drawE` inversion -/
namespace Zk.Cl
open Zk.IA

theorem ite_apply_tape {α} (c : Prop) [Decidable c] (x y : M α) (t : List Draw) :
    (if c then x else y) t = if c then x t else y t := by split <;> rfl

theorem ite_ok {α} (c : Prop) [Decidable c] (x y : α) (t : List Draw) :
    (if c then CRes.ok (x, t) else CRes.ok (y, t)) = CRes.ok (if c then x else y, t) := by
  split <;> rfl

/-- what a successful `drawE` read and returned: some rejected candidates (`pre`), then an
`le`-bit draw `r` and its next prime `e`, which passed the exit condition of the Rust loop. -/
theorem drawE_ok_inv {cs : Suite} {phi : Int} {fuel : Nat} {e : Int} {t t' : List Draw}
    (h : drawE cs phi fuel t = .ok (e, t')) :
    e > 2 ^ (cs.le - 1) ∧ e < 2 ^ cs.le ∧ IA.gcd e phi = 1 ∧
    ∃ pre r, t = pre ++ ⟨"bits", r⟩ :: ⟨"prime", e⟩ :: t' ∧ 0 ≤ r ∧ bitLen r = cs.le ∧
      isNextPrime r e = true := by
  induction fuel generalizing t with
  | zero => cases h
  | succ fuel ih =>
    unfold drawE at h
    obtain ⟨p, t1, hp, hrest⟩ := bind_ok_inv h
    obtain ⟨r, rfl, hr0, hrb, hnp⟩ := randomPrime_ok_inv hp
    rw [ite_apply_tape] at hrest
    split at hrest
    · next hc =>
      obtain ⟨rfl, rfl⟩ := pure_ok_iff.mp hrest
      exact ⟨hc.1, hc.2.1, hc.2.2, [], r, rfl, hr0, hrb, hnp⟩
    · obtain ⟨h1, h2, h3, pre, r', rfl, h4⟩ := ih hrest
      exact ⟨h1, h2, h3, ⟨"bits", r⟩ :: ⟨"prime", p⟩ :: pre, r', rfl, h4⟩

end Zk.Cl
