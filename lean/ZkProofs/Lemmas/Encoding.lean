/-
Injective-encoding lemmas: the octet strings the model feeds to `hash_to_scalar`
(`domainInput`, `challengeInput`, `blindChallengeInput`, `keygenInput`, `serializeScalars`)
determine the data they were built from.  Pure list/byte reasoning; the environment enters only
through the `Codec` laws (fixed width + injective encoders).

Contents
* `i2osp` / `os2ip`: length, round trips, injectivity below `256^n`.
* fixed-width prefix toolkit: `append_inj_of_length`, `flatMap_fixed_length`,
  `flatMap_fixed_inj_append(_on)`, `flatMap_fixed_inj(_on)`.
* `domainInput_injective`, `domainInput_injective_apiLen`, `domainInput_api_ambiguous`.
* `challengeInput_injective`, `blindChallengeInput_injective`,
  `keygenInput_injective_partial` (+ counterexample), `serializeScalars_injective`.
-/
import ZkProofs.Lawful
set_option linter.unusedSectionVars false
set_option linter.unusedVariables false
namespace Zk

/-! ### I2OSP / OS2IP -/

theorem i2ospAux_length (n x : Nat) : (i2ospAux n x).length = n := by
  induction n generalizing x with
  | zero => rfl
  | succ n ih => simp [i2ospAux, ih]

@[simp] theorem i2osp_length (n x : Nat) : (i2osp n x).length = n := i2ospAux_length n x

theorem os2ip_append_singleton (b : Bytes) (a : UInt8) :
    os2ip (b ++ [a]) = os2ip b * 256 + a.toNat := by
  simp [os2ip, List.foldl_append]

theorem os2ip_nil : os2ip [] = 0 := rfl

/-- `os2ip ∘ i2ospAux n` is reduction modulo `256^n` (the model's `i2osp` truncates). -/
theorem os2ip_i2ospAux (n x : Nat) : os2ip (i2ospAux n x) = x % 256 ^ n := by
  induction n generalizing x with
  | zero => simp [i2ospAux, os2ip, Nat.mod_one]
  | succ n ih =>
    rw [i2ospAux, os2ip_append_singleton, ih, UInt8.toNat_ofNat']
    have h : (256 : Nat) ^ (n + 1) = 256 * 256 ^ n := by rw [Nat.pow_succ, Nat.mul_comm]
    rw [h, Nat.mod_mul]
    have : x % 256 % 2 ^ 8 = x % 256 := by
      apply Nat.mod_eq_of_lt; exact Nat.mod_lt _ (by decide)
    rw [this]; ring

/-- `os2ip (i2osp n x) = x` when `x` fits in `n` bytes. -/
theorem os2ip_i2osp {n x : Nat} (h : x < 256 ^ n) : os2ip (i2osp n x) = x := by
  rw [i2osp, os2ip_i2ospAux, Nat.mod_eq_of_lt h]

/-- I2OSP is injective on numbers that fit. -/
theorem i2osp_injective {n x y : Nat} (hx : x < 256 ^ n) (hy : y < 256 ^ n)
    (h : i2osp n x = i2osp n y) : x = y := by
  have := congrArg os2ip h
  rwa [os2ip_i2osp hx, os2ip_i2osp hy] at this

/-- The 8-byte case with the bound written as the model's `usize` bound. -/
theorem i2osp8_injective {x y : Nat} (hx : x < 2 ^ 64) (hy : y < 2 ^ 64)
    (h : i2osp 8 x = i2osp 8 y) : x = y :=
  i2osp_injective (n := 8) (by simpa using hx) (by simpa using hy) h

theorem os2ip_lt (b : Bytes) : os2ip b < 256 ^ b.length := by
  induction b using List.reverseRecOn with
  | nil => simp [os2ip]
  | append_singleton l a ih =>
    rw [os2ip_append_singleton, List.length_append, List.length_singleton, Nat.pow_succ]
    have := UInt8.toNat_lt a
    omega

/-- `i2osp n (os2ip b) = b` for an `n`-byte string (OS2IP is injective on fixed length). -/
theorem i2osp_os2ip {n : Nat} {b : Bytes} (h : b.length = n) : i2osp n (os2ip b) = b := by
  subst h
  unfold i2osp
  induction b using List.reverseRecOn with
  | nil => rfl
  | append_singleton l a ih =>
    have ha := UInt8.toNat_lt a
    rw [List.length_append, List.length_singleton, i2ospAux, os2ip_append_singleton]
    have h1 : (os2ip l * 256 + a.toNat) / 256 = os2ip l := by omega
    have h2 : (os2ip l * 256 + a.toNat) % 256 = a.toNat := by omega
    rw [h1, h2, ih, UInt8.ofNat_toNat]

theorem os2ip_injective_of_length {b b' : Bytes} (hlen : b.length = b'.length)
    (h : os2ip b = os2ip b') : b = b' := by
  rw [← i2osp_os2ip (n := b.length) rfl, ← i2osp_os2ip (n := b.length) hlen.symm, h]

/-! ### Fixed-width prefix toolkit -/

/-- Equal-length prefixes of equal strings are equal, and so are the remainders. -/
theorem append_inj_of_length {α} {a a' r r' : List α} (h : a ++ r = a' ++ r')
    (hlen : a.length = a'.length) : a = a' ∧ r = r' := List.append_inj h hlen

theorem flatMap_fixed_length {α β} {enc : α → List β} {n : Nat} (hn : ∀ x, (enc x).length = n)
    (l : List α) : (l.flatMap enc).length = n * l.length := by
  induction l with
  | nil => simp
  | cons a l ih => simp [List.flatMap_cons, hn, ih, Nat.mul_succ, Nat.add_comm]

/-- Fixed-width encoder, injective on the elements that occur: the concatenated encodings of
two lists of the same length, each followed by arbitrary trailing data, determine both the lists
and the trailing data. -/
theorem flatMap_fixed_inj_append_on {α β} {enc : α → List β} {n : Nat}
    (hn : ∀ x, (enc x).length = n) :
    ∀ {l l' : List α} {r r' : List β},
      (∀ x ∈ l, ∀ y ∈ l', enc x = enc y → x = y) → l.length = l'.length →
      l.flatMap enc ++ r = l'.flatMap enc ++ r' → l = l' ∧ r = r'
  | [], [], r, r', _, _, h => ⟨rfl, by simpa using h⟩
  | [], _ :: _, _, _, _, hl, _ => by simp at hl
  | _ :: _, [], _, _, _, hl, _ => by simp at hl
  | a :: l, a' :: l', r, r', hinj, hl, h => by
    rw [List.flatMap_cons, List.flatMap_cons, List.append_assoc, List.append_assoc] at h
    obtain ⟨h1, h2⟩ := List.append_inj h (by rw [hn, hn])
    have haa : a = a' := hinj a (List.mem_cons_self) a' (List.mem_cons_self) h1
    obtain ⟨h3, h4⟩ := flatMap_fixed_inj_append_on hn
      (fun x hx y hy => hinj x (List.mem_cons_of_mem _ hx) y (List.mem_cons_of_mem _ hy))
      (by simpa using hl) h2
    exact ⟨by rw [haa, h3], h4⟩

theorem flatMap_fixed_inj_append {α β} {enc : α → List β} {n : Nat}
    (hn : ∀ x, (enc x).length = n) (hinj : Function.Injective enc) {l l' : List α}
    {r r' : List β} (hl : l.length = l'.length)
    (h : l.flatMap enc ++ r = l'.flatMap enc ++ r') : l = l' ∧ r = r' :=
  flatMap_fixed_inj_append_on hn (fun _ _ _ _ e => hinj e) hl h

/-- Without trailing data the common length follows from the total length (`0 < n`). -/
theorem flatMap_fixed_inj_on {α β} {enc : α → List β} {n : Nat} (hn : ∀ x, (enc x).length = n)
    (hpos : 0 < n) {l l' : List α} (hinj : ∀ x ∈ l, ∀ y ∈ l', enc x = enc y → x = y)
    (h : l.flatMap enc = l'.flatMap enc) : l = l' := by
  have hlen : l.length = l'.length := by
    have := congrArg List.length h
    rw [flatMap_fixed_length hn, flatMap_fixed_length hn] at this
    exact Nat.eq_of_mul_eq_mul_left hpos this
  exact (flatMap_fixed_inj_append_on (r := []) (r' := []) hn hinj hlen (by simpa using h)).1

theorem flatMap_fixed_inj {α β} {enc : α → List β} {n : Nat} (hn : ∀ x, (enc x).length = n)
    (hpos : 0 < n) (hinj : Function.Injective enc) {l l' : List α}
    (h : l.flatMap enc = l'.flatMap enc) : l = l' :=
  flatMap_fixed_inj_on hn hpos (fun _ _ _ _ e => hinj e) h

/-- Zipping is injective on pairs of lists of matching lengths. -/
theorem zip_inj {α β} {a a' : List α} {b b' : List β} (h1 : a.length = b.length)
    (h2 : a'.length = b'.length) (h : a.zip b = a'.zip b') : a = a' ∧ b = b' := by
  have := congrArg List.unzip h
  rw [List.unzip_zip h1, List.unzip_zip h2] at this
  exact Prod.mk.inj this

/-! ### The hash inputs of the model -/

section
variable {S G1 G2 : Type}

/-- `serialize(&[Scalar])` is injective (fixed 32-byte canonical scalar encoding). -/
theorem serializeScalars_injective_codec {env : Env S G1 G2} (cS : Codec env.sEnc env.sDec 32)
    {l l' : List S} (h : serializeScalars env l = serializeScalars env l') : l = l' :=
  flatMap_fixed_inj cS.enc_len (by decide) cS.enc_injective h

/-- Codec form of `domainInput_injective_apiLen`. -/
theorem domainInput_injective_codec {env : Env S G1 G2} (c1 : Codec env.g1Enc env.g1Dec 48)
    (c2 : Codec env.g2Enc env.g2Dec 96) {pk pk' : G2} {Q1 Q1' : G1} {Hs Hs' : List G1}
    {header header' apiId apiId' : Bytes}
    (hL : Hs.length < 2 ^ 64) (hL' : Hs'.length < 2 ^ 64) (hapi : apiId.length = apiId'.length)
    (h : domainInput env pk Q1 Hs header apiId = domainInput env pk' Q1' Hs' header' apiId') :
    pk = pk' ∧ Q1 = Q1' ∧ Hs = Hs' ∧ header = header' ∧ apiId = apiId' := by
  unfold domainInput at h
  simp only [List.append_assoc] at h
  obtain ⟨hpk, h⟩ := List.append_inj h (by rw [c2.enc_len, c2.enc_len])
  obtain ⟨hcnt, h⟩ := List.append_inj h (by simp)
  have hlen : Hs.length = Hs'.length := i2osp8_injective hL hL' hcnt
  obtain ⟨hQ, h⟩ := List.append_inj h (by rw [c1.enc_len, c1.enc_len])
  obtain ⟨hHs, h⟩ := flatMap_fixed_inj_append c1.enc_len c1.enc_injective hlen h
  obtain ⟨hapi', h⟩ := List.append_inj h hapi
  obtain ⟨_, hh⟩ := List.append_inj h (by simp)
  exact ⟨c2.enc_injective hpk, c1.enc_injective hQ, hHs, hh, hapi'⟩

/-- Codec form of `challengeInput_injective`. -/
theorem challengeInput_injective_codec {env : Env S G1 G2} (c1 : Codec env.g1Enc env.g1Dec 48)
    (cS : Codec env.sEnc env.sDec 32) {init init' : ProofInitResult S G1} {di di' : List Nat}
    {dm dm' : List S} {ph ph' : Bytes}
    (hlen : di.length = dm.length) (hlen' : di'.length = dm'.length)
    (hR : di.length < 2 ^ 64) (hR' : di'.length < 2 ^ 64)
    (hi : ∀ i ∈ di, i < 2 ^ 64) (hi' : ∀ i ∈ di', i < 2 ^ 64)
    (h : challengeInput env init di dm ph = challengeInput env init' di' dm' ph') :
    di = di' ∧ dm = dm' ∧ init = init' ∧ ph = ph' := by
  unfold challengeInput at h
  simp only [List.append_assoc] at h
  obtain ⟨hcnt, h⟩ := List.append_inj h (by simp)
  have hR'' : di.length = di'.length := i2osp8_injective hR hR' hcnt
  have hw : ∀ im : Nat × S, (i2osp 8 im.1 ++ env.sEnc im.2).length = 40 := fun im => by
    rw [List.length_append, i2osp_length, cS.enc_len]
  obtain ⟨hz, h⟩ := flatMap_fixed_inj_append_on (l := di.zip dm) (l' := di'.zip dm') hw
    (by
      rintro ⟨i, s⟩ hx ⟨j, t⟩ hy e
      obtain ⟨e1, e2⟩ := List.append_inj e (by simp)
      have hi1 := hi i (List.of_mem_zip hx).1
      have hj1 := hi' j (List.of_mem_zip hy).1
      rw [i2osp8_injective hi1 hj1 e1, cS.enc_injective (show env.sEnc s = env.sEnc t from e2)])
    (by simp [List.length_zip, ← hlen, ← hlen', hR'']) h
  obtain ⟨hdi, hdm⟩ := zip_inj hlen hlen' hz
  obtain ⟨hA, h⟩ := List.append_inj h (by rw [c1.enc_len, c1.enc_len])
  obtain ⟨hB, h⟩ := List.append_inj h (by rw [c1.enc_len, c1.enc_len])
  obtain ⟨hD, h⟩ := List.append_inj h (by rw [c1.enc_len, c1.enc_len])
  obtain ⟨hT1, h⟩ := List.append_inj h (by rw [c1.enc_len, c1.enc_len])
  obtain ⟨hT2, h⟩ := List.append_inj h (by rw [c1.enc_len, c1.enc_len])
  obtain ⟨hd, h⟩ := List.append_inj h (by rw [cS.enc_len, cS.enc_len])
  obtain ⟨_, hph⟩ := List.append_inj h (by simp)
  refine ⟨hdi, hdm, ?_, hph⟩
  cases init; cases init'
  simp only [ProofInitResult.mk.injEq]
  exact ⟨c1.enc_injective hA, c1.enc_injective hB, c1.enc_injective hD, c1.enc_injective hT1,
    c1.enc_injective hT2, cS.enc_injective hd⟩

/-- Codec form of `blindChallengeInput_injective`. No size hypothesis is needed: the total
length `8 + 48·|gens| + 96` already determines `|gens|`. -/
theorem blindChallengeInput_injective_codec {env : Env S G1 G2}
    (c1 : Codec env.g1Enc env.g1Dec 48) {C C' Cbar Cbar' : G1} {gens gens' : List G1}
    (h : blindChallengeInput env C Cbar gens = blindChallengeInput env C' Cbar' gens') :
    gens = gens' ∧ C = C' ∧ Cbar = Cbar' := by
  unfold blindChallengeInput at h
  have hlen : gens.length = gens'.length := by
    have := congrArg List.length h
    simp only [List.length_append, i2osp_length, flatMap_fixed_length c1.enc_len, c1.enc_len] at this
    omega
  simp only [List.append_assoc] at h
  obtain ⟨_, h⟩ := List.append_inj h (by simp)
  obtain ⟨hg, h⟩ := flatMap_fixed_inj_append c1.enc_len c1.enc_injective hlen h
  obtain ⟨hC, hCb⟩ := List.append_inj h (by rw [c1.enc_len, c1.enc_len])
  exact ⟨hg, c1.enc_injective hC, c1.enc_injective hCb⟩

/-- `keygenInput` is injective once the length of the key material is fixed. (It is NOT
injective in general, see the `example` below: the IETF draft puts no length prefix on
`key_material`. An observation about the specification, not a defect of the crate.) -/
theorem keygenInput_injective_partial {km km' ki ki' : Bytes} (hlen : km.length = km'.length)
    (h : keygenInput km ki = keygenInput km' ki') : km = km' ∧ ki = ki' := by
  unfold keygenInput at h
  simp only [List.append_assoc] at h
  obtain ⟨hkm, h⟩ := List.append_inj h hlen
  obtain ⟨_, hki⟩ := List.append_inj h (by simp)
  exact ⟨hkm, hki⟩

/-- Counterexample to unrestricted injectivity of `keygenInput`: two different
(key material, key info) pairs, both admissible for `key_gen` (≥ 32 bytes of key material,
key info ≤ 65535 bytes), with the same hash input. -/
example :
    keygenInput (List.replicate 32 0) [0, 0, 0] = keygenInput (List.replicate 32 0 ++ [0, 3, 0]) []
    ∧ (List.replicate 32 (0 : UInt8), ([0, 0, 0] : Bytes)) ≠ (List.replicate 32 0 ++ [0, 3, 0], [])
    := by decide

end

section
variable {S G1 G2 GT : Type} [Field S] [DecidableEq S]
variable [AddCommGroup G1] [Module S G1] [DecidableEq G1]
variable [AddCommGroup G2] [Module S G2] [DecidableEq G2]
variable [AddCommGroup GT] [Module S GT]
variable {env : Env S G1 G2} {pair : G1 →ₗ[S] G2 →ₗ[S] GT}

theorem serializeScalars_injective (hl : Lawful env pair) {l l' : List S}
    (h : serializeScalars env l = serializeScalars env l') : l = l' :=
  serializeScalars_injective_codec hl.sCodec h

/-- The domain hash input determines `(pk, Q1, Hs, header, apiId)` among inputs whose api ids
have the same length (generator counts below `2^64`, as `usize` guarantees). No bound on the
header is needed: once the api id is stripped the header is "everything after 8 bytes". -/
theorem domainInput_injective_apiLen (hl : Lawful env pair) {pk pk' : G2} {Q1 Q1' : G1}
    {Hs Hs' : List G1} {header header' apiId apiId' : Bytes}
    (hL : Hs.length < 2 ^ 64) (hL' : Hs'.length < 2 ^ 64) (hapi : apiId.length = apiId'.length)
    (h : domainInput env pk Q1 Hs header apiId = domainInput env pk' Q1' Hs' header' apiId') :
    pk = pk' ∧ Q1 = Q1' ∧ Hs = Hs' ∧ header = header' ∧ apiId = apiId' :=
  domainInput_injective_codec hl.g1Codec hl.g2Codec hL hL' hapi h

/-- The domain hash input determines `(pk, Q1, Hs, header)` for a fixed api id. -/
theorem domainInput_injective (hl : Lawful env pair) {pk pk' : G2} {Q1 Q1' : G1}
    {Hs Hs' : List G1} {header header' apiId : Bytes}
    (hL : Hs.length < 2 ^ 64) (hL' : Hs'.length < 2 ^ 64)
    (h : domainInput env pk Q1 Hs header apiId = domainInput env pk' Q1' Hs' header' apiId) :
    pk = pk' ∧ Q1 = Q1' ∧ Hs = Hs' ∧ header = header' := by
  obtain ⟨a, b, c, d, _⟩ := domainInput_injective_apiLen hl hL hL' rfl h
  exact ⟨a, b, c, d⟩

/-- For api ids of DIFFERENT lengths the input string alone is ambiguous (the api id has no
length prefix): moving `k` bytes from the end of the api id into a fake header-length/header
gives the same octets. Harmless in the model because the api id is also part of the DST of the
same hash call (`apiId ++ "H2S_"`), which then differs. Concrete witness: -/
theorem domainInput_api_ambiguous (pk : G2) (Q1 : G1) (Hs : List G1) :
    domainInput env pk Q1 Hs [] (i2osp 8 8) = domainInput env pk Q1 Hs (i2osp 8 0) [] := by
  unfold domainInput
  simp only [List.append_assoc, List.length_nil, i2osp_length, List.append_nil]

theorem challengeInput_injective (hl : Lawful env pair) {init init' : ProofInitResult S G1}
    {di di' : List Nat} {dm dm' : List S} {ph ph' : Bytes}
    (hlen : di.length = dm.length) (hlen' : di'.length = dm'.length)
    (hR : di.length < 2 ^ 64) (hR' : di'.length < 2 ^ 64)
    (hi : ∀ i ∈ di, i < 2 ^ 64) (hi' : ∀ i ∈ di', i < 2 ^ 64)
    (h : challengeInput env init di dm ph = challengeInput env init' di' dm' ph') :
    di = di' ∧ dm = dm' ∧ init.Abar = init'.Abar ∧ init.Bbar = init'.Bbar ∧ init.D = init'.D ∧
      init.T1 = init'.T1 ∧ init.T2 = init'.T2 ∧ init.domain = init'.domain ∧ ph = ph' := by
  obtain ⟨a, b, c, d⟩ :=
    challengeInput_injective_codec hl.g1Codec hl.sCodec hlen hlen' hR hR' hi hi' h
  subst c
  exact ⟨a, b, rfl, rfl, rfl, rfl, rfl, rfl, d⟩

theorem blindChallengeInput_injective (hl : Lawful env pair) {C C' Cbar Cbar' : G1}
    {gens gens' : List G1}
    (h : blindChallengeInput env C Cbar gens = blindChallengeInput env C' Cbar' gens') :
    gens = gens' ∧ C = C' ∧ Cbar = Cbar' :=
  blindChallengeInput_injective_codec hl.g1Codec h

end
end Zk
