/-
Lemmas for C15 / C17 (CL03 proof of knowledge of a signature, `nisp5Gen` / `nisp5Verify`,
`proofGen` / `proofVerify`).

* the unit group of `ℤ/N` written additively (`Grp N`), the representative `rp N x` of an integer
  that is invertible modulo `N`, the canonical integer `can N u ∈ [0, N)` of a group element;
  under `ArithOK` and `1 < N`: `pw b e N = pure (can N (e • rp N b))`, `divm 1 b N = pure (can N (-rp N b))`;
* the loops `prodPowFirst`, `prodPowIdx`, `mixLoop`, `drawR5`, the `mapM` producing `s5`.
-/
import ZkProofs.Lemmas.ClMonad
import Mathlib.Data.ZMod.Units
import Mathlib.RingTheory.Coprime.Lemmas
import Mathlib.Algebra.Group.TypeTags.Basic
import Mathlib.Algebra.BigOperators.Intervals
import Mathlib.Algebra.Module.BigOperators
import Mathlib.Tactic.Module
import Mathlib.Tactic.Abel
import Mathlib.FieldTheory.Finite.Basic

namespace Zk.ClSpok
open Zk.IA Zk.Cl

/-! ### the unit group modulo `N`, additively -/

/-- `(ℤ/N)ˣ` written additively, so that exponent arithmetic is `ℤ`-linear algebra (`module`). -/
def Grp (N : Int) : Type := Additive (ZMod N.toNat)ˣ

noncomputable instance (N : Int) : AddCommGroup (Grp N) :=
  inferInstanceAs (AddCommGroup (Additive (ZMod N.toNat)ˣ))

/-- the residue class (an invertible element of `ℤ/N`) of a group element. -/
def Grp.cv {N : Int} (u : Grp N) : ZMod N.toNat :=
  ((Additive.toMul (show Additive (ZMod N.toNat)ˣ from u) : (ZMod N.toNat)ˣ) : ZMod N.toNat)

def Grp.of {N : Int} (x : (ZMod N.toNat)ˣ) : Grp N := Additive.ofMul x

theorem Grp.cv_of {N : Int} (x : (ZMod N.toNat)ˣ) : (Grp.of x : Grp N).cv = (x : ZMod N.toNat) := rfl
theorem Grp.cv_add {N : Int} (u v : Grp N) : (u + v).cv = u.cv * v.cv := rfl
theorem Grp.cv_zero {N : Int} : (0 : Grp N).cv = 1 := rfl
theorem Grp.cv_nsmul {N : Int} (k : Nat) (u : Grp N) : (k • u).cv = u.cv ^ k := by
  induction k with
  | zero => rw [zero_nsmul, pow_zero]; rfl
  | succ k ih => rw [succ_nsmul, pow_succ, Grp.cv_add, ih]
theorem Grp.isUnit_cv {N : Int} (u : Grp N) : IsUnit u.cv := Units.isUnit _
theorem Grp.cv_inj {N : Int} {u v : Grp N} (h : u.cv = v.cv) : u = v := by
  have : (Additive.toMul (show Additive (ZMod N.toNat)ˣ from u)) =
      (Additive.toMul (show Additive (ZMod N.toNat)ˣ from v)) := Units.ext h
  exact Additive.toMul.injective this
theorem Grp.cv_neg_mul {N : Int} (u : Grp N) : (-u).cv * u.cv = 1 := by
  rw [← Grp.cv_add, neg_add_cancel, Grp.cv_zero]

/-- `x` is invertible modulo `N`. -/
def IsU (N x : Int) : Prop := IsUnit ((x : Int) : ZMod N.toNat)

/-- the class of an invertible `x` in `Grp N` (`0` for non-invertible `x`). -/
noncomputable def rpZ {N : Int} (a : ZMod N.toNat) : Grp N :=
  open Classical in if h : IsUnit a then Grp.of h.unit else 0

noncomputable def rp (N x : Int) : Grp N := rpZ ((x : Int) : ZMod N.toNat)

/-- the representative in `[0, N)` of a group element. -/
noncomputable def can (N : Int) (u : Grp N) : Int := ((u.cv.val : Nat) : Int)

theorem isU_of_gcd {N x : Int} (hN : 0 ≤ N) (h : Int.gcd x N = 1) : IsU N x := by
  unfold IsU
  rw [ZMod.coe_int_isUnit_iff_isCoprime, Int.isCoprime_iff_gcd_eq_one, Int.toNat_of_nonneg hN,
    Int.gcd_comm]
  exact h

theorem gcd_of_isU {N x : Int} (hN : 0 ≤ N) (h : IsU N x) : Int.gcd x N = 1 := by
  unfold IsU at h
  rw [ZMod.coe_int_isUnit_iff_isCoprime, Int.isCoprime_iff_gcd_eq_one, Int.toNat_of_nonneg hN,
    Int.gcd_comm] at h
  exact h

theorem cast_rp {N x : Int} (h : IsU N x) :
    (rp N x).cv = (x : ZMod N.toNat) := by
  have h' : IsUnit ((x : Int) : ZMod N.toNat) := h
  unfold rp rpZ
  rw [dif_pos h', Grp.cv_of]
  exact h'.unit_spec

theorem isU_congr {N x y : Int} (h : (x : ZMod N.toNat) = (y : ZMod N.toNat)) : IsU N x ↔ IsU N y := by
  unfold IsU; rw [h]

theorem rp_congr {N x y : Int} (h : (x : ZMod N.toNat) = (y : ZMod N.toNat)) : rp N x = rp N y := by
  unfold rp; rw [h]

theorem cast_tmod (N x : Int) (hN : 0 ≤ N) : ((tmod x N : Int) : ZMod N.toNat) = (x : ZMod N.toNat) := by
  unfold tmod
  rw [Int.tmod_def]
  have : ((N : Int) : ZMod N.toNat) = 0 := by
    have e : ((N : Int) : ZMod N.toNat) = (((N.toNat : Int)) : ZMod N.toNat) :=
      congrArg (fun z : Int => (z : ZMod N.toNat)) (Int.toNat_of_nonneg hN).symm
    rw [e, Int.cast_natCast, ZMod.natCast_self]
  push_cast
  rw [this]; ring

theorem isU_tmod {N x : Int} (hN : 0 ≤ N) : IsU N (tmod x N) ↔ IsU N x := isU_congr (cast_tmod N x hN)
theorem rp_tmod {N x : Int} (hN : 0 ≤ N) : rp N (tmod x N) = rp N x := rp_congr (cast_tmod N x hN)

theorem isU_mul {N x y : Int} (hx : IsU N x) (hy : IsU N y) : IsU N (x * y) := by
  unfold IsU at *; push_cast; exact hx.mul hy

theorem isU_one (N : Int) : IsU N 1 := by unfold IsU; simp

theorem rp_of_cast {N x : Int} {u : Grp N}
    (h : (x : ZMod N.toNat) = u.cv) :
    IsU N x ∧ rp N x = u := by
  have hu : IsU N x := by unfold IsU; rw [h]; exact u.isUnit_cv
  refine ⟨hu, ?_⟩
  apply Grp.cv_inj
  rw [cast_rp hu, h]

theorem rp_mul {N x y : Int} (hx : IsU N x) (hy : IsU N y) : rp N (x * y) = rp N x + rp N y := by
  refine (rp_of_cast ?_).2
  rw [Grp.cv_add, cast_rp hx, cast_rp hy]; push_cast; rfl

theorem rp_one (N : Int) : rp N 1 = 0 := by
  refine (rp_of_cast ?_).2
  rw [Grp.cv_zero]; simp

section
variable {N : Int}

theorem cast_can (hN : 1 < N) (u : Grp N) :
    ((can N u : Int) : ZMod N.toNat) = u.cv := by
  have : NeZero N.toNat := ⟨by omega⟩
  unfold can
  rw [Int.cast_natCast, ZMod.natCast_zmod_val]

theorem isU_can (hN : 1 < N) (u : Grp N) : IsU N (can N u) := (rp_of_cast (cast_can hN u)).1
theorem rp_can (hN : 1 < N) (u : Grp N) : rp N (can N u) = u := (rp_of_cast (cast_can hN u)).2

theorem can_nonneg (u : Grp N) : 0 ≤ can N u := by unfold can; exact Int.natCast_nonneg _

theorem can_lt (hN : 1 < N) (u : Grp N) : can N u < N := by
  have : NeZero N.toNat := ⟨by omega⟩
  unfold can
  have := ZMod.val_lt u.cv
  omega

/-- an integer congruent to the class `u` reduces to `can N u`. -/
theorem emod_eq_can (hN : 1 < N) {x : Int} {u : Grp N}
    (h : (x : ZMod N.toNat) = u.cv) :
    x % N = can N u := by
  have : NeZero N.toNat := ⟨by omega⟩
  unfold can
  rw [← h, ZMod.val_intCast, Int.toNat_of_nonneg (by omega)]

theorem emod_eq_can_rp (hN : 1 < N) {x : Int} (hx : IsU N x) : x % N = can N (rp N x) :=
  emod_eq_can hN (cast_rp hx).symm

/-- `x % N` (truncated, as in Rust) of a non-negative invertible `x` is the canonical representative. -/
theorem tmod_eq_can (hN : 1 < N) {x : Int} (hx : IsU N x) (h0 : 0 ≤ x) : tmod x N = can N (rp N x) := by
  unfold tmod
  rw [Int.tmod_eq_emod_of_nonneg h0, emod_eq_can_rp hN hx]

theorem can_inj (hN : 1 < N) {u v : Grp N} (h : can N u = can N v) : u = v := by
  rw [← rp_can hN u, ← rp_can hN v, h]

theorem eq_can_of_bounds (hN : 1 < N) {x : Int} (hx : IsU N x) (h0 : 0 ≤ x) (h1 : x < N) :
    x = can N (rp N x) := by
  rw [← emod_eq_can_rp hN hx, Int.emod_eq_of_lt h0 h1]

/-! ### `powMod`, `invMod`, `pw`, `divm` on invertible bases -/

theorem cast_pow_nat (b : Int) (hb : IsU N b) (k : Nat) :
    ((b ^ k : Int) : ZMod N.toNat) = ((k : Int) • rp N b).cv := by
  rw [natCast_zsmul, Grp.cv_nsmul, cast_rp hb]; push_cast; rfl

theorem invMod_unit (hA : ArithOK) (hN : 1 < N) {b : Int} (hb : IsU N b) :
    invMod b N = some (can N (-(rp N b))) := by
  cases h : invMod b N with
  | none => exact absurd (gcd_of_isU (by omega) hb) (hA.invMod_none b N hN h)
  | some r =>
    obtain ⟨h0, h1, h2⟩ := hA.invMod_some b N r hN h
    have hc : ((b : Int) : ZMod N.toNat) * (r : ZMod N.toNat) = 1 := by
      have : (((b * r : Int)) : ZMod N.toNat) = ((1 : Int) : ZMod N.toNat) := by
        rw [ZMod.intCast_eq_intCast_iff', Int.toNat_of_nonneg (by omega), h2]
        exact (Int.emod_eq_of_lt (by omega) hN).symm
      simpa using this
    have hr : (r : ZMod N.toNat) = (-(rp N b)).cv := by
      rw [← cast_rp hb] at hc
      have h3 := Grp.cv_neg_mul (rp N b)
      calc (r : ZMod N.toNat) = ((-(rp N b)).cv * (rp N b).cv) * r := by rw [h3, one_mul]
        _ = (-(rp N b)).cv := by rw [mul_assoc, hc, mul_one]
    obtain ⟨hu, hrp⟩ := rp_of_cast hr
    rw [← hrp, ← eq_can_of_bounds hN hu h0 h1]

theorem powMod_unit (hA : ArithOK) (hN : 1 < N) {b : Int} (hb : IsU N b) (e : Int) :
    powMod b e N = some (can N (e • rp N b)) := by
  by_cases he : 0 ≤ e
  · rw [hA.powMod_nonneg b e N (by omega) he]
    congr 1
    apply emod_eq_can hN
    rw [cast_pow_nat b hb]
    rw [Int.toNat_of_nonneg he]
  · have he' : e < 0 := by omega
    rw [hA.powMod_neg b e N (by omega) he', invMod_unit hA hN hb, Option.map_some]
    congr 1
    apply emod_eq_can hN
    rw [cast_pow_nat _ (isU_can hN _), rp_can hN, Int.toNat_of_nonneg (by omega)]
    have : (-e) • -(rp N b) = e • rp N b := by module
    rw [this]

theorem pw_unit (hA : ArithOK) (hN : 1 < N) {b : Int} (hb : IsU N b) (e : Int) :
    pw b e N = pure (can N (e • rp N b)) := by
  unfold pw; rw [powMod_unit hA hN hb]; rfl

theorem divm_one_unit (hA : ArithOK) (hN : 1 < N) {b : Int} (hb : IsU N b) :
    divm 1 b N = pure (can N (-(rp N b))) := by
  unfold divm
  rw [invMod_unit hA hN hb]
  simp only [mul_one]
  congr 1
  unfold tmod
  rw [Int.tmod_eq_emod_of_nonneg (can_nonneg _), Int.emod_eq_of_lt (can_nonneg _) (can_lt hN _)]

end

/-! ### list helpers -/

theorem idx_eq_pure {α} {l : List α} {i : Nat} (h : i < l.length) (d : α) :
    idx l i = pure (l.getD i d) := by
  unfold idx
  rw [List.getD_eq_getElem?_getD, List.getElem?_eq_getElem h]; rfl

theorem drop_cons_inv {α} {l : List α} {i : Nat} {x : α} {xs : List α} (h : l.drop i = x :: xs) :
    l[i]? = some x ∧ l.drop (i + 1) = xs := by
  constructor
  · have := List.getElem?_drop (xs := l) (i := i) (j := 0)
    rw [h] at this
    simpa using this.symm
  · have : l.drop (i + 1) = (l.drop i).drop 1 := by rw [List.drop_drop]
    rw [this, h]; rfl

theorem getD_mem {α} {l : List α} {i : Nat} (h : i < l.length) (d : α) : l.getD i d ∈ l := by
  rw [List.getD_eq_getElem?_getD, List.getElem?_eq_getElem h]; exact List.getElem_mem _

theorem sum_Ico_succ {A : Type} [AddCommMonoid A] (F : Nat → A) (i k : Nat) :
    ∑ j ∈ Finset.Ico i (i + (k + 1)), F j = F i + ∑ j ∈ Finset.Ico (i + 1) (i + 1 + k), F j := by
  rw [Finset.sum_eq_sum_Ico_succ_bot (by omega), show i + 1 + k = i + (k + 1) by omega]

theorem idx_of_getElem? {α} {l : List α} {i : Nat} {x : α} (h : l[i]? = some x) : idx l i = pure x := by
  unfold idx; rw [h]; rfl

/-- a strictly ascending list of indices below `n` is the list of positions it contains. -/
theorem filter_contains_eq {U : List Nat} {n : Nat} (hs : U.Pairwise (· < ·)) (hn : ∀ i ∈ U, i < n) :
    (List.range' 0 n).filter (fun i => U.contains i) = U := by
  refine List.Pairwise.eq_of_mem_iff (r := (· < ·)) ?_ hs ?_
  · exact List.Pairwise.filter _ (List.pairwise_lt_range')
  · intro a
    simp only [List.mem_filter, List.mem_range', List.contains_iff_mem]
    constructor
    · rintro ⟨-, h⟩; exact h
    · intro h; exact ⟨⟨a, by have := hn a h; omega, by omega⟩, h⟩

section loops
variable {N : Int}

/-! ### `prodPowFirst`, `prodPowIdx`, `mixLoop` -/

theorem prodPowFirst_spec (hA : ArithOK) (hN : 1 < N) (bases exps : List Int)
    (hb : ∀ a ∈ bases, IsU N a) (k i : Nat) (acc : Int)
    (h1 : i + k ≤ bases.length) (h2 : i + k ≤ exps.length) (h0 : 0 ≤ acc) (hu : IsU N acc) :
    ∃ P, prodPowFirst N bases exps k i acc = pure P ∧ 0 ≤ P ∧ IsU N P ∧
      rp N P = rp N acc + ∑ j ∈ Finset.Ico i (i + k), (exps.getD j 0) • rp N (bases.getD j 1) := by
  induction k generalizing i acc with
  | zero => exact ⟨acc, rfl, h0, hu, by simp⟩
  | succ k ih =>
    have hbi : IsU N (bases.getD i 1) := hb _ (getD_mem (by omega) 1)
    obtain ⟨P, hP, hP0, hPu, hPr⟩ := ih (i + 1) (acc * can N ((exps.getD i 0) • rp N (bases.getD i 1)))
      (by omega) (by omega) (mul_nonneg h0 (can_nonneg _)) (isU_mul hu (isU_can hN _))
    refine ⟨P, ?_, hP0, hPu, ?_⟩
    · unfold prodPowFirst
      rw [idx_eq_pure (show i < bases.length by omega) 1, idx_eq_pure (show i < exps.length by omega) 0]
      simp only [pure_bind, pw_unit hA hN hbi]
      exact hP
    · rw [hPr, rp_mul hu (isU_can hN _), rp_can hN, sum_Ico_succ]
      abel

theorem prodPowIdx_spec (hA : ArithOK) (hN : 1 < N) (bases msgs : List Int)
    (hb : ∀ a ∈ bases, IsU N a) (ix : List Nat) (acc : Int)
    (h1 : ∀ i ∈ ix, i < bases.length ∧ i < msgs.length) (h0 : 0 ≤ acc) (hu : IsU N acc) :
    ∃ P, prodPowIdx N bases msgs ix acc = pure P ∧ 0 ≤ P ∧ IsU N P ∧
      rp N P = rp N acc + (ix.map fun j => (msgs.getD j 0) • rp N (bases.getD j 1)).sum := by
  induction ix generalizing acc with
  | nil => exact ⟨acc, rfl, h0, hu, by simp⟩
  | cons i is ih =>
    have hi := h1 i (List.mem_cons_self ..)
    have hbi : IsU N (bases.getD i 1) := hb _ (getD_mem hi.1 1)
    obtain ⟨P, hP, hP0, hPu, hPr⟩ := ih (acc * can N ((msgs.getD i 0) • rp N (bases.getD i 1)))
      (fun j hj => h1 j (List.mem_cons_of_mem _ hj)) (mul_nonneg h0 (can_nonneg _))
      (isU_mul hu (isU_can hN _))
    refine ⟨P, ?_, hP0, hPu, ?_⟩
    · unfold prodPowIdx
      rw [idx_eq_pure hi.1 1, idx_eq_pure hi.2 0]
      simp only [pure_bind, pw_unit hA hN hbi]
      exact hP
    · rw [hPr, rp_mul hu (isU_can hN _), rp_can hN, List.map_cons, List.sum_cons]
      abel

theorem sum_map_range (n : Nat) {A : Type} [AddCommMonoid A] (f : Nat → A) :
    ((List.range n).map f).sum = ∑ j ∈ Finset.range n, f j := by
  rw [← List.sum_toFinset f (List.nodup_range), List.toFinset_range]

/-- the verifier's mixed product: hidden positions consume `s5` in order, revealed positions
consume `revealed` in order with exponent `m + m·c`. -/
theorem mixLoop_spec (hA : ArithOK) (hN : 1 < N) (bases s5 revealed : List Int) (U : List Nat) (c : Int)
    (hb : ∀ a ∈ bases, IsU N a) (f g : Nat → Int) (k i ih ir : Nat) (acc : Int)
    (h1 : i + k ≤ bases.length)
    (hs : s5.drop ih = ((List.range' i k).filter (fun j => U.contains j)).map f)
    (hr : revealed.drop ir = ((List.range' i k).filter (fun j => !U.contains j)).map g)
    (h0 : 0 ≤ acc) (hu : IsU N acc) :
    ∃ P, mixLoop N bases s5 revealed U c k i ih ir acc = pure P ∧ 0 ≤ P ∧ IsU N P ∧
      rp N P = rp N acc + ∑ j ∈ Finset.Ico i (i + k),
        (if U.contains j then f j else g j + g j * c) • rp N (bases.getD j 1) := by
  induction k generalizing i ih ir acc with
  | zero => exact ⟨acc, rfl, h0, hu, by simp⟩
  | succ k ihk =>
    have hbi : IsU N (bases.getD i 1) := hb _ (getD_mem (by omega) 1)
    rw [List.range'_succ] at hs hr
    by_cases hc : U.contains i = true
    · rw [List.filter_cons_of_pos (by simpa using hc), List.map_cons] at hs
      rw [List.filter_cons_of_neg (by rw [hc]; simp)] at hr
      obtain ⟨hs1, hs2⟩ := drop_cons_inv hs
      obtain ⟨P, hP, hP0, hPu, hPr⟩ := ihk (i + 1) (ih + 1) ir
        (acc * can N ((f i) • rp N (bases.getD i 1))) (by omega) hs2 hr
        (mul_nonneg h0 (can_nonneg _)) (isU_mul hu (isU_can hN _))
      refine ⟨P, ?_, hP0, hPu, ?_⟩
      · unfold mixLoop
        rw [if_pos hc, idx_eq_pure (show i < bases.length by omega) 1, idx_of_getElem? hs1]
        simp only [pure_bind, pw_unit hA hN hbi]
        exact hP
      · rw [hPr, rp_mul hu (isU_can hN _), rp_can hN, sum_Ico_succ, if_pos hc]
        abel
    · rw [List.filter_cons_of_neg (by simpa using hc)] at hs
      rw [List.filter_cons_of_pos (by simpa using hc), List.map_cons] at hr
      obtain ⟨hr1, hr2⟩ := drop_cons_inv hr
      obtain ⟨P, hP, hP0, hPu, hPr⟩ := ihk (i + 1) ih (ir + 1)
        (acc * can N ((g i + g i * c) • rp N (bases.getD i 1))) (by omega) hs hr2
        (mul_nonneg h0 (can_nonneg _)) (isU_mul hu (isU_can hN _))
      refine ⟨P, ?_, hP0, hPu, ?_⟩
      · unfold mixLoop
        rw [if_neg hc, idx_eq_pure (show i < bases.length by omega) 1, idx_of_getElem? hr1]
        simp only [pure_bind, pw_unit hA hN hbi]
        exact hP
      · rw [hPr, rp_mul hu (isU_can hN _), rp_can hN, sum_Ico_succ, if_neg hc]
        abel

end loops

/-! ### the generator side: commitments, `drawR5`, the responses `s5` -/

section gen
variable {N : Int}

theorem ok_inj {α} {a b : α} {t t' : List Draw} (h : (CRes.ok (a, t) : CRes (α × List Draw)) = .ok (b, t')) :
    a = b ∧ t = t' := by
  simp only [CRes.ok.injEq, Prod.mk.injEq] at h; exact h

/-- `commit_with_commitment_pk`: the value is `Π g_j^{m_j} · h^r` (canonical representative), the
randomness is a non-negative draw. -/
theorem commitWithCpk_inv (hA : ArithOK) {cs : Suite} {msgs : List Int} {cpk : CommitmentPK}
    (hN : 1 < cpk.N) (hg : ∀ g ∈ cpk.gBases, IsU cpk.N g) (hh : IsU cpk.N cpk.h)
    (ix : Option (List Nat))
    (hix : ∀ i ∈ ix.getD (List.range msgs.length), i < cpk.gBases.length ∧ i < msgs.length)
    {C : Commitment} {t t' : List Draw} (h : commitWithCpk cs msgs cpk ix t = .ok (C, t')) :
    0 ≤ C.randomness ∧
    C.value = can cpk.N (((ix.getD (List.range msgs.length)).map fun j =>
        (msgs.getD j 0) • rp cpk.N (cpk.gBases.getD j 1)).sum + C.randomness • rp cpk.N cpk.h) := by
  unfold commitWithCpk at h
  obtain ⟨r, t1, hr, h⟩ := bind_ok_inv h
  obtain ⟨-, -, -, -, hr0, -⟩ := randomBits_ok_inv hr
  obtain ⟨P, hP, hP0, hPu, hPr⟩ := prodPowIdx_spec hA hN cpk.gBases msgs hg
    (ix.getD (List.range msgs.length)) 1 hix (by omega) (isU_one _)
  rw [hP] at h
  simp only [pure_bind, pw_unit hA hN hh, pure_apply] at h
  obtain ⟨rfl, -⟩ := ok_inj h
  refine ⟨hr0, ?_⟩
  show tmod _ _ = _
  rw [tmod_eq_can hN (isU_mul hPu (isU_can hN _)) (mul_nonneg hP0 (can_nonneg _)),
    rp_mul hPu (isU_can hN _), rp_can hN, hPr, rp_one, zero_add]

/-- `commit_v`: `C_v = v · g_0^w`. -/
theorem commitV_inv (hA : ArithOK) {cs : Suite} {v : Int} {cpk : CommitmentPK}
    (hN : 1 < cpk.N) (hg : ∀ g ∈ cpk.gBases, IsU cpk.N g) (hlen : 0 < cpk.gBases.length)
    {C : Commitment} {t t' : List Draw} (h : commitV cs v cpk t = .ok (C, t')) :
    0 ≤ C.randomness ∧
    C.value = tmod (v * can cpk.N (C.randomness • rp cpk.N (cpk.gBases.getD 0 1))) cpk.N := by
  unfold commitV at h
  obtain ⟨r, t1, hr, h⟩ := bind_ok_inv h
  obtain ⟨-, -, -, -, hr0, -⟩ := randomBits_ok_inv hr
  rw [idx_eq_pure hlen 1] at h
  simp only [pure_bind, pw_unit hA hN (hg _ (getD_mem hlen 1)), pure_apply] at h
  obtain ⟨rfl, -⟩ := ok_inj h
  exact ⟨hr0, rfl⟩

/-- `r_5`: as long as the message list, and equal to the message at every revealed position. -/
theorem drawR5_inv {nb : Nat} {msgs : List Int} {U : List Nat} (k i : Nat) {r5 : List Int}
    {t t' : List Draw} (h : drawR5 nb msgs U k i t = .ok (r5, t')) :
    r5.length = k ∧ ∀ j, j < k → U.contains (i + j) = false → r5[j]? = msgs[i + j]? ∧ i + j < msgs.length := by
  induction k generalizing i r5 t t' with
  | zero =>
    unfold drawR5 at h
    obtain ⟨rfl, -⟩ := ok_inj h
    exact ⟨rfl, fun j hj => absurd hj (by omega)⟩
  | succ k ih =>
    unfold drawR5 at h
    obtain ⟨x, t1, hx, h⟩ := bind_ok_inv h
    obtain ⟨xs, t2, hxs, h⟩ := bind_ok_inv h
    obtain ⟨rfl, -⟩ := ok_inj h
    obtain ⟨hl, hrest⟩ := ih (i + 1) hxs
    refine ⟨by simp [hl], fun j hj hc => ?_⟩
    cases j with
    | zero =>
      rw [Nat.add_zero] at hc ⊢
      rw [hc] at hx
      simp only [Bool.false_eq_true, if_false] at hx
      obtain ⟨hm, -⟩ := idx_ok_iff.mp hx
      refine ⟨by simp [hm], ?_⟩
      by_contra hlt
      rw [List.getElem?_eq_none (by omega)] at hm; cases hm
    | succ j =>
      have := hrest j (by omega) (by rw [show i + 1 + j = i + (j + 1) by omega]; exact hc)
      rw [show i + 1 + j = i + (j + 1) by omega] at this
      exact ⟨by simpa using this.1, this.2⟩

/-- the hidden responses are listed in the order of `U`; all members of `U` are valid positions. -/
theorem s5_inv {r5 msgs : List Int} {c : Int} (U : List Nat) {s5 : List Int} {t t' : List Draw}
    (h : U.mapM (fun i => (do
      let r ← idx r5 i
      let m ← idx msgs i
      pure (r + m * c) : M Int)) t = .ok (s5, t')) :
    s5 = U.map (fun i => r5.getD i 0 + msgs.getD i 0 * c) ∧ t' = t ∧
      ∀ i ∈ U, i < r5.length ∧ i < msgs.length := by
  induction U generalizing s5 t t' with
  | nil =>
    rw [mapM_nil_apply] at h
    obtain ⟨rfl, rfl⟩ := ok_inj h
    exact ⟨rfl, rfl, fun i hi => absurd hi (by simp)⟩
  | cons i is ih =>
    rw [mapM_cons_apply] at h
    obtain ⟨b, t1, hb, h⟩ := bind_ok_inv h
    obtain ⟨bs, t2, hbs, h⟩ := bind_ok_inv h
    obtain ⟨rfl, rfl⟩ := ok_inj h
    obtain ⟨r, t3, hr, hb⟩ := bind_ok_inv hb
    obtain ⟨m, t4, hm, hb⟩ := bind_ok_inv hb
    obtain ⟨rfl, rfl⟩ := ok_inj hb
    obtain ⟨hr', rfl⟩ := idx_ok_iff.mp hr
    obtain ⟨hm', rfl⟩ := idx_ok_iff.mp hm
    obtain ⟨rfl, rfl, hall⟩ := ih hbs
    have h1 : i < r5.length := by
      by_contra hlt; rw [List.getElem?_eq_none (by omega)] at hr'; cases hr'
    have h2 : i < msgs.length := by
      by_contra hlt; rw [List.getElem?_eq_none (by omega)] at hm'; cases hm'
    refine ⟨?_, rfl, ?_⟩
    · simp only [List.map_cons, List.getD_eq_getElem?_getD, hr', hm', Option.getD_some]
    · intro j hj
      rcases List.mem_cons.mp hj with rfl | hj
      · exact ⟨h1, h2⟩
      · exact hall j hj

end gen

/-! ### normal forms of products of canonical representatives -/

section nf
variable {N : Int}

/-- non-negative and invertible: what every product of `pow_mod` outputs is. -/
def Good (N x : Int) : Prop := 0 ≤ x ∧ IsU N x

theorem good_can (hN : 1 < N) (u : Grp N) : Good N (can N u) := ⟨can_nonneg _, isU_can hN _⟩
theorem good_mul {x y : Int} (hx : Good N x) (hy : Good N y) : Good N (x * y) :=
  ⟨mul_nonneg hx.1 hy.1, isU_mul hx.2 hy.2⟩
theorem good_one : Good N 1 := ⟨by omega, isU_one _⟩
theorem tmod_good (hN : 1 < N) {x : Int} (hx : Good N x) : tmod x N = can N (rp N x) :=
  tmod_eq_can hN hx.2 hx.1
theorem rp_mul_good {x y : Int} (hx : Good N x) (hy : Good N y) : rp N (x * y) = rp N x + rp N y :=
  rp_mul hx.2 hy.2
theorem good_tmod (hN : 1 < N) {x : Int} (hx : Good N x) : Good N (tmod x N) := by
  rw [tmod_good hN hx]; exact good_can hN _

theorem pw_can (hA : ArithOK) (hN : 1 < N) (u : Grp N) (e : Int) :
    pw (can N u) e N = pure (can N (e • u)) := by
  rw [pw_unit hA hN (isU_can hN u), rp_can hN]

theorem divm_one_can (hA : ArithOK) (hN : 1 < N) (u : Grp N) :
    divm 1 (can N u) N = pure (can N (-u)) := by
  rw [divm_one_unit hA hN (isU_can hN u), rp_can hN]

end nf

/-! ### what an accepted signature satisfies -/

section sig
variable {N : Int}

theorem prodPow_spec (hA : ArithOK) (hN : 1 < N) (bases : List Int) (hb : ∀ a ∈ bases, IsU N a)
    (msgs : List Int) (i : Nat) (acc : Int) (h1 : i + msgs.length ≤ bases.length) (hg : Good N acc) :
    ∃ P, prodPow N bases i msgs acc = pure P ∧ Good N P ∧
      rp N P = rp N acc + ∑ j ∈ Finset.range msgs.length, (msgs.getD j 0) • rp N (bases.getD (i + j) 1) := by
  induction msgs generalizing i acc with
  | nil => exact ⟨acc, rfl, hg, by simp⟩
  | cons m ms ih =>
    simp only [List.length_cons] at h1
    have hbi : IsU N (bases.getD i 1) := hb _ (getD_mem (by omega) 1)
    obtain ⟨P, hP, hPg, hPr⟩ := ih (i + 1) (acc * can N (m • rp N (bases.getD i 1))) (by omega)
      (good_mul hg (good_can hN _))
    refine ⟨P, ?_, hPg, ?_⟩
    · unfold prodPow
      rw [idx_eq_pure (show i < bases.length by omega) 1]
      simp only [pure_bind, pw_unit hA hN hbi]
      exact hP
    · rw [hPr, rp_mul_good hg (good_can hN _), rp_can hN, List.length_cons, Finset.sum_range_succ']
      simp only [List.getD_cons_succ, List.getD_cons_zero, Nat.add_zero]
      have : ∀ j, i + 1 + j = i + (j + 1) := fun j => by omega
      simp only [this]
      abel

/-- An accepted signature: `v` is invertible, is the reduced representative of its residue (`0 < v < N`),
and `v^e = Π aᵢ^{mᵢ} · b^s · c` in `(ℤ/N)ˣ`; `e` and the messages are in range. -/
theorem verifyMultiattr_true_inv (hA : ArithOK) {cs : Suite} {σ : Signature} {pk : PublicKey}
    {bases msgs : List Int} (hN : 1 < pk.N) (ha : ∀ a ∈ bases, IsU pk.N a) (hb : IsU pk.N pk.b)
    (hc : IsU pk.N pk.c) {t t' : List Draw}
    (h : verifyMultiattr cs σ pk bases msgs t = .ok (true, t')) :
    msgs.length ≤ bases.length ∧ 2 ^ (cs.le - 1) < σ.e ∧ σ.e < 2 ^ cs.le ∧
      (∀ m ∈ msgs, 0 ≤ m ∧ m < 2 ^ cs.lm) ∧ IsU pk.N σ.v ∧ (0 < σ.v ∧ σ.v < pk.N) ∧
      σ.e • rp pk.N σ.v =
        (∑ j ∈ Finset.range msgs.length, (msgs.getD j 0) • rp pk.N (bases.getD j 1))
          + σ.s • rp pk.N pk.b + rp pk.N pk.c := by
  unfold verifyMultiattr at h
  split at h
  · cases h
  rename_i hlen
  obtain ⟨lhs, t1, hl, h⟩ := bind_ok_inv h
  obtain ⟨hl, -⟩ := pw_ok_iff.mp hl
  obtain ⟨P, hP, hPg, hPr⟩ := prodPow_spec hA hN bases ha msgs 0 1 (by omega) good_one
  rw [hP] at h
  simp only [pure_bind, pw_unit hA hN hb] at h
  split at h
  · cases h
  rename_i hany
  split at h
  · cases h
  rename_i he
  split at h
  · cases h
  rename_i hvr
  obtain ⟨heq, -⟩ := ok_inj h
  rw [beq_iff_eq] at heq
  have he1 : 2 ^ (cs.le - 1) < σ.e ∧ σ.e < 2 ^ cs.le := by omega
  have hpos : (0 : Int) < 2 ^ (cs.le - 1) := pow_pos (by norm_num) _
  have he0 : 0 ≤ σ.e := by omega
  rw [hA.powMod_nonneg _ _ _ (by omega) he0] at hl
  obtain rfl := Option.some.inj hl
  -- casts
  have hcast : ((σ.v ^ σ.e.toNat : Int) : ZMod pk.N.toNat) =
      (rp pk.N P + σ.s • rp pk.N pk.b + rp pk.N pk.c).cv := by
    have h1 : ((σ.v ^ σ.e.toNat % pk.N : Int) : ZMod pk.N.toNat) = ((σ.v ^ σ.e.toNat : Int) : ZMod pk.N.toNat) := by
      rw [ZMod.intCast_eq_intCast_iff', Int.toNat_of_nonneg (by omega), Int.emod_emod_of_dvd _ (dvd_refl _)]
    rw [← h1, heq, cast_tmod _ _ (by omega), Grp.cv_add, Grp.cv_add, cast_rp hPg.2, cast_rp hc,
      ← cast_can hN]
    push_cast; rfl
  have hvu : IsU pk.N σ.v := by
    have : IsUnit (((σ.v : Int) : ZMod pk.N.toNat) ^ σ.e.toNat) := by
      have := Grp.isUnit_cv (rp pk.N P + σ.s • rp pk.N pk.b + rp pk.N pk.c)
      rw [← hcast] at this; simpa using this
    exact (isUnit_pow_iff (by omega)).mp this
  refine ⟨by omega, he1.1, he1.2, ?_, hvu, by omega, ?_⟩
  · intro m hm
    by_contra hcon
    apply hany
    rw [List.any_eq_true]
    exact ⟨m, hm, by simp only [decide_eq_true_eq]; omega⟩
  · rw [cast_pow_nat _ hvu, Int.toNat_of_nonneg he0] at hcast
    rw [Grp.cv_inj hcast, hPr, rp_one, zero_add]
    simp only [Nat.zero_add]

end sig

/-! ### order relations, Euler -/

section order
variable {N : Int}

/-- `k • [x] = 0` in `(ℤ/N)ˣ` with `k ≠ 0` is an `OrderRelation` on `x`. -/
theorem orderRelation_of_zsmul (hN : 1 < N) {x : Int} (hx : IsU N x) {k : Int} (hk : k ≠ 0)
    (h : k • rp N x = 0) : OrderRelation N x := by
  refine ⟨k.natAbs, by omega, ?_⟩
  have h2 : ((k.natAbs : Nat) : Int) • rp N x = 0 := by
    rcases Int.natAbs_eq k with e | e
    · rw [← e]; exact h
    · have : ((k.natAbs : Nat) : Int) = -k := by omega
      rw [this, neg_smul, h, neg_zero]
  have h3 := cast_pow_nat x hx k.natAbs
  rw [h2, Grp.cv_zero] at h3
  have h4 : ((x ^ k.natAbs : Int) : ZMod N.toNat) = ((1 : Int) : ZMod N.toNat) := by
    rw [h3]; simp
  rw [ZMod.intCast_eq_intCast_iff', Int.toNat_of_nonneg (by omega)] at h4
  exact h4

/-- Euler: `φ(N) • u = 0`. -/
theorem totient_nsmul (u : Grp N) : (Nat.totient N.toNat) • u = 0 := by
  apply Grp.cv_inj
  rw [Grp.cv_nsmul, Grp.cv_zero]
  have := ZMod.pow_totient (Additive.toMul (show Additive (ZMod N.toNat)ˣ from u))
  have h2 := congrArg (fun z : (ZMod N.toNat)ˣ => (z : ZMod N.toNat)) this
  simp only [Units.val_pow_eq_pow_val, Units.val_one] at h2
  exact h2

end order

/-! ### the challenge hash: equal challenges mean equal inputs, or a collision -/

section hash

private theorem compress_size (h : Array UInt32) (blk : Array UInt8) (off : Nat) :
    (Sha256.compress h blk off).size = 8 := by
  unfold Sha256.compress
  simp only [Id.run, bind, pure]
  rfl

private theorem serialize_length (h : Array UInt32) : (Sha256.serialize h).length = 4 * h.size := by
  unfold Sha256.serialize
  rw [List.length_flatMap]
  simp; omega

private theorem foldl_compress_size (p : Array UInt8) (l : List Nat) (h : Array UInt32) (hs : h.size = 8) :
    (l.foldl (fun s i => Sha256.compress s p (64 * i)) h).size = 8 := by
  induction l generalizing h with
  | nil => exact hs
  | cons a l ih => exact ih _ (compress_size _ _ _)

/-- The model's SHA-256 always returns 32 bytes (same proof as in `ClRange.lean`). -/
theorem sha256_length' (m : Bytes) : (sha256 m).length = 32 := by
  unfold sha256
  simp only [Id.run, bind, pure]
  rw [serialize_length]
  simp
  have := List.forIn_pure_yield_eq_foldl (m := Id) (l := List.range' 0 ((Sha256.pad m).size / 64))
    (fun i s => Sha256.compress s (Sha256.pad m) (64 * i)) Sha256.H0
  simp only [pure] at this
  rw [this, foldl_compress_size _ _ _ rfl]

private theorem os2ip_foldl_inj (b b' : Bytes) (acc acc' : Nat) (hl : b.length = b'.length)
    (h : b.foldl (fun acc x => acc * 256 + x.toNat) acc = b'.foldl (fun acc x => acc * 256 + x.toNat) acc') :
    acc = acc' ∧ b = b' := by
  induction b generalizing b' acc acc' with
  | nil =>
    cases b' with
    | nil => exact ⟨h, rfl⟩
    | cons y ys => simp at hl
  | cons x xs ih =>
    cases b' with
    | nil => simp at hl
    | cons y ys =>
      simp only [List.length_cons, Nat.add_right_cancel_iff] at hl
      simp only [List.foldl_cons] at h
      obtain ⟨h1, h2⟩ := ih ys _ _ hl h
      have hx := UInt8.toNat_lt x
      have hy := UInt8.toNat_lt y
      have h3 : x.toNat = y.toNat := by omega
      exact ⟨by omega, by rw [UInt8.toNat_inj.mp h3, h2]⟩

/-- OS2IP is injective on strings of equal length. -/
theorem os2ip_inj_of_length {b b' : Bytes} (hl : b.length = b'.length) (h : os2ip b = os2ip b') :
    b = b' := (os2ip_foldl_inj b b' 0 0 hl h).2

/-- Equal challenges: equal input tuples, or two tuples with the same decimal concatenation, or a
SHA-256 collision. -/
theorem hashInts_inj {l l' : List Int} (h : hashInts l = hashInts l') :
    l = l' ∨ ConcatAmbiguity ∨ ClHashCollision := by
  by_cases hl : l = l'
  · exact Or.inl hl
  right
  by_cases hb : l.flatMap decimalBytes = l'.flatMap decimalBytes
  · exact Or.inl ⟨l, l', hl, hb⟩
  · right
    refine ⟨_, _, hb, ?_⟩
    unfold hashInts at h
    exact os2ip_inj_of_length (by rw [sha256_length', sha256_length']) (Int.ofNat.inj h)

theorem hashInts_nonneg' (l : List Int) : 0 ≤ hashInts l := by
  unfold hashInts; exact Int.natCast_nonneg _

end hash

/-! ### the verifier's view: every sub-computation of an accepting (or rejecting) run -/

theorem tapeFree_eq_pure {α} {x : M α} (h : TapeFree x) {t t' : List Draw} {a : α}
    (hx : x t = .ok (a, t')) : x = pure a := by
  funext t2
  exact h.indep hx t2

theorem pw_eq_pure_of_ok {b e n x : Int} {t t' : List Draw} (h : pw b e n t = .ok (x, t')) :
    pw b e n = pure x := tapeFree_eq_pure (TapeFree.pw b e n) h

theorem powMod_of_pw_eq_pure {b e n x : Int} (h : pw b e n = pure x) : powMod b e n = some x := by
  have := congrFun h []
  exact (pw_ok_iff.mp this).1

theorem mixLoop_tapeFree (N : Int) (bases s5 rev : List Int) (U : List Nat) (c : Int)
    (k i ih ir : Nat) (acc : Int) : TapeFree (mixLoop N bases s5 rev U c k i ih ir acc) := by
  induction k generalizing i ih ir acc with
  | zero => exact .pure _
  | succ k ihk =>
    unfold mixLoop
    exact .ite (.bind (.idx _ _) fun _ => .bind (.idx _ _) fun _ => .bind (.pw _ _ _) fun _ => ihk _ _ _ _)
      (.bind (.idx _ _) fun _ => .bind (.idx _ _) fun _ => .bind (.pw _ _ _) fun _ => ihk _ _ _ _)

/-- Everything `nisp5_MultiAttr_verify_proof` computes on the way to its five hash inputs. -/
structure View (π : SignaturePoK) (cpk : CommitmentPK) (pk : PublicKey) (bases rev : List Int)
    (U : List Nat) (n : Nat) where
  (tCx g0 a itCx ib ib6 ig ig8 cc g7 h1 cw cw4 ih ih2 m4 h3 cx g4 h9 ce : Int)
  e_tCx : mixLoop pk.N bases π.s5 rev U π.challenge n 0 0 0 1 = pure tCx
  e_g0 : idx cpk.gBases 0 = pure g0
  e_a : pw π.Cv.value π.s4 pk.N = pure a
  e_itCx : divm 1 (tmod tCx pk.N) pk.N = pure itCx
  e_ib : divm 1 pk.b pk.N = pure ib
  e_ib6 : pw ib π.s6 pk.N = pure ib6
  e_ig : divm 1 g0 pk.N = pure ig
  e_ig8 : pw ig π.s8 pk.N = pure ig8
  e_cc : pw pk.c (-π.challenge) pk.N = pure cc
  e_g7 : pw g0 π.s7 pk.N = pure g7
  e_h1 : pw cpk.h π.s1 pk.N = pure h1
  e_cw : pw π.Cw.value (-π.challenge) pk.N = pure cw
  e_cw4 : pw π.Cw.value π.s4 pk.N = pure cw4
  e_ih : divm 1 cpk.h pk.N = pure ih
  e_ih2 : pw ih π.s2 pk.N = pure ih2
  e_m4 : mixLoop pk.N cpk.gBases π.s5 rev U π.challenge n 0 0 0 1 = pure m4
  e_h3 : pw cpk.h π.s3 pk.N = pure h3
  e_cx : pw π.Cx.value (-π.challenge) pk.N = pure cx
  e_g4 : pw g0 π.s4 pk.N = pure g4
  e_h9 : pw cpk.h π.s9 pk.N = pure h9
  e_ce : pw π.Ce.value (-π.challenge) pk.N = pure ce

namespace View
variable {π : SignaturePoK} {cpk : CommitmentPK} {pk : PublicKey} {bases rev : List Int}
  {U : List Nat} {n : Nat} (v : View π cpk pk bases rev U n)

def in1 : Int := tmod (v.a * v.itCx * v.ib6 * v.ig8 * v.cc) pk.N
def in2 : Int := tmod (v.g7 * v.h1 * v.cw) pk.N
def in3 : Int := tmod (v.cw4 * v.ig8 * v.ih2) pk.N
def in4 : Int := tmod (v.m4 * v.h3 * v.cx) pk.N
def in5 : Int := tmod (v.g4 * v.h9 * v.ce) pk.N
/-- the five recomputed hash inputs -/
def inputs : List Int := [v.in1, v.in2, v.in3, v.in4, v.in5]
end View

/-- `x` is the reduced representative of its residue modulo `N` (the check `nisp5_MultiAttr_verify_proof`
makes on the values of the four commitments). -/
def reducedB (N x : Int) : Bool := decide (0 ≤ x) && decide (x < N)

theorem reducedB_iff {N x : Int} : reducedB N x = true ↔ 0 ≤ x ∧ x < N := by
  simp only [reducedB, Bool.and_eq_true, decide_eq_true_eq]

/-- the four commitments of the proof carry reduced representatives -/
def commitmentsReduced (π : SignaturePoK) (N : Int) : Bool :=
  reducedB N π.Cx.value && reducedB N π.Cv.value && reducedB N π.Cw.value && reducedB N π.Ce.value

theorem commitmentsReduced_iff {π : SignaturePoK} {N : Int} : commitmentsReduced π N = true ↔
    (0 ≤ π.Cx.value ∧ π.Cx.value < N) ∧ (0 ≤ π.Cv.value ∧ π.Cv.value < N) ∧
      (0 ≤ π.Cw.value ∧ π.Cw.value < N) ∧ (0 ≤ π.Ce.value ∧ π.Ce.value < N) := by
  simp only [commitmentsReduced, Bool.and_eq_true, reducedB_iff, and_assoc]

/-- one ok-inversion step through a bind, replacing the hypothesis. -/
macro "bstep " h:ident " with " a:ident t:ident ha:ident : tactic =>
  `(tactic| (obtain ⟨$a, $t, $ha, hnew__⟩ := bind_ok_inv $h; clear $h; rename' hnew__ => $h))

/-- A run of the verifier that returns (does not panic) has a view, and returns whether the hash of
the five inputs is the challenge and the four commitment values are reduced modulo `N`. -/
theorem nisp5Verify_view {π : SignaturePoK} {cpk : CommitmentPK} {pk : PublicKey}
    {bases rev : List Int} {U : List Nat} {n : Nat} {tv tv' : List Draw} {b : Bool}
    (h : nisp5Verify π cpk pk bases rev U n tv = .ok (b, tv')) :
    ∃ v : View π cpk pk bases rev U n,
      b = (hashInts v.inputs == π.challenge && commitmentsReduced π pk.N) := by
  unfold nisp5Verify at h
  split at h
  · cases h
  simp only [] at h
  bstep h with tCx t1 e_tCx
  have e_tCx := tapeFree_eq_pure (mixLoop_tapeFree _ _ _ _ _ _ _ _ _ _ _) e_tCx
  bstep h with g0 t2 e_g0
  have e_g0 := tapeFree_eq_pure (TapeFree.idx _ _) e_g0
  bstep h with a t3 e_a
  have e_a := pw_eq_pure_of_ok e_a
  bstep h with itCx t4 e_itCx
  have e_itCx := tapeFree_eq_pure (divm_tapeFree _ _ _) e_itCx
  bstep h with ib t5 e_ib
  have e_ib := tapeFree_eq_pure (divm_tapeFree _ _ _) e_ib
  bstep h with ib6 t6 e_ib6
  have e_ib6 := pw_eq_pure_of_ok e_ib6
  bstep h with ig t7 e_ig
  have e_ig := tapeFree_eq_pure (divm_tapeFree _ _ _) e_ig
  bstep h with ig8 t8 e_ig8
  have e_ig8 := pw_eq_pure_of_ok e_ig8
  bstep h with cc t9 e_cc
  have e_cc := pw_eq_pure_of_ok e_cc
  bstep h with g7 t10 e_g7
  have e_g7 := pw_eq_pure_of_ok e_g7
  bstep h with h1 t11 e_h1
  have e_h1 := pw_eq_pure_of_ok e_h1
  bstep h with cw t12 e_cw
  have e_cw := pw_eq_pure_of_ok e_cw
  bstep h with cw4 t13 e_cw4
  have e_cw4 := pw_eq_pure_of_ok e_cw4
  rw [e_ig, pure_bind, e_ig8, pure_bind] at h
  bstep h with ih t14 e_ih
  have e_ih := tapeFree_eq_pure (divm_tapeFree _ _ _) e_ih
  bstep h with ih2 t15 e_ih2
  have e_ih2 := pw_eq_pure_of_ok e_ih2
  bstep h with m4 t16 e_m4
  have e_m4 := tapeFree_eq_pure (mixLoop_tapeFree _ _ _ _ _ _ _ _ _ _ _) e_m4
  bstep h with h3 t17 e_h3
  have e_h3 := pw_eq_pure_of_ok e_h3
  bstep h with cx t18 e_cx
  have e_cx := pw_eq_pure_of_ok e_cx
  bstep h with g4 t19 e_g4
  have e_g4 := pw_eq_pure_of_ok e_g4
  bstep h with h9 t20 e_h9
  have e_h9 := pw_eq_pure_of_ok e_h9
  bstep h with ce t21 e_ce
  have e_ce := pw_eq_pure_of_ok e_ce
  obtain ⟨rfl, -⟩ := ok_inj h
  exact ⟨⟨tCx, g0, a, itCx, ib, ib6, ig, ig8, cc, g7, h1, cw, cw4, ih, ih2, m4, h3, cx, g4, h9, ce,
    e_tCx, e_g0, e_a, e_itCx, e_ib, e_ib6, e_ig, e_ig8, e_cc, e_g7, e_h1, e_cw, e_cw4, e_ih, e_ih2,
    e_m4, e_h3, e_cx, e_g4, e_h9, e_ce⟩, by
      simp only [commitmentsReduced, reducedB, Bool.and_assoc]; rfl⟩

/-! ### tools for the soundness-type statements -/

section tamper
variable {N : Int}

theorem pure_inj {α} {a b : α} (h : (pure a : M α) = pure b) : a = b := by
  have := congrFun h []
  exact (ok_inj this).1

/-- a power of an invertible base -/
theorem eq_can_of_pw (hA : ArithOK) (hN : 1 < N) {b e x : Int} (hb : IsU N b) (h : pw b e N = pure x) :
    x = can N (e • rp N b) := by
  rw [pw_unit hA hN hb] at h; exact (pure_inj h).symm

theorem good_of_pw (hA : ArithOK) (hN : 1 < N) {b e x : Int} (hb : IsU N b) (h : pw b e N = pure x) :
    Good N x := by rw [eq_can_of_pw hA hN hb h]; exact good_can hN _

theorem eq_can_of_divm (hA : ArithOK) (hN : 1 < N) {b x : Int} (hb : IsU N b) (h : divm 1 b N = pure x) :
    x = can N (-(rp N b)) := by
  rw [divm_one_unit hA hN hb] at h; exact (pure_inj h).symm

/-- `pow_mod` with a non-positive exponent that does not panic returns an invertible value, whatever
the base. -/
theorem good_of_pw_nonpos (hA : ArithOK) (hN : 1 < N) {b e x : Int} (he : e ≤ 0) (h : pw b e N = pure x) :
    Good N x := by
  have h := powMod_of_pw_eq_pure h
  by_cases h0 : e = 0
  · subst h0
    rw [hA.powMod_nonneg b 0 N (by omega) (by omega)] at h
    obtain rfl := Option.some.inj h
    simp only [Int.toNat_zero, pow_zero]
    rw [Int.emod_eq_of_lt (by omega) hN]
    exact good_one
  · rw [hA.powMod_neg b e N (by omega) (by omega)] at h
    cases hi : invMod b N with
    | none => rw [hi] at h; cases h
    | some bi =>
      rw [hi, Option.map_some] at h
      obtain rfl := Option.some.inj h
      obtain ⟨-, -, h2⟩ := hA.invMod_some b N bi hN hi
      have hc : ((b : Int) : ZMod N.toNat) * (bi : ZMod N.toNat) = 1 := by
        have : (((b * bi : Int)) : ZMod N.toNat) = ((1 : Int) : ZMod N.toNat) := by
          rw [ZMod.intCast_eq_intCast_iff', Int.toNat_of_nonneg (by omega), h2]
          exact (Int.emod_eq_of_lt (by omega) hN).symm
        simpa using this
      have hbi : IsU N bi := IsUnit.of_mul_eq_one _ (by rw [mul_comm]; exact hc)
      refine ⟨Int.emod_nonneg _ (by omega), ?_⟩
      have : ((bi ^ (-e).toNat % N : Int) : ZMod N.toNat) = ((bi ^ (-e).toNat : Int) : ZMod N.toNat) := by
        rw [ZMod.intCast_eq_intCast_iff', Int.toNat_of_nonneg (by omega), Int.emod_emod_of_dvd _ (dvd_refl _)]
      rw [isU_congr this]
      unfold IsU at hbi ⊢
      push_cast
      exact hbi.pow _

/-- Changing one exponent: if `P = co · b^s` and `P' = co · b^{s'}` have the same residue, with `co`
and `b` invertible, then `(s − s') • [b] = 0`. -/
theorem tamper_core (hA : ArithOK) (hN : 1 < N) {b : Int} (hb : IsU N b) {s s' x x' co P P' : Int}
    (hx : pw b s N = pure x) (hx' : pw b s' N = pure x') (hco : IsU N co)
    (hP : P = co * x) (hP' : P' = co * x') (heq : tmod P N = tmod P' N) :
    (s - s') • rp N b = 0 := by
  have e1 := eq_can_of_pw hA hN hb hx
  have e2 := eq_can_of_pw hA hN hb hx'
  have hc : ((P : Int) : ZMod N.toNat) = ((P' : Int) : ZMod N.toNat) := by
    rw [← cast_tmod N P (by omega), ← cast_tmod N P' (by omega), heq]
  have hr := rp_congr hc
  rw [hP, hP', rp_mul hco (e1 ▸ isU_can hN _), rp_mul hco (e2 ▸ isU_can hN _), e1, e2, rp_can hN,
    rp_can hN] at hr
  have := add_left_cancel hr
  rw [sub_smul, this, sub_self]

theorem orderRelation_of_tamper (hN : 1 < N) {b : Int} (hb : IsU N b) {s s' : Int} (hs : s ≠ s')
    (h : (s - s') • rp N b = 0) : OrderRelation N b :=
  orderRelation_of_zsmul hN hb (by omega) h

/-- the verifier's mixed product over invertible bases is invertible (and non-negative). -/
theorem mixLoop_good (hA : ArithOK) (hN : 1 < N) (bases s5 rev : List Int) (U : List Nat) (c : Int)
    (hb : ∀ a ∈ bases, IsU N a) (k i ih ir : Nat) (acc P : Int) (hacc : Good N acc)
    (h : mixLoop N bases s5 rev U c k i ih ir acc = pure P) : Good N P := by
  induction k generalizing i ih ir acc with
  | zero =>
    unfold mixLoop at h
    exact pure_inj h ▸ hacc
  | succ k ihk =>
    have h := congrFun h []
    unfold mixLoop at h
    split at h
    · bstep h with a t1 h1
      bstep h with s t2 h2
      bstep h with x t3 h3
      obtain ⟨h1, -⟩ := idx_ok_iff.mp h1
      have hx := good_of_pw hA hN (hb a (List.mem_of_getElem? h1)) (pw_eq_pure_of_ok h3)
      exact ihk _ _ _ _ (good_mul hacc hx) (tapeFree_eq_pure (mixLoop_tapeFree ..) h)
    · bstep h with m t1 h1
      bstep h with a t2 h2
      bstep h with x t3 h3
      obtain ⟨h2, -⟩ := idx_ok_iff.mp h2
      have hx := good_of_pw hA hN (hb a (List.mem_of_getElem? h2)) (pw_eq_pure_of_ok h3)
      exact ihk _ _ _ _ (good_mul hacc hx) (tapeFree_eq_pure (mixLoop_tapeFree ..) h)

end tamper

/-! ### two runs of the verifier's loop on different revealed messages -/

section diff
variable {N : Int}

/-- Same proof, two lists of revealed messages (`g j`, `g' j` = the message shown at position `j`):
the two mixed products differ by `Π_{j revealed} base_j^{(g j − g' j)(1 + c)}`. -/
theorem mixLoop_diff_rev (hA : ArithOK) (hN : 1 < N) (bases s5 rev rev' : List Int) (U : List Nat)
    (c : Int) (hb : ∀ a ∈ bases, IsU N a) (g g' : Nat → Int) (k i ih ir : Nat) (acc acc' P P' : Int)
    (hacc : Good N acc) (hacc' : Good N acc')
    (hr : rev.drop ir = ((List.range' i k).filter (fun j => !U.contains j)).map g)
    (hr' : rev'.drop ir = ((List.range' i k).filter (fun j => !U.contains j)).map g')
    (h : mixLoop N bases s5 rev U c k i ih ir acc = pure P)
    (h' : mixLoop N bases s5 rev' U c k i ih ir acc' = pure P') :
    rp N P - rp N P' = rp N acc - rp N acc' + ∑ j ∈ Finset.Ico i (i + k),
      (if U.contains j then 0 else (g j - g' j) * (1 + c)) • rp N (bases.getD j 1) := by
  induction k generalizing i ih ir acc acc' with
  | zero =>
    unfold mixLoop at h h'
    rw [← pure_inj h, ← pure_inj h']; simp
  | succ k ihk =>
    have h := congrFun h []
    have h' := congrFun h' []
    unfold mixLoop at h h'
    rw [List.range'_succ] at hr hr'
    by_cases hc : U.contains i = true
    · rw [if_pos hc] at h h'
      rw [List.filter_cons_of_neg (by rw [hc]; simp)] at hr hr'
      bstep h with a t1 h1
      bstep h with s t2 h2
      bstep h with x t3 h3
      bstep h' with a' t1' h1'
      bstep h' with s' t2' h2'
      bstep h' with x' t3' h3'
      obtain ⟨h1, -⟩ := idx_ok_iff.mp h1
      obtain ⟨h1', -⟩ := idx_ok_iff.mp h1'
      obtain ⟨h2, -⟩ := idx_ok_iff.mp h2
      obtain ⟨h2', -⟩ := idx_ok_iff.mp h2'
      obtain rfl : a = a' := Option.some.inj (h1.symm.trans h1')
      obtain rfl : s = s' := Option.some.inj (h2.symm.trans h2')
      have haU := hb a (List.mem_of_getElem? h1)
      have hx := eq_can_of_pw hA hN haU (pw_eq_pure_of_ok h3)
      have hx' := eq_can_of_pw hA hN haU (pw_eq_pure_of_ok h3')
      have := ihk (i + 1) (ih + 1) ir (acc * x) (acc' * x')
        (good_mul hacc (hx ▸ good_can hN _)) (good_mul hacc' (hx' ▸ good_can hN _)) hr hr'
        (tapeFree_eq_pure (mixLoop_tapeFree ..) h) (tapeFree_eq_pure (mixLoop_tapeFree ..) h')
      rw [this, sum_Ico_succ, if_pos hc, rp_mul hacc.2 (hx ▸ isU_can hN _),
        rp_mul hacc'.2 (hx' ▸ isU_can hN _), hx, hx', rp_can hN]
      module
    · rw [if_neg hc] at h h'
      rw [List.filter_cons_of_pos (by simpa using hc), List.map_cons] at hr hr'
      obtain ⟨hr1, hr2⟩ := drop_cons_inv hr
      obtain ⟨hr1', hr2'⟩ := drop_cons_inv hr'
      bstep h with m t1 h1
      bstep h with a t2 h2
      bstep h with x t3 h3
      bstep h' with m' t1' h1'
      bstep h' with a' t2' h2'
      bstep h' with x' t3' h3'
      obtain ⟨h1, -⟩ := idx_ok_iff.mp h1
      obtain ⟨h1', -⟩ := idx_ok_iff.mp h1'
      obtain ⟨h2, -⟩ := idx_ok_iff.mp h2
      obtain ⟨h2', -⟩ := idx_ok_iff.mp h2'
      obtain rfl : a = a' := Option.some.inj (h2.symm.trans h2')
      obtain rfl : m = g i := Option.some.inj (h1.symm.trans hr1)
      obtain rfl : m' = g' i := Option.some.inj (h1'.symm.trans hr1')
      have haU := hb a (List.mem_of_getElem? h2)
      have ha' : bases.getD i 1 = a := by rw [List.getD_eq_getElem?_getD, h2]; rfl
      have hx := eq_can_of_pw hA hN haU (pw_eq_pure_of_ok h3)
      have hx' := eq_can_of_pw hA hN haU (pw_eq_pure_of_ok h3')
      have := ihk (i + 1) ih (ir + 1) (acc * x) (acc' * x')
        (good_mul hacc (hx ▸ good_can hN _)) (good_mul hacc' (hx' ▸ good_can hN _)) hr2 hr2'
        (tapeFree_eq_pure (mixLoop_tapeFree ..) h) (tapeFree_eq_pure (mixLoop_tapeFree ..) h')
      rw [this, sum_Ico_succ, if_neg hc, rp_mul hacc.2 (hx ▸ isU_can hN _),
        rp_mul hacc'.2 (hx' ▸ isU_can hN _), hx, hx', rp_can hN, rp_can hN, ha']
      module

end diff

/-! ### surplus entries of `s5` and of the revealed messages are never read -/

theorem mixLoop_append (N : Int) (bases s5 rev e1 e2 : List Int) (U : List Nat) (c : Int)
    (k i ih ir : Nat) (acc P : Int) (h : mixLoop N bases s5 rev U c k i ih ir acc = pure P) :
    mixLoop N bases (s5 ++ e1) (rev ++ e2) U c k i ih ir acc = pure P := by
  induction k generalizing i ih ir acc with
  | zero => unfold mixLoop at h ⊢; exact h
  | succ k ihk =>
    have h := congrFun h []
    unfold mixLoop at h ⊢
    by_cases hc : U.contains i = true
    · rw [if_pos hc] at h ⊢
      bstep h with a t1 h1
      bstep h with s t2 h2
      bstep h with x t3 h3
      obtain ⟨h1, -⟩ := idx_ok_iff.mp h1
      obtain ⟨h2, -⟩ := idx_ok_iff.mp h2
      have hlt : ih < s5.length := by
        by_contra hlt; rw [List.getElem?_eq_none (by omega)] at h2; cases h2
      have h2' : (s5 ++ e1)[ih]? = some s := by rw [List.getElem?_append_left hlt]; exact h2
      rw [idx_of_getElem? h1, idx_of_getElem? h2']
      simp only [pure_bind, pw_eq_pure_of_ok h3]
      exact ihk _ _ _ _ (tapeFree_eq_pure (mixLoop_tapeFree ..) h)
    · rw [if_neg hc] at h ⊢
      bstep h with m t1 h1
      bstep h with a t2 h2
      bstep h with x t3 h3
      obtain ⟨h1, -⟩ := idx_ok_iff.mp h1
      obtain ⟨h2, -⟩ := idx_ok_iff.mp h2
      have hlt : ir < rev.length := by
        by_contra hlt; rw [List.getElem?_eq_none (by omega)] at h1; cases h1
      have h1' : (rev ++ e2)[ir]? = some m := by rw [List.getElem?_append_left hlt]; exact h1
      rw [idx_of_getElem? h1', idx_of_getElem? h2]
      simp only [pure_bind, pw_eq_pure_of_ok h3]
      exact ihk _ _ _ _ (tapeFree_eq_pure (mixLoop_tapeFree ..) h)

/-- translating by a non-zero multiple of `N` leaves the interval `[0, N)`: at most one representative of a
residue class is reduced. -/
theorem shift_not_reduced {x N k : Int} (hk : k ≠ 0) (h0 : 0 ≤ x) (hx : x < N) :
    x + k * N < 0 ∨ N ≤ x + k * N := by
  have hN : 0 < N := by omega
  rcases Int.lt_or_lt_of_ne hk with hneg | hpos
  · left
    have : k * N ≤ -1 * N := Int.mul_le_mul_of_nonneg_right (by omega) (by omega)
    omega
  · right
    have : 1 * N ≤ k * N := Int.mul_le_mul_of_nonneg_right (by omega) (by omega)
    omega


end Zk.ClSpok
