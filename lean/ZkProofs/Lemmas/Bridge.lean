/-
The bridge between the ABSTRACT setting of the property theorems (`ZkProofs/Lawful.lean`:
`[Field S] [AddCommGroup G1] [Module S G1] …`, `Lawful env pair`) and the CONCRETE, executable
BLS12-381 instance `Zk.Concrete.env : Env Fr G1Pt G2Pt` that is run against the Rust.

* `subEnv : Env FrR G1Sub G2Sub` — `Concrete.env` restricted to reduced scalars (`FrR`, a field),
  subgroup points of E1 (`ConcreteG1.G1Sub`) and of E2 (`ConcreteG2.G2Sub`), both `FrR`-modules under
  the executable operations. It is `Transfer.Env.pullback Concrete.env val val val rS r1 r2`, with
  `rS, r1, r2` = "attach the proof" (junk `0` outside the subtype).
* `HashInSub` — the one fact not provable here: `hash_to_curve` lands in the order-`R` subgroup
  (cofactor clearing; needs `#E1(Fp)`).
  `hashInSub_of : MapOnCurve → CofactorClears → HashInSub` reduces it to two facts about `E1(Fp)`.
* `hom : HashInSub → Transfer.Hom subEnv Concrete.env val val val`.
* `PairingHyp` — a bilinear map on `G1Sub × G2Sub` that `pairingProductIsOne` decides, non-degenerate
  at `G2.gen`; `lawful : (hP : PairingHyp) → Lawful subEnv hP.pair` — every other field of `Lawful`
  (scalar inverse, the four codecs) is PROVED.
-/
import ZkProofs.Props.ConcreteG1
import ZkProofs.Props.ConcreteG2
import ZkProofs.Props.Concrete
import ZkProofs.Props.Transfer
set_option linter.unusedSectionVars false
set_option linter.unusedVariables false

namespace Zk.Bridge
open Zk Zk.ConcreteScalar Zk.Codecs.ScalarCodec Zk.Transfer
open Zk.ConcreteG1 (G1Sub)
open Zk.ConcreteG2 (G2Sub)
open scoped Zk.ConcreteG1

/-! ### the carriers -/

instance decEqG1Sub : DecidableEq G1Sub :=
  inferInstanceAs (DecidableEq {p : G1Pt // G1.onCurve p = true ∧ G1.inSubgroup p = true})

/-- `G2Sub` as a module over the reduced scalars `FrR`, along `frRHom : FrR →+* ZMod R` (exactly as
`ConcreteG1.moduleFrR` for `G1Sub`): `s • P = G2.mul s.v P`, the model's action (`smul_FrR2`). -/
noncomputable instance moduleFrR2 : Module FrR G2Sub := Module.compHom G2Sub ConcreteG1.frRHom

theorem smul_FrR2 (s : FrR) (p : G2Sub) : (s • p).1 = s.1 • p.1 :=
  (ConcreteG2.fr_smul_eq s.1 p).symm

/-! ### the retractions -/

/-- Attach the proof of reducedness (junk `0` on unreduced representatives). -/
def rS (s : Fr) : FrR := if h : s.v < R then ⟨s, h⟩ else ⟨⟨0⟩, R_pos⟩

/-- Attach the proofs "on the curve, in the subgroup" (junk `O` elsewhere). -/
def r1 (p : G1Pt) : G1Sub :=
  if h : G1.onCurve p = true ∧ G1.inSubgroup p = true then ⟨p, h⟩ else 0

open Classical in
/-- Attach the proofs "on the curve, normal form, in the subgroup" (junk `O` elsewhere). -/
noncomputable def r2 (p : G2Pt) : G2Sub :=
  if h : G2.onCurve p = true ∧ G2Codec.Reduced p ∧ G2.inSubgroup p = true then ⟨p, h⟩ else 0

theorem rS_of {s : Fr} (h : s.v < R) : (rS s).1 = s := by
  have : rS s = ⟨s, h⟩ := dif_pos h
  rw [this]
theorem r1_of {p : G1Pt} (h : G1.onCurve p = true ∧ G1.inSubgroup p = true) : (r1 p).1 = p := by
  have : r1 p = ⟨p, h⟩ := dif_pos h
  rw [this]
theorem r2_of {p : G2Pt} (h : G2.onCurve p = true ∧ G2Codec.Reduced p ∧ G2.inSubgroup p = true) :
    (r2 p).1 = p := by
  have : r2 p = ⟨p, h⟩ := dif_pos h
  rw [this]

@[simp] theorem rS_val (s : FrR) : rS s.1 = s := Subtype.ext (rS_of s.2)
@[simp] theorem r1_val (p : G1Sub) : r1 p.1 = p := Subtype.ext (r1_of p.2)
@[simp] theorem r2_val (p : G2Sub) : r2 p.1 = p := Subtype.ext (r2_of p.2)

/-! ### the restricted environment -/

/-- **The concrete environment on reduced scalars and subgroup points.** Encoders, `expand` and
`pairingCheck` are those of `Concrete.env` on the underlying values; decoders, `sInv`, `okm`, `bp2`
and `hashToG1` are those of `Concrete.env` with the membership proof attached (`subEnv_*` below). -/
noncomputable def subEnv : Env FrR G1Sub G2Sub :=
  Env.pullback Concrete.env Subtype.val Subtype.val Subtype.val rS r1 r2

/-- `hash_to_curve` lands in the order-`R` subgroup. True of the real function (the last step clears
the cofactor) but its proof needs the group order of `E1(Fp)`; taken as a hypothesis. -/
def HashInSub : Prop :=
  ∀ (xof : Bool) (msg dst : Bytes) (p : G1Pt), Concrete.env.hashToG1 xof msg dst = some p →
    G1.onCurve p = true ∧ G1.inSubgroup p = true

/-- `map_to_curve` (simplified SWU, then the 11-isogeny) lands on `E1` in normal form. A rational-function
identity over `Fp`; not proved here. -/
def MapOnCurve : Prop := ∀ u : Nat, u < P → G1.onCurve (H2C.mapToCurve u) = true

/-- `clear_cofactor` lands in the order-`R` subgroup, i.e. `h_eff · R` annihilates `E1(Fp)`: a fact about
the group structure of `E1(Fp)` (point counting); not proved here. -/
def CofactorClears : Prop :=
  ∀ p : G1Pt, G1.onCurve p = true → G1.inSubgroup (H2C.clearCofactor p) = true

/-- `HashInSub` reduces to these two facts about the curve: everything else in `hash_to_curve`
(`hash_to_field`, the addition of the two images, `[h_eff]·`) is handled by the proved group law. -/
theorem hashInSub_of (h1 : MapOnCurve) (h2 : CofactorClears) : HashInSub := by
  intro xof msg dst p h
  have h' : hashToG1 (Concrete.expand xof) msg dst = some p := h
  unfold hashToG1 at h'
  cases hf : H2C.hashToField2 (Concrete.expand xof) msg dst with
  | none => rw [hf] at h'; cases h'
  | some u =>
    obtain ⟨u0, u1⟩ := u
    rw [hf] at h'
    simp only [Option.some.injEq] at h'
    subst h'
    have hu : u0 < P ∧ u1 < P := by
      unfold H2C.hashToField2 at hf
      split at hf
      · cases hf
      · split at hf
        · cases hf
        · simp only [Option.some.injEq, Prod.mk.injEq] at hf
          exact ⟨hf.1 ▸ Nat.mod_lt _ P_prime.pos, hf.2 ▸ Nat.mod_lt _ P_prime.pos⟩
    have hq := ConcreteG1.onCurve_add (h1 u0 hu.1) (h1 u1 hu.2)
    exact ⟨ConcreteG1.onCurve_mul hq _, h2 _ hq⟩

/-- The three coercions commute with the algebra: the operations of `FrR`, `G1Sub`, `G2Sub` ARE the
executable ones. -/
theorem algHom : Transfer.AlgHom (S := FrR) (G1 := G1Sub) (G2 := G2Sub) (S' := Fr) (G1' := G1Pt)
    (G2' := G2Pt) Subtype.val Subtype.val Subtype.val where
  fS_inj := Subtype.val_injective
  f1_inj := Subtype.val_injective
  f2_inj := Subtype.val_injective
  S_zero := coe_zero
  S_one := coe_one
  S_add := coe_add
  S_sub := coe_sub
  S_neg := coe_neg
  S_mul := coe_mul
  G1_zero := rfl
  G1_add _ _ := rfl
  G1_sub _ _ := rfl
  G1_neg _ := rfl
  G1_smul := ConcreteG1.smul_FrR
  G2_zero := rfl
  G2_add _ _ := rfl
  G2_neg _ := rfl
  G2_smul := smul_FrR2

theorem gen_mem2 : G2.onCurve G2.gen = true ∧ G2Codec.Reduced G2.gen ∧ G2.inSubgroup G2.gen = true :=
  ⟨C09G2.onCurve_gen, C09G2.reduced_gen, C09G2.inSubgroup_gen⟩

/-- **The homomorphism** from the restricted environment (a field, two modules) to the executable
one (raw records): every value produced by `Concrete.env` lies in the subtypes. -/
theorem hom (hH : HashInSub) :
    Hom subEnv Concrete.env (Subtype.val : FrR → Fr) (Subtype.val : G1Sub → G1Pt)
      (Subtype.val : G2Sub → G2Pt) :=
  Hom.pullback Concrete.env algHom rS r1 r2
    (fun s t h => rS_of (reduced_sInv s.1 t h))
    (fun b t h => rS_of (reduced_sDec b t h))
    (fun b => rS_of (reduced_okm b))
    (fun b t h => r1_of (ConcreteG1.fromCompressed_mem h))
    (fun b t h => r2_of (ConcreteG2.fromCompressed_mem h))
    (fun b t h => r2_of (ConcreteG2.fromUncompressed_mem h))
    (r2_of gen_mem2)
    (fun x m d t h => r1_of (hH x m d t h))

/-! ### the fields of `subEnv`, spelled out -/

theorem subEnv_sEnc (s : FrR) : subEnv.sEnc s = Concrete.env.sEnc s.1 := rfl
theorem env_g1Enc : Concrete.env.g1Enc = G1.toCompressed := by simp only [Concrete.env]
theorem env_g1Dec : Concrete.env.g1Dec = G1.fromCompressed := rfl
theorem env_g2Enc : Concrete.env.g2Enc = G2.toCompressed := by simp only [Concrete.env]
theorem env_g2Dec : Concrete.env.g2Dec = G2.fromCompressed := rfl
theorem env_g2EncU : Concrete.env.g2EncU = G2.toUncompressed := by simp only [Concrete.env]
theorem env_g2DecU : Concrete.env.g2DecU = G2.fromUncompressed := rfl
theorem subEnv_g1Enc (p : G1Sub) : subEnv.g1Enc p = G1.toCompressed p.1 := by
  simp only [subEnv, Env.pullback, Concrete.env]
theorem subEnv_g2Enc (p : G2Sub) : subEnv.g2Enc p = G2.toCompressed p.1 := by
  simp only [subEnv, Env.pullback, Concrete.env]
theorem subEnv_g2EncU (p : G2Sub) : subEnv.g2EncU p = G2.toUncompressed p.1 := by
  simp only [subEnv, Env.pullback, Concrete.env]
theorem subEnv_expand : subEnv.expand = Concrete.expand := rfl
theorem subEnv_pairingCheck (l : List (G1Sub × G2Sub)) :
    subEnv.pairingCheck l = pairingProductIsOne (l.map (Prod.map Subtype.val Subtype.val)) := rfl
theorem subEnv_bp2 : subEnv.bp2 = G2Sub.gen := Subtype.ext (r2_of gen_mem2)
theorem subEnv_sDec (b : Bytes) : (subEnv.sDec b).map Subtype.val = Concrete.sDec b :=
  (Option.map_map_retract Subtype.val rS _ (fun t h => rS_of (reduced_sDec b t h))).symm
theorem subEnv_sInv (s : FrR) : (subEnv.sInv s).map Subtype.val = Concrete.env.sInv s.1 :=
  (Option.map_map_retract Subtype.val rS _ (fun t h => rS_of (reduced_sInv s.1 t h))).symm
theorem subEnv_okm (b : Bytes) : (subEnv.okm b).1 = Concrete.env.okm b := rS_of (reduced_okm b)
theorem subEnv_g1Dec (b : Bytes) : (subEnv.g1Dec b).map Subtype.val = G1.fromCompressed b :=
  (Option.map_map_retract Subtype.val r1 _
    (fun t h => r1_of (ConcreteG1.fromCompressed_mem h))).symm
theorem subEnv_g2Dec (b : Bytes) : (subEnv.g2Dec b).map Subtype.val = G2.fromCompressed b :=
  (Option.map_map_retract Subtype.val r2 _
    (fun t h => r2_of (ConcreteG2.fromCompressed_mem h))).symm
theorem subEnv_g2DecU (b : Bytes) : (subEnv.g2DecU b).map Subtype.val = G2.fromUncompressed b :=
  (Option.map_map_retract Subtype.val r2 _
    (fun t h => r2_of (ConcreteG2.fromUncompressed_mem h))).symm
theorem subEnv_hashToG1 (hH : HashInSub) (xof : Bool) (msg dst : Bytes) :
    (subEnv.hashToG1 xof msg dst).map Subtype.val = Concrete.env.hashToG1 xof msg dst :=
  (Option.map_map_retract Subtype.val r1 _ (fun t h => r1_of (hH xof msg dst t h))).symm

/-! ### `Lawful` -/

/-- A canonical codec restricts to a canonical codec on a subtype containing every decoded value. -/
theorem codec_pullback {α β : Type} (f : α → β) (r : β → α) (hr : ∀ a, r (f a) = a)
    (enc : β → Bytes) (dec : Bytes → Option β) (n : Nat)
    (h_im : ∀ b t, dec b = some t → f (r t) = t)
    (h_de : ∀ a, dec (enc (f a)) = some (f a)) (h_len : ∀ a, (enc (f a)).length = n)
    (h_strict : ∀ b t, dec b = some t → enc t = b) :
    Codec (fun a => enc (f a)) (fun b => (dec b).map r) n where
  dec_enc a := by rw [h_de a, Option.map_some, hr a]
  enc_len := h_len
  strict b x h := by
    cases hd : dec b with
    | none => rw [hd] at h; cases h
    | some t =>
      rw [hd, Option.map_some] at h
      cases h
      rw [h_im b t hd]
      exact h_strict b t hd

section generic
variable {S G1 G2 S' G1' G2' : Type} (env' : Env S' G1' G2')
  (fS : S → S') (f1 : G1 → G1') (f2 : G2 → G2') (rS : S' → S) (r1 : G1' → G1) (r2 : G2' → G2)

theorem pullback_sCodec (n : Nat) (hr : ∀ a, rS (fS a) = a)
    (h_im : ∀ b t, env'.sDec b = some t → fS (rS t) = t)
    (h_de : ∀ a, env'.sDec (env'.sEnc (fS a)) = some (fS a))
    (h_len : ∀ a, (env'.sEnc (fS a)).length = n)
    (h_strict : ∀ b t, env'.sDec b = some t → env'.sEnc t = b) :
    Codec (Env.pullback env' fS f1 f2 rS r1 r2).sEnc (Env.pullback env' fS f1 f2 rS r1 r2).sDec n :=
  codec_pullback fS rS hr env'.sEnc env'.sDec n h_im h_de h_len h_strict

theorem pullback_g1Codec (n : Nat) (hr : ∀ a, r1 (f1 a) = a)
    (h_im : ∀ b t, env'.g1Dec b = some t → f1 (r1 t) = t)
    (h_de : ∀ a, env'.g1Dec (env'.g1Enc (f1 a)) = some (f1 a))
    (h_len : ∀ a, (env'.g1Enc (f1 a)).length = n)
    (h_strict : ∀ b t, env'.g1Dec b = some t → env'.g1Enc t = b) :
    Codec (Env.pullback env' fS f1 f2 rS r1 r2).g1Enc (Env.pullback env' fS f1 f2 rS r1 r2).g1Dec n :=
  codec_pullback f1 r1 hr env'.g1Enc env'.g1Dec n h_im h_de h_len h_strict

theorem pullback_g2Codec (n : Nat) (hr : ∀ a, r2 (f2 a) = a)
    (h_im : ∀ b t, env'.g2Dec b = some t → f2 (r2 t) = t)
    (h_de : ∀ a, env'.g2Dec (env'.g2Enc (f2 a)) = some (f2 a))
    (h_len : ∀ a, (env'.g2Enc (f2 a)).length = n)
    (h_strict : ∀ b t, env'.g2Dec b = some t → env'.g2Enc t = b) :
    Codec (Env.pullback env' fS f1 f2 rS r1 r2).g2Enc (Env.pullback env' fS f1 f2 rS r1 r2).g2Dec n :=
  codec_pullback f2 r2 hr env'.g2Enc env'.g2Dec n h_im h_de h_len h_strict

theorem pullback_g2UCodec (n : Nat) (hr : ∀ a, r2 (f2 a) = a)
    (h_im : ∀ b t, env'.g2DecU b = some t → f2 (r2 t) = t)
    (h_de : ∀ a, env'.g2DecU (env'.g2EncU (f2 a)) = some (f2 a))
    (h_len : ∀ a, (env'.g2EncU (f2 a)).length = n)
    (h_strict : ∀ b t, env'.g2DecU b = some t → env'.g2EncU t = b) :
    Codec (Env.pullback env' fS f1 f2 rS r1 r2).g2EncU
      (Env.pullback env' fS f1 f2 rS r1 r2).g2DecU n :=
  codec_pullback f2 r2 hr env'.g2EncU env'.g2DecU n h_im h_de h_len h_strict

end generic

theorem sCodec : Codec subEnv.sEnc subEnv.sDec 32 :=
  pullback_sCodec Concrete.env _ _ _ rS r1 r2 32 rS_val
    (fun b t h => rS_of (reduced_sDec b t h))
    (fun s => by rw [C09.env_sDec_eq]; exact sDec_sEnc s.1 s.2)
    (fun s => sEnc_length s.1)
    (fun b t h => by rw [C09.env_sDec_eq] at h; exact (sDec_strict b t h).1)

theorem g1Codec : Codec subEnv.g1Enc subEnv.g1Dec 48 :=
  pullback_g1Codec Concrete.env _ _ _ rS r1 r2 48 r1_val
    (fun b t h => r1_of (ConcreteG1.fromCompressed_mem h))
    (fun p => by rw [env_g1Enc, env_g1Dec]; exact C09G1.g1_dec_enc p.2.1 p.2.2)
    (fun p => by rw [env_g1Enc]; exact C09G1.g1_enc_len p.1)
    (fun b t h => by rw [env_g1Enc]; rw [env_g1Dec] at h; exact C09G1.g1_strict h)

theorem g2Codec : Codec subEnv.g2Enc subEnv.g2Dec 96 :=
  pullback_g2Codec Concrete.env _ _ _ rS r1 r2 96 r2_val
    (fun b t h => r2_of (ConcreteG2.fromCompressed_mem h))
    (fun p => by rw [env_g2Enc, env_g2Dec]; exact C09G2.g2_dec_enc p.2.1 p.2.2.2 p.2.2.1)
    (fun p => by rw [env_g2Enc]; exact C09G2.g2_enc_len p.1)
    (fun b t h => by rw [env_g2Enc]; rw [env_g2Dec] at h; exact C09G2.g2_strict h)

theorem g2UCodec : Codec subEnv.g2EncU subEnv.g2DecU 192 :=
  pullback_g2UCodec Concrete.env _ _ _ rS r1 r2 192 r2_val
    (fun b t h => r2_of (ConcreteG2.fromUncompressed_mem h))
    (fun p => by rw [env_g2EncU, env_g2DecU]; exact C09G2.g2u_dec_enc p.2.1 p.2.2.2 p.2.2.1)
    (fun p => by rw [env_g2EncU]; exact C09G2.g2u_enc_len p.1)
    (fun b t h => by rw [env_g2EncU]; rw [env_g2DecU] at h; exact C09G2.g2u_strict h)

theorem sInv_zero : subEnv.sInv 0 = none := by
  show (Concrete.env.sInv (0 : FrR).1).map rS = none
  rw [coe_zero, ConcreteScalar.sInv_zero]; rfl

theorem sInv_ne (s : FrR) (hs : s ≠ 0) : subEnv.sInv s = some s⁻¹ := by
  have h := sInvR_val s
  rw [sInvR_ne s hs, Option.map_some] at h
  show (Concrete.env.sInv s.1).map rS = some s⁻¹
  rw [← h, Option.map_some, rS_val]

/-- **The pairing hypothesis**: some bilinear map on the two subgroups (values in any `FrR`-module
`GT`, written additively) is decided by the executable `pairingProductIsOne` and is non-degenerate at
the base point `G2.gen`. True of the optimal-ate pairing the L0 code computes (`GT` = the order-`R`
subgroup of `Fp12ˣ`); not proved here. -/
structure PairingHyp where
  GT : Type
  [instACG : AddCommGroup GT]
  [instMod : Module FrR GT]
  pair : G1Sub →ₗ[FrR] G2Sub →ₗ[FrR] GT
  spec : ∀ l : List (G1Sub × G2Sub),
    pairingProductIsOne (l.map (Prod.map Subtype.val Subtype.val)) = true
      ↔ (l.map fun pq => pair pq.1 pq.2).sum = 0
  nondeg : ∀ P : G1Sub, pair P G2Sub.gen = 0 → P = 0

attribute [instance] PairingHyp.instACG PairingHyp.instMod

/-- **The restricted concrete environment is `Lawful`**, from the pairing hypothesis alone: the
scalar inverse and the four codecs are proved. -/
theorem lawful (hP : PairingHyp) : Lawful subEnv hP.pair where
  sInv_zero := sInv_zero
  sInv_ne := sInv_ne
  sCodec := sCodec
  g1Codec := g1Codec
  g2Codec := g2Codec
  g2UCodec := g2UCodec
  pairing_spec := hP.spec
  nondeg P h := hP.nondeg P (by rw [subEnv_bp2] at h; exact h)

end Zk.Bridge
