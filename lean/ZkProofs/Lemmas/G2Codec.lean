/-
Helper lemmas for `ZkProofs/Props/C09G2.lean`: the executable zcash codecs of BLS12-381 G2
(`ZkModel/L0/G2.lean`, compressed 96 bytes and uncompressed 192 bytes) are canonical.

* byte facts about the three flag bits of the first byte, in the shape used by `G2.splitFlags`
  (`(h >>> k) &&& 1 == 1`), all 256 bytes checked by kernel evaluation;
* 48-byte limbs: `fpOfBytes?` / `fpBytes` round trips, splitting of 96 / 192 byte strings;
* `Reduced p`: the normal form of a `G2Pt` (coordinates `< P`, identity with zero coordinates).
  `G2.onCurve` does NOT demand it, so it is an explicit hypothesis of the `dec_enc` laws; every
  decoded point satisfies it;
* the arithmetic of `Fp2 = Fp[u]/(u²+1)` read component-wise in the field `ZMod P`
  (`sq_c0`, `sq_c1`, `mul_c0`, …) — no ring structure is put on `Fp2` itself;
* norms: `z0² + z1² = 0 → z0 = z1 = 0` in `ZMod P` (`P ≡ 3 mod 4`, `−1` is not a square), hence
  roots in `Fp2` are unique up to sign (`root_unique`);
* E2 has no point of order 2: `x³ + 4(1+u) ≠ 0` for every `x ∈ Fp2` (`rhs_ne_zero`). Route: if
  `x³ = −4(1+u)` then, taking norms `N(a + bu) = a² + b²` (multiplicative), `N(x)³ = N(−4(1+u)) = 32`
  in `Fp`, so `32` would be a cube, i.e. `32^((P−1)/3) = 1`; the closed power is evaluated by
  `Primes.modpow` in the kernel and is NOT 1;
* `Fp2.sqrt?`: soundness (the model checks its candidate), reducedness of the answer, and
  completeness (`sqrt_complete`: it answers on every square), following the case analysis of the
  "complex method" in the docstring of `Fp2.sqrt?`;
* `Fp2.lexLargest (Fp2.neg y) = !Fp2.lexLargest y` for reduced `y ≠ 0`.
-/
import ZkProofs.Lemmas.G1Codec
import ZkModel.L0.G2
import Mathlib.NumberTheory.LegendreSymbol.Basic
namespace Zk.G2Codec
open Zk Zk.Primes Zk.ConcreteScalar Zk.Codecs.ScalarCodec Zk.G1Codec

/-! ### flag bits of the first byte (shape of `G2.splitFlags`) -/

/-- Masking and re-adding the three flags: the general recombination fact. -/
theorem byte_recombine : ∀ b : UInt8, ∀ c i s : Bool, ((b >>> 7) &&& 1 == 1) = c →
    ((b >>> 6) &&& 1 == 1) = i → ((b >>> 5) &&& 1 == 1) = s →
    (b &&& 0x1f) ||| ((if c then 0x80 else 0) ||| (if i then 0x40 else 0) |||
      (if s then 0x20 else 0)) = b := by
  apply forall_uint8
  decide +kernel

/-- Flag recovery: a byte below `0x20` with the flags or-ed in gives back the byte and the flags. -/
theorem byte_flags : ∀ b : UInt8, ∀ c i s : Bool, b.toNat < 32 →
    (((b ||| ((if c then 0x80 else 0) ||| (if i then 0x40 else 0) ||| (if s then 0x20 else 0)))
        >>> 7) &&& 1 == 1) = c ∧
    (((b ||| ((if c then 0x80 else 0) ||| (if i then 0x40 else 0) ||| (if s then 0x20 else 0)))
        >>> 6) &&& 1 == 1) = i ∧
    (((b ||| ((if c then 0x80 else 0) ||| (if i then 0x40 else 0) ||| (if s then 0x20 else 0)))
        >>> 5) &&& 1 == 1) = s ∧
    ((b ||| ((if c then 0x80 else 0) ||| (if i then 0x40 else 0) ||| (if s then 0x20 else 0)))
        &&& 0x1f) = b := by
  apply forall_uint8
  decide +kernel

/-- A masked byte is below `0x20`. -/
theorem byte_mask_lt : ∀ b : UInt8, (b &&& 0x1f).toNat < 32 := by
  apply forall_uint8
  decide +kernel

/-! ### 48-byte limbs -/

theorem fpBytes_length (x : Nat) : (G2.fpBytes x).length = 48 := i2ospAux_length 48 x

/-- A 48-byte string is the `fpBytes` of its value. -/
theorem fpBytes_os2ip {l : Bytes} (hl : l.length = 48) : G2.fpBytes (os2ip l) = l := by
  have := i2ospAux_os2ip l
  rwa [hl] at this

theorem fpOfBytes_some {l : Bytes} {v : Nat} (h : G2.fpOfBytes? l = some v) :
    v = os2ip l ∧ v < P := by
  unfold G2.fpOfBytes? at h
  simp only [] at h
  split at h
  · cases h; exact ⟨rfl, by assumption⟩
  · cases h

/-- What a successful limb decoding says, for a limb of the right length. -/
theorem fpBytes_of_some {l : Bytes} {v : Nat} (hl : l.length = 48)
    (h : G2.fpOfBytes? l = some v) : G2.fpBytes v = l ∧ v < P := by
  obtain ⟨rfl, hlt⟩ := fpOfBytes_some h
  exact ⟨fpBytes_os2ip hl, hlt⟩

theorem os2ip_fpBytes {x : Nat} (hx : x < P) : os2ip (G2.fpBytes x) = x := by
  have hval := os2ip_i2ospAux 48 x
  rwa [Nat.mod_eq_of_lt (Nat.lt_trans hx P_lt_bytes)] at hval

theorem fpOfBytes_fpBytes {x : Nat} (hx : x < P) : G2.fpOfBytes? (G2.fpBytes x) = some x := by
  unfold G2.fpOfBytes?
  simp only []
  rw [os2ip_fpBytes hx, if_pos hx]

/-- The first byte of a canonical limb has its three top bits clear. -/
theorem fpBytes_canonical {x : Nat} (hx : x < P) :
    ∃ b0 rest, G2.fpBytes x = b0 :: rest ∧ rest.length = 47 ∧ b0.toNat < 32 := by
  obtain ⟨b0, rest, h, hl, hb, _⟩ := i2osp48_canonical hx
  exact ⟨b0, rest, h, hl, hb⟩

theorem fpBytes_zero : G2.fpBytes 0 = List.replicate 48 0 := by decide

/-- A 48-byte limb of value 0 is all zeros. -/
theorem limb_zero {l : Bytes} (hl : l.length = 48) (h : os2ip l = 0) : l = List.replicate 48 0 := by
  rw [← fpBytes_os2ip hl, h, fpBytes_zero]

theorem split96 {l : Bytes} : l = l.take 48 ++ l.drop 48 := (List.take_append_drop 48 l).symm

theorem split192 {l : Bytes} :
    l = l.take 48 ++ (l.drop 48).take 48 ++ (l.drop 96).take 48 ++ l.drop 144 := by
  have h1 : l.drop 96 = (l.drop 48).drop 48 := by rw [List.drop_drop]
  have h2 : l.drop 144 = ((l.drop 48).drop 48).drop 48 := by rw [List.drop_drop, List.drop_drop]
  rw [h1, h2, List.append_assoc, List.append_assoc, List.take_append_drop, List.take_append_drop,
    List.take_append_drop]

theorem take_drop_4 {A B C D : Bytes} (hA : A.length = 48) (hB : B.length = 48)
    (hC : C.length = 48) :
    (A ++ B ++ C ++ D).take 48 = A ∧ ((A ++ B ++ C ++ D).drop 48).take 48 = B ∧
      ((A ++ B ++ C ++ D).drop 96).take 48 = C ∧ (A ++ B ++ C ++ D).drop 144 = D := by
  have e1 : A ++ B ++ C ++ D = A ++ (B ++ C ++ D) := by simp
  have e2 : (A ++ B ++ C ++ D).drop 96 = (C ++ D) := by
    have : A ++ B ++ C ++ D = (A ++ B) ++ (C ++ D) := by simp
    rw [this]; exact List.drop_left' (by simp [hA, hB])
  have e3 : (A ++ B ++ C ++ D).drop 144 = D :=
    List.drop_left' (by simp [hA, hB, hC])
  refine ⟨?_, ?_, ?_, e3⟩
  · rw [e1]; exact List.take_left' hA
  · rw [e1, List.drop_left' hA, List.append_assoc]; exact List.take_left' hB
  · rw [e2]; exact List.take_left' hC

theorem take_drop_2 {A B : Bytes} (hA : A.length = 48) :
    (A ++ B).take 48 = A ∧ (A ++ B).drop 48 = B := by
  exact ⟨List.take_left' hA, List.drop_left' hA⟩

/-! ### normal form of a point -/

/-- Normal form of a `G2Pt`: all four coordinates reduced, and the identity has zero coordinates.
`G2.onCurve` does not imply it (`⟨P, 0, 0, 0, true⟩` is accepted by `onCurve`). Everything produced
by a decoder is in normal form (`C09G2.g2u_decode_reduced`, `C09G2.g2_decode_reduced`). -/
def Reduced (p : G2Pt) : Prop :=
  (p.x0 < P ∧ p.x1 < P ∧ p.y0 < P ∧ p.y1 < P) ∧ (p.inf = true → p = G2Pt.zero)

theorem reduced_zero : Reduced G2Pt.zero := ⟨by decide, fun _ => rfl⟩

/-- Reduced element of `Fp2`. -/
def Red (a : Fp2) : Prop := a.c0 < P ∧ a.c1 < P

/-! ### `Fp` operations in `ZMod P` -/

theorem cast_P_sub_mod (a : Nat) : ((P - a % P : Nat) : ZMod P) = -(a : ZMod P) := by
  have hlt : a % P < P := Nat.mod_lt _ P_pos
  rw [Nat.cast_sub hlt.le, ZMod.natCast_self, zero_sub, ZMod.natCast_mod]

theorem fadd_cast (a b : Nat) : ((Fp.add a b : Nat) : ZMod P) = (a : ZMod P) + b := by
  show (((a + b) % P : Nat) : ZMod P) = _
  rw [ZMod.natCast_mod, Nat.cast_add]

theorem fsub_cast (a b : Nat) : ((Fp.sub a b : Nat) : ZMod P) = (a : ZMod P) - b := by
  show (((a + P - b % P) % P : Nat) : ZMod P) = _
  have hlt : b % P < P := Nat.mod_lt _ P_pos
  rw [ZMod.natCast_mod, Nat.cast_sub (by omega), Nat.cast_add, ZMod.natCast_self, add_zero,
    ZMod.natCast_mod]

theorem fmul_cast (a b : Nat) : ((Fp.mul a b : Nat) : ZMod P) = (a : ZMod P) * b := by
  show ((a * b % P : Nat) : ZMod P) = _
  rw [ZMod.natCast_mod, Nat.cast_mul]

theorem finv_cast (a : Nat) : ((Fp.inv a : Nat) : ZMod P) = (a : ZMod P)⁻¹ := by
  rw [Fp_inv_spec, ZMod.natCast_mod, Nat.cast_pow]
  have hP : 2 < P := by decide
  by_cases ha : (a : ZMod P) = 0
  · rw [ha, inv_zero, zero_pow]; omega
  · have hf := ZMod.pow_card_sub_one_eq_one ha
    have h2 : P - 1 = (P - 2) + 1 := by omega
    rw [h2, pow_succ] at hf
    exact eq_inv_of_mul_eq_one_left hf

theorem two_ne_zero' : (2 : ZMod P) ≠ 0 := by
  intro h
  have h' : ((2 : Nat) : ZMod P) = 0 := by exact_mod_cast h
  rw [ZMod.natCast_eq_zero_iff] at h'
  exact absurd (Nat.le_of_dvd (by decide) h') (by decide)

theorem half_cast : (((P + 1) / 2 : Nat) : ZMod P) = (2 : ZMod P)⁻¹ := by
  have h : (((P + 1) / 2 * 2 : Nat) : ZMod P) = 1 := by
    rw [P_half, Nat.cast_add, ZMod.natCast_self]; simp
  rw [Nat.cast_mul] at h
  exact eq_inv_of_mul_eq_one_left (by exact_mod_cast h)

theorem fadd_lt (a b : Nat) : Fp.add a b < P := Nat.mod_lt _ P_pos
theorem fsub_lt (a b : Nat) : Fp.sub a b < P := Nat.mod_lt _ P_pos
theorem fmul_lt (a b : Nat) : Fp.mul a b < P := Nat.mod_lt _ P_pos

/-! ### `-1` is not a square in `Fp` -/

theorem P_mod4_3 : P % 4 = 3 := by decide

theorem sq_ne_neg_sq {x y : ZMod P} (hy : y ≠ 0) (h : x ^ 2 = -y ^ 2) : False :=
  ZMod.mod_four_ne_three_of_sq_eq_neg_sq' hy h P_mod4_3

/-- The norm form `a² + b²` of `Fp2/Fp` is anisotropic. -/
theorem norm_eq_zero {a b : ZMod P} (h : a ^ 2 + b ^ 2 = 0) : a = 0 ∧ b = 0 := by
  by_cases hb : b = 0
  · subst hb
    simp only [ne_eq, OfNat.ofNat_ne_zero, not_false_eq_true, zero_pow, add_zero] at h
    exact ⟨pow_eq_zero_iff (two_ne_zero) |>.mp h, rfl⟩
  · exact (sq_ne_neg_sq (x := a) hb (by linear_combination h)).elim

/-- Roots in `Fp2` (written in components) are unique up to sign. -/
theorem root_unique {a0 a1 b0 b1 : ZMod P} (h0 : a0 ^ 2 - a1 ^ 2 = b0 ^ 2 - b1 ^ 2)
    (h1 : 2 * a0 * a1 = 2 * b0 * b1) : (a0 = b0 ∧ a1 = b1) ∨ (a0 = -b0 ∧ a1 = -b1) := by
  have h : ((a0 - b0) ^ 2 + (a1 - b1) ^ 2) * ((a0 + b0) ^ 2 + (a1 + b1) ^ 2) = 0 := by
    linear_combination (a0 ^ 2 - a1 ^ 2 - b0 ^ 2 + b1 ^ 2) * h0 + (2 * a0 * a1 - 2 * b0 * b1) * h1
  rcases mul_eq_zero.mp h with h | h
  · obtain ⟨e0, e1⟩ := norm_eq_zero h
    exact Or.inl ⟨by linear_combination e0, by linear_combination e1⟩
  · obtain ⟨e0, e1⟩ := norm_eq_zero h
    exact Or.inr ⟨by linear_combination e0, by linear_combination e1⟩

/-! ### `Fp.sqrt?` on classes -/

theorem fp_sqrt_some {a r : Nat} (h : Fp.sqrt? a = some r) :
    r < P ∧ (r : ZMod P) ^ 2 = (a : ZMod P) := by
  refine ⟨sqrt_some_lt h, ?_⟩
  have h2 := (G1Codec.sqrt_some h).2
  have := (ZMod.natCast_eq_natCast_iff' (r * r) a P).mpr h2
  rw [Nat.cast_mul] at this
  rw [sq, this]

/-- `Fp.sqrt?` answers on every representative of a square class, with one of the two roots. -/
theorem fp_sqrt_of_sq {n : Nat} {z : ZMod P} (h : (n : ZMod P) = z ^ 2) :
    ∃ r, Fp.sqrt? n = some r ∧ r < P ∧ ((r : ZMod P) = z ∨ (r : ZMod P) = -z) := by
  have hr : powMod n ((P + 1) / 4) P = n ^ ((P + 1) / 4) % P := powMod_spec _ _ _ P_pos
  have hrlt : powMod n ((P + 1) / 4) P < P := by rw [hr]; exact Nat.mod_lt _ P_pos
  have hcast : ((powMod n ((P + 1) / 4) P : Nat) : ZMod P) ^ 2 = z ^ 2 := by
    rw [hr, ZMod.natCast_mod, Nat.cast_pow, h, ← pow_mul, ← pow_mul, ← mul_assoc, P_mod4, P_half,
      pow_succ, ZMod.pow_card, sq]
  refine ⟨powMod n ((P + 1) / 4) P, ?_, hrlt, sq_eq_sq_iff_eq_or_eq_neg.mp hcast⟩
  unfold Fp.sqrt?
  simp only []
  rw [if_pos]
  rw [beq_iff_eq]
  have : (((powMod n ((P + 1) / 4) P * powMod n ((P + 1) / 4) P : Nat)) : ZMod P)
      = ((n : Nat) : ZMod P) := by
    rw [Nat.cast_mul, ← sq, hcast, h]
  exact (ZMod.natCast_eq_natCast_iff' _ _ _).mp this

/-- `Fp.sqrt?` rejects the negative of a non-zero square. -/
theorem fp_sqrt_none {n : Nat} {z : ZMod P} (hz : z ≠ 0) (h : (n : ZMod P) = -z ^ 2) :
    Fp.sqrt? n = none := by
  cases hs : Fp.sqrt? n with
  | none => rfl
  | some r =>
    have := (fp_sqrt_some hs).2
    rw [h] at this
    exact (sq_ne_neg_sq hz this).elim

/-! ### `Fp2` component-wise -/

theorem beq_iff {a b : Fp2} : (a == b) = true ↔ a = b := by
  obtain ⟨a0, a1⟩ := a
  obtain ⟨b0, b1⟩ := b
  have : ((⟨a0, a1⟩ : Fp2) == ⟨b0, b1⟩) = (a0 == b0 && a1 == b1) := rfl
  rw [this]
  simp

theorem ext_cast {a b : Fp2} (ha : Red a) (hb : Red b) (h0 : (a.c0 : ZMod P) = b.c0)
    (h1 : (a.c1 : ZMod P) = b.c1) : a = b := by
  obtain ⟨a0, a1⟩ := a
  obtain ⟨b0, b1⟩ := b
  have e0 : a0 = b0 := cast_inj ha.1 hb.1 h0
  have e1 : a1 = b1 := cast_inj ha.2 hb.2 h1
  rw [e0, e1]

theorem sq_red (a : Fp2) : Red (Fp2.sq a) := ⟨Nat.mod_lt _ P_pos, Nat.mod_lt _ P_pos⟩
theorem mul_red (a b : Fp2) : Red (Fp2.mul a b) := ⟨Nat.mod_lt _ P_pos, Nat.mod_lt _ P_pos⟩
theorem add_red (a b : Fp2) : Red (Fp2.add a b) := ⟨Nat.mod_lt _ P_pos, Nat.mod_lt _ P_pos⟩
theorem neg_red (a : Fp2) : Red (Fp2.neg a) := ⟨Nat.mod_lt _ P_pos, Nat.mod_lt _ P_pos⟩

theorem sq_c0 (a : Fp2) : ((Fp2.sq a).c0 : ZMod P) = (a.c0 : ZMod P) ^ 2 - (a.c1 : ZMod P) ^ 2 := by
  show (((a.c0 + a.c1) * (a.c0 + (P - a.c1 % P)) % P : Nat) : ZMod P) = _
  rw [ZMod.natCast_mod, Nat.cast_mul, Nat.cast_add, Nat.cast_add, cast_P_sub_mod]
  ring

theorem sq_c1 (a : Fp2) : ((Fp2.sq a).c1 : ZMod P) = 2 * (a.c0 : ZMod P) * (a.c1 : ZMod P) := by
  show ((2 * a.c0 * a.c1 % P : Nat) : ZMod P) = _
  rw [ZMod.natCast_mod]; push_cast; ring

theorem mul_c0 (a b : Fp2) : ((Fp2.mul a b).c0 : ZMod P) =
    (a.c0 : ZMod P) * b.c0 - (a.c1 : ZMod P) * b.c1 := by
  show (((a.c0 * b.c0 + (P - a.c1 % P) * b.c1) % P : Nat) : ZMod P) = _
  rw [ZMod.natCast_mod, Nat.cast_add, Nat.cast_mul, Nat.cast_mul, cast_P_sub_mod]
  ring

theorem mul_c1 (a b : Fp2) : ((Fp2.mul a b).c1 : ZMod P) =
    (a.c0 : ZMod P) * b.c1 + (a.c1 : ZMod P) * b.c0 := by
  show (((a.c0 * b.c1 + a.c1 * b.c0) % P : Nat) : ZMod P) = _
  rw [ZMod.natCast_mod]; push_cast; ring

theorem neg_c0 (a : Fp2) : ((Fp2.neg a).c0 : ZMod P) = -(a.c0 : ZMod P) := neg_cast _
theorem neg_c1 (a : Fp2) : ((Fp2.neg a).c1 : ZMod P) = -(a.c1 : ZMod P) := neg_cast _

theorem sq_neg (a : Fp2) : Fp2.sq (Fp2.neg a) = Fp2.sq a := by
  apply ext_cast (sq_red _) (sq_red _)
  · rw [sq_c0, sq_c0, neg_c0, neg_c1]; ring
  · rw [sq_c1, sq_c1, neg_c0, neg_c1]; ring

theorem neg_neg' {a : Fp2} (ha : Red a) : Fp2.neg (Fp2.neg a) = a := by
  apply ext_cast (neg_red _) ha
  · rw [neg_c0, neg_c0, _root_.neg_neg]
  · rw [neg_c1, neg_c1, _root_.neg_neg]

/-- The right-hand side of the curve equation: `x³ + 4(1+u)`. -/
def rhs (x : Fp2) : Fp2 := Fp2.add (Fp2.mul (Fp2.sq x) x) G2.b

theorem rhs_red (x : Fp2) : Red (rhs x) := add_red _ _

theorem rhs_c0 (x : Fp2) : ((rhs x).c0 : ZMod P) =
    (x.c0 : ZMod P) ^ 3 - 3 * (x.c0 : ZMod P) * (x.c1 : ZMod P) ^ 2 + 4 := by
  show ((Fp.add (Fp2.mul (Fp2.sq x) x).c0 4 : Nat) : ZMod P) = _
  rw [fadd_cast, mul_c0, sq_c0, sq_c1]; push_cast; ring

theorem rhs_c1 (x : Fp2) : ((rhs x).c1 : ZMod P) =
    3 * (x.c0 : ZMod P) ^ 2 * (x.c1 : ZMod P) - (x.c1 : ZMod P) ^ 3 + 4 := by
  show ((Fp.add (Fp2.mul (Fp2.sq x) x).c1 4 : Nat) : ZMod P) = _
  rw [fadd_cast, mul_c1, sq_c0, sq_c1]; push_cast; ring


/-! ### no point of order 2 on E2: `x³ + 4(1+u) ≠ 0` -/

theorem n32_not_cube : modpow 32 ((P - 1) / 3) P ≠ 1 := by decide +kernel

theorem n32_ne_zero : (32 : ZMod P) ≠ 0 := by
  intro h
  have h' : ((32 : Nat) : ZMod P) = 0 := by exact_mod_cast h
  rw [ZMod.natCast_eq_zero_iff] at h'
  exact absurd (Nat.le_of_dvd (by decide) h') (by decide)

/-- `32` is not a cube in `Fp`. -/
theorem not_cube_32 (n : ZMod P) : n ^ 3 ≠ 32 := by
  intro hn
  have hn0 : n ≠ 0 := by
    intro h0
    rw [h0] at hn
    exact n32_ne_zero (by rw [← hn]; ring)
  have hf := ZMod.pow_card_sub_one_eq_one hn0
  rw [← three_dvd, pow_mul, hn] at hf
  have h1 : (((32 : Nat) ^ ((P - 1) / 3) : Nat) : ZMod P) = ((1 : Nat) : ZMod P) := by
    rw [Nat.cast_pow, Nat.cast_one]; exact_mod_cast hf
  have h2 := (ZMod.natCast_eq_natCast_iff' _ _ _).mp h1
  rw [← modpow_spec, Nat.mod_eq_of_lt P_prime.one_lt] at h2
  exact n32_not_cube h2

/-- **E2 has no affine point with `y = 0`**: `x³ + 4(1+u) ≠ 0` for EVERY `x = x0 + x1·u`
(reduced or not). If it were 0 then `N(x)³ = N(−4(1+u)) = 32` for the norm `N(a+bu) = a² + b²`,
but `32` is not a cube modulo `P`. -/
theorem rhs_ne_zero (x : Fp2) : ¬ ((rhs x).c0 = 0 ∧ (rhs x).c1 = 0) := by
  rintro ⟨h0, h1⟩
  have c0 := rhs_c0 x
  have c1 := rhs_c1 x
  rw [h0, Nat.cast_zero] at c0
  rw [h1, Nat.cast_zero] at c1
  apply not_cube_32 ((x.c0 : ZMod P) ^ 2 + (x.c1 : ZMod P) ^ 2)
  generalize (x.c0 : ZMod P) = a at c0 c1
  generalize (x.c1 : ZMod P) = b at c0 c1
  linear_combination (-(a ^ 3 - 3 * a * b ^ 2) + 4) * c0 + (-(3 * a ^ 2 * b - b ^ 3) + 4) * c1

theorem rhs_ne_zero' (x : Fp2) : rhs x ≠ ⟨0, 0⟩ := by
  intro h
  exact rhs_ne_zero x ⟨by rw [h], by rw [h]⟩

/-! ### the sort flag -/

theorem fneg_zero : Fp.neg 0 = 0 := by decide

theorem fneg_ne_zero {a : Nat} (h0 : a ≠ 0) (ha : a < P) : Fp.neg a ≠ 0 := by
  intro h
  apply h0
  have := G1Codec.neg_neg ha
  rw [h, fneg_zero] at this
  exact this.symm

/-- Negation flips `Fp2::lexicographically_largest` on reduced non-zero elements. -/
theorem lexLargest_neg2 {y : Fp2} (hy : Red y) (h0 : y ≠ ⟨0, 0⟩) :
    Fp2.lexLargest (Fp2.neg y) = !Fp2.lexLargest y := by
  obtain ⟨y0, y1⟩ := y
  obtain ⟨hy0, hy1⟩ := hy
  simp only at hy0 hy1
  unfold Fp2.lexLargest Fp2.neg
  simp only []
  by_cases h1 : y1 = 0
  · subst h1
    have h00 : y0 ≠ 0 := by
      intro h; apply h0; rw [h]
    rw [fneg_zero, lexLargest_neg h00 hy0]
    have : Fp.lexLargest 0 = false := by decide
    simp [this]
  · rw [lexLargest_neg h1 hy1]
    have hn := fneg_ne_zero h1 hy1
    have e1 : (y1 == 0) = false := by simpa using h1
    have e2 : (Fp.neg y1 == 0) = false := by simpa using hn
    rw [e1, e2]
    simp



/-! ### `Fp2.sqrt?` -/

/-- Kernel-safe form: `Fp.sqrt?` and `Fp.inv` are abstracted to variables before any case analysis
(a stuck `match Fp.sqrt? x with …` must never reach a definitional-equality check: the kernel would
unfold the 380-step exponentiation loop symbolically). -/
theorem sqrt_some_aux (f : Nat → Option Nat) (g : Nat → Nat) (hf : f = Fp.sqrt?) (hg : g = Fp.inv)
    {a r : Fp2} (h : Fp2.sqrt? a = some r) : Fp2.sq r = a ∧ Red r := by
  have hlt : ∀ n r, f n = some r → r < P := by
    intro n r h; rw [hf] at h; exact sqrt_some_lt h
  unfold Fp2.sqrt? at h
  rw [← hf, ← hg] at h
  clear hf hg
  simp only [] at h
  split at h
  · rename_i r' hc
    split at h
    · rename_i hq
      have hr := Option.some.inj h
      subst hr
      refine ⟨beq_iff.mp hq, ?_⟩
      split at hc
      · cases hs : f a.c0 with
        | some r0 =>
          rw [hs] at hc
          have hr := Option.some.inj hc
          subst hr
          exact ⟨hlt _ _ hs, P_pos⟩
        | none =>
          rw [hs] at hc
          dsimp only at hc
          cases hs' : f (Fp.neg a.c0) with
          | some r0 =>
            rw [hs'] at hc
            have hr := Option.some.inj hc
            subst hr
            exact ⟨P_pos, hlt _ _ hs'⟩
          | none => rw [hs'] at hc; exact absurd hc (by simp)
      · cases hs : f a.norm with
        | none => rw [hs] at hc; exact absurd hc (by simp)
        | some s =>
          rw [hs] at hc
          dsimp only at hc
          cases h1 : f (Fp.mul (Fp.add a.c0 s) ((P + 1) / 2)) with
          | some r0 =>
            rw [h1] at hc
            have hr := Option.some.inj hc
            subst hr
            exact ⟨hlt _ _ h1, fmul_lt _ _⟩
          | none =>
            rw [h1] at hc
            dsimp only at hc
            cases h2 : f (Fp.mul (Fp.sub a.c0 s) ((P + 1) / 2)) with
            | some r0 =>
              rw [h2] at hc
              have hr := Option.some.inj hc
              subst hr
              exact ⟨hlt _ _ h2, fmul_lt _ _⟩
            | none => rw [h2] at hc; exact absurd hc (by simp)
    · exact absurd h (by simp)
  · exact absurd h (by simp)

/-- **Soundness of `Fp2.sqrt?`** (the model checks its candidate): an answer is a reduced root. -/
theorem sqrt_some2 {a r : Fp2} (h : Fp2.sqrt? a = some r) : Fp2.sq r = a ∧ Red r :=
  sqrt_some_aux _ _ rfl rfl h

theorem norm_cast (a : Fp2) : ((Fp2.norm a : Nat) : ZMod P) = (a.c0 : ZMod P) ^ 2 + (a.c1 : ZMod P) ^ 2 := by
  show (((a.c0 * a.c0 + a.c1 * a.c1) % P : Nat) : ZMod P) = _
  rw [ZMod.natCast_mod]; push_cast; ring

/-- `y` or `−y`, from the classes of the components. -/
theorem eq_or_neg_of_cast {c y : Fp2} (hc : Red c) (hy : Red y)
    (h : ((c.c0 : ZMod P) = y.c0 ∧ (c.c1 : ZMod P) = y.c1) ∨
      ((c.c0 : ZMod P) = -y.c0 ∧ (c.c1 : ZMod P) = -y.c1)) : c = y ∨ c = Fp2.neg y := by
  rcases h with ⟨h0, h1⟩ | ⟨h0, h1⟩
  · exact Or.inl (ext_cast hc hy h0 h1)
  · exact Or.inr (ext_cast hc (neg_red _) (by rw [neg_c0, h0]) (by rw [neg_c1, h1]))

theorem sqrt_complete_aux (f : Nat → Option Nat) (g : Nat → Nat) (hf : f = Fp.sqrt?)
    (hg : g = Fp.inv) {y : Fp2} (hy : Red y) (a : Fp2) (ha : a = Fp2.sq y) :
    ∃ r, Fp2.sqrt? a = some r ∧ (r = y ∨ r = Fp2.neg y) := by
  have Hsq : ∀ (n : Nat) (z : ZMod P), (n : ZMod P) = z ^ 2 →
      ∃ r, f n = some r ∧ r < P ∧ ((r : ZMod P) = z ∨ (r : ZMod P) = -z) := by
    intro n z h; rw [hf]; exact fp_sqrt_of_sq h
  have Hnone : ∀ (n : Nat) (z : ZMod P), z ≠ 0 → (n : ZMod P) = -z ^ 2 → f n = none := by
    intro n z hz h; rw [hf]; exact fp_sqrt_none hz h
  have Hg : ∀ n : Nat, ((g n : Nat) : ZMod P) = (n : ZMod P)⁻¹ := by
    intro n; rw [hg]; exact finv_cast n
  have A0 : (a.c0 : ZMod P) = (y.c0 : ZMod P) ^ 2 - (y.c1 : ZMod P) ^ 2 := by rw [ha, sq_c0]
  have A1 : (a.c1 : ZMod P) = 2 * (y.c0 : ZMod P) * (y.c1 : ZMod P) := by rw [ha, sq_c1]
  have hared : Red a := by rw [ha]; exact sq_red _
  -- once the candidate is `±y`, the final check passes
  have finish : ∀ c : Fp2, (c = y ∨ c = Fp2.neg y) →
      ∃ r, (if (Fp2.sq c == a) = true then some c else none) = some r ∧
        (r = y ∨ r = Fp2.neg y) := by
    intro c hc
    have hsq : Fp2.sq c = a := by
      rcases hc with rfl | rfl
      · exact ha.symm
      · rw [sq_neg, ha]
    rw [if_pos (beq_iff.mpr hsq)]
    exact ⟨c, rfl, hc⟩
  unfold Fp2.sqrt?
  rw [← hf, ← hg]
  clear hf hg
  simp only []
  by_cases h1 : (a.c1 == 0) = true
  · rw [if_pos h1]
    have h10 : (a.c1 : ZMod P) = 0 := by
      rw [beq_iff_eq] at h1; rw [h1, Nat.cast_zero]
    rw [h10] at A1
    have hz : (y.c0 : ZMod P) = 0 ∨ (y.c1 : ZMod P) = 0 := by
      have : (y.c0 : ZMod P) * (y.c1 : ZMod P) = 0 := by
        have h2 := two_ne_zero'
        have : (2 : ZMod P) * ((y.c0 : ZMod P) * (y.c1 : ZMod P)) = 0 := by linear_combination -A1
        exact (mul_eq_zero.mp this).resolve_left h2
      exact mul_eq_zero.mp this
    by_cases hy1 : (y.c1 : ZMod P) = 0
    · -- y = y0: root of a0 in Fp
      obtain ⟨r0, hs, hr0, hr⟩ := Hsq a.c0 (y.c0 : ZMod P) (by rw [A0, hy1]; ring)
      rw [hs]
      dsimp only
      apply finish
      apply eq_or_neg_of_cast ⟨hr0, P_pos⟩ hy
      rcases hr with hr | hr
      · exact Or.inl ⟨hr, by rw [hy1]; exact Nat.cast_zero⟩
      · exact Or.inr ⟨hr, by rw [hy1, neg_zero]; exact Nat.cast_zero⟩
    · -- y = y1·u: a0 = −y1² is not a square, −a0 is
      have hy0 : (y.c0 : ZMod P) = 0 := hz.resolve_right hy1
      have hs := Hnone a.c0 (y.c1 : ZMod P) hy1 (by rw [A0, hy0]; ring)
      obtain ⟨r0, hs', hr0, hr⟩ := Hsq (Fp.neg a.c0) (y.c1 : ZMod P) (by rw [neg_cast, A0, hy0]; ring)
      rw [hs]
      dsimp only
      rw [hs']
      dsimp only
      apply finish
      apply eq_or_neg_of_cast ⟨P_pos, hr0⟩ hy
      rcases hr with hr | hr
      · exact Or.inl ⟨by rw [hy0]; exact Nat.cast_zero, hr⟩
      · exact Or.inr ⟨by rw [hy0, neg_zero]; exact Nat.cast_zero, hr⟩
  · rw [if_neg h1]
    have h10 : (a.c1 : ZMod P) ≠ 0 := by
      intro h
      apply h1
      rw [beq_iff_eq]
      exact cast_eq_zero hared.2 h
    have hy0 : (y.c0 : ZMod P) ≠ 0 := by
      intro h; apply h10; rw [A1, h]; ring
    have hy1 : (y.c1 : ZMod P) ≠ 0 := by
      intro h; apply h10; rw [A1, h]; ring
    -- the tail of the computation, for a root `r0 = ±y0` of the real part
    have tail : ∀ r0 : Nat, r0 < P → ((r0 : ZMod P) = y.c0 ∨ (r0 : ZMod P) = -y.c0) →
        ∃ r, (if (Fp2.sq ⟨r0, Fp.mul a.c1 (g (Fp.add r0 r0))⟩ == a) = true
            then some (⟨r0, Fp.mul a.c1 (g (Fp.add r0 r0))⟩ : Fp2) else none) = some r ∧
          (r = y ∨ r = Fp2.neg y) := by
      intro r0 hr0 hr
      apply finish
      apply eq_or_neg_of_cast ⟨hr0, fmul_lt _ _⟩ hy
      have hc1 : ((Fp.mul a.c1 (g (Fp.add r0 r0)) : Nat) : ZMod P) =
          2 * (y.c0 : ZMod P) * (y.c1 : ZMod P) * ((r0 : ZMod P) + (r0 : ZMod P))⁻¹ := by
        rw [fmul_cast, Hg, fadd_cast, A1]
      have h2 := two_ne_zero'
      rcases hr with hr | hr
      · refine Or.inl ⟨hr, ?_⟩
        show ((Fp.mul a.c1 (g (Fp.add r0 r0)) : Nat) : ZMod P) = _
        rw [hc1, hr, ← two_mul]; field_simp
      · refine Or.inr ⟨hr, ?_⟩
        show ((Fp.mul a.c1 (g (Fp.add r0 r0)) : Nat) : ZMod P) = _
        rw [hc1, hr, ← two_mul, mul_neg, inv_neg]; field_simp
    obtain ⟨s, hs, hslt, hsr⟩ := Hsq (Fp2.norm a) ((y.c0 : ZMod P) ^ 2 + (y.c1 : ZMod P) ^ 2)
      (by rw [norm_cast, A0, A1]; ring)
    rw [hs]
    dsimp only
    have h2 := two_ne_zero'
    rcases hsr with hsr | hsr
    · obtain ⟨r0, hd1, hr0, hr⟩ := Hsq (Fp.mul (Fp.add a.c0 s) ((P + 1) / 2)) (y.c0 : ZMod P)
        (by rw [fmul_cast, fadd_cast, half_cast, A0, hsr]; field_simp; ring)
      rw [hd1]
      dsimp only
      exact tail r0 hr0 hr
    · have hd1 := Hnone (Fp.mul (Fp.add a.c0 s) ((P + 1) / 2)) (y.c1 : ZMod P) hy1
        (by rw [fmul_cast, fadd_cast, half_cast, A0, hsr]; field_simp; ring)
      obtain ⟨r0, hd2, hr0, hr⟩ := Hsq (Fp.mul (Fp.sub a.c0 s) ((P + 1) / 2)) (y.c0 : ZMod P)
        (by rw [fmul_cast, fsub_cast, half_cast, A0, hsr]; field_simp; ring)
      rw [hd1]
      dsimp only
      rw [hd2]
      dsimp only
      exact tail r0 hr0 hr

/-- **Completeness of `Fp2.sqrt?`**: on the square of a reduced `y` it answers, with `y` or `−y`
(roots are unique up to sign). -/
theorem sqrt_complete {y : Fp2} (hy : Red y) :
    ∃ r, Fp2.sqrt? (Fp2.sq y) = some r ∧ (r = y ∨ r = Fp2.neg y) :=
  sqrt_complete_aux _ _ rfl rfl hy _ rfl

end Zk.G2Codec
