/-
Helper lemmas for `ZkProofs/Props/ConcreteG2.lean`: the executable G2 arithmetic of the model
(`ZkModel/L0/Fp2.lean`, `ZkModel/L0/G2.lean`) IS the elliptic-curve group `E2(Fp2)` of Mathlib
(`WeierstrassCurve.Affine.Point`, whose group law is proven in Mathlib).

* A. `F2 := QuadraticAlgebra (ZMod P) (-1) 0` (Mathlib's `K[ω]/(ω² = −1)`, a `Field` because `−1` is not a
  square modulo `P`), `cast : Fp2 → F2` and its compatibility with every `Fp2` operation;
* B. the curve `E2 : y² = x³ + 4(1+u)`, `toPoint : G2Pt → E2.Point`, injective on reduced points of the
  curve and surjective; `G2.neg`, `G2.add` are the group operations;
* C. Jacobian doubling / mixed addition are correct through `Jac.toAffine`;
* D. `G2.bitsMSB n` are the binary digits of `n`, `G2.mul n p` is `n • p`, and `G2.inSubgroup p` says
  `R • p = O`.

No ring structure is assumed anywhere: the field is Mathlib's `QuadraticAlgebra`, the group law is
Mathlib's `WeierstrassCurve.Affine.Point` (associativity proven there via the ideal class group).
-/
import ZkProofs.Lemmas.G2Codec
import Mathlib.Algebra.QuadraticAlgebra.Basic
import Mathlib.AlgebraicGeometry.EllipticCurve.Affine.Point
import Mathlib.Tactic.FieldSimp
import Mathlib.Tactic.LinearCombination
namespace Zk.G2Group
open Zk Zk.Primes Zk.ConcreteScalar Zk.G1Codec Zk.G2Codec

/-! ## A. the field `Fp2` -/

/-- `−1` is not a square modulo `P` (`P ≡ 3 mod 4`): `X² + 1` has no root in `Fp`. -/
instance factNoRoot : Fact (∀ r : ZMod P, r ^ 2 ≠ (-1) + 0 * r) :=
  ⟨fun r h => sq_ne_neg_sq (x := r) (y := 1) one_ne_zero (by rw [h]; ring)⟩

/-- `Fp2 = Fp[u]/(u² + 1)` as a Mathlib field: pairs `re + im·ω` over `ZMod P` with `ω² = −1`. -/
abbrev F2 := QuadraticAlgebra (ZMod P) (-1) 0

/-- The class of a pair of naturals. -/
def cast (a : Fp2) : F2 := ⟨(a.c0 : ZMod P), (a.c1 : ZMod P)⟩

@[simp] theorem cast_re (a : Fp2) : (cast a).re = (a.c0 : ZMod P) := rfl
@[simp] theorem cast_im (a : Fp2) : (cast a).im = (a.c1 : ZMod P) := rfl

theorem cast_add (a b : Fp2) : cast (Fp2.add a b) = cast a + cast b := by
  ext
  · simp [Fp2.add, fadd_cast]
  · simp [Fp2.add, fadd_cast]

theorem cast_sub (a b : Fp2) : cast (Fp2.sub a b) = cast a - cast b := by
  ext
  · simp [Fp2.sub, fsub_cast]
  · simp [Fp2.sub, fsub_cast]

theorem cast_neg (a : Fp2) : cast (Fp2.neg a) = -cast a := by
  ext
  · simp [neg_c0]
  · simp [neg_c1]

theorem cast_dbl (a : Fp2) : cast (Fp2.dbl a) = 2 * cast a := by
  rw [Fp2.dbl, cast_add, two_mul]

theorem cast_mul (a b : Fp2) : cast (Fp2.mul a b) = cast a * cast b := by
  ext
  · simp [mul_c0]; ring
  · simp [mul_c1]

theorem cast_sq (a : Fp2) : cast (Fp2.sq a) = cast a ^ 2 := by
  ext
  · simp [sq_c0, pow_two]; ring
  · simp [sq_c1, pow_two]; ring

theorem cast_smul (k : Nat) (a : Fp2) : cast (Fp2.smul k a) = (k : F2) * cast a := by
  ext
  · simp [Fp2.smul, ZMod.natCast_mod]
  · simp [Fp2.smul, ZMod.natCast_mod]

theorem norm_cast' (a : Fp2) :
    QuadraticAlgebra.norm (cast a) = (a.c0 : ZMod P) ^ 2 + (a.c1 : ZMod P) ^ 2 := by
  rw [QuadraticAlgebra.norm_def]; simp; ring

theorem cast_inv (a : Fp2) : cast (Fp2.inv a) = (cast a)⁻¹ := by
  ext
  · simp [Fp2.inv, QuadraticAlgebra.re_inv, ZMod.natCast_mod, finv_cast, norm_cast, norm_cast']
    ring
  · simp [Fp2.inv, QuadraticAlgebra.im_inv, ZMod.natCast_mod, finv_cast, norm_cast, neg_cast,
      norm_cast']
    ring

theorem sub_red (a b : Fp2) : Red (Fp2.sub a b) := ⟨Nat.mod_lt _ P_pos, Nat.mod_lt _ P_pos⟩
theorem dbl_red (a : Fp2) : Red (Fp2.dbl a) := add_red _ _
theorem smul_red (k : Nat) (a : Fp2) : Red (Fp2.smul k a) :=
  ⟨Nat.mod_lt _ P_pos, Nat.mod_lt _ P_pos⟩
theorem inv_red (a : Fp2) : Red (Fp2.inv a) := ⟨Nat.mod_lt _ P_pos, Nat.mod_lt _ P_pos⟩
theorem one_red : Red Fp2.one := ⟨by decide, by decide⟩
theorem zero_red : Red Fp2.zero := ⟨by decide, by decide⟩

theorem cast_one : cast Fp2.one = 1 := by
  ext <;> simp [Fp2.one, QuadraticAlgebra.re_one, QuadraticAlgebra.im_one]
theorem cast_zero : cast Fp2.zero = 0 := by ext <;> simp [Fp2.zero]

theorem cast_inj {a b : Fp2} (ha : Red a) (hb : Red b) : cast a = cast b ↔ a = b := by
  constructor
  · intro h
    exact ext_cast ha hb (congrArg QuadraticAlgebra.re h) (congrArg QuadraticAlgebra.im h)
  · rintro rfl; rfl

theorem isZero_iff {a : Fp2} (ha : Red a) : a.isZero = true ↔ cast a = 0 := by
  rw [← cast_zero, cast_inj ha zero_red]
  obtain ⟨a0, a1⟩ := a
  simp [Fp2.isZero, Fp2.zero]

theorem beq_iff_cast {a b : Fp2} (ha : Red a) (hb : Red b) : (a == b) = true ↔ cast a = cast b := by
  rw [beq_iff, cast_inj ha hb]

/-- Every element of the field is the class of a reduced pair. -/
theorem cast_surj (z : F2) : ∃ a : Fp2, Red a ∧ cast a = z :=
  ⟨⟨z.re.val, z.im.val⟩, ⟨(ZMod.val_lt z.re : z.re.val < P), (ZMod.val_lt z.im : z.im.val < P)⟩, by ext <;> simp⟩

open WeierstrassCurve WeierstrassCurve.Affine

/-! ## B. the curve -/

/-- The curve constant `4(1+u)`. -/
def bF : F2 := ⟨4, 4⟩

theorem cast_b : cast G2.b = bF := by ext <;> simp [G2.b, bF]

/-- `E2 : y² = x³ + 4(1+u)` over `Fp2`. -/
def E2 : WeierstrassCurve F2 := ⟨0, 0, 0, 0, bF⟩

theorem equation_iff' (x y : F2) : E2.toAffine.Equation x y ↔ y ^ 2 = x ^ 3 + bF := by
  rw [Affine.equation_iff]
  simp [E2]

theorem two_ne_zeroF : (2 : F2) ≠ 0 := by
  intro h
  have := congrArg QuadraticAlgebra.re h
  simp at this
  exact two_ne_zero' this

/-- No point of order two: `x³ + 4(1+u) ≠ 0` for every `x` (norms: `32` is not a cube mod `P`). -/
theorem rhsF_ne_zero (x : F2) : x ^ 3 + bF ≠ 0 := by
  intro h
  have h0 := congrArg QuadraticAlgebra.re h
  have h1 := congrArg QuadraticAlgebra.im h
  simp [pow_succ, bF] at h0 h1
  apply not_cube_32 (x.re ^ 2 + x.im ^ 2)
  linear_combination ((x.re ^ 3 - 3 * x.re * x.im ^ 2) - 4) * h0 +
    ((3 * x.re ^ 2 * x.im - x.im ^ 3) - 4) * h1

theorem y_ne_zero {x y : F2} (h : E2.toAffine.Equation x y) : y ≠ 0 := by
  rw [equation_iff'] at h
  intro hy
  rw [hy] at h
  exact rhsF_ne_zero x (by rw [← h]; ring)

theorem y_ne_neg {x y : F2} (h : E2.toAffine.Equation x y) : y ≠ -y := by
  intro hy
  have : (2 : F2) * y = 0 := by linear_combination hy
  rcases mul_eq_zero.mp this with h2 | h2
  · exact two_ne_zeroF h2
  · exact y_ne_zero h h2

theorem nonsingular_of_equation {x y : F2} (h : E2.toAffine.Equation x y) :
    E2.toAffine.Nonsingular x y := by
  rw [Affine.nonsingular_iff]
  refine ⟨h, Or.inr ?_⟩
  have := y_ne_neg h
  simpa [E2] using this


/-! ### the group law of Mathlib on `E2`, in closed form -/

theorem some_add_chord {x1 y1 x2 y2 : F2} (h1 : E2.toAffine.Nonsingular x1 y1)
    (h2 : E2.toAffine.Nonsingular x2 y2) (hx : x1 ≠ x2) {l x3 y3 : F2}
    (hl : l = (y2 - y1) * (x2 - x1)⁻¹) (hx3 : x3 = l ^ 2 - x1 - x2)
    (hy3 : y3 = l * (x1 - x3) - y1) :
    ∃ h3 : E2.toAffine.Nonsingular x3 y3, Point.some x1 y1 h1 + Point.some x2 y2 h2 = Point.some x3 y3 h3 := by
  have hs : E2.toAffine.slope x1 x2 y1 y2 = l := by
    rw [slope_of_X_ne hx, hl, ← neg_sub y2 y1, ← neg_sub x2 x1, neg_div_neg_eq, div_eq_mul_inv]
  have hX : E2.toAffine.addX x1 x2 (E2.toAffine.slope x1 x2 y1 y2) = x3 := by
    rw [hs, hx3]; simp [E2]
  have hY : E2.toAffine.addY x1 x2 y1 (E2.toAffine.slope x1 x2 y1 y2) = y3 := by
    rw [hs, hy3, hx3]; simp [addY, E2]; ring
  have := Point.add_of_X_ne (h₁ := h1) (h₂ := h2) hx
  have hn := nonsingular_add h1 h2 (fun hxy => hx hxy.left)
  rw [this]
  simp only [hX, hY] at hn ⊢
  exact ⟨hn, trivial⟩

theorem some_add_self {x y : F2} (h : E2.toAffine.Nonsingular x y) {l x3 y3 : F2}
    (hl : l = 3 * x ^ 2 * (2 * y)⁻¹) (hx3 : x3 = l ^ 2 - 2 * x)
    (hy3 : y3 = l * (x - x3) - y) :
    ∃ h3 : E2.toAffine.Nonsingular x3 y3, Point.some x y h + Point.some x y h = Point.some x3 y3 h3 := by
  have hy : y ≠ E2.toAffine.negY x y := by
    have := y_ne_neg h.1
    simpa [E2] using this
  have hs : E2.toAffine.slope x x y y = l := by
    rw [slope_of_Y_ne rfl hy, hl]
    simp [E2, div_eq_mul_inv]
    left; ring
  have hX : E2.toAffine.addX x x (E2.toAffine.slope x x y y) = x3 := by
    rw [hs, hx3]; simp [E2]; ring
  have hY : E2.toAffine.addY x x y (E2.toAffine.slope x x y y) = y3 := by
    rw [hs, hy3, hx3]; simp [addY, E2]; ring
  have := Point.add_self_of_Y_ne (h₁ := h) hy
  have hn := nonsingular_add h h (fun hxy => hy hxy.right)
  rw [this]
  simp only [hX, hY] at hn ⊢
  exact ⟨hn, trivial⟩

theorem some_add_neg {x1 y1 x2 y2 : F2} (h1 : E2.toAffine.Nonsingular x1 y1)
    (h2 : E2.toAffine.Nonsingular x2 y2) (hx : x1 = x2) (hy : y1 ≠ y2) :
    Point.some x1 y1 h1 + Point.some x2 y2 h2 = 0 := by
  apply Point.add_of_Y_eq hx
  exact (Y_eq_of_X_eq h1.1 h2.1 hx).resolve_left hy


/-! ### `toPoint` -/

theorem onCurve_finite {p : G2Pt} (hinf : p.inf = false) :
    G2.onCurve p = true ↔ E2.toAffine.Equation (cast p.x) (cast p.y) := by
  rw [equation_iff']
  unfold G2.onCurve
  rw [hinf, Bool.false_or, beq_iff_cast (sq_red _) (add_red _ _), cast_sq, cast_add, cast_mul,
    cast_sq, cast_b, show cast p.x ^ 2 * cast p.x = cast p.x ^ 3 by ring]

theorem onCurve_inf {p : G2Pt} (hinf : p.inf = true) : G2.onCurve p = true := by
  unfold G2.onCurve; rw [hinf]; rfl

/-- The point of `E2(Fp2)` represented by a `G2Pt` (the identity for anything not on the curve). -/
def toPoint (p : G2Pt) : E2.toAffine.Point :=
  if h : p.inf = false ∧ G2.onCurve p = true then
    .some (cast p.x) (cast p.y) (nonsingular_of_equation ((onCurve_finite h.1).mp h.2))
  else 0

theorem toPoint_inf {p : G2Pt} (h : p.inf = true) : toPoint p = 0 := by
  unfold toPoint
  rw [dif_neg]
  rw [h]; simp

theorem toPoint_zero : toPoint G2Pt.zero = 0 := toPoint_inf rfl

theorem toPoint_finite {p : G2Pt} (hinf : p.inf = false) (hc : G2.onCurve p = true) :
    toPoint p = .some (cast p.x) (cast p.y)
      (nonsingular_of_equation ((onCurve_finite hinf).mp hc)) := by
  unfold toPoint
  rw [dif_pos ⟨hinf, hc⟩]

theorem reduced_ofXY {x y : Fp2} (hx : Red x) (hy : Red y) : Reduced (G2Pt.ofXY x y) :=
  ⟨⟨hx.1, hx.2, hy.1, hy.2⟩, fun h => by simp [G2Pt.ofXY] at h⟩

theorem red_x {p : G2Pt} (h : Reduced p) : Red p.x := ⟨h.1.1, h.1.2.1⟩
theorem red_y {p : G2Pt} (h : Reduced p) : Red p.y := ⟨h.1.2.2.1, h.1.2.2.2⟩

/-- A finite point given by coordinates whose classes satisfy the curve equation. -/
theorem toPoint_ofXY {x y : Fp2} {X Y : F2} (h : E2.toAffine.Nonsingular X Y) (hx : cast x = X)
    (hy : cast y = Y) :
    G2.onCurve (G2Pt.ofXY x y) = true ∧ toPoint (G2Pt.ofXY x y) = .some X Y h := by
  subst hx hy
  have hc : G2.onCurve (G2Pt.ofXY x y) = true := (onCurve_finite (p := G2Pt.ofXY x y) rfl).mpr h.1
  exact ⟨hc, toPoint_finite rfl hc⟩

/-- `toPoint` is injective on the points of the curve in normal form. -/
theorem toPoint_inj {p q : G2Pt} (hp : G2.onCurve p = true) (hq : G2.onCurve q = true)
    (rp : Reduced p) (rq : Reduced q) (h : toPoint p = toPoint q) : p = q := by
  cases hpi : p.inf <;> cases hqi : q.inf
  · rw [toPoint_finite hpi hp, toPoint_finite hqi hq, Point.some.injEq] at h
    have ex := (cast_inj (red_x rp) (red_x rq)).mp h.1
    have ey := (cast_inj (red_y rp) (red_y rq)).mp h.2
    obtain ⟨x0, x1, y0, y1, i⟩ := p
    obtain ⟨x0', x1', y0', y1', i'⟩ := q
    simp only [G2Pt.x, G2Pt.y, Fp2.mk.injEq] at ex ey
    simp only at hpi hqi
    rw [ex.1, ex.2, ey.1, ey.2, hpi, hqi]
  · rw [toPoint_finite hpi hp, toPoint_inf hqi] at h
    exact absurd h (Point.some_ne_zero _)
  · rw [toPoint_finite hqi hq, toPoint_inf hpi] at h
    exact absurd h.symm (Point.some_ne_zero _)
  · rw [rp.2 hpi, rq.2 hqi]

/-- Every point of `E2(Fp2)` is represented by a (unique) `G2Pt` on the curve in normal form. -/
theorem toPoint_surj (Q : E2.toAffine.Point) :
    ∃ p : G2Pt, G2.onCurve p = true ∧ Reduced p ∧ toPoint p = Q := by
  rcases Q with _ | ⟨X, Y, h⟩
  · exact ⟨G2Pt.zero, rfl, reduced_zero, toPoint_zero⟩
  · obtain ⟨x, rx, hx⟩ := cast_surj X
    obtain ⟨y, ry, hy⟩ := cast_surj Y
    obtain ⟨hc, ht⟩ := toPoint_ofXY h hx hy
    exact ⟨G2Pt.ofXY x y, hc, reduced_ofXY rx ry, ht⟩

/-! ### negation and addition -/

theorem neg_spec {p : G2Pt} (hp : G2.onCurve p = true) (rp : Reduced p) :
    G2.onCurve (G2.neg p) = true ∧ Reduced (G2.neg p) ∧ toPoint (G2.neg p) = -toPoint p := by
  cases hpi : p.inf
  · have hn : G2.neg p = G2Pt.ofXY p.x (Fp2.neg p.y) := by unfold G2.neg; rw [hpi]; rfl
    rw [hn, toPoint_finite hpi hp, Point.neg_some]
    have h := nonsingular_of_equation ((onCurve_finite hpi).mp hp)
    have h' := (nonsingular_neg ..).mpr h
    obtain ⟨hc, ht⟩ := toPoint_ofXY (x := p.x) (y := Fp2.neg p.y) h' rfl
      (by rw [cast_neg]; simp [E2])
    exact ⟨hc, reduced_ofXY (red_x rp) (neg_red _), ht⟩
  · have hn : G2.neg p = G2Pt.zero := by unfold G2.neg; rw [hpi]; rfl
    rw [hn, toPoint_inf hpi]
    exact ⟨rfl, reduced_zero, by rw [toPoint_zero]; rfl⟩


theorem natCast3 : ((3 : Nat) : F2) = 3 := by norm_num
theorem natCast8 : ((8 : Nat) : F2) = 8 := by norm_num

theorem add_spec {p q : G2Pt} (hp : G2.onCurve p = true) (hq : G2.onCurve q = true)
    (rp : Reduced p) (rq : Reduced q) :
    G2.onCurve (G2.add p q) = true ∧ Reduced (G2.add p q) ∧
      toPoint (G2.add p q) = toPoint p + toPoint q := by
  cases hpi : p.inf
  · cases hqi : q.inf
    · have h1 := nonsingular_of_equation ((onCurve_finite hpi).mp hp)
      have h2 := nonsingular_of_equation ((onCurve_finite hqi).mp hq)
      rw [toPoint_finite hpi hp, toPoint_finite hqi hq]
      unfold G2.add
      simp only [hpi, hqi, Bool.false_eq_true, if_false]
      by_cases hx : (p.x == q.x) = true
      · rw [if_pos hx]
        have hx' := (beq_iff_cast (red_x rp) (red_x rq)).mp hx
        have hz : p.y.isZero = false := by
          rw [Bool.eq_false_iff, ne_eq, isZero_iff (red_y rp)]
          exact y_ne_zero h1.1
        by_cases hy : (p.y == q.y) = true
        · have hy' := (beq_iff_cast (red_y rp) (red_y rq)).mp hy
          rw [if_pos (by rw [hy, hz]; rfl)]
          have hpq : Point.some (cast q.x) (cast q.y) h2 = Point.some (cast p.x) (cast p.y) h1 := by
            rw [Point.some.injEq]; exact ⟨hx'.symm, hy'.symm⟩
          rw [hpq]
          obtain ⟨h3, e3⟩ := some_add_self h1 rfl rfl rfl
          rw [e3]
          obtain ⟨hc, ht⟩ := toPoint_ofXY h3
            (x := Fp2.sub (Fp2.sq (Fp2.mul (Fp2.smul 3 (Fp2.sq p.x)) (Fp2.inv (Fp2.dbl p.y))))
              (Fp2.dbl p.x))
            (y := Fp2.sub (Fp2.mul (Fp2.mul (Fp2.smul 3 (Fp2.sq p.x)) (Fp2.inv (Fp2.dbl p.y)))
              (Fp2.sub p.x (Fp2.sub (Fp2.sq (Fp2.mul (Fp2.smul 3 (Fp2.sq p.x))
                (Fp2.inv (Fp2.dbl p.y)))) (Fp2.dbl p.x)))) p.y)
            (by simp only [cast_sub, cast_sq, cast_mul, cast_smul, cast_inv, cast_dbl, natCast3])
            (by simp only [cast_sub, cast_sq, cast_mul, cast_smul, cast_inv, cast_dbl, natCast3])
          exact ⟨hc, reduced_ofXY (sub_red _ _) (sub_red _ _), ht⟩
        · have hy' : cast p.y ≠ cast q.y := fun h => hy ((beq_iff_cast (red_y rp) (red_y rq)).mpr h)
          rw [if_neg (by simp [hy])]
          rw [some_add_neg h1 h2 hx' hy']
          exact ⟨rfl, reduced_zero, toPoint_zero⟩
      · rw [if_neg hx]
        have hx' : cast p.x ≠ cast q.x := fun h => hx ((beq_iff_cast (red_x rp) (red_x rq)).mpr h)
        obtain ⟨h3, e3⟩ := some_add_chord h1 h2 hx' rfl rfl rfl
        rw [e3]
        obtain ⟨hc, ht⟩ := toPoint_ofXY h3
          (x := Fp2.sub (Fp2.sub (Fp2.sq (Fp2.mul (Fp2.sub q.y p.y) (Fp2.inv (Fp2.sub q.x p.x))))
            p.x) q.x)
          (y := Fp2.sub (Fp2.mul (Fp2.mul (Fp2.sub q.y p.y) (Fp2.inv (Fp2.sub q.x p.x)))
            (Fp2.sub p.x (Fp2.sub (Fp2.sub (Fp2.sq (Fp2.mul (Fp2.sub q.y p.y)
              (Fp2.inv (Fp2.sub q.x p.x)))) p.x) q.x))) p.y)
          (by simp only [cast_sub, cast_sq, cast_mul, cast_inv])
          (by simp only [cast_sub, cast_sq, cast_mul, cast_inv])
        exact ⟨hc, reduced_ofXY (sub_red _ _) (sub_red _ _), ht⟩
    · have : G2.add p q = p := by unfold G2.add; simp [hpi, hqi]
      rw [this, toPoint_inf hqi, add_zero]
      exact ⟨hp, rp, rfl⟩
  · have : G2.add p q = q := by unfold G2.add; simp [hpi]
    rw [this, toPoint_inf hpi, zero_add]
    exact ⟨hq, rq, rfl⟩

/-! ## C. Jacobian coordinates -/

/-- All three Jacobian coordinates reduced. -/
def JRed (j : G2.Jac) : Prop := Red j.X ∧ Red j.Y ∧ Red j.Z

/-- `j` (reduced) represents the point `Q` of the curve: `Z = 0` and `Q = O`, or `Q = (X/Z², Y/Z³)`. -/
def JRep (j : G2.Jac) (Q : E2.toAffine.Point) : Prop :=
  JRed j ∧ ((cast j.Z = 0 ∧ Q = 0) ∨ (cast j.Z ≠ 0 ∧
    ∃ h, Q = Point.some (cast j.X / cast j.Z ^ 2) (cast j.Y / cast j.Z ^ 3) h))

theorem rep_zero : JRep G2.Jac.zero 0 :=
  ⟨⟨one_red, one_red, zero_red⟩, Or.inl ⟨cast_zero, rfl⟩⟩

theorem toAffine_rep {j : G2.Jac} {Q : E2.toAffine.Point} (h : JRep j Q) :
    G2.onCurve (G2.Jac.toAffine j) = true ∧ Reduced (G2.Jac.toAffine j) ∧
      toPoint (G2.Jac.toAffine j) = Q := by
  obtain ⟨⟨-, -, rz⟩, h⟩ := h
  unfold G2.Jac.toAffine
  rcases h with ⟨hz, rfl⟩ | ⟨hz, hn, rfl⟩
  · rw [if_pos ((isZero_iff rz).mpr hz)]
    exact ⟨rfl, reduced_zero, toPoint_zero⟩
  · rw [if_neg (fun h => hz ((isZero_iff rz).mp h))]
    obtain ⟨hc, ht⟩ := toPoint_ofXY hn
      (x := Fp2.mul j.X (Fp2.sq (Fp2.inv j.Z)))
      (y := Fp2.mul j.Y (Fp2.mul (Fp2.inv j.Z) (Fp2.sq (Fp2.inv j.Z))))
      (by simp only [cast_mul, cast_sq, cast_inv]; field_simp)
      (by simp only [cast_mul, cast_sq, cast_inv]; field_simp)
    exact ⟨hc, reduced_ofXY (mul_red _ _) (mul_red _ _), ht⟩

theorem dbl_rep {j : G2.Jac} {Q : E2.toAffine.Point} (h : JRep j Q) :
    JRep (G2.Jac.dbl j) (Q + Q) := by
  obtain ⟨-, h⟩ := h
  unfold G2.Jac.dbl
  refine ⟨⟨sub_red _ _, sub_red _ _, dbl_red _⟩, ?_⟩
  simp only [cast_sub, cast_sq, cast_mul, cast_smul, cast_dbl, cast_add, natCast3, natCast8]
  rcases h with ⟨hz, rfl⟩ | ⟨hz, hn, rfl⟩
  · left
    rw [hz]
    exact ⟨by ring, by rw [add_zero]⟩
  · right
    have hy : cast j.Y / cast j.Z ^ 3 ≠ 0 := y_ne_zero hn.1
    have hY : cast j.Y ≠ 0 := by
      intro h0; rw [h0, zero_div] at hy; exact hy rfl
    have h2 := two_ne_zeroF
    refine ⟨mul_ne_zero h2 (mul_ne_zero hY hz), ?_⟩
    refine some_add_self hn rfl ?_ ?_
    · generalize cast j.X = X
      generalize cast j.Y = Y at hY ⊢
      generalize cast j.Z = Z at hz ⊢
      field_simp; ring
    · generalize cast j.X = X
      generalize cast j.Y = Y at hY ⊢
      generalize cast j.Z = Z at hz ⊢
      field_simp; ring


theorem addAffine_rep {j : G2.Jac} {Q : E2.toAffine.Point} (h : JRep j Q) {px py : Fp2}
    (rx : Red px) (ry : Red py) (h2 : E2.toAffine.Nonsingular (cast px) (cast py)) :
    JRep (G2.Jac.addAffine j px py) (Q + Point.some (cast px) (cast py) h2) := by
  have hj := h
  obtain ⟨⟨rX, rY, rZ⟩, h⟩ := h
  unfold G2.Jac.addAffine
  rcases h with ⟨hz, rfl⟩ | ⟨hz, hn, rfl⟩
  · rw [if_pos ((isZero_iff rZ).mpr hz), zero_add]
    refine ⟨⟨rx, ry, one_red⟩, Or.inr ?_⟩
    simp only [cast_one]
    refine ⟨one_ne_zero, ?_⟩
    simp only [one_pow, div_one]
    exact ⟨h2, trivial⟩
  · rw [if_neg (fun h => hz ((isZero_iff rZ).mp h))]
    simp only []
    by_cases hx : (j.X == Fp2.mul px (Fp2.sq j.Z)) = true
    · rw [if_pos hx]
      have hx' := (beq_iff_cast rX (mul_red _ _)).mp hx
      simp only [cast_mul, cast_sq] at hx'
      have ex : cast j.X / cast j.Z ^ 2 = cast px := by rw [hx']; field_simp
      by_cases hy : (j.Y == Fp2.mul py (Fp2.mul j.Z (Fp2.sq j.Z))) = true
      · rw [if_pos hy]
        have hy' := (beq_iff_cast rY (mul_red _ _)).mp hy
        simp only [cast_mul, cast_sq] at hy'
        have ey : cast j.Y / cast j.Z ^ 3 = cast py := by rw [hy']; field_simp
        have : Point.some (cast px) (cast py) h2 =
            Point.some (cast j.X / cast j.Z ^ 2) (cast j.Y / cast j.Z ^ 3) hn := by
          rw [Point.some.injEq]; exact ⟨ex.symm, ey.symm⟩
        rw [this]
        exact dbl_rep hj
      · rw [if_neg hy]
        have hy' : cast j.Y / cast j.Z ^ 3 ≠ cast py := by
          intro e
          apply hy
          rw [beq_iff_cast rY (mul_red _ _)]
          simp only [cast_mul, cast_sq]
          rw [← e]; field_simp
        rw [some_add_neg hn h2 ex hy']
        exact rep_zero
    · rw [if_neg hx]
      have hx' : cast j.X ≠ cast px * cast j.Z ^ 2 := by
        intro e
        apply hx
        rw [beq_iff_cast rX (mul_red _ _)]
        simp only [cast_mul, cast_sq]
        exact e
      have hH : cast px * cast j.Z ^ 2 - cast j.X ≠ 0 := fun e => hx' (by linear_combination -e)
      have hne : cast j.X / cast j.Z ^ 2 ≠ cast px := by
        intro e
        apply hx'
        rw [← e]; field_simp
      refine ⟨⟨sub_red _ _, sub_red _ _, mul_red _ _⟩, Or.inr ?_⟩
      simp only [cast_sub, cast_sq, cast_mul, cast_dbl]
      refine ⟨mul_ne_zero hz hH, ?_⟩
      refine some_add_chord hn h2 hne rfl ?_ ?_
      · generalize cast j.X = X at hH ⊢
        generalize cast j.Y = Y
        generalize cast j.Z = Z at hz hH ⊢
        generalize cast px = x2 at hH ⊢
        generalize cast py = y2
        obtain ⟨H, rfl⟩ : ∃ H, X = x2 * Z ^ 2 - H := ⟨x2 * Z ^ 2 - X, by ring⟩
        have hH' : H ≠ 0 := fun e => hH (by rw [e]; ring)
        have e1 : x2 - (x2 * Z ^ 2 - H) / Z ^ 2 = H / Z ^ 2 := by field_simp; ring
        have e2 : x2 * Z ^ 2 - (x2 * Z ^ 2 - H) = H := by ring
        rw [e1, e2]
        field_simp; ring
      · generalize cast j.X = X at hH ⊢
        generalize cast j.Y = Y
        generalize cast j.Z = Z at hz hH ⊢
        generalize cast px = x2 at hH ⊢
        generalize cast py = y2
        obtain ⟨H, rfl⟩ : ∃ H, X = x2 * Z ^ 2 - H := ⟨x2 * Z ^ 2 - X, by ring⟩
        have hH' : H ≠ 0 := fun e => hH (by rw [e]; ring)
        have e1 : x2 - (x2 * Z ^ 2 - H) / Z ^ 2 = H / Z ^ 2 := by field_simp; ring
        have e2 : x2 * Z ^ 2 - (x2 * Z ^ 2 - H) = H := by ring
        rw [e1, e2]
        field_simp


/-- Jacobian doubling against the affine addition of the model, through `Jac.toAffine`. -/
theorem toAffine_dbl {j : G2.Jac} {Q : E2.toAffine.Point} (h : JRep j Q) :
    G2.Jac.toAffine (G2.Jac.dbl j) = G2.add (G2.Jac.toAffine j) (G2.Jac.toAffine j) := by
  obtain ⟨c1, r1, t1⟩ := toAffine_rep h
  obtain ⟨c2, r2, t2⟩ := toAffine_rep (dbl_rep h)
  obtain ⟨c3, r3, t3⟩ := add_spec c1 c1 r1 r1
  exact toPoint_inj c2 c3 r2 r3 (by rw [t2, t3, t1])

/-- Jacobian mixed addition against the affine addition of the model, through `Jac.toAffine`. -/
theorem toAffine_addAffine {j : G2.Jac} {Q : E2.toAffine.Point} (h : JRep j Q) {p : G2Pt}
    (hp : G2.onCurve p = true) (rp : Reduced p) (hpi : p.inf = false) :
    G2.Jac.toAffine (G2.Jac.addAffine j p.x p.y) = G2.add (G2.Jac.toAffine j) p := by
  have h2 := nonsingular_of_equation ((onCurve_finite hpi).mp hp)
  obtain ⟨c1, r1, t1⟩ := toAffine_rep h
  obtain ⟨c2, r2, t2⟩ := toAffine_rep (addAffine_rep h (red_x rp) (red_y rp) h2)
  obtain ⟨c3, r3, t3⟩ := add_spec c1 hp r1 rp
  exact toPoint_inj c2 c3 r2 r3 (by rw [t2, t3, t1, toPoint_finite hpi hp])

/-! ## D. double-and-add -/

/-- Value of a list of binary digits, most significant first, continuing from `k`. -/
def bitsVal (k : Nat) (l : List Bool) : Nat := l.foldl (fun a b => 2 * a + b.toNat) k

theorem bitsAux_val : ∀ (fuel n : Nat) (acc : List Bool) (k : Nat), n < 2 ^ fuel →
    ∃ m, bitsVal k (G2.bitsAux fuel n acc) = bitsVal (k * 2 ^ m + n) acc
  | 0, n, acc, k, h => by
    have : n = 0 := by simpa using h
    subst this
    exact ⟨0, by simp [G2.bitsAux]⟩
  | fuel + 1, n, acc, k, h => by
    unfold G2.bitsAux
    by_cases hn : n = 0
    · subst hn
      exact ⟨0, by simp⟩
    · have hn' : (n == 0) = false := by simpa using hn
      rw [hn']
      simp only [Bool.false_eq_true, if_false]
      obtain ⟨m, hm⟩ := bitsAux_val fuel (n / 2) ((n % 2 == 1) :: acc) k
        (by rw [pow_succ] at h; omega)
      refine ⟨m + 1, ?_⟩
      rw [hm]
      unfold bitsVal
      rw [List.foldl_cons]
      congr 1
      have : (n % 2 == 1).toNat = n % 2 := by
        rcases Nat.mod_two_eq_zero_or_one n with h | h <;> simp [h]
      rw [this, pow_succ]
      have := Nat.div_add_mod n 2
      nlinarith

/-- **`G2.bitsMSB n` are the binary digits of `n`**, most significant first. -/
theorem bitsMSB_val (n : Nat) : (G2.bitsMSB n).foldl (fun a b => 2 * a + b.toNat) 0 = n := by
  obtain ⟨m, hm⟩ := bitsAux_val (n.log2 + 1) n [] 0 Nat.lt_log2_self
  have : bitsVal 0 (G2.bitsMSB n) = n := by
    unfold G2.bitsMSB
    rw [hm]; simp [bitsVal]
  exact this

/-- The fold invariant of `G2.mul`: the accumulator represents `(value of the digits read) • P`. -/
theorem fold_rep {px py : Fp2} (rx : Red px) (ry : Red py)
    (h2 : E2.toAffine.Nonsingular (cast px) (cast py)) :
    ∀ (l : List Bool) (j : G2.Jac) (k : Nat), JRep j (k • Point.some (cast px) (cast py) h2) →
      JRep (l.foldl (fun acc bit => let d := G2.Jac.dbl acc
          if bit then G2.Jac.addAffine d px py else d) j)
        (bitsVal k l • Point.some (cast px) (cast py) h2)
  | [], j, k, h => h
  | b :: l, j, k, h => by
    rw [List.foldl_cons]
    unfold bitsVal
    rw [List.foldl_cons]
    apply fold_rep rx ry h2 l
    have hd := dbl_rep h
    rw [← add_nsmul, ← two_mul] at hd
    cases b
    · simpa using hd
    · have := addAffine_rep hd rx ry h2
      rw [← succ_nsmul] at this
      simpa using this

/-- **`G2.mul n p` is `n • p`** in `E2(Fp2)`, for every natural `n` and every point of the curve in
normal form; the result is again on the curve and in normal form. -/
theorem mul_spec (n : Nat) {p : G2Pt} (hp : G2.onCurve p = true) (rp : Reduced p) :
    G2.onCurve (G2.mul n p) = true ∧ Reduced (G2.mul n p) ∧
      toPoint (G2.mul n p) = n • toPoint p := by
  unfold G2.mul
  cases hpi : p.inf
  · simp only [Bool.false_eq_true, if_false]
    have h2 := nonsingular_of_equation ((onCurve_finite hpi).mp hp)
    have h0 : JRep G2.Jac.zero (0 • Point.some (cast p.x) (cast p.y) h2) := by
      rw [zero_nsmul]; exact rep_zero
    have := fold_rep (red_x rp) (red_y rp) h2 (G2.bitsMSB n) G2.Jac.zero 0 h0
    have hv : bitsVal 0 (G2.bitsMSB n) = n := bitsMSB_val n
    rw [hv] at this
    rw [toPoint_finite hpi hp]
    exact toAffine_rep this
  · simp only [if_true]
    rw [toPoint_inf hpi, nsmul_zero]
    exact ⟨rfl, reduced_zero, toPoint_zero⟩

/-- A point in normal form is the identity exactly when its `inf` flag is set and exactly when its
image is the neutral element. -/
theorem toPoint_eq_zero_iff {p : G2Pt} (hp : G2.onCurve p = true) :
    toPoint p = 0 ↔ p.inf = true := by
  cases hpi : p.inf
  · rw [toPoint_finite hpi hp]
    simp [Point.some_ne_zero]
  · simp [toPoint_inf hpi]

/-- **`G2.inSubgroup p = true ↔ R • p = O`** in `E2(Fp2)`. -/
theorem inSubgroup_iff {p : G2Pt} (hp : G2.onCurve p = true) (rp : Reduced p) :
    G2.inSubgroup p = true ↔ R • toPoint p = 0 := by
  obtain ⟨hc, -, ht⟩ := mul_spec R hp rp
  unfold G2.inSubgroup
  rw [← ht, toPoint_eq_zero_iff hc]

end Zk.G2Group
