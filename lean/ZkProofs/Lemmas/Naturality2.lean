/-
Naturality of the BBS model, part 2: `src/bbsplus/proof.rs` (this file), continuing
`ZkProofs/Lemmas/Naturality.lean`.  Commitment / blind functions are in `Naturality3.lean`.
-/
import ZkProofs.Lemmas.Naturality
set_option linter.unusedSectionVars false
set_option linter.unusedVariables false

namespace Zk
namespace Transfer

section
variable {S G1 G2 : Type}
variable [Zero S] [One S] [Add S] [Sub S] [Neg S] [Mul S] [DecidableEq S]
variable [Zero G1] [Add G1] [Sub G1] [Neg G1] [SMul S G1] [DecidableEq G1]
variable [Zero G2] [Add G2] [Neg G2] [SMul S G2] [DecidableEq G2]
variable {S' G1' G2' : Type}
variable [Zero S'] [One S'] [Add S'] [Sub S'] [Neg S'] [Mul S'] [DecidableEq S']
variable [Zero G1'] [Add G1'] [Sub G1'] [Neg G1'] [SMul S' G1'] [DecidableEq G1']
variable [Zero G2'] [Add G2'] [Neg G2'] [SMul S' G2'] [DecidableEq G2']
variable {env : Env S G1 G2} {env' : Env S' G1' G2'} {fS : S → S'} {f1 : G1 → G1'} {f2 : G2 → G2'}

/-! ### `src/bbsplus/proof.rs` -/

theorem PoKSignature.toBytes_nat (H : Hom env env' fS f1 f2) (π : PoKSignature S G1) :
    (π.map fS f1).toBytes env' = π.toBytes env := by
  unfold PoKSignature.toBytes
  simp only [PoKSignature.map_Abar, PoKSignature.map_Bbar, PoKSignature.map_D,
    PoKSignature.map_eCap, PoKSignature.map_r1Cap, PoKSignature.map_r3Cap, PoKSignature.map_mCap,
    PoKSignature.map_challenge, H.g1Enc, H.sEnc, H.sEnc_flatMap]

theorem decodeScalars_nat (H : Hom env env' fS f1 f2) (cs : List Bytes) :
    decodeScalars env' cs = (decodeScalars env cs).map (List.map fS) := by
  unfold decodeScalars
  exact mapRes_nat fS _ _ _ (fun c _ => by rw [H.sDec]; cases env.sDec c <;> rfl)

/-- The common tail of `PoKSignature.fromBytes` / `ZKPoK.fromBytes`: last element and the rest. -/
theorem getLast?_dropLast_nat {α β : Type} (ψ : α → β) (ss : List α) :
    (ss.map ψ).getLast? = ss.getLast?.map ψ ∧ (ss.map ψ).dropLast = ss.dropLast.map ψ :=
  ⟨List.getLast?_map, List.map_dropLast.symm⟩

theorem PoKSignature.fromBytes_nat (H : Hom env env' fS f1 f2) (b : Bytes) :
    PoKSignature.fromBytes env' b
      = (PoKSignature.fromBytes env b).map (PoKSignature.map fS f1) := by
  unfold PoKSignature.fromBytes
  simp only [H.g1Dec, H.sDec, decodeScalars_nat H]
  split
  · rfl
  · cases env.g1Dec (b.take 48) with
    | none => rfl
    | some Abar =>
      cases env.g1Dec ((b.drop 48).take 48) with
      | none => rfl
      | some Bbar =>
        cases env.g1Dec ((b.drop 96).take 48) with
        | none => rfl
        | some D =>
          simp only [Option.map_some, H.f1_eq_zero_iff]
          split
          · rfl
          · cases env.sDec ((b.drop 144).take 32) with
            | none => rfl
            | some eCap =>
              cases env.sDec ((b.drop 176).take 32) with
              | none => rfl
              | some r1Cap =>
                cases env.sDec ((b.drop 208).take 32) with
                | none => rfl
                | some r3Cap =>
                  simp only [Option.map_some]
                  cases decodeScalars env (chunks32 (b.drop 240).length (b.drop 240)) with
                  | err => rfl
                  | panic => rfl
                  | ok ss =>
                    simp only [Res.map_ok, List.getLast?_map, ← List.map_dropLast]
                    cases ss.getLast? <;> rfl

theorem ZKPoK.toBytes_nat (H : Hom env env' fS f1 f2) (z : ZKPoK S) :
    (z.map fS).toBytes env' = z.toBytes env := by
  unfold ZKPoK.toBytes
  simp only [ZKPoK.map_sCap, ZKPoK.map_mCap, ZKPoK.map_challenge, H.sEnc, H.sEnc_flatMap]

theorem ZKPoK.fromBytes_nat (H : Hom env env' fS f1 f2) (b : Bytes) :
    ZKPoK.fromBytes env' b = (ZKPoK.fromBytes env b).map (ZKPoK.map fS) := by
  unfold ZKPoK.fromBytes
  simp only [H.sDec, decodeScalars_nat H]
  split
  · rfl
  · cases env.sDec (b.take 32) with
    | none => rfl
    | some sCap =>
      simp only [Option.map_some]
      cases decodeScalars env (chunks32 (b.drop 32).length (b.drop 32)) with
      | err => rfl
      | panic => rfl
      | ok ss =>
        simp only [Res.map_ok, List.getLast?_map, ← List.map_dropLast]
        cases ss.getLast? <;> rfl

theorem challengeInput_nat (H : Hom env env' fS f1 f2) (init : ProofInitResult S G1)
    (di : List Nat) (dm : List S) (ph : Bytes) :
    challengeInput env' (init.map fS f1) di (dm.map fS) ph = challengeInput env init di dm ph := by
  unfold challengeInput
  have hz : (di.zip (dm.map fS)).flatMap (fun im => i2osp 8 im.1 ++ env'.sEnc im.2)
      = (di.zip dm).flatMap (fun im => i2osp 8 im.1 ++ env.sEnc im.2) := by
    rw [List.zip_map_right]
    exact flatMap_nat (Prod.map id fS) _ _
      (fun im => by simp only [Prod.map_fst, Prod.map_snd, id_eq, H.sEnc]) _
  simp only [hz, ProofInitResult.map_Abar, ProofInitResult.map_Bbar, ProofInitResult.map_D,
    ProofInitResult.map_T1, ProofInitResult.map_T2, ProofInitResult.map_domain, H.g1Enc, H.sEnc]

theorem proofChallengeCalculate_nat (H : Hom env env' fS f1 f2) (cs : Suite G1)
    (init : ProofInitResult S G1) (di : List Nat) (dm : List S) (ph apiId : Option Bytes) :
    proofChallengeCalculate env' (cs.map f1) (init.map fS f1) di (dm.map fS) ph apiId
      = (proofChallengeCalculate env cs init di dm ph apiId).map fS := by
  unfold proofChallengeCalculate
  simp only [challengeInput_nat H, hashToScalar_nat H, Suite.map_h2s, List.length_map]
  split <;> rfl

theorem sumIndexed_nat (H : Hom env env' fS f1 f2) (Hs : List G1) (acc : G1) (is : List Nat)
    (ss : List S) :
    sumIndexed (Hs.map f1) (f1 acc) is (ss.map fS) = (sumIndexed Hs acc is ss).map f1 := by
  induction ss generalizing acc is with
  | nil => cases is <;> rfl
  | cons s ss ih =>
    cases is with
    | nil => rfl
    | cons i is =>
      simp only [List.map_cons, sumIndexed, List.getElem?_map]
      cases Hs[i]? with
      | none => rfl
      | some h => simp only [Option.map_some, ← H.G1_smul, ← H.G1_add, ih]

/-- `mT.zip ums |>.map (t + m * c)` commutes with `fS`. -/
theorem zipLin_nat (H : Hom env env' fS f1 f2) (c : S) (a b : List S) :
    ((a.map fS).zip (b.map fS)).map (fun tm => tm.1 + tm.2 * fS c)
      = ((a.zip b).map fun tm => tm.1 + tm.2 * c).map fS := by
  rw [zip_map_nat, List.map_map, List.map_map]
  apply List.map_congr_left
  intro x _
  simp only [Function.comp_apply, Prod.map_fst, Prod.map_snd, H.S_add, H.S_mul]

theorem proofFinalize_nat (H : Hom env env' fS f1 f2) (init : ProofInitResult S G1) (c e : S)
    (rs undisclosedMsgs : List S) :
    proofFinalize env' (init.map fS f1) (fS c) (fS e) (rs.map fS) (undisclosedMsgs.map fS)
      = (proofFinalize env init c e rs undisclosedMsgs).map (PoKSignature.map fS f1) := by
  rcases rs with _ | ⟨r1, _ | ⟨r2, _ | ⟨eT, _ | ⟨r1T, _ | ⟨r3T, mT⟩⟩⟩⟩⟩
  iterate 5 rfl
  simp only [proofFinalize, List.map_cons, List.length_map, H.sInv]
  split
  · rfl
  · cases env.sInv r2 with
    | none => rfl
    | some r3 =>
      simp only [Option.map_some, Res.map_ok, PoKSignature.map_mk, ProofInitResult.map_Abar,
        ProofInitResult.map_Bbar, ProofInitResult.map_D, zipLin_nat H, H.S_add, H.S_sub, H.S_mul]

theorem proofInit_nat (H : Hom env env' fS f1 f2) (cs : Suite G1) (pk : G2) (σ : Signature S G1)
    (gens : Generators G1) (rs : List S) (header : Option Bytes) (msgs : List S)
    (undisclosed : List Nat) (apiId : Option Bytes) :
    proofInit env' (cs.map f1) (f2 pk) (σ.map fS f1) (gens.map f1) (rs.map fS) header
        (msgs.map fS) undisclosed apiId
      = (proofInit env cs pk σ gens rs header msgs undisclosed apiId).map
          (ProofInitResult.map fS f1) := by
  obtain ⟨base, values⟩ := gens
  unfold proofInit
  simp only [Generators.map_mk, List.length_map]
  split
  · rfl
  · split
    · rfl
    · rcases values with _ | ⟨Q1, Hs⟩
      · rfl
      · rcases rs with _ | ⟨r1, _ | ⟨r2, _ | ⟨eT, _ | ⟨r1T, _ | ⟨r3T, mT⟩⟩⟩⟩⟩
        iterate 5 rfl
        simp only [List.map_cons, calculateDomain_nat H]
        cases calculateDomain env cs pk Q1 Hs header apiId with
        | err => rfl
        | panic => rfl
        | ok domain =>
          simp only [Res.map_ok, calcB_nat H, Signature.map_A, Signature.map_e, ← H.S_mul,
            ← H.G1_smul, ← H.G1_add, ← H.G1_sub, sumIndexed_nat H]
          cases sumIndexed Hs (r3T • r2 • calcB base Q1 domain Hs msgs) undisclosed mT <;> rfl

theorem coreProofGen_nat (H : Hom env env' fS f1 f2) (cs : Suite G1) (pk : G2)
    (σ : Signature S G1) (gens : Generators G1) (msgs : List S) (disclosedIndexes : List Nat)
    (header ph apiId : Option Bytes) (tape : List S) :
    coreProofGen env' (cs.map f1) (f2 pk) (σ.map fS f1) (gens.map f1) (msgs.map fS)
        disclosedIndexes header ph apiId (tape.map fS)
      = (coreProofGen env cs pk σ gens msgs disclosedIndexes header ph apiId tape).map
          (PoKSignature.map fS f1) := by
  unfold coreProofGen
  simp only [Generators.map_values, List.length_map, getMessages_nat, ← List.map_take]
  split
  · rfl
  · split
    · rfl
    · split
      · rfl
      · split
        · rfl
        · cases getMessages msgs (sortDedup disclosedIndexes) with
          | err => rfl
          | panic => rfl
          | ok dms =>
            simp only [Res.map_ok]
            cases getMessages msgs
                (getRemainingIndexes msgs.length (sortDedup disclosedIndexes)) with
            | err => rfl
            | panic => rfl
            | ok ums =>
              simp only [Res.map_ok, proofInit_nat H]
              cases proofInit env cs pk σ gens
                  (tape.take (5 + (msgs.length - (sortDedup disclosedIndexes).length))) header msgs
                  (getRemainingIndexes msgs.length (sortDedup disclosedIndexes)) apiId with
              | err => rfl
              | panic => rfl
              | ok init =>
                simp only [Res.map_ok, proofChallengeCalculate_nat H]
                cases proofChallengeCalculate env cs init (sortDedup disclosedIndexes) dms ph
                    apiId with
                | err => rfl
                | panic => rfl
                | ok c => simp only [Res.map_ok, Signature.map_e, proofFinalize_nat H]

theorem proofVerifyInit_nat (H : Hom env env' fS f1 f2) (cs : Suite G1) (pk : G2)
    (π : PoKSignature S G1) (gens : Generators G1) (header : Option Bytes) (dm : List S)
    (di : List Nat) (apiId : Option Bytes) :
    proofVerifyInit env' (cs.map f1) (f2 pk) (π.map fS f1) (gens.map f1) header (dm.map fS) di
        apiId
      = (proofVerifyInit env cs pk π gens header dm di apiId).map (ProofInitResult.map fS f1) := by
  obtain ⟨base, values⟩ := gens
  unfold proofVerifyInit
  simp only [Generators.map_mk, List.length_map, PoKSignature.map_Abar, PoKSignature.map_Bbar,
    PoKSignature.map_D, PoKSignature.map_mCap, PoKSignature.map_eCap, PoKSignature.map_r1Cap,
    PoKSignature.map_r3Cap, PoKSignature.map_challenge, H.f1_eq_zero_iff]
  split
  · rfl
  · split
    · rfl
    · split
      · rfl
      · split
        · rfl
        · rcases values with _ | ⟨Q1, Hs⟩
          · rfl
          · simp only [List.map_cons, calculateDomain_nat H]
            cases calculateDomain env cs pk Q1 Hs header apiId with
            | err => rfl
            | panic => rfl
            | ok domain =>
              simp only [Res.map_ok, ← H.G1_smul, ← H.G1_add, sumIndexed_nat H]
              cases sumIndexed Hs (base + domain • Q1) di dm with
              | err => rfl
              | panic => rfl
              | ok Bv =>
                simp only [Res.map_ok, ← H.G1_smul, ← H.G1_add, sumIndexed_nat H]
                cases sumIndexed Hs (π.challenge • Bv + π.r3Cap • π.D)
                  (getRemainingIndexes (π.mCap.length + di.length) di) π.mCap <;> rfl

theorem coreProofVerify_nat (H : Hom env env' fS f1 f2) (cs : Suite G1) (pk : G2)
    (π : PoKSignature S G1) (gens : Generators G1) (header ph : Option Bytes) (dm : List S)
    (di : List Nat) (apiId : Option Bytes) :
    coreProofVerify env' (cs.map f1) (f2 pk) (π.map fS f1) (gens.map f1) header ph (dm.map fS) di
        apiId
      = coreProofVerify env cs pk π gens header ph dm di apiId := by
  unfold coreProofVerify
  simp only [proofVerifyInit_nat H]
  cases proofVerifyInit env cs pk π gens header dm di apiId with
  | err => rfl
  | panic => rfl
  | ok init =>
    simp only [Res.map_ok, proofChallengeCalculate_nat H]
    cases proofChallengeCalculate env cs init di dm ph apiId with
    | err => rfl
    | panic => rfl
    | ok c =>
      simp only [Res.map_ok, PoKSignature.map_challenge, PoKSignature.map_Abar,
        PoKSignature.map_Bbar, H.bp2, ← H.G2_neg, H.pairingCheck2, ne_eq, H.fS_inj.eq_iff]

theorem proofGen_nat (H : Hom env env' fS f1 f2) (cs : Suite G1) (pk : G2) (signature : Bytes)
    (header ph : Option Bytes) (messages : Option (List Bytes))
    (disclosedIndexes : Option (List Nat)) (tape : List S) :
    proofGen env' (cs.map f1) (f2 pk) signature header ph messages disclosedIndexes (tape.map fS)
      = (proofGen env cs pk signature header ph messages disclosedIndexes tape).map
          (PoKSignature.map fS f1) := by
  unfold proofGen
  simp only [Signature.fromBytes_nat H, messagesToScalar_nat H, Generators.create_nat H,
    Suite.map_apiId]
  cases Signature.fromBytes env signature with
  | err => rfl
  | panic => rfl
  | ok σ =>
    simp only [Res.map_ok]
    cases messagesToScalar env cs (messages.getD []) cs.apiId with
    | err => rfl
    | panic => rfl
    | ok ms =>
      simp only [Res.map_ok]
      cases Generators.create env cs ((messages.getD []).length + 1) (some cs.apiId) with
      | err => rfl
      | panic => rfl
      | ok gens => simp only [Res.map_ok, coreProofGen_nat H]

theorem proofVerify_nat (H : Hom env env' fS f1 f2) (cs : Suite G1) (π : PoKSignature S G1)
    (pk : G2) (disclosedMessages : Option (List Bytes)) (disclosedIndexes : Option (List Nat))
    (header ph : Option Bytes) :
    proofVerify env' (cs.map f1) (π.map fS f1) (f2 pk) disclosedMessages disclosedIndexes header ph
      = proofVerify env cs π pk disclosedMessages disclosedIndexes header ph := by
  unfold proofVerify
  simp only [messagesToScalar_nat H, Generators.create_nat H, Suite.map_apiId,
    PoKSignature.map_mCap, List.length_map]
  cases messagesToScalar env cs (disclosedMessages.getD []) cs.apiId with
  | err => rfl
  | panic => rfl
  | ok dm =>
    simp only [Res.map_ok]
    cases Generators.create env cs
        (π.mCap.length + (sortDedup (disclosedIndexes.getD [])).length + 1) (some cs.apiId) with
    | err => rfl
    | panic => rfl
    | ok gens => simp only [Res.map_ok, coreProofVerify_nat H]

end
end Transfer
end Zk
