/-
Totality helpers for C08: which model functions can return `Res.panic`, and when.

Everything here is stated for the *bare* model (core type classes only, arbitrary `Env`): no
algebra and no `Lawful` assumption is needed, so the statements hold for every environment,
in particular for the concrete BLS12-381 one.
-/
import Mathlib.Data.List.Nodup
import Mathlib.Data.List.Range
import Mathlib.Data.List.Perm.Subperm
import ZkModel.L1.Bbs
set_option linter.unusedSectionVars false
set_option linter.unusedSimpArgs false
set_option linter.unusedVariables false
set_option linter.unnecessarySeqFocus false
namespace Zk.Total
open Zk Res

/-! ### `mapRes`, index helpers -/

theorem mapRes_ne_panic {α β} (f : α → Res β) (l : List α) (h : ∀ a ∈ l, f a ≠ .panic) :
    mapRes f l ≠ .panic := by
  induction l with
  | nil => simp [mapRes]
  | cons a as ih =>
    have ha := h a (by simp)
    have ih' := ih (fun x hx => h x (by simp [hx]))
    unfold mapRes
    cases hfa : f a with
    | ok b =>
      cases hr : mapRes f as with
      | ok bs => simp
      | err => simp
      | panic => exact absurd hr ih'
    | err => simp
    | panic => exact absurd hfa ha

theorem mapRes_ok_length {α β} (f : α → Res β) (l : List α) (bs : List β)
    (h : mapRes f l = .ok bs) : bs.length = l.length := by
  induction l generalizing bs with
  | nil => simp [mapRes] at h; subst h; rfl
  | cons a as ih =>
    unfold mapRes at h
    cases hfa : f a with
    | ok b =>
      rw [hfa] at h; simp only at h
      cases hr : mapRes f as with
      | ok bs' => rw [hr] at h; cases h; simp [ih bs' hr]
      | err => rw [hr] at h; cases h
      | panic => rw [hr] at h; cases h
    | err => rw [hfa] at h; cases h
    | panic => rw [hfa] at h; cases h

theorem idx_ne_panic {α} (l : List α) (i : Nat) (h : i < l.length) : idx l i ≠ .panic := by
  unfold idx
  rw [List.getElem?_eq_getElem h]
  simp [Res.ofOptPanic]

theorem idx_ne_err {α} (l : List α) (i : Nat) : idx l i ≠ .err := by
  unfold idx
  cases l[i]? <;> simp [Res.ofOptPanic]

theorem getMessages_ne_panic {α} (msgs : List α) (is : List Nat) (h : ∀ i ∈ is, i < msgs.length) :
    getMessages msgs is ≠ .panic :=
  mapRes_ne_panic _ _ fun i hi => idx_ne_panic _ _ (h i hi)

theorem getMessages_ok_length {α} (msgs : List α) (is : List Nat) (out : List α)
    (h : getMessages msgs is = .ok out) : out.length = is.length :=
  mapRes_ok_length _ _ _ h

/-- Every remaining index is below `L`. -/
theorem mem_getRemainingIndexes_lt {L : Nat} {di : List Nat} {i : Nat}
    (h : i ∈ getRemainingIndexes L di) : i < L := by
  unfold getRemainingIndexes at h
  exact List.mem_range.mp (List.mem_filter.mp h).1

/-- At most `di.length` positions are removed from `0..L`. -/
theorem getRemainingIndexes_length_ge (L : Nat) (di : List Nat) :
    L - di.length ≤ (getRemainingIndexes L di).length := by
  unfold getRemainingIndexes
  have hsum := List.length_eq_length_filter_add (l := List.range L) (fun i => !di.contains i)
  have hle : ((List.range L).filter (fun i => !(!di.contains i))).length ≤ di.length := by
    apply List.Subperm.length_le
    apply List.subperm_of_subset
    · exact (List.nodup_range (n := L)).filter _
    · intro x hx
      have := (List.mem_filter.mp hx).2
      simpa using this
  rw [List.length_range] at hsum
  omega

theorem getRemainingIndexes_length_ge' (U : Nat) (di : List Nat) :
    U ≤ (getRemainingIndexes (U + di.length) di).length := by
  have := getRemainingIndexes_length_ge (U + di.length) di
  omega

theorem getRemainingIndexes_length_le (L : Nat) (di : List Nat) :
    (getRemainingIndexes L di).length ≤ L := by
  unfold getRemainingIndexes
  have := List.length_filter_le (fun i => !di.contains i) (List.range L)
  simpa using this

theorem dedupAdj_length_le (l : List Nat) : (dedupAdj l).length ≤ l.length := by
  fun_induction dedupAdj l <;> simp_all <;> omega

theorem sortDedup_length_le (l : List Nat) : (sortDedup l).length ≤ l.length := by
  unfold sortDedup
  have := dedupAdj_length_le (l.mergeSort (· ≤ ·))
  simpa using this

/-- `chunks_exact(32)` yields at most `len / 32` chunks. -/
theorem chunks32_length_le (n : Nat) (b : Bytes) : (chunks32 n b).length ≤ b.length / 32 := by
  induction n generalizing b with
  | zero => simp [chunks32]
  | succ n ih =>
    rw [chunks32]
    split
    · simp
    · have := ih (b.drop 32)
      simp at this ⊢; omega

section
variable {S G1 G2 : Type}
variable [Zero S] [One S] [Add S] [Sub S] [Neg S] [Mul S] [DecidableEq S]
variable [Zero G1] [Add G1] [Sub G1] [Neg G1] [SMul S G1] [DecidableEq G1]
variable [Zero G2] [Add G2] [Neg G2] [SMul S G2] [DecidableEq G2]
variable (env : Env S G1 G2) (cs : Suite G1)

/-! ### hashing helpers never panic -/

theorem hashToScalar_ne_panic (msg dst : Bytes) : hashToScalar env cs msg dst ≠ .panic := by
  unfold hashToScalar
  split
  · simp
  · split
    · simp
    · split <;> simp

theorem calculateDomain_ne_panic (pk : G2) (Q1 : G1) (Hs : List G1) (header apiId : Option Bytes) :
    calculateDomain env cs pk Q1 Hs header apiId ≠ .panic :=
  hashToScalar_ne_panic env cs _ _

theorem calculateBlindChallenge_ne_panic (C Cbar : G1) (gens : List G1) (apiId : Option Bytes) :
    calculateBlindChallenge env cs C Cbar gens apiId ≠ .panic := by
  unfold calculateBlindChallenge
  split
  · simp
  · exact hashToScalar_ne_panic env cs _ _

theorem mapMessageToScalarAsHash_ne_panic (data apiId : Bytes) :
    mapMessageToScalarAsHash env cs data apiId ≠ .panic :=
  hashToScalar_ne_panic env cs _ _

theorem messagesToScalar_ne_panic (messages : List Bytes) (apiId : Bytes) :
    messagesToScalar env cs messages apiId ≠ .panic :=
  mapRes_ne_panic _ _ fun _ _ => hashToScalar_ne_panic env cs _ _

theorem messagesToScalar_ok_length (messages : List Bytes) (apiId : Bytes) (ms : List S)
    (h : messagesToScalar env cs messages apiId = .ok ms) : ms.length = messages.length :=
  mapRes_ok_length _ _ _ h

theorem proofChallengeCalculate_ne_panic (init : ProofInitResult S G1) (di : List Nat) (dm : List S)
    (ph apiId : Option Bytes) : proofChallengeCalculate env cs init di dm ph apiId ≠ .panic := by
  unfold proofChallengeCalculate
  split
  · simp
  · exact hashToScalar_ne_panic env cs _ _

/-! ### generators -/

theorem genLoop_ok_length (sd gd : Bytes) (n i : Nat) (v : Bytes) (gs : List G1)
    (h : genLoop env cs sd gd n i v = .ok gs) : gs.length = n := by
  induction n generalizing i v gs with
  | zero => simp [genLoop] at h; subst h; rfl
  | succ n ih =>
    unfold genLoop at h
    cases he : env.expand cs.xof (v ++ i2osp 8 i) sd cs.expandLen with
    | none => rw [he] at h; cases h
    | some v' =>
      rw [he] at h; simp only at h
      cases hh : env.hashToG1 cs.xof v' gd with
      | none => rw [hh] at h; cases h
      | some g =>
        rw [hh] at h; simp only at h
        cases hr : genLoop env cs sd gd n (i + 1) v' with
        | ok gs' => rw [hr] at h; cases h; simp [ih _ _ _ hr]
        | err => rw [hr] at h; cases h
        | panic => rw [hr] at h; cases h

theorem create_ok_length (n : Nat) (api : Option Bytes) (gens : Generators G1)
    (h : Generators.create env cs n api = .ok gens) : gens.values.length = n := by
  unfold Generators.create at h
  cases hc : createGenerators env cs n api with
  | ok vs =>
    rw [hc] at h; cases h
    unfold createGenerators at hc
    dsimp only at hc
    split at hc
    · cases hc
    · exact genLoop_ok_length env cs _ _ _ _ _ _ hc
  | err => rw [hc] at h; cases h
  | panic => rw [hc] at h; cases h

/-- The only source of panics inside generator creation: the XOF/XMD expander or hash-to-curve
returning `None` (the Rust `expect`s them). The concrete driver checks on every run that this
does not happen for the 48-byte requests the code makes. -/
def NoHashPanic (env : Env S G1 G2) (cs : Suite G1) : Prop :=
  ∀ n api, Generators.create env cs n api ≠ .panic

theorem genLoop_ne_panic (hE : ∀ msg dst, env.expand cs.xof msg dst cs.expandLen ≠ none)
    (hH : ∀ msg dst, env.hashToG1 cs.xof msg dst ≠ none) (sd gd : Bytes) (n i : Nat) (v : Bytes) :
    genLoop env cs sd gd n i v ≠ .panic := by
  induction n generalizing i v with
  | zero => simp [genLoop]
  | succ n ih =>
    unfold genLoop
    cases he : env.expand cs.xof (v ++ i2osp 8 i) sd cs.expandLen with
    | none => exact absurd he (hE _ _)
    | some v' =>
      simp only
      cases hh : env.hashToG1 cs.xof v' gd with
      | none => exact absurd hh (hH _ _)
      | some g =>
        simp only
        cases hr : genLoop env cs sd gd n (i + 1) v' with
        | ok gs' => simp
        | err => simp
        | panic => exact absurd hr (ih _ _)

/-- `NoHashPanic` holds as soon as the expander and hash-to-curve always return `Some`. -/
theorem noHashPanic_of_some (hE : ∀ msg dst, env.expand cs.xof msg dst cs.expandLen ≠ none)
    (hH : ∀ msg dst, env.hashToG1 cs.xof msg dst ≠ none) : NoHashPanic env cs := by
  intro n api
  unfold Generators.create
  cases hc : createGenerators env cs n api with
  | ok vs => simp
  | err => simp
  | panic =>
    exfalso
    unfold createGenerators at hc
    dsimp only at hc
    split at hc
    · rename_i he; exact hE _ _ he
    · exact genLoop_ne_panic env cs hE hH _ _ _ _ _ hc

/-! ### decoders -/

theorem decodeScalars_ne_panic (chunks : List Bytes) : decodeScalars env chunks ≠ .panic :=
  mapRes_ne_panic _ _ fun c _ => by cases env.sDec c <;> simp [Res.ofOptErr]

theorem pkFromBytes_ne_panic (b : Bytes) : pkFromBytes env b ≠ .panic := by
  unfold pkFromBytes
  split
  · simp
  · split
    · simp
    · split <;> simp

theorem pkFromCoordinates_ne_panic (x y : Bytes) : pkFromCoordinates env x y ≠ .panic := by
  unfold pkFromCoordinates
  split
  · simp
  · split
    · simp
    · split <;> simp

theorem skFromBytes_ne_panic (b : Bytes) : skFromBytes env b ≠ .panic := by
  unfold skFromBytes
  split
  · simp
  · cases env.sDec b <;> simp [Res.ofOptErr]

theorem Signature.fromBytes_ne_panic (b : Bytes) : Signature.fromBytes env b ≠ .panic := by
  unfold Signature.fromBytes
  split
  · simp
  · split
    · simp
    · split
      · simp
      · split <;> simp

theorem ZKPoK.fromBytes_ne_panic (b : Bytes) : ZKPoK.fromBytes env b ≠ .panic := by
  unfold ZKPoK.fromBytes
  split
  · simp
  · split
    · simp
    · dsimp only
      cases hd : decodeScalars env (chunks32 (b.drop 32).length (b.drop 32)) with
      | ok ss => simp only; split <;> simp
      | err => simp
      | panic => exact absurd hd (decodeScalars_ne_panic env _)

theorem PoKSignature.fromBytes_ne_panic (b : Bytes) : PoKSignature.fromBytes env b ≠ .panic := by
  unfold PoKSignature.fromBytes
  split
  · simp
  · split
    · simp
    · split
      · simp
      · split
        · simp
        · split
          · simp
          · split
            · simp
            · split
              · simp
              · split
                · simp
                · dsimp only
                  cases hd : decodeScalars env
                      (chunks32 (b.drop 240).length (b.drop 240)) with
                  | ok ss => simp only; split <;> simp
                  | err => simp
                  | panic => exact absurd hd (decodeScalars_ne_panic env _)

theorem Commitment.fromBytes_ne_panic (b : Bytes) : Commitment.fromBytes env b ≠ .panic := by
  unfold Commitment.fromBytes
  split
  · simp
  · split
    · simp
    · cases hz : ZKPoK.fromBytes env (b.drop 48) with
      | ok z => simp
      | err => simp
      | panic => exact absurd hz (ZKPoK.fromBytes_ne_panic env _)

/-! ### core operations -/

theorem coreVerify_ne_panic (pk : G2) (σ : Signature S G1) (msgs : List S) (gens : Generators G1)
    (header apiId : Option Bytes) : coreVerify env cs pk σ msgs gens header apiId ≠ .panic := by
  unfold coreVerify
  split
  · simp
  · rename_i hlen
    cases hv : gens.values with
    | nil => rw [hv] at hlen; simp at hlen
    | cons Q1 Hs =>
      simp only
      cases hd : calculateDomain env cs pk Q1 Hs header apiId with
      | ok d => simp only; split <;> simp
      | err => simp
      | panic => exact absurd hd (by apply calculateDomain_ne_panic)

/-- `sumIndexed` returns `ok` whenever there are at least as many indexes as scalars and every
index is in range (it never returns `err`). -/
theorem sumIndexed_ok (Hs : List G1) (acc : G1) (is : List Nat) (ss : List S)
    (hlen : ss.length ≤ is.length) (hin : ∀ i ∈ is, i < Hs.length) :
    ∃ x, sumIndexed Hs acc is ss = .ok x := by
  induction ss generalizing is acc with
  | nil => cases is <;> exact ⟨acc, by simp [sumIndexed]⟩
  | cons s ss ih =>
    cases is with
    | nil => simp at hlen
    | cons i is =>
      have hi := hin i (by simp)
      unfold sumIndexed
      rw [List.getElem?_eq_getElem hi]
      simp only
      exact ih _ is (by simpa using hlen) (fun j hj => hin j (by simp [hj]))

theorem sumIndexed_ne_panic (Hs : List G1) (acc : G1) (is : List Nat) (ss : List S)
    (hlen : ss.length ≤ is.length) (hin : ∀ i ∈ is, i < Hs.length) :
    sumIndexed Hs acc is ss ≠ .panic := by
  obtain ⟨x, hx⟩ := sumIndexed_ok Hs acc is ss hlen hin
  rw [hx]; simp

/-- When the bound check `i > L - 1` fails for every element of `l` and `l.length ≤ L`, every
element is `< L` (for `L = 0` the list is empty, so the truncated `L - 1` is never consulted —
exactly as in the Rust, where the loop body does not run). -/
theorem lt_of_not_any_gt {l : List Nat} {L : Nat} (hlen : l.length ≤ L)
    (h : ¬ (l.any (fun i => decide (i > L - 1)) = true)) : ∀ i ∈ l, i < L := by
  intro i hi
  have hpos : 0 < L := by
    cases l with
    | nil => cases hi
    | cons a t => simp at hlen; omega
  have : ¬ i > L - 1 := by
    intro hgt
    apply h
    rw [List.any_eq_true]
    exact ⟨i, hi, by simpa using hgt⟩
  omega

theorem proofVerifyInit_ne_panic (pk : G2) (π : PoKSignature S G1) (gens : Generators G1)
    (header : Option Bytes) (dm : List S) (di : List Nat) (apiId : Option Bytes) :
    proofVerifyInit env cs pk π gens header dm di apiId ≠ .panic := by
  unfold proofVerifyInit
  dsimp only
  split
  · simp
  · split
    · simp
    · rename_i hany
      split
      · simp
      · rename_i hdm
        split
        · simp
        · rename_i hlen
          cases hv : gens.values with
          | nil => rw [hv] at hlen; simp at hlen
          | cons Q1 Hs =>
            simp only
            rw [hv] at hlen
            have hHs : Hs.length = π.mCap.length + di.length := by simpa using hlen
            have hdi : ∀ i ∈ di, i < Hs.length := by
              rw [hHs]; exact lt_of_not_any_gt (by omega) hany
            cases hd : calculateDomain env cs pk Q1 Hs header apiId with
            | err => simp
            | panic => exact absurd hd (by apply calculateDomain_ne_panic)
            | ok domain =>
              simp only
              obtain ⟨Bv, hBv⟩ := sumIndexed_ok Hs (gens.base + domain • Q1) di dm
                (by simp at hdm; omega) hdi
              rw [hBv]; simp only
              obtain ⟨T2, hT2⟩ := sumIndexed_ok Hs (π.challenge • Bv + π.r3Cap • π.D)
                (getRemainingIndexes (π.mCap.length + di.length) di) π.mCap
                (getRemainingIndexes_length_ge' _ _)
                (fun i hi => by rw [hHs]; exact mem_getRemainingIndexes_lt hi)
              rw [hT2]; simp

theorem coreProofVerify_ne_panic (pk : G2) (π : PoKSignature S G1) (gens : Generators G1)
    (header ph : Option Bytes) (dm : List S) (di : List Nat) (apiId : Option Bytes) :
    coreProofVerify env cs pk π gens header ph dm di apiId ≠ .panic := by
  unfold coreProofVerify
  cases hi : proofVerifyInit env cs pk π gens header dm di apiId with
  | err => simp
  | panic => exact absurd hi (by apply proofVerifyInit_ne_panic)
  | ok init =>
    simp only
    cases hc : proofChallengeCalculate env cs init di dm ph apiId with
    | err => simp
    | panic => exact absurd hc (by apply proofChallengeCalculate_ne_panic)
    | ok c => simp only; split; · simp
              split <;> simp

theorem exists_five_of_length {α} (rs : List α) (h : 5 ≤ rs.length) :
    ∃ a b c d e t, rs = a :: b :: c :: d :: e :: t := by
  match rs, h with
  | a :: b :: c :: d :: e :: t, _ => exact ⟨a, b, c, d, e, t, rfl⟩

theorem proofInit_ne_panic (pk : G2) (σ : Signature S G1) (gens : Generators G1) (rs : List S)
    (header : Option Bytes) (msgs : List S) (undisclosed : List Nat) (apiId : Option Bytes)
    (hin : ∀ i ∈ undisclosed, i < msgs.length) :
    proofInit env cs pk σ gens rs header msgs undisclosed apiId ≠ .panic := by
  unfold proofInit
  dsimp only
  split
  · simp
  · rename_i hrs
    split
    · simp
    · rename_i hlen
      obtain ⟨r1, r2, eT, r1T, r3T, mT, rfl⟩ := exists_five_of_length rs (by omega)
      cases hv : gens.values with
      | nil => rw [hv] at hlen; simp at hlen
      | cons Q1 Hs =>
        simp only
        rw [hv] at hlen
        have hHs : Hs.length = msgs.length := by simpa using hlen
        cases hd : calculateDomain env cs pk Q1 Hs header apiId with
        | err => simp
        | panic => exact absurd hd (by apply calculateDomain_ne_panic)
        | ok domain =>
          simp only
          obtain ⟨T2, hT2⟩ := sumIndexed_ok Hs
            (r3T • r2 • calcB gens.base Q1 domain Hs msgs) undisclosed mT
            (by simp at hrs; omega) (by rw [hHs]; exact hin)
          rw [hT2]; simp

theorem proofInit_ok_length (pk : G2) (σ : Signature S G1) (gens : Generators G1) (rs : List S)
    (header : Option Bytes) (msgs : List S) (undisclosed : List Nat) (apiId : Option Bytes)
    (init : ProofInitResult S G1)
    (h : proofInit env cs pk σ gens rs header msgs undisclosed apiId = .ok init) :
    rs.length = 5 + undisclosed.length := by
  unfold proofInit at h
  dsimp only at h
  split at h
  · cases h
  · rename_i hrs; simpa using hrs

theorem proofFinalize_ne_panic (init : ProofInitResult S G1) (c e : S) (rs : List S)
    (ums : List S) (hrs : 5 + ums.length ≤ rs.length) :
    proofFinalize env init c e rs ums ≠ .panic := by
  obtain ⟨r1, r2, eT, r1T, r3T, mT, rfl⟩ := exists_five_of_length rs (by omega)
  unfold proofFinalize
  simp only
  split
  · rename_i hlt; simp at hrs; omega
  · split <;> simp

/-- `core_proof_gen` cannot panic once at least one generator was supplied (the Rust computes
`generators.values.len() - 1`), whatever the random tape. -/
theorem coreProofGen_ne_panic (pk : G2) (σ : Signature S G1) (gens : Generators G1)
    (msgs : List S) (di : List Nat) (header ph apiId : Option Bytes) (tape : List S)
    (hne : gens.values.length ≠ 0) :
    coreProofGen env cs pk σ gens msgs di header ph apiId tape ≠ .panic := by
  unfold coreProofGen
  dsimp only
  rw [if_neg hne]
  split
  · simp
  · split
    · simp
    · rename_i hR
      split
      · simp
      · rename_i hany
        have hdi : ∀ i ∈ sortDedup di, i < msgs.length := lt_of_not_any_gt (by omega) hany
        cases hdm : getMessages msgs (sortDedup di) with
        | err => simp
        | panic => exact absurd hdm (getMessages_ne_panic _ _ hdi)
        | ok dms =>
          simp only
          cases hum : getMessages msgs (getRemainingIndexes msgs.length (sortDedup di)) with
          | err => simp
          | panic =>
            exact absurd hum (getMessages_ne_panic _ _ fun i hi => mem_getRemainingIndexes_lt hi)
          | ok ums =>
            simp only
            have hul := getMessages_ok_length _ _ _ hum
            cases hpi : proofInit env cs pk σ gens
                (tape.take (5 + (msgs.length - (sortDedup di).length))) header msgs
                (getRemainingIndexes msgs.length (sortDedup di)) apiId with
            | err => simp
            | panic =>
              exact absurd hpi (proofInit_ne_panic env cs _ _ _ _ _ _ _ _
                fun i hi => mem_getRemainingIndexes_lt hi)
            | ok init =>
              simp only
              have hrl := proofInit_ok_length env cs _ _ _ _ _ _ _ _ _ hpi
              cases hc : proofChallengeCalculate env cs init (sortDedup di) dms ph apiId with
              | err => simp
              | panic => exact absurd hc (by apply proofChallengeCalculate_ne_panic)
              | ok c =>
                simp only
                exact proofFinalize_ne_panic env _ _ _ _ _ (by omega)

/-! ### commitments and blind signatures -/

theorem coreCommitVerify_ne_panic (C : G1) (z : ZKPoK S) (blindGens : List G1)
    (apiId : Option Bytes) : coreCommitVerify env cs C z blindGens apiId ≠ .panic := by
  unfold coreCommitVerify
  dsimp only
  split
  · simp
  · rename_i hlen
    cases hb : blindGens.take (z.mCap.length + 1) with
    | nil =>
      have := congrArg List.length hb
      rw [List.length_take, List.length_nil] at this
      omega
    | cons G2' Js =>
      simp only
      cases hc : calculateBlindChallenge env cs C
          (sumZip (z.sCap • G2') Js z.mCap + (-z.challenge) • C) (G2' :: Js)
          (some (apiId.getD [])) with
      | err => simp
      | panic => exact absurd hc (by apply calculateBlindChallenge_ne_panic)
      | ok cv => simp only; split <;> simp

theorem deserializeAndValidateCommit_ne_panic (cwp : Option Bytes) (blindGens : Generators G1)
    (apiId : Option Bytes) :
    deserializeAndValidateCommit env cs cwp blindGens apiId ≠ .panic := by
  unfold deserializeAndValidateCommit
  dsimp only
  split
  · simp
  · cases hc : Commitment.fromBytes env (cwp.getD []) with
    | err => simp
    | panic => exact absurd hc (by apply Commitment.fromBytes_ne_panic)
    | ok c =>
      simp only
      split
      · simp
      · cases hv : coreCommitVerify env cs c.commitment c.proof blindGens.values
            (some (apiId.getD [])) with
        | err => simp
        | panic => exact absurd hv (by apply coreCommitVerify_ne_panic)
        | ok u => simp

theorem calculateB_ne_panic (gens : Generators G1) (commitment : Option G1) (ms : List S) :
    calculateB gens commitment ms ≠ .panic := by
  unfold calculateB
  dsimp only
  split
  · simp
  · rename_i hlen
    cases hv : gens.values with
    | nil => rw [hv] at hlen; simp at hlen
    | cons Q1 Hs => simp only; split <;> simp

theorem finalizeBlindSign_ne_panic (sk : S) (pk : G2) (B : G1) (gens blindGens : Generators G1)
    (header apiId : Option Bytes) (h1 : gens.values.length ≠ 0)
    (h2 : blindGens.values.length ≠ 0) :
    finalizeBlindSign env cs sk pk B gens blindGens header apiId ≠ .panic := by
  unfold finalizeBlindSign
  cases hv : gens.values with
  | nil => rw [hv] at h1; simp at h1
  | cons Q1 Hs =>
    cases hb : blindGens.values with
    | nil => rw [hb] at h2; simp at h2
    | cons Q2 bgTail =>
      simp only
      cases hd : calculateDomain env cs pk Q1 (Hs ++ [Q2] ++ bgTail.dropLast) header
          (some (apiId.getD [])) with
      | err => simp
      | panic => exact absurd hd (by apply calculateDomain_ne_panic)
      | ok domain =>
        simp only
        cases he : hashToScalar env cs (env.sEnc sk ++ env.g1Enc (B + domain • Q1))
            (apiId.getD [] ++ cs.h2s) with
        | err => simp
        | panic => exact absurd he (by apply hashToScalar_ne_panic)
        | ok e => simp only; split <;> simp

theorem prepareParameters_ne_panic (hp : NoHashPanic env cs) (messages committed : Option (List Bytes))
    (n1 n2 : Nat) (spb : Option S) (apiId : Option Bytes) :
    prepareParameters env cs messages committed n1 n2 spb apiId ≠ .panic := by
  unfold prepareParameters
  dsimp only
  cases hm : messagesToScalar env cs (messages.getD []) (apiId.getD []) with
  | err => simp
  | panic => exact absurd hm (by apply messagesToScalar_ne_panic)
  | ok ms =>
    simp only
    cases hc : messagesToScalar env cs (committed.getD []) (apiId.getD []) with
    | err => simp
    | panic => exact absurd hc (by apply messagesToScalar_ne_panic)
    | ok cms =>
      simp only
      cases hg : Generators.create env cs n1 (some (apiId.getD [])) with
      | err => simp
      | panic => exact absurd hg (hp _ _)
      | ok gens =>
        simp only
        cases hb : Generators.create env cs n2
            (some (Bytes.ofAscii "BLIND_" ++ apiId.getD [])) with
        | err => simp
        | panic => exact absurd hb (hp _ _)
        | ok bgens => simp

/-- Shape of a successful `prepare_parameters`. -/
theorem prepareParameters_ok (messages committed : Option (List Bytes))
    (n1 n2 : Nat) (spb : Option S) (apiId : Option Bytes) (ms : List S) (gens : Generators G1)
    (h : prepareParameters env cs messages committed n1 n2 spb apiId = .ok (ms, gens)) :
    gens.values.length = n1 + n2 ∧
    ms.length = (messages.getD []).length + (spb.toList.length + (committed.getD []).length) := by
  unfold prepareParameters at h
  dsimp only at h
  cases hm : messagesToScalar env cs (messages.getD []) (apiId.getD []) with
  | err => rw [hm] at h; cases h
  | panic => rw [hm] at h; cases h
  | ok ms' =>
    rw [hm] at h; simp only at h
    cases hc : messagesToScalar env cs (committed.getD []) (apiId.getD []) with
    | err => rw [hc] at h; cases h
    | panic => rw [hc] at h; cases h
    | ok cms =>
      rw [hc] at h; simp only at h
      cases hg : Generators.create env cs n1 (some (apiId.getD [])) with
      | err => rw [hg] at h; cases h
      | panic => rw [hg] at h; cases h
      | ok g1 =>
        rw [hg] at h; simp only at h
        cases hb : Generators.create env cs n2
            (some (Bytes.ofAscii "BLIND_" ++ apiId.getD [])) with
        | err => rw [hb] at h; cases h
        | panic => rw [hb] at h; cases h
        | ok g2 =>
          rw [hb] at h; simp only at h
          cases h
          have l1 := create_ok_length env cs _ _ _ hg
          have l2 := create_ok_length env cs _ _ _ hb
          have l3 := messagesToScalar_ok_length env cs _ _ _ hm
          have l4 := messagesToScalar_ok_length env cs _ _ _ hc
          refine ⟨by simp [l1, l2], ?_⟩
          cases spb <;> simp [l3, l4] <;> omega

/-- `core_commit` does not panic when the random tape is long enough (`M + 2` scalars, which
is what `calculate_random_scalars(M + 2)` returns). -/
theorem coreCommit_ne_panic (blindGens : List G1) (cms : Option (List S)) (apiId : Option Bytes)
    (tape : List S) (ht : (cms.getD []).length + 2 ≤ tape.length) :
    coreCommit env cs blindGens cms apiId tape ≠ .panic := by
  unfold coreCommit
  dsimp only
  split
  · simp
  · rename_i hlen
    cases hb : blindGens with
    | nil => rw [hb] at hlen; simp at hlen
    | cons Q2 Js =>
      have htl : (tape.take ((cms.getD []).length + 2)).length = (cms.getD []).length + 2 := by
        simp; omega
      cases ht1 : tape.take ((cms.getD []).length + 2) with
      | nil => rw [ht1] at htl; simp at htl
      | cons blind t1 =>
        cases t1 with
        | nil => rw [ht1] at htl; simp at htl
        | cons sT mT =>
          rw [ht1] at htl
          simp only
          split
          · rename_i hlt; simp at htl; omega
          · cases hc : calculateBlindChallenge env cs (sumZip (blind • Q2) Js (cms.getD []))
                (sumZip (sT • Q2) Js mT) (Q2 :: Js) (some (apiId.getD [])) with
            | err => simp
            | panic => exact absurd hc (by apply calculateBlindChallenge_ne_panic)
            | ok c => simp

/-- `core_sign` panics exactly through `unwrap` of the inverse of `sk + e`. -/
theorem coreSign_panic (sk : S) (pk : G2) (gens : Generators G1) (header : Option Bytes)
    (msgs : List S) (apiId : Option Bytes)
    (h : coreSign env cs sk pk gens header msgs apiId = .panic) :
    ∃ Q1 Hs domain e, gens.values = Q1 :: Hs ∧
      calculateDomain env cs pk Q1 Hs header (some (apiId.getD [])) = .ok domain ∧
      hashToScalar env cs (serializeScalars env (sk :: msgs ++ [domain]))
        (apiId.getD [] ++ cs.h2s) = .ok e ∧
      env.sInv (sk + e) = none := by
  unfold coreSign at h
  split at h
  · cases h
  · rename_i hlen
    cases hv : gens.values with
    | nil => rw [hv] at hlen; simp at hlen
    | cons Q1 Hs =>
      rw [hv] at h; simp only at h
      cases hd : calculateDomain env cs pk Q1 Hs header (some (apiId.getD [])) with
      | err => rw [hd] at h; cases h
      | panic => exact absurd hd (by apply calculateDomain_ne_panic)
      | ok domain =>
        rw [hd] at h; simp only at h
        cases he : hashToScalar env cs (serializeScalars env (sk :: msgs ++ [domain]))
            (apiId.getD [] ++ cs.h2s) with
        | err => rw [he] at h; cases h
        | panic => exact absurd he (by apply hashToScalar_ne_panic)
        | ok e =>
          rw [he] at h; simp only at h
          cases hi : env.sInv (sk + e) with
          | none => exact ⟨Q1, Hs, domain, e, rfl, hd, he, hi⟩
          | some inv => rw [hi] at h; simp only at h; split at h <;> cases h

end
end Zk.Total
