/-
Totality / length facts of the L0 hash layer (`ZkModel/L0/{Sha256,Keccak,Expand,HashToCurve}.lean`)
and of the concrete environment `Zk.Concrete.env`, proved by unfolding the definitions.
No cryptographic assumption is involved: these are statements about *when* the executable
functions return `some` and how long their outputs are.

* `sha256_length`, `shake256_length`;
* `expandXmd_isSome_iff`, `expandXof_isSome_iff` (conditions E1-E3 of `Expand.lean`),
  `expandXmd_length`, `expandXof_length`;
* `Concrete_expand_48`, `Concrete_expand_128`;
* `hashToScalar_concrete_total`, `hashTotal_concrete_of_length` (the hypothesis `HashTotal` of
  `ZkProofs/Lemmas/ProofCore.lean` for the concrete environment);
* `hashToG1_concrete_isSome`, `noHashPanic_concrete` (the hypothesis `Zk.Total.NoHashPanic`).
-/
import ZkModel.Concrete
import ZkProofs.Lemmas.Total
import ZkProofs.Lemmas.ProofCore
namespace Zk.ConcreteHash
open Zk

/-- Loop invariant for `for` loops in `Id` whose body always continues: a size measure grows by
`c` per iteration. -/
theorem forIn_list_size {α σ : Type} (sz : σ → Nat) (c : Nat) (f : α → σ → Id (ForInStep σ))
    (hf : ∀ a st, ∃ st', f a st = ForInStep.yield st' ∧ sz st' = sz st + c)
    (l : List α) (init : σ) :
    sz (forIn (m := Id) l init f).run = sz init + l.length * c := by
  induction l generalizing init with
  | nil => simp
  | cons a l ih =>
    obtain ⟨st', h1, h2⟩ := hf a init
    simp only [List.forIn_cons, h1, List.length_cons]
    have := ih st'
    simp only [Id.run] at this ⊢
    show sz (forIn l st' f) = _
    rw [this, h2, Nat.add_mul]; omega

theorem forIn_range_size {σ : Type} (sz : σ → Nat) (c n : Nat) (f : Nat → σ → Id (ForInStep σ))
    (hf : ∀ a st, ∃ st', f a st = ForInStep.yield st' ∧ sz st' = sz st + c) (init : σ) :
    sz (forIn (m := Id) [0:n] init f).run = sz init + n * c := by
  rw [Std.Legacy.Range.forIn_eq_forIn_range', forIn_list_size sz c f hf]
  simp [Std.Legacy.Range.size]

theorem squeeze_length (rate : Nat) (s0 : Array UInt64) (outLen : Nat) (hr : 8 ∣ rate) (h0 : 0 < rate) :
    (Keccak.squeeze rate s0 outLen).length = outLen := by
  unfold Keccak.squeeze
  simp only [Id.run, bind, pure]
  have inner : ∀ (lane : UInt64) (out : Array UInt8),
      (forIn (m := Id) [0:8] out fun j o =>
        ForInStep.yield (o.push (lane >>> UInt64.ofNat (8 * j)).toUInt8)).run.size = out.size + 8 := by
    intro lane out
    rw [forIn_range_size (fun o : Array UInt8 => o.size) 1]
    intro a st; exact ⟨_, rfl, by simp⟩
  have mid : ∀ (s : Array UInt64) (out : Array UInt8),
      (forIn (m := Id) [0:rate/8] out fun i o =>
        ForInStep.yield (forIn (m := Id) [0:8] o fun j o =>
          ForInStep.yield (o.push (s[i]! >>> UInt64.ofNat (8 * j)).toUInt8))).run.size
        = out.size + rate / 8 * 8 := by
    intro s out
    rw [forIn_range_size (fun o : Array UInt8 => o.size) 8]
    intro a st; exact ⟨_, rfl, inner _ _⟩
  have outer := forIn_range_size (σ := Array UInt64 × Array UInt8) (fun p => p.2.size) (rate / 8 * 8)
    ((outLen + rate - 1) / rate)
    (fun blk __s =>
                if blk ≠ 0 then
                  ForInStep.yield
                    (Keccak.f1600 __s.fst,
                      forIn (m := Id) [:rate / 8] __s.snd fun i __s_1 =>
                        ForInStep.yield
                          (forIn (m := Id) [:8] __s_1 fun j __s_2 =>
                            ForInStep.yield (__s_2.push ((Keccak.f1600 __s.fst)[i]! >>> UInt64.ofNat (8 * j)).toUInt8)))
                else
                  ForInStep.yield
                    (__s.fst,
                      forIn (m := Id) [:rate / 8] __s.snd fun i __s_1 =>
                        ForInStep.yield
                          (forIn (m := Id) [:8] __s_1 fun j __s_2 =>
                            ForInStep.yield (__s_2.push (__s.fst[i]! >>> UInt64.ofNat (8 * j)).toUInt8))))
    (by
      intro blk st
      by_cases hb : blk ≠ 0
      · rw [if_pos hb]; exact ⟨_, rfl, mid _ _⟩
      · rw [if_neg hb]; exact ⟨_, rfl, mid _ _⟩)
    (s0, Array.mkEmpty ((outLen + rate - 1) / rate * rate))
  simp only [Id.run] at outer
  simp only [Array.length_toList, Array.size_extract]
  rw [outer]
  have h8 : rate / 8 * 8 = rate := Nat.div_mul_cancel hr
  rw [h8]
  simp
  have : outLen ≤ (outLen + rate - 1) / rate * rate := by
    have := Nat.div_add_mod (outLen + rate - 1) rate
    have := Nat.mod_lt (outLen + rate - 1) h0
    rw [Nat.mul_comm]; omega
  omega

theorem shake256_length (m : Bytes) (n : Nat) : (shake256 m n).length = n :=
  squeeze_length 136 _ n (by decide) (by decide)


/-! ### SHA-256 returns 32 bytes -/

theorem compress_size (h : Array UInt32) (blk : Array UInt8) (off : Nat) :
    (Sha256.compress h blk off).size = 8 := by
  unfold Sha256.compress
  simp only [Id.run, bind, pure]
  rfl

theorem serialize_length (h : Array UInt32) : (Sha256.serialize h).length = 4 * h.size := by
  unfold Sha256.serialize
  rw [List.length_flatMap]
  simp; omega

theorem foldl_compress_size (p : Array UInt8) (l : List Nat) (h : Array UInt32) (hs : h.size = 8) :
    (l.foldl (fun s i => Sha256.compress s p (64 * i)) h).size = 8 := by
  induction l generalizing h with
  | nil => exact hs
  | cons a l ih => exact ih _ (compress_size _ _ _)

/-- The model's SHA-256 always returns 32 bytes. -/
theorem sha256_length (m : Bytes) : (sha256 m).length = 32 := by
  unfold sha256
  simp only [Id.run, bind, pure]
  rw [serialize_length]
  simp
  have := List.forIn_pure_yield_eq_foldl (m := Id) (l := List.range' 0 ((Sha256.pad m).size / 64))
    (fun i s => Sha256.compress s (Sha256.pad m) (64 * i)) Sha256.H0
  simp only [pure] at this
  rw [this, foldl_compress_size _ _ _ rfl]

/-! ### `expand_message_xmd` / `expand_message_xof` -/

theorem xmdBlocks_length (b0 dp : Bytes) (n i : Nat) (prev : Bytes) :
    (Expand.xmdBlocks b0 dp n i prev).length = 32 * n := by
  induction n generalizing i prev with
  | zero => simp [Expand.xmdBlocks]
  | succ n ih =>
    simp only [Expand.xmdBlocks, List.length_append, sha256_length, ih]
    omega

/-- `expand_message_xmd` succeeds exactly when none of (E1), (E2), (E3) holds. -/
theorem expandXmd_isSome_iff (msg dst : Bytes) (len : Nat) :
    (expandXmd msg dst len).isSome ↔ ¬ len = 0 ∧ ¬ len > 65535 ∧ ¬ (len + 31) / 32 > 255 := by
  unfold expandXmd
  by_cases h1 : len = 0
  · simp [h1]
  · by_cases h2 : len > 65535
    · simp [h1, h2]
    · by_cases h3 : (len + 31) / 32 > 255
      · simp [h1, h2, h3]
      · simp only [h1, h2, h3, if_false]
        simp

/-- (E1)-(E3) for XMD amount to `1 ≤ len ≤ 8160`. -/
theorem expandXmd_isSome_iff' (msg dst : Bytes) (len : Nat) :
    (expandXmd msg dst len).isSome ↔ 1 ≤ len ∧ len ≤ 8160 := by
  rw [expandXmd_isSome_iff]; omega

theorem expandXmd_eq_none_iff (msg dst : Bytes) (len : Nat) :
    expandXmd msg dst len = none ↔ len = 0 ∨ len > 8160 := by
  rw [← Option.not_isSome_iff_eq_none, expandXmd_isSome_iff']; omega

/-- The output of `expand_message_xmd` has the requested length. -/
theorem expandXmd_length (msg dst : Bytes) (len : Nat) (out : Bytes)
    (h : expandXmd msg dst len = some out) : out.length = len := by
  unfold expandXmd at h
  split at h
  · cases h
  · split at h
    · cases h
    · dsimp only at h
      split at h
      · cases h
      · cases h
        simp only [List.length_take, List.length_append, sha256_length, xmdBlocks_length]
        omega

/-- `expand_message_xof` succeeds exactly when neither (E1) nor (E2) holds. -/
theorem expandXof_isSome_iff (msg dst : Bytes) (len : Nat) :
    (expandXof msg dst len).isSome ↔ ¬ len = 0 ∧ ¬ len > 65535 := by
  unfold expandXof
  by_cases h1 : len = 0
  · simp [h1]
  · by_cases h2 : len > 65535
    · simp [h1, h2]
    · simp only [h1, h2, if_false]
      simp

theorem expandXof_isSome_iff' (msg dst : Bytes) (len : Nat) :
    (expandXof msg dst len).isSome ↔ 1 ≤ len ∧ len ≤ 65535 := by
  rw [expandXof_isSome_iff]; omega

theorem expandXof_eq_none_iff (msg dst : Bytes) (len : Nat) :
    expandXof msg dst len = none ↔ len = 0 ∨ len > 65535 := by
  rw [← Option.not_isSome_iff_eq_none, expandXof_isSome_iff']; omega

theorem expandXof_length (msg dst : Bytes) (len : Nat) (out : Bytes)
    (h : expandXof msg dst len = some out) : out.length = len := by
  unfold expandXof at h
  split at h
  · cases h
  · split at h
    · cases h
    · cases h
      exact shake256_length _ _

/-- `expand_message_xmd` answers every request of `1 … 8160` bytes, with exactly that many
bytes; in particular the 48-byte (`hash_to_scalar`, generator seeds) and 128-byte
(`hash_to_curve`) requests of zkryptium, for every message and DST. -/
theorem expandXmd_some (msg dst : Bytes) (len : Nat) (h1 : 1 ≤ len) (h2 : len ≤ 8160) :
    ∃ out, expandXmd msg dst len = some out ∧ out.length = len := by
  cases h : expandXmd msg dst len with
  | none => rw [expandXmd_eq_none_iff] at h; omega
  | some out => exact ⟨out, rfl, expandXmd_length _ _ _ _ h⟩

theorem expandXof_some (msg dst : Bytes) (len : Nat) (h1 : 1 ≤ len) (h2 : len ≤ 65535) :
    ∃ out, expandXof msg dst len = some out ∧ out.length = len := by
  cases h : expandXof msg dst len with
  | none => rw [expandXof_eq_none_iff] at h; omega
  | some out => exact ⟨out, rfl, expandXof_length _ _ _ _ h⟩

theorem expandXmd_48 (msg dst : Bytes) : ∃ out, expandXmd msg dst 48 = some out ∧ out.length = 48 :=
  expandXmd_some msg dst 48 (by decide) (by decide)

theorem expandXmd_128 (msg dst : Bytes) :
    ∃ out, expandXmd msg dst 128 = some out ∧ out.length = 128 :=
  expandXmd_some msg dst 128 (by decide) (by decide)

/-- The concrete expander (either suite) returns exactly `len` bytes for `1 ≤ len ≤ 8160`. -/
theorem Concrete_expand_some (xof : Bool) (msg dst : Bytes) (len : Nat) (h1 : 1 ≤ len)
    (h2 : len ≤ 8160) : ∃ out, Concrete.expand xof msg dst len = some out ∧ out.length = len := by
  unfold Concrete.expand
  cases xof with
  | true =>
    simp only [if_true]
    cases h : expandXof msg dst len with
    | none => rw [expandXof_eq_none_iff] at h; omega
    | some out => exact ⟨out, rfl, expandXof_length _ _ _ _ h⟩
  | false =>
    simp only [Bool.false_eq_true, if_false]
    cases h : expandXmd msg dst len with
    | none => rw [expandXmd_eq_none_iff] at h; omega
    | some out => exact ⟨out, rfl, expandXmd_length _ _ _ _ h⟩

theorem Concrete_expand_length (xof : Bool) (msg dst : Bytes) (len : Nat) (out : Bytes)
    (h : Concrete.expand xof msg dst len = some out) : out.length = len := by
  unfold Concrete.expand at h
  cases xof with
  | true => exact expandXof_length _ _ _ _ (by simpa using h)
  | false => exact expandXmd_length _ _ _ _ (by simpa using h)

/-- Exactly when the concrete expander fails. -/
theorem Concrete_expand_eq_none_iff (xof : Bool) (msg dst : Bytes) (len : Nat) :
    Concrete.expand xof msg dst len = none ↔
      len = 0 ∨ (if xof then len > 65535 else len > 8160) := by
  unfold Concrete.expand
  cases xof with
  | true => simp only [if_true]; exact expandXof_eq_none_iff _ _ _
  | false => simp only [Bool.false_eq_true, if_false]; exact expandXmd_eq_none_iff _ _ _

theorem Concrete_expand_48 (xof : Bool) (msg dst : Bytes) :
    ∃ out, Concrete.expand xof msg dst 48 = some out ∧ out.length = 48 :=
  Concrete_expand_some xof msg dst 48 (by decide) (by decide)

theorem Concrete_expand_128 (xof : Bool) (msg dst : Bytes) :
    ∃ out, Concrete.expand xof msg dst 128 = some out ∧ out.length = 128 :=
  Concrete_expand_some xof msg dst 128 (by decide) (by decide)

/-! ### `hash_to_scalar` in the concrete environment -/

/-- `hash_to_scalar` of the concrete environment succeeds for every message as soon as the DST
has at most 255 bytes (for a suite that asks for 48 bytes, as both generated suites do). -/
theorem hashToScalar_concrete_total (cs : Suite G1Pt) (msg dst : Bytes) (hdst : dst.length ≤ 255)
    (hlen : cs.expandLen = 48) : ∃ s, hashToScalar Concrete.env cs msg dst = .ok s := by
  obtain ⟨u, hu, hl⟩ := Concrete_expand_48 cs.xof msg dst
  refine ⟨Concrete.env.okm u, ?_⟩
  unfold hashToScalar
  rw [if_neg (by omega), hlen]
  show (match Concrete.expand cs.xof msg dst 48 with
    | none => Res.err
    | some u => if u.length ≠ 48 then Res.err else Res.ok (Concrete.env.okm u)) = _
  rw [hu]
  simp [hl]

/-- Conversely the concrete `hash_to_scalar` fails (with `err`, never `panic`) on a DST of more
than 255 bytes: the length condition is exactly the failure condition. -/
theorem hashToScalar_concrete_ok_iff (cs : Suite G1Pt) (msg dst : Bytes)
    (hlen : cs.expandLen = 48) :
    (∃ s, hashToScalar Concrete.env cs msg dst = .ok s) ↔ dst.length ≤ 255 := by
  constructor
  · rintro ⟨s, hs⟩
    unfold hashToScalar at hs
    split at hs
    · cases hs
    · omega
  · intro h; exact hashToScalar_concrete_total cs msg dst h hlen

/-- `HashTotal Concrete.env cs dst` for every DST of at most 255 bytes. -/
theorem hashTotal_concrete_of_length (cs : Suite G1Pt) (dst : Bytes) (hdst : dst.length ≤ 255)
    (hlen : cs.expandLen = 48) : HashTotal Concrete.env cs dst :=
  fun msg => hashToScalar_concrete_total cs msg dst hdst hlen

/-! ### `hash_to_curve` and generator creation in the concrete environment -/

/-- `hash_to_curve` with the concrete expander always answers. -/
theorem hashToG1_concrete_isSome (xof : Bool) (msg dst : Bytes) :
    (hashToG1 (Concrete.expand xof) msg dst).isSome := by
  obtain ⟨ub, hub, hl⟩ := Concrete_expand_128 xof msg dst
  unfold hashToG1 H2C.hashToField2
  rw [hub]
  simp [hl]

theorem encodeToG1_concrete_isSome (xof : Bool) (msg dst : Bytes) :
    (encodeToG1 (Concrete.expand xof) msg dst).isSome := by
  obtain ⟨ub, hub, hl⟩ := Concrete_expand_some xof msg dst 64 (by decide) (by decide)
  unfold encodeToG1
  rw [hub]
  simp [hl]

/-- Generator creation never panics in the concrete environment. -/
theorem noHashPanic_concrete (cs : Suite G1Pt) (hlen : cs.expandLen = 48) :
    Zk.Total.NoHashPanic Concrete.env cs := by
  apply Zk.Total.noHashPanic_of_some
  · intro msg dst h
    obtain ⟨u, hu, -⟩ := Concrete_expand_48 cs.xof msg dst
    rw [hlen] at h
    have : Concrete.expand cs.xof msg dst 48 = none := h
    rw [hu] at this; cases this
  · intro msg dst h
    have := hashToG1_concrete_isSome cs.xof msg dst
    have h' : hashToG1 (Concrete.expand cs.xof) msg dst = none := h
    rw [h'] at this; cases this

end Zk.ConcreteHash
