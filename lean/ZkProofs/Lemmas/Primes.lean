/-
Primality of the two BLS12-381 moduli: `Zk.R_prime : Nat.Prime Zk.R` (255-bit subgroup order)
and `Zk.P_prime : Nat.Prime Zk.P` (381-bit base-field modulus).

Method: Pratt certificates (recursive Lucas certificates) checked by kernel evaluation
(`decide +kernel`: kernel reduction only, no axiom beyond the three standard ones).
* `modpow a e n` is a structurally recursive square-and-multiply with `modpow_spec :
  modpow a e n = a ^ e % n`;
* `tdPrime` is trial division (`tdPrime_spec`), used only for prime factors below `2^16`;
* `lucas_cert` turns `a^(p-1) ≡ 1`, `a^((p-1)/q) ≢ 1` for the prime factors `q` of `p - 1`
  (a kernel-checked factorisation) into `Nat.Prime p` via Mathlib's `lucas_primality`;
* `checkChain` checks a list of such nodes, each using earlier nodes for its large prime
  factors (`checkChain_spec`).
The factorisations were found with sympy (`factorint`, and ECM for the 197-bit cofactor of
`q₂ − 1`); finding them is untrusted, the kernel re-checks every product and every power.
-/
import Mathlib.NumberTheory.LucasPrimality
import Mathlib.Data.Nat.Prime.Basic
import Mathlib.Algebra.BigOperators.Associated
import ZkModel.L0.Fp
namespace Zk.Primes

/-! ### binary modular exponentiation, structural on fuel -/

/-- `mpow n fuel a e acc = acc * a^e mod n` when `e < 2^fuel`. -/
def mpow (n : Nat) : Nat → Nat → Nat → Nat → Nat
  | 0, _, _, acc => acc
  | fuel + 1, a, e, acc =>
    if e = 0 then acc
    else mpow n fuel (a * a % n) (e / 2) (if e % 2 = 1 then acc * a % n else acc)

/-- `a^e mod n` (the exponent is its own fuel: `e < 2^e`). -/
def modpow (a e n : Nat) : Nat := mpow n e a e 1 % n

theorem mpow_spec (n : Nat) : ∀ (fuel a e acc : Nat), e < 2 ^ fuel →
    mpow n fuel a e acc ≡ acc * a ^ e [MOD n]
  | 0, a, e, acc, h => by
    have : e = 0 := by simpa using h
    simp [mpow, this, Nat.ModEq]
  | fuel + 1, a, e, acc, h => by
    unfold mpow
    by_cases he : e = 0
    · simp [he, Nat.ModEq]
    · rw [if_neg he]
      have h2 : e / 2 < 2 ^ fuel := by rw [Nat.pow_succ] at h; omega
      refine (mpow_spec n fuel _ _ _ h2).trans ?_
      have hsq : (a * a % n) ^ (e / 2) ≡ (a * a) ^ (e / 2) [MOD n] := (Nat.mod_modEq _ _).pow _
      have hdm := Nat.div_add_mod e 2
      by_cases ho : e % 2 = 1
      · rw [if_pos ho]
        have : a ^ e = a * (a * a) ^ (e / 2) := by
          conv_lhs => rw [← hdm, ho, pow_add, pow_mul, pow_one, sq]
          ring
        rw [this, ← mul_assoc]
        exact (Nat.mod_modEq _ _).mul hsq
      · rw [if_neg ho]
        have ho' : e % 2 = 0 := by omega
        have : a ^ e = (a * a) ^ (e / 2) := by
          conv_lhs => rw [← hdm, ho', add_zero, pow_mul, sq]
        rw [this]
        exact (Nat.ModEq.refl acc).mul hsq

theorem modpow_spec (a e n : Nat) : modpow a e n = a ^ e % n := by
  unfold modpow
  have := mpow_spec n e a e 1 Nat.lt_two_pow_self
  rw [one_mul] at this
  exact this



/-! ### trial division -/

/-- No divisor `m` of `n` with `d ≤ m`, `m * m ≤ n` (at most `fuel` candidates are tried;
`false` when the fuel runs out). -/
def tdLoop (n : Nat) : Nat → Nat → Bool
  | 0, _ => false
  | fuel + 1, d =>
    if n < d * d then true
    else if n % d = 0 then false
    else tdLoop n fuel (d + 1)

/-- Primality by trial division. -/
def tdPrime (n : Nat) : Bool := decide (2 ≤ n) && tdLoop n n 2

theorem tdLoop_spec (n : Nat) : ∀ (fuel d : Nat), tdLoop n fuel d = true →
    ∀ m, d ≤ m → m * m ≤ n → ¬ m ∣ n
  | 0, d, h => by simp [tdLoop] at h
  | fuel + 1, d, h => by
    intro m hdm hmm hdvd
    unfold tdLoop at h
    by_cases h1 : n < d * d
    · have : d * d ≤ m * m := Nat.mul_le_mul hdm hdm
      omega
    · rw [if_neg h1] at h
      by_cases h2 : n % d = 0
      · simp [h2] at h
      · rw [if_neg h2] at h
        by_cases hmd : m = d
        · subst hmd; exact h2 (Nat.mod_eq_zero_of_dvd hdvd)
        · exact tdLoop_spec n fuel (d + 1) h m (by omega) hmm hdvd

theorem tdPrime_spec (n : Nat) (h : tdPrime n = true) : Nat.Prime n := by
  unfold tdPrime at h
  rw [Bool.and_eq_true, decide_eq_true_eq] at h
  rw [Nat.prime_def_le_sqrt]
  refine ⟨h.1, fun m hm hms => tdLoop_spec n n 2 h.2 m hm ?_⟩
  exact Nat.le_sqrt.mp hms

/-! ### Lucas certificates -/

theorem prime_dvd_prod_pow {q : Nat} (hq : q.Prime) : ∀ (fs : List (Nat × Nat)),
    q ∣ (fs.map fun f => f.1 ^ f.2).prod → ∃ f ∈ fs, q ∣ f.1
  | [], h => by simp at h; exact absurd h hq.one_lt.ne'
  | f :: fs, h => by
    rw [List.map_cons, List.prod_cons] at h
    rcases (Nat.Prime.dvd_mul hq).mp h with h | h
    · exact ⟨f, by simp, hq.dvd_of_dvd_pow h⟩
    · obtain ⟨g, hg, hd⟩ := prime_dvd_prod_pow hq fs h
      exact ⟨g, by simp [hg], hd⟩

/-- Lucas / Pratt certificate: `a` has order exactly `p - 1` modulo `p`, where
`p - 1 = ∏ qᵢ^kᵢ` with all `qᵢ` prime. Modular powers are evaluated with `modpow`. -/
theorem lucas_cert (p a : Nat) (fs : List (Nat × Nat)) (hp : 1 < p)
    (hprod : (fs.map fun f => f.1 ^ f.2).prod = p - 1)
    (hq : ∀ f ∈ fs, Nat.Prime f.1)
    (h1 : modpow a (p - 1) p = 1)
    (h2 : ∀ f ∈ fs, modpow a ((p - 1) / f.1) p ≠ 1) : Nat.Prime p := by
  have cast_pow : ∀ e, (a : ZMod p) ^ e = ((modpow a e p : Nat) : ZMod p) := by
    intro e
    rw [modpow_spec, ← Nat.cast_pow, ZMod.natCast_eq_natCast_iff', Nat.mod_mod]
  have one_mod : 1 % p = 1 := Nat.mod_eq_of_lt hp
  apply lucas_primality p (a : ZMod p)
  · rw [cast_pow, h1, Nat.cast_one]
  · intro q hqp hqd
    rw [← hprod] at hqd
    obtain ⟨f, hf, hd⟩ := prime_dvd_prod_pow hqp fs hqd
    have hqf : q = f.1 := (Nat.prime_dvd_prime_iff_eq hqp (hq f hf)).mp hd
    rw [hqf, cast_pow]
    intro h
    apply h2 f hf
    have h' := (ZMod.natCast_eq_natCast_iff' (modpow a ((p - 1) / f.1) p) 1 p).mp (by simpa using h)
    have hm : modpow a ((p - 1) / f.1) p % p = modpow a ((p - 1) / f.1) p := by
      rw [modpow_spec, Nat.mod_mod]
    rw [one_mod, hm] at h'
    exact h'

/-- Boolean form of the numeric side conditions of `lucas_cert` (for `decide +kernel`). -/
def lucasCheck (p a : Nat) (fs : List (Nat × Nat)) : Bool :=
  decide (1 < p) && decide ((fs.map fun f => f.1 ^ f.2).prod = p - 1) &&
    decide (modpow a (p - 1) p = 1) && fs.all fun f => decide (modpow a ((p - 1) / f.1) p ≠ 1)

theorem lucas_cert' (p a : Nat) (fs : List (Nat × Nat)) (hc : lucasCheck p a fs = true)
    (hq : ∀ f ∈ fs, Nat.Prime f.1) : Nat.Prime p := by
  unfold lucasCheck at hc
  simp only [Bool.and_eq_true, decide_eq_true_eq, List.all_eq_true] at hc
  obtain ⟨⟨⟨h0, h1⟩, h2⟩, h3⟩ := hc
  exact lucas_cert p a fs h0 h1 hq h2 h3

/-! ### Pratt certificate chains -/

/-- One node of a Pratt certificate: `p` is prime because `a` has order `p - 1 = ∏ qᵢ^kᵢ`. -/
structure Entry where
  p : Nat
  a : Nat
  fs : List (Nat × Nat)

/-- Check a list of certificate nodes in order. Each prime factor `q` used by a node must be a
previously certified prime (`known`) or pass trial division. -/
def checkChain : List Entry → List Nat → Bool
  | [], _ => true
  | e :: es, known =>
    lucasCheck e.p e.a e.fs && (e.fs.all fun f => known.contains f.1 || tdPrime f.1) &&
      checkChain es (e.p :: known)

theorem checkChain_spec : ∀ (es : List Entry) (known : List Nat), checkChain es known = true →
    (∀ q ∈ known, Nat.Prime q) → ∀ e ∈ es, Nat.Prime e.p
  | [], _, _, _ => by simp
  | e :: es, known, h, hk => by
    unfold checkChain at h
    simp only [Bool.and_eq_true, List.all_eq_true, Bool.or_eq_true, List.contains_iff_mem] at h
    obtain ⟨⟨h1, h2⟩, h3⟩ := h
    have hp : Nat.Prime e.p := by
      apply lucas_cert' e.p e.a e.fs h1
      intro f hf
      rcases h2 f hf with hm | ht
      · exact hk _ hm
      · exact tdPrime_spec _ ht
    have ih := checkChain_spec es (e.p :: known) h3 (by
      intro q hq
      rcases List.mem_cons.mp hq with rfl | hq
      · exact hp
      · exact hk q hq)
    intro e' he'
    rcases List.mem_cons.mp he' with rfl | he'
    · exact hp
    · exact ih e' he'

/-- The last node of a valid chain is prime. -/
theorem prime_of_chain (es : List Entry) (p : Nat) (h : checkChain es [] = true)
    (hp : (es.map (·.p)).contains p = true) : Nat.Prime p := by
  rw [List.contains_iff_mem, List.mem_map] at hp
  obtain ⟨e, he, rfl⟩ := hp
  exact checkChain_spec es [] h (by simp) e he

end Zk.Primes

namespace Zk
open Primes

/-- Pratt certificate of `R` (witness 7;
`R − 1 = 2^32·3·11·19·10177·125527·859267·906349²·2508409·2529403·52437899·254760293²`). -/
def Primes.chainR : List Entry :=
  [⟨125527, 5, [(2, 1), (3, 1), (20921, 1)]⟩,
    ⟨859267, 2, [(2, 1), (3, 2), (47737, 1)]⟩,
    ⟨906349, 2, [(2, 2), (3, 1), (47, 1), (1607, 1)]⟩,
    ⟨2508409, 11, [(2, 3), (3, 4), (7, 2), (79, 1)]⟩,
    ⟨2529403, 2, [(2, 1), (3, 1), (23, 1), (18329, 1)]⟩,
    ⟨609743, 5, [(2, 1), (7, 1), (97, 1), (449, 1)]⟩,
    ⟨52437899, 2, [(2, 1), (43, 1), (609743, 1)]⟩,
    ⟨110573, 3, [(2, 2), (7, 1), (11, 1), (359, 1)]⟩,
    ⟨2653753, 5, [(2, 3), (3, 1), (110573, 1)]⟩,
    ⟨63690073, 7, [(2, 3), (3, 1), (2653753, 1)]⟩,
    ⟨254760293, 2, [(2, 2), (63690073, 1)]⟩,
    ⟨52435875175126190479447740508185965837690552500527637822603658699938581184513, 7, [(2, 32), (3, 1), (11, 1), (19, 1), (10177, 1), (125527, 1), (859267, 1), (906349, 2), (2508409, 1), (2529403, 1), (52437899, 1), (254760293, 2)]⟩]

/-- Pratt certificate of `P` (witness 2; `P − 1 = 2·3²·11·23·47·10177·859267·52437899·q₁·q₂` with
`q₁ = 2584487767265781317813` and the 234-bit prime
`q₂ = 15778400344354997994418419698270088123916926905054652752758194827714659`). -/
def Primes.chainP : List Entry :=
  [⟨859267, 2, [(2, 1), (3, 2), (47737, 1)]⟩,
    ⟨609743, 5, [(2, 1), (7, 1), (97, 1), (449, 1)]⟩,
    ⟨52437899, 2, [(2, 1), (43, 1), (609743, 1)]⟩,
    ⟨582767, 5, [(2, 1), (67, 1), (4349, 1)]⟩,
    ⟨9272813673901, 2, [(2, 2), (3, 1), (5, 2), (7, 1), (7577, 1), (582767, 1)]⟩,
    ⟨1928745244171409, 3, [(2, 4), (13, 1), (9272813673901, 1)]⟩,
    ⟨7259797099061183477, 2, [(2, 2), (941, 1), (1928745244171409, 1)]⟩,
    ⟨2584487767265781317813, 2, [(2, 2), (89, 1), (7259797099061183477, 1)]⟩,
    ⟨1686913, 10, [(2, 7), (3, 1), (23, 1), (191, 1)]⟩,
    ⟨475709467, 2, [(2, 1), (3, 1), (47, 1), (1686913, 1)]⟩,
    ⟨927093389, 3, [(2, 2), (13, 1), (409, 1), (43591, 1)]⟩,
    ⟨64881703735777, 5, [(2, 5), (3, 7), (927093389, 1)]⟩,
    ⟨92691255082156974996979, 3, [(2, 1), (3, 1), (31, 1), (467, 1), (16447, 1), (64881703735777, 1)]⟩,
    ⟨51376543, 3, [(2, 1), (3, 1), (7, 1), (151, 1), (8101, 1)]⟩,
    ⟨43670061551, 7, [(2, 1), (5, 2), (17, 1), (51376543, 1)]⟩,
    ⟨755057, 3, [(2, 4), (41, 1), (1151, 1)]⟩,
    ⟨421987, 2, [(2, 1), (3, 1), (53, 1), (1327, 1)]⟩,
    ⟨13090036741, 10, [(2, 2), (3, 1), (5, 1), (11, 1), (47, 1), (421987, 1)]⟩,
    ⟨3819663927398918131021, 6, [(2, 2), (3, 2), (5, 1), (19, 1), (113, 1), (755057, 1), (13090036741, 1)]⟩,
    ⟨1125266252156850182658904441386709967, 5, [(2, 1), (3373, 1), (43670061551, 1), (3819663927398918131021, 1)]⟩,
    ⟨15778400344354997994418419698270088123916926905054652752758194827714659, 2, [(2, 1), (3, 1), (53, 1), (475709467, 1), (92691255082156974996979, 1), (1125266252156850182658904441386709967, 1)]⟩,
    ⟨4002409555221667393417789825735904156556882819939007885332058136124031650490837864442687629129015664037894272559787, 2, [(2, 1), (3, 2), (11, 1), (23, 1), (47, 1), (10177, 1), (859267, 1), (52437899, 1), (2584487767265781317813, 1), (15778400344354997994418419698270088123916926905054652752758194827714659, 1)]⟩]

theorem Primes.chainR_ok : checkChain chainR [] = true := by decide +kernel
theorem Primes.chainP_ok : checkChain chainP [] = true := by decide +kernel

/-- **The BLS12-381 subgroup order is prime.** -/
theorem R_prime : Nat.Prime R :=
  prime_of_chain chainR R chainR_ok (by decide +kernel)

/-- **The BLS12-381 base-field modulus is prime.** -/
theorem P_prime : Nat.Prime P :=
  prime_of_chain chainP P chainP_ok (by decide +kernel)

end Zk
