/-
Codec helpers for C09: framing (`chunks32`, `decodeScalars`), lengths of the `toBytes`
functions, and the concrete scalar codec (`Zk.Concrete.sDec`, plain `Nat` arithmetic).
-/
import Mathlib.Data.List.Basic
import Mathlib.Data.List.Induction
import ZkProofs.Lawful
import ZkModel.Concrete
set_option linter.unusedSectionVars false
set_option linter.unusedSimpArgs false
set_option linter.unusedVariables false
namespace Zk.Codecs
open Zk Res

/-! ### list / byte-string framing -/

theorem drop_add' {α} (b : List α) (m n : Nat) : b.drop (m + n) = (b.drop m).drop n := by
  rw [List.drop_drop]

/-- Length of a concatenation of fixed-width encodings. -/
theorem length_flatMap_const {α} (enc : α → Bytes) (k : Nat) (henc : ∀ x, (enc x).length = k)
    (l : List α) : (l.flatMap enc).length = k * l.length := by
  induction l with
  | nil => simp
  | cons a l ih => simp [List.flatMap_cons, henc, ih, Nat.mul_add]; omega

/-- Chunking a concatenation of 32-byte encodings gives back the encodings. -/
theorem chunks32_flatMap {α} (enc : α → Bytes) (henc : ∀ x, (enc x).length = 32) (ss : List α)
    (n : Nat) (hn : ss.length ≤ n) : chunks32 n (ss.flatMap enc) = ss.map enc := by
  induction ss generalizing n with
  | nil => cases n <;> simp [chunks32]
  | cons s ss ih =>
    cases n with
    | zero => simp at hn
    | succ n =>
      have hl := henc s
      rw [List.flatMap_cons, chunks32]
      rw [if_neg (by simp [hl])]
      rw [List.take_left' hl, List.drop_left' hl, ih n (by simpa using hn)]
      rfl

/-- Chunking loses nothing when the length is a multiple of 32. -/
theorem chunks32_flatten (n : Nat) (b : Bytes) (hn : b.length ≤ 32 * n) (hm : b.length % 32 = 0) :
    (chunks32 n b).flatten = b := by
  induction n generalizing b with
  | zero =>
    have : b = [] := List.eq_nil_of_length_eq_zero (by omega)
    subst this; simp [chunks32]
  | succ n ih =>
    rw [chunks32]
    split
    · have : b = [] := List.eq_nil_of_length_eq_zero (by omega)
      subst this; simp
    · rw [List.flatten_cons, ih (b.drop 32) (by simp; omega) (by simp; omega)]
      exact List.take_append_drop 32 b

/-! ### `mapRes` against an inverse -/

theorem mapRes_map_ok {α β} (f : α → Res β) (g : β → α) (h : ∀ x, f (g x) = .ok x) (ss : List β) :
    mapRes f (ss.map g) = .ok ss := by
  induction ss with
  | nil => rfl
  | cons s ss ih => rw [List.map_cons, mapRes, h, ih]

theorem mapRes_ok_strict {α β} (f : α → Res β) (g : β → α) (h : ∀ a b, f a = .ok b → g b = a)
    (l : List α) (bs : List β) (hm : mapRes f l = .ok bs) : bs.map g = l := by
  induction l generalizing bs with
  | nil => simp [mapRes] at hm; subst hm; rfl
  | cons a as ih =>
    rw [mapRes] at hm
    cases hfa : f a with
    | ok b =>
      rw [hfa] at hm; simp only at hm
      cases hr : mapRes f as with
      | ok bs' => rw [hr] at hm; cases hm; rw [List.map_cons, ih bs' hr, h a b hfa]
      | err => rw [hr] at hm; cases hm
      | panic => rw [hr] at hm; cases hm
    | err => rw [hfa] at hm; cases hm
    | panic => rw [hfa] at hm; cases hm

section
variable {S G1 G2 GT : Type} [Field S] [DecidableEq S]
variable [AddCommGroup G1] [Module S G1] [DecidableEq G1]
variable [AddCommGroup G2] [Module S G2] [DecidableEq G2]
variable [AddCommGroup GT] [Module S GT]
variable {env : Env S G1 G2} {pair : G1 →ₗ[S] G2 →ₗ[S] GT}

theorem decodeScalars_map_enc (hl : Lawful env pair) (ss : List S) :
    decodeScalars env (ss.map env.sEnc) = .ok ss :=
  mapRes_map_ok _ _ (fun x => by rw [hl.sCodec.dec_enc]; rfl) ss

/-- Whatever `decodeScalars` accepts re-encodes to exactly the chunks it was given. -/
theorem decodeScalars_strict (hl : Lawful env pair) (chunks : List Bytes) (ss : List S)
    (h : decodeScalars env chunks = .ok ss) : ss.map env.sEnc = chunks :=
  mapRes_ok_strict _ _ (fun a b hab => by
    cases hd : env.sDec a with
    | none => rw [hd] at hab; cases hab
    | some x => rw [hd] at hab; cases hab; exact hl.sCodec.strict _ _ hd) _ _ h

/-- Decoding the scalar tail `m^_1 … m^_U, c` written by `to_bytes`. -/
theorem decode_tail (hl : Lawful env pair) (ms : List S) (c : S) :
    let rest := ms.flatMap env.sEnc ++ env.sEnc c
    decodeScalars env (chunks32 rest.length rest) = .ok (ms ++ [c]) := by
  intro rest
  have hrest : rest = (ms ++ [c]).flatMap env.sEnc := by
    simp [rest, List.flatMap_append]
  have hlen : rest.length = 32 * (ms ++ [c]).length := by
    rw [hrest]; exact length_flatMap_const _ 32 hl.sCodec.enc_len _
  rw [hrest, chunks32_flatMap _ hl.sCodec.enc_len _ _ (by rw [← hrest, hlen]; omega)]
  exact decodeScalars_map_enc hl _

/-- Strictness of the scalar tail: if the chunks of `rest` decode to `ss` with last element
`c`, then `rest` is the encoding of `ss.dropLast` followed by `c`. -/
theorem tail_strict (hl : Lawful env pair) (rest : Bytes) (hm : rest.length % 32 = 0)
    (ss : List S) (c : S) (h : decodeScalars env (chunks32 rest.length rest) = .ok ss)
    (hc : ss.getLast? = some c) : ss.dropLast.flatMap env.sEnc ++ env.sEnc c = rest := by
  have h1 := decodeScalars_strict hl _ _ h
  have h2 := chunks32_flatten rest.length rest (by omega) hm
  have h3 : ss.dropLast ++ [c] = ss := List.dropLast_append_getLast? c (by simp [hc])
  have : ss.flatMap env.sEnc = rest := by
    rw [← h2, ← h1, List.flatMap_def]
  rw [← this]
  conv_rhs => rw [← h3]
  simp [List.flatMap_append]

/-! ### lengths of the encodings -/

theorem pkToBytes_length (hl : Lawful env pair) (pk : G2) : (pkToBytes env pk).length = 96 :=
  hl.g2Codec.enc_len pk

theorem Signature.toBytes_length (hl : Lawful env pair) (σ : Signature S G1) :
    (σ.toBytes env).length = 80 := by
  simp [Signature.toBytes, hl.g1Codec.enc_len, hl.sCodec.enc_len]

theorem PoKSignature.toBytes_length (hl : Lawful env pair) (π : PoKSignature S G1) :
    (π.toBytes env).length = 272 + 32 * π.mCap.length := by
  simp [PoKSignature.toBytes, hl.g1Codec.enc_len, hl.sCodec.enc_len,
    length_flatMap_const _ 32 hl.sCodec.enc_len]
  omega

theorem ZKPoK.toBytes_length (hl : Lawful env pair) (z : ZKPoK S) :
    (z.toBytes env).length = 64 + 32 * z.mCap.length := by
  simp [ZKPoK.toBytes, hl.sCodec.enc_len, length_flatMap_const _ 32 hl.sCodec.enc_len]
  omega

theorem Commitment.toBytes_length (hl : Lawful env pair) (c : Commitment S G1) :
    (c.toBytes env).length = 112 + 32 * c.proof.mCap.length := by
  simp [Commitment.toBytes, ZKPoK.toBytes_length hl, hl.g1Codec.enc_len]
  omega

end

/-! ### the concrete scalar codec (`Scalar::from_bytes_be` / `to_bytes_be`) -/

namespace ScalarCodec

private theorem os2ip_concat (b : Bytes) (x : UInt8) : os2ip (b ++ [x]) = os2ip b * 256 + x.toNat := by
  simp [os2ip, List.foldl_append]

theorem i2ospAux_length (n x : Nat) : (i2ospAux n x).length = n := by
  induction n generalizing x with
  | zero => rfl
  | succ n ih => simp [i2ospAux, ih]

/-- OS2IP after (truncating) I2OSP is reduction mod `256^n`. -/
theorem os2ip_i2ospAux (n x : Nat) : os2ip (i2ospAux n x) = x % 256 ^ n := by
  induction n generalizing x with
  | zero => simp [i2ospAux, os2ip, Nat.mod_one]
  | succ n ih =>
    have hpow : 256 ^ (n + 1) = 256 * 256 ^ n := by rw [Nat.pow_succ, Nat.mul_comm]
    rw [i2ospAux, os2ip_concat, ih, UInt8.toNat_ofNat', hpow, Nat.mod_mul]
    have : x % 256 % 2 ^ 8 = x % 256 := Nat.mod_eq_of_lt (by omega)
    rw [this]; omega

/-- I2OSP after OS2IP is the identity on strings of the right length. -/
theorem i2ospAux_os2ip (b : Bytes) : i2ospAux b.length (os2ip b) = b := by
  induction b using List.reverseRecOn with
  | nil => rfl
  | append_singleton b x ih =>
    have hx : x.toNat < 256 := x.toNat_lt
    rw [List.length_append, List.length_singleton, i2ospAux, os2ip_concat]
    have h1 : (os2ip b * 256 + x.toNat) / 256 = os2ip b := by omega
    have h2 : (os2ip b * 256 + x.toNat) % 256 = x.toNat := by omega
    rw [h1, h2, ih, UInt8.ofNat_toNat]

theorem os2ip_lt (b : Bytes) : os2ip b < 256 ^ b.length := by
  have := os2ip_i2ospAux b.length (os2ip b)
  rw [i2ospAux_os2ip] at this
  rw [this]
  exact Nat.mod_lt _ (Nat.pow_pos (by omega))

theorem R_lt : R < 256 ^ 32 := by decide

/-- **Exactly the canonical strings are accepted**: 32 bytes whose big-endian value is `< r`. -/
theorem sDec_eq_some_iff (b : Bytes) (s : Fr) :
    Concrete.sDec b = some s ↔ b.length = 32 ∧ os2ip b < R ∧ s.v = os2ip b := by
  unfold Concrete.sDec
  constructor
  · intro h
    split at h
    · cases h
    · rename_i hlen
      simp only at h
      split at h
      · rename_i hlt
        cases h
        exact ⟨by simpa using hlen, hlt, rfl⟩
      · cases h
  · rintro ⟨hlen, hlt, hv⟩
    rw [if_neg (by simp [hlen])]
    simp only
    rw [if_pos hlt]
    cases s; simp only at hv; rw [hv]

/-- Every 32-byte string whose value is `≥ r` is rejected. -/
theorem rejects_scalar_ge_r (b : Bytes) (h : R ≤ os2ip b) : Concrete.sDec b = none := by
  cases hd : Concrete.sDec b with
  | none => rfl
  | some s => have := ((sDec_eq_some_iff b s).mp hd).2.1; omega

theorem rejects_scalar_wrong_length (b : Bytes) (h : b.length ≠ 32) : Concrete.sDec b = none := by
  cases hd : Concrete.sDec b with
  | none => rfl
  | some s => exact absurd ((sDec_eq_some_iff b s).mp hd).1 h

theorem sEnc_length (s : Fr) : (Concrete.env.sEnc s).length = 32 := i2ospAux_length 32 s.v

/-- Round trip on reduced scalars. -/
theorem sDec_sEnc (s : Fr) (hs : s.v < R) : Concrete.sDec (Concrete.env.sEnc s) = some s := by
  rw [sDec_eq_some_iff]
  have hv : os2ip (i2ospAux 32 s.v) = s.v := by
    rw [os2ip_i2ospAux]; exact Nat.mod_eq_of_lt (Nat.lt_trans hs R_lt)
  exact ⟨i2ospAux_length 32 s.v, by rw [show Concrete.env.sEnc s = i2ospAux 32 s.v from rfl, hv]; exact hs,
    by rw [show Concrete.env.sEnc s = i2ospAux 32 s.v from rfl, hv]⟩

/-- Strictness: an accepted string is the encoding of what it decodes to (and that is reduced). -/
theorem sDec_strict (b : Bytes) (s : Fr) (h : Concrete.sDec b = some s) :
    Concrete.env.sEnc s = b ∧ s.v < R := by
  obtain ⟨hlen, hlt, hv⟩ := (sDec_eq_some_iff b s).mp h
  refine ⟨?_, by omega⟩
  show i2ospAux 32 s.v = b
  rw [hv, ← hlen, i2ospAux_os2ip]

/-- The type of reduced scalars (what `Scalar` values actually are). -/
abbrev FrR := { s : Fr // s.v < R }

/-- `Concrete.sDec` with its range proof attached. -/
def sDecR (b : Bytes) : Option FrR :=
  match h : Concrete.sDec b with
  | none => none
  | some s => some ⟨s, (sDec_strict b s h).2⟩

theorem sDecR_val (b : Bytes) : (sDecR b).map Subtype.val = Concrete.sDec b := by
  unfold sDecR
  split <;> simp_all

/-- The concrete scalar codec is canonical on reduced scalars. -/
theorem scalarCodec : Codec (fun s : FrR => Concrete.env.sEnc s.1) sDecR 32 where
  dec_enc := fun s => by
    have h := sDec_sEnc s.1 s.2
    have hv := sDecR_val (Concrete.env.sEnc s.1)
    rw [h] at hv
    cases hd : sDecR (Concrete.env.sEnc s.1) with
    | none => rw [hd] at hv; exact absurd hv (by simp)
    | some t =>
      rw [hd, Option.map_some] at hv
      exact congrArg some (Subtype.ext (Option.some.inj hv))
  enc_len := fun s => sEnc_length s.1
  strict := fun b s h => by
    have hv := sDecR_val b
    rw [h] at hv
    exact (sDec_strict b s.1 hv.symm).1

end ScalarCodec
end Zk.Codecs
