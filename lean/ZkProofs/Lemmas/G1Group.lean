/-
The executable G1 arithmetic of the model (`ZkModel/L0/G1.lean`) IS the elliptic-curve group law:
lemmas relating `G1.neg / G1.double / G1.add`, the Jacobian functions `G1.Jac.*`, `G1.mul`,
`G1.msm` and `G1.inSubgroup` to Mathlib's proven group law on
`WeierstrassCurve.Affine.Point` for `E1 : y² = x³ + 4` over `ZMod P`.

* `E1`, `toPt : G1Pt → E1.Point` (total: points that are not on the curve go to `0`),
  `toPt_injOn`, `toPt_surj`;
* affine law: `onCurve_neg`, `toPt_neg`, `onCurve_add`, `toPt_add`, `toPt_zero`;
* Jacobian law: `dbl_toAffine`, `addAffine_toAffine`, `add_toAffine` (rational-function identities,
  valid for all reduced triples), hence `toPt_mul`, `onCurve_mul`, `toPt_msm`;
* `inSubgroup_iff`.
The headline statements are in `ZkProofs/Props/ConcreteG1.lean`.
-/
import ZkProofs.Lemmas.G2Codec
import Mathlib.AlgebraicGeometry.EllipticCurve.Affine.Point
import Mathlib.Tactic.FieldSimp
import Mathlib.Tactic.LinearCombination
import Mathlib.Tactic.Ring
namespace Zk.ConcreteG1
open Zk Zk.G1Codec Zk.G2Codec Zk.ConcreteScalar WeierstrassCurve

/-! ### the curve -/

/-- `E1 : y² = x³ + 4` over `Fp = ZMod P`. -/
def E1 : WeierstrassCurve (ZMod P) := ⟨0, 0, 0, 0, 4⟩

@[simp] theorem E1_a₁ : E1.a₁ = 0 := rfl
@[simp] theorem E1_a₂ : E1.a₂ = 0 := rfl
@[simp] theorem E1_a₃ : E1.a₃ = 0 := rfl
@[simp] theorem E1_a₄ : E1.a₄ = 0 := rfl
@[simp] theorem E1_a₆ : E1.a₆ = 4 := rfl

theorem E1_Δ : E1.Δ = -6912 := by
  simp only [WeierstrassCurve.Δ, WeierstrassCurve.b₂, WeierstrassCurve.b₄, WeierstrassCurve.b₆,
    WeierstrassCurve.b₈, E1_a₁, E1_a₂, E1_a₃, E1_a₄, E1_a₆]
  ring

theorem three_ne_zero' : (3 : ZMod P) ≠ 0 := by
  intro h
  have h' : ((3 : Nat) : ZMod P) = 0 := by exact_mod_cast h
  rw [ZMod.natCast_eq_zero_iff] at h'
  exact absurd (Nat.le_of_dvd (by decide) h') (by decide)

/-- E1 is an elliptic curve: `Δ = −2⁸·3³ ≠ 0` in `Fp`. (Not needed for the group law below, which
Mathlib states for nonsingular points of any Weierstrass curve over a field.) -/
instance E1_isElliptic : E1.IsElliptic := ⟨by
  rw [E1_Δ]
  have : (-6912 : ZMod P) = -(2 ^ 8 * 3 ^ 3) := by norm_num
  rw [this]
  exact IsUnit.mk0 _ (neg_ne_zero.mpr (mul_ne_zero (pow_ne_zero _ two_ne_zero')
    (pow_ne_zero _ three_ne_zero')))⟩

theorem equation_iff (x y : ZMod P) : E1.toAffine.Equation x y ↔ y ^ 2 = x ^ 3 + 4 := by
  rw [Affine.equation_iff]; simp

/-- `x³ + 4 ≠ 0` for every element of `Fp` (`−4` is not a cube). -/
theorem cube_add_four_ne_zero (x : ZMod P) : x ^ 3 + 4 ≠ 0 := by
  intro h
  have hc := rhs_cast x.val
  rw [ZMod.natCast_zmod_val, h] at hc
  exact rhs_ne_zero x.val (cast_eq_zero (rhs_lt _) hc)

/-- No point of E1 has `y = 0` (no 2-torsion). -/
theorem y_ne_zero {x y : ZMod P} (h : y ^ 2 = x ^ 3 + 4) : y ≠ 0 := by
  intro hy
  rw [hy] at h
  exact cube_add_four_ne_zero x (by rw [← h]; ring)

theorem nonsingular_iff (x y : ZMod P) : E1.toAffine.Nonsingular x y ↔ y ^ 2 = x ^ 3 + 4 := by
  rw [Affine.nonsingular_iff', equation_iff]
  refine ⟨fun h => h.1, fun h => ⟨h, Or.inr ?_⟩⟩
  simp only [E1_a₁, E1_a₃, zero_mul, add_zero]
  exact mul_ne_zero two_ne_zero' (y_ne_zero h)

theorem negY_eq (x y : ZMod P) : E1.toAffine.negY x y = -y := by
  simp [Affine.negY]

/-! ### the map to Mathlib's points -/

open Classical in
/-- The Mathlib point denoted by a triple; triples that are not points of the curve denote `0`
(so the map is total; on `G1.onCurve` points it is the expected bijection, see `toPt_some`,
`toPt_injOn`, `toPt_surj`). -/
noncomputable def toPt (p : G1Pt) : E1.toAffine.Point :=
  if h : p.inf = false ∧ E1.toAffine.Nonsingular (p.x : ZMod P) (p.y : ZMod P) then
    .some _ _ h.2 else 0

theorem toPt_inf {p : G1Pt} (h : p.inf = true) : toPt p = 0 := by
  unfold toPt
  rw [dif_neg]
  simp [h]

theorem toPt_zero : toPt G1Pt.zero = 0 := toPt_inf rfl

theorem toPt_mk {x y : Nat} (h : E1.toAffine.Nonsingular (x : ZMod P) (y : ZMod P)) :
    toPt ⟨x, y, false⟩ = .some _ _ h := by
  unfold toPt
  rw [dif_pos ⟨rfl, h⟩]

/-- What `G1.onCurve` says. -/
theorem onCurve_iff (p : G1Pt) : G1.onCurve p = true ↔
    if p.inf = true then p.x = 0 ∧ p.y = 0
    else p.x < P ∧ p.y < P ∧ ((p.y : ZMod P)) ^ 2 = (p.x : ZMod P) ^ 3 + 4 := by
  unfold G1.onCurve
  by_cases hi : p.inf = true
  · simp [hi]
  · have hi' : p.inf = false := by simpa using hi
    rw [hi']
    simp only [Bool.false_eq_true, if_false, Bool.and_eq_true, decide_eq_true_eq, beq_iff_eq,
      and_assoc]
    refine and_congr_right fun hx => and_congr_right fun hy => ?_
    rw [← sq_cast, ← rhs_cast]
    exact ⟨fun h => by rw [h], fun h => cast_inj (sq_lt _) (rhs_lt _) h⟩

theorem onCurve_inf {p : G1Pt} (hc : G1.onCurve p = true) (hi : p.inf = true) : p = G1Pt.zero := by
  have := (onCurve_iff p).mp hc
  rw [if_pos hi] at this
  obtain ⟨x, y, i⟩ := p
  simp only at this hi
  rw [this.1, this.2, hi]; rfl

theorem onCurve_mk {x y : Nat} : G1.onCurve ⟨x, y, false⟩ = true ↔
    x < P ∧ y < P ∧ (y : ZMod P) ^ 2 = (x : ZMod P) ^ 3 + 4 := by
  rw [onCurve_iff]; simp

/-- A reduced pair whose casts are a (Mathlib) point of E1 is an on-curve point denoting it. -/
theorem of_some {x y : Nat} (hx : x < P) (hy : y < P) {X Y : ZMod P}
    (h : E1.toAffine.Nonsingular X Y) (ex : (x : ZMod P) = X) (ey : (y : ZMod P) = Y) :
    G1.onCurve ⟨x, y, false⟩ = true ∧ toPt ⟨x, y, false⟩ = .some X Y h := by
  subst ex ey
  exact ⟨onCurve_mk.mpr ⟨hx, hy, (nonsingular_iff _ _).mp h⟩, toPt_mk h⟩

theorem nonsingular_of_onCurve {p : G1Pt} (hc : G1.onCurve p = true) (hi : p.inf = false) :
    E1.toAffine.Nonsingular (p.x : ZMod P) (p.y : ZMod P) := by
  have := (onCurve_iff p).mp hc
  rw [if_neg (by simp [hi])] at this
  exact (nonsingular_iff _ _).mpr this.2.2

theorem toPt_some {p : G1Pt} (hc : G1.onCurve p = true) (hi : p.inf = false) :
    toPt p = .some _ _ (nonsingular_of_onCurve hc hi) := by
  unfold toPt
  rw [dif_pos ⟨hi, nonsingular_of_onCurve hc hi⟩]

theorem toPt_eq_zero_iff {p : G1Pt} (hc : G1.onCurve p = true) : toPt p = 0 ↔ p.inf = true := by
  refine ⟨fun h => ?_, toPt_inf⟩
  by_contra hi
  rw [toPt_some hc (by simpa using hi)] at h
  exact Affine.Point.some_ne_zero _ h

/-- `toPt` is injective on the points accepted by `G1.onCurve`. -/
theorem toPt_injOn {p q : G1Pt} (hp : G1.onCurve p = true) (hq : G1.onCurve q = true)
    (h : toPt p = toPt q) : p = q := by
  by_cases hpi : p.inf = true
  · have hq0 : toPt q = 0 := by rw [← h, toPt_inf hpi]
    rw [onCurve_inf hp hpi, onCurve_inf hq ((toPt_eq_zero_iff hq).mp hq0)]
  · have hpi' : p.inf = false := by simpa using hpi
    have hqi' : q.inf = false := by
      by_contra hqi
      have : toPt p = 0 := by rw [h, toPt_inf (by simpa using hqi)]
      exact hpi ((toPt_eq_zero_iff hp).mp this)
    rw [toPt_some hp hpi', toPt_some hq hqi'] at h
    injection h with hx hy
    have hp' := (onCurve_iff p).mp hp
    have hq' := (onCurve_iff q).mp hq
    rw [if_neg hpi] at hp'
    rw [if_neg (by simp [hqi'])] at hq'
    obtain ⟨px, py, pi⟩ := p
    obtain ⟨qx, qy, qi⟩ := q
    simp only at *
    rw [cast_inj hp'.1 hq'.1 hx, cast_inj hp'.2.1 hq'.2.1 hy, hpi', hqi']

/-- Every Mathlib point of E1 is denoted by an on-curve triple. -/
theorem toPt_surj (Q : E1.toAffine.Point) : ∃ p, G1.onCurve p = true ∧ toPt p = Q := by
  cases Q with
  | zero => exact ⟨G1Pt.zero, onCurve_zero, toPt_zero⟩
  | some x y h =>
    exact ⟨⟨x.val, y.val, false⟩, of_some (ZMod.val_lt x) (ZMod.val_lt y) h
      (ZMod.natCast_zmod_val x) (ZMod.natCast_zmod_val y)⟩

/-! ### Mathlib's addition formulas on E1 (`a₁ = a₂ = a₃ = a₄ = 0`) -/

theorem slope_dbl {x y : ZMod P} (hy : y ≠ 0) :
    E1.toAffine.slope x x y y = 3 * x ^ 2 * (2 * y)⁻¹ := by
  have hne : y ≠ E1.toAffine.negY x y := by
    rw [negY_eq]
    intro h
    have h2 : 2 * y = 0 := by linear_combination h
    exact mul_ne_zero two_ne_zero' hy h2
  rw [Affine.slope_of_Y_ne rfl hne, negY_eq, div_eq_mul_inv]
  simp only [E1_a₁, E1_a₂, E1_a₄]
  congr 1 <;> ring

theorem slope_chord {x₁ x₂ : ZMod P} (y₁ y₂ : ZMod P) (hx : x₁ ≠ x₂) :
    E1.toAffine.slope x₁ x₂ y₁ y₂ = (y₂ - y₁) * (x₂ - x₁)⁻¹ := by
  rw [Affine.slope_of_X_ne hx, div_eq_mul_inv, ← neg_sub y₂ y₁, ← neg_sub x₂ x₁, inv_neg]
  ring

theorem addX_eq (x₁ x₂ l : ZMod P) : E1.toAffine.addX x₁ x₂ l = l ^ 2 - x₁ - x₂ := by
  simp [Affine.addX]

theorem addY_eq (x₁ x₂ y₁ l : ZMod P) :
    E1.toAffine.addY x₁ x₂ y₁ l = l * (x₁ - (l ^ 2 - x₁ - x₂)) - y₁ := by
  simp only [Affine.addY, negY_eq, Affine.negAddY, addX_eq]
  ring

/-! ### affine operations of the model -/

theorem onCurve_lt {p : G1Pt} (hc : G1.onCurve p = true) (hi : p.inf = false) :
    p.x < P ∧ p.y < P ∧ (p.y : ZMod P) ^ 2 = (p.x : ZMod P) ^ 3 + 4 := by
  have := (onCurve_iff p).mp hc
  rwa [if_neg (by simp [hi])] at this

theorem y_cast_ne_zero {p : G1Pt} (hc : G1.onCurve p = true) (hi : p.inf = false) :
    (p.y : ZMod P) ≠ 0 := y_ne_zero (onCurve_lt hc hi).2.2

theorem neg_spec {p : G1Pt} (hc : G1.onCurve p = true) :
    G1.onCurve (G1.neg p) = true ∧ toPt (G1.neg p) = -toPt p := by
  by_cases hi : p.inf = true
  · unfold G1.neg
    rw [if_pos hi, toPt_inf hi, toPt_zero]
    exact ⟨onCurve_zero, rfl⟩
  · have hi' : p.inf = false := by simpa using hi
    unfold G1.neg
    rw [if_neg hi, toPt_some hc hi', Affine.Point.neg_some]
    exact of_some (onCurve_lt hc hi').1 (neg_lt _) _ rfl (by rw [neg_cast, negY_eq])

theorem double_spec {p : G1Pt} (hc : G1.onCurve p = true) :
    G1.onCurve (G1.double p) = true ∧ toPt (G1.double p) = toPt p + toPt p := by
  by_cases hi : p.inf = true
  · unfold G1.double
    rw [if_pos (by simp [hi]), toPt_inf hi, toPt_zero]
    exact ⟨onCurve_zero, (add_zero _).symm⟩
  · have hi' : p.inf = false := by simpa using hi
    have hy := y_cast_ne_zero hc hi'
    have hy' : p.y ≠ 0 := by
      intro h; rw [h] at hy; exact hy Nat.cast_zero
    have hne : (p.y : ZMod P) ≠ E1.toAffine.negY (p.x : ZMod P) (p.y : ZMod P) := by
      rw [negY_eq]
      intro h
      have h2 : 2 * (p.y : ZMod P) = 0 := by linear_combination h
      exact mul_ne_zero two_ne_zero' hy h2
    unfold G1.double
    rw [if_neg (by simp [hi', hy']), toPt_some hc hi', Affine.Point.add_self_of_Y_ne hne]
    refine of_some (fsub_lt _ _) (fsub_lt _ _) _ ?_ ?_
    · rw [slope_dbl hy, addX_eq]
      simp only [fsub_cast, fmul_cast, sq_cast, finv_cast, Nat.cast_ofNat]
    · rw [slope_dbl hy, addY_eq]
      simp only [fsub_cast, fmul_cast, sq_cast, finv_cast, Nat.cast_ofNat]

theorem add_spec {p q : G1Pt} (hp : G1.onCurve p = true) (hq : G1.onCurve q = true) :
    G1.onCurve (G1.add p q) = true ∧ toPt (G1.add p q) = toPt p + toPt q := by
  unfold G1.add
  by_cases hpi : p.inf = true
  · rw [if_pos hpi, toPt_inf hpi, zero_add]; exact ⟨hq, rfl⟩
  rw [if_neg hpi]
  by_cases hqi : q.inf = true
  · rw [if_pos hqi, toPt_inf hqi, add_zero]; exact ⟨hp, rfl⟩
  rw [if_neg hqi]
  have hpi' : p.inf = false := by simpa using hpi
  have hqi' : q.inf = false := by simpa using hqi
  obtain ⟨hpx, hpy, hpe⟩ := onCurve_lt hp hpi'
  obtain ⟨hqx, hqy, hqe⟩ := onCurve_lt hq hqi'
  by_cases hx : p.x = q.x
  · rw [if_pos (by simpa using hx)]
    by_cases hy : p.y = q.y
    · rw [if_pos (by simpa using hy)]
      have hpq : q = p := by
        obtain ⟨px, py, pi⟩ := p
        obtain ⟨qx, qy, qi⟩ := q
        simp only at hx hy hpi' hqi'
        rw [hx, hy, hpi', hqi']
      rw [hpq]
      exact double_spec hp
    · rw [if_neg (by simpa using hy), toPt_zero, toPt_some hp hpi', toPt_some hq hqi']
      refine ⟨onCurve_zero, (Affine.Point.add_of_Y_eq (by rw [hx]) ?_).symm⟩
      rw [negY_eq]
      have hsq : (p.y : ZMod P) ^ 2 = (q.y : ZMod P) ^ 2 := by rw [hpe, hqe, hx]
      rcases sq_eq_sq_iff_eq_or_eq_neg.mp hsq with h | h
      · exact absurd (cast_inj hpy hqy h) hy
      · exact h
  · rw [if_neg (by simpa using hx)]
    have hxc : (p.x : ZMod P) ≠ (q.x : ZMod P) := fun h => hx (cast_inj hpx hqx h)
    rw [toPt_some hp hpi', toPt_some hq hqi', Affine.Point.add_of_X_ne hxc]
    refine of_some (fsub_lt _ _) (fsub_lt _ _) _ ?_ ?_
    · rw [slope_chord _ _ hxc, addX_eq]
      simp only [fsub_cast, fmul_cast, sq_cast, finv_cast]
    · rw [slope_chord _ _ hxc, addY_eq]
      simp only [fsub_cast, fmul_cast, sq_cast, finv_cast]

theorem onCurve_neg {p : G1Pt} (hc : G1.onCurve p = true) : G1.onCurve (G1.neg p) = true :=
  (neg_spec hc).1
theorem toPt_neg {p : G1Pt} (hc : G1.onCurve p = true) : toPt (G1.neg p) = -toPt p :=
  (neg_spec hc).2
theorem onCurve_double {p : G1Pt} (hc : G1.onCurve p = true) : G1.onCurve (G1.double p) = true :=
  (double_spec hc).1
theorem toPt_double {p : G1Pt} (hc : G1.onCurve p = true) :
    toPt (G1.double p) = toPt p + toPt p := (double_spec hc).2
theorem onCurve_add {p q : G1Pt} (hp : G1.onCurve p = true) (hq : G1.onCurve q = true) :
    G1.onCurve (G1.add p q) = true := (add_spec hp hq).1
theorem toPt_add {p q : G1Pt} (hp : G1.onCurve p = true) (hq : G1.onCurve q = true) :
    toPt (G1.add p q) = toPt p + toPt q := (add_spec hp hq).2

/-- On on-curve points `G1.add p p` is `G1.double p`. -/
theorem add_self {p : G1Pt} (hc : G1.onCurve p = true) : G1.add p p = G1.double p :=
  toPt_injOn (onCurve_add hc hc) (onCurve_double hc) (by rw [toPt_add hc hc, toPt_double hc])

/-! ### rational-function identities behind the Jacobian formulas (any field) -/

section Ids
variable {F : Type*} [Field F]

theorem dbl_x_id {X Y Z : F} (h2 : (2:F) ≠ 0) (hY : Y ≠ 0) (hZ : Z ≠ 0) :
  ((3 * X^2)^2 - 2 * (2 * ((X + Y^2)^2 - X^2 - (Y^2)^2))) * ((2*Y*Z)⁻¹)^2 = (3 * (X * (Z⁻¹)^2)^2 * (2 * (Y * ((Z⁻¹)^2 * Z⁻¹)))⁻¹)^2 - X * (Z⁻¹)^2 - X * (Z⁻¹)^2 := by
  field_simp
  ring

theorem u_eq_iff {X1 Z1 X2 Z2 : F} (h1 : Z1 ≠ 0) (h2 : Z2 ≠ 0) :
    X1 * Z2^2 = X2 * Z1^2 ↔ X1 * (Z1⁻¹)^2 = X2 * (Z2⁻¹)^2 := by
  rw [← sub_eq_zero, ← sub_eq_zero (a := X1 * (Z1⁻¹)^2)]
  have : X1 * (Z1⁻¹)^2 - X2 * (Z2⁻¹)^2 = (X1 * Z2^2 - X2 * Z1^2) * ((Z1*Z2)⁻¹)^2 := by
    field_simp
  rw [this, mul_eq_zero]; simp [h1,h2]

theorem s_eq_iff {Y1 Z1 Y2 Z2 : F} (h1 : Z1 ≠ 0) (h2 : Z2 ≠ 0) :
    Y1 * (Z2 * Z2^2) = Y2 * (Z1 * Z1^2) ↔ Y1 * ((Z1⁻¹)^2 * Z1⁻¹) = Y2 * ((Z2⁻¹)^2 * Z2⁻¹) := by
  rw [← sub_eq_zero, ← sub_eq_zero (a := Y1 * ((Z1⁻¹)^2 * Z1⁻¹))]
  have : Y1 * ((Z1⁻¹)^2 * Z1⁻¹) - Y2 * ((Z2⁻¹)^2 * Z2⁻¹) =
      (Y1 * (Z2 * Z2^2) - Y2 * (Z1 * Z1^2)) * ((Z1*Z2)⁻¹)^3 := by
    field_simp
  rw [this, mul_eq_zero]; simp [h1,h2]

theorem add_x_id {X1 Y1 Z1 X2 Y2 Z2 x1 y1 x2 y2 : F} (h1 : Z1 ≠ 0) (h2 : Z2 ≠ 0) (hd : x2 - x1 ≠ 0)
  (hX1 : X1 = x1 * Z1^2) (hY1 : Y1 = y1 * Z1^3) (hX2 : X2 = x2 * Z2^2) (hY2 : Y2 = y2 * Z2^3) :
  ((Y2 * (Z1 * Z1^2) - Y1 * (Z2 * Z2^2))^2 - (X2 * Z1^2 - X1 * Z2^2) * (X2 * Z1^2 - X1 * Z2^2)^2 - 2 * (X1 * Z2^2 * (X2 * Z1^2 - X1 * Z2^2)^2)) * ((Z1 * Z2 * (X2 * Z1^2 - X1 * Z2^2))⁻¹)^2
   = ((y2 - y1) * (x2 - x1)⁻¹)^2 - x1 - x2 := by
  have hH : X2 * Z1^2 - X1 * Z2^2 = (x2 - x1) * (Z1 * Z2)^2 := by subst hX1 hX2; ring
  have hr : Y2 * (Z1 * Z1^2) - Y1 * (Z2 * Z2^2) = (y2 - y1) * (Z1 * Z2)^3 := by subst hY1 hY2; ring
  have hu : X1 * Z2^2 = x1 * (Z1 * Z2)^2 := by subst hX1; ring
  rw [hH, hr, hu]
  have hx2 : x2 = x1 + (x2 - x1) := by ring
  generalize x2 - x1 = d at hx2 hd ⊢
  generalize y2 - y1 = e
  subst hx2
  field_simp
  ring

theorem add_y_id {X1 Y1 Z1 X2 Y2 Z2 x1 y1 x2 y2 : F} (h1 : Z1 ≠ 0) (h2 : Z2 ≠ 0) (hd : x2 - x1 ≠ 0)
  (hX1 : X1 = x1 * Z1^2) (hY1 : Y1 = y1 * Z1^3) (hX2 : X2 = x2 * Z2^2) (hY2 : Y2 = y2 * Z2^3) :
  ((Y2 * (Z1 * Z1^2) - Y1 * (Z2 * Z2^2)) * (X1 * Z2^2 * (X2 * Z1^2 - X1 * Z2^2)^2 - ((Y2 * (Z1 * Z1^2) - Y1 * (Z2 * Z2^2))^2 - (X2 * Z1^2 - X1 * Z2^2) * (X2 * Z1^2 - X1 * Z2^2)^2 - 2 * (X1 * Z2^2 * (X2 * Z1^2 - X1 * Z2^2)^2))) - Y1 * (Z2 * Z2^2) * ((X2 * Z1^2 - X1 * Z2^2) * (X2 * Z1^2 - X1 * Z2^2)^2)) * (((Z1 * Z2 * (X2 * Z1^2 - X1 * Z2^2))⁻¹)^2 * (Z1 * Z2 * (X2 * Z1^2 - X1 * Z2^2))⁻¹)
   = (y2 - y1) * (x2 - x1)⁻¹ * (x1 - (((y2 - y1) * (x2 - x1)⁻¹)^2 - x1 - x2)) - y1 := by
  have hH : X2 * Z1^2 - X1 * Z2^2 = (x2 - x1) * (Z1 * Z2)^2 := by subst hX1 hX2; ring
  have hr : Y2 * (Z1 * Z1^2) - Y1 * (Z2 * Z2^2) = (y2 - y1) * (Z1 * Z2)^3 := by subst hY1 hY2; ring
  have hu : X1 * Z2^2 = x1 * (Z1 * Z2)^2 := by subst hX1; ring
  have hs : Y1 * (Z2 * Z2^2) = y1 * (Z1 * Z2)^3 := by subst hY1; ring
  rw [hH, hr, hu, hs]
  have hx2 : x2 = x1 + (x2 - x1) := by ring
  generalize x2 - x1 = d at hx2 hd ⊢
  generalize y2 - y1 = e
  subst hx2
  field_simp
  ring

theorem dbl_y_id {X Y Z : F} (h2 : (2:F) ≠ 0) (hY : Y ≠ 0) (hZ : Z ≠ 0) :
  (3 * X^2 * (2 * ((X + Y^2)^2 - X^2 - (Y^2)^2) - ((3 * X^2)^2 - 2 * (2 * ((X + Y^2)^2 - X^2 - (Y^2)^2)))) - 8 * (Y^2)^2) * (((2*Y*Z)⁻¹)^2 * (2*Y*Z)⁻¹)
   = 3 * (X * (Z⁻¹)^2)^2 * (2 * (Y * ((Z⁻¹)^2 * Z⁻¹)))⁻¹ * (X * (Z⁻¹)^2 - ((3 * (X * (Z⁻¹)^2)^2 * (2 * (Y * ((Z⁻¹)^2 * Z⁻¹)))⁻¹)^2 - X * (Z⁻¹)^2 - X * (Z⁻¹)^2)) - Y * ((Z⁻¹)^2 * Z⁻¹) := by
  field_simp
  ring

theorem mix_x_id {X1 Y1 Z1 x1 y1 x2 y2 : F} (h1 : Z1 ≠ 0) (hd : x2 - x1 ≠ 0)
  (hX1 : X1 = x1 * Z1^2) (hY1 : Y1 = y1 * Z1^3) :
  ((y2 * (Z1 * Z1^2) - Y1)^2 - (x2 * Z1^2 - X1) * (x2 * Z1^2 - X1)^2 - 2 * (X1 * (x2 * Z1^2 - X1)^2)) * ((Z1 * (x2 * Z1^2 - X1))⁻¹)^2
   = ((y2 - y1) * (x2 - x1)⁻¹)^2 - x1 - x2 := by
  have hH : x2 * Z1^2 - X1 = (x2 - x1) * Z1^2 := by subst hX1; ring
  have hr : y2 * (Z1 * Z1^2) - Y1 = (y2 - y1) * Z1^3 := by subst hY1; ring
  rw [hH, hr, hX1]
  have hx2 : x2 = x1 + (x2 - x1) := by ring
  generalize x2 - x1 = d at hx2 hd ⊢
  generalize y2 - y1 = e
  subst hx2
  field_simp
  ring

theorem mix_y_id {X1 Y1 Z1 x1 y1 x2 y2 : F} (h1 : Z1 ≠ 0) (hd : x2 - x1 ≠ 0)
  (hX1 : X1 = x1 * Z1^2) (hY1 : Y1 = y1 * Z1^3) :
  ((y2 * (Z1 * Z1^2) - Y1) * (X1 * (x2 * Z1^2 - X1)^2 - ((y2 * (Z1 * Z1^2) - Y1)^2 - (x2 * Z1^2 - X1) * (x2 * Z1^2 - X1)^2 - 2 * (X1 * (x2 * Z1^2 - X1)^2))) - Y1 * ((x2 * Z1^2 - X1) * (x2 * Z1^2 - X1)^2)) * (((Z1 * (x2 * Z1^2 - X1))⁻¹)^2 * (Z1 * (x2 * Z1^2 - X1))⁻¹)
   = (y2 - y1) * (x2 - x1)⁻¹ * (x1 - (((y2 - y1) * (x2 - x1)⁻¹)^2 - x1 - x2)) - y1 := by
  have hH : x2 * Z1^2 - X1 = (x2 - x1) * Z1^2 := by subst hX1; ring
  have hr : y2 * (Z1 * Z1^2) - Y1 = (y2 - y1) * Z1^3 := by subst hY1; ring
  rw [hH, hr, hX1, hY1]
  have hx2 : x2 = x1 + (x2 - x1) := by ring
  generalize x2 - x1 = d at hx2 hd ⊢
  generalize y2 - y1 = e
  subst hx2
  field_simp
  ring

theorem mix_u_iff {X1 Z1 x2 : F} (h1 : Z1 ≠ 0) : X1 = x2 * Z1^2 ↔ X1 * (Z1⁻¹)^2 = x2 := by
  constructor
  · intro h; rw [h]; field_simp
  · intro h; rw [← h]; field_simp

theorem mix_s_iff {Y1 Z1 y2 : F} (h1 : Z1 ≠ 0) :
    Y1 = y2 * (Z1 * Z1^2) ↔ Y1 * ((Z1⁻¹)^2 * Z1⁻¹) = y2 := by
  constructor
  · intro h; rw [h]; field_simp
  · intro h; rw [← h]; field_simp

end Ids

/-! ### Jacobian coordinates -/

/-- Reduced Jacobian triple. Every function of `G1.Jac` returns one (given reduced inputs). -/
def Red (j : G1.Jac) : Prop := j.X < P ∧ j.Y < P ∧ j.Z < P

theorem cast_ne_zero {n : Nat} (h : n < P) (h0 : n ≠ 0) : (n : ZMod P) ≠ 0 :=
  fun hc => h0 (cast_eq_zero h hc)

theorem ne_zero_of_cast {n : Nat} (h : (n : ZMod P) ≠ 0) : n ≠ 0 := by
  rintro rfl; exact h Nat.cast_zero

theorem toAffine_of_Z_eq {j : G1.Jac} (h : j.Z = 0) : j.toAffine = G1Pt.zero := by
  unfold G1.Jac.toAffine
  rw [if_pos (by simpa using h)]

theorem toAffine_of_Z_ne {j : G1.Jac} (h : j.Z ≠ 0) : j.toAffine =
    ⟨Fp.mul j.X (Fp.sq (Fp.inv j.Z)), Fp.mul j.Y (Fp.mul (Fp.sq (Fp.inv j.Z)) (Fp.inv j.Z)),
      false⟩ := by
  unfold G1.Jac.toAffine
  rw [if_neg (by simpa using h)]

theorem pt_ext {x y x' y' : Nat} (hx : x < P) (hx' : x' < P) (hy : y < P) (hy' : y' < P)
    (ex : (x : ZMod P) = x') (ey : (y : ZMod P) = y') :
    (⟨x, y, false⟩ : G1Pt) = ⟨x', y', false⟩ := by
  rw [cast_inj hx hx' ex, cast_inj hy hy' ey]

theorem red_zero : Red G1.Jac.zero := by
  refine ⟨?_, ?_, ?_⟩ <;> decide

theorem dbl_red (j : G1.Jac) : Red (G1.Jac.dbl j) := ⟨fsub_lt _ _, fsub_lt _ _, fmul_lt _ _⟩

theorem dbl_Z_cast (j : G1.Jac) : ((G1.Jac.dbl j).Z : ZMod P) = 2 * j.Y * j.Z := by
  show ((Fp.mul (Fp.mul 2 j.Y) j.Z : Nat) : ZMod P) = _
  simp only [fmul_cast, Nat.cast_ofNat]

/-- Jacobian doubling is affine doubling (a rational-function identity: no curve equation needed). -/
theorem dbl_toAffine {j : G1.Jac} (hZ : j.Z < P) :
    (G1.Jac.dbl j).toAffine = G1.double j.toAffine := by
  by_cases hz : j.Z = 0
  · have h3 : (G1.Jac.dbl j).Z = 0 := by
      show Fp.mul (Fp.mul 2 j.Y) j.Z = 0
      rw [hz]; simp [Fp.mul]
    rw [toAffine_of_Z_eq h3, toAffine_of_Z_eq hz]; rfl
  · have hzc := cast_ne_zero hZ hz
    rw [toAffine_of_Z_ne hz]
    by_cases hy : (j.Y : ZMod P) = 0
    · have h3 : (G1.Jac.dbl j).Z = 0 :=
        cast_eq_zero (fmul_lt _ _) (by rw [dbl_Z_cast, hy]; ring)
      rw [toAffine_of_Z_eq h3]
      unfold G1.double
      rw [if_pos]
      simp only [Bool.false_or, beq_iff_eq]
      exact cast_eq_zero (fmul_lt _ _) (by rw [fmul_cast, hy, zero_mul])
    · have h3 : (G1.Jac.dbl j).Z ≠ 0 := ne_zero_of_cast (by
        rw [dbl_Z_cast]; exact mul_ne_zero (mul_ne_zero two_ne_zero' hy) hzc)
      rw [toAffine_of_Z_ne h3]
      have hyA : Fp.mul j.Y (Fp.mul (Fp.sq (Fp.inv j.Z)) (Fp.inv j.Z)) ≠ 0 := ne_zero_of_cast (by
        simp only [fmul_cast, sq_cast, finv_cast]
        exact mul_ne_zero hy (mul_ne_zero (pow_ne_zero _ (inv_ne_zero hzc)) (inv_ne_zero hzc)))
      unfold G1.double
      rw [if_neg (by simpa using hyA)]
      simp only []
      apply pt_ext (fmul_lt _ _) (fsub_lt _ _) (fmul_lt _ _) (fsub_lt _ _)
      · simp only [G1.Jac.dbl, fsub_cast, fmul_cast, fadd_cast, sq_cast, finv_cast, Nat.cast_ofNat]
        exact dbl_x_id two_ne_zero' hy hzc
      · simp only [G1.Jac.dbl, fsub_cast, fmul_cast, fadd_cast, sq_cast, finv_cast, Nat.cast_ofNat]
        exact dbl_y_id two_ne_zero' hy hzc

theorem add_red {a b : G1.Jac} (ha : Red a) (hb : Red b) : Red (G1.Jac.add a b) := by
  unfold G1.Jac.add
  split
  · exact hb
  · split
    · exact ha
    · simp only []
      split
      · split
        · exact dbl_red _
        · exact red_zero
      · exact ⟨fsub_lt _ _, fsub_lt _ _, fmul_lt _ _⟩

theorem inv_cube_ne {z : ZMod P} (h : z ≠ 0) : z⁻¹ ^ 2 * z⁻¹ ≠ 0 :=
  mul_ne_zero (pow_ne_zero _ (inv_ne_zero h)) (inv_ne_zero h)

/-- Jacobian addition is affine addition (rational-function identities; all branches). -/
theorem add_toAffine {a b : G1.Jac} (ha : a.Z < P) (hb : b.Z < P) :
    (G1.Jac.add a b).toAffine = G1.add a.toAffine b.toAffine := by
  unfold G1.Jac.add
  by_cases haz : a.Z = 0
  · rw [if_pos (by simpa using haz), toAffine_of_Z_eq haz]; rfl
  rw [if_neg (by simpa using haz)]
  by_cases hbz : b.Z = 0
  · rw [if_pos (by simpa using hbz), toAffine_of_Z_eq hbz, toAffine_of_Z_ne haz]; rfl
  rw [if_neg (by simpa using hbz)]
  simp only []
  have hac := cast_ne_zero ha haz
  have hbc := cast_ne_zero hb hbz
  have hxiff : Fp.mul a.X (Fp.sq b.Z) = Fp.mul b.X (Fp.sq a.Z) ↔
      Fp.mul a.X (Fp.sq (Fp.inv a.Z)) = Fp.mul b.X (Fp.sq (Fp.inv b.Z)) := by
    constructor
    · intro h
      apply cast_inj (fmul_lt _ _) (fmul_lt _ _)
      have h' := congrArg (Nat.cast : ℕ → ZMod P) h
      simp only [fmul_cast, sq_cast, finv_cast] at h' ⊢
      exact (u_eq_iff hac hbc).mp h'
    · intro h
      apply cast_inj (fmul_lt _ _) (fmul_lt _ _)
      have h' := congrArg (Nat.cast : ℕ → ZMod P) h
      simp only [fmul_cast, sq_cast, finv_cast] at h' ⊢
      exact (u_eq_iff hac hbc).mpr h'
  have hyiff : Fp.mul a.Y (Fp.mul b.Z (Fp.sq b.Z)) = Fp.mul b.Y (Fp.mul a.Z (Fp.sq a.Z)) ↔
      Fp.mul a.Y (Fp.mul (Fp.sq (Fp.inv a.Z)) (Fp.inv a.Z)) =
        Fp.mul b.Y (Fp.mul (Fp.sq (Fp.inv b.Z)) (Fp.inv b.Z)) := by
    constructor
    · intro h
      apply cast_inj (fmul_lt _ _) (fmul_lt _ _)
      have h' := congrArg (Nat.cast : ℕ → ZMod P) h
      simp only [fmul_cast, sq_cast, finv_cast] at h' ⊢
      exact (s_eq_iff hac hbc).mp h'
    · intro h
      apply cast_inj (fmul_lt _ _) (fmul_lt _ _)
      have h' := congrArg (Nat.cast : ℕ → ZMod P) h
      simp only [fmul_cast, sq_cast, finv_cast] at h' ⊢
      exact (s_eq_iff hac hbc).mpr h'
  by_cases hu : Fp.mul a.X (Fp.sq b.Z) = Fp.mul b.X (Fp.sq a.Z)
  · rw [if_pos (by simpa using hu)]
    have hx := hxiff.mp hu
    by_cases hs : Fp.mul a.Y (Fp.mul b.Z (Fp.sq b.Z)) = Fp.mul b.Y (Fp.mul a.Z (Fp.sq a.Z))
    · rw [if_pos (by simpa using hs), dbl_toAffine ha, toAffine_of_Z_ne haz, toAffine_of_Z_ne hbz]
      have hy := hyiff.mp hs
      unfold G1.add
      simp only [Bool.false_eq_true, if_false]
      rw [if_pos (by simpa using hx), if_pos (by simpa using hy)]
    · rw [if_neg (by simpa using hs), toAffine_of_Z_eq (j := G1.Jac.zero) rfl,
        toAffine_of_Z_ne haz, toAffine_of_Z_ne hbz]
      have hy := fun h => hs (hyiff.mpr h)
      unfold G1.add
      simp only [Bool.false_eq_true, if_false]
      rw [if_pos (by simpa using hx), if_neg (by simpa using hy)]
  · rw [if_neg (by simpa using hu)]
    have hx := fun h => hu (hxiff.mpr h)
    have hH : ((Fp.sub (Fp.mul b.X (Fp.sq a.Z)) (Fp.mul a.X (Fp.sq b.Z)) : Nat) : ZMod P) ≠ 0 := by
      intro h
      apply hu
      apply cast_inj (fmul_lt _ _) (fmul_lt _ _)
      rw [fsub_cast] at h
      exact (sub_eq_zero.mp h).symm
    have hd : ((Fp.mul b.X (Fp.sq (Fp.inv b.Z)) : Nat) : ZMod P) -
        ((Fp.mul a.X (Fp.sq (Fp.inv a.Z)) : Nat) : ZMod P) ≠ 0 := by
      intro h
      exact hx (cast_inj (fmul_lt _ _) (fmul_lt _ _) (sub_eq_zero.mp h).symm)
    have hz3 : Fp.mul (Fp.mul a.Z b.Z)
        (Fp.sub (Fp.mul b.X (Fp.sq a.Z)) (Fp.mul a.X (Fp.sq b.Z))) ≠ 0 := ne_zero_of_cast (by
      rw [fmul_cast, fmul_cast]; exact mul_ne_zero (mul_ne_zero hac hbc) hH)
    rw [toAffine_of_Z_ne hz3, toAffine_of_Z_ne haz, toAffine_of_Z_ne hbz]
    unfold G1.add
    simp only [Bool.false_eq_true, if_false]
    rw [if_neg (by simpa using hx)]
    have e1 : (a.X : ZMod P) = (a.X : ZMod P) * ((a.Z : ZMod P)⁻¹) ^ 2 * (a.Z : ZMod P) ^ 2 := by
      field_simp
    have e2 : (a.Y : ZMod P) =
        (a.Y : ZMod P) * (((a.Z : ZMod P)⁻¹) ^ 2 * (a.Z : ZMod P)⁻¹) * (a.Z : ZMod P) ^ 3 := by
      field_simp
    have e3 : (b.X : ZMod P) = (b.X : ZMod P) * ((b.Z : ZMod P)⁻¹) ^ 2 * (b.Z : ZMod P) ^ 2 := by
      field_simp
    have e4 : (b.Y : ZMod P) =
        (b.Y : ZMod P) * (((b.Z : ZMod P)⁻¹) ^ 2 * (b.Z : ZMod P)⁻¹) * (b.Z : ZMod P) ^ 3 := by
      field_simp
    simp only [fmul_cast, sq_cast, finv_cast] at hd
    apply pt_ext (fmul_lt _ _) (fsub_lt _ _) (fmul_lt _ _) (fsub_lt _ _)
    · simp only [fsub_cast, fmul_cast, sq_cast, finv_cast, Nat.cast_ofNat]
      exact add_x_id hac hbc hd e1 e2 e3 e4
    · simp only [fsub_cast, fmul_cast, sq_cast, finv_cast, Nat.cast_ofNat]
      exact add_y_id hac hbc hd e1 e2 e3 e4

theorem one_lt_P : 1 < P := P_prime.one_lt

theorem addAffine_red {a : G1.Jac} {q : G1Pt} (ha : Red a) (hq : G1.onCurve q = true) :
    Red (G1.Jac.addAffine a q) := by
  unfold G1.Jac.addAffine
  split
  · exact ha
  · rename_i hqi
    have hqi' : q.inf = false := by simpa using hqi
    split
    · exact ⟨(onCurve_lt hq hqi').1, (onCurve_lt hq hqi').2.1, one_lt_P⟩
    · simp only []
      split
      · split
        · exact dbl_red _
        · exact red_zero
      · exact ⟨fsub_lt _ _, fsub_lt _ _, fmul_lt _ _⟩

/-- Mixed Jacobian + affine addition is affine addition. -/
theorem addAffine_toAffine {a : G1.Jac} {q : G1Pt} (ha : Red a) (hq : G1.onCurve q = true) :
    (G1.Jac.addAffine a q).toAffine = G1.add a.toAffine q := by
  obtain ⟨haX, haY, haZ⟩ := ha
  unfold G1.Jac.addAffine
  by_cases hqi : q.inf = true
  · rw [if_pos hqi, onCurve_inf hq hqi]
    by_cases haz : a.Z = 0
    · rw [toAffine_of_Z_eq haz]; rfl
    · rw [toAffine_of_Z_ne haz]; rfl
  rw [if_neg hqi]
  have hqi' : q.inf = false := by simpa using hqi
  obtain ⟨hqx, hqy, -⟩ := onCurve_lt hq hqi'
  have hqe : q = ⟨q.x, q.y, false⟩ := by
    obtain ⟨x, y, i⟩ := q
    simp only at hqi'
    rw [hqi']
  by_cases haz : a.Z = 0
  · rw [if_pos (by simpa using haz), toAffine_of_Z_eq haz,
      toAffine_of_Z_ne (j := ⟨q.x, q.y, 1⟩) Nat.one_ne_zero]
    show _ = q
    rw [hqe]
    apply pt_ext (fmul_lt _ _) hqx (fmul_lt _ _) hqy
    · simp only [fmul_cast, sq_cast, finv_cast, Nat.cast_one, inv_one, one_pow, mul_one]
    · simp only [fmul_cast, sq_cast, finv_cast, Nat.cast_one, inv_one, one_pow, mul_one]
  rw [if_neg (by simpa using haz)]
  simp only []
  have hac := cast_ne_zero haZ haz
  have hxiff : a.X = Fp.mul q.x (Fp.sq a.Z) ↔ Fp.mul a.X (Fp.sq (Fp.inv a.Z)) = q.x := by
    constructor
    · intro h
      apply cast_inj (fmul_lt _ _) hqx
      have h' := congrArg (Nat.cast : ℕ → ZMod P) h
      simp only [fmul_cast, sq_cast, finv_cast] at h' ⊢
      exact (mix_u_iff hac).mp h'
    · intro h
      apply cast_inj haX (fmul_lt _ _)
      have h' := congrArg (Nat.cast : ℕ → ZMod P) h
      simp only [fmul_cast, sq_cast, finv_cast] at h' ⊢
      exact (mix_u_iff hac).mpr h'
  have hyiff : a.Y = Fp.mul q.y (Fp.mul a.Z (Fp.sq a.Z)) ↔
      Fp.mul a.Y (Fp.mul (Fp.sq (Fp.inv a.Z)) (Fp.inv a.Z)) = q.y := by
    constructor
    · intro h
      apply cast_inj (fmul_lt _ _) hqy
      have h' := congrArg (Nat.cast : ℕ → ZMod P) h
      simp only [fmul_cast, sq_cast, finv_cast] at h' ⊢
      exact (mix_s_iff hac).mp h'
    · intro h
      apply cast_inj haY (fmul_lt _ _)
      have h' := congrArg (Nat.cast : ℕ → ZMod P) h
      simp only [fmul_cast, sq_cast, finv_cast] at h' ⊢
      exact (mix_s_iff hac).mpr h'
  by_cases hu : a.X = Fp.mul q.x (Fp.sq a.Z)
  · rw [if_pos (by simpa using hu)]
    have hx := hxiff.mp hu
    by_cases hs : a.Y = Fp.mul q.y (Fp.mul a.Z (Fp.sq a.Z))
    · rw [if_pos (by simpa using hs), dbl_toAffine haZ, toAffine_of_Z_ne haz]
      have hy := hyiff.mp hs
      unfold G1.add
      simp only [Bool.false_eq_true, if_false]
      rw [if_neg hqi, if_pos (by simpa using hx), if_pos (by simpa using hy)]
    · rw [if_neg (by simpa using hs), toAffine_of_Z_eq (j := G1.Jac.zero) rfl,
        toAffine_of_Z_ne haz]
      have hy := fun h => hs (hyiff.mpr h)
      unfold G1.add
      simp only [Bool.false_eq_true, if_false]
      rw [if_neg hqi, if_pos (by simpa using hx), if_neg (by simpa using hy)]
  · rw [if_neg (by simpa using hu)]
    have hx := fun h => hu (hxiff.mpr h)
    have hH : ((Fp.sub (Fp.mul q.x (Fp.sq a.Z)) a.X : Nat) : ZMod P) ≠ 0 := by
      intro h
      apply hu
      apply cast_inj haX (fmul_lt _ _)
      rw [fsub_cast] at h
      exact (sub_eq_zero.mp h).symm
    have hd : (q.x : ZMod P) - ((Fp.mul a.X (Fp.sq (Fp.inv a.Z)) : Nat) : ZMod P) ≠ 0 := by
      intro h
      exact hx (cast_inj (fmul_lt _ _) hqx (sub_eq_zero.mp h).symm)
    have hz3 : Fp.mul a.Z (Fp.sub (Fp.mul q.x (Fp.sq a.Z)) a.X) ≠ 0 := ne_zero_of_cast (by
      rw [fmul_cast]; exact mul_ne_zero hac hH)
    rw [toAffine_of_Z_ne hz3, toAffine_of_Z_ne haz]
    unfold G1.add
    simp only [Bool.false_eq_true, if_false]
    rw [if_neg hqi, if_neg (by simpa using hx)]
    have e1 : (a.X : ZMod P) = (a.X : ZMod P) * ((a.Z : ZMod P)⁻¹) ^ 2 * (a.Z : ZMod P) ^ 2 := by
      field_simp
    have e2 : (a.Y : ZMod P) =
        (a.Y : ZMod P) * (((a.Z : ZMod P)⁻¹) ^ 2 * (a.Z : ZMod P)⁻¹) * (a.Z : ZMod P) ^ 3 := by
      field_simp
    simp only [fmul_cast, sq_cast, finv_cast] at hd
    apply pt_ext (fmul_lt _ _) (fsub_lt _ _) (fmul_lt _ _) (fsub_lt _ _)
    · simp only [fsub_cast, fmul_cast, sq_cast, finv_cast, Nat.cast_ofNat]
      exact mix_x_id hac hd e1 e2
    · simp only [fsub_cast, fmul_cast, sq_cast, finv_cast, Nat.cast_ofNat]
      exact mix_y_id hac hd e1 e2

/-! ### scalar multiplication, multi-scalar multiplication, subgroup test -/

theorem toAffine_zero : G1.Jac.zero.toAffine = G1Pt.zero := toAffine_of_Z_eq rfl

/-- Invariant of double-and-add: reduced triple, on the curve, denotes `n • P`. -/
theorem mulAux_spec {p : G1Pt} (hp : G1.onCurve p = true) : ∀ fuel n, n < 2 ^ fuel →
    Red (G1.Jac.mulAux p fuel n) ∧ G1.onCurve (G1.Jac.mulAux p fuel n).toAffine = true ∧
      toPt (G1.Jac.mulAux p fuel n).toAffine = n • toPt p := by
  intro fuel
  induction fuel with
  | zero =>
    intro n hn
    have hn0 : n = 0 := by simpa using hn
    subst hn0
    rw [G1.Jac.mulAux, toAffine_zero, toPt_zero, zero_nsmul]
    exact ⟨red_zero, onCurve_zero, rfl⟩
  | succ fuel ih =>
    intro n hn
    rw [G1.Jac.mulAux]
    by_cases hn0 : n = 0
    · subst hn0
      rw [if_pos (by rfl), toAffine_zero, toPt_zero, zero_nsmul]
      exact ⟨red_zero, onCurve_zero, rfl⟩
    rw [if_neg (by simpa using hn0)]
    simp only []
    have h2 : n / 2 < 2 ^ fuel := by rw [Nat.pow_succ] at hn; omega
    obtain ⟨hr, hc, ht⟩ := ih (n / 2) h2
    have hdr := dbl_red (G1.Jac.mulAux p fuel (n / 2))
    have hda := dbl_toAffine hr.2.2
    have hdc : G1.onCurve (G1.Jac.dbl (G1.Jac.mulAux p fuel (n / 2))).toAffine = true := by
      rw [hda]; exact onCurve_double hc
    have hdt : toPt (G1.Jac.dbl (G1.Jac.mulAux p fuel (n / 2))).toAffine =
        (n / 2 + n / 2) • toPt p := by
      rw [hda, toPt_double hc, ht, add_nsmul]
    by_cases hodd : n % 2 = 1
    · rw [if_pos (by simpa using hodd)]
      refine ⟨addAffine_red hdr hp, ?_, ?_⟩
      · rw [addAffine_toAffine hdr hp]; exact onCurve_add hdc hp
      · rw [addAffine_toAffine hdr hp, toPt_add hdc hp, hdt, ← succ_nsmul]
        congr 1; omega
    · rw [if_neg (by simpa using hodd)]
      refine ⟨hdr, hdc, ?_⟩
      rw [hdt]; congr 1; omega

theorem jacMul_spec {p : G1Pt} (hp : G1.onCurve p = true) (n : Nat) :
    Red (G1.Jac.mul n p) ∧ G1.onCurve (G1.mul n p) = true ∧ toPt (G1.mul n p) = n • toPt p :=
  mulAux_spec hp _ _ Nat.lt_log2_self

theorem onCurve_mul {p : G1Pt} (hp : G1.onCurve p = true) (n : Nat) :
    G1.onCurve (G1.mul n p) = true := (jacMul_spec hp n).2.1

/-- `G1.mul n` is `n • ·` of the elliptic-curve group, for every natural `n`. -/
theorem toPt_mul {p : G1Pt} (hp : G1.onCurve p = true) (n : Nat) :
    toPt (G1.mul n p) = n • toPt p := (jacMul_spec hp n).2.2

theorem msm_fold (l : List (Nat × G1Pt)) : (∀ sp ∈ l, G1.onCurve sp.2 = true) →
    ∀ acc : G1.Jac, Red acc → G1.onCurve acc.toAffine = true →
    Red (l.foldl (fun acc sp => G1.Jac.add acc (G1.Jac.mul sp.1 sp.2)) acc) ∧
    G1.onCurve (l.foldl (fun acc sp => G1.Jac.add acc (G1.Jac.mul sp.1 sp.2)) acc).toAffine = true ∧
    toPt (l.foldl (fun acc sp => G1.Jac.add acc (G1.Jac.mul sp.1 sp.2)) acc).toAffine =
      toPt acc.toAffine + (l.map fun sp => sp.1 • toPt sp.2).sum := by
  induction l with
  | nil => intro _ acc hr hc; simpa using ⟨hr, hc⟩
  | cons sp l ih =>
    intro hl acc hr hc
    have hsp : G1.onCurve sp.2 = true := hl sp (List.mem_cons_self ..)
    obtain ⟨hmr, hmc, hmt⟩ := jacMul_spec hsp sp.1
    unfold G1.mul at hmc hmt
    have hta := add_toAffine (a := acc) (b := G1.Jac.mul sp.1 sp.2) hr.2.2 hmr.2.2
    have hc' : G1.onCurve (G1.Jac.add acc (G1.Jac.mul sp.1 sp.2)).toAffine = true := by
      rw [hta]; exact onCurve_add hc hmc
    obtain ⟨h1, h2, h3⟩ := ih (fun x hx => hl x (List.mem_cons_of_mem _ hx)) _ (add_red hr hmr) hc'
    rw [List.foldl_cons]
    refine ⟨h1, h2, ?_⟩
    rw [h3, hta, toPt_add hc hmc, List.map_cons, List.sum_cons, add_assoc, hmt]

theorem onCurve_msm {l : List (Nat × G1Pt)} (hl : ∀ sp ∈ l, G1.onCurve sp.2 = true) :
    G1.onCurve (G1.msm l) = true :=
  (msm_fold l hl _ red_zero (by rw [toAffine_zero]; exact onCurve_zero)).2.1

/-- `G1.msm` is the sum `Σ nᵢ • Pᵢ` in the elliptic-curve group. -/
theorem toPt_msm {l : List (Nat × G1Pt)} (hl : ∀ sp ∈ l, G1.onCurve sp.2 = true) :
    toPt (G1.msm l) = (l.map fun sp => sp.1 • toPt sp.2).sum := by
  have := (msm_fold l hl _ red_zero (by rw [toAffine_zero]; exact onCurve_zero)).2.2
  rw [toAffine_zero, toPt_zero, zero_add] at this
  exact this

theorem toAffine_inf_iff (j : G1.Jac) : j.toAffine.inf = true ↔ j.Z = 0 := by
  by_cases h : j.Z = 0
  · rw [toAffine_of_Z_eq h]; exact ⟨fun _ => h, fun _ => rfl⟩
  · rw [toAffine_of_Z_ne h]; simp [h]

/-- The subgroup test `[R]P = O` of the model, in the elliptic-curve group. -/
theorem inSubgroup_iff {p : G1Pt} (hp : G1.onCurve p = true) :
    G1.inSubgroup p = true ↔ R • toPt p = 0 := by
  rw [← toPt_mul hp R, toPt_eq_zero_iff (onCurve_mul hp R)]
  unfold G1.inSubgroup G1.mul
  rw [toAffine_inf_iff, beq_iff_eq]

end Zk.ConcreteG1
