/-
Helper lemmas for C12 (signature update), C10/C11 (generator prefix law) and C07.

Part 1 is stated for the *bare* model (core type classes only, arbitrary `Env`): the generator
loop, `hashToScalar`, `messagesToScalar`, and the panic/err behaviour of `updateSignature`.
Part 2 is in the `Lawful` setting (field of scalars, modules): `calcB_set`, the algebra of one
update step, and `verify` unfolded.

Everything lives in the namespace `Zk.Upd` (other lemma files define lemmas with the same short
names, e.g. `genLoop_length`; the namespace keeps the modules importable together).
-/
import Mathlib.Algebra.BigOperators.Group.List.Basic
import ZkProofs.Lemmas.Sig
import ZkProofs.Events
set_option linter.unusedSectionVars false
set_option linter.unusedSimpArgs false
set_option linter.unusedVariables false
namespace Zk.Upd
open Zk Res

/-! ## Part 1: bare model -/

section bare
variable {S G1 G2 : Type}
variable [Zero S] [One S] [Add S] [Sub S] [Neg S] [Mul S] [DecidableEq S]
variable [Zero G1] [Add G1] [Sub G1] [Neg G1] [SMul S G1] [DecidableEq G1]
variable [Zero G2] [Add G2] [Neg G2] [SMul S G2] [DecidableEq G2]
variable (env : Env S G1 G2) (cs : Suite G1)

/-! ### generators -/

theorem genLoop_ne_err (sd gd : Bytes) : ∀ (n i : Nat) (v : Bytes),
    genLoop env cs sd gd n i v ≠ .err := by
  intro n
  induction n with
  | zero => intro i v; simp [genLoop]
  | succ n ih =>
    intro i v
    simp only [genLoop]
    cases env.expand cs.xof (v ++ i2osp 8 i) sd cs.expandLen with
    | none => simp
    | some v' =>
      simp only
      cases env.hashToG1 cs.xof v' gd with
      | none => simp
      | some g =>
        simp only
        cases hr : genLoop env cs sd gd n (i + 1) v' with
        | ok gs => simp
        | err => exact absurd hr (ih _ _)
        | panic => simp

theorem genLoop_length (sd gd : Bytes) : ∀ (n i : Nat) (v : Bytes) (gs : List G1),
    genLoop env cs sd gd n i v = .ok gs → gs.length = n := by
  intro n
  induction n with
  | zero => intro i v gs h; simp [genLoop] at h; subst h; rfl
  | succ n ih =>
    intro i v gs h
    simp only [genLoop] at h
    cases he : env.expand cs.xof (v ++ i2osp 8 i) sd cs.expandLen with
    | none => rw [he] at h; cases h
    | some v' =>
      rw [he] at h; simp only at h
      cases hg : env.hashToG1 cs.xof v' gd with
      | none => rw [hg] at h; cases h
      | some g =>
        rw [hg] at h; simp only at h
        cases hr : genLoop env cs sd gd n (i + 1) v' with
        | ok gs' => rw [hr] at h; cases h; simp [ih _ _ _ hr]
        | err => rw [hr] at h; cases h
        | panic => rw [hr] at h; cases h

/-- The generator loop run for `k ≤ n` rounds from the same state yields the first `k` outputs
of the `n`-round run. -/
theorem genLoop_prefix (sd gd : Bytes) : ∀ (n k i : Nat) (v : Bytes) (gs : List G1), k ≤ n →
    genLoop env cs sd gd n i v = .ok gs → genLoop env cs sd gd k i v = .ok (gs.take k) := by
  intro n
  induction n with
  | zero =>
    intro k i v gs hk h
    have : k = 0 := by omega
    subst this
    simp [genLoop]
  | succ n ih =>
    intro k i v gs hk h
    cases k with
    | zero => simp [genLoop]
    | succ k =>
      simp only [genLoop] at h ⊢
      cases he : env.expand cs.xof (v ++ i2osp 8 i) sd cs.expandLen with
      | none => rw [he] at h; cases h
      | some v' =>
        rw [he] at h; simp only at h ⊢
        cases hg : env.hashToG1 cs.xof v' gd with
        | none => rw [hg] at h; cases h
        | some g =>
          rw [hg] at h; simp only at h ⊢
          cases hr : genLoop env cs sd gd n (i + 1) v' with
          | ok gs' =>
            rw [hr] at h; cases h
            rw [ih k (i + 1) v' gs' (by omega) hr]
            simp
          | err => rw [hr] at h; cases h
          | panic => rw [hr] at h; cases h

theorem createGenerators_ne_err (n : Nat) (apiId : Option Bytes) :
    createGenerators env cs n apiId ≠ .err := by
  unfold createGenerators
  dsimp only
  cases env.expand cs.xof (apiId.getD [] ++ cs.generatorSeed)
      (apiId.getD [] ++ cs.generatorSeedDst) cs.expandLen with
  | none => simp
  | some v => exact genLoop_ne_err env cs _ _ _ _ _

theorem createGenerators_length (n : Nat) (apiId : Option Bytes) (gs : List G1)
    (h : createGenerators env cs n apiId = .ok gs) : gs.length = n := by
  unfold createGenerators at h
  dsimp only at h
  cases he : env.expand cs.xof (apiId.getD [] ++ cs.generatorSeed)
      (apiId.getD [] ++ cs.generatorSeedDst) cs.expandLen with
  | none => rw [he] at h; cases h
  | some v => rw [he] at h; exact genLoop_length env cs _ _ _ _ _ _ h

theorem createGenerators_prefix (n k : Nat) (hk : k ≤ n) (apiId : Option Bytes) (gs : List G1)
    (h : createGenerators env cs n apiId = .ok gs) :
    createGenerators env cs k apiId = .ok (gs.take k) := by
  unfold createGenerators at h ⊢
  dsimp only at h ⊢
  cases he : env.expand cs.xof (apiId.getD [] ++ cs.generatorSeed)
      (apiId.getD [] ++ cs.generatorSeedDst) cs.expandLen with
  | none => rw [he] at h; cases h
  | some v => rw [he] at h; exact genLoop_prefix env cs _ _ _ _ _ _ _ hk h

theorem Generators.create_ok_iff (n : Nat) (apiId : Option Bytes) (g : Generators G1) :
    Generators.create env cs n apiId = .ok g ↔
      g.base = cs.p1 ∧ createGenerators env cs n apiId = .ok g.values := by
  unfold Generators.create
  cases hc : createGenerators env cs n apiId with
  | ok vs =>
    simp only
    constructor
    · intro h; cases h; exact ⟨rfl, rfl⟩
    · rintro ⟨hb, hv⟩; cases hv; cases g; simp_all
  | err => simp
  | panic => simp

theorem Generators.create_ne_err (n : Nat) (apiId : Option Bytes) :
    Generators.create env cs n apiId ≠ .err := by
  unfold Generators.create
  cases hc : createGenerators env cs n apiId with
  | ok vs => simp
  | err => exact absurd hc (createGenerators_ne_err env cs n apiId)
  | panic => simp

theorem Generators.create_length (n : Nat) (apiId : Option Bytes) (g : Generators G1)
    (h : Generators.create env cs n apiId = .ok g) : g.values.length = n :=
  createGenerators_length env cs n apiId _ ((Generators.create_ok_iff env cs n apiId g).mp h).2

theorem Generators.create_prefix (n k : Nat) (hk : k ≤ n) (apiId : Option Bytes)
    (g : Generators G1) (h : Generators.create env cs n apiId = .ok g) :
    Generators.create env cs k apiId = .ok ⟨g.base, g.values.take k⟩ := by
  obtain ⟨hb, hv⟩ := (Generators.create_ok_iff env cs n apiId g).mp h
  exact (Generators.create_ok_iff env cs k apiId _).mpr
    ⟨hb, createGenerators_prefix env cs n k hk apiId _ hv⟩

/-! ### hashing of messages -/

theorem hashToScalar_ne_panic (msg dst : Bytes) : hashToScalar env cs msg dst ≠ .panic := by
  unfold hashToScalar
  split
  · simp
  · cases env.expand cs.xof msg dst cs.expandLen with
    | none => simp
    | some u => simp only; split <;> simp

theorem mapMessageToScalarAsHash_ne_panic (m a : Bytes) :
    mapMessageToScalarAsHash env cs m a ≠ .panic :=
  hashToScalar_ne_panic env cs _ _

theorem mapRes_length {α β} (f : α → Res β) : ∀ (l : List α) (bs : List β),
    mapRes f l = .ok bs → bs.length = l.length := by
  intro l
  induction l with
  | nil => intro bs h; simp [mapRes] at h; subst h; rfl
  | cons a as ih =>
    intro bs h
    unfold mapRes at h
    cases hfa : f a with
    | ok b =>
      rw [hfa] at h; simp only at h
      cases hr : mapRes f as with
      | ok bs' => rw [hr] at h; cases h; simp [ih bs' hr]
      | err => rw [hr] at h; cases h
      | panic => rw [hr] at h; cases h
    | err => rw [hfa] at h; cases h
    | panic => rw [hfa] at h; cases h

theorem mapRes_cons_ok {α β} (f : α → Res β) (a : α) (as : List α) (bs : List β) :
    mapRes f (a :: as) = .ok bs ↔ ∃ b bs', bs = b :: bs' ∧ f a = .ok b ∧ mapRes f as = .ok bs' := by
  conv_lhs => unfold mapRes
  cases hfa : f a with
  | ok b =>
    simp only
    cases hr : mapRes f as with
    | ok bs' =>
      simp only
      constructor
      · intro h; cases h; exact ⟨b, bs', rfl, rfl, rfl⟩
      · rintro ⟨b', bs'', rfl, hb, hbs⟩; cases hb; cases hbs; rfl
    | err => simp
    | panic => simp
  | err => simp
  | panic => simp

/-- Pointwise reading of `mapRes`. -/
theorem mapRes_getElem {α β} (f : α → Res β) : ∀ (l : List α) (bs : List β),
    mapRes f l = .ok bs → ∀ (i : Nat) (h1 : i < l.length) (h2 : i < bs.length),
      f l[i] = .ok bs[i] := by
  intro l
  induction l with
  | nil => intro bs _ i h1; simp at h1
  | cons a as ih =>
    intro bs h i h1 h2
    obtain ⟨b, bs', rfl, hb, hbs⟩ := (mapRes_cons_ok f a as bs).mp h
    cases i with
    | zero => simpa using hb
    | succ i => simpa using ih bs' hbs i (by simpa using h1) (by simpa using h2)

/-- Replacing one input whose image is known replaces one output. -/
theorem mapRes_set {α β} (f : α → Res β) : ∀ (l : List α) (bs : List β),
    mapRes f l = .ok bs → ∀ (i : Nat) (a : α) (b : β), f a = .ok b →
      mapRes f (l.set i a) = .ok (bs.set i b) := by
  intro l
  induction l with
  | nil => intro bs h i a b _; simp [mapRes] at h; subst h; simp [mapRes]
  | cons x xs ih =>
    intro bs h i a b hab
    obtain ⟨y, ys, rfl, hy, hys⟩ := (mapRes_cons_ok f x xs _).mp h
    cases i with
    | zero =>
      simp only [List.set_cons_zero]
      exact (mapRes_cons_ok f a xs _).mpr ⟨b, ys, rfl, hab, hys⟩
    | succ i =>
      simp only [List.set_cons_succ]
      exact (mapRes_cons_ok f x _ _).mpr ⟨y, _, rfl, hy, ih ys hys i a b hab⟩

/-- Two input lists of equal length with equal images: either the lists are equal or some
position carries two different inputs with the same image. -/
theorem mapRes_eq_collision {α β} (f : α → Res β) : ∀ (l l' : List α) (bs : List β),
    l.length = l'.length → mapRes f l = .ok bs → mapRes f l' = .ok bs →
      l = l' ∨ ∃ a a' b, a ≠ a' ∧ f a = .ok b ∧ f a' = .ok b := by
  intro l
  induction l with
  | nil => intro l' bs hl _ _; left; symm; simpa using hl.symm
  | cons a as ih =>
    intro l' bs hl h h'
    cases l' with
    | nil => simp at hl
    | cons a' as' =>
      obtain ⟨b, bs', rfl, hb, hbs⟩ := (mapRes_cons_ok f a as _).mp h
      obtain ⟨b2, bs2, heq, hb2, hbs2⟩ := (mapRes_cons_ok f a' as' _).mp h'
      obtain ⟨rfl, rfl⟩ := List.cons.inj heq
      by_cases haa : a = a'
      · subst haa
        rcases ih as' bs' (by simpa using hl) hbs hbs2 with h1 | h1
        · left; rw [h1]
        · right; exact h1
      · right; exact ⟨a, a', b, haa, hb, hb2⟩

theorem messagesToScalar_length (msgs : List Bytes) (a : Bytes) (ms : List S)
    (h : messagesToScalar env cs msgs a = .ok ms) : ms.length = msgs.length :=
  mapRes_length _ _ _ h

theorem messagesToScalar_getElem (msgs : List Bytes) (a : Bytes) (ms : List S)
    (h : messagesToScalar env cs msgs a = .ok ms) (i : Nat) (h1 : i < msgs.length)
    (h2 : i < ms.length) : mapMessageToScalarAsHash env cs msgs[i] a = .ok ms[i] :=
  mapRes_getElem _ _ _ h i h1 h2

theorem messagesToScalar_set (msgs : List Bytes) (a : Bytes) (ms : List S)
    (h : messagesToScalar env cs msgs a = .ok ms) (i : Nat) (m : Bytes) (s : S)
    (hm : mapMessageToScalarAsHash env cs m a = .ok s) :
    messagesToScalar env cs (msgs.set i m) a = .ok (ms.set i s) :=
  mapRes_set _ _ _ h i m s hm

/-- Different octet vectors (same length) with the same scalar vector: a hash collision under
the message-to-scalar DST. -/
theorem messagesToScalar_collision (msgs msgs' : List Bytes) (a : Bytes) (ms : List S)
    (hlen : msgs.length = msgs'.length) (hne : msgs ≠ msgs')
    (h : messagesToScalar env cs msgs a = .ok ms) (h' : messagesToScalar env cs msgs' a = .ok ms) :
    HashCollision env cs := by
  rcases mapRes_eq_collision _ msgs msgs' ms hlen h h' with h1 | ⟨x, y, s, hxy, hx, hy⟩
  · exact absurd h1 hne
  · exact ⟨x, y, a ++ cs.mapMsgScalar, s, hxy, hx, hy⟩

/-! ### `updateSignature`: which outcome, when -/

/-- Characterisation of a successful update (bare model, no algebra). -/
theorem updateSignature_ok_iff (σ σ' : Signature S G1) (sk : S) (old new : Bytes) (i n : Nat) :
    updateSignature env cs σ sk old new i n = .ok σ' ↔
      n ≠ 2 ^ 64 - 1 ∧ i < n ∧ ∃ gens oldS newS Hi inv,
        Generators.create env cs (n + 1) (some cs.apiId) = .ok gens ∧
        mapMessageToScalarAsHash env cs old cs.apiId = .ok oldS ∧
        mapMessageToScalarAsHash env cs new cs.apiId = .ok newS ∧
        gens.values.tail[i]? = some Hi ∧
        env.sInv (sk + σ.e) = some inv ∧
        inv • ((sk + σ.e) • σ.A + oldS • (-Hi) + newS • Hi) ≠ 0 ∧
        σ' = ⟨inv • ((sk + σ.e) • σ.A + oldS • (-Hi) + newS • Hi), σ.e⟩ := by
  constructor
  · intro h
    unfold updateSignature at h
    split at h
    · cases h
    · rename_i hg
      have hn : n ≠ 2 ^ 64 - 1 := fun h => hg (Or.inl h)
      have hi : i < n := by
        rcases Nat.lt_or_ge i n with h | h
        · exact h
        · exact absurd (Or.inr h) hg
      refine ⟨hn, hi, ?_⟩
      cases hc : Generators.create env cs (n + 1) (some cs.apiId) with
      | err => rw [hc] at h; cases h
      | panic => rw [hc] at h; cases h
      | ok gens =>
        rw [hc] at h; simp only at h
        split at h
        · cases h
        · cases ho : mapMessageToScalarAsHash env cs old cs.apiId with
          | err => rw [ho] at h; cases h
          | panic => rw [ho] at h; cases h
          | ok oldS =>
            rw [ho] at h; simp only at h
            cases hnw : mapMessageToScalarAsHash env cs new cs.apiId with
            | err => rw [hnw] at h; cases h
            | panic => rw [hnw] at h; cases h
            | ok newS =>
              rw [hnw] at h; simp only at h
              cases hH : gens.values.tail[i]? with
              | none => rw [hH] at h; cases h
              | some Hi =>
                rw [hH] at h; simp only at h
                cases hinv : env.sInv (sk + σ.e) with
                | none => rw [hinv] at h; cases h
                | some inv =>
                  rw [hinv] at h; simp only at h
                  split at h
                  · cases h
                  · rename_i hA
                    cases h
                    exact ⟨gens, oldS, newS, Hi, inv, rfl, rfl, rfl, hH, rfl, hA, rfl⟩
  · rintro ⟨hn, hi, gens, oldS, newS, Hi, inv, hc, ho, hnw, hH, hinv, hA, rfl⟩
    have hlen := Generators.create_length env cs _ _ _ hc
    unfold updateSignature
    rw [if_neg (by omega), hc]
    simp only
    rw [if_neg (by omega), ho]
    simp only
    rw [hnw]
    simp only
    rw [hH]
    simp only
    rw [hinv]
    simp only
    rw [if_neg hA]

/-- An out-of-range position (or the unrepresentable count `usize::MAX`) is refused. -/
theorem updateSignature_bad_index (σ : Signature S G1) (sk : S) (old new : Bytes) (i n : Nat)
    (h : n = 2 ^ 64 - 1 ∨ i ≥ n) : updateSignature env cs σ sk old new i n = .err := by
  unfold updateSignature
  rw [if_pos h]

/-- `updateSignature` panics exactly when the guard passes and the generator expander panics. -/
theorem updateSignature_panic_iff (σ : Signature S G1) (sk : S) (old new : Bytes) (i n : Nat) :
    updateSignature env cs σ sk old new i n = .panic ↔
      n ≠ 2 ^ 64 - 1 ∧ i < n ∧ Generators.create env cs (n + 1) (some cs.apiId) = .panic := by
  unfold updateSignature
  split
  · rename_i hg
    constructor
    · intro h; cases h
    · rintro ⟨h1, h2, _⟩; rcases hg with hg | hg
      · exact absurd hg h1
      · omega
  · rename_i hg
    have hn : n ≠ 2 ^ 64 - 1 := fun h => hg (Or.inl h)
    have hi : i < n := by
      rcases Nat.lt_or_ge i n with h | h
      · exact h
      · exact absurd (Or.inr h) hg
    cases hc : Generators.create env cs (n + 1) (some cs.apiId) with
    | err => simp
    | panic => simp only [and_true]; exact ⟨fun _ => ⟨hn, hi⟩, fun _ => trivial⟩
    | ok gens =>
      simp only
      split
      · simp
      · cases ho : mapMessageToScalarAsHash env cs old cs.apiId with
        | err => simp
        | panic => exact absurd ho (mapMessageToScalarAsHash_ne_panic env cs _ _)
        | ok oldS =>
          simp only
          cases hnw : mapMessageToScalarAsHash env cs new cs.apiId with
          | err => simp
          | panic => exact absurd hnw (mapMessageToScalarAsHash_ne_panic env cs _ _)
          | ok newS =>
            simp only
            cases hH : gens.values.tail[i]? with
            | none => simp
            | some Hi =>
              simp only
              cases hinv : env.sInv (sk + σ.e) with
              | none => simp
              | some inv => simp only; split <;> simp

end bare

/-! ## Part 2: the `Lawful` setting -/

section lawful
variable {S G1 G2 GT : Type} [Field S] [DecidableEq S]
variable [AddCommGroup G1] [Module S G1] [DecidableEq G1]
variable [AddCommGroup G2] [Module S G2] [DecidableEq G2]
variable [AddCommGroup GT] [Module S GT]
variable {env : Env S G1 G2} {pair : G1 →ₗ[S] G2 →ₗ[S] GT}

/-- Replacing one scalar in `Σ mᵢ • Hᵢ` changes the sum by `(x − mᵢ) • Hᵢ`. -/
theorem sum_zip_set (Hs : List G1) : ∀ (ms : List S) (i : Nat) (x : S) (h1 : i < Hs.length)
    (h2 : i < ms.length),
    ((Hs.zip (ms.set i x)).map fun hm => hm.2 • hm.1).sum
      = ((Hs.zip ms).map fun hm => hm.2 • hm.1).sum + (x - ms[i]) • Hs[i] := by
  induction Hs with
  | nil => intro ms i x h1; simp at h1
  | cons H Hs ih =>
    intro ms i x h1 h2
    cases ms with
    | nil => simp at h2
    | cons m ms =>
      cases i with
      | zero =>
        simp only [List.set_cons_zero, List.zip_cons_cons, List.map_cons, List.sum_cons,
          List.getElem_cons_zero]
        module
      | succ i =>
        simp only [List.set_cons_succ, List.zip_cons_cons, List.map_cons, List.sum_cons,
          List.getElem_cons_succ]
        rw [ih ms i x (by simpa using h1) (by simpa using h2)]
        module

/-- `B` after replacing message `i` by `x`: `B' = B + (x − mᵢ) • Hᵢ`, for any domain. -/
theorem calcB_set (base Q1 : G1) (d : S) (Hs : List G1) (ms : List S) (i : Nat) (x : S)
    (h1 : i < Hs.length) (h2 : i < ms.length) :
    calcB base Q1 d Hs (ms.set i x) = calcB base Q1 d Hs ms + (x - ms[i]) • Hs[i] := by
  rw [calcB_eq, calcB_eq, sum_zip_set Hs ms i x h1 h2]
  module

/-- The algebra of one update with an arbitrary stated old scalar `oldS`: the new `A'`
satisfies the verification equation for the intended vector up to `(mᵢ − oldS) • Hᵢ`. -/
theorem update_algebra_gen (base Q1 : G1) (d : S) (Hs : List G1) (ms : List S) (i : Nat)
    (oldS newS k : S) (A : G1) (h1 : i < Hs.length) (h2 : i < ms.length) (hz : k ≠ 0)
    (hA : k • A = calcB base Q1 d Hs ms) :
    k • (k⁻¹ • (k • A + oldS • (-Hs[i]) + newS • Hs[i]))
      = calcB base Q1 d Hs (ms.set i newS) + (ms[i] - oldS) • Hs[i] := by
  rw [smul_smul, mul_inv_cancel₀ hz, one_smul, hA, calcB_set base Q1 d Hs ms i newS h1 h2]
  module

/-- The algebra of one honest update (stated old scalar = the signed one). -/
theorem update_algebra (base Q1 : G1) (d : S) (Hs : List G1) (ms : List S) (i : Nat)
    (newS k : S) (A : G1) (h1 : i < Hs.length) (h2 : i < ms.length) (hz : k ≠ 0)
    (hA : k • A = calcB base Q1 d Hs ms) :
    k • (k⁻¹ • (k • A + ms[i] • (-Hs[i]) + newS • Hs[i]))
      = calcB base Q1 d Hs (ms.set i newS) := by
  rw [update_algebra_gen base Q1 d Hs ms i ms[i] newS k A h1 h2 hz hA, sub_self, zero_smul,
    add_zero]

/-- `verify` unfolded, for the public key `sk • BP2`. -/
theorem verify_ok_iff (hl : Lawful env pair) (cs : Suite G1) (sk : S) (σ : Signature S G1)
    (msgs : List Bytes) (header : Option Bytes) :
    verify env cs σ (sk • env.bp2) (some msgs) header = .ok () ↔
      ∃ ms Q1 Hs d, messagesToScalar env cs msgs cs.apiId = .ok ms ∧
        Generators.create env cs (msgs.length + 1) (some cs.apiId) = .ok ⟨cs.p1, Q1 :: Hs⟩ ∧
        Hs.length = msgs.length ∧ ms.length = msgs.length ∧
        calculateDomain env cs (sk • env.bp2) Q1 Hs header (some cs.apiId) = .ok d ∧
        (sk + σ.e) • σ.A = calcB cs.p1 Q1 d Hs ms := by
  unfold verify
  simp only [Option.getD_some]
  constructor
  · intro h
    cases hm : messagesToScalar env cs msgs cs.apiId with
    | err => rw [hm] at h; cases h
    | panic => rw [hm] at h; cases h
    | ok ms =>
      rw [hm] at h; simp only at h
      cases hg : Generators.create env cs (msgs.length + 1) (some cs.apiId) with
      | err => rw [hg] at h; cases h
      | panic => rw [hg] at h; cases h
      | ok gens =>
        rw [hg] at h; simp only at h
        obtain ⟨Q1, Hs, d, hv, hlen, hd, heq⟩ := (coreVerify_ok_iff hl cs sk σ ms gens _ _).mp h
        have hb := ((Generators.create_ok_iff env cs _ _ gens).mp hg).1
        have hml := messagesToScalar_length env cs _ _ _ hm
        obtain ⟨b, vs⟩ := gens
        simp only at hv hb heq
        subst hv; subst hb
        exact ⟨ms, Q1, Hs, d, rfl, rfl, by omega, hml, hd, heq⟩
  · rintro ⟨ms, Q1, Hs, d, hm, hg, hlen, hml, hd, heq⟩
    rw [hm]; simp only
    rw [hg]; simp only
    exact (coreVerify_ok_iff hl cs sk σ ms _ _ _).mpr
      ⟨Q1, Hs, d, rfl, by omega, hd, heq⟩

end lawful

end Zk.Upd
