/-
Helpers for `MapOnCurve`: the model's `H2C.mapToCurve` (simplified SWU onto the 11-isogenous curve
`E1' : y² = x³ + A'x + B'`, then the 11-isogeny) lands on `E1 : y² = x³ + 4`.

* polynomial arithmetic on coefficient lists mod `P` (`addP, smulP, mulP`) with the evaluation
  homomorphism `ev` to `ZMod P`; `evalPoly_cast : (H2C.evalPoly cs x : ZMod P) = ev cs x`;
* `iso_identity` — the isogeny identity `yNum²·g'·xDen³ = yDen²·(xNum³ + 4·xDen³)` as an equality of
  coefficient lists (64 coefficients; kernel arithmetic);
* `isoMap_onCurve` — a point of `E1'` is mapped into `E1` (or to `O` when a denominator vanishes);
* `sswu_onIso` — `H2C.sswu u` is a reduced point of `E1'`, for every `u`;
* `mapToCurve_onCurve` — `H2C.mapToCurve u` is on `E1`, for every `u`.
-/
import ZkProofs.Lemmas.G1Group
import ZkModel.L0.HashToCurve
import Mathlib.NumberTheory.LegendreSymbol.Basic
import Mathlib.Tactic.FieldSimp
import Mathlib.Tactic.LinearCombination
import Mathlib.Tactic.Ring
namespace Zk.MapToCurve
open Zk Zk.Primes Zk.G1Codec Zk.G2Codec Zk.ConcreteScalar

/-! ### polynomials as coefficient lists (low degree first), mod `P` -/

def addP : List Nat → List Nat → List Nat
  | [], b => b
  | a, [] => a
  | a :: as, b :: bs => (a + b) % P :: addP as bs

def smulP (c : Nat) (a : List Nat) : List Nat := a.map fun x => c * x % P

def mulP : List Nat → List Nat → List Nat
  | [], _ => []
  | a :: as, b => addP (smulP a b) (0 :: mulP as b)

/-- Horner evaluation in `ZMod P`. -/
def ev (cs : List Nat) (x : ZMod P) : ZMod P := cs.foldr (fun c acc => acc * x + (c : ZMod P)) 0

@[simp] theorem ev_nil (x : ZMod P) : ev [] x = 0 := rfl
@[simp] theorem ev_cons (c : Nat) (cs : List Nat) (x : ZMod P) :
    ev (c :: cs) x = ev cs x * x + (c : ZMod P) := rfl

theorem ev_addP (x : ZMod P) : ∀ a b : List Nat, ev (addP a b) x = ev a x + ev b x
  | [], b => by simp [addP]
  | a :: as, [] => by simp [addP]
  | a :: as, b :: bs => by
    simp only [addP, ev_cons, ZMod.natCast_mod, Nat.cast_add, ev_addP x as bs]
    ring

theorem ev_smulP (x : ZMod P) (c : Nat) : ∀ a : List Nat, ev (smulP c a) x = (c : ZMod P) * ev a x
  | [] => by simp [smulP]
  | a :: as => by
    have ih := ev_smulP x c as
    unfold smulP at ih ⊢
    simp only [List.map_cons, ev_cons, ZMod.natCast_mod, Nat.cast_mul, ih]
    ring

theorem ev_mulP (x : ZMod P) : ∀ a b : List Nat, ev (mulP a b) x = ev a x * ev b x
  | [], b => by simp [mulP]
  | a :: as, b => by
    simp only [mulP, ev_addP, ev_smulP, ev_cons, ev_mulP x as b, Nat.cast_zero]
    ring

theorem evalPoly_cast (cs : List Nat) (x : Nat) :
    ((H2C.evalPoly cs x : Nat) : ZMod P) = ev cs (x : ZMod P) := by
  induction cs with
  | nil => simp [H2C.evalPoly]
  | cons c cs ih =>
    have : H2C.evalPoly (c :: cs) x = Fp.add (Fp.mul (H2C.evalPoly cs x) x) c := rfl
    rw [this, fadd_cast, fmul_cast, ih, ev_cons]

theorem evalPoly_lt (cs : List Nat) (x : Nat) : H2C.evalPoly cs x < P := by
  cases cs with
  | nil => exact P_pos
  | cons c cs => exact fadd_lt _ _

/-! ### the isogeny identity -/

/-- `g'(x) = x³ + A'x + B'` as a coefficient list. -/
def gPoly : List Nat := [H2C.isoB, H2C.isoA, 0, 1]

def xDen3 : List Nat := mulP H2C.xDen (mulP H2C.xDen H2C.xDen)

/-- `yNum² · g' · xDen³ = yDen² · (xNum³ + 4·xDen³)`: all 64 coefficients agree mod `P`. -/
theorem iso_identity :
    mulP (mulP H2C.yNum H2C.yNum) (mulP gPoly xDen3)
      = mulP (mulP H2C.yDen H2C.yDen)
          (addP (mulP H2C.xNum (mulP H2C.xNum H2C.xNum)) (smulP 4 xDen3)) := by
  decide +kernel

theorem ev_gPoly (x : ZMod P) :
    ev gPoly x = x ^ 3 + (H2C.isoA : ZMod P) * x + (H2C.isoB : ZMod P) := by
  simp only [gPoly, ev_cons, ev_nil, Nat.cast_zero, Nat.cast_one]
  ring

/-- The identity evaluated at a point. -/
theorem iso_identity_ev (x : ZMod P) :
    ev H2C.yNum x ^ 2 * (x ^ 3 + (H2C.isoA : ZMod P) * x + (H2C.isoB : ZMod P)) * ev H2C.xDen x ^ 3
      = ev H2C.yDen x ^ 2 * (ev H2C.xNum x ^ 3 + 4 * ev H2C.xDen x ^ 3) := by
  have h := congrArg (fun l => ev l x) iso_identity
  simp only [ev_mulP, ev_addP, ev_smulP, xDen3, ev_gPoly] at h
  push_cast at h
  linear_combination h

/-- The curve equation of `E1'` in `ZMod P`. -/
def OnIso (x y : Nat) : Prop :=
  (y : ZMod P) ^ 2 = (x : ZMod P) ^ 3 + (H2C.isoA : ZMod P) * x + (H2C.isoB : ZMod P)

/-- The 11-isogeny maps `E1'` into `E1` (kernel points, where a denominator vanishes, go to `O`). -/
theorem isoMap_onCurve {x y : Nat} (h : OnIso x y) : G1.onCurve (H2C.isoMap (x, y)) = true := by
  unfold H2C.isoMap
  simp only []
  split
  · exact onCurve_zero
  · rename_i hd
    simp only [Bool.or_eq_true, beq_iff_eq, not_or] at hd
    have hxd : ev H2C.xDen (x : ZMod P) ≠ 0 := by
      rw [← evalPoly_cast]; exact ConcreteG1.cast_ne_zero (evalPoly_lt _ _) hd.1
    have hyd : ev H2C.yDen (x : ZMod P) ≠ 0 := by
      rw [← evalPoly_cast]; exact ConcreteG1.cast_ne_zero (evalPoly_lt _ _) hd.2
    refine ConcreteG1.onCurve_mk.mpr ⟨fmul_lt _ _, fmul_lt _ _, ?_⟩
    simp only [fmul_cast, finv_cast, evalPoly_cast]
    have hid := iso_identity_ev (x : ZMod P)
    unfold OnIso at h
    generalize ev H2C.xDen (x : ZMod P) = xd at *
    generalize ev H2C.yDen (x : ZMod P) = yd at *
    generalize ev H2C.xNum (x : ZMod P) = xn at *
    generalize ev H2C.yNum (x : ZMod P) = yn at *
    rw [← h] at hid
    field_simp
    linear_combination hid

/-! ### quadratic residues in `Fp` -/

theorem z_not_sq_aux : modpow 11 (P / 2) P ≠ 1 := by decide +kernel

theorem eleven_ne_zero : (11 : ZMod P) ≠ 0 := by
  intro h
  have h' : ((11 : Nat) : ZMod P) = 0 := by exact_mod_cast h
  rw [ZMod.natCast_eq_zero_iff] at h'
  exact absurd (Nat.le_of_dvd (by decide) h') (by decide)

/-- The SSWU parameter `Z = 11` is a non-square in `Fp`. -/
theorem z_not_sq : ¬ IsSquare (11 : ZMod P) := by
  intro h
  have hf := (ZMod.euler_criterion P eleven_ne_zero).mp h
  have h1 : (((11 : Nat) ^ (P / 2) : Nat) : ZMod P) = ((1 : Nat) : ZMod P) := by
    rw [Nat.cast_pow, Nat.cast_one]; exact_mod_cast hf
  have h2 := (ZMod.natCast_eq_natCast_iff' _ _ _).mp h1
  rw [← modpow_spec, Nat.mod_eq_of_lt P_prime.one_lt] at h2
  exact z_not_sq_aux h2

/-- The product of two non-squares is a square (Euler's criterion). -/
theorem isSquare_mul_of_not {a b : ZMod P} (ha : ¬ IsSquare a) (hb : ¬ IsSquare b) :
    IsSquare (a * b) := by
  have ha0 : a ≠ 0 := fun h => ha (h ▸ IsSquare.zero)
  have hb0 : b ≠ 0 := fun h => hb (h ▸ IsSquare.zero)
  have ea : a ^ (P / 2) = -1 := by
    rcases ZMod.pow_div_two_eq_neg_one_or_one P ha0 with h | h
    · exact absurd ((ZMod.euler_criterion P ha0).mpr h) ha
    · exact h
  have eb : b ^ (P / 2) = -1 := by
    rcases ZMod.pow_div_two_eq_neg_one_or_one P hb0 with h | h
    · exact absurd ((ZMod.euler_criterion P hb0).mpr h) hb
    · exact h
  refine (ZMod.euler_criterion P (mul_ne_zero ha0 hb0)).mpr ?_
  rw [mul_pow, ea, eb]; ring

theorem not_sq_of_none {n : Nat} (h : Fp.sqrt? n = none) : ¬ IsSquare (n : ZMod P) := by
  rintro ⟨z, hz⟩
  obtain ⟨r, hs, -⟩ := fp_sqrt_of_sq (n := n) (z := z) (by rw [hz, sq])
  rw [h] at hs; cases hs

/-- `a^((p+1)/4)` is a root of every square `a`. -/
theorem pow_sqrt {n : Nat} (h : IsSquare (n : ZMod P)) :
    Fp.pow n ((P + 1) / 4) < P ∧ ((Fp.pow n ((P + 1) / 4) : Nat) : ZMod P) ^ 2 = (n : ZMod P) := by
  obtain ⟨z, hz⟩ := h
  obtain ⟨r, hs, hlt, -⟩ := fp_sqrt_of_sq (n := n) (z := z) (by rw [hz, sq])
  have hr : r = Fp.pow n ((P + 1) / 4) := by
    unfold Fp.sqrt? at hs
    simp only [] at hs
    split at hs
    · exact (Option.some.inj hs).symm
    · cases hs
  rw [← hr]
  exact ⟨hlt, (fp_sqrt_some hs).2⟩

theorem finv_lt (a : Nat) : Fp.inv a < P := by
  rw [Fp_inv_spec]; exact Nat.mod_lt _ P_pos

/-! ### simplified SWU -/

theorem isoRhs_lt (x : Nat) : H2C.isoRhs x < P := fadd_lt _ _

theorem isoRhs_cast (x : Nat) : ((H2C.isoRhs x : Nat) : ZMod P)
    = (x : ZMod P) ^ 3 + (H2C.isoA : ZMod P) * x + (H2C.isoB : ZMod P) := by
  unfold H2C.isoRhs
  rw [fadd_cast, fadd_cast, fmul_cast, fmul_cast, sq_cast]; ring

theorem isoA_ne_zero : (H2C.isoA : ZMod P) ≠ 0 :=
  ConcreteG1.cast_ne_zero (by decide) (by decide)

/-- `1 / (Z·A')`. -/
def excW : Nat := 0xaea52ae7093dc2a9262c5ed6dcecc1cc11251b33feedaefc2a209abe35260c66f61ccdb880ab37ecd9f6d4350077488
/-- A root of `g'(B'/(Z·A'))`. -/
def excR : Nat := 0x5be3446f07e910e291153e84f1dabd3dfe5c2b1080d8b6a640425c3826f2a429373f9bab7e8308f6dd10ffa11124dbc

theorem excW_spec : 11 * H2C.isoA * excW % P = 1 % P := by decide +kernel
theorem excR_spec : ((H2C.isoB * excW) ^ 3 + H2C.isoA * (H2C.isoB * excW) + H2C.isoB) % P
    = excR * excR % P := by decide +kernel

/-- `x1 = B'/(Z·A')` of the exceptional case, for any function `iv` computing inverses. -/
theorem x1exc_sq (iv : Nat → Nat) (iv_cast : ∀ a, ((iv a : Nat) : ZMod P) = (a : ZMod P)⁻¹) :
    IsSquare ((H2C.isoRhs (Fp.mul H2C.isoB (iv (Fp.mul H2C.sswuZ H2C.isoA))) : Nat) : ZMod P) := by
  have hw := (ZMod.natCast_eq_natCast_iff' _ _ _).mpr excW_spec
  push_cast at hw
  have h := (ZMod.natCast_eq_natCast_iff' _ _ _).mpr excR_spec
  push_cast at h
  have e : ((H2C.sswuZ : Nat) : ZMod P) = 11 := by unfold H2C.sswuZ; norm_num
  refine ⟨(excR : ZMod P), ?_⟩
  rw [isoRhs_cast, fmul_cast, iv_cast, fmul_cast, e, ← eq_inv_of_mul_eq_one_right hw]
  linear_combination h

/-- The SSWU identity `g'(t·x1) = t³·g'(x1)` for `x1 = −B/A·(1 + 1/(t² + t))`. -/
theorem sswu_key {A B t x1 : ZMod P} (hA : A ≠ 0) (ht : t ^ 2 + t ≠ 0)
    (hx1 : x1 = -B * A⁻¹ * (1 + (t ^ 2 + t)⁻¹)) :
    (t * x1) ^ 3 + A * (t * x1) + B = t ^ 3 * (x1 ^ 3 + A * x1 + B) := by
  have ht0 : t ≠ 0 := by rintro rfl; exact ht (by ring)
  have ht1 : t + 1 ≠ 0 := by intro h; exact ht (by linear_combination t * h)
  have e : t ^ 2 + t = t * (t + 1) := by ring
  rw [e] at hx1
  subst hx1
  field_simp
  ring

/-- In the branch where `g'(x1)` is not a square, `g'(x2)` is, `x2 = Z·u²·x1`. -/
theorem x2_isSquare (iv : Nat → Nat) (iv_cast : ∀ a, ((iv a : Nat) : ZMod P) = (a : ZMod P)⁻¹)
    (iv_lt : ∀ a, iv a < P) (v zu2 tv1 x1 : Nat)
    (hz : zu2 = Fp.mul H2C.sswuZ (Fp.sq v))
    (htv : tv1 = iv (Fp.add (Fp.sq zu2) zu2))
    (hx1 : x1 = if tv1 == 0 then Fp.mul H2C.isoB (iv (Fp.mul H2C.sswuZ H2C.isoA))
      else Fp.mul (Fp.mul (Fp.neg H2C.isoB) (iv H2C.isoA)) (Fp.add 1 tv1))
    (hns : ¬ IsSquare ((H2C.isoRhs x1 : Nat) : ZMod P)) :
    IsSquare ((H2C.isoRhs (Fp.mul zu2 x1) : Nat) : ZMod P) := by
  have e : ((H2C.sswuZ : Nat) : ZMod P) = 11 := by unfold H2C.sswuZ; norm_num
  by_cases h0 : tv1 = 0
  · rw [if_pos (by simp [h0])] at hx1
    exact absurd (hx1 ▸ x1exc_sq iv iv_cast) hns
  · rw [if_neg (by simpa using h0)] at hx1
    have ht : (zu2 : ZMod P) = 11 * (v : ZMod P) ^ 2 := by rw [hz, fmul_cast, sq_cast, e]
    have htv' : (tv1 : ZMod P) = ((zu2 : ZMod P) ^ 2 + zu2)⁻¹ := by
      rw [htv, iv_cast, fadd_cast, sq_cast]
    have hne : (zu2 : ZMod P) ^ 2 + zu2 ≠ 0 := by
      intro h
      have : (tv1 : ZMod P) ≠ 0 := ConcreteG1.cast_ne_zero (htv ▸ iv_lt _) h0
      rw [htv', h, inv_zero] at this
      exact this rfl
    have hx1' : (x1 : ZMod P) = -(H2C.isoB : ZMod P) * (H2C.isoA : ZMod P)⁻¹
        * (1 + ((zu2 : ZMod P) ^ 2 + zu2)⁻¹) := by
      rw [hx1, fmul_cast, fmul_cast, neg_cast, iv_cast, fadd_cast, htv']; norm_num
    have key := sswu_key isoA_ne_zero hne hx1'
    rw [isoRhs_cast] at hns
    rw [isoRhs_cast, fmul_cast, key]
    obtain ⟨s, hs⟩ := isSquare_mul_of_not z_not_sq hns
    exact ⟨11 * (v : ZMod P) ^ 3 * s, by rw [ht]; linear_combination (11 * (v : ZMod P) ^ 3) ^ 2 * hs⟩

theorem good_sign {x y : Nat} (s : Bool) (hy : y < P) (h : OnIso x y) :
    (if s then Fp.neg y else y) < P ∧ OnIso x (if s then Fp.neg y else y) := by
  cases s
  · exact ⟨hy, h⟩
  · refine ⟨neg_lt _, ?_⟩
    unfold OnIso at h ⊢
    simp only [if_true, neg_cast]
    rw [neg_sq]; exact h


/-! ### the two branches of SSWU, on the values the model computes

`sswu_some` / `sswu_none` are the whole mathematical content of "`H2C.sswu u` is a reduced point of `E1'`":
with `v = u % P`, `zu2 = Z·v²`, `tv1 = inv0(zu2² + zu2)`, `x1` as in the model, the pair returned is
`(x1, ±y1)` when `Fp.sqrt? (g' x1) = some y1` and `(zu2·x1, ±(g'(zu2·x1))^((p+1)/4))` otherwise. -/

theorem sswu_some {x1 y1 : Nat} (s : Bool) (hx : x1 < P) (h : Fp.sqrt? (H2C.isoRhs x1) = some y1) :
    x1 < P ∧ (if s then Fp.neg y1 else y1) < P ∧ OnIso x1 (if s then Fp.neg y1 else y1) := by
  have hs := fp_sqrt_some h
  exact ⟨hx, good_sign _ hs.1 (by unfold OnIso; rw [hs.2, isoRhs_cast])⟩

theorem sswu_none (v : Nat) (s : Bool) :
    let zu2 := Fp.mul H2C.sswuZ (Fp.sq v)
    let tv1 := Fp.inv (Fp.add (Fp.sq zu2) zu2)
    let x1 := if tv1 == 0 then Fp.mul H2C.isoB (Fp.inv (Fp.mul H2C.sswuZ H2C.isoA))
      else Fp.mul (Fp.mul (Fp.neg H2C.isoB) (Fp.inv H2C.isoA)) (Fp.add 1 tv1)
    let x2 := Fp.mul zu2 x1
    let y2 := Fp.pow (H2C.isoRhs x2) ((P + 1) / 4)
    Fp.sqrt? (H2C.isoRhs x1) = none →
      x2 < P ∧ (if s then Fp.neg y2 else y2) < P ∧ OnIso x2 (if s then Fp.neg y2 else y2) := by
  intro zu2 tv1 x1 x2 y2 h
  have hsq := x2_isSquare Fp.inv finv_cast finv_lt v zu2 tv1 x1 rfl rfl rfl (not_sq_of_none h)
  have hp := pow_sqrt hsq
  exact ⟨fmul_lt _ _, good_sign _ hp.1 (by unfold OnIso; rw [hp.2, isoRhs_cast])⟩

/-- The isogeny applied to any pair, as a function of the pair. -/
theorem isoMap_onCurve' (p : Nat × Nat) (h : OnIso p.1 p.2) : G1.onCurve (H2C.isoMap p) = true := by
  obtain ⟨x, y⟩ := p
  exact isoMap_onCurve h

/-! ### `H2C.sswu` itself (the model's `sswuX1 / sswuSelect / sswuSign` decomposition) -/

theorem sswuX1_lt (tv1 : Nat) : H2C.sswuX1 tv1 < P := by
  unfold H2C.sswuX1; split <;> exact fmul_lt _ _

/-- `sswuSign` keeps a reduced point of `E1'` one. -/
theorem sswuSign_ok (u x y : Nat) (hx : x < P) (hy : y < P) (h : OnIso x y) :
    ∃ x' y', H2C.sswuSign u (x, y) = (x', y') ∧ x' < P ∧ y' < P ∧ OnIso x' y' := by
  have hs := good_sign (Fp.sgn0 u != Fp.sgn0 y) hy h
  exact ⟨_, _, rfl, hx, hs.1, hs.2⟩

/-- `sswuSelect` on the result `r` of the square-root computation is a reduced point of `E1'`. -/
theorem sswuSelect_ok (v zu2 tv1 x1 : Nat) (r : Option Nat)
    (hz : zu2 = Fp.mul H2C.sswuZ (Fp.sq v)) (htv : tv1 = Fp.inv (Fp.add (Fp.sq zu2) zu2))
    (hx1 : x1 = H2C.sswuX1 tv1) (hr : Fp.sqrt? (H2C.isoRhs x1) = r) :
    ∃ x y, H2C.sswuSelect zu2 x1 r = (x, y) ∧ x < P ∧ y < P ∧ OnIso x y := by
  cases r with
  | some y1 =>
    have hs := fp_sqrt_some hr
    exact ⟨x1, y1, rfl, hx1 ▸ sswuX1_lt tv1, hs.1, by unfold OnIso; rw [hs.2, isoRhs_cast]⟩
  | none =>
    have hsq := x2_isSquare Fp.inv finv_cast finv_lt v zu2 tv1 x1 hz htv (by rw [hx1]; rfl)
      (not_sq_of_none hr)
    have hp := pow_sqrt hsq
    exact ⟨_, _, rfl, fmul_lt _ _, hp.1, by unfold OnIso; rw [hp.2, isoRhs_cast]⟩

theorem sswu_core_ok (v zu2 tv1 x1 : Nat) (r : Option Nat)
    (hz : zu2 = Fp.mul H2C.sswuZ (Fp.sq v)) (htv : tv1 = Fp.inv (Fp.add (Fp.sq zu2) zu2))
    (hx1 : x1 = H2C.sswuX1 tv1) (hr : Fp.sqrt? (H2C.isoRhs x1) = r) :
    ∃ x y, H2C.sswuSign v (H2C.sswuSelect zu2 x1 r) = (x, y) ∧ x < P ∧ y < P ∧ OnIso x y := by
  obtain ⟨x, y, e, hx, hy, h⟩ := sswuSelect_ok v zu2 tv1 x1 r hz htv hx1 hr
  rw [e]
  exact sswuSign_ok v x y hx hy h

/-- **`H2C.sswu u` is a reduced point of `E1'`, for every `u`.** -/
theorem sswu_onIso (u : Nat) : ∃ x y, H2C.sswu u = (x, y) ∧ x < P ∧ y < P ∧ OnIso x y :=
  sswu_core_ok (u % P) _ _ _ _ rfl rfl rfl rfl

theorem mapToCurve_onCurve (u : Nat) : G1.onCurve (H2C.mapToCurve u) = true := by
  obtain ⟨x, y, e, -, -, hc⟩ := sswu_onIso u
  have e' : H2C.mapToCurve u = H2C.isoMap (H2C.sswu u) := rfl
  rw [e', e]
  exact isoMap_onCurve hc

end Zk.MapToCurve
