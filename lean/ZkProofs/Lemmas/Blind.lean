/-
Helper lemmas for C05 (Blind BBS issuance and presentation completeness):
`sumZip` algebra, the commitment proof of knowledge, the commitment codec, the length
arithmetic of `blind_sign`, the generator prefix property and the index bookkeeping of
`blind_proof_gen` / `blind_proof_verify`.
-/
import ZkProofs.Lemmas.Sig
import ZkProofs.Lemmas.Index
set_option linter.unusedSectionVars false
set_option linter.unusedSimpArgs false
set_option linter.unusedVariables false
namespace Zk.Blind
open Zk Res

section
variable {S G1 G2 GT : Type} [Field S] [DecidableEq S]
variable [AddCommGroup G1] [Module S G1] [DecidableEq G1]
variable [AddCommGroup G2] [Module S G2] [DecidableEq G2]
variable [AddCommGroup GT] [Module S GT]
variable {env : Env S G1 G2} {pair : G1 →ₗ[S] G2 →ₗ[S] GT}

/-! ### multi-scalar sums -/

/-- `Σ_i scal[i] • Js[i]` over the common prefix. -/
def msm (Js : List G1) (scal : List S) : G1 := ((Js.zip scal).map fun js => js.2 • js.1).sum

@[simp] theorem msm_nil_left (s : List S) : msm ([] : List G1) s = 0 := by simp [msm]
@[simp] theorem msm_nil_right (Js : List G1) : msm Js ([] : List S) = 0 := by simp [msm]
@[simp] theorem msm_cons (J : G1) (Js : List G1) (a : S) (s : List S) :
    msm (J :: Js) (a :: s) = a • J + msm Js s := by simp [msm]

theorem sumZip_eq (acc : G1) (Js : List G1) (scal : List S) :
    sumZip acc Js scal = acc + msm Js scal := by
  unfold sumZip msm
  induction Js.zip scal generalizing acc with
  | nil => simp
  | cons a l ih => simp only [List.foldl_cons, List.map_cons, List.sum_cons]; rw [ih, add_assoc]

theorem calcB_eq_msm (base Q1 : G1) (domain : S) (Hs : List G1) (msgs : List S) :
    calcB base Q1 domain Hs msgs = base + domain • Q1 + msm Hs msgs := calcB_eq ..

/-- `sumZip` is additive in the accumulator. -/
theorem sumZip_add_acc (a b : G1) (Js : List G1) (s : List S) :
    sumZip (a + b) Js s = a + sumZip b Js s := by
  rw [sumZip_eq, sumZip_eq, add_assoc]

theorem msm_append (Js Js' : List G1) (s s' : List S) (h : Js.length = s.length) :
    msm (Js ++ Js') (s ++ s') = msm Js s + msm Js' s' := by
  unfold msm
  rw [List.zip_append h, List.map_append, List.sum_append]

/-- Linearity of the responses: `Σ (m̃ᵢ + mᵢ c) • Jᵢ = Σ m̃ᵢ • Jᵢ + c • Σ mᵢ • Jᵢ`. -/
theorem msm_resp (c : S) : ∀ (Js : List G1) (mT cms : List S),
    Js.length = mT.length → mT.length = cms.length →
    msm Js ((mT.zip cms).map fun tm => tm.1 + tm.2 * c) = msm Js mT + c • msm Js cms
  | [], _, _, _, _ => by simp
  | J :: Js, [], _, h, _ => by simp at h
  | J :: Js, a :: mT, [], _, h => by simp at h
  | J :: Js, a :: mT, b :: cms, h1, h2 => by
    simp only [List.zip_cons_cons, List.map_cons, msm_cons]
    rw [msm_resp c Js mT cms (by simpa using h1) (by simpa using h2)]
    module

/-- The algebra of the commitment proof: `ŝ•Q2 + Σ m̂ᵢ•Jᵢ − c•C = s̃•Q2 + Σ m̃ᵢ•Jᵢ`. -/
theorem commit_algebra (Q2 : G1) (Js : List G1) (blind sT c : S) (mT cms : List S)
    (h1 : Js.length = mT.length) (h2 : mT.length = cms.length) :
    sumZip ((sT + blind * c) • Q2) Js ((mT.zip cms).map fun tm => tm.1 + tm.2 * c)
        + (-c) • sumZip (blind • Q2) Js cms
      = sumZip (sT • Q2) Js mT := by
  simp only [sumZip_eq, msm_resp c Js mT cms h1 h2]
  module

/-! ### `core_commit` / `core_commit_verify` -/

theorem coreCommit_ok_inv (cs : Suite G1) (bg : List G1) (cms : List S) (apiId : Option Bytes)
    (tape : List S) (c : Commitment S G1) (blind : S)
    (h : coreCommit env cs bg (some cms) apiId tape = .ok (c, blind)) :
    ∃ Q2 Js sT mT ch, bg = Q2 :: Js ∧ Js.length = cms.length ∧ mT.length = cms.length ∧
      tape.take (cms.length + 2) = blind :: sT :: mT ∧
      calculateBlindChallenge env cs (sumZip (blind • Q2) Js cms) (sumZip (sT • Q2) Js mT) bg
        (some (apiId.getD [])) = .ok ch ∧
      c = ⟨sumZip (blind • Q2) Js cms, ⟨sT + blind * ch,
        (mT.zip cms).map fun tm => tm.1 + tm.2 * ch, ch⟩⟩ := by
  unfold coreCommit at h
  simp only [Option.getD_some] at h
  split at h
  · cases h
  · rename_i hlen
    split at h
    · rename_i Q2 Js b sT mT htake
      split at h
      · cases h
      · rename_i hmT
        have hl := congrArg List.length htake
        simp only [List.length_take, List.length_cons] at hl
        cases hc : calculateBlindChallenge env cs (sumZip (b • Q2) Js cms) (sumZip (sT • Q2) Js mT)
            (Q2 :: Js) (some (apiId.getD [])) with
        | err => rw [hc] at h; cases h
        | panic => rw [hc] at h; cases h
        | ok ch =>
          rw [hc] at h; simp only [Res.ok.injEq, Prod.mk.injEq] at h
          obtain ⟨rfl, rfl⟩ := h
          exact ⟨Q2, Js, sT, mT, ch, rfl, by simpa using hlen, by omega, htake, hc, rfl⟩
    · cases h

/-- **Commitment proof completeness** (core level, no hypotheses): whatever `core_commit`
returns is accepted by `core_commit_verify` under the same blind generators and api id. -/
theorem coreCommit_verify (cs : Suite G1) (bg : List G1) (cms : List S) (apiId : Option Bytes)
    (tape : List S) (c : Commitment S G1) (blind : S)
    (h : coreCommit env cs bg (some cms) apiId tape = .ok (c, blind)) :
    coreCommitVerify env cs c.commitment c.proof bg apiId = .ok () := by
  obtain ⟨Q2, Js, sT, mT, ch, rfl, hJ, hmT, _, hc, rfl⟩ := coreCommit_ok_inv cs bg cms apiId tape c blind h
  unfold coreCommitVerify
  simp only
  have hm : ((mT.zip cms).map fun tm => tm.1 + tm.2 * ch).length = Js.length := by
    simp [hmT, hJ]
  rw [hm]
  have ht : (Q2 :: Js).take (Js.length + 1) = Q2 :: Js := List.take_of_length_le (by simp)
  rw [ht]
  simp only [List.length_cons, Nat.lt_irrefl, if_false]
  rw [commit_algebra Q2 Js blind sT ch mT cms (by omega) hmT, hc]
  simp

/-- Closed form of `core_commit` on well-shaped inputs (`M + 1` blind generators, a tape of at
least `M + 2` scalars): the only way to fail is `hash_to_scalar` failing, and it never panics. -/
theorem coreCommit_eq (cs : Suite G1) (Q2 : G1) (Js : List G1) (cms : List S)
    (apiId : Option Bytes) (blind sT : S) (rest : List S)
    (hJ : Js.length = cms.length) (hrest : cms.length ≤ rest.length) :
    coreCommit env cs (Q2 :: Js) (some cms) apiId (blind :: sT :: rest) =
      (hashToScalar env cs
        (blindChallengeInput env (sumZip (blind • Q2) Js cms)
          (sumZip (sT • Q2) Js (rest.take cms.length)) (Q2 :: Js))
        (apiId.getD [] ++ cs.h2s) >>= fun ch =>
        .ok (⟨sumZip (blind • Q2) Js cms, ⟨sT + blind * ch,
          ((rest.take cms.length).zip cms).map fun tm => tm.1 + tm.2 * ch, ch⟩⟩, blind)) := by
  unfold coreCommit
  simp only [Option.getD_some, List.length_cons, hJ, ne_eq, not_true_eq_false, if_false,
    List.take_succ_cons, List.length_take, Nat.min_eq_left hrest, Nat.lt_irrefl,
    calculateBlindChallenge]
  cases hashToScalar env cs _ _ <;> rfl

/-! ### length arithmetic of `blind_sign` -/

/-- A serialized commitment over `M` committed messages makes the signer use `M + 2` blind
generators (`blindSignM = M + 1`, one more than the verifier's `M + 1`). -/
theorem blindSignM_commit (M : Nat) : blindSignM (48 + 32 * (M + 2)) = some (M + 1) := by
  unfold blindSignM uSub?
  have h1 : ¬ (48 + 32 * (M + 2) = 0) := by omega
  have h2 : 48 ≤ 48 + 32 * (M + 2) := by omega
  have h3 : 32 ≤ 48 + 32 * (M + 2) - 48 := by omega
  simp only [h1, h2, h3, if_true, if_false]
  congr 1; omega

theorem blindSignM_zero : blindSignM 0 = some 0 := by simp [blindSignM]

/-- `blind_sign` rejects (on length alone) exactly the non-empty inputs shorter than 80 bytes. -/
theorem blindSignM_none_iff (n : Nat) : blindSignM n = none ↔ 0 < n ∧ n < 80 := by
  unfold blindSignM uSub?
  by_cases h0 : n = 0
  · simp [h0]
  · by_cases h1 : 48 ≤ n
    · by_cases h2 : 32 ≤ n - 48
      · simp only [h0, h1, h2, if_true, if_false]; simp; omega
      · simp only [h0, h1, h2, if_true, if_false]; simp; omega
    · simp only [h0, h1, if_false]; simp
      omega

/-- In general `blindSignM n = some ((n - 80) / 32)` for `n ≥ 80`. -/
theorem blindSignM_ge (n : Nat) (h : 80 ≤ n) : blindSignM n = some ((n - 80) / 32) := by
  unfold blindSignM uSub?
  have h1 : ¬ (n = 0) := by omega
  have h2 : 48 ≤ n := by omega
  have h3 : 32 ≤ n - 48 := by omega
  simp only [h1, h2, h3, if_true, if_false]
  congr 2

/-! ### generator prefix property -/

theorem genLoop_length (cs : Suite G1) (seedDst genDst : Bytes) :
    ∀ (n i : Nat) (v : Bytes) (gs : List G1),
      genLoop env cs seedDst genDst n i v = .ok gs → gs.length = n
  | 0, _, _, gs, h => by simp only [genLoop, Res.ok.injEq] at h; subst h; rfl
  | n + 1, i, v, gs, h => by
    unfold genLoop at h
    cases he : env.expand cs.xof (v ++ i2osp 8 i) seedDst cs.expandLen with
    | none => rw [he] at h; cases h
    | some v' =>
      rw [he] at h; simp only at h
      cases hg : env.hashToG1 cs.xof v' genDst with
      | none => rw [hg] at h; cases h
      | some g =>
        rw [hg] at h; simp only at h
        cases hr : genLoop env cs seedDst genDst n (i + 1) v' with
        | err => rw [hr] at h; cases h
        | panic => rw [hr] at h; cases h
        | ok gs' =>
          rw [hr] at h; simp only [Res.ok.injEq] at h; subst h
          simp [genLoop_length cs seedDst genDst n (i + 1) v' gs' hr]

theorem genLoop_prefix (cs : Suite G1) (seedDst genDst : Bytes) :
    ∀ (n i : Nat) (v : Bytes) (gs : List G1),
      genLoop env cs seedDst genDst n i v = .ok gs →
      ∀ k, k ≤ n → genLoop env cs seedDst genDst k i v = .ok (gs.take k)
  | _, _, _, gs, _, 0, _ => by simp [genLoop]
  | 0, _, _, gs, h, k + 1, hk => by omega
  | n + 1, i, v, gs, h, k + 1, hk => by
    unfold genLoop at h ⊢
    cases he : env.expand cs.xof (v ++ i2osp 8 i) seedDst cs.expandLen with
    | none => rw [he] at h; cases h
    | some v' =>
      rw [he] at h; simp only at h ⊢
      cases hg : env.hashToG1 cs.xof v' genDst with
      | none => rw [hg] at h; cases h
      | some g =>
        rw [hg] at h; simp only at h ⊢
        cases hr : genLoop env cs seedDst genDst n (i + 1) v' with
        | err => rw [hr] at h; cases h
        | panic => rw [hr] at h; cases h
        | ok gs' =>
          rw [hr] at h; simp only [Res.ok.injEq] at h; subst h
          rw [genLoop_prefix cs seedDst genDst n (i + 1) v' gs' hr k (by omega)]
          simp

/-- The first `k` of `n` generators are the `k` generators (same api id). -/
theorem create_prefix (cs : Suite G1) (n : Nat) (apiId : Option Bytes) (g : Generators G1)
    (h : Generators.create env cs n apiId = .ok g) (k : Nat) (hk : k ≤ n) :
    Generators.create env cs k apiId = .ok ⟨g.base, g.values.take k⟩ := by
  unfold Generators.create createGenerators at h ⊢
  simp only at h ⊢
  cases he : env.expand cs.xof (apiId.getD [] ++ cs.generatorSeed)
      (apiId.getD [] ++ cs.generatorSeedDst) cs.expandLen with
  | none => rw [he] at h; cases h
  | some v =>
    rw [he] at h; simp only at h ⊢
    cases hr : genLoop env cs (apiId.getD [] ++ cs.generatorSeedDst)
        (apiId.getD [] ++ cs.generatorDst) n 1 v with
    | err => rw [hr] at h; cases h
    | panic => rw [hr] at h; cases h
    | ok gs =>
      rw [hr] at h; simp only [Res.ok.injEq] at h; subst h
      rw [genLoop_prefix cs _ _ n 1 v gs hr k hk]

theorem create_shape (cs : Suite G1) (n : Nat) (apiId : Option Bytes) (g : Generators G1)
    (h : Generators.create env cs n apiId = .ok g) : g.base = cs.p1 ∧ g.values.length = n := by
  unfold Generators.create createGenerators at h
  simp only at h
  cases he : env.expand cs.xof (apiId.getD [] ++ cs.generatorSeed)
      (apiId.getD [] ++ cs.generatorSeedDst) cs.expandLen with
  | none => rw [he] at h; cases h
  | some v =>
    rw [he] at h; simp only at h
    cases hr : genLoop env cs (apiId.getD [] ++ cs.generatorSeedDst)
        (apiId.getD [] ++ cs.generatorDst) n 1 v with
    | err => rw [hr] at h; cases h
    | panic => rw [hr] at h; cases h
    | ok gs =>
      rw [hr] at h; simp only [Res.ok.injEq] at h; subst h
      exact ⟨rfl, genLoop_length cs _ _ n 1 v gs hr⟩

/-! ### the commitment codec -/

theorem flatMap_enc_length {α} (enc : α → Bytes) (n : Nat) (h : ∀ x, (enc x).length = n)
    (l : List α) : (l.flatMap enc).length = n * l.length := by
  induction l with
  | nil => simp
  | cons a l ih => simp [List.flatMap_cons, h, ih, Nat.mul_succ, Nat.add_comm]

/-- Chunking a concatenation of 32-byte encodings gives back the encodings. -/
theorem chunks32_flatMap {α} (enc : α → Bytes) (h : ∀ x, (enc x).length = 32) :
    ∀ (l : List α) (n : Nat), l.length ≤ n → chunks32 n (l.flatMap enc) = l.map enc
  | [], 0, _ => by simp [chunks32]
  | [], n + 1, _ => by simp [chunks32]
  | a :: l, 0, hn => by simp at hn
  | a :: l, n + 1, hn => by
    have ha := h a
    unfold chunks32
    simp only [List.flatMap_cons, List.length_append, ha, List.map_cons]
    rw [if_neg (by omega), List.take_append_of_le_length (by omega),
      List.take_of_length_le (by omega), List.drop_append_of_le_length (by omega),
      List.drop_of_length_le (by omega), List.nil_append,
      chunks32_flatMap enc h l n (by simpa using hn)]

theorem decodeScalars_map_enc (hl : Lawful env pair) (l : List S) :
    decodeScalars env (l.map env.sEnc) = .ok l := by
  unfold decodeScalars
  induction l with
  | nil => rfl
  | cons a l ih =>
    rw [List.map_cons, mapRes, hl.sCodec.dec_enc]
    simp only [Res.ofOptErr] at ih ⊢
    rw [ih]

theorem zkpok_toBytes_length (hl : Lawful env pair) (z : ZKPoK S) :
    (z.toBytes env).length = 32 * (z.mCap.length + 2) := by
  simp only [ZKPoK.toBytes, List.length_append, hl.sCodec.enc_len,
    flatMap_enc_length env.sEnc 32 hl.sCodec.enc_len]
  omega

/-- `BBSplusZKPoK` round trip. -/
theorem zkpok_roundtrip (hl : Lawful env pair) (z : ZKPoK S) :
    ZKPoK.fromBytes env (z.toBytes env) = .ok z := by
  have hlen := zkpok_toBytes_length hl z
  unfold ZKPoK.fromBytes
  rw [if_neg (by rw [hlen]; omega)]
  have hs := hl.sCodec.enc_len z.sCap
  have htake : (z.toBytes env).take 32 = env.sEnc z.sCap := by
    simp only [ZKPoK.toBytes, List.append_assoc]
    rw [List.take_append_of_le_length (by omega), List.take_of_length_le (by omega)]
  have hdrop : (z.toBytes env).drop 32 = (z.mCap ++ [z.challenge]).flatMap env.sEnc := by
    simp only [ZKPoK.toBytes, List.append_assoc]
    rw [List.drop_append_of_le_length (by omega), List.drop_of_length_le (by omega)]
    simp
  rw [htake, hl.sCodec.dec_enc]
  simp only [hdrop]
  rw [chunks32_flatMap env.sEnc hl.sCodec.enc_len _ _
    (by rw [flatMap_enc_length env.sEnc 32 hl.sCodec.enc_len]; omega),
    decodeScalars_map_enc hl]
  simp

theorem commitment_toBytes_length (hl : Lawful env pair) (c : Commitment S G1) :
    (c.toBytes env).length = 48 + 32 * (c.proof.mCap.length + 2) := by
  simp only [Commitment.toBytes, List.length_append, hl.g1Codec.enc_len, zkpok_toBytes_length hl]

/-- `BBSplusCommitment` round trip (any commitment point, the identity included). -/
theorem commitment_roundtrip (hl : Lawful env pair) (c : Commitment S G1) :
    Commitment.fromBytes env (c.toBytes env) = .ok c := by
  have hlen := commitment_toBytes_length hl c
  have hg := hl.g1Codec.enc_len c.commitment
  unfold Commitment.fromBytes
  rw [if_neg (by rw [hlen]; omega)]
  simp only [Commitment.toBytes]
  rw [List.take_append_of_le_length (by omega), List.take_of_length_le (by omega),
    List.drop_append_of_le_length (by omega), List.drop_of_length_le (by omega), List.nil_append,
    hl.g1Codec.dec_enc, zkpok_roundtrip hl]

/-! ### pieces of `commit`, `blind_sign`, `verify_blind_sign` -/

theorem mapRes_length {α β} (f : α → Res β) : ∀ (l : List α) (r : List β),
    mapRes f l = .ok r → r.length = l.length
  | [], r, h => by simp only [mapRes, Res.ok.injEq] at h; subst h; rfl
  | a :: l, r, h => by
    unfold mapRes at h
    cases ha : f a with
    | err => rw [ha] at h; cases h
    | panic => rw [ha] at h; cases h
    | ok b =>
      rw [ha] at h; simp only at h
      cases hr : mapRes f l with
      | err => rw [hr] at h; cases h
      | panic => rw [hr] at h; cases h
      | ok bs =>
        rw [hr] at h; simp only [Res.ok.injEq] at h; subst h
        simp [mapRes_length f l bs hr]

theorem messagesToScalar_length (cs : Suite G1) (msgs : List Bytes) (apiId : Bytes) (ms : List S)
    (h : messagesToScalar env cs msgs apiId = .ok ms) : ms.length = msgs.length :=
  mapRes_length _ _ _ h

/-- `core_commit_verify` only looks at the first `M + 1` blind generators. -/
theorem coreCommitVerify_take (cs : Suite G1) (C : G1) (z : ZKPoK S) (bgs : List G1)
    (apiId : Option Bytes) (h : z.mCap.length + 1 ≤ bgs.length) :
    coreCommitVerify env cs C z bgs apiId
      = coreCommitVerify env cs C z (bgs.take (z.mCap.length + 1)) apiId := by
  unfold coreCommitVerify
  simp only [List.length_take, List.take_take, Nat.min_self, Nat.min_eq_left h]
  rw [if_neg (by omega), if_neg (by omega)]

/-- What an `Ok` of `commit` means. -/
theorem commit_ok_inv (cs : Suite G1) (cmsgs : Option (List Bytes)) (tape : List S)
    (c : Commitment S G1) (blind : S) (h : commit env cs cmsgs tape = .ok (c, blind)) :
    ∃ cms bg Q2 Js, messagesToScalar env cs (cmsgs.getD []) cs.apiIdBlind = .ok cms ∧
      Generators.create env cs ((cmsgs.getD []).length + 1)
        (some (Bytes.ofAscii "BLIND_" ++ cs.apiIdBlind)) = .ok bg ∧
      bg.values = Q2 :: Js ∧ Js.length = cms.length ∧ cms.length = (cmsgs.getD []).length ∧
      c.proof.mCap.length = cms.length ∧
      c.commitment = blind • Q2 + msm Js cms ∧
      coreCommitVerify env cs c.commitment c.proof bg.values (some cs.apiIdBlind) = .ok () := by
  unfold commit commitWith at h
  simp only [Option.getD_some] at h
  cases hm : messagesToScalar env cs (cmsgs.getD []) cs.apiIdBlind with
  | err => rw [hm] at h; cases h
  | panic => rw [hm] at h; cases h
  | ok cms =>
    rw [hm] at h; simp only at h
    have hlen := messagesToScalar_length cs _ _ cms hm
    cases hg : Generators.create env cs (cms.length + 1)
        (some (Bytes.ofAscii "BLIND_" ++ cs.apiIdBlind)) with
    | err => rw [hg] at h; cases h
    | panic => rw [hg] at h; cases h
    | ok bg =>
      rw [hg] at h; simp only at h
      have hv := coreCommit_verify cs _ cms _ tape c blind h
      obtain ⟨Q2, Js, sT, mT, ch, hbg, hJ, hmT, _, _, rfl⟩ := coreCommit_ok_inv cs _ cms _ tape c blind h
      refine ⟨cms, bg, Q2, Js, rfl, by rw [← hlen]; exact hg, hbg, hJ, hlen, ?_, ?_, hv⟩
      · simp [hmT]
      · simp only [sumZip_eq]

/-- `calculate_b`: `B = P1 + Σ mᵢ•Hᵢ + C`, non-zero. -/
theorem calculateB_ok (gens : Generators G1) (C : G1) (ms : List S) (B : G1)
    (h : calculateB gens (some C) ms = .ok B) :
    ∃ Q1 Hs, gens.values = Q1 :: Hs ∧ Hs.length = ms.length ∧ B = gens.base + msm Hs ms + C := by
  unfold calculateB at h
  simp only [Option.getD_some] at h
  split at h
  · cases h
  · rename_i hlen
    cases hv : gens.values with
    | nil => rw [hv] at h; cases h
    | cons Q1 Hs =>
      rw [hv] at h hlen; simp only at h
      split at h
      · cases h
      · simp only [Res.ok.injEq] at h
        exact ⟨Q1, Hs, rfl, by simpa using hlen, by rw [← h, sumZip_eq]⟩

/-- `finalize_blind_sign`: `A = (sk + e)⁻¹ • (B + domain • Q1)` with the domain over
`H_1..H_L, Q2, J_1..` (all blind generators but the last). -/
theorem finalizeBlindSign_ok (hl : Lawful env pair) (cs : Suite G1) (sk : S) (pk : G2) (B : G1)
    (gens bgens : Generators G1) (header apiId : Option Bytes) (σ : Signature S G1)
    (h : finalizeBlindSign env cs sk pk B gens bgens header apiId = .ok σ) :
    ∃ Q1 Hs Q2 bgTail domain, gens.values = Q1 :: Hs ∧ bgens.values = Q2 :: bgTail ∧
      calculateDomain env cs pk Q1 (Hs ++ Q2 :: bgTail.dropLast) header (some (apiId.getD []))
        = .ok domain ∧
      sk + σ.e ≠ 0 ∧ (sk + σ.e) • σ.A = B + domain • Q1 := by
  unfold finalizeBlindSign at h
  split at h
  · rename_i Q1 Hs Q2 bgTail hgv hbv
    simp only [List.append_assoc, List.singleton_append] at h
    cases hd : calculateDomain env cs pk Q1 (Hs ++ Q2 :: bgTail.dropLast) header
        (some (apiId.getD [])) with
    | err => rw [hd] at h; cases h
    | panic => rw [hd] at h; cases h
    | ok domain =>
      rw [hd] at h; simp only at h
      cases he : hashToScalar env cs (env.sEnc sk ++ env.g1Enc (B + domain • Q1))
          (apiId.getD [] ++ cs.h2s) with
      | err => rw [he] at h; cases h
      | panic => rw [he] at h; cases h
      | ok e =>
        rw [he] at h; simp only at h
        by_cases hz : sk + e = 0
        · rw [hz, hl.sInv_zero] at h; cases h
        · rw [hl.sInv_ne _ hz] at h
          simp only [Res.ok.injEq] at h; subst h
          refine ⟨Q1, Hs, Q2, bgTail, domain, hgv, hbv, hd, hz, ?_⟩
          simp only
          rw [smul_smul, mul_inv_cancel₀ hz, one_smul]
  · cases h

/-- Closed form of `prepare_parameters` once its four sub-calls are known. -/
theorem prepareParameters_eq (cs : Suite G1) (msgs cmsgs : List Bytes) (n k : Nat)
    (blind : Option S) (apiId : Bytes) (ms cms : List S) (gens bgens : Generators G1)
    (h1 : messagesToScalar env cs msgs apiId = .ok ms)
    (h2 : messagesToScalar env cs cmsgs apiId = .ok cms)
    (h3 : Generators.create env cs n (some apiId) = .ok gens)
    (h4 : Generators.create env cs k (some (Bytes.ofAscii "BLIND_" ++ apiId)) = .ok bgens) :
    prepareParameters env cs (some msgs) (some cmsgs) n k blind (some apiId)
      = .ok (ms ++ ((match blind with | some b => [b] | none => []) ++ cms),
          ⟨gens.base, gens.values ++ bgens.values⟩) := by
  unfold prepareParameters
  simp only [Option.getD_some, h1, h2, h3, h4]
  cases blind <;> rfl

/-- The signer accepts an honest commitment: with the `M + 2` blind generators that `blind_sign`
creates for a commitment over `M` messages, `deserialize_and_validate_commit` returns the
commitment point. -/
theorem deserialize_honest (hl : Lawful env pair) (cs : Suite G1) (cmsgs : Option (List Bytes))
    (tape : List S) (c : Commitment S G1) (blind : S)
    (h : commit env cs cmsgs tape = .ok (c, blind)) (bgens : Generators G1)
    (hb : Generators.create env cs ((cmsgs.getD []).length + 2)
      (some (Bytes.ofAscii "BLIND_" ++ cs.apiIdBlind)) = .ok bgens) :
    deserializeAndValidateCommit env cs (some (c.toBytes env)) bgens (some cs.apiIdBlind)
      = .ok c.commitment := by
  obtain ⟨cms, bg, Q2, Js, hm, hg, hbg, hJ, hlen, hmc, hC, hv⟩ := commit_ok_inv cs cmsgs tape c blind h
  have hp := create_prefix cs _ _ bgens hb ((cmsgs.getD []).length + 1) (by omega)
  rw [hg] at hp
  simp only [Res.ok.injEq] at hp
  have hbl := (create_shape cs _ _ bgens hb).2
  have hvals : bg.values = bgens.values.take (c.proof.mCap.length + 1) := by
    rw [hp, hmc, hlen]
  unfold deserializeAndValidateCommit
  simp only [Option.getD_some]
  rw [if_neg (by rw [commitment_toBytes_length hl]; omega), commitment_roundtrip hl]
  simp only
  rw [if_neg (by omega), coreCommitVerify_take cs _ _ _ _ (by omega), ← hvals, hv]

/-! ### index bookkeeping of `blind_proof_gen` / `blind_proof_verify` -/

/-- Strictly ascending lists with the same members are equal. -/
theorem strict_sorted_ext {l₁ l₂ : List Nat} (h₁ : l₁.Pairwise (· < ·)) (h₂ : l₂.Pairwise (· < ·))
    (h : ∀ i, i ∈ l₁ ↔ i ∈ l₂) : l₁ = l₂ := by
  have n₁ : l₁.Nodup := h₁.imp (fun h => Nat.ne_of_lt h)
  have n₂ : l₂.Nodup := h₂.imp (fun h => Nat.ne_of_lt h)
  have hp : l₁.Perm l₂ := (List.perm_ext_iff_of_nodup n₁ n₂).mpr h
  exact List.Perm.eq_of_pairwise (le := (· < ·)) (fun a b _ _ hab hba => by omega) h₁ h₂ hp

/-- The combined index list `di ++ dci.map (· + L + 1)`: strictly ascending when both parts are
and the first part stays `≤ L`. -/
theorem blind_indexes_sorted (L : Nat) {di dci : List Nat} (h1 : di.Pairwise (· < ·))
    (h2 : dci.Pairwise (· < ·)) (hL : ∀ i ∈ di, i < L + 1) :
    (di ++ dci.map fun j => j + L + 1).Pairwise (· < ·) := by
  rw [List.pairwise_append]
  refine ⟨h1, ?_, ?_⟩
  · rw [List.pairwise_map]
    exact h2.imp (by intro a b h; omega)
  · intro a ha b hb
    obtain ⟨j, _, rfl⟩ := List.mem_map.mp hb
    have := hL a ha
    omega

/-- **Index map.** Sorting and deduplicating the prover's combined index list gives the
verifier's list: the two parts sorted and deduplicated separately (no hypothesis on `dci`,
members of `di` at most `L`). In particular the combined list of two strictly ascending lists is
left unchanged by `sortDedup`. -/
theorem sortDedup_blind_indexes (L : Nat) (di dci : List Nat) (hL : ∀ i ∈ di, i < L + 1) :
    sortDedup (di ++ dci.map fun j => j + L + 1)
      = sortDedup di ++ (sortDedup dci).map fun j => j + L + 1 := by
  apply strict_sorted_ext (sortDedup_sorted _)
  · exact blind_indexes_sorted L (sortDedup_sorted _) (sortDedup_sorted _)
      (fun i hi => hL i (mem_sortDedup.mp hi))
  · intro i
    simp only [mem_sortDedup, List.mem_append, List.mem_map]

theorem blind_indexes_lt (L M : Nat) {di dci : List Nat} (h1 : ∀ i ∈ di, i < L)
    (h2 : ∀ j ∈ dci, j < M) : ∀ i ∈ di ++ dci.map fun j => j + L + 1, i < L + 1 + M := by
  intro i hi
  rcases List.mem_append.mp hi with h | h
  · have := h1 i h; omega
  · obtain ⟨j, hj, rfl⟩ := List.mem_map.mp h
    have := h2 j hj; omega

/-- **The verifier's `M`.** With `U = (L + 1 + M) − (R1 + R2)` undisclosed positions the
verifier recomputes `M` from `R1 + R2 + U` and `L`. -/
theorem verifier_M (L M R1 R2 : Nat) (h1 : R1 ≤ L) (h2 : R2 ≤ M) (h64 : L + 1 < 2 ^ 64) :
    uAdd? L 1 = some (L + 1) ∧
      uSub? (R1 + R2 + (L + 1 + M - (R1 + R2))) (L + 1) = some M := by
  unfold uAdd? uSub?
  rw [if_pos h64, if_pos (by omega)]
  exact ⟨rfl, by congr 1; omega⟩

theorem verifier_uAdd_ok (L M : Nat) (dci : List Nat) (h2 : ∀ j ∈ dci, j < M)
    (h64 : L + 1 + M < 2 ^ 64) : (dci.any fun j => (uAdd? j (L + 1)).isNone) = false := by
  rw [List.any_eq_false]
  intro j hj
  have := h2 j hj
  unfold uAdd?
  rw [if_pos (by omega)]
  simp

/-- **The verifier's messages.** The scalars at the combined indexes of the prover's list
`ms ++ blind :: cms` are the disclosed signer scalars followed by the disclosed committed
scalars; position `L` (the blinding factor) is never among them. -/
theorem blind_disclosed_scalars (ms cms : List S) (b : S) (D1 D2 : List Nat)
    (h1 : ∀ i ∈ D1, i < ms.length) :
    (D1 ++ D2.map fun j => j + ms.length + 1).map (fun i => (ms ++ b :: cms).getD i 0)
      = D1.map (fun i => ms.getD i 0) ++ D2.map (fun j => cms.getD j 0) := by
  rw [List.map_append, List.map_map]
  congr 1
  · apply List.map_congr_left
    intro i hi
    simp only [List.getD_eq_getElem?_getD, List.getElem?_append_left (h1 i hi)]
  · apply List.map_congr_left
    intro j _
    simp only [Function.comp, List.getD_eq_getElem?_getD]
    rw [List.getElem?_append_right (by omega)]
    have : j + ms.length + 1 - ms.length = j + 1 := by omega
    rw [this, List.getElem?_cons_succ]

theorem blind_index_ne_L (L : Nat) {di dci : List Nat} (h1 : ∀ i ∈ di, i < L) :
    L ∉ di ++ dci.map fun j => j + L + 1 := by
  intro h
  rcases List.mem_append.mp h with h | h
  · have := h1 L h; omega
  · obtain ⟨j, _, hj⟩ := List.mem_map.mp h; omega

/-! ### `blind_proof_gen` / `blind_proof_verify` as wrappers of the core functions -/

/-- What an `Ok` of `prepare_parameters` (with a blinding factor) means. -/
theorem prepareParameters_ok_inv (cs : Suite G1) (msgs cmsgs : List Bytes) (n k : Nat) (b : S)
    (apiId : Bytes) (allms : List S) (gens : Generators G1)
    (h : prepareParameters env cs (some msgs) (some cmsgs) n k (some b) (some apiId)
      = .ok (allms, gens)) :
    ∃ ms cms g bg, messagesToScalar env cs msgs apiId = .ok ms ∧
      messagesToScalar env cs cmsgs apiId = .ok cms ∧
      Generators.create env cs n (some apiId) = .ok g ∧
      Generators.create env cs k (some (Bytes.ofAscii "BLIND_" ++ apiId)) = .ok bg ∧
      allms = ms ++ b :: cms ∧ gens = ⟨g.base, g.values ++ bg.values⟩ := by
  unfold prepareParameters at h
  simp only [Option.getD_some] at h
  cases h1 : messagesToScalar env cs msgs apiId with
  | err => rw [h1] at h; cases h
  | panic => rw [h1] at h; cases h
  | ok ms =>
    rw [h1] at h; simp only at h
    cases h2 : messagesToScalar env cs cmsgs apiId with
    | err => rw [h2] at h; cases h
    | panic => rw [h2] at h; cases h
    | ok cms =>
      rw [h2] at h; simp only at h
      cases h3 : Generators.create env cs n (some apiId) with
      | err => rw [h3] at h; cases h
      | panic => rw [h3] at h; cases h
      | ok g =>
        rw [h3] at h; simp only at h
        cases h4 : Generators.create env cs k (some (Bytes.ofAscii "BLIND_" ++ apiId)) with
        | err => rw [h4] at h; cases h
        | panic => rw [h4] at h; cases h
        | ok bg =>
          rw [h4] at h
          simp only [Res.ok.injEq, Prod.mk.injEq] at h
          exact ⟨ms, cms, g, bg, rfl, rfl, rfl, rfl, by rw [← h.1]; rfl, h.2.symm⟩

/-- **Blind proof completeness, relative to core completeness.** `hcore` is the statement of
core proof completeness (`C03.core_proof_complete`) for the combined index list
`D = di ++ dci.map (· + L + 1)`; `P` is any extra property of the proof it delivers. -/
theorem blind_proof_complete_of_core (cs : Suite G1) (pk : G2) (σ : Signature S G1)
    (msgs cmsgs : List Bytes) (blind : Option S) (di dci diV dciV : List Nat)
    (header ph : Option Bytes) (tape : List S) (P : PoKSignature S G1 → Prop)
    (hver : verifyBlindSign env cs σ pk header (some msgs) (some cmsgs) blind = .ok ())
    (hσ : Signature.fromBytes env (σ.toBytes env) = .ok σ)
    (hdi : ∀ i ∈ di, i < msgs.length) (hdci : ∀ j ∈ dci, j < cmsgs.length)
    (hdiL : di.length ≤ msgs.length) (hdciL : dci.length ≤ cmsgs.length)
    (hdiV : sortDedup diV = sortDedup di) (hdciV : sortDedup dciV = sortDedup dci)
    (h64 : msgs.length + 1 + cmsgs.length < 2 ^ 64)
    (hcore : ∀ (gens : Generators G1) (allms : List S),
      coreVerify env cs pk σ allms gens header (some cs.apiIdBlind) = .ok () →
      allms.length = msgs.length + 1 + cmsgs.length →
      ∃ π, coreProofGen env cs pk σ gens allms (di ++ dci.map fun j => j + msgs.length + 1)
            header ph (some cs.apiIdBlind) tape = .ok π ∧
        coreProofVerify env cs pk π gens header ph
          ((sortDedup (di ++ dci.map fun j => j + msgs.length + 1)).map fun i => allms.getD i 0)
          (sortDedup (di ++ dci.map fun j => j + msgs.length + 1)) (some cs.apiIdBlind) = .ok () ∧
        π.mCap.length
          = allms.length - (sortDedup (di ++ dci.map fun j => j + msgs.length + 1)).length ∧
        P π) :
    ∃ π, blindProofGen env cs pk (σ.toBytes env) header ph (some msgs) (some cmsgs)
          (some di) (some dci) blind tape = .ok π ∧
      blindProofVerify env cs π pk header ph (some msgs.length)
          (some ((sortDedup di).map fun i => msgs.getD i []))
          (some ((sortDedup dci).map fun j => cmsgs.getD j []))
          (some diV) (some dciV) = .ok () ∧
      π.mCap.length
        = msgs.length + 1 + cmsgs.length - ((sortDedup di).length + (sortDedup dci).length) ∧
      P π := by
  unfold verifyBlindSign at hver
  simp only [Option.getD_some] at hver
  cases hpp : prepareParameters env cs (some msgs) (some cmsgs) (msgs.length + 1)
      (cmsgs.length + 1) (some (blind.getD 0)) (some cs.apiIdBlind) with
  | err => rw [hpp] at hver; cases hver
  | panic => rw [hpp] at hver; cases hver
  | ok r =>
    obtain ⟨allms, gens⟩ := r
    rw [hpp] at hver; simp only at hver
    obtain ⟨ms, cms, g, bg, hms, hcms, hg, hbg, rfl, rfl⟩ :=
      prepareParameters_ok_inv cs msgs cmsgs _ _ _ _ _ _ hpp
    have hmsl := messagesToScalar_length cs _ _ ms hms
    have hcmsl := messagesToScalar_length cs _ _ cms hcms
    obtain ⟨π, hgen, hvf, hU, hP⟩ := hcore _ _ hver (by simp [hmsl, hcmsl]; omega)
    have hsd := sortDedup_blind_indexes msgs.length di dci (fun i hi => by have := hdi i hi; omega)
    have hR1 : (sortDedup di).length ≤ msgs.length := sortDedup_length_le hdi
    have hR2 : (sortDedup dci).length ≤ cmsgs.length := sortDedup_length_le hdci
    refine ⟨π, ?_, ?_, ?_, hP⟩
    · unfold blindProofGen
      rw [hσ]
      simp only [Option.getD_some]
      rw [if_neg (by omega), if_neg (by simpa using hdi), if_neg (by omega),
        if_neg (by simpa using hdci), hpp]
      exact hgen
    · have hU' : π.mCap.length = msgs.length + 1 + cmsgs.length
          - ((sortDedup di).length + (sortDedup dci).length) := by
        rw [hU, hsd]; simp [hmsl, hcmsl]; omega
      obtain ⟨ha, hs⟩ := verifier_M msgs.length cmsgs.length _ _ hR1 hR2 (by omega)
      unfold blindProofVerify
      simp only [Option.getD_some, hdiV, hdciV, ha, hU', hs]
      rw [verifier_uAdd_ok msgs.length cmsgs.length _
        (fun j hj => hdci j (mem_sortDedup.mp hj)) h64]
      simp only [Bool.false_eq_true, if_false]
      have hdm := mapRes_map_getD _ ([] : Bytes) (0 : S) msgs ms hms (sortDedup di)
        (fun i hi => hdi i (mem_sortDedup.mp hi))
      have hdcm := mapRes_map_getD _ ([] : Bytes) (0 : S) cmsgs cms hcms (sortDedup dci)
        (fun i hi => hdci i (mem_sortDedup.mp hi))
      rw [prepareParameters_eq cs _ _ _ _ none _ _ _ g bg hdm hdcm hg hbg]
      simp only [List.nil_append]
      rw [hsd, ← hmsl, blind_disclosed_scalars ms cms _ _ _
        (fun i hi => by rw [hmsl]; exact hdi i (mem_sortDedup.mp hi))] at hvf
      rw [← hmsl]
      exact hvf
    · rw [hU, hsd]; simp [hmsl, hcmsl]; omega

end
end Zk.Blind
