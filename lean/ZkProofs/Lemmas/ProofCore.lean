/-
Core algebra of BBS proofs of knowledge in the abstract setting: what `proofInit`,
`proofFinalize`, `proofVerifyInit` compute, that the verifier recomputes the prover's `T1`, `T2`,
and the resulting completeness of `coreProofGen` / `coreProofVerify`.
-/
import ZkProofs.Lemmas.Sig
import ZkProofs.Lemmas.Index
set_option linter.unusedSectionVars false
set_option linter.unusedSimpArgs false
set_option linter.unusedVariables false
namespace Zk
open Res

section
variable {S G1 G2 GT : Type} [Field S] [DecidableEq S]
variable [AddCommGroup G1] [Module S G1] [DecidableEq G1]
variable [AddCommGroup G2] [Module S G2] [DecidableEq G2]
variable [AddCommGroup GT] [Module S GT]
variable {env : Env S G1 G2} {pair : G1 →ₗ[S] G2 →ₗ[S] GT}

/-- `hash_to_scalar` with destination tag `dst` does not fail, whatever the message. True of the
real `expand_message_xmd/xof`, whose only failure conditions (`dst` longer than 255 octets,
output length too large) do not depend on the message. Needed because the model's `env.expand`
is an arbitrary partial function. -/
def HashTotal (env : Env S G1 G2) (cs : Suite G1) (dst : Bytes) : Prop :=
  ∀ msg, ∃ s, hashToScalar env cs msg dst = .ok s

/-- `HashTotal` spelled out: a tag of at most 255 octets for which `expand_message` returns
48 octets on every message. -/
theorem HashTotal_of_expand (cs : Suite G1) (dst : Bytes) (hdst : dst.length ≤ 255)
    (hexp : ∀ msg, ∃ u, env.expand cs.xof msg dst cs.expandLen = some u ∧ u.length = 48) :
    HashTotal env cs dst := by
  intro msg
  obtain ⟨u, hu, hlen⟩ := hexp msg
  refine ⟨env.okm u, ?_⟩
  unfold hashToScalar
  rw [if_neg (by omega), hu]
  simp [hlen]

/-- `hashToScalar` never panics. -/
theorem hashToScalar_ne_panic (cs : Suite G1) (msg dst : Bytes) :
    hashToScalar env cs msg dst ≠ .panic := by
  unfold hashToScalar
  split
  · simp
  · split
    · simp
    · split <;> simp

/-! ### generators -/

theorem genLoop_length (cs : Suite G1) (seedDst genDst : Bytes) :
    ∀ (n i : Nat) (v : Bytes) (gs : List G1),
      genLoop env cs seedDst genDst n i v = .ok gs → gs.length = n
  | 0, _, _, gs, h => by simp only [genLoop] at h; cases h; rfl
  | n + 1, i, v, gs, h => by
    simp only [genLoop] at h
    cases he : env.expand cs.xof (v ++ i2osp 8 i) seedDst cs.expandLen with
    | none => rw [he] at h; cases h
    | some v' =>
      rw [he] at h; simp only at h
      cases hg : env.hashToG1 cs.xof v' genDst with
      | none => rw [hg] at h; cases h
      | some g =>
        rw [hg] at h; simp only at h
        cases hr : genLoop env cs seedDst genDst n (i + 1) v' with
        | err => rw [hr] at h; cases h
        | panic => rw [hr] at h; cases h
        | ok gs' =>
          rw [hr] at h; simp only at h; cases h
          simp [genLoop_length cs seedDst genDst n (i + 1) v' gs' hr]

/-- `Generators::create(count)` returns exactly `count` generators and the base point `P1`. -/
theorem Generators.create_ok (cs : Suite G1) (count : Nat) (apiId : Option Bytes)
    (gens : Generators G1) (h : Generators.create env cs count apiId = .ok gens) :
    gens.values.length = count ∧ gens.base = cs.p1 := by
  unfold Generators.create at h
  cases hc : createGenerators env cs count apiId with
  | err => rw [hc] at h; cases h
  | panic => rw [hc] at h; cases h
  | ok vs =>
    rw [hc] at h; simp only at h; cases h
    refine ⟨?_, rfl⟩
    unfold createGenerators at hc
    simp only [] at hc
    split at hc
    · cases hc
    · exact genLoop_length cs _ _ _ _ _ _ hc

/-- `Generators::create` never returns `Err`. -/
theorem genLoop_ne_err (cs : Suite G1) (seedDst genDst : Bytes) :
    ∀ (n i : Nat) (v : Bytes), genLoop env cs seedDst genDst n i v ≠ .err
  | 0, _, _ => by simp [genLoop]
  | n + 1, i, v => by
    simp only [genLoop]
    split
    · simp
    · split
      · simp
      · rename_i _ v' _ _ g _
        have := genLoop_ne_err cs seedDst genDst n (i + 1) v'
        split <;> simp_all

theorem Generators.create_ne_err (cs : Suite G1) (count : Nat) (apiId : Option Bytes) :
    Generators.create env cs count apiId ≠ .err := by
  unfold Generators.create createGenerators
  simp only []
  split
  · simp
  · rename_i h
    split at h
    · cases h
    · exact absurd h (genLoop_ne_err cs _ _ _ _ _)
  · simp

/-! ### the three proof sub-functions -/

/-- The prover's commitments (`proof_init`) for signature `σ` over `B`. -/
def initOf (σ : Signature S G1) (B : G1) (Hs : List G1) (U : List Nat)
    (r1 r2 eT r1T r3T : S) (mT : List S) (domain : S) : ProofInitResult S G1 :=
  ⟨(r1 * r2) • σ.A, r1 • r2 • B - σ.e • (r1 * r2) • σ.A, r2 • B,
    eT • (r1 * r2) • σ.A + r1T • r2 • B,
    r3T • r2 • B + ((U.zip mT).map fun p => p.2 • Hs.getD p.1 0).sum, domain⟩

theorem proofInit_ok (cs : Suite G1) (pk : G2) (σ : Signature S G1) (gens : Generators G1)
    (Q1 : G1) (Hs : List G1) (header apiId : Option Bytes) (msgs : List S) (U : List Nat)
    (r1 r2 eT r1T r3T : S) (mT : List S) (domain : S)
    (hv : gens.values = Q1 :: Hs) (hlen : Hs.length = msgs.length)
    (hd : calculateDomain env cs pk Q1 Hs header apiId = .ok domain)
    (hmT : mT.length = U.length) (hU : ∀ i ∈ U, i < Hs.length) :
    proofInit env cs pk σ gens (r1 :: r2 :: eT :: r1T :: r3T :: mT) header msgs U apiId
      = .ok (initOf σ (calcB gens.base Q1 domain Hs msgs) Hs U r1 r2 eT r1T r3T mT domain) := by
  unfold proofInit
  simp only []
  rw [if_neg (by simp [hmT]; omega), if_neg (by simp [hv, hlen])]
  rw [hv]
  simp only [hd]
  rw [sumIndexed_ok Hs U mT _ (by omega) (fun i hi => hU i (List.mem_of_mem_take hi))]
  rfl

theorem proofFinalize_ok (hl : Lawful env pair) (init : ProofInitResult S G1) (c e : S)
    (r1 r2 eT r1T r3T : S) (mT ums : List S) (hr2 : r2 ≠ 0) (hlen : ums.length ≤ mT.length) :
    proofFinalize env init c e (r1 :: r2 :: eT :: r1T :: r3T :: mT) ums
      = .ok ⟨init.Abar, init.Bbar, init.D, eT + e * c, r1T - r1 * c, r3T - r2⁻¹ * c,
          (mT.zip ums).map (fun tm => tm.1 + tm.2 * c), c⟩ := by
  unfold proofFinalize
  simp only []
  rw [if_neg (by omega), hl.sInv_ne _ hr2]

theorem proofFinalize_err_of_r2_zero (hl : Lawful env pair) (init : ProofInitResult S G1)
    (c e : S) (r1 eT r1T r3T : S) (mT ums : List S) (hlen : ums.length ≤ mT.length) :
    proofFinalize env init c e (r1 :: 0 :: eT :: r1T :: r3T :: mT) ums = .err := by
  unfold proofFinalize
  simp only []
  rw [if_neg (by omega), hl.sInv_zero]

theorem proofVerifyInit_ok (cs : Suite G1) (pk : G2) (π : PoKSignature S G1)
    (gens : Generators G1) (Q1 : G1) (Hs : List G1) (header apiId : Option Bytes)
    (dm : List S) (di : List Nat) (domain : S)
    (hA : π.Abar ≠ 0) (hB : π.Bbar ≠ 0) (hD : π.D ≠ 0)
    (hn : di.Nodup) (hdi : ∀ i ∈ di, i < π.mCap.length + di.length)
    (hdm : dm.length = di.length)
    (hv : gens.values = Q1 :: Hs) (hlen : Hs.length = π.mCap.length + di.length)
    (hd : calculateDomain env cs pk Q1 Hs header apiId = .ok domain) :
    proofVerifyInit env cs pk π gens header dm di apiId
      = .ok ⟨π.Abar, π.Bbar, π.D,
          π.challenge • π.Bbar + π.eCap • π.Abar + π.r1Cap • π.D,
          π.challenge • (gens.base + domain • Q1
              + ((di.zip dm).map fun p => p.2 • Hs.getD p.1 0).sum) + π.r3Cap • π.D
            + (((getRemainingIndexes (π.mCap.length + di.length) di).zip π.mCap).map
                fun p => p.2 • Hs.getD p.1 0).sum,
          domain⟩ := by
  unfold proofVerifyInit
  simp only []
  rw [if_neg (by simp [hA, hB, hD])]
  rw [if_neg (by
    simp only [List.any_eq_true, decide_eq_true_eq, not_exists, not_and]
    intro i hi; have := hdi i hi; omega)]
  rw [if_neg (by simp [hdm]), if_neg (by simp [hv, hlen])]
  rw [hv]
  simp only [hd]
  rw [sumIndexed_ok Hs di dm _ (by omega)
    (fun i hi => by have := hdi i (List.mem_of_mem_take hi); omega)]
  simp only []
  rw [sumIndexed_ok Hs _ π.mCap _
    (by rw [length_getRemainingIndexes hn hdi]; omega)
    (fun i hi => by
      have := (mem_getRemainingIndexes.mp (List.mem_of_mem_take hi)).1; omega)]

theorem proofChallengeCalculate_ok (cs : Suite G1) (init : ProofInitResult S G1)
    (di : List Nat) (dm : List S) (ph apiId : Option Bytes) (hlen : dm.length = di.length)
    (hH : HashTotal env cs (apiId.getD [] ++ cs.h2s)) :
    ∃ c, proofChallengeCalculate env cs init di dm ph apiId = .ok c := by
  unfold proofChallengeCalculate
  simp only []
  rw [if_neg (by simp [hlen])]
  exact hH _

/-! ### `coreProofGen` in closed form -/

/-- `coreProofGen` on in-range indexes, a verifying-shaped generator list and a long enough tape
with `r2 ≠ 0` returns the textbook proof. -/
theorem coreProofGen_ok (hl : Lawful env pair) (cs : Suite G1) (pk : G2) (σ : Signature S G1)
    (gens : Generators G1) (Q1 : G1) (Hs : List G1) (msgs : List S) (D : List Nat)
    (header ph apiId : Option Bytes) (r1 r2 eT r1T r3T : S) (mT : List S) (domain : S)
    (hv : gens.values = Q1 :: Hs) (hlen : Hs.length = msgs.length)
    (hd : calculateDomain env cs pk Q1 Hs header apiId = .ok domain)
    (hD : ∀ i ∈ D, i < msgs.length) (hr2 : r2 ≠ 0)
    (hmT : msgs.length - (sortDedup D).length ≤ mT.length)
    (hH : HashTotal env cs (apiId.getD [] ++ cs.h2s)) :
    ∃ c, proofChallengeCalculate env cs
        (initOf σ (calcB gens.base Q1 domain Hs msgs) Hs
          (getRemainingIndexes msgs.length (sortDedup D)) r1 r2 eT r1T r3T
          (mT.take (msgs.length - (sortDedup D).length)) domain)
        (sortDedup D) ((sortDedup D).map fun i => msgs.getD i 0) ph apiId = .ok c ∧
      coreProofGen env cs pk σ gens msgs D header ph apiId (r1 :: r2 :: eT :: r1T :: r3T :: mT)
        = .ok ⟨(r1 * r2) • σ.A,
            r1 • r2 • calcB gens.base Q1 domain Hs msgs - σ.e • (r1 * r2) • σ.A,
            r2 • calcB gens.base Q1 domain Hs msgs,
            eT + σ.e * c, r1T - r1 * c, r3T - r2⁻¹ * c,
            ((mT.take (msgs.length - (sortDedup D).length)).zip
              ((getRemainingIndexes msgs.length (sortDedup D)).map fun i => msgs.getD i 0)).map
              (fun tm => tm.1 + tm.2 * c), c⟩ := by
  have hdi : ∀ i ∈ sortDedup D, i < msgs.length := fun i hi => hD i (mem_sortDedup.mp hi)
  have hR : (sortDedup D).length ≤ msgs.length := sortDedup_length_le hD
  have hUlen : (getRemainingIndexes msgs.length (sortDedup D)).length
      = msgs.length - (sortDedup D).length :=
    length_getRemainingIndexes (sortDedup_nodup D) hdi
  have hUlt : ∀ i ∈ getRemainingIndexes msgs.length (sortDedup D), i < msgs.length :=
    fun i hi => (mem_getRemainingIndexes.mp hi).1
  obtain ⟨c, hc⟩ := proofChallengeCalculate_ok cs
    (initOf σ (calcB gens.base Q1 domain Hs msgs) Hs
      (getRemainingIndexes msgs.length (sortDedup D)) r1 r2 eT r1T r3T
      (mT.take (msgs.length - (sortDedup D).length)) domain)
    (sortDedup D) ((sortDedup D).map fun i => msgs.getD i 0) ph apiId (by simp) hH
  refine ⟨c, hc, ?_⟩
  have htake : List.take (5 + (msgs.length - (sortDedup D).length))
      (r1 :: r2 :: eT :: r1T :: r3T :: mT)
      = r1 :: r2 :: eT :: r1T :: r3T :: mT.take (msgs.length - (sortDedup D).length) := by
    rw [Nat.add_comm]; rfl
  unfold coreProofGen
  simp only []
  rw [if_neg (by simp [hv]), if_neg (by simp [hv, hlen]), if_neg (by omega)]
  rw [if_neg (by
    simp only [List.any_eq_true, decide_eq_true_eq, not_exists, not_and]
    intro i hi; have := hdi i hi; omega)]
  rw [getMessages_ok msgs 0 _ hdi, getMessages_ok msgs 0 _ hUlt]
  simp only []
  rw [htake, proofInit_ok cs pk σ gens Q1 Hs header apiId msgs _ r1 r2 eT r1T r3T _ domain hv hlen hd
    (by rw [List.length_take, hUlen]; omega) (by rw [hlen]; exact hUlt)]
  simp only []
  rw [hc]
  simp only []
  rw [proofFinalize_ok hl _ c σ.e r1 r2 eT r1T r3T _ _ hr2
    (by rw [List.length_map, List.length_take, hUlen]; omega)]
  rfl

/-- An out-of-range disclosed index makes `coreProofGen` return `Err` (no panic). -/
theorem coreProofGen_err_of_bad_index (cs : Suite G1) (pk : G2) (σ : Signature S G1)
    (gens : Generators G1) (msgs : List S) (D : List Nat) (header ph apiId : Option Bytes)
    (tape : List S) (hg : gens.values.length = msgs.length + 1)
    (hbad : ∃ i ∈ D, msgs.length ≤ i) :
    coreProofGen env cs pk σ gens msgs D header ph apiId tape = .err := by
  unfold coreProofGen
  simp only []
  rw [if_neg (by omega), if_neg (by omega)]
  split
  · rfl
  · rename_i hR
    rw [if_pos]
    simp only [List.any_eq_true, decide_eq_true_eq]
    obtain ⟨i, hi, hle⟩ := hbad
    have hne : sortDedup D ≠ [] := List.ne_nil_of_mem (mem_sortDedup.mpr hi)
    have := List.length_pos_of_ne_nil hne
    exact ⟨i, mem_sortDedup.mpr hi, by omega⟩

/-- `r2 = 0` makes `coreProofGen` return `Err` (the Rust `invert()` of `r2` fails). -/
theorem coreProofGen_err_of_r2_zero (hl : Lawful env pair) (cs : Suite G1) (pk : G2)
    (σ : Signature S G1) (gens : Generators G1) (msgs : List S) (D : List Nat)
    (header ph apiId : Option Bytes) (r1 eT r1T r3T : S) (mT : List S)
    (hg : gens.values.length = msgs.length + 1)
    (hmT : msgs.length - (sortDedup D).length ≤ mT.length) :
    coreProofGen env cs pk σ gens msgs D header ph apiId (r1 :: 0 :: eT :: r1T :: r3T :: mT)
      = .err := by
  by_cases hD : ∀ i ∈ D, i < msgs.length
  · have hdi : ∀ i ∈ sortDedup D, i < msgs.length := fun i hi => hD i (mem_sortDedup.mp hi)
    have hR : (sortDedup D).length ≤ msgs.length := sortDedup_length_le hD
    have hUlen : (getRemainingIndexes msgs.length (sortDedup D)).length
        = msgs.length - (sortDedup D).length :=
      length_getRemainingIndexes (sortDedup_nodup D) hdi
    have hUlt : ∀ i ∈ getRemainingIndexes msgs.length (sortDedup D), i < msgs.length :=
      fun i hi => (mem_getRemainingIndexes.mp hi).1
    have htake : List.take (5 + (msgs.length - (sortDedup D).length))
        (r1 :: 0 :: eT :: r1T :: r3T :: mT)
        = r1 :: 0 :: eT :: r1T :: r3T :: mT.take (msgs.length - (sortDedup D).length) := by
      rw [Nat.add_comm]; rfl
    cases hv : gens.values with
    | nil => rw [hv] at hg; simp at hg
    | cons Q1 Hs =>
      have hlen : Hs.length = msgs.length := by rw [hv] at hg; simpa using hg
      unfold coreProofGen
      simp only []
      rw [if_neg (by omega), if_neg (by omega), if_neg (by omega)]
      rw [if_neg (by
        simp only [List.any_eq_true, decide_eq_true_eq, not_exists, not_and]
        intro i hi; have := hdi i hi; omega)]
      rw [getMessages_ok msgs 0 _ hdi, getMessages_ok msgs 0 _ hUlt]
      simp only []
      rw [htake]
      cases hd : calculateDomain env cs pk Q1 Hs header apiId with
      | err => unfold proofInit; simp [hv, hd, hlen, hUlen]
      | panic => exact absurd hd (hashToScalar_ne_panic cs _ _)
      | ok domain =>
        rw [proofInit_ok cs pk σ gens Q1 Hs header apiId msgs _ r1 0 eT r1T r3T _ domain hv hlen hd
          (by rw [List.length_take, hUlen]; omega) (by rw [hlen]; exact hUlt)]
        simp only []
        split
        · rfl
        · rename_i hc
          unfold proofChallengeCalculate at hc
          simp only [] at hc
          split at hc
          · cases hc
          · exact absurd hc (hashToScalar_ne_panic cs _ _)
        · exact proofFinalize_err_of_r2_zero hl _ _ _ r1 eT r1T r3T _ _
            (by rw [List.length_map, List.length_take, hUlen]; omega)
  · have : ∃ i ∈ D, msgs.length ≤ i := by
      by_contra hc
      exact hD (fun i hi => Nat.lt_of_not_le (fun hle => hc ⟨i, hi, hle⟩))
    exact coreProofGen_err_of_bad_index cs pk σ gens msgs D header ph apiId _ hg this

/-! ### verification algebra -/

theorem T1_algebra (A B : G1) (e r1 r2 c eT r1T : S) :
    c • (r1 • r2 • B - e • (r1 * r2) • A) + (eT + e * c) • (r1 * r2) • A
        + (r1T - r1 * c) • r2 • B
      = eT • (r1 * r2) • A + r1T • r2 • B := by
  module

theorem T2_algebra (P SD SU ST : G1) (r2 r3T c : S) (hr2 : r2 ≠ 0) :
    c • (P + SD) + (r3T - r2⁻¹ * c) • r2 • (P + (SD + SU)) + (ST + c • SU)
      = r3T • r2 • (P + (SD + SU)) + ST := by
  have h : (r2⁻¹ * c) • r2 • (P + (SD + SU)) = c • (P + (SD + SU)) := by
    rw [smul_smul]; congr 1; field_simp
  rw [sub_smul, h]
  module

theorem Bbar_eq_sk_smul_Abar (A B : G1) (sk e r1 r2 : S) (h : (sk + e) • A = B) :
    r1 • r2 • B - e • (r1 * r2) • A = sk • (r1 * r2) • A := by
  rw [← h]; module

/-- The sum in `B`, split into disclosed and undisclosed positions. -/
theorem calcB_split (base Q1 : G1) (domain : S) (Hs : List G1) (msgs : List S) (di : List Nat)
    (hlen : Hs.length = msgs.length) (hn : di.Nodup) (hdi : ∀ i ∈ di, i < msgs.length) :
    calcB base Q1 domain Hs msgs
      = base + domain • Q1
        + ((di.map fun i => msgs.getD i 0 • Hs.getD i 0).sum
          + ((getRemainingIndexes msgs.length di).map fun i => msgs.getD i 0 • Hs.getD i 0).sum) := by
  rw [calcB_eq, sum_zip_eq_sum_range (fun hm : G1 × S => hm.2 • hm.1) 0 0 Hs msgs hlen, hlen,
    sum_range_eq_add_remaining _ hn hdi]

/-! ### completeness of the core functions -/

/-- **Core completeness, explicit form.** See `Zk.C03.core_proof_complete`. -/
theorem coreProof_complete_explicit (hl : Lawful env pair) (cs : Suite G1) (sk : S)
    (σ : Signature S G1) (gens : Generators G1) (Q1 : G1) (Hs : List G1) (msgs : List S)
    (D : List Nat) (header ph apiId : Option Bytes) (r1 r2 eT r1T r3T : S) (mT : List S)
    (domain : S)
    (hv : gens.values = Q1 :: Hs) (hlen : Hs.length = msgs.length)
    (hd : calculateDomain env cs (sk • env.bp2) Q1 Hs header apiId = .ok domain)
    (hsig : (sk + σ.e) • σ.A = calcB gens.base Q1 domain Hs msgs)
    (hD : ∀ i ∈ D, i < msgs.length)
    (hsk : sk ≠ 0) (hA : σ.A ≠ 0) (hske : sk + σ.e ≠ 0) (hr1 : r1 ≠ 0) (hr2 : r2 ≠ 0)
    (hmT : msgs.length - (sortDedup D).length ≤ mT.length)
    (hH : HashTotal env cs (apiId.getD [] ++ cs.h2s)) :
    ∃ π, coreProofGen env cs (sk • env.bp2) σ gens msgs D header ph apiId
          (r1 :: r2 :: eT :: r1T :: r3T :: mT) = .ok π ∧
      coreProofVerify env cs (sk • env.bp2) π gens header ph
          ((sortDedup D).map fun i => msgs.getD i 0) (sortDedup D) apiId = .ok () ∧
      π.mCap.length = msgs.length - (sortDedup D).length ∧
      π.Abar ≠ 0 ∧ π.Bbar ≠ 0 ∧ π.D ≠ 0 := by
  obtain ⟨c, hc, hgen⟩ := coreProofGen_ok hl cs (sk • env.bp2) σ gens Q1 Hs msgs D header ph apiId
    r1 r2 eT r1T r3T mT domain hv hlen hd hD hr2 hmT hH
  refine ⟨_, hgen, ?_⟩
  have hdi : ∀ i ∈ sortDedup D, i < msgs.length := fun i hi => hD i (mem_sortDedup.mp hi)
  have hR : (sortDedup D).length ≤ msgs.length := sortDedup_length_le hD
  have hn := sortDedup_nodup D
  have hUlen : (getRemainingIndexes msgs.length (sortDedup D)).length
      = msgs.length - (sortDedup D).length := length_getRemainingIndexes hn hdi
  -- non-zero points
  have hB0 : calcB gens.base Q1 domain Hs msgs ≠ 0 := by
    rw [← hsig]; intro h0
    rcases smul_eq_zero_field h0 with h | h
    · exact hske h
    · exact hA h
  have hAbar : (r1 * r2) • σ.A ≠ 0 := by
    intro h0
    rcases smul_eq_zero_field h0 with h | h
    · rcases mul_eq_zero.mp h with h | h
      · exact hr1 h
      · exact hr2 h
    · exact hA h
  have hDp : r2 • calcB gens.base Q1 domain Hs msgs ≠ 0 := by
    intro h0
    rcases smul_eq_zero_field h0 with h | h
    · exact hr2 h
    · exact hB0 h
  have hBbar_eq := Bbar_eq_sk_smul_Abar σ.A _ sk σ.e r1 r2 hsig
  have hBbar : r1 • r2 • calcB gens.base Q1 domain Hs msgs - σ.e • (r1 * r2) • σ.A ≠ 0 := by
    rw [hBbar_eq]; intro h0
    rcases smul_eq_zero_field h0 with h | h
    · exact hsk h
    · exact hAbar h
  -- length of the response vector
  have hmCap : (((mT.take (msgs.length - (sortDedup D).length)).zip
      ((getRemainingIndexes msgs.length (sortDedup D)).map fun i => msgs.getD i 0)).map
      (fun tm => tm.1 + tm.2 * c)).length = msgs.length - (sortDedup D).length := by
    simp only [List.length_map, List.length_zip, List.length_take, hUlen]; omega
  have hL : msgs.length - (sortDedup D).length + (sortDedup D).length = msgs.length := by omega
  refine ⟨?_, hmCap, hAbar, hBbar, hDp⟩
  -- the verifier recomputes the prover's commitments
  have hvi := proofVerifyInit_ok cs (sk • env.bp2)
    (⟨(r1 * r2) • σ.A,
      r1 • r2 • calcB gens.base Q1 domain Hs msgs - σ.e • (r1 * r2) • σ.A,
      r2 • calcB gens.base Q1 domain Hs msgs,
      eT + σ.e * c, r1T - r1 * c, r3T - r2⁻¹ * c,
      ((mT.take (msgs.length - (sortDedup D).length)).zip
        ((getRemainingIndexes msgs.length (sortDedup D)).map fun i => msgs.getD i 0)).map
        (fun tm => tm.1 + tm.2 * c), c⟩ : PoKSignature S G1)
    gens Q1 Hs header apiId ((sortDedup D).map fun i => msgs.getD i 0) (sortDedup D) domain
    hAbar hBbar hDp hn (by simp only [hmCap, hL]; exact hdi) (by simp)
    hv (by simp only [hmCap, hL]; exact hlen) hd
  simp only [hmCap, hL] at hvi
  have hinit : (⟨(r1 * r2) • σ.A,
      r1 • r2 • calcB gens.base Q1 domain Hs msgs - σ.e • (r1 * r2) • σ.A,
      r2 • calcB gens.base Q1 domain Hs msgs,
      c • (r1 • r2 • calcB gens.base Q1 domain Hs msgs - σ.e • (r1 * r2) • σ.A)
        + (eT + σ.e * c) • (r1 * r2) • σ.A + (r1T - r1 * c) • r2 • calcB gens.base Q1 domain Hs msgs,
      c • (gens.base + domain • Q1
          + (((sortDedup D).zip ((sortDedup D).map fun i => msgs.getD i 0)).map
              fun p => p.2 • Hs.getD p.1 0).sum)
        + (r3T - r2⁻¹ * c) • r2 • calcB gens.base Q1 domain Hs msgs
        + (((getRemainingIndexes msgs.length (sortDedup D)).zip
            (((mT.take (msgs.length - (sortDedup D).length)).zip
              ((getRemainingIndexes msgs.length (sortDedup D)).map fun i => msgs.getD i 0)).map
              (fun tm => tm.1 + tm.2 * c))).map fun p => p.2 • Hs.getD p.1 0).sum,
      domain⟩ : ProofInitResult S G1)
      = initOf σ (calcB gens.base Q1 domain Hs msgs) Hs
          (getRemainingIndexes msgs.length (sortDedup D)) r1 r2 eT r1T r3T
          (mT.take (msgs.length - (sortDedup D).length)) domain := by
    unfold initOf
    congr 1
    · exact T1_algebra _ _ _ _ _ _ _ _
    · rw [sum_zip_map_self (fun i => Hs.getD i 0) (fun i => msgs.getD i 0),
        sum_zip_mCap (fun i => Hs.getD i 0) (fun i => msgs.getD i 0) c _ _
          (by rw [List.length_take, hUlen]; omega),
        calcB_split gens.base Q1 domain Hs msgs (sortDedup D) hlen hn hdi]
      exact T2_algebra _ _ _ _ _ _ _ hr2
  rw [hinit] at hvi
  unfold coreProofVerify
  rw [hvi]
  simp only []
  rw [hc]
  simp only [ne_eq, not_true_eq_false, if_false]
  rw [hBbar_eq, if_pos ((pairing_proof_iff hl sk _ _).mpr rfl)]

/-! ### the proof codec -/

theorem flatMap_enc_length {α} {enc : α → Bytes} {dec} {n : Nat} (c : Codec enc dec n)
    (l : List α) : (l.flatMap enc).length = n * l.length := by
  induction l with
  | nil => simp
  | cons a l ih => simp [List.flatMap_cons, ih, c.enc_len, Nat.mul_add, Nat.add_comm]

/-- Cutting the concatenation of 32-byte encodings into 32-byte chunks gives the encodings. -/
theorem chunks32_flatMap {α} {enc : α → Bytes} {dec} (c : Codec enc dec 32) :
    ∀ (l : List α) (n : Nat), l.length ≤ n → chunks32 n (l.flatMap enc) = l.map enc
  | [], 0, _ => rfl
  | [], n + 1, _ => by simp [chunks32]
  | a :: l, 0, h => by simp at h
  | a :: l, n + 1, h => by
    have ha := c.enc_len a
    have ih := chunks32_flatMap c l n (by simpa using h)
    simp only [List.flatMap_cons, chunks32, List.map_cons]
    rw [if_neg (by simp [ha]), List.take_left' ha, List.drop_left' ha, ih]

theorem decodeScalars_map_enc (hl : Lawful env pair) (l : List S) :
    decodeScalars env (l.map env.sEnc) = .ok l := by
  unfold decodeScalars
  induction l with
  | nil => rfl
  | cons a l ih => simp only [List.map_cons, mapRes, hl.sCodec.dec_enc, ih]; rfl

/-- **Proof length**: three points, four scalars and one scalar per undisclosed message. -/
theorem PoKSignature.toBytes_length (hl : Lawful env pair) (π : PoKSignature S G1) :
    (π.toBytes env).length = 272 + 32 * π.mCap.length := by
  unfold PoKSignature.toBytes
  simp only [List.length_append, hl.g1Codec.enc_len, hl.sCodec.enc_len,
    flatMap_enc_length hl.sCodec]
  omega

/-- **Proof round trip**: decoding the encoding of a proof with non-identity points gives it
back. -/
theorem PoKSignature.fromBytes_toBytes (hl : Lawful env pair) (π : PoKSignature S G1)
    (hA : π.Abar ≠ 0) (hB : π.Bbar ≠ 0) (hD : π.D ≠ 0) :
    PoKSignature.fromBytes env (π.toBytes env) = .ok π := by
  have hlen := PoKSignature.toBytes_length hl π
  have lA := hl.g1Codec.enc_len π.Abar
  have lB := hl.g1Codec.enc_len π.Bbar
  have lD := hl.g1Codec.enc_len π.D
  have le := hl.sCodec.enc_len π.eCap
  have l1 := hl.sCodec.enc_len π.r1Cap
  have l3 := hl.sCodec.enc_len π.r3Cap
  have hb : π.toBytes env = env.g1Enc π.Abar ++ (env.g1Enc π.Bbar ++ (env.g1Enc π.D ++
      (env.sEnc π.eCap ++ (env.sEnc π.r1Cap ++ (env.sEnc π.r3Cap ++
        (π.mCap ++ [π.challenge]).flatMap env.sEnc))))) := by
    simp [PoKSignature.toBytes, List.flatMap_append]
  have d48 : (π.toBytes env).drop 48 = env.g1Enc π.Bbar ++ (env.g1Enc π.D ++
      (env.sEnc π.eCap ++ (env.sEnc π.r1Cap ++ (env.sEnc π.r3Cap ++
        (π.mCap ++ [π.challenge]).flatMap env.sEnc)))) := by
    rw [hb, List.drop_left' lA]
  have d96 : (π.toBytes env).drop 96 = env.g1Enc π.D ++
      (env.sEnc π.eCap ++ (env.sEnc π.r1Cap ++ (env.sEnc π.r3Cap ++
        (π.mCap ++ [π.challenge]).flatMap env.sEnc))) := by
    rw [show (96 : Nat) = 48 + 48 from rfl, ← List.drop_drop, d48, List.drop_left' lB]
  have d144 : (π.toBytes env).drop 144 =
      env.sEnc π.eCap ++ (env.sEnc π.r1Cap ++ (env.sEnc π.r3Cap ++
        (π.mCap ++ [π.challenge]).flatMap env.sEnc)) := by
    rw [show (144 : Nat) = 96 + 48 from rfl, ← List.drop_drop, d96, List.drop_left' lD]
  have d176 : (π.toBytes env).drop 176 = env.sEnc π.r1Cap ++ (env.sEnc π.r3Cap ++
        (π.mCap ++ [π.challenge]).flatMap env.sEnc) := by
    rw [show (176 : Nat) = 144 + 32 from rfl, ← List.drop_drop, d144, List.drop_left' le]
  have d208 : (π.toBytes env).drop 208 = env.sEnc π.r3Cap ++
        (π.mCap ++ [π.challenge]).flatMap env.sEnc := by
    rw [show (208 : Nat) = 176 + 32 from rfl, ← List.drop_drop, d176, List.drop_left' l1]
  have d240 : (π.toBytes env).drop 240 = (π.mCap ++ [π.challenge]).flatMap env.sEnc := by
    rw [show (240 : Nat) = 208 + 32 from rfl, ← List.drop_drop, d208, List.drop_left' l3]
  have hchunks : chunks32 ((π.mCap ++ [π.challenge]).flatMap env.sEnc).length
      ((π.mCap ++ [π.challenge]).flatMap env.sEnc) = (π.mCap ++ [π.challenge]).map env.sEnc :=
    chunks32_flatMap hl.sCodec _ _ (by rw [flatMap_enc_length hl.sCodec]; omega)
  unfold PoKSignature.fromBytes
  rw [if_neg (by omega)]
  simp only [d48, d96, d144, d176, d208, d240]
  rw [hb]
  simp only [List.take_left' lA, List.take_left' lB, List.take_left' lD, List.take_left' le,
    List.take_left' l1, List.take_left' l3, hl.g1Codec.dec_enc, hl.sCodec.dec_enc, hchunks,
    decodeScalars_map_enc hl]
  rw [if_neg (by simp [hA, hB, hD])]
  simp

/-- Decoding is strict about length: only `272 + 32k` octets can decode. -/
theorem PoKSignature.fromBytes_ok_length (b : Bytes) (π : PoKSignature S G1)
    (h : PoKSignature.fromBytes env b = .ok π) : 272 ≤ b.length ∧ (b.length - 240) % 32 = 0 := by
  unfold PoKSignature.fromBytes at h
  split at h
  · cases h
  · omega

end
end Zk
